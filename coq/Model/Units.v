(* Model of base/unixutil, driver/clocks SystemClock.Drift, and the
   conversion functions of net/csptp. *)
From ST Require Import Base.Ints Base.F64 Model.NtpTime.
Open Scope Z_scope.

(* unixutil.TimevalFromNsec *)
Definition timeval_from_nsec (n : Z) : Z * Z :=
  let sec := go_div n 1000000000 in
  let ns := go_rem n 1000000000 in
  if ns <? 0 then (i64 (sec - 1), i64 (ns + 1000000000)) else (sec, ns).

(* unixutil.ScaledPPMFromFreq / FreqFromScaledPPM; 65536.0 * 1e6 is the exact constant 65536000000 *)
Definition scale_const : f64 := f_of_int 65536000000.
Definition scaled_ppm_from_freq (f : f64) : Z := f_to_i64 (fmul f scale_const).
Definition freq_from_scaled_ppm (x : Z) : f64 := fdiv (f_of_int x) scale_const.

(* clocks.SystemClock.Drift: c.drift = drift.Seconds() (set by NewSystemClock) *)
Definition sysclk_drift (drift_ns d : Z) : Z :=
  let drift := dur_seconds drift_ns in
  if feq drift fzero then max_i64
  else dur_of_seconds (fmul (dur_seconds d) drift).

(* csptp.TimestampFromTime: None = panic *)
Definition csptp_ts_of_time (t : Z) : option (Z * Z) :=
  let s := time_sec t in
  if s <? 0 then None
  else if 281474976710655 <? s then None
  else Some (s, u32 (time_nsec t)).   (* the six bytes are the big-endian digits of s *)

(* csptp.TimeFromTimestamp: 48-bit seconds, 32-bit nanoseconds *)
Definition csptp_time_of_ts (s ns : Z) : Z := mk_time s ns.

(* csptp.DurationFromTimeInterval: arithmetic shift *)
Definition csptp_dur_of_interval (i : Z) : Z := Z.shiftr i 16.

Definition d_sub (a b : Z) : Z := i64 (a - b).
Definition d_add (a b : Z) : Z := i64 (a + b).

Definition csptp_c2s_delay (t0 t1 t1c utc : Z) : Z := d_sub (d_sub (time_sub t1 t0) t1c) utc.
Definition csptp_s2c_delay (t2 t3 t3c utc : Z) : Z := d_add (d_sub (time_sub t3 t2) t3c) utc.
Definition csptp_mean_path_delay (t0 t1 t2 t3 t1c t3c : Z) : Z :=
  go_div (d_add (d_sub (time_sub t1 t0) t1c) (d_sub (time_sub t3 t2) t3c)) 2.
Definition csptp_clock_offset (t0 t1 t2 t3 t1c t3c : Z) : Z :=
  go_div (d_sub (d_sub (time_sub t1 t0) t1c) (d_sub (time_sub t3 t2) t3c)) 2.

(* property oracles, from the property text *)
Definition C18_timeval_ok (n sec usec : Z) : bool :=
  (0 <=? usec) && (usec <? 1000000000) && (sec * 1000000000 + usec =? n).
Definition C18_freq_ok (x back : Z) : bool :=
  if (Z.abs x <=? 32768000) then Z.abs (back - x) <=? 1 else true.
Definition C18_interval_ok (i d : Z) : bool := (d * 65536 <=? i) && (i <? (d + 1) * 65536).

(* "the drift allowance is proportional to the interval": for a configured drift of drift_ns
   ns per second (> 0) and an interval d >= 0 whose true allowance drift_ns*d/10^9 stays below
   2^62 ns, the reported allowance D is non-negative, zero for the empty interval, and within
   1 ns + 2^-48 (relative) of drift_ns*d/10^9 -- the room a float64 evaluation and the final
   conversion to whole nanoseconds need.  Stated on drift_ns*d = 10^9 * (true allowance) so that
   everything is integer. *)
Definition C18_drift_range (drift_ns d : Z) : bool :=
  (0 <? drift_ns) && (0 <=? d) && (drift_ns * d <? 2^62 * 1000000000).
Definition C18_drift_ok (drift_ns d D : Z) : bool :=
  if C18_drift_range drift_ns d then
    let q := drift_ns * d in
    (0 <=? D) && (if d =? 0 then D =? 0 else true) &&
    (Z.abs (D * 1000000000 - q) * 2^48 <=? 1000000000 * 2^48 + q)
  else true.

(* proportionality without reference to the configured constant: the allowances D1, D2, D12
   reported for intervals d1, d2 and d1 + d2 are monotone (a longer interval never gets a
   smaller allowance) and additive up to the three conversions to whole nanoseconds (3 ns) and
   2^-46 relative.  (d1 + d2 within int64: the interval is a time.Duration.) *)
Definition C18_drift_add_ok (drift_ns d1 d2 D1 D2 D12 : Z) : bool :=
  if (0 <=? d1) && (0 <=? d2) && (d1 + d2 <=? max_i64) && C18_drift_range drift_ns (d1 + d2) then
    (0 <=? D1) && (0 <=? D2) && (D1 <=? D12) && (D2 <=? D12) &&
    (if d1 <=? d2 then D1 <=? D2 else D2 <=? D1) &&
    (Z.abs (D12 - D1 - D2) * 2^46 <=? 3 * 2^46 + D12 + 1)
  else true.
