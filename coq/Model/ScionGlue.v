(* C13 - model of the SCION packet handling of the time service:
     core/server/server_scion.go   runSCIONServer (SCMP echo/traceroute reply,
                                   forwarding branch, NTP branch with the SPAO check
                                   and the authenticated reply)
     core/client/client_scion.go   measureClockOffsetSCION, the receive loop
                                   (address checks, response-side SPAO check, retry rule)
     net/scion/auth.go             SPI / algorithm metadata, PreparePacketAuthOpt
     net/scion/fetcher.go, drkey.go  key fetch (an input: [fetch_key])

   Packets are abstract records (what gopacket/slayers parsing yields: the
   parser itself is scionproto's and is an input).  External functions are
   Section variables:
     mac        spao.ComputeAuthCMAC under a key, as a function of exactly the
                packet fields scionproto feeds into the CMAC for a DRKey
                host-host SPI ([macin])
     reverse    Path.Reverse() of the path library
     fetch_key  Fetcher.FetchHostASKey + DeriveHostHostKey (server) /
                Fetcher.FetchHostHostKey (client)
     ntp_handle ntp.DecodePacket .. handleRequest .. ntp.EncodePacket: the reply
                payload for a request payload (C06/C09 are about its contents)
   No proofs in this file. *)
From Coq Require Import ZArith List Bool.
From ST Require Import Base.Ints.
Import ListNotations.
Open Scope Z_scope.

Definition bytes := list Z.

Fixpoint bytes_eqb (a b : bytes) : bool :=
  match a, b with
  | [], [] => true
  | x :: a', y :: b' => (x =? y) && bytes_eqb a' b'
  | _, _ => false
  end.

Definition zlen {A} (l : list A) : Z := Z.of_nat (length l).

(* ---- constants (net/scion/auth.go, net/scion/underlay.go, slayers) ---- *)
Definition endhost_port : Z := 30041.
Definition L4_UDP : Z := 17.
Definition L4_SCMP : Z := 202.
Definition HBH_CLASS : Z := 200.
Definition E2E_CLASS : Z := 201.
Definition OPT_AUTH : Z := 2.          (* slayers.OptTypeAuthenticator *)
Definition OPT_TIMESTAMP : Z := 253.   (* scion.OptTypeTimestamp *)
Definition auth_opt_data_len : Z := 28.  (* PacketAuthMetadataLen 12 + PacketAuthMACLen 16 *)
(* PacketAuthSPIClient = hostHost<<17 | receiverSide<<16 | 123 ; PacketAuthSPIServer = hostHost<<17 | senderSide<<16 | 123 *)
Definition spi_client : Z := Z.lor (Z.lor (Z.shiftl 1 17) (Z.shiftl 1 16)) 123.
Definition spi_server : Z := Z.lor (Z.lor (Z.shiftl 1 17) (Z.shiftl 0 16)) 123.
Definition auth_algorithm : Z := 0.
Definition SCMP_ECHO_REQUEST : Z := 128.
Definition SCMP_ECHO_REPLY : Z := 129.
Definition SCMP_TRACEROUTE_REQUEST : Z := 130.
Definition SCMP_TRACEROUTE_REPLY : Z := 131.
(* decoded layer types *)
Definition LT_SCION : Z := 1.
Definition LT_HBH : Z := 2.
Definition LT_E2E : Z := 3.
Definition LT_UDP : Z := 4.
Definition LT_SCMP : Z := 5.

(* ---- packets ---- *)
Record hdr := mkHdr {
  h_dst_ia : Z; h_src_ia : Z; h_dst_type : Z; h_src_type : Z;
  h_dst_raw : bytes; h_src_raw : bytes;
  h_path_type : Z; h_path : bytes;
  h_tc : Z; h_flow : Z; h_next : Z }.

Record opt := mkOpt { o_type : Z; o_data : bytes }.

Inductive l4 :=
| Udp (src dst len : Z) (payload : bytes)
| Scmp (typ code : Z) (payload : bytes)
| NoL4.

(* a received datagram after parser.DecodeLayers *)
Record rx := mkRx {
  rx_ok : bool;            (* DecodeLayers returned no error *)
  rx_layers : list Z;      (* decoded *)
  rx_hdr : hdr;
  rx_opts : list opt;      (* options of the end-to-end extension, if decoded *)
  rx_l4 : l4;
  rx_buflen : Z;           (* len(buf) *)
  rx_ntp_ok : bool }.      (* the UDP payload is a request the NTP part serves (C09) *)

(* a datagram handed to the serialiser *)
Record tx := mkTx { tx_hdr : hdr; tx_e2e : option (list opt); tx_l4 : l4 }.

Inductive dest := ToLastHop | ToHostPort (host : bytes) (port : Z).

Inductive action :=
| Drop (why : Z)
| Send (d : dest) (t : tx).

(* The L4 part of the MAC input is the L4 part AS PARSED: the UDP header fields and the
   payload that the UDP length field delimits - the same bytes the NTP part then
   evaluates ([Udp s d n p] of [rx_l4]) - not whatever bytes end the datagram
   (fix: the repair of the MAC input in listener and client; before it both took
   the last [n] bytes of the datagram, so a datagram  UDP'(n) | forged payload |
   genuine UDP header | genuine payload  with the genuine authenticator verified
   while the forged payload was served / accepted).
   what scionproto's serializeAuthenticatedData + payload feed into the CMAC
   for a DRKey host-host SPI: option metadata (SPI selects the layout,
   algorithm, timestamp/sequence number), the immutable header fields, the
   path (its mutable fields are zeroed by the library), the payload type and
   the L4 header and payload.  ISD-AS and host addresses are not part of it
   (they select the key). *)
Record macin := mkMacin {
  mi_spi : Z; mi_algo : Z; mi_tssn : bytes;
  mi_tc : Z; mi_flow : Z; mi_path_type : Z; mi_dst_type : Z; mi_src_type : Z; mi_path : bytes;
  mi_pld_type : Z; mi_src_port : Z; mi_dst_port : Z; mi_len : Z; mi_payload : bytes }.

Record keyreq := mkKeyreq { kr_fast_ia : Z; kr_slow_ia : Z; kr_fast_host : bytes; kr_slow_host : bytes }.

Definition be32 (b : bytes) : Z :=
  match b with
  | b0 :: b1 :: b2 :: b3 :: _ => Z.lor (Z.lor (Z.lor b3 (Z.shiftl b2 8)) (Z.shiftl b1 16)) (Z.shiftl b0 24)
  | _ => -1
  end.

(* PacketAuthOptMetadata / PacketAuthOptMAC *)
Definition opt_spi (o : opt) : Z := be32 (o_data o).
Definition opt_algo (o : opt) : Z := nth 4 (o_data o) (-1).
Definition opt_tssn (o : opt) : bytes := firstn 6 (skipn 6 (o_data o)).
Definition opt_mac (o : opt) : bytes := skipn 12 (o_data o).

Definition find_opt (t : Z) (os : list opt) : option opt := find (fun o => o_type o =? t) os.

Definition last_layer (l : list Z) : Z := last l 0.
Definition second_last_layer (l : list Z) : Z := nth (length l - 2) l 0.

Definition valid_type (l : list Z) : bool :=
  (2 <=? zlen l) && ((last_layer l =? LT_UDP) || (last_layer l =? LT_SCMP)).

(* netip.AddrFromSlice *)
Definition host_ok (raw : bytes) : bool := (zlen raw =? 4) || (zlen raw =? 16).

Definition udp_fields (l : l4) : option (Z * Z * Z * bytes) :=
  match l with Udp s d n p => Some (s, d, n, p) | _ => None end.

Definition macin_of (spi algo : Z) (tssn : bytes) (h : hdr) (pld_type : Z) (l : l4) : macin :=
  match l with
  | Udp s d n p =>
      mkMacin spi algo tssn (Z.land (h_tc h) 63) (h_flow h) (h_path_type h) (h_dst_type h) (h_src_type h) (h_path h)
              pld_type s d n p
  | _ => mkMacin spi algo tssn (Z.land (h_tc h) 63) (h_flow h) (h_path_type h) (h_dst_type h) (h_src_type h) (h_path h)
              pld_type 0 0 0 []
  end.

(* the MAC the receiving side computes for an option of a received datagram *)
Definition macin_rx (o : opt) (q : rx) : macin :=
  macin_of (opt_spi o) (opt_algo o) (opt_tssn o) (rx_hdr q) L4_UDP (rx_l4 q).

(* spao handles the registered path types only (empty, SCION, one-hop, EPIC) *)
Definition mac_computable (h : hdr) : bool := h_path_type h <? 4.

Definition swap_hdr (h : hdr) (ptype : Z) (p : bytes) (tc next : Z) : hdr :=
  mkHdr (h_src_ia h) (h_dst_ia h) (h_src_type h) (h_dst_type h) (h_src_raw h) (h_dst_raw h)
        ptype p tc (h_flow h) next.

Definition set_next (h : hdr) (next : Z) : hdr :=
  mkHdr (h_dst_ia h) (h_src_ia h) (h_dst_type h) (h_src_type h) (h_dst_raw h) (h_src_raw h)
        (h_path_type h) (h_path h) (h_tc h) (h_flow h) next.

(* PreparePacketAuthOpt: SPI, algorithm, zero timestamp / sequence number *)
Definition meta_bytes (spi algo : Z) : bytes :=
  [Z.land (Z.shiftr spi 24) 255; Z.land (Z.shiftr spi 16) 255; Z.land (Z.shiftr spi 8) 255; Z.land spi 255;
   Z.land algo 255; 0; 0; 0; 0; 0; 0; 0].

Inductive authres :=
| NoAuth                          (* nothing to check: served / accepted unauthenticated *)
| AuthOk (k : bytes) (o : opt)
| AuthBad.

Section Model.

Variable mac : bytes -> macin -> bytes.
Variable reverse : Z * bytes -> option (Z * bytes).
Variable fetch_key : keyreq -> option bytes.
Variable ntp_handle : bytes -> bytes.

(* ---------------- server: one iteration of runSCIONServer ---------------- *)

Record scfg := mkScfg {
  s_local_port : Z;     (* localHostPort *)
  s_conn_port : Z;      (* localConnPort: the port this socket listens on *)
  s_dscp : Z;
  s_fetcher : bool }.   (* fetcher != nil *)

(* the check of the request's authenticator *)
Definition server_auth (c : scfg) (q : rx) : authres :=
  if s_fetcher c && (3 <=? zlen (rx_layers q)) && (second_last_layer (rx_layers q) =? LT_E2E) then
    match find_opt OPT_AUTH (rx_opts q) with
    | Some o =>
        (* SPI and algorithm are read from the first five bytes of the option data (opt_algo is -1
           for a shorter option).  An authenticator of the time service whose data does not have
           28 bytes cannot verify, and neither can one for which no key is to be had: the packet is
           dropped (fix: the repairs of the length test and of the key-fetch error branch; before
           them such a request was served like an unauthenticated one) *)
        if (opt_spi o =? spi_client) && (opt_algo o =? auth_algorithm) then
          if zlen (o_data o) =? auth_opt_data_len then
            let h := rx_hdr q in
            match fetch_key (mkKeyreq (h_dst_ia h) (h_src_ia h) (h_dst_raw h) (h_src_raw h)) with
            | None => AuthBad
            | Some k =>
                (* spao cannot compute the MAC for an unregistered path type: the packet is
                   not verified (fix: commit 5a2eaf3; before it the listener panicked here) *)
                if mac_computable h && bytes_eqb (opt_mac o) (mac k (macin_rx o q)) then AuthOk k o else AuthBad
            end
          else AuthBad
        else NoAuth
    | None => NoAuth
    end
  else NoAuth.

Definition scmp_reply_type (t : Z) : option Z :=
  if t =? SCMP_ECHO_REQUEST then Some SCMP_ECHO_REPLY
  else if t =? SCMP_TRACEROUTE_REQUEST then Some SCMP_TRACEROUTE_REPLY
  else None.

(* the forwarded packet: same header and L4; the end-to-end extension gets the
   receive timestamp option when the kernel delivered one ([oob] non-empty).
   A packet whose first extension is not the end-to-end extension goes out
   without its extensions: behind a fresh end-to-end extension holding the
   timestamp option, or - no timestamp - as SCION/UDP (fix: the repair of the
   forwarding branch; before it NextHdr kept naming the hop-by-hop extension
   although no extension was written) *)
Definition forward_tx (q : rx) (oob : bytes) : tx :=
  let h := rx_hdr q in
  let ts := mkOpt OPT_TIMESTAMP oob in
  let had_e2e := h_next h =? E2E_CLASS in
  let has_oob := negb (zlen oob =? 0) in
  let next := if has_oob || had_e2e then E2E_CLASS else L4_UDP in
  let opts := (if had_e2e then rx_opts q else []) ++ (if has_oob then [ts] else []) in
  mkTx (set_next h next) (if next =? E2E_CLASS then Some opts else None) (rx_l4 q).

Definition server_step (c : scfg) (q : rx) (oob : bytes) : action :=
  if negb (rx_ok q) then Drop 1
  else if negb (valid_type (rx_layers q)) then Drop 2
  else
    let h := rx_hdr q in
    match rx_l4 q with
    | NoL4 => Drop 2
    | Scmp typ code payload =>
        if negb (last_layer (rx_layers q) =? LT_SCMP) then Drop 2 else
        match scmp_reply_type typ with
        | None => Drop 3
        | Some rt =>
            match reverse (h_path_type h, h_path h) with
            | None => Drop 4
            | Some (pt, p) =>
                Send ToLastHop (mkTx (swap_hdr h pt p (h_tc h) L4_SCMP) None (Scmp rt 0 payload))
            end
        end
    | Udp sport dport len payload =>
        if negb (last_layer (rx_layers q) =? LT_UDP) then Drop 2
        else if rx_buflen q <? len then Drop 5
        else if negb (host_ok (h_src_raw h)) then Drop 6
        else if negb (host_ok (h_dst_raw h)) then Drop 7
        else if negb (dport =? s_local_port c) then
          (* not for this service: forward to the end host's port, only from the
             end-host port listener and never to the end-host port itself *)
          if negb (s_conn_port c =? endhost_port) || (dport =? endhost_port) then Drop 8
          else Send (ToHostPort (h_dst_raw h) dport) (forward_tx q oob)
        else if s_local_port c =? endhost_port then Drop 9
        else
          match server_auth c q with
          | AuthBad => Drop 10
          | a =>
              if negb (rx_ntp_ok q) then Drop 11 else
              match reverse (h_path_type h, h_path h) with
              | None => Drop 4
              | Some (pt, p) =>
                  let rh := swap_hdr h pt p (u8 (Z.shiftl (s_dscp c) 2)) L4_UDP in
                  let rpl := ntp_handle payload in
                  let rl4 := Udp dport sport (8 + zlen rpl) rpl in
                  match a with
                  | AuthOk k _ =>
                      let meta := meta_bytes spi_server auth_algorithm in
                      let tag := mac k (macin_of spi_server auth_algorithm [0;0;0;0;0;0] rh (h_next rh) rl4) in
                      Send ToLastHop (mkTx (set_next rh E2E_CLASS) (Some [mkOpt OPT_AUTH (meta ++ tag)]) rl4)
                  | _ => Send ToLastHop (mkTx rh None rl4)
                  end
              end
          end
    end.

(* ---------------- client: the receive loop of measureClockOffsetSCION ---------------- *)

Record ccfg := mkCcfg {
  c_key : option bytes;   (* authKey: Some iff Auth.Enabled and the host-host key was fetched *)
  c_local_ia : Z; c_local_host : bytes;
  c_remote_ia : Z; c_remote_host : bytes;
  c_auth : bool }.        (* Auth.Enabled *)

(* netip.Addr.Unmap *)
Definition unmap (raw : bytes) : bytes :=
  if (zlen raw =? 16) && bytes_eqb (firstn 12 raw) [0;0;0;0;0;0;0;0;0;0;255;255] then skipn 12 raw else raw.

(* slayers.T4Ip = 0, slayers.T16Ip = 3: the address types of IP hosts *)
Definition ip_type (t : Z) : bool := (t =? 0) || (t =? 3).

(* compareIPs(x, y) == 0 *)
Definition same_ip (x y : bytes) : bool := host_ok x && host_ok y && bytes_eqb (unmap x) (unmap y).

Definition client_auth (c : ccfg) (q : rx) : authres :=
  if (3 <=? zlen (rx_layers q)) && (second_last_layer (rx_layers q) =? LT_E2E) then
    match c_key c with
    | None =>
        (* authentication enabled but no key (the fetch failed): a response that carries the
           server's authenticator cannot be verified and is skipped (fix: the repair of the
           client's no-key path; before it the authenticator was not looked at) *)
        if c_auth c then
          match find_opt OPT_AUTH (rx_opts q) with
          | Some o => if (zlen (o_data o) =? auth_opt_data_len) && (opt_spi o =? spi_server) && (opt_algo o =? auth_algorithm)
                      then AuthBad else NoAuth
          | None => NoAuth
          end
        else NoAuth
    | Some k =>
        match find_opt OPT_AUTH (rx_opts q) with
        | Some o =>
            if zlen (o_data o) =? auth_opt_data_len then
              if (opt_spi o =? spi_server) && (opt_algo o =? auth_algorithm) then
                if mac_computable (rx_hdr q) && bytes_eqb (opt_mac o) (mac k (macin_rx o q)) then AuthOk k o else AuthBad
              else NoAuth
            else NoAuth
        | None => NoAuth
        end
    end
  else NoAuth.

(* error classes: 1 decoding, 2 unexpected packet, 3 invalid authenticator,
   4 NTP payload size, 5 unexpected NTP response, 6 timeout *)
Inductive check :=
| Retry (cls : Z)      (* the datagram is skipped if a retry is left, else the error is returned *)
| Fatal (cls : Z)      (* the error is returned at once *)
| Acc (authenticated : bool).

(* ntpc: verdict of the NTP part on the payload (0 fine, 1 too short, 2 origin
   does not match the request, 3 bad metadata, 4 bad timestamps) *)
Definition client_check (c : ccfg) (q : rx) (ntpc : Z) : check :=
  if negb (rx_ok q) then Retry 1
  else if negb (valid_type (rx_layers q)) then Retry 2
  else if last_layer (rx_layers q) =? LT_SCMP then Retry 2
  else match rx_l4 q with
  | Udp sport dport len payload =>
      let h := rx_hdr q in
      if rx_buflen q <? len then Retry 2
      (* validSrc / validDst: ISD-AS, an IP address type (fix: commit 702ebdb; before it a service
         address with the host's bytes passed) and the host's address *)
      else if negb ((h_src_ia h =? c_remote_ia c) && ip_type (h_src_type h) && same_ip (h_src_raw h) (c_remote_host c)
                    && (h_dst_ia h =? c_local_ia c) && ip_type (h_dst_type h) && same_ip (h_dst_raw h) (c_local_host c)) then Retry 2
      else match client_auth c q with
      | AuthBad => Retry 3
      | a =>
          if ntpc =? 1 then Retry 4
          else if ntpc =? 2 then Retry 2
          else if (ntpc =? 3) || (ntpc =? 4) then Fatal 5
          else Acc (match a with AuthOk _ _ => true | _ => false end)
      end
  | _ => Retry 2
  end.

Inductive cres :=
| CAccept (i : nat) (authenticated : bool)
| CErr (i : nat) (cls : Z)
| CTimeout.

(* maxNumRetries = 1: the datagrams arriving at the socket are examined in
   order; one failing datagram is skipped, the second failure is returned *)
Fixpoint client_run (c : ccfg) (retried : bool) (i : nat) (rs : list (rx * Z)) : cres :=
  match rs with
  | [] => CTimeout
  | (q, n) :: rest =>
      match client_check c q n with
      | Acc a => CAccept i a
      | Fatal cls => CErr i cls
      | Retry cls => if retried then CErr i cls else client_run c true (S i) rest
      end
  end.

(* the request the client sends (header, L4 and, with a key, the authenticator) *)
Definition client_request (c : ccfg) (h : hdr) (sport dport : Z) (payload : bytes) : tx :=
  let h0 := set_next h L4_UDP in
  let l := Udp sport dport (8 + zlen payload) payload in
  match c_key c with
  | Some k =>
      let meta := meta_bytes spi_client auth_algorithm in
      let tag := mac k (macin_of spi_client auth_algorithm [0;0;0;0;0;0] h0 (h_next h0) l) in
      mkTx (set_next h0 E2E_CLASS) (Some [mkOpt OPT_AUTH (meta ++ tag)]) l
  | None => mkTx h0 None l
  end.

End Model.

(* a serialised and re-parsed datagram (scionproto serialisation followed by
   parsing is the identity on these fields: trusted) *)
Definition deliver (t : tx) (ntp_ok : bool) : rx :=
  let layers := match tx_e2e t, tx_l4 t with
                | Some _, Scmp _ _ _ => [LT_SCION; LT_E2E; LT_SCMP]
                | None, Scmp _ _ _ => [LT_SCION; LT_SCMP]
                | Some _, _ => [LT_SCION; LT_E2E; LT_UDP]
                | None, _ => [LT_SCION; LT_UDP]
                end in
  let len := match tx_l4 t with Udp _ _ n _ => n | _ => 0 end in
  mkRx true layers (tx_hdr t) (match tx_e2e t with Some os => os | None => [] end) (tx_l4 t)
       (len + 1020) ntp_ok.
