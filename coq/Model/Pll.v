(* Model of core/sync/adjustments/pll.go (Pll.Do) with the parts of
   base/timemath (Inv, Duration) and of Go's time package (Time.Sub,
   Duration.Seconds, Duration.Abs) it uses.  The clock (timebase.SystemClock)
   is the environment: every update carries the reading Now() and the value of
   Epoch() the controller sees, and produces the Step/Adjust calls it makes.

   float64 is Flocq binary64 (Base/F64.v).  math.Pow is an oracle: the update
   carries the value Go computed for math.Pow(0.999, dt); the model reports the
   dt it asked for so that the runner can check it is the same argument.

   No proofs in this file. *)
From Coq Require Import ZArith List Bool.
From ST Require Import Base.Ints Base.F64.
Import ListNotations.
Open Scope Z_scope.

(* ---- constants of pll.go as float64 bit patterns (math.Float64bits) ---- *)
Definition c_3em2   : f64 := f_of_bits 4584304132692975288.   (* 3e-2, also pLimit = 0.03 *)
Definition c_5em4   : f64 := f_of_bits 4557750909289998844.   (* 5e-4, also 500e-6 *)
Definition c_6em2   : f64 := f_of_bits 4588807732320345784.   (* 6e-2 *)
Definition c_1em3   : f64 := f_of_bits 4562254508917369340.   (* 1e-3 *)
Definition c_pinit  : f64 := f_of_bits 4599616371426034975.   (* pInit = 0.33 *)
Definition c_iinit  : f64 := f_of_bits 4633641066610819072.   (* iInit = 60 *)
Definition c_m5em4  : f64 := f_of_bits 13781122946144774652.  (* -500e-6 *)
Definition c_50     : f64 := f_of_bits 4632233691727265792.
Definition c_150    : f64 := f_of_bits 4639481672377565184.
Definition c_3      : f64 := f_of_bits 4613937818241073152.

Definition sec_ns : Z := 1000000000.
Definition step_wait_ns : Z := 2 * sec_ns.       (* 2*time.Second *)
Definition pll_wait_ns : Z := 6 * sec_ns.        (* 6*time.Second *)
Definition capture_ns : Z := 300 * sec_ns.       (* captureTime *)
Definition step_min_ns : Z := 1000000.           (* 1*time.Millisecond *)

(* timemath.Inv *)
Definition inv (d : Z) : Z := if d =? min_i64 then max_i64 else - d.
(* time.Duration.Abs *)
Definition dur_abs (d : Z) : Z := if 0 <=? d then d else if d =? min_i64 then max_i64 else - d.
(* time.Time.Sub: times are nanosecond counts, the result saturates *)
Definition tsub (t u : Z) : Z := sat64 (t - u).

(* the zero time.Time (January 1, year 1 UTC) in Unix nanoseconds *)
Definition zero_time : Z := -62135596800 * sec_ns.

Record pll := mkPll {
  p_epoch : Z;   (* uint64 *)
  p_mode : Z;    (* uint64 *)
  p_t0 : Z; p_t : Z;
  p_a : f64; p_b : f64; p_i : f64
}.

Definition pll_init : pll := mkPll 0 0 zero_time zero_time fzero fzero fzero.

(* one call of Do, as seen from the clock *)
Record upd := mkUpd {
  u_now : Z;       (* clk.Now() *)
  u_epoch : Z;     (* clk.Epoch() *)
  u_off : Z;       (* offset argument (int64 nanoseconds) *)
  u_weight : f64;  (* weight argument *)
  u_pow : f64      (* math.Pow(0.999, dt) for the dt of this call *)
}.

Inductive event :=
| EStep (offset : Z)
| EAdjust (offset duration : Z) (frequency : f64)
| EPanic.

(* result of one call: new state, calls made on the clock, and the argument
   dt of math.Pow if it was called *)
Definition result : Type := pll * list event * option f64.

Definition set_t (s : pll) (now : Z) : pll :=
  mkPll (p_epoch s) (p_mode s) (p_t0 s) now (p_a s) (p_b s) (p_i s).

(* the hypothesis on the math.Pow oracle: 0 <= math.Pow(0.999, dt) <= 1 *)
Definition pow_in_unit (x : f64) : bool := fle fzero x && fle x (f_of_int 1).

(* if p > d*500e-6 { p = d*500e-6 }; if p < d*-500e-6 { p = d*-500e-6 } *)
Definition clamp (d p : f64) : f64 :=
  let hi := fmul d c_5em4 in
  let p1 := if fgt p hi then hi else p in
  let lo := fmul d c_m5em4 in
  if flt p1 lo then lo else p1.

(* gains of the tracking mode: (new l.a, new l.b, a, b, math.Pow argument if called) *)
Definition gains (s : pll) (u : upd) (mdt : Z) (dt : f64) : f64 * f64 * f64 * f64 * option f64 :=
  if flt (u_weight u) c_50 then (p_a s, p_b s, c_3em2, c_5em4, None)
  else if flt (u_weight u) c_150 then (p_a s, p_b s, c_6em2, c_1em3, None)
  else if (capture_ns <? mdt) && fgt (p_a s) c_3em2 then
    let la := fmul (p_a s) (u_pow u) in
    let lb := fmul (p_b s) (u_pow u) in
    (la, lb, la, lb, Some dt)
  else (p_a s, p_b s, p_a s, p_b s, None).

(* case 0: startup *)
Definition do_startup (s : pll) (u : upd) : result :=
  (mkPll (p_epoch s) 1 (u_now u) (u_now u) (p_a s) (p_b s) (p_i s), [], None).

(* case 1: awaiting step; offset is the already inverted offset *)
Definition do_await_step (s : pll) (u : upd) (offset : Z) : result :=
  let now := u_now u in
  let mdt := tsub now (p_t0 s) in
  if mdt <? 0 then (s, [EPanic], None)
  else if (step_wait_ns <? mdt) && fgt (u_weight u) c_3 then
    let ev := if step_min_ns <? dur_abs offset then [EStep (inv offset)] else [] in
    (mkPll (p_epoch s) 2 now now (p_a s) (p_b s) (p_i s), ev, None)
  else (set_t s now, [], None).

(* case 2: awaiting PLL *)
Definition do_await_pll (s : pll) (u : upd) : result :=
  let now := u_now u in
  let mdt := tsub now (p_t0 s) in
  if mdt <? 0 then (s, [EPanic], None)
  else if pll_wait_ns <? mdt then
    (mkPll (p_epoch s) 3 now now c_pinit (fdiv c_pinit c_iinit) (p_i s), [], None)
  else (set_t s now, [], None).

(* case 3: tracking *)
Definition do_track (s : pll) (u : upd) (offset : Z) : result :=
  let now := u_now u in
  let mdt := tsub now (p_t0 s) in
  if mdt <? 0 then (s, [EPanic], None)
  else
    let dt := dur_seconds (tsub now (p_t s)) in
    if flt dt fzero then (s, [EPanic], None)
    else
      let '(la, lb, a, b, q) := gains s u mdt dt in
      let p := fmul (dur_seconds (inv offset)) a in
      let d := fceil dt in
      let i := fadd (p_i s) (fmul p b) in
      let p2 := clamp d p in
      let ev := if fgt d fzero then [EAdjust (dur_of_seconds p2) (dur_of_seconds d) i] else [] in
      (mkPll (p_epoch s) 3 (p_t0 s) now la lb i, ev, q).

(* if l.epoch != l.clk.Epoch() { l.epoch = l.clk.Epoch(); l.mode = 0 } *)
Definition sync_epoch (s0 : pll) (u : upd) : pll :=
  if p_epoch s0 =? u_epoch u then s0
  else mkPll (u_epoch u) 0 (p_t0 s0) (p_t s0) (p_a s0) (p_b s0) (p_i s0).

Definition pll_do (s0 : pll) (u : upd) : result :=
  let offset := inv (u_off u) in
  let s := sync_epoch s0 u in
  let m := p_mode s in
  if m =? 0 then do_startup s u
  else if m =? 1 then do_await_step s u offset
  else if m =? 2 then do_await_pll s u
  else if m =? 3 then do_track s u offset
  else (s, [EPanic], None).   (* panic("unexpected PLL mode"), unreachable *)

(* a history of updates: the trace pairs every update with the calls it caused *)
Fixpoint pll_run (s : pll) (us : list upd) : list (upd * list event) :=
  match us with
  | [] => []
  | u :: r => let '(s', ev, _) := pll_do s u in (u, ev) :: pll_run s' r
  end.

Fixpoint pll_final (s : pll) (us : list upd) : pll :=
  match us with
  | [] => s
  | u :: r => let '(s', _, _) := pll_do s u in pll_final s' r
  end.

(* the math.Pow arguments the model asked for, one entry per update *)
Fixpoint pll_queries (s : pll) (us : list upd) : list (option f64) :=
  match us with
  | [] => []
  | u :: r => let '(s', _, q) := pll_do s u in q :: pll_queries s' r
  end.

(* ------------------------------------------------------------------ *)
(* Property oracle, written from the property text over a trace
   (update, calls received by the clock); it never calls pll_do.  It decides
   the whole call sequence -- none / Step / Adjust, update by update:

   Per clock epoch as seen by the controller (a maximal run of updates that
   report the same epoch; the first update of a history also starts one):
   - the update that observes the new epoch makes no call (the start-up
     sequence restarts there; its reading is the start of the epoch);
   - then the controller waits for its initial step: no call at all until the
     first update that comes more than 2 s after the start of the epoch with a
     weight above 3.  At that update the initial step is due: exactly one
     Step, by exactly the measured offset, if |offset| > 1 ms; no call
     otherwise.  (For offset = MinInt64 the code steps by MinInt64+1:
     Inv(Inv(MinInt64)); accepted and reported as a boundary observation.)
   - after that update there is never a Step in this epoch; an update makes
     either no call or exactly one Adjust.  An Adjust has a finite frequency
     and a duration > 0 (no bound on the gap: the 292-year wrap of the real
     code is rejected here), its duration is at most the elapsed time rounded
     up to whole seconds and |offset| <= 500 ppm of the duration (so no Adjust
     at an unchanged reading); see adjust_ok for the float slack above 2^32 s.  Once tracking (an Adjust was made in this epoch) every update
     at a later reading slews, i.e. makes its Adjust; the moment tracking
     begins is not fixed by the property.
   - no panic while the readings of the epoch are non-decreasing; after a
     backward reading within an epoch the property says nothing until the next
     epoch change, which restarts the judgement as it restarts the controller. *)

Record ost := mkOst {
  o_started : bool;
  o_mono : bool;
  o_prev : Z;       (* previous reading *)
  o_epoch : Z;      (* epoch seen at the previous update *)
  o_start : Z;      (* reading of the first update of the current epoch *)
  o_decided : bool; (* the initial-step wait of the current epoch is over *)
  o_slewing : bool  (* an Adjust was made in the current epoch *)
}.

Definition ost_init : ost := mkOst false true 0 0 0 false false.

Definition max_gap_ns : Z := 4294967296 * sec_ns.   (* 2^32 s *)

Definition ceil_div (x y : Z) : Z := - ((- x) / y).

Definition step_arg_ok (off x : Z) : bool :=
  (x =? off) || ((off =? min_i64) && (x =? min_i64 + 1)).

(* the initial step is due at this update *)
Definition step_due (o : ost) (u : upd) : bool :=
  (step_wait_ns <? u_now u - o_start o) && fgt (u_weight u) c_3.

(* largest gap between two updates for which int64(ceil(dt)*1e9) does not wrap *)
Definition wrap_gap_ns : Z := 9223372036 * sec_ns.

(* every Adjust: finite frequency and duration > 0, whatever the gap.  Below
   2^32 s since the previous update the duration is at most the elapsed time
   rounded up to whole seconds and |offset| <= 500 ppm of the duration, in exact
   integer nanoseconds; from 2^32 s on ceil(dt)*1e9 is no longer exact in
   float64, so the same two clauses carry the rounding slack (1024 ns on the
   duration, 1 ns on the offset). *)
Definition adjust_ok (o : ost) (u : upd) (off dur : Z) (freq : f64) : bool :=
  let gap := u_now u - o_prev o in
  let c := ceil_div gap sec_ns in
  fis_finite freq && (0 <? dur)
  && (if gap <? max_gap_ns then
        (dur <=? sec_ns * c) && (2000 * Z.abs off <=? dur)
      else
        (dur <=? sec_ns * c + 1024) && (Z.abs off <=? 500000 * c + 1)).

Definition no_call (evs : list event) : bool := match evs with [] => true | _ => false end.

(* one update within the current epoch: returns (accepted, decided', slewing') *)
Definition ost_calls (o : ost) (u : upd) (evs : list event) : bool * bool * bool :=
  if negb (o_decided o) then
    if step_due o u then
      (if step_min_ns <? Z.abs (u_off u)
       then match evs with [EStep x] => step_arg_ok (u_off u) x | _ => false end
       else no_call evs,
       true, false)
    else (no_call evs, false, false)
  else
    match evs with
    | [] => (negb (o_slewing o) || (u_now u <=? o_prev o), true, o_slewing o)
    | [EAdjust off dur freq] => (adjust_ok o u off dur freq, true, true)
    | _ => (false, true, o_slewing o)
    end.

(* one update: returns (accepted, next oracle state).  Readings have to be
   non-decreasing only within an epoch: the update that observes a new epoch
   restarts everything, whatever the clock did in between (a step backwards
   included). *)
Definition ost_step (o : ost) (u : upd) (evs : list event) : bool * ost :=
  if negb (o_started o) || negb (o_epoch o =? u_epoch u) then
    (* first update / new epoch observed: restart, no call allowed *)
    (no_call evs, mkOst true true (u_now u) (u_epoch u) (u_now u) false false)
  else if negb (o_mono o && (o_prev o <=? u_now u)) then
    (* a reading went backwards within the epoch: the property says nothing until the next epoch *)
    (true, mkOst true false (u_now u) (u_epoch u) (o_start o) (o_decided o) (o_slewing o))
  else
    let '(ok, dec, sl) := ost_calls o u evs in
    (ok, mkOst true true (u_now u) (u_epoch u) (o_start o) dec sl).

Fixpoint C19_ok_from (o : ost) (tr : list (upd * list event)) : bool :=
  match tr with
  | [] => true
  | (u, evs) :: r => let '(ok, o') := ost_step o u evs in ok && C19_ok_from o' r
  end.

Definition C19_ok (tr : list (upd * list event)) : bool := C19_ok_from ost_init tr.
