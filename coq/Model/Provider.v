(* Model of net/ntske/provider.go (the key provider shared by the NTS-KE and the
   NTP servers), C12.  No proofs here.

   time.Time    = Z nanoseconds since the Unix epoch (Before/After compare these,
                  Add is exact; DESIGN section 3).  time.Time{} (the zero time,
                  1 Jan of year 1) is zero_time.
   map[int]Key  = association list, first match wins, assignment removes the old
                  binding first; iteration order is never observable.
   rand.Read    = the k-th call (k = 1, 2, ...) returns the value called "k"; the
                  harness replaces crypto/rand.Reader by such a tape.
   panic        = None.
   The code reads time.Now() once in Current() and once more in generateNext();
   the model takes both readings (t1 <= t2) as inputs.  (Between the two readings
   the code only looks up a map entry and compares times - nothing that can block -,
   so under testing/synctest's virtual clock t1 = t2 in every observable execution;
   the theorems cover t1 < t2, the correspondence run cannot produce it.)  Calls are atomic: they
   run under Provider.mu (see lock_* at the end for the interleaving model). *)
From ST Require Import Base.Ints.
Open Scope Z_scope.

Definition hour : Z := 3600 * 1000000000.
Definition key_validity : Z := 24 * 3 * hour.          (* keyValidity *)
Definition key_renewal  : Z := 24 * hour.              (* keyRenewalInterval *)
Definition two_days     : Z := 48 * hour.
Definition zero_time : Z := -62135596800 * 1000000000. (* time.Time{} *)
Definition max_int : Z := max_i64.                     (* math.MaxInt on amd64 *)

Record key := { k_id : Z; k_val : Z; k_nb : Z; k_na : Z }.
(* Key{}: ID 0, Value nil (written -1), both times zero *)
Definition zero_key : key := {| k_id := 0; k_val := -1; k_nb := zero_time; k_na := zero_time |}.

Definition key_eqb (a b : key) : bool :=
  (k_id a =? k_id b) && (k_val a =? k_val b) && (k_nb a =? k_nb b) && (k_na a =? k_na b).

(* func (k *Key) IsValidAt(t) : !(t.Before(NotBefore) || t.After(NotAfter)) *)
Definition is_valid_at (k : key) (t : Z) : bool :=
  if (t <? k_nb k) || (k_na k <? t) then false else true.

Definition kmap := list (Z * key).

Fixpoint lookup (id : Z) (m : kmap) : option key :=
  match m with
  | [] => None
  | (i, k) :: r => if i =? id then Some k else lookup id r
  end.
Fixpoint remove (id : Z) (m : kmap) : kmap :=
  match m with
  | [] => []
  | (i, k) :: r => if i =? id then remove id r else (i, k) :: remove id r
  end.
Definition set (id : Z) (k : key) (m : kmap) : kmap := (id, k) :: remove id m.
(* p.keys[id] without the ok flag: the zero Key when absent *)
Definition lookup0 (id : Z) (m : kmap) : key :=
  match lookup id m with Some k => k | None => zero_key end.
(* for id, key := range p.keys { if !key.IsValidAt(tNow) { delete(p.keys, id) } } *)
Definition purge (t : Z) (m : kmap) : kmap :=
  filter (fun e => is_valid_at (snd e) t) m.

Record state := {
  keys : kmap;          (* p.keys *)
  cur : Z;              (* p.currentID *)
  gen_at : Z;           (* p.generatedAt *)
  nrand : Z;            (* number of rand.Read calls so far (the random tape position) *)
  glog : list key       (* ghost: every key ever generated, newest first; never read by the code *)
}.

Definition empty_state : state :=
  {| keys := []; cur := 0; gen_at := zero_time; nrand := 0; glog := [] |}.

(* func (p *Provider) generateNext(); t = the time.Now() it reads *)
Definition generate_next (s : state) (t : Z) : option state :=
  let ks := purge t (keys s) in
  if cur s =? max_int then None (* panic("ID overflow") *)
  else
    let id := cur s + 1 in
    let k := {| k_id := id; k_val := nrand s + 1; k_nb := t; k_na := t + key_validity |} in
    Some {| keys := set id k ks; cur := id; gen_at := t; nrand := nrand s + 1; glog := k :: glog s |}.

(* func NewProvider() *)
Definition new_provider (t : Z) : option state := generate_next empty_state t.

(* func (p *Provider) Get(id) (Key, bool); None = (Key{}, false) *)
Definition get (s : state) (id t : Z) : option key :=
  match lookup id (keys s) with
  | None => None
  | Some k => if is_valid_at k t then Some k else None
  end.

(* func (p *Provider) Current() Key; t1 = tNow read in Current, t2 = the reading
   of generateNext (only used when a key is generated) *)
Definition need_renew (s : state) (t1 : Z) : bool :=
  negb (is_valid_at (lookup0 (cur s) (keys s)) t1) || (gen_at s + key_renewal <? t1).

Definition current (s : state) (t1 t2 : Z) : option (key * state) :=
  if need_renew s t1 then
    match generate_next s t2 with
    | None => None
    | Some s' => Some (lookup0 (cur s') (keys s'), s')
    end
  else Some (lookup0 (cur s) (keys s), s).

(* ---- histories ---- *)
Inductive op :=
| OCur (g : Z) (t1 t2 : Z)       (* goroutine g calls Current *)
| OGet (g : Z) (id : Z) (t : Z). (* goroutine g calls Get(id) *)

Inductive obs :=
| BCur (g : Z) (t : Z) (k : key)               (* t = last clock reading of the call *)
| BGet (g : Z) (t : Z) (id : Z) (r : option key).

Definition op_first (o : op) : Z := match o with OCur _ t1 _ => t1 | OGet _ _ t => t end.
Definition op_last (o : op) : Z := match o with OCur _ _ t2 => t2 | OGet _ _ t => t end.

(* clock readings in call order never go back, starting from reading t.  (The
   second reading t2 of a Current that generates nothing is not taken by the code;
   a real execution is represented with t2 = t1 there, which loses nothing.) *)
Fixpoint mono (t : Z) (ops : list op) : Prop :=
  match ops with
  | [] => True
  | o :: r => t <= op_first o /\ op_first o <= op_last o /\ mono (op_last o) r
  end.
Fixpoint monob (t : Z) (ops : list op) : bool :=
  match ops with
  | [] => true
  | o :: r => (t <=? op_first o) && (op_first o <=? op_last o) && monob (op_last o) r
  end.

Definition step (s : state) (o : op) : option (state * obs) :=
  match o with
  | OCur g t1 t2 =>
      match current s t1 t2 with
      | None => None
      | Some (k, s') => Some (s', BCur g (if need_renew s t1 then t2 else t1) k)
      end
  | OGet g id t => Some (s, BGet g t id (get s id t))
  end.

Fixpoint run (s : state) (ops : list op) : option (state * list obs) :=
  match ops with
  | [] => Some (s, [])
  | o :: r =>
      match step s o with
      | None => None
      | Some (s', b) =>
          match run s' r with
          | None => None
          | Some (s'', bs) => Some (s'', b :: bs)
          end
      end
  end.

(* NewProvider at t0, then the calls *)
Definition history (t0 : Z) (ops : list op) : option (state * list obs) :=
  match new_provider t0 with
  | None => None
  | Some s => run s ops
  end.

(* what every observer knows without asking: NewProvider at t0 makes key 1 *)
Definition key_one (t0 : Z) : key := {| k_id := 1; k_val := 1; k_nb := t0; k_na := t0 + key_validity |}.

(* ---- the property oracle, written from the text of C12 (never calls the model) ----
   An observation list is in call (lock) order. *)
Definition obs_time (b : obs) : Z := match b with BCur _ t _ => t | BGet _ t _ _ => t end.
Definition obs_key (b : obs) : option key :=
  match b with BCur _ _ k => Some k | BGet _ _ _ r => r end.

(* one call on its own: Current hands out a key that is valid now, was generated
   (NotBefore) at most 24 h ago and lives 3 days; Get answers only with the key
   asked for and only while it is valid, validity being 3 days *)
Definition obs_ok (b : obs) : bool :=
  match b with
  | BCur _ t k =>
      (k_nb k <=? t) && (t <=? k_na k) && (t - k_nb k <=? key_renewal) && (k_na k =? k_nb k + key_validity)
  | BGet _ t id (Some k) =>
      (k_id k =? id) && (k_nb k <=? t) && (t <=? k_na k) && (k_na k =? k_nb k + key_validity)
  | BGet _ _ _ None => true
  end.

(* identifiers never repeat: two observed keys with the same id are the same key,
   and a key generated later has a larger id *)
Definition keys_compat (a b : key) : bool :=
  (if k_id a =? k_id b then key_eqb a b else true) &&
  (if k_nb a <? k_nb b then k_id a <? k_id b else true) &&
  (if k_nb b <? k_nb a then k_id b <? k_id a else true).

(* a key handed out by Current at time t must open cookies (be returned by Get,
   unchanged) until t + 2 days, and must never be returned later than 3 days
   after its generation.  "later call": later in the list and either at a later
   instant or by the same goroutine (two goroutines at the same instant are not
   ordered by what they observe). *)
Definition lifetime_ok (g t : Z) (k : key) (later : obs) : bool :=
  match later with
  | BGet g' t' id r =>
      if (id =? k_id k) && ((t <? t') || (g' =? g)) then
        (if t' <=? t + two_days then match r with Some k' => key_eqb k' k | None => false end else true) &&
        (if k_nb k + key_validity <? t' then match r with Some _ => false | None => true end else true)
      else true
  | BCur _ _ _ => true
  end.

Definition pair_ok (a later : obs) : bool :=
  (match obs_key a, obs_key later with Some x, Some y => keys_compat x y | _, _ => true end) &&
  (match a with BCur g t k => lifetime_ok g t k later | _ => true end) &&
  (* the ids handed out by Current never decrease *)
  (match a, later with BCur _ _ k, BCur _ _ k' => k_id k <=? k_id k' | _, _ => true end).

Fixpoint C12_ok (l : list obs) : bool :=
  match l with
  | [] => true
  | b :: r => obs_ok b && forallb (pair_ok b) r && C12_ok r
  end.

(* The same clauses judged in one pass, for histories too long for the pairwise
   oracle (tens of thousands of rotations): every call on its own, and every key
   against the key the previous Current handed out (ids never go down; same id =
   same key; later generation = larger id).  C12_long_unique (Props) shows that this
   chain condition decides "identifiers never repeat" for ALL Current results of the
   history; the lifetime clause is not judged here (the model comparison covers it). *)
Fixpoint long_ok (prev : option key) (l : list obs) : bool :=
  match l with
  | [] => true
  | b :: r =>
      obs_ok b &&
      (match prev, obs_key b with Some p, Some k => keys_compat p k | _, _ => true end) &&
      (match prev, b with Some p, BCur _ _ k => k_id p <=? k_id k | _, _ => true end) &&
      long_ok (match b with BCur _ _ k => Some k | _ => prev end) r
  end.
(* ... and, pairwise (lifetime clause included), on the sample of the history that
   consists of every Get and of every Current whose key id a Get asked for or got *)
Definition get_ids (l : list obs) : list Z :=
  flat_map (fun b => match b with
                     | BGet _ _ id (Some k) => [id; k_id k]
                     | BGet _ _ id None => [id]
                     | BCur _ _ _ => [] end) l.
Definition long_sample (l : list obs) : list obs :=
  let ids := get_ids l in
  filter (fun b => match b with
                   | BGet _ _ _ _ => true
                   | BCur _ _ k => existsb (Z.eqb (k_id k)) ids end) l.
Definition C12_long_ok (l : list obs) : bool := long_ok None l && C12_ok (long_sample l).

(* the keys handed out by Current, in call order *)
Fixpoint curs (l : list obs) : list key :=
  match l with
  | [] => []
  | BCur _ _ k :: r => k :: curs r
  | _ :: r => curs r
  end.

(* ---- the listeners' use of the provider (core/server/ntske.go, server_ip.go,
   server_scion.go).  A key exchange seals its cookies under provider.Current(); an
   NTS request whose cookie names key id kid is dropped unless provider.Get(kid)
   succeeds, and the cookies of the response are sealed under provider.Current().
   (Cryptography is not modelled here: the requests of these histories are honest.)
   What is visible from outside: was the request answered, and the key id (in clear
   in the cookie header) of every cookie handed out. ---- *)
Inductive lstep :=
| LKe (t : Z)                    (* key exchange at clock reading t *)
| LReq (t : Z) (kid : Z).        (* NTS request with a cookie under key id kid *)

(* t, Some kid for a request / None for a key exchange, answered, key ids of the cookies handed out *)
Inductive lobs := LObs (t : Z) (req : option Z) (answered : bool) (ids : list Z).

Definition lstep_time (st : lstep) : Z := match st with LKe t => t | LReq t _ => t end.

Definition lsn_step (s : state) (st : lstep) : option (state * lobs) :=
  match st with
  | LKe t =>
      match current s t t with
      | None => None
      | Some (k, s') => Some (s', LObs t None true [k_id k])
      end
  | LReq t kid =>
      match get s kid t with
      | None => Some (s, LObs t (Some kid) false [])
      | Some _ =>
          match current s t t with
          | None => None
          | Some (k, s') => Some (s', LObs t (Some kid) true [k_id k])
          end
      end
  end.

Fixpoint lsn_run (s : state) (l : list lstep) : option (state * list lobs) :=
  match l with
  | [] => Some (s, [])
  | st :: r =>
      match lsn_step s st with
      | None => None
      | Some (s', b) =>
          match lsn_run s' r with
          | None => None
          | Some (s'', bs) => Some (s'', b :: bs)
          end
      end
  end.

Definition lsn_history (t0 : Z) (l : list lstep) : option (state * list lobs) :=
  match new_provider t0 with None => None | Some s => lsn_run s l end.

Fixpoint lmono (t : Z) (l : list lstep) : Prop :=
  match l with [] => True | st :: r => t <= lstep_time st /\ lmono (lstep_time st) r end.
Fixpoint lmonob (t : Z) (l : list lstep) : bool :=
  match l with [] => true | st :: r => (t <=? lstep_time st) && lmonob (lstep_time st) r end.

(* The property oracle at the listeners, from the text of C12 and from nothing but what
   an outside observer has: a table key id -> generation time, a key being generated
   when its id is first seen on a cookie (the provider rotates lazily, inside the call
   that hands the new key out; key 1 is made by NewProvider at t0).  A key lives 3 days
   from its generation.  The observations become Current/Get observations of those
   keys and are judged by C12_ok: every cookie handed out at t is sealed under a key
   generated at most 24 h before t; an answered request presented a key generated at
   most 72 h before; a key handed out at t is honoured until t + 48 h; ids never repeat. *)
Fixpoint tab_find (id : Z) (tab : list (Z * Z)) : option Z :=
  match tab with [] => None | (i, g) :: r => if i =? id then Some g else tab_find id r end.
Definition tab_key (id g : Z) : key := {| k_id := id; k_val := 0; k_nb := g; k_na := g + key_validity |}.
Definition tab_add (t : Z) (tab : list (Z * Z)) (id : Z) : list (Z * Z) :=
  match tab_find id tab with Some _ => tab | None => (id, t) :: tab end.

Fixpoint lsn_translate (tab : list (Z * Z)) (l : list lobs) : list obs :=
  match l with
  | [] => []
  | LObs t req ans ids :: r =>
      let tab' := fold_left (tab_add t) ids tab in
      (match req with
       | None => []
       | Some kid =>
           [BGet 0 t kid
              (if ans then
                 Some (match tab_find kid tab with
                       | Some g => tab_key kid g
                       | None => tab_key kid (t - key_validity - 1) (* a key nobody was ever given *)
                       end)
               else None)]
       end)
      ++ map (fun id => BCur 0 t (tab_key id (match tab_find id tab' with Some g => g | None => t end))) ids
      ++ lsn_translate tab' r
  end.

Definition C12_lsn_ok (t0 : Z) (l : list lobs) : bool := C12_ok (lsn_translate [(1, t0)] l).

(* ---- concurrent histories: calls of several goroutines at the same virtual
   instant are ordered by the lock only.  A group is the list of calls made at
   one instant t, each goroutine any number of them (in its program order);
   whatever order the lock chose: every Current returns the key of the state
   after one Current at t, every Get returns what it returns before or after
   that Current, consistently with the goroutine's own earlier calls. ---- *)
Definition group_has_cur (ops : list op) : bool :=
  existsb (fun o => match o with OCur _ _ _ => true | _ => false end) ops.

Definition opt_key_eqb (a b : option key) : bool :=
  match a, b with Some x, Some y => key_eqb x y | None, None => true | _, _ => false end.

(* The calls of one instant in the order they completed; the calls of one goroutine
   appear in program order.  Until the first Current of the instant has run, a Get sees
   the state s; afterwards every call sees s' (a further Current changes nothing).  Which
   of a goroutine's calls came before that first Current is not observable except
   through the results, so: a goroutine is "in" once it made a Current itself or a Get
   of it could only be explained by s'; from then on all its calls must see s'. *)
Fixpoint group_walk (s s' : state) (kc : key) (inb : list Z) (ops : list op) (bs : list obs) : bool :=
  match ops, bs with
  | [], [] => true
  | o :: ops', b :: bs' =>
      match o, b with
      | OCur g t1 t2, BCur g' t k =>
          (g =? g') && (t =? t2) && key_eqb k kc && group_walk s s' kc (g :: inb) ops' bs'
      | OGet g id t, BGet g' t' id' r =>
          (g =? g') && (t =? t') && (id =? id') &&
          (if existsb (Z.eqb g) inb then opt_key_eqb r (get s' id t) && group_walk s s' kc inb ops' bs'
           else if opt_key_eqb r (get s id t) then group_walk s s' kc inb ops' bs'
           else opt_key_eqb r (get s' id t) && group_walk s s' kc (g :: inb) ops' bs')
      | _, _ => false
      end
  | _, _ => false
  end.

(* one instant: returns the state afterwards when the observations are accepted *)
Definition group_step (s : state) (t : Z) (ops : list op) (bs : list obs) : option state :=
  if group_has_cur ops then
    match current s t t with
    | None => None
    | Some (kc, s') => if group_walk s s' kc [] ops bs then Some s' else None
    end
  else if group_walk s s zero_key [] ops bs then Some s else None.

Fixpoint groups_ok (s : state) (last : Z) (gs : list (Z * list op * list obs)) : bool :=
  match gs with
  | [] => true
  | (t, ops, bs) :: r =>
      (last <=? t) && forallb (fun o => (op_first o =? t) && (op_last o =? t)) ops &&
      match group_step s t ops bs with
      | None => false
      | Some s' => groups_ok s' t r
      end
  end.

Definition obs_g (b : obs) : Z := match b with BCur g _ _ => g | BGet g _ _ _ => g end.
Definition groups_obs (gs : list (Z * list op * list obs)) : list obs := flat_map (fun g => snd g) gs.

(* ---- the lock: a small interleaving semantics of goroutines calling
   Current/Get.  Each call is Acquire; read the clock (twice for Current);
   the body; Release.  The clock ticks forward at any moment. ---- *)
Inductive pc :=
| PIdle                       (* between calls *)
| PWant (c : bool) (id : Z)   (* about to call: c = true Current, false Get(id); waiting for the lock *)
| PHeld (c : bool) (id : Z)   (* holds the lock, clock not read yet *)
| PRead1 (c : bool) (id : Z) (t1 : Z)  (* first reading taken *)
| PDone.                      (* body executed, lock still held *)

Record world := {
  w_clock : Z;
  w_locked : option Z;             (* goroutine holding the lock *)
  w_state : state;
  w_pcs : list (Z * pc);           (* program counter of each goroutine (absent = idle) *)
  w_trace : list op;               (* calls in the order their bodies ran, newest first *)
  w_panicked : bool
}.

Definition pc_of (g : Z) (w : world) : pc :=
  (fix go l := match l with [] => PIdle | (i, p) :: r => if i =? g then p else go r end) (w_pcs w).
Definition set_pc (g : Z) (p : pc) (w : world) : list (Z * pc) :=
  (g, p) :: filter (fun e => negb (fst e =? g)) (w_pcs w).

Inductive event :=
| ETick (d : Z)                 (* the clock advances by d >= 0 *)
| ECall (g : Z) (c : bool) (id : Z)   (* goroutine g starts a call *)
| EAcquire (g : Z)
| ERead (g : Z)                 (* time.Now() inside the critical section *)
| EBody (g : Z)                 (* the rest of the body; for Current it reads the clock again in generateNext *)
| ERelease (g : Z).

(* None = the event is not enabled *)
Definition lock_step (w : world) (e : event) : option world :=
  match e with
  | ETick d => if 0 <=? d then Some {| w_clock := w_clock w + d; w_locked := w_locked w; w_state := w_state w;
                                        w_pcs := w_pcs w; w_trace := w_trace w; w_panicked := w_panicked w |} else None
  | ECall g c id =>
      match pc_of g w with
      | PIdle => Some {| w_clock := w_clock w; w_locked := w_locked w; w_state := w_state w;
                         w_pcs := set_pc g (PWant c id) w; w_trace := w_trace w; w_panicked := w_panicked w |}
      | _ => None end
  | EAcquire g =>
      match pc_of g w, w_locked w with
      | PWant c id, None => Some {| w_clock := w_clock w; w_locked := Some g; w_state := w_state w;
                                    w_pcs := set_pc g (PHeld c id) w; w_trace := w_trace w; w_panicked := w_panicked w |}
      | _, _ => None end
  | ERead g =>
      match pc_of g w with
      | PHeld c id => Some {| w_clock := w_clock w; w_locked := w_locked w; w_state := w_state w;
                              w_pcs := set_pc g (PRead1 c id (w_clock w)) w; w_trace := w_trace w; w_panicked := w_panicked w |}
      | _ => None end
  | EBody g =>
      match pc_of g w with
      | PRead1 true _ t1 =>
          let o := OCur g t1 (w_clock w) in
          match current (w_state w) t1 (w_clock w) with
          | Some (_, s') => Some {| w_clock := w_clock w; w_locked := w_locked w; w_state := s';
                                    w_pcs := set_pc g PDone w; w_trace := o :: w_trace w; w_panicked := w_panicked w |}
          | None => Some {| w_clock := w_clock w; w_locked := w_locked w; w_state := w_state w;
                            w_pcs := set_pc g PDone w; w_trace := w_trace w; w_panicked := true |}
          end
      | PRead1 false id t1 =>
          Some {| w_clock := w_clock w; w_locked := w_locked w; w_state := w_state w;
                  w_pcs := set_pc g PDone w; w_trace := OGet g id t1 :: w_trace w; w_panicked := w_panicked w |}
      | _ => None end
  | ERelease g =>
      match pc_of g w with
      | PDone => Some {| w_clock := w_clock w; w_locked := None; w_state := w_state w;
                         w_pcs := set_pc g PIdle w; w_trace := w_trace w; w_panicked := w_panicked w |}
      | _ => None end
  end.

Fixpoint lock_run (w : world) (es : list event) : option world :=
  match es with
  | [] => Some w
  | e :: r => match lock_step w e with None => None | Some w' => lock_run w' r end
  end.

Definition world0 (t0 : Z) (s : state) : world :=
  {| w_clock := t0; w_locked := None; w_state := s; w_pcs := []; w_trace := []; w_panicked := false |}.
