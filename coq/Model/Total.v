(* C08: outcome-returning models of every project decoder that sees network bytes, of the
   encoders that run on attacker-influenced sizes, and of the receive-loop glue around them.
   Go's slice-bounds rules are written out (a violated rule is the outcome Panic), loops run
   on explicit fuel (exhausted fuel is the outcome OutOfFuel).  No proofs here.

   Modelled code (as it is now in /repo):
     net/ntp/ntp.go        DecodePacket, ValidateRequest (validation.go)
     net/csptp/csptp.go    DecodeMessage, DecodeRequestTLV, DecodeResponseTLV
     net/ntske/cookies.go  ServerCookie.Decode, EncryptedServerCookie.Decode, Decrypt
     net/nts/nts.go        DecodePacket with the four unpack methods, authenticate (the walk over
                           the decrypted fields), EncodePacket with the pack methods,
                           NewRequestPacket / NewResponsePacket (sizes only), maxCookies
     net/ntske/ntske.go    ReadData
     net/udp/udp_linux.go  TimestampFromOOBData
     net/scion/auth.go     PacketAuthOptMetadata / PacketAuthOptMAC and their call-site guard
     core/server/server_ip.go, server_csptp_ip.go, core/client/client_csptp_ip.go: the glue of one
                           loop iteration around these calls
   Calls that leave the project (AES-SIV open, the key provider) are function arguments. *)
From ST Require Import Base.Ints.
Open Scope Z_scope.

Inductive outcome (A : Type) : Type :=
| Ok (a : A)
| Err (e : Z)
| Panic
| OutOfFuel.
Arguments Ok {A} a.
Arguments Err {A} e.
Arguments Panic {A}.
Arguments OutOfFuel {A}.

Definition obind {A B} (o : outcome A) (f : A -> outcome B) : outcome B :=
  match o with
  | Ok a => f a
  | Err e => Err e
  | Panic => Panic
  | OutOfFuel => OutOfFuel
  end.

(* observation class used on the harness boundary: 0 ok, 1 error, 2 panic, 3 no termination *)
Definition class_of {A} (o : outcome A) : Z :=
  match o with Ok _ => 0 | Err _ => 1 | Panic => 2 | OutOfFuel => 3 end.

(* ---------- Go slices over byte lists ---------- *)

(* bytes are list elements taken mod 256, so that every function below is defined on all lists *)

Definition blen (b : list Z) : Z := Z.of_nat (length b).

(* b[i] *)
Definition idx (b : list Z) (i : Z) : outcome Z :=
  if (0 <=? i) && (i <? blen b) then Ok (nth (Z.to_nat i) b 0 mod 256) else Panic.

(* b[a:] *)
Definition from (b : list Z) (a : Z) : outcome (list Z) :=
  if (0 <=? a) && (a <=? blen b) then Ok (skipn (Z.to_nat a) b) else Panic.

(* b[a:c] (capacity = length for every slice the decoders are handed) *)
Definition sub (b : list Z) (a c : Z) : outcome (list Z) :=
  if (0 <=? a) && (a <=? c) && (c <=? blen b)
  then Ok (firstn (Z.to_nat (c - a)) (skipn (Z.to_nat a) b)) else Panic.

(* binary.BigEndian.Uint16(s): _ = s[1] *)
Definition be16 (s : list Z) : outcome Z :=
  match s with x :: y :: _ => Ok ((x mod 256) * 256 + y mod 256) | _ => Panic end.

(* binary.BigEndian.Uint16(b[pos:]) *)
Definition u16_at (b : list Z) (pos : Z) : outcome Z := obind (from b pos) be16.

(* big-endian value of a byte list, and of n bytes at fixed offsets read one by one with b[i] *)
Fixpoint be_val (l : list Z) (acc : Z) : Z :=
  match l with [] => acc | x :: r => be_val r (acc * 256 + x mod 256) end.

Fixpoint rd_be (b : list Z) (off : Z) (n : nat) (acc : Z) : outcome Z :=
  match n with
  | O => Ok acc
  | S k => obind (idx b off) (fun x => rd_be b (off + 1) k (acc * 256 + x))
  end.

(* little-endian (the cmsg header and its int64 fields are read through unsafe pointers on amd64) *)
Fixpoint le_val (l : list Z) : Z :=
  match l with [] => 0 | x :: r => x mod 256 + 256 * le_val r end.

(* dst := make([]byte, n); copy(dst, src) *)
Definition make_copy (n : Z) (src : list Z) : list Z :=
  let k := Z.to_nat n in
  firstn k src ++ repeat 0 (k - length (firstn k src)).

Definition zmin (a b : Z) : Z := if a <? b then a else b.

(* ---------- net/ntp ---------- *)

Definition e_size := 1.

(* DecodePacket: length check, then _ = b[47] and 48 fixed-offset reads.  The observable kept is
   (LVM, transmit seconds, transmit fraction). *)
Definition ntp_decode (b : list Z) : outcome (Z * Z * Z) :=
  if blen b <? 48 then Err e_size
  else obind (idx b 47) (fun _ =>
       obind (idx b 0) (fun lvm =>
       obind (rd_be b 4 36 0) (fun _ =>
       obind (rd_be b 40 4 0) (fun s =>
       obind (rd_be b 44 4 0) (fun f => Ok (lvm, s, f)))))).

(* ValidateRequest on the LVM byte *)
Definition ntp_validate_request (lvm : Z) : bool :=
  let li := (lvm / 64) mod 4 in
  let vn := (lvm / 8) mod 8 in
  let mode := lvm mod 8 in
  ((li =? 0) || (li =? 3)) && (1 <=? vn) && (vn <=? 4) &&
  (if vn =? 1 then mode =? 0 else mode =? 3).

(* ---------- net/csptp ---------- *)

Definition csptp_decode_message (b : list Z) : outcome (Z * Z * Z) :=
  if blen b <? 44 then Err e_size
  else obind (idx b 43) (fun _ =>
       obind (idx b 0) (fun ty =>
       obind (rd_be b 2 2 0) (fun mlen =>
       obind (rd_be b 4 26 0) (fun _ =>
       obind (rd_be b 30 2 0) (fun seq =>
       obind (rd_be b 32 12 0) (fun _ => Ok (ty, mlen, seq))))))).

Definition tlv_len (flags : Z) : Z := if Z.odd flags then 54 else 36.

Definition csptp_decode_request_tlv (b : list Z) : outcome (Z * Z) :=
  if blen b <? 14 then Err e_size
  else obind (idx b 13) (fun _ =>
       obind (rd_be b 0 2 0) (fun ty =>
       obind (rd_be b 2 8 0) (fun _ =>
       obind (rd_be b 10 4 0) (fun flags =>
       if blen b <? tlv_len flags then Err e_size else Ok (ty, flags))))).

Definition csptp_decode_response_tlv (b : list Z) : outcome (Z * Z) :=
  if blen b <? 14 then Err e_size
  else obind (idx b 13) (fun _ =>
       obind (rd_be b 0 2 0) (fun ty =>
       obind (rd_be b 2 8 0) (fun _ =>
       obind (rd_be b 10 4 0) (fun flags =>
       if blen b <? tlv_len flags then Err e_size
       else obind (idx b 35) (fun _ =>
            obind (rd_be b 14 22 0) (fun _ =>
            if Z.odd flags
            then obind (idx b 53) (fun _ => obind (rd_be b 36 18 0) (fun _ => Ok (ty, flags)))
            else Ok (ty, flags))))))).

(* ---------- net/ntske/cookies.go ---------- *)

Definition e_cookie := 10.

Record tlv3 := { t_a : option Z; t_b : option (list Z); t_c : option (list Z) }.
Definition tlv3_empty := {| t_a := None; t_b := None; t_c := None |}.

(* the common loop of ServerCookie.Decode (types 0x101 0x201 0x301) and
   EncryptedServerCookie.Decode (types 0x401 0x501 0x601) *)
Fixpoint cookie_loop (fuel : nat) (ta tb tc : Z) (b : list Z) (pos : Z) (st : tlv3) : outcome (Z * tlv3) :=
  let n := blen b in
  if pos <? n then
    match fuel with
    | O => OutOfFuel
    | S f =>
        if n - pos <? 4 then Err e_cookie
        else obind (u16_at b pos) (fun t =>
             obind (u16_at b (pos + 2)) (fun len =>
             if n - pos - 4 <? len then Err e_cookie
             else
               let next := cookie_loop f ta tb tc b (pos + 4 + len) in
               if t =? ta then
                 if len <? 2 then Err e_cookie
                 else obind (u16_at b (pos + 4)) (fun v =>
                      next {| t_a := Some v; t_b := t_b st; t_c := t_c st |})
               else if t =? tb then
                 obind (sub b (pos + 4) (pos + 4 + len)) (fun v =>
                 next {| t_a := t_a st; t_b := Some v; t_c := t_c st |})
               else if t =? tc then
                 obind (sub b (pos + 4) (pos + 4 + len)) (fun v =>
                 next {| t_a := t_a st; t_b := t_b st; t_c := Some v |})
               else next st))
    end
  else Ok (pos, st).

Definition cookie_decode (ta tb tc : Z) (b : list Z) : outcome (Z * list Z * list Z) :=
  obind (cookie_loop (length b) ta tb tc b 0 tlv3_empty) (fun r =>
  let '(pos, st) := r in
  if negb (pos =? blen b) then Err e_cookie
  else match t_a st, t_b st, t_c st with
       | Some a, Some x, Some y => Ok (a, x, y)
       | _, _, _ => Err e_cookie
       end).

(* ServerCookie.Decode: (Algo, S2C, C2S) *)
Definition server_cookie_decode := cookie_decode 257 513 769.
(* EncryptedServerCookie.Decode: (ID, Nonce, Ciphertext) *)
Definition encrypted_cookie_decode := cookie_decode 1025 1281 1537.

(* the AEAD: NewAEAD fails unless the key has 32 or 64 bytes; Open panics unless the nonce has the
   configured 16 bytes (documented precondition of miscreant), otherwise it answers with the
   plaintext or fails.  [aopen key nonce ct ad] is the abstract cipher. *)
Definition e_key := 20.
Definition e_nonce := 21.
Definition e_open := 22.

Definition key_ok (key : list Z) : bool := (blen key =? 32) || (blen key =? 64).

Definition go_open (aopen : list Z -> list Z -> list Z -> list Z -> option (list Z))
  (key nonce ct ad : list Z) : outcome (list Z) :=
  if negb (blen nonce =? 16) then Panic
  else match aopen key nonce ct ad with Some p => Ok p | None => Err e_open end.

(* EncryptedServerCookie.Decrypt *)
Definition cookie_decrypt (aopen : list Z -> list Z -> list Z -> list Z -> option (list Z))
  (key nonce ct : list Z) : outcome (Z * list Z * list Z) :=
  if negb (key_ok key) then Err e_key
  else if negb (blen nonce =? 16) then Err e_cookie
  else obind (go_open aopen key nonce ct []) server_cookie_decode.

(* ---------- net/nts ---------- *)

Definition e_too_long := 30.
Definition e_short_ext := 31.
Definition e_short_uid := 32.
Definition e_no_uid := 33.
Definition e_no_auth := 34.
Definition e_nonce_len := 35.
Definition e_resp_id := 36.
Definition e_no_cookies := 37.

Record nts_pkt := {
  np_uid : option (list Z);
  np_cookies : list (list Z);          (* in packet order *)
  np_placeholders : Z;
  np_auth : option (list Z * list Z * Z)  (* nonce, ciphertext, position of the field *)
}.
Definition nts_empty := {| np_uid := None; np_cookies := []; np_placeholders := 0; np_auth := None |}.

(* UniqueIdentifier.unpack / Cookie.unpack: value := make([]byte, Length-4); copy(value, buf[pos:]) *)
Definition unpack_value (b : list Z) (pos len : Z) : outcome (list Z) :=
  obind (from b pos) (fun s => Ok (make_copy (len - 4) s)).

(* Authenticator.unpack *)
Definition unpack_auth (b : list Z) (pos : Z) : outcome (list Z * list Z) :=
  obind (u16_at b pos) (fun nl =>
  obind (u16_at b (pos + 2)) (fun cl =>
  obind (from b (pos + 4)) (fun s1 =>
  let nonce := make_copy nl s1 in
  let n := zmin nl (blen s1) in
  obind (from b (pos + 4 + n)) (fun s2 =>
  Ok (nonce, make_copy cl s2))))).

Fixpoint nts_loop (fuel : nat) (b : list Z) (pos : Z) (st : nts_pkt) : outcome nts_pkt :=
  if (28 <=? blen b - pos) && (match np_auth st with None => true | Some _ => false end) then
    match fuel with
    | O => OutOfFuel
    | S f =>
        obind (u16_at b pos) (fun ty =>
        obind (u16_at b (pos + 2)) (fun len =>
        if len <? 4 then Err e_short_ext
        else
          let p := pos + 4 in
          let next := nts_loop f b (p + len - 4) in
          if ty =? 260 then
            if len - 4 <? 32 then Err e_short_uid
            else obind (unpack_value b p len) (fun v =>
                 next {| np_uid := Some v; np_cookies := np_cookies st;
                         np_placeholders := np_placeholders st; np_auth := np_auth st |})
          else if ty =? 1028 then
            obind (unpack_auth b p) (fun a =>
            next {| np_uid := np_uid st; np_cookies := np_cookies st;
                    np_placeholders := np_placeholders st; np_auth := Some (fst a, snd a, pos) |})
          else if ty =? 516 then
            obind (unpack_value b p len) (fun v =>
            next {| np_uid := np_uid st; np_cookies := np_cookies st ++ [v];
                    np_placeholders := np_placeholders st; np_auth := np_auth st |})
          else if ty =? 772 then
            next {| np_uid := np_uid st; np_cookies := np_cookies st;
                    np_placeholders := np_placeholders st + 1; np_auth := np_auth st |}
          else next st))
    end
  else Ok st.

Definition nts_decode (b : list Z) : outcome nts_pkt :=
  if 1024 <? blen b then Err e_too_long
  else obind (nts_loop (length b) b 48 nts_empty) (fun st =>
       match np_uid st, np_auth st with
       | None, _ => Err e_no_uid
       | Some _, None => Err e_no_auth
       | Some _, Some _ => Ok st
       end).

(* the walk over the decrypted extension fields in authenticate: cookies are appended *)
Fixpoint nts_walk (fuel : nat) (d : list Z) (pos : Z) (acc : list (list Z)) : outcome (list (list Z)) :=
  if 28 <=? blen d - pos then
    match fuel with
    | O => OutOfFuel
    | S f =>
        obind (u16_at d pos) (fun ty =>
        obind (u16_at d (pos + 2)) (fun len =>
        if len <? 4 then Err e_short_ext
        else
          let p := pos + 4 in
          if ty =? 516 then
            obind (unpack_value d p len) (fun v => nts_walk f d (p + len - 4) (acc ++ [v]))
          else nts_walk f d (p + len - 4) acc))
    end
  else Ok acc.

(* Packet.authenticate (ProcessRequest): the associated data is b[:Auth.pos] *)
Definition nts_authenticate (aopen : list Z -> list Z -> list Z -> list Z -> option (list Z))
  (b key : list Z) (p : nts_pkt) : outcome (list (list Z)) :=
  match np_auth p with
  | None => Panic  (* not reachable after a successful DecodePacket; the zero Authenticator has an empty nonce *)
  | Some (nonce, ct, apos) =>
      if negb (key_ok key) then Err e_key
      else if negb (blen nonce =? 16) then Err e_nonce_len
      else obind (sub b 0 apos) (fun ad =>
           obind (go_open aopen key nonce ct ad) (fun d =>
           nts_walk (length d) d 0 (np_cookies p)))
  end.

(* ---- EncodePacket: positions only.  buf has MaxPacketLen = 1024 bytes. ---- *)

Definition pad4 (n : Z) : Z := (n + 3) / 4 * 4.

(* extHdr.pack(buf, pos) on a buffer of L bytes: PutUint16(buf[pos:], ..); PutUint16(buf[pos+2:], ..) *)
Definition hdr_pack (L pos : Z) : outcome Z :=
  if (0 <=? pos) && (pos + 4 <=? L) then Ok (pos + 4) else Panic.

(* n := copy(buf[pos:], v); pos += n *)
Definition copy_at (L pos n : Z) : outcome Z :=
  if (0 <=? pos) && (pos <=? L) then Ok (pos + zmin n (L - pos)) else Panic.

(* Cookie.pack / CookiePlaceholder.pack / the body of UniqueIdentifier.pack *)
Definition field_pack (L pos vlen : Z) : outcome Z :=
  obind (hdr_pack L pos) (fun p1 =>
  obind (copy_at L p1 vlen) (fun p2 =>
  copy_at L p2 (pad4 vlen - vlen))).

(* UniqueIdentifier.pack returns errShortUniqueID, which EncodePacket turns into a panic *)
Definition uid_pack (pos idlen : Z) : outcome Z :=
  if idlen <? 32 then Panic else field_pack 1024 pos idlen.

(* Authenticator.pack: NewAEAD error -> panic(err) in EncodePacket; header; the two lengths;
   nonce (16) and padding; ciphertext (plaintext + 16) and padding *)
Definition auth_pack (pos : Z) (key_good : bool) (ptlen : Z) : outcome Z :=
  if negb key_good then Panic
  else
    let ctlen := ptlen + 16 in
    obind (hdr_pack 1024 pos) (fun p1 =>
    obind (hdr_pack 1024 p1) (fun p2 =>
    obind (copy_at 1024 p2 16) (fun p3 =>
    obind (copy_at 1024 p3 0) (fun p4 =>
    obind (copy_at 1024 p4 ctlen) (fun p5 =>
    copy_at 1024 p5 ((- ctlen) mod 4)))))).

Fixpoint fields_pack (L pos : Z) (lens : list Z) : outcome Z :=
  match lens with
  | [] => Ok pos
  | l :: r => obind (field_pack L pos l) (fun p => fields_pack L p r)
  end.

(* EncodePacket(b, pkt) with a header slice of hdrlen bytes; the result is the final length *)
Definition nts_encode (hdrlen idlen : Z) (cookies placeholders : list Z) (key_good : bool) (ptlen : Z) : outcome Z :=
  if negb (hdrlen =? 48) then Panic
  else obind (uid_pack 48 idlen) (fun p1 =>
       obind (fields_pack 1024 p1 cookies) (fun p2 =>
       obind (fields_pack 1024 p2 placeholders) (fun p3 =>
       auth_pack p3 key_good ptlen))).

Definition max_cookies (idlen clen : Z) : Z :=
  Z.quot (1024 - 48 - (4 + pad4 idlen) - 40) (4 + pad4 clen).

(* the reply of a listener to an authenticated request: NewResponsePacket with n >= 1 cookies of
   clen bytes under the request's unique identifier (the cookies are packed into a plaintext
   buffer of n' * (4 + clen) bytes), then EncodePacket *)
Definition nts_server_reply (idlen n clen : Z) : outcome Z :=
  let m := max_cookies idlen clen in
  let n' := if (1 <=? m) && (m <? n) then m else n in
  let L := n' * (4 + clen) in
  obind (fields_pack L 0 (repeat clen (Z.to_nat n'))) (fun _ =>
  nts_encode 48 idlen [] [] true L).

(* the request of a client that holds navail >= 1 cookies, the first of clen bytes:
   NewRequestPacket, then EncodePacket *)
Definition nts_client_request (navail clen : Z) : outcome Z :=
  let want := 8 - navail in
  let cap := max_cookies 32 clen - 1 in
  let np := if cap <? want then cap else want in
  nts_encode 48 32 [clen] (repeat clen (Z.to_nat np)) true 0.

(* ProcessResponse: the unique identifier must be the one of the request, then authenticate *)
Definition nts_process_response (aopen : list Z -> list Z -> list Z -> list Z -> option (list Z))
  (b key reqid : list Z) (p : nts_pkt) : outcome (list (list Z)) :=
  let same := match np_uid p with
              | Some u => (blen u =? blen reqid) && forallb (fun xy => fst xy =? snd xy) (combine u reqid)
              | None => blen reqid =? 0
              end in
  if negb same then Err e_resp_id else nts_authenticate aopen b key p.

(* ---------- net/ntske ReadData over a finite stream ---------- *)

Definition e_eof := 40.
Definition e_unexpected_eof := 41.
Definition e_rec_error := 42.     (* an Error record was read: +code class *)
Definition e_critical := 46.

(* io.ReadFull of n bytes *)
Definition take (n : Z) (s : list Z) : outcome (list Z * list Z) :=
  if n =? 0 then Ok ([], s)
  else match s with
       | [] => Err e_eof
       | _ => if blen s <? n then Err e_unexpected_eof
              else Ok (firstn (Z.to_nat n) s, skipn (Z.to_nat n) s)
       end.

Record ke_data := { ke_algo : Z; ke_cookies : list (list Z); ke_server : list Z; ke_port : Z }.
Definition ke_empty := {| ke_algo := 0; ke_cookies := []; ke_server := []; ke_port := 0 |}.

Fixpoint ke_read (fuel : nat) (s : list Z) (d : ke_data) : outcome ke_data :=
  match fuel with
  | O => OutOfFuel
  | S f =>
      obind (take 4 s) (fun hs =>
      let '(h, s1) := hs in
      let ty0 := be_val (firstn 2 h) 0 in
      let blen' := be_val (skipn 2 h) 0 in
      let critical := 32768 <=? ty0 in
      let ty := ty0 mod 32768 in
      if ty =? 0 then Ok d
      else if ty =? 1 then
        obind (take 2 s1) (fun r => ke_read f (snd r) d)
      else if ty =? 4 then
        obind (take 2 s1) (fun r =>
        ke_read f (snd r) {| ke_algo := be_val (fst r) 0; ke_cookies := ke_cookies d;
                             ke_server := ke_server d; ke_port := ke_port d |})
      else if ty =? 5 then
        obind (take blen' s1) (fun r =>
        ke_read f (snd r) {| ke_algo := ke_algo d; ke_cookies := ke_cookies d ++ [fst r];
                             ke_server := ke_server d; ke_port := ke_port d |})
      else if ty =? 6 then
        obind (take blen' s1) (fun r =>
        ke_read f (snd r) {| ke_algo := ke_algo d; ke_cookies := ke_cookies d;
                             ke_server := fst r; ke_port := ke_port d |})
      else if ty =? 7 then
        obind (take 2 s1) (fun r =>
        ke_read f (snd r) {| ke_algo := ke_algo d; ke_cookies := ke_cookies d;
                             ke_server := ke_server d; ke_port := be_val (fst r) 0 |})
      else if ty =? 2 then
        obind (take 2 s1) (fun r =>
        let code := be_val (fst r) 0 in
        Err (e_rec_error + (if code <? 3 then code else 3)))
      else if critical then Err e_critical
      else obind (take blen' s1) (fun r => ke_read f (snd r) d))
  end.

Definition ntske_read_data (s : list Z) : outcome ke_data := ke_read (S (length s)) s ke_empty.

(* ---------- net/udp TimestampFromOOBData ---------- *)

Definition e_oob_data := 50.
Definition e_oob_none := 51.

Definition s64 (x : Z) : Z := if x <? two63 then x else x - two64.
Definition s32 (x : Z) : Z := if x <? 2147483648 then x else x - 4294967296.

(* the int64 read through unsafe.Pointer(&oob[off]): &oob[off] is a bounds-checked index; the eight bytes
   behind it lie inside the control message because of the length checks made before *)
Definition rd_i64 (oob : list Z) (off : Z) : outcome Z :=
  obind (idx oob off) (fun _ => Ok (s64 (le_val (firstn 8 (skipn (Z.to_nat off) oob))))).

(* time.Unix(sec, nsec): normalisation, then the pair (t.Unix(), t.Nanosecond()) *)
Definition time_unix (sec nsec : Z) : Z * Z :=
  if (nsec <? 0) || (1000000000 <=? nsec) then
    let n := Z.quot nsec 1000000000 in
    let sec1 := i64 (sec + n) in
    let nsec1 := nsec - n * 1000000000 in
    if nsec1 <? 0 then (i64 (sec1 - 1), nsec1 + 1000000000) else (sec1, nsec1)
  else (sec, nsec).

Definition cmsg_align (n : Z) : Z := (n + 7) / 8 * 8.

Fixpoint oob_loop (fuel : nat) (oob : list Z) : outcome (Z * Z) :=
  if 16 <=? blen oob then
    match fuel with
    | O => OutOfFuel
    | S f =>
        obind (idx oob 0) (fun _ =>
        let hlen := le_val (firstn 8 oob) in
        let level := s32 (le_val (firstn 4 (skipn 8 oob))) in
        let ty := s32 (le_val (firstn 4 (skipn 12 oob))) in
        if (hlen <? 16) || (blen oob <? hlen) then Err e_oob_data
        else
          let skip :=
            let n := 16 + cmsg_align hlen - 16 in
            if blen oob <? n then Err e_oob_data
            else obind (from oob n) (oob_loop f) in
          if level =? 1 then
            if ty =? 65 then
              if negb (hlen =? 64) then Err e_oob_data
              else obind (rd_i64 oob 16) (fun sec0 =>
                   obind (rd_i64 oob 24) (fun nsec0 =>
                   obind (rd_i64 oob 32) (fun sec1 =>
                   obind (rd_i64 oob 40) (fun nsec1 =>
                   obind (rd_i64 oob 48) (fun sec2 =>
                   obind (rd_i64 oob 56) (fun nsec2 =>
                   if negb (sec2 =? 0) || negb (nsec2 =? 0) then
                     if negb (sec0 =? 0) || negb (nsec0 =? 0) || negb (sec1 =? 0) || negb (nsec1 =? 0)
                     then Err e_oob_data else Ok (time_unix sec2 nsec2)
                   else
                     if negb (sec1 =? 0) || negb (nsec1 =? 0)
                     then Err e_oob_data else Ok (time_unix sec0 nsec0)))))))
            else if ty =? 35 then
              if negb (hlen =? 32) then Err e_oob_data
              else obind (rd_i64 oob 16) (fun sec =>
                   obind (rd_i64 oob 24) (fun nsec => Ok (time_unix sec nsec)))
            else skip
          else skip)
    end
  else Err e_oob_none.

Definition timestamp_from_oob (oob : list Z) : outcome (Z * Z) := oob_loop (length oob) oob.

(* ---------- net/scion/auth.go ---------- *)

(* PacketAuthOptMetadata: panics unless the option data has 28 bytes *)
Definition auth_opt_metadata (d : list Z) : outcome (Z * Z) :=
  if negb (blen d =? 28) then Panic
  else obind (rd_be d 0 4 0) (fun spi => obind (idx d 4) (fun algo => Ok (spi, algo))).

(* PacketAuthOptMAC *)
Definition auth_opt_mac (d : list Z) : outcome (list Z) :=
  if negb (blen d =? 28) then Panic else from d 12.

(* the call sites in runSCIONServer and measureClockOffsetSCION: the option is looked at only when
   its data has PacketAuthOptDataLen bytes.  Result: Some (spi, algo, mac) when it is looked at. *)
Definition auth_opt_site (d : list Z) : outcome (option (Z * Z * list Z)) :=
  if blen d =? 28 then
    obind (auth_opt_metadata d) (fun m => obind (auth_opt_mac d) (fun mac => Ok (Some (fst m, snd m, mac))))
  else Ok None.

(* ---------- receive-loop glue ---------- *)

Inductive action := Drop (why : Z) | Reply (len : Z) | Accept.

(* what leaves the project in one iteration of runIPServer *)
Record ip_env := {
  env_open : list Z -> list Z -> list Z -> list Z -> option (list Z);  (* AES-SIV open *)
  env_key : Z -> option (list Z);                                        (* provider.Get *)
  env_cookie_len : Z                                                     (* length of a cookie issued now *)
}.

(* the state a listener goroutine carries from one iteration to the next: the capacities of its
   packet buffer and of its control-message buffer (everything else is local to an iteration or
   belongs to the timestamp store, see C06) *)
Record loop_state := { ls_cap : Z; ls_oobcap : Z }.

Definition d_ntp := 1.
Definition d_nts := 2.
Definition d_nocookie := 3.
Definition d_cookie := 4.
Definition d_key := 5.
Definition d_decrypt := 6.
Definition d_auth := 7.
Definition d_validate := 8.
Definition d_trunc := 9.

(* the NTS part shared by runIPServer and runSCIONServer (taken when the payload is longer than an
   NTP header): DecodePacket, FirstCookie, EncryptedServerCookie.Decode, provider.Get, Decrypt,
   ProcessRequest.  inl = reason to drop, inr = (length of the unique identifier, number of cookies
   the reply will carry) *)
Definition nts_part (env : ip_env) (buf : list Z) : outcome (Z + Z * Z) :=
  match nts_decode buf with
  | Err _ => Ok (inl d_nts) | Panic => Panic | OutOfFuel => OutOfFuel
  | Ok p =>
      match np_cookies p with
      | [] => Ok (inl d_nocookie)
      | c :: _ =>
          match encrypted_cookie_decode c with
          | Err _ => Ok (inl d_cookie) | Panic => Panic | OutOfFuel => OutOfFuel
          | Ok (id, nonce, ct) =>
              match env_key env id with
              | None => Ok (inl d_key)
              | Some k =>
                  match cookie_decrypt (env_open env) k nonce ct with
                  | Err _ => Ok (inl d_decrypt) | Panic => Panic | OutOfFuel => OutOfFuel
                  | Ok (_, s2c, c2s) =>
                      match nts_authenticate (env_open env) buf c2s p with
                      | Err _ => Ok (inl d_auth) | Panic => Panic | OutOfFuel => OutOfFuel
                      | Ok cookies =>
                          let idlen := match np_uid p with Some u => blen u | None => 0 end in
                          Ok (inr (idlen, Z.of_nat (length cookies) + np_placeholders p))
                      end
                  end
              end
          end
      end
  end.

(* decoding and answering an NTP/NTS payload: common tail of both listeners *)
Definition serve_payload (env : ip_env) (buf : list Z) : outcome action :=
  match ntp_decode buf with
  | Err _ => Ok (Drop d_ntp)
  | Panic => Panic | OutOfFuel => OutOfFuel
  | Ok (lvm, _, _) =>
      if 48 <? blen buf then
        obind (nts_part env buf) (fun r =>
        match r with
        | inl why => Ok (Drop why)
        | inr (idlen, n) =>
            if negb (ntp_validate_request lvm) then Ok (Drop d_validate)
            else obind (nts_server_reply idlen n (env_cookie_len env)) (fun l => Ok (Reply l))
        end)
      else if negb (ntp_validate_request lvm) then Ok (Drop d_validate)
      else Ok (Reply 48)
  end.

(* one iteration of runIPServer on a datagram of which at most cap(buf) bytes arrive (longer ones
   come with MSG_TRUNC set and are dropped), after buf = buf[:cap(buf)]; buf = buf[:n] *)
Definition ip_server_step (env : ip_env) (st : loop_state) (dgram : list Z) : outcome (loop_state * action) :=
  if ls_cap st <? blen dgram then Ok (st, Drop d_trunc)
  else obind (sub dgram 0 (blen dgram)) (fun buf =>
       obind (serve_payload env buf) (fun a => Ok (st, a))).

(* the receive loop over a history of datagrams; a panic ends the process, an exhausted loop is a
   goroutine that no longer returns to the socket *)
Inductive run_result := Served (acts : list action) | Crashed (acts : list action) | Hung (acts : list action).

Fixpoint ip_server_run (env : ip_env) (st : loop_state) (h : list (list Z)) (acc : list action) : run_result :=
  match h with
  | [] => Served (rev acc)
  | d :: r =>
      match ip_server_step env st d with
      | Ok (st', a) => ip_server_run env st' r (a :: acc)
      | Err _ => ip_server_run env st r (Drop 0 :: acc)
      | Panic => Crashed (rev acc)
      | OutOfFuel => Hung (rev acc)
      end
  end.

(* ---- runSCIONServer over the result of gopacket's DecodeLayers (the parser is outside the model) ---- *)

Record scion_parse := {
  sp_ok : bool;             (* DecodeLayers returned no error *)
  sp_nlayers : Z;           (* len(decoded) *)
  sp_last : Z;              (* last decoded layer: 1 SCION/UDP, 2 SCMP, 0 anything else *)
  sp_scmp_type : Z;         (* SCMP type: 128 echo request, 130 traceroute request *)
  sp_rev_ok : bool;         (* Path.Reverse() succeeds *)
  sp_buflen : Z;            (* len(buf) *)
  sp_udplen : Z;            (* udpLayer.Length *)
  sp_srclen : Z;            (* len(RawSrcAddr): 4, 8, 12 or 16 *)
  sp_dstlen : Z;
  sp_dstport : Z;
  sp_e2e : bool;            (* decoded[len-2] is the end-to-end extension *)
  sp_auth : option (list Z);(* data of the authenticator option, when FindOption finds one *)
  sp_payload : list Z       (* udpLayer.Payload *)
}.

Record scion_env := {
  se_ip : ip_env;
  se_host_port : Z;         (* localHostPort *)
  se_conn_port : Z;         (* localConnPort *)
  se_fetcher : bool;        (* fetcher != nil *)
  se_key_ok : bool;         (* FetchHostASKey succeeds *)
  se_mac_ok : list Z -> bool (* the CMAC over the packet equals the given MAC *)
}.

Definition d_parse := 20.
Definition d_type := 21.
Definition d_scmp := 22.
Definition d_reverse := 23.
Definition d_udplen := 24.
Definition d_src := 25.
Definition d_dst := 26.
Definition d_port := 27.
Definition d_mac := 28.

Inductive scion_action := SDrop (why : Z) | SEcho | SForward | SReply (len : Z).

Definition addr_from_slice_ok (n : Z) : bool := (n =? 4) || (n =? 16).

Definition scion_server_step (env : scion_env) (p : scion_parse) : outcome scion_action :=
  if negb (sp_ok p) then Ok (SDrop d_parse)
  else if negb ((2 <=? sp_nlayers p) && ((sp_last p =? 1) || (sp_last p =? 2))) then Ok (SDrop d_type)
  else if sp_last p =? 2 then
    if negb ((sp_scmp_type p =? 128) || (sp_scmp_type p =? 130)) then Ok (SDrop d_scmp)
    else if negb (sp_rev_ok p) then Ok (SDrop d_reverse)
    else Ok SEcho
  else if sp_buflen p <? sp_udplen p then Ok (SDrop d_udplen)
  else if negb (addr_from_slice_ok (sp_srclen p)) then Ok (SDrop d_src)
  else if negb (addr_from_slice_ok (sp_dstlen p)) then Ok (SDrop d_dst)
  else if negb (sp_dstport p =? se_host_port env) then
    if negb (se_conn_port env =? 30041) || (sp_dstport p =? 30041) then Ok (SDrop d_port)
    else Ok SForward
  else if se_host_port env =? 30041 then Ok (SDrop d_port)
  else
    (* SCION packet authentication: looked at only with a fetcher, an end-to-end extension and an
       authenticator option of exactly 28 bytes; buf[len(buf)-int(udpLayer.Length):] is the MAC input *)
    let auth :=
      if se_fetcher env && (3 <=? sp_nlayers p) && sp_e2e p then
        match sp_auth p with
        | None => Ok true
        | Some d =>
            obind (auth_opt_site d) (fun o =>
            match o with
            | None => Ok true
            | Some (spi, algo, mac) =>
                if (spi =? 196731) && (algo =? 0) then
                  if negb (se_key_ok env) then Ok true
                  else obind (from (repeat 0 (Z.to_nat (sp_buflen p))) (sp_buflen p - sp_udplen p)) (fun _ =>
                       Ok (se_mac_ok env mac))
                else Ok true
            end)
        end
      else Ok true in
    obind auth (fun go_on =>
    if negb go_on then Ok (SDrop d_mac)
    else
      match serve_payload (se_ip env) (sp_payload p) with
      | Ok (Reply l) => if negb (sp_rev_ok p) then Ok (SDrop d_reverse) else Ok (SReply l)
      | Ok (Drop w) => Ok (SDrop w)
      | Ok Accept => Ok (SDrop 0)
      | Err e => Err e | Panic => Panic | OutOfFuel => OutOfFuel
      end).

(* one iteration of runCSPTPServerIP on the listener of the given port *)
Definition csptp_server_step (port : Z) (dgram : list Z) : outcome action :=
  if 98 <? blen dgram then Ok (Drop d_trunc)
  else if blen dgram <? 44 then Ok (Drop 1)
  else obind (sub dgram 0 44) (fun hd =>
       match csptp_decode_message hd with
       | Err _ => Ok (Drop 2) | Panic => Panic | OutOfFuel => OutOfFuel
       | Ok (ty, mlen, _) =>
           if negb (blen dgram =? mlen) then Ok (Drop 3)
           else if (ty =? 0) && (port =? 319) then
             if negb (blen dgram - 44 =? 0) then Ok (Drop 4) else Ok Accept
           else if (ty =? 8) && (port =? 320) then
             obind (from dgram 44) (fun tl =>
             match csptp_decode_request_tlv tl with
             | Err _ => Ok (Drop 5) | Panic => Panic | OutOfFuel => OutOfFuel
             | Ok (tty, flags) =>
                 obind (rd_be tl 4 6 0) (fun org =>
                 if negb ((tty =? 3) && (org =? 259787276313969)) then Ok (Drop 6)
                 else if negb (blen dgram - 44 =? tlv_len flags) then Ok (Drop 7)
                 else Ok Accept)
             end)
           else Ok (Drop 8)
       end).

(* the part of one iteration of CSPTPClientIP.MeasureClockOffset that looks at the datagram:
   Accept = message taken (Sync or Follow Up), Drop = retried / returned as an error *)
Definition csptp_client_step (seq : Z) (from_event from_general : bool) (dgram : list Z) : outcome action :=
  if 98 <? blen dgram then Ok (Drop d_trunc)
  else if blen dgram <? 44 then Ok (Drop 1)
  else obind (sub dgram 0 44) (fun hd =>
       match csptp_decode_message hd with
       | Err _ => Ok (Drop 2) | Panic => Panic | OutOfFuel => OutOfFuel
       | Ok (ty, mlen, sq) =>
           if negb (blen dgram =? mlen) then Ok (Drop 3)
           else if negb (sq =? seq) then Ok (Drop 9)
           else if ty =? 0 then
             if negb from_event then Ok (Drop 10)
             else if negb (blen dgram - 44 =? 0) then Ok (Drop 4) else Ok Accept
           else if ty =? 8 then
             if negb from_general then Ok (Drop 10)
             else obind (from dgram 44) (fun tl =>
                  match csptp_decode_response_tlv tl with
                  | Err _ => Ok (Drop 5) | Panic => Panic | OutOfFuel => OutOfFuel
                  | Ok (tty, flags) =>
                      obind (rd_be tl 4 6 0) (fun org =>
                      if negb ((tty =? 3) && (org =? 259787276313971)) then Ok (Drop 6)
                      else if negb (blen dgram - 44 =? tlv_len flags) then Ok (Drop 7)
                      else Ok Accept)
                  end)
           else Ok (Drop 8)
       end).

(* ---------- the property oracle ---------- *)

(* written from the statement: whatever arrives, the code neither terminates the process
   (class 2) nor stops making progress (class 3) *)
Definition C08_class_ok (cls : Z) : bool := (cls =? 0) || (cls =? 1).

(* a listener/client observation: the process is alive after the crafted input and every
   well-formed sentinel sent after a crafted input was answered *)
Definition C08_alive_ok (alive : Z) (sentinels : list Z) : bool :=
  (alive =? 1) && forallb (fun s => s =? 1) sentinels.
