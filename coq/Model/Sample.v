(* Model of base/crypto/crypto.go: randInt31, randInt63, RandIntn (rejection
   sampling of bounded integers from crypto/rand.Reader) and Sample (reservoir
   sampling through a pick(dst, src) callback).

   The random generator is a tape of 32-bit words: `tape` lists the words that
   are read first (every rand.Read of 4 bytes takes one word, little endian;
   a read of 8 bytes takes two), after the list is used up every further word
   is `d`.  Every eventually-constant word stream is such a pair.  A stream
   whose constant tail is always rejected makes the Go loop spin forever:
   outcome Hang.  `c` says that the context passed in is already cancelled
   (ctx.Err() <> nil); the code looks at it only after a rejected word. *)
From ST Require Import Base.Ints.
Open Scope Z_scope.

Inductive outcome (A : Type) : Type :=
| Ok (a : A)
| Err          (* the function returns a non-nil error *)
| Panic
| Hang.        (* the loop never ends *)
Arguments Ok {A} a.
Arguments Err {A}.
Arguments Panic {A}.
Arguments Hang {A}.

Definition max_i32 : Z := 2147483647.
Definition two32 : Z := 4294967296.

(* t := uint32(-n) % uint32(n)      (n is a Go int with 2 <= n <= MaxInt32) *)
Definition thresh31 (n : Z) : Z := Z.rem (u32 (- n)) (u32 n).
(* t := uint64(-n) % uint64(n) *)
Definition thresh63 (n : Z) : Z := Z.rem (u64 (- n)) (u64 n).

(* for { read x; if x > t { break }; if ctx.Err() != nil { return err } };  return x % n
   result: value and the words of the list that are left *)
Fixpoint loop31 (n t : Z) (c : bool) (d : Z) (tape : list Z) : outcome (Z * list Z) :=
  match tape with
  | [] => if t <? d then Ok (Z.rem d (u32 n), []) else if c then Err else Hang
  | x :: r => if t <? x then Ok (Z.rem x (u32 n), r) else if c then Err else loop31 n t c d r
  end.

Definition rand_int31 (n : Z) (c : bool) (d : Z) (tape : list Z) : outcome (Z * list Z) :=
  if n <? 2 then Ok (0, tape)
  else if max_i32 <? n then Panic
  else loop31 n (thresh31 n) c d tape.

(* binary.LittleEndian.Uint64 of eight bytes = two consecutive words *)
Definition w64 (lo hi : Z) : Z := lo + two32 * hi.

Fixpoint loop63 (n t : Z) (c : bool) (d : Z) (tape : list Z) : outcome (Z * list Z) :=
  match tape with
  | [] => if t <? w64 d d then Ok (Z.rem (w64 d d) (u64 n), []) else if c then Err else Hang
  | [x] => if t <? w64 x d then Ok (Z.rem (w64 x d) (u64 n), [])
           else if c then Err
           else if t <? w64 d d then Ok (Z.rem (w64 d d) (u64 n), []) else Hang
  | x :: y :: r => if t <? w64 x y then Ok (Z.rem (w64 x y) (u64 n), r)
                   else if c then Err else loop63 n t c d r
  end.

Definition rand_int63 (n : Z) (c : bool) (d : Z) (tape : list Z) : outcome (Z * list Z) :=
  if n <? 2 then Ok (0, tape) else loop63 n (thresh63 n) c d tape.

Definition rand_intn (n : Z) (c : bool) (d : Z) (tape : list Z) : outcome (Z * list Z) :=
  if n <=? 0 then Panic
  else if n <=? max_i32 then rand_int31 n c d tape
  else rand_int63 n c d tape.

(* for i := k; i != n; i++ { j, err := RandIntn(ctx, i+1); ...; if j < k { pick(j, i) } }
   `fuel` is the number of iterations left (n - i); the result lists the
   pick(dst, src) calls in call order *)
Fixpoint sample_loop (fuel : nat) (k i : Z) (c : bool) (d : Z) (tape : list Z)
  : outcome (list (Z * Z) * list Z) :=
  match fuel with
  | O => Ok ([], tape)
  | S f =>
      match rand_intn (i + 1) c d tape with
      | Ok (j, tape1) =>
          match sample_loop f k (i + 1) c d tape1 with
          | Ok (ps, tape2) => Ok ((if j <? k then [(j, i)] else []) ++ ps, tape2)
          | Err => Err | Panic => Panic | Hang => Hang
          end
      | Err => Err | Panic => Panic | Hang => Hang
      end
  end.

(* for i := 0; i != k; i++ { pick(i, i) } *)
Definition init_picks (k : Z) : list (Z * Z) :=
  map (fun i => (Z.of_nat i, Z.of_nat i)) (seq 0 (Z.to_nat k)).

(* Sample(ctx, k, n, pick): returned count, the pick calls, the rest of the tape *)
Definition sample (k n : Z) (c : bool) (d : Z) (tape : list Z)
  : outcome (Z * list (Z * Z) * list Z) :=
  if k <? 0 then Panic
  else if n <? 0 then Panic
  else
    let k' := if n <? k then n else k in
    match sample_loop (Z.to_nat (n - k')) k' k' c d tape with
    | Ok (ps, tape') => Ok (k', init_picks k' ++ ps, tape')
    | Err => Err | Panic => Panic | Hang => Hang
    end.
