(* C16 -- model of core/client/client.go: collectMeasurements and
   ReferenceClockClient.MeasureClockOffsets.

   The Go code (one call of MeasureClockOffsets):

     if len(ms) != len(refclks) { panic }                     -- begin_call
     CAS(numOpsInProgress, 0, 1) or panic                      -- begin_call
     defer CAS(numOpsInProgress, 1, 0) or panic                -- end_call
     msc := make(chan Measurement)                             -- unbuffered: a send is a rendezvous
     for each clock: go { r := clock.MeasureClockOffset(ctx); msc <- r }     -- producers
     collectMeasurements(ctx, ms, msc):
        i, j, n := 0, 0, len(ms)
        for i != n { select { case m := <-msc: if m.Error == nil { if j != len(ms) { ms[j] = m; j++ } }; i++
                              case <-ctx.Done(): break loop } }
        go func(n) { for n != 0 { <-msc; n-- } }(n - i)       -- drainer
        return j

   It is modelled as a labelled transition system with one transition per
   synchronisation event and a virtual clock:

     Finish k     producer k's MeasureClockOffset call returns (at its completion time); the
                  producer is now blocked in `msc <- r`                               (timed)
     Cancel       the context's deadline passes: ctx.Done() is closed                 (timed)
     Recv k       rendezvous producer k -> collector (the select's receive arm)
     Quit         the select's ctx.Done arm (enabled iff cancelled; Go may equally
                  pick a ready sender)
     Exit         the loop condition i != n fails
     DrainRecv k  rendezvous producer k -> drainer

   Quit and Exit also start the drainer with n - i and perform the return.
   Time: testing/synctest semantics (maximal progress).  A timed event may only
   move the clock forward when no untimed transition is enabled (every
   goroutine is durably blocked); timed events fire in the order of their
   times; events of the same instant and the untimed transitions they enable
   interleave in every possible order.  All schedules = all paths of `step`.

   This file has no proofs: the definitions are executable and are extracted. *)
From Coq Require Import ZArith List Bool Lia.
Import ListNotations.
Open Scope Z_scope.

(* ---------- measurements, clocks, scenarios ---------- *)

Record meas := { m_ts : Z; m_off : Z; m_err : bool }.   (* m_err = (Error != nil) *)
Definition meas_zero : meas := {| m_ts := 0; m_off := 0; m_err := false |}.
Definition meas_eqb (a b : meas) : bool :=
  (m_ts a =? m_ts b) && (m_off a =? m_off b) && Bool.eqb (m_err a) (m_err b).

(* A reference clock as the collector sees it: when its MeasureClockOffset call
   returns (relative to the start of the round; None = never) and with what. *)
Record clock := { c_done : option Z; c_res : meas }.

(* One round: the instant at which the context's Done channel closes (relative to the
   start of the call) -- its deadline, or the instant of an explicit cancel if that comes
   first or if there is no deadline ("deadline" below always means this instant) --, the
   clocks, the caller's slice as it is before the call. *)
Record scen := { s_deadline : Z; s_clocks : list clock; s_ms0 : list meas }.

(* a context that has already expired and a call that returns at once both
   act at time 0, the start of the round *)
Definition dl (sc : scen) : Z := Z.max 0 (s_deadline sc).
Definition nclk (sc : scen) : nat := length (s_clocks sc).
Definition ctime (sc : scen) (k : nat) : option Z :=
  match nth_error (s_clocks sc) k with
  | Some c => match c_done c with Some t => Some (Z.max 0 t) | None => None end
  | None => None
  end.
Definition cres (sc : scen) (k : nat) : meas :=
  match nth_error (s_clocks sc) k with Some c => c_res c | None => meas_zero end.
Definition cok (sc : scen) (k : nat) : bool := negb (m_err (cres sc k)).

(* ---------- states ---------- *)

Inductive pst := Working | Ready | Done.
Inductive cst := Loop (i j : nat) | Ret (j : nat) (t : Z).

Record st := mkst {
  prods : list pst;          (* producer goroutines *)
  coll : cst;                (* the collector: loop variables i, j / returned j at time t *)
  ms : list meas;            (* the caller's slice *)
  drain : option nat;        (* drainer goroutine: None = not started, Some r = r receives to go *)
  cancelled : bool;          (* ctx.Done() closed *)
  now : Z;                   (* virtual time *)
  recvd : list nat           (* ghost: producers received by the collector, in order *)
}.

Inductive label := Finish (k : nat) | Cancel | Recv (k : nat) | Quit | Exit | DrainRecv (k : nat).

Definition init (sc : scen) : st :=
  {| prods := repeat Working (nclk sc); coll := Loop 0 0; ms := s_ms0 sc; drain := None;
     cancelled := false; now := 0; recvd := [] |}.

Fixpoint upd {A} (l : list A) (k : nat) (v : A) : list A :=
  match l, k with
  | [], _ => []
  | _ :: r, O => v :: r
  | x :: r, S k' => x :: upd r k' v
  end.

Definition is_ready (p : pst) : bool := match p with Ready => true | _ => false end.
Definition is_working (p : pst) : bool := match p with Working => true | _ => false end.
Definition is_done (p : pst) : bool := match p with Done => true | _ => false end.
Definition pstate (s : st) (k : nat) : pst := nth k (prods s) Done.

(* times of the timed events that have not fired yet *)
Definition work_times (sc : scen) (s : st) : list Z :=
  flat_map (fun k => match pstate s k, ctime sc k with Working, Some t => [t] | _, _ => [] end)
           (seq 0 (length (prods s))).
Definition pending (sc : scen) (s : st) : list Z :=
  (if cancelled s then [] else [dl sc]) ++ work_times sc s.

(* some untimed transition is enabled: a goroutine can run *)
Definition urgent (s : st) : bool :=
  match coll s with
  | Loop i j => Nat.eqb i (length (ms s)) || cancelled s || existsb is_ready (prods s)
  | Ret _ _ => match drain s with Some (S _) => existsb is_ready (prods s) | _ => false end
  end.

Definition timed_ok (sc : scen) (s : st) (t : Z) : bool :=
  forallb (fun t' => t <=? t') (pending sc s) && ((t <=? now s) || negb (urgent s)).

(* the body of the receive arm: if m.Error == nil { if j != len(ms) { ms[j] = m; j++ } } *)
Definition store (l : list meas) (j : nat) (m : meas) : list meas * nat :=
  if m_err m then (l, j)
  else if Nat.eqb j (length l) then (l, j)
  else (upd l j m, S j).

Definition step (sc : scen) (s : st) (l : label) : option st :=
  match l with
  | Finish k =>
      match pstate s k, ctime sc k with
      | Working, Some t =>
          if timed_ok sc s t then
            Some (mkst (upd (prods s) k Ready) (coll s) (ms s) (drain s) (cancelled s) (Z.max (now s) t) (recvd s))
          else None
      | _, _ => None
      end
  | Cancel =>
      if negb (cancelled s) && timed_ok sc s (dl sc) then
        Some (mkst (prods s) (coll s) (ms s) (drain s) true (Z.max (now s) (dl sc)) (recvd s))
      else None
  | Recv k =>
      match coll s with
      | Loop i j =>
          if negb (Nat.eqb i (length (ms s))) && is_ready (pstate s k) then
            let p := store (ms s) j (cres sc k) in
            Some (mkst (upd (prods s) k Done) (Loop (S i) (snd p)) (fst p) (drain s) (cancelled s) (now s) (recvd s ++ [k]))
          else None
      | Ret _ _ => None
      end
  | Quit =>
      match coll s with
      | Loop i j =>
          if negb (Nat.eqb i (length (ms s))) && cancelled s then
            Some (mkst (prods s) (Ret j (now s)) (ms s) (Some (length (ms s) - i)%nat) (cancelled s) (now s) (recvd s))
          else None
      | Ret _ _ => None
      end
  | Exit =>
      match coll s with
      | Loop i j =>
          if Nat.eqb i (length (ms s)) then
            Some (mkst (prods s) (Ret j (now s)) (ms s) (Some (length (ms s) - i)%nat) (cancelled s) (now s) (recvd s))
          else None
      | Ret _ _ => None
      end
  | DrainRecv k =>
      match drain s with
      | Some (S r) =>
          if is_ready (pstate s k) then
            Some (mkst (upd (prods s) k Done) (coll s) (ms s) (Some r) (cancelled s) (now s) (recvd s))
          else None
      | _ => None
      end
  end.

(* running a schedule *)
Fixpoint exec (sc : scen) (s : st) (ls : list label) : option st :=
  match ls with
  | [] => Some s
  | l :: r => match step sc s l with Some s' => exec sc s' r | None => None end
  end.

(* goroutines of the round that are alive: producers that have not completed
   their send, the collector while it loops, the drainer while it has receives to go *)
Definition goroutines (s : st) : nat :=
  (length (filter (fun p => negb (is_done p)) (prods s))
   + (match coll s with Loop _ _ => 1 | Ret _ _ => 0 end)
   + (match drain s with Some (S _) => 1 | _ => 0 end))%nat.

(* all labels that could be enabled in s *)
Definition all_labels (s : st) : list label :=
  [Cancel; Quit; Exit] ++ flat_map (fun k => [Finish k; Recv k; DrainRecv k]) (seq 0 (length (prods s))).
Definition enabled (sc : scen) (s : st) (l : label) : bool :=
  match step sc s l with Some _ => true | None => false end.
Definition stuck (sc : scen) (s : st) : bool := negb (existsb (enabled sc s) (all_labels s)).

(* termination measure: every transition lowers it by one *)
Definition pweight (p : pst) : nat := match p with Working => 2 | Ready => 1 | Done => 0 end.
Definition measure (s : st) : nat :=
  (list_sum (map pweight (prods s)) + (if cancelled s then 0 else 1)
   + (match coll s with Loop _ _ => 1 | Ret _ _ => 0 end))%nat.

(* ---------- the in-progress guard of ReferenceClockClient ---------- *)

Inductive call_out := Started | PanicLen | PanicBusy.

(* numOpsInProgress before -> after, and what the caller sees *)
Definition begin_call (numops : Z) (nms nclks : nat) : Z * call_out :=
  if negb (Nat.eqb nms nclks) then (numops, PanicLen)
  else if numops =? 0 then (1, Started)              (* CompareAndSwap(0, 1) succeeded *)
  else (numops, PanicBusy).

(* the deferred function: None = panic("inconsistent count ...") *)
Definition end_call (numops : Z) : option Z :=
  if numops =? 1 then Some 0 else None.

(* histories of one collector object: calls (by id) and the returns of the calls that were let in *)
Inductive gop := GCall (id : nat) (nms nclks : nat) | GReturn (id : nat).
Inductive gout := GO_call (o : call_out) | GO_ret | GO_inconsistent | GO_ignored.
Record gst := { g_numops : Z; g_active : list nat }.
Definition ginit : gst := {| g_numops := 0; g_active := [] |}.

Definition gstep (g : gst) (o : gop) : gst * gout :=
  match o with
  | GCall id a b =>
      let '(c, r) := begin_call (g_numops g) a b in
      ({| g_numops := c; g_active := match r with Started => id :: g_active g | _ => g_active g end |}, GO_call r)
  | GReturn id =>
      if existsb (Nat.eqb id) (g_active g) then
        match end_call (g_numops g) with
        | Some c => ({| g_numops := c; g_active := filter (fun x => negb (Nat.eqb id x)) (g_active g) |}, GO_ret)
        | None => (g, GO_inconsistent)
        end
      else (g, GO_ignored)      (* only a call that was let in and has not returned can return *)
  end.

Fixpoint grun (g : gst) (os : list gop) : gst * list gout :=
  match os with
  | [] => (g, [])
  | o :: r => let '(g1, x) := gstep g o in let '(g2, xs) := grun g1 r in (g2, x :: xs)
  end.

(* ---------- one call as a whole: guard and collector together ---------- *)
(* MeasureClockOffsets = length check and CAS (begin_call), then the collector; the deferred
   reset (end_call) runs when collectMeasurements returns, i.e. with the transition Quit or Exit. *)
Record gc := { gc_g : gst; gc_s : st }.
Definition gc_init (sc : scen) (id : nat) (g : gst) : option gc :=
  match gstep g (GCall id (length (s_ms0 sc)) (nclk sc)) with
  | (g', GO_call Started) => Some {| gc_g := g'; gc_s := init sc |}
  | _ => None
  end.
Definition gc_step (sc : scen) (id : nat) (x : gc) (l : label) : option gc :=
  match step sc (gc_s x) l with
  | None => None
  | Some s' =>
      Some {| gc_g := match l with Quit | Exit => fst (gstep (gc_g x) (GReturn id)) | _ => gc_g x end;
              gc_s := s' |}
  end.

(* ---------- property oracle (written from the property text, uses only the scenario) ---------- *)

Fixpoint meas_list_eqb (a b : list meas) : bool :=
  match a, b with
  | [], [] => true
  | x :: a', y :: b' => meas_eqb x y && meas_list_eqb a' b'
  | _, _ => false
  end.

Definition count_in (v : meas) (l : list meas) : nat := length (filter (meas_eqb v) l).
Definition before_dl (sc : scen) (k : nat) : bool :=
  match ctime sc k with Some t => t <? dl sc | None => false end.
Definition by_dl (sc : scen) (k : nat) : bool :=
  match ctime sc k with Some t => t <=? dl sc | None => false end.
(* clocks that succeeded with result v strictly before / no later than the deadline *)
Definition early_idx (sc : scen) (v : meas) : list nat :=
  filter (fun k => cok sc k && meas_eqb v (cres sc k) && before_dl sc k) (seq 0 (nclk sc)).
Definition intime_idx (sc : scen) (v : meas) : list nat :=
  filter (fun k => cok sc k && meas_eqb v (cres sc k) && by_dl sc k) (seq 0 (nclk sc)).

(* every value occurs in the front at least as often as clocks delivered it
   strictly in time, and at most as often as clocks delivered it by the deadline *)
Definition front_ok (sc : scen) (front : list meas) : bool :=
  forallb (fun v => Nat.leb (length (early_idx sc v)) (count_in v front)
                    && Nat.leb (count_in v front) (length (intime_idx sc v)))
          (map (cres sc) (seq 0 (nclk sc)) ++ front).

(* the slice afterwards: some front of j results, everything behind it untouched *)
Definition slice_ok (sc : scen) (ms' : list meas) : bool :=
  Nat.eqb (length ms') (length (s_ms0 sc)) &&
  existsb (fun j => meas_list_eqb (skipn j ms') (skipn j (s_ms0 sc)) && front_ok sc (firstn j ms'))
          (seq 0 (S (length ms'))).

(* the same when the count j returned by collectMeasurements is observed: the front is exactly
   the first j entries *)
Definition C16_raw_ok (sc : scen) (r : Z) (j : nat) (ms' : list meas) : bool :=
  (r <=? dl sc) && Nat.eqb (length ms') (length (s_ms0 sc)) && Nat.leb j (length ms') &&
  meas_list_eqb (skipn j ms') (skipn j (s_ms0 sc)) && front_ok sc (firstn j ms').

(* a round that returned at time r with the slice ms' *)
Definition C16_round_ok (sc : scen) (r : Z) (ms' : list meas) : bool :=
  (r <=? dl sc) && slice_ok sc ms'.

(* goroutines counted at time tp (everything of that instant settled): nothing may
   be left once the collector has returned and every clock's call has returned *)
Definition all_done_by (sc : scen) (tp : Z) : bool :=
  forallb (fun k => match ctime sc k with Some t => t <=? tp | None => false end) (seq 0 (nclk sc)).
Definition C16_leak_ok (sc : scen) (r tp : Z) (alive : Z) : bool :=
  if all_done_by sc tp && (r <=? tp) then alive =? 0 else true.

(* More generally, at any instant tp (settled): the goroutines of the round are accounted for by
   the clocks whose calls have not returned by tp -- one producer each, plus one goroutine waiting
   for them (the drainer once the collector has returned, the collector before) *)
Definition still_running (sc : scen) (tp : Z) (k : nat) : bool :=
  match ctime sc k with Some t => tp <? t | None => true end.
Definition C16_alive_bound (sc : scen) (r tp : Z) : Z :=
  let wn := Z.of_nat (length (filter (still_running sc tp) (seq 0 (nclk sc)))) in
  if r <=? tp then (if 0 <? wn then wn + 1 else 0) else wn + 1.
Definition C16_alive_ok (sc : scen) (r tp : Z) (alive : Z) : bool := alive <=? C16_alive_bound sc r tp.

(* the in-progress guard, on an observed history of one collector:
   calls in start order (start time, lengths equal?, outcome, return time if it returned) *)
Record gobs := { go_start : Z; go_lens : bool; go_out : Z (* 0 returned, 1 len panic, 2 busy panic, 3.. other *); go_ret : Z }.
(* a call that returned was in progress from its start until its return; a call made at
   the very instant another one returns races with that return *)
Definition in_progress_at (earlier : list gobs) (t : Z) : bool :=
  existsb (fun p => (go_out p =? 0) && (go_start p <=? t) && (t <? go_ret p)) earlier.
Definition returning_at (earlier : list gobs) (t : Z) : bool :=
  existsb (fun p => (go_out p =? 0) && (go_start p <=? t) && (t =? go_ret p)) earlier.
Fixpoint guard_ok_from (earlier : list gobs) (l : list gobs) : bool :=
  match l with
  | [] => true
  | o :: r =>
      (if go_lens o then
         if in_progress_at earlier (go_start o) then go_out o =? 2
         else if returning_at earlier (go_start o) then (go_out o =? 2) || (go_out o =? 0)
         else go_out o =? 0
       else negb (go_out o =? 0) && negb (go_out o =? 2))
      && guard_ok_from (earlier ++ [o]) r
  end.
Definition C16_guard_ok (l : list gobs) : bool := guard_ok_from [] l.

(* One iteration of sync.Run: the reference-clock collection and the peer collection run
   concurrently, each under its own context with the same timeout, and Run hands the
   correction over (adj.Do) when both have returned.  d = the instant of the hand-over relative
   to the start of the iteration.  It is no later than the round's deadline, and it is the
   instant at which the last source completed when every source completed before the deadline.
   (A collection over no clocks is not started at all: it counts as returned at 0.) *)
Definition all_before (sc : scen) : bool := forallb (before_dl sc) (seq 0 (nclk sc)).
Definition latest_completion (sc : scen) : Z :=
  fold_right (fun k acc => match ctime sc k with Some t => Z.max t acc | None => acc end) 0 (seq 0 (nclk sc)).
Definition C16_sync_round_ok (sc_r sc_p : scen) (d : Z) : bool :=
  (d <=? Z.max (dl sc_r) (dl sc_p)) &&
  (if all_before sc_r && all_before sc_p then d =? Z.max (latest_completion sc_r) (latest_completion sc_p) else true).

(* The same clause for calls that are made CONCURRENTLY (several goroutines calling at the
   same instant): the order in which the calls reached the guard is not observable, so the
   oracle is independent of the order of the list.  No two calls that returned may have been
   in progress at the same time; a refused call needs a call that was in progress (or just
   returning) at that instant; calls with equal lengths either return or are refused as busy,
   calls with unequal lengths are neither. *)
Definition overlap (p q : gobs) : bool :=
  (go_out p =? 0) && (go_out q =? 0) && (go_start p <? go_ret q) && (go_start q <? go_ret p).
Fixpoint pairwise_apart (l : list gobs) : bool :=
  match l with
  | [] => true
  | o :: r => forallb (fun q => negb (overlap o q)) r && pairwise_apart r
  end.
Definition refused_has_cause (l : list gobs) (o : gobs) : bool :=
  if go_lens o && (go_out o =? 2)
  then existsb (fun q => (go_out q =? 0) && (go_start q <=? go_start o) && (go_start o <=? go_ret q)) l
  else true.
Definition class_ok (o : gobs) : bool :=
  if go_lens o then (go_out o =? 0) || (go_out o =? 2) else negb (go_out o =? 0) && negb (go_out o =? 2).
Definition C16_concurrent_ok (l : list gobs) : bool :=
  pairwise_apart l && forallb (refused_has_cause l) l && forallb class_ok l.

(* ---------- timed histories of one collector object ---------- *)
(* Calls in start order: start time, lengths equal?, how long the round takes if it is let
   in (its return time relative to its start), and how the race is resolved when the call
   is made at the very instant the call in progress returns. *)
Record hcall := { hc_start : Z; hc_lens : bool; hc_dur : Z; hc_return_first : bool }.

(* the call in progress (if any, with its return time) is over before the call c is made *)
Definition hist_retire (g : gst) (act : option (nat * Z)) (c : hcall) : gst * option (nat * Z) :=
  match act with
  | Some (aid, rt) =>
      if (rt <? hc_start c) || ((rt =? hc_start c) && hc_return_first c)
      then (fst (gstep g (GReturn aid)), None) else (g, act)
  | None => (g, None)
  end.

(* the guard driven by a timed history; act = the call in progress and its return time *)
Fixpoint hist_model (g : gst) (act : option (nat * Z)) (id : nat) (cs : list hcall) : list gobs :=
  match cs with
  | [] => []
  | c :: r =>
      let t := hc_start c in
      let ga := hist_retire g act c in
      let go := gstep (fst ga) (GCall id (if hc_lens c then 0 else 1) 0)%nat in
      match snd go with
      | GO_call Started =>
          {| go_start := t; go_lens := hc_lens c; go_out := 0; go_ret := t + hc_dur c |}
          :: hist_model (fst go) (Some (id, t + hc_dur c)) (S id) r
      | GO_call PanicLen =>
          {| go_start := t; go_lens := hc_lens c; go_out := 1; go_ret := -1 |} :: hist_model (fst go) (snd ga) (S id) r
      | _ =>
          {| go_start := t; go_lens := hc_lens c; go_out := 2; go_ret := -1 |} :: hist_model (fst go) (snd ga) (S id) r
      end
  end.

(* ---------- a scheduler that looks for the schedule behind an observation ---------- *)
(* Given the order g in which successful results are to be received by the
   collector, and a time limit, pick transitions until nothing more can happen
   up to the limit.  Every transition chosen goes through `step`, so only
   schedules of the model are produced. *)

Definition find_idx (f : nat -> bool) (n : nat) : option nat := find f (seq 0 n).

(* the working producer with the least completion time *)
Fixpoint min_work (sc : scen) (s : st) (ks : list nat) (best : option (nat * Z)) : option (nat * Z) :=
  match ks with
  | [] => best
  | k :: r =>
      let best' :=
        match pstate s k, ctime sc k with
        | Working, Some t => match best with Some (_, tb) => if t <? tb then Some (k, t) else best | None => Some (k, t) end
        | _, _ => best
        end in
      min_work sc s r best'
  end.

Definition next_timed (sc : scen) (s : st) : option (label * Z) :=
  match min_work sc s (seq 0 (length (prods s))) None with
  | Some (k, t) => if cancelled s then Some (Finish k, t) else if t <=? dl sc then Some (Finish k, t) else Some (Cancel, dl sc)
  | None => if cancelled s then None else Some (Cancel, dl sc)
  end.

Definition choose (sc : scen) (limit : option Z) (g : list nat) (s : st) : option (label * list nat) :=
  let n := length (prods s) in
  let due := match next_timed sc s with Some (l, t) => if t <=? now s then Some l else None | None => None end in
  let dr := match drain s with
            | Some (S _) => match find_idx (fun k => is_ready (pstate s k)) n with Some k => Some (DrainRecv k) | None => None end
            | _ => None end in
  match dr with
  | Some l => Some (l, g)
  | None =>
  match due with
  | Some l => Some (l, g)
  | None =>
      let untimed :=
        match coll s with
        | Loop i j =>
            if Nat.eqb i (length (ms s)) then Some (Exit, g)
            else
              match g with
              | k :: g' => if is_ready (pstate s k) then Some (Recv k, g') else None
              | [] => None
              end
        | Ret _ _ => None
        end in
      match untimed with
      | Some x => Some x
      | None =>
          let fails :=
            match coll s with
            | Loop i j => find_idx (fun k => is_ready (pstate s k) && negb (cok sc k)) n
            | Ret _ _ => None
            end in
          match fails with
          | Some k => Some (Recv k, g)
          | None =>
              match coll s with
              | Loop i j =>
                  if cancelled s then Some (Quit, g)
                  else if urgent s then None
                  else match next_timed sc s with
                       | Some (l, t) => match limit with Some tp => if t <=? tp then Some (l, g) else None | None => Some (l, g) end
                       | None => None end
              | Ret _ _ =>
                  if urgent s then None
                  else match next_timed sc s with
                       | Some (l, t) => match limit with Some tp => if t <=? tp then Some (l, g) else None | None => Some (l, g) end
                       | None => None end
              end
          end
      end
  end
  end.

(* None = the scheduler chose a transition the model does not allow (never happens) *)
Fixpoint guided (fuel : nat) (sc : scen) (limit : option Z) (g : list nat) (s : st) : option (st * list nat) :=
  match fuel with
  | O => Some (s, g)
  | S f =>
      match choose sc limit g s with
      | None => Some (s, g)
      | Some (l, g') =>
          match step sc s l with
          | Some s' => guided f sc limit g' s'
          | None => None
          end
      end
  end.

(* identify the producers behind a front of values: for each value the unused
   successful clock with that result that completes first *)
Fixpoint pick_clock (sc : scen) (v : meas) (used : list nat) (ks : list nat) (best : option (nat * Z)) : option (nat * Z) :=
  match ks with
  | [] => best
  | k :: r =>
      let best' :=
        if cok sc k && meas_eqb v (cres sc k) && negb (existsb (Nat.eqb k) used) then
          match ctime sc k with
          | Some t => match best with Some (_, tb) => if t <? tb then Some (k, t) else best | None => Some (k, t) end
          | None => best
          end
        else best in
      pick_clock sc v used r best'
  end.
Fixpoint match_front (sc : scen) (front : list meas) (used : list nat) : option (list nat) :=
  match front with
  | [] => Some []
  | v :: r =>
      match pick_clock sc v used (seq 0 (nclk sc)) None with
      | Some (k, _) => match match_front sc r (k :: used) with Some l => Some (k :: l) | None => None end
      | None => None
      end
  end.

(* the return time every schedule produces *)
Definition exact_ret (sc : scen) : Z :=
  fold_right (fun k acc => match ctime sc k with Some t => Z.max t acc | None => Z.max (dl sc) acc end) 0 (seq 0 (nclk sc)).
Definition expected_ret (sc : scen) : Z := Z.min (dl sc) (exact_ret sc).
