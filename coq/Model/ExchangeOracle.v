(* Property oracle of C03, written from the property text: the offset a client
   reports differs from the true offset between the server's and the client's
   clock by at most half the round-trip delay of the exchange it was computed
   from (plus nanosecond rounding), and the four timestamps it combined all
   belong to that one exchange.

   It is evaluated on what the implementation did: the four timestamps handed
   to the measurement filter and the offset reported, against the description
   of the scripted exchanges of the run (what the scripted peer stamped and
   when, and what the client's clock read around it).  It does not use the
   model of the client. *)
From ST Require Import Base.Ints.
From Coq Require Import ZArith List Bool.
Import ListNotations.
Open Scope Z_scope.

(* one exchange = one handling of one copy of a request by the peer *)
Record xdesc := {
  x_lo0 : Z;     (* client clock (real time) before the request of this exchange was sent *)
  x_srx : Z;     (* receive stamp taken by the peer for this copy, on the peer's clock *)
  x_stx : Z;     (* transmit stamp of the reply, on the peer's clock *)
  x_theta : Z;   (* peer clock - client clock during this exchange *)
  x_hi3 : Z;     (* client clock (real time) after the reply had been consumed *)
  x_fb : bool }. (* the client took t0 and/or t3 of this exchange from its clock after the fact
                    (kernel timestamp not readable): known finding clock-fallback-t0 *)

Definition rounding_slack : Z := 6.   (* 2*|off - theta| <= rtd + 6, i.e. |off - theta| <= rtd/2 + 3 ns *)

(* all four stamps lie in the bracket of exchange x: t1, t2 are its two server
   stamps (up to the 1 ns lost in the 2^-32 s wire format), t0 was taken after
   the client started sending and not after the peer had the request, t3 not
   before the peer sent the reply and not after the client was done with it *)
Definition stamps_in (t0 t1 t2 t3 : Z) (x : xdesc) : bool :=
  (x_lo0 x - 1 <=? t0) && (t0 <=? x_srx x - x_theta x) &&
  (x_srx x - 1 <=? t1) && (t1 <=? x_srx x) &&
  (x_stx x - 1 <=? t2) && (t2 <=? x_stx x) &&
  (x_stx x - x_theta x - 1 <=? t3) && (t3 <=? x_hi3 x).

Definition bound_ok (off t0 t1 t2 t3 theta : Z) : bool :=
  2 * Z.abs (off - theta) <=? ((t3 - t0) - (t2 - t1)) + rounding_slack.

(* an exchange whose client stamps are late clock readings (recorded finding): the
   stamps still have to belong to this exchange - t1, t2 exactly, t0 and t3
   between the client's clock reading before the send and the end of the
   attempt - and the offset may be off by at most the length of the attempt *)
Definition stamps_in_fb (t0 t1 t2 t3 : Z) (x : xdesc) : bool :=
  (x_lo0 x - 1 <=? t0) && (t0 <=? x_hi3 x) &&
  (x_srx x - 1 <=? t1) && (t1 <=? x_srx x) &&
  (x_stx x - 1 <=? t2) && (t2 <=? x_stx x) &&
  (x_lo0 x - 1 <=? t3) && (t3 <=? x_hi3 x).
Definition bound_ok_fb (off : Z) (x : xdesc) : bool :=
  Z.abs (off - x_theta x) <=? (x_hi3 x - x_lo0 x) + rounding_slack.

Definition C03_ok1 (off t0 t1 t2 t3 : Z) (x : xdesc) : bool :=
  if x_fb x then stamps_in_fb t0 t1 t2 t3 x && bound_ok_fb off x
  else stamps_in t0 t1 t2 t3 x && bound_ok off t0 t1 t2 t3 (x_theta x).

Definition C03_ok (off t0 t1 t2 t3 : Z) (xs : list xdesc) : bool :=
  existsb (C03_ok1 off t0 t1 t2 t3) xs.
