(* Model of core/client/filter_flash.go (LuckyPacketFilter) and the property
   oracle of the lucky-packet clause of C17.  No proofs in this file. *)
From ST Require Import Base.Ints Base.Sorting Model.NtpTime Model.Ftm.
From Coq Require Import Sorting.Permutation.
Open Scope Z_scope.

(* one exchange: the four timestamps handed to Filter.Do, as unbounded
   nanoseconds since the Unix epoch (cTxTime, sRxTime, sTxTime, cRxTime) *)
Record sample := { sm_ctx : Z; sm_srx : Z; sm_stx : Z; sm_crx : Z }.

(* type measurement struct { stamp; off; rtd } *)
Record lmeas := { l_stamp : Z; l_off : Z; l_rtd : Z }.
Definition lmeas_zero : lmeas := {| l_stamp := 0; l_off := 0; l_rtd := 0 |}.

Definition raw_offset (s : sample) : Z := clock_offset (sm_ctx s) (sm_srx s) (sm_stx s) (sm_crx s).
Definition raw_rtd (s : sample) : Z := round_trip_delay (sm_ctx s) (sm_srx s) (sm_stx s) (sm_crx s).

Definition meas_of (s : sample) : lmeas :=
  {| l_stamp := sm_ctx s; l_off := raw_offset s; l_rtd := raw_rtd s |}.

(* LuckyPacketFilter: lk_cap = cap(f.state) = cap(f.luckyPkts), lk_pick = f.pick,
   lk_state = f.state.  f.luckyPkts is scratch space rebuilt by every Do. *)
Record lucky := { lk_cap : nat; lk_pick : nat; lk_state : list lmeas }.

(* &LuckyPacketFilter{} *)
Definition lucky_zero : lucky := {| lk_cap := 0; lk_pick := 0; lk_state := [] |}.

(* NewLuckyPacketFilter; None = panic *)
Definition lucky_new (cap pick : Z) : option lucky :=
  if cap <=? 0 then None
  else if pick <=? 0 then None
  else Some {| lk_cap := Z.to_nat cap; lk_pick := Z.to_nat (Z.min pick cap); lk_state := [] |}.

(* if len == cap { copy(state[0:], state[1:]); state = state[:len-1] }; state = append(state, m) *)
Definition lucky_push (cap : nat) (st : list lmeas) (m : lmeas) : list lmeas :=
  (if Nat.eqb (length st) cap then tl st else st) ++ [m].

(* the slice left in f.luckyPkts after "if pick < len { SortFunc by rtd; [:pick] }",
   given the slice s1 the (unstable) sort by rtd produced *)
Definition lucky_take (pick : nat) (w s1 : list lmeas) : list lmeas :=
  if Nat.ltb pick (length w) then firstn pick s1 else w.

(* SortFunc by off, then the median of the off fields; after this sort only the
   offsets are read, and the sorted offsets do not depend on the order of ties *)
Definition lucky_result (lp : list lmeas) : Z := median_sorted (map l_off (isort l_off lp)).

Definition lucky_select (pick : nat) (w : list lmeas) : list lmeas :=
  lucky_take pick w (isort l_rtd w).

(* Do; None = panic (f.luckyPkts[:len(f.state)] beyond the capacity) *)
Definition lucky_do (f : lucky) (s : sample) : option (lucky * Z) :=
  if Nat.eqb (lk_cap f) 0 then Some (f, raw_offset s)
  else
    let st := lucky_push (lk_cap f) (lk_state f) (meas_of s) in
    if Nat.ltb (lk_cap f) (length st) then None
    else Some ({| lk_cap := lk_cap f; lk_pick := lk_pick f; lk_state := st |},
               lucky_result (lucky_select (lk_pick f) st)).

Definition lucky_reset (f : lucky) : lucky :=
  {| lk_cap := lk_cap f; lk_pick := lk_pick f; lk_state := [] |}.

Inductive lop := LDo (s : sample) | LReset.

(* outputs of the Do calls of a history; None = some call panicked *)
Fixpoint lucky_run (f : lucky) (ops : list lop) : option (list Z) :=
  match ops with
  | [] => Some []
  | LReset :: r => lucky_run (lucky_reset f) r
  | LDo s :: r =>
      match lucky_do f s with
      | None => None
      | Some (f', o) => match lucky_run f' r with Some os => Some (o :: os) | None => None end
      end
  end.

(* the filter after a history *)
Fixpoint lucky_after (f : lucky) (ops : list lop) : option lucky :=
  match ops with
  | [] => Some f
  | LReset :: r => lucky_after (lucky_reset f) r
  | LDo s :: r => match lucky_do f s with None => None | Some (f', _) => lucky_after f' r end
  end.

(* ---- ties ----
   slices.SortFunc(x, cmp) is pdqsortCmpFunc(x, 0, n, ...), whose first step is
   "if length <= 12 { insertionSortCmpFunc(data, a, b, cmp); return }":
     for i := a + 1; i < b; i++ { for j := i; j > a && cmp(data[j], data[j-1]) < 0; j-- { swap j, j-1 } }
   i.e. element i sinks to the left while it is STRICTLY smaller than its left
   neighbour.  go_sink works on the already sorted prefix in reverse (head = left
   neighbour).  For windows of at most 12 samples this is what the filter runs;
   it is stable, so among samples of equal round-trip delay the OLDER ones (earlier
   in the window) come first and are the ones kept.  Longer windows go through the
   pattern-defeating quicksort proper, modelled by its contract only. *)
Fixpoint go_sink {A} (key : A -> Z) (x : A) (revp : list A) : list A :=
  match revp with
  | [] => [x]
  | y :: r => if key x <? key y then y :: go_sink key x r else x :: revp
  end.
Definition go_isort {A} (key : A -> Z) (l : list A) : list A :=
  rev (fold_left (fun acc x => go_sink key x acc) l []).
Definition max_insertion : nat := 12.

(* the windows on which the model is exact: insertion-sorted ones, and those without ties *)
Fixpoint distinctb (l : list Z) : bool :=
  match l with
  | [] => true
  | x :: r => negb (existsb (Z.eqb x) r) && distinctb r
  end.
Definition lucky_exact_window (w : list lmeas) : bool :=
  Nat.leb (length w) max_insertion || distinctb (map l_rtd w).

(* ---- relational form: Go's slices.SortFunc is not stable, so with equal
   round-trip delays any sorted permutation may be the slice after the call ---- *)
Definition rtd_sorted_perm (w s1 : list lmeas) : Prop := Permutation w s1 /\ sorted_by l_rtd s1.
Definition lucky_out_of (pick : nat) (w s1 : list lmeas) : Z := lucky_result (lucky_take pick w s1).

(* executable acceptance of an observed output when delays may be tied: the
   samples strictly below the pick-th smallest delay are all selected, and the
   rest of the selection is some sub-list of the samples tied at that delay *)
Fixpoint choose {A} (m : nat) (l : list A) : list (list A) :=
  match m with
  | O => [[]]
  | S m' => match l with
            | [] => []
            | x :: r => map (cons x) (choose m' r) ++ choose m r
            end
  end.

Definition lucky_accepts (pick : nat) (w : list lmeas) (obs : Z) : bool :=
  if Nat.ltb pick (length w) then
    let s := isort l_rtd w in
    let rk := l_rtd (nth (pick - 1) s lmeas_zero) in
    let below := filter (fun m => l_rtd m <? rk) w in
    let tied := filter (fun m => l_rtd m =? rk) w in
    existsb (fun c => lucky_result (below ++ c) =? obs) (choose (pick - length below) tied)
  else lucky_result w =? obs.

(* ---- property oracle, from the property text ----
   "the median offset of the k lowest-round-trip-delay samples among the last N
   samples (k capped at N; unconfigured: the raw offset)", for windows with
   pairwise distinct delays and offsets below 2^62 in magnitude (no int64 wrap
   in the midpoint of an even count). *)
Definition lastn {A} (n : nat) (l : list A) : list A := skipn (length l - n) l.

(* samples since the last reset *)
Fixpoint since_reset (acc : list sample) (ops : list lop) : list sample :=
  match ops with
  | [] => acc
  | LReset :: r => since_reset [] r
  | LDo s :: r => since_reset (acc ++ [s]) r
  end.

(* number of samples of w with a strictly lower delay *)
Definition rank_in (w : list lmeas) (m : lmeas) : nat :=
  length (filter (fun x => l_rtd x <? l_rtd m) w).
(* the k lowest-delay samples of w *)
Definition lowest (k : nat) (w : list lmeas) : list lmeas :=
  filter (fun m => Nat.ltb (rank_in w m) k) w.

Definition med_exact (s : list Z) : Z :=
  let n := length s in
  if Nat.eqb (n mod 2) 0 then nth (n / 2 - 1) s 0 + Z.quot (nth (n / 2) s 0 - nth (n / 2 - 1) s 0) 2
  else nth (n / 2) s 0.

(* ties (outside the property's quantifier, which asks for distinct delays): what the filter does
   on windows of at most 12 samples is to keep, among samples of equal delay, the older ones: sort
   by delay keeping the window order among equals (Base.Sorting.isort is that stable sort), take
   the first k *)
Definition lowest_stable (k : nat) (w : list lmeas) : list lmeas :=
  if Nat.ltb k (length w) then firstn k (isort l_rtd w) else w.

(* what the property says the output for the history hist (samples since the
   last reset, newest last) must be; None = the property does not constrain it *)
Definition lucky_spec (cap pick : nat) (hist : list sample) : option Z :=
  match cap with
  | O => match rev hist with s :: _ => Some (raw_offset s) | [] => None end
  | _ =>
    let w := map meas_of (lastn cap hist) in
    if forallb (fun m => Z.abs (l_off m) <? 2^62) w && negb (Nat.eqb (length w) 0)
    then if distinctb (map l_rtd w) then Some (med_exact (zsort (map l_off (lowest (Nat.min pick cap) w))))
         else if Nat.leb (length w) max_insertion then Some (med_exact (zsort (map l_off (lowest_stable (Nat.min pick cap) w))))
         else None
    else None
  end.

Definition C17_lucky_step_ok (cap pick : nat) (hist : list sample) (obs : Z) : bool :=
  match lucky_spec cap pick hist with Some v => v =? obs | None => true end.

(* all Do calls of a history against the observed outputs (cap = 0: unconfigured) *)
Fixpoint C17_lucky_ok_from (cap pick : nat) (acc : list sample) (ops : list lop) (obs : list Z) : bool :=
  match ops with
  | [] => match obs with [] => true | _ => false end
  | LReset :: r => C17_lucky_ok_from cap pick [] r obs
  | LDo s :: r =>
      match obs with
      | [] => false
      | o :: obs' => C17_lucky_step_ok cap pick (acc ++ [s]) o && C17_lucky_ok_from cap pick (acc ++ [s]) r obs'
      end
  end.
Definition C17_lucky_ok (cap pick : nat) (ops : list lop) (obs : list Z) : bool :=
  C17_lucky_ok_from cap pick [] ops obs.
