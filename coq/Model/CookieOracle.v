(* Property oracle of C11, written from the text of the property and the wire
   format of RFC 8915 (NTP extension fields: 16-bit type, 16-bit length that
   counts the 4-byte header, value padded to a multiple of 4).  It never calls
   the model of the code (Model/CookiePool.v); it is evaluated on what the
   implementation did and, in the theorems, on what the model does. *)
From ST Require Import Base.Ints.
From Coq Require Import ZArith List Bool Lia.
Import ListNotations.
Open Scope Z_scope.

Definition obytes := list Z.
Definition olen {A} (l : list A) : Z := Z.of_nat (length l).

Definition o_max_packet : Z := 1024.
Definition o_pool_size : Z := 8.
Definition o_ntp_len : Z := 48.
Definition t_uid : Z := 260.          (* 0x0104 unique identifier *)
Definition t_cookie : Z := 516.       (* 0x0204 NTS cookie *)
Definition t_placeholder : Z := 772.  (* 0x0304 NTS cookie placeholder *)
Definition t_auth : Z := 1028.        (* 0x0404 NTS authenticator and encrypted extension fields *)

Fixpoint bytes_eqb (a b : obytes) : bool :=
  match a, b with
  | [], [] => true
  | x :: a', y :: b' => (x =? y) && bytes_eqb a' b'
  | _, _ => false
  end.
Definition mem (x : obytes) (l : list obytes) : bool := existsb (bytes_eqb x) l.
Fixpoint distinct (l : list obytes) : bool :=
  match l with
  | [] => true
  | x :: r => negb (mem x r) && distinct r
  end.

(* the extension fields that tile b exactly: (type, value) list; None when b is not such a tiling *)
Fixpoint ext_fields (fuel : nat) (b : obytes) : option (list (Z * obytes)) :=
  match fuel with
  | O => None
  | S f =>
      match b with
      | [] => Some []
      | t1 :: t2 :: l1 :: l2 :: r =>
          let len := l1 * 256 + l2 in
          if (len <? 4) || negb (len mod 4 =? 0) || (olen r <? len - 4) then None
          else
            match ext_fields f (skipn (Z.to_nat (len - 4)) r) with
            | Some fs => Some ((t1 * 256 + t2, firstn (Z.to_nat (len - 4)) r) :: fs)
            | None => None
            end
      | _ => None
      end
  end.

Definition fields_of (pkt : obytes) : option (list (Z * obytes)) :=
  let b := skipn (Z.to_nat o_ntp_len) pkt in ext_fields (S (length b)) b.

Definition count_type (t : Z) (fs : list (Z * obytes)) : Z :=
  olen (filter (fun f => fst f =? t) fs).
Definition values_of (t : Z) (fs : list (Z * obytes)) : list obytes :=
  map snd (filter (fun f => fst f =? t) fs).
Definition last_type (fs : list (Z * obytes)) : Z :=
  match rev fs with f :: _ => fst f | [] => -1 end.

(* length of a packet with the same unique identifier field, n cookie-sized fields
   and an authenticator with 16-byte nonce and 16-byte tag (the n fields inside or
   outside the ciphertext: the same length) *)
Definition with_n_cookie_fields (uidv cookiev : obytes) (n : Z) : Z :=
  o_ntp_len + (4 + olen uidv) + n * (4 + olen cookiev) + (4 + 4 + 16 + 16).

(* one request sent at pool level [level] (cookies in the pool before this one was taken out):
   fits; exactly one unique identifier, exactly one cookie field, an authenticator
   at the end, everything else typed as placeholder and as long as the cookie;
   one placeholder per cookie missing from the pool of eight - fewer only when one
   more would not fit into the request or its reply *)
Definition request_ok (level : Z) (req : obytes) : bool :=
  (olen req <=? o_max_packet) &&
  match fields_of req with
  | None => false
  | Some fs =>
      (count_type t_uid fs =? 1) && (count_type t_cookie fs =? 1) && (count_type t_auth fs =? 1) &&
      (last_type fs =? t_auth) &&
      (olen fs =? 3 + count_type t_placeholder fs) &&
      match values_of t_cookie fs, values_of t_uid fs with
      | [c], [u] =>
          let p := count_type t_placeholder fs in
          forallb (fun v => olen v =? olen c) (values_of t_placeholder fs) &&
          (1 <=? level) && (level <=? o_pool_size) &&
          (p <=? o_pool_size - level) &&
          ((p =? o_pool_size - level) || (o_max_packet <? with_n_cookie_fields u c (p + 2)))
      | _, _ => false
      end
  end.

Definition request_cookie (req : obytes) : option obytes :=
  match fields_of req with
  | Some fs => match values_of t_cookie fs with [c] => Some c | _ => None end
  | None => None
  end.
Definition request_uid (req : obytes) : option obytes :=
  match fields_of req with
  | Some fs => match values_of t_uid fs with [u] => Some u | _ => None end
  | None => None
  end.
Definition request_nfields (req : obytes) : Z :=
  match fields_of req with
  | Some fs => count_type t_cookie fs + count_type t_placeholder fs
  | None => 0
  end.

(* what is known about one cookie of a reply: its bytes, and - opened the way the
   server opens cookies, with the keys the provider holds as valid now - the
   session keys inside (None: no currently valid key opens it), and the identifier of
   the server key it is sealed under *)
Record cookie_facts := { cf_bytes : obytes; cf_keyid : Z; cf_keys : option (obytes * obytes) }.

(* the reply to a request: fits, is well formed (the request's unique identifier,
   authenticator last, nothing else in the clear), authenticates under the S2C key
   ([auth_ok], recomputed with AES-SIV over the bytes before the authenticator),
   carries one cookie per cookie or placeholder of the request - fewer only as many
   as fit -, all new, all opening under a valid key to the session keys, all sealed
   under the key that is the servers' current one at that time ([cur]) *)
Definition reply_ok (req reply : obytes) (auth_ok : bool) (cookies : list cookie_facts)
  (kc2s ks2c : obytes) (known : list obytes) (cur : Z) : bool :=
  (olen reply <=? o_max_packet) && auth_ok &&
  match fields_of reply, request_uid req with
  | Some fs, Some u =>
      (count_type t_uid fs =? 1) && (count_type t_auth fs =? 1) && (last_type fs =? t_auth) && (olen fs =? 2) &&
      match values_of t_uid fs with [u'] => bytes_eqb u u' | _ => false end &&
      let n := olen cookies in
      let want := request_nfields req in
      (1 <=? n) && (n <=? want) &&
      match cookies with
      | c0 :: _ => (n =? want) || (o_max_packet <? with_n_cookie_fields u (cf_bytes c0) (n + 1))
      | [] => false
      end &&
      distinct (map cf_bytes cookies) &&
      forallb (fun c => negb (mem (cf_bytes c) known)) cookies &&
      forallb (fun c => cf_keyid c =? cur) cookies &&
      forallb (fun c => match cf_keys c with
                        | Some (a, b) => bytes_eqb a kc2s && bytes_eqb b ks2c
                        | None => false
                        end) cookies
  | _, _ => false
  end.

(* ---- one call of the client as observed ---- *)
Record step_obs := {
  so_sent : bool;                 (* a request datagram left the client *)
  so_req : obytes;
  so_openable : bool;             (* the request's cookie opens under a currently valid server key *)
  so_forwarded : bool;            (* the request reached the server *)
  so_served : bool;               (* the server sent a reply *)
  so_reply : obytes;
  so_reply_auth : bool;
  so_reply_cookies : list cookie_facts;
  so_intact : bool;               (* that reply reached the client unchanged *)
  so_rekeyed : bool;              (* a key exchange completed during this call *)
  so_pool_after : list obytes;    (* the client's pool after the call *)
  so_c2s : obytes; so_s2c : obytes;  (* the client's session keys after the call *)
  so_cur_key : Z;                 (* identifier of the servers' current key right after the reply *)
  so_forged : list obytes;        (* cookies of forged datagrams that reached the client during the call *)
  so_nforwarded : Z;              (* how many times the request reached the server (a network may duplicate it) *)
  so_nreplies : Z;                (* how many replies the server sent in all *)
  so_extra : list (obytes * bool * list cookie_facts);
                                  (* the replies after the first (bytes, authenticates, cookies) *)
  so_seen_before : list obytes;   (* cookies issued in this call that some client of this run had been given before *)
  so_foreign : bool;              (* the reply comes from a server that is not this project's: the clauses about
                                     the server's reply do not apply, those about the client do *)
  so_nosend : Z                   (* nothing was sent although the client holds key exchange data:
                                     1 the deadline of the call passed before the request left,
                                     2 the key exchange names a server that is not an IP address; 0 otherwise *)
}.

Record ostate := {
  os_pool : list obytes;      (* the pool after the previous call *)
  os_sent : list obytes;      (* every cookie sent so far *)
  os_known : list obytes      (* every cookie seen so far (sent, pooled, issued) *)
}.
Definition ostate0 : ostate := {| os_pool := []; os_sent := []; os_known := [] |}.

(* the further replies to a duplicated request: each a good reply with cookies of its own *)
Fixpoint extras_ok (req : obytes) (l : list (obytes * bool * list cookie_facts)) (kc2s ks2c : obytes)
  (known : list obytes) (cur : Z) : bool :=
  match l with
  | [] => true
  | (r, a, cfs) :: rest =>
      reply_ok req r a cfs kc2s ks2c known cur &&
      extras_ok req rest kc2s ks2c (map cf_bytes cfs ++ known) cur
  end.

Definition stored (o : step_obs) : Z := if so_intact o then olen (so_reply_cookies o) else 0.

(* pool level when the request was built: the pool of the previous call, or, after
   a key exchange, what that exchange delivered *)
Definition level_of (s : ostate) (o : step_obs) : Z :=
  match os_pool s with
  | [] => olen (so_pool_after o) + 1 - stored o
  | p => olen p
  end.

Definition step_ok (s : ostate) (o : step_obs) : bool :=
  if so_sent o then
    let level := level_of s o in
    request_ok level (so_req o) &&
    match request_cookie (so_req o) with
    | None => false
    | Some c =>
        (* single use: never sent before, taken from the pool, not in the pool afterwards *)
        negb (mem c (os_sent s)) &&
        match os_pool s with [] => so_rekeyed o && negb (mem c (os_known s)) | p => mem c p && negb (so_rekeyed o) end &&
        negb (mem c (so_pool_after o)) &&
        (* nothing in the pool has been sent before; no cookie twice in the pool *)
        forallb (fun x => negb (mem x (os_sent s))) (so_pool_after o) && distinct (so_pool_after o) &&
        (* every cookie in the pool was there before, came with this call's key exchange (never
           seen before), or was carried inside the authenticated reply; none is forged *)
        forallb (fun x => negb (mem x (so_forged o)) &&
                          (mem x (os_pool s) ||
                           (so_intact o && mem x (map cf_bytes (so_reply_cookies o))) ||
                           (so_rekeyed o && negb (mem x (os_known s))))) (so_pool_after o) &&
        (* pool bounds *)
        (olen (so_pool_after o) <=? o_pool_size) &&
        (if so_intact o then (level <=? olen (so_pool_after o)) && (so_served o) else true) &&
        (* the server answers a request it can authenticate, with a good reply *)
        (if so_forwarded o && so_openable o then so_served o else true) &&
        (* ... and refuses a cookie sealed under a key that has expired *)
        (if so_forwarded o && negb (so_openable o) then negb (so_served o) else true) &&
        (if so_served o && negb (so_foreign o)
         then reply_ok (so_req o) (so_reply o) (so_reply_auth o) (so_reply_cookies o) (so_c2s o) (so_s2c o)
                (c :: os_known s) (so_cur_key o)
         else true) &&
        (* never more replies than requests that arrived; every further reply is as good, with
           cookies of its own; no cookie of this call was ever handed out before *)
        (so_nreplies o <=? so_nforwarded o) && Bool.eqb (so_served o) (0 <? so_nreplies o) &&
        extras_ok (so_req o) (so_extra o) (so_c2s o) (so_s2c o)
          (map cf_bytes (so_reply_cookies o) ++ c :: os_known s) (so_cur_key o) &&
        match so_seen_before o with [] => true | _ => false end
    end
  else
    if so_nosend o =? 0 then
      (* nothing sent and no data held: only when the pool was empty and no key exchange
         completed - a failed exchange leaves nothing behind *)
      match os_pool s with [] => negb (so_rekeyed o) && (olen (so_pool_after o) =? 0) | _ => false end
    else
      (* the call ended before its request left (deadline, unusable server address): the cookie
         taken for it is gone, the others are untouched; after a key exchange they are all new *)
      ((so_nosend o =? 1) || (so_nosend o =? 2)) && distinct (so_pool_after o) &&
      forallb (fun x => negb (mem x (os_sent s))) (so_pool_after o) &&
      match os_pool s with
      | [] => so_rekeyed o && (olen (so_pool_after o) <? o_pool_size) &&
              forallb (fun x => negb (mem x (os_known s))) (so_pool_after o)
      | p => negb (so_rekeyed o) && (olen (so_pool_after o) =? olen p - 1) &&
             forallb (fun x => mem x p) (so_pool_after o)
      end.

Definition step_next (s : ostate) (o : step_obs) : ostate :=
  if so_sent o then
    match request_cookie (so_req o) with
    | Some c => {| os_pool := so_pool_after o; os_sent := c :: os_sent s;
                   os_known := c :: map cf_bytes (so_reply_cookies o) ++
                               flat_map (fun e => map cf_bytes (snd e)) (so_extra o) ++
                               so_pool_after o ++ os_known s |}
    | None => {| os_pool := so_pool_after o; os_sent := os_sent s; os_known := so_pool_after o ++ os_known s |}
    end
  else {| os_pool := so_pool_after o; os_sent := os_sent s; os_known := so_pool_after o ++ os_known s |}.

(* a whole history of calls of one client, from its start (empty pool) *)
Fixpoint hist_ok (s : ostate) (l : list step_obs) : bool :=
  match l with
  | [] => true
  | o :: r => step_ok s o && hist_ok (step_next s o) r
  end.

Definition C11_ok (l : list step_obs) : bool := hist_ok ostate0 l.

(* cookies sent over a history, for the no-reuse clause on its own *)
Fixpoint sent_cookies (l : list step_obs) : list obytes :=
  match l with
  | [] => []
  | o :: r => (if so_sent o then match request_cookie (so_req o) with Some c => [c] | None => [] end else [])
              ++ sent_cookies r
  end.
