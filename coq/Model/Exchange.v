(* Model of the NTP client exchange state machine shared by
   core/client/client_ip.go (measureClockOffsetIP, MeasureClockOffsetIP) and
   core/client/client_scion.go (measureClockOffsetSCION and the per-client loop
   of MeasureClockOffsetSCION): the state kept between exchanges (prev), the
   construction of basic / interleaved requests, the classification of a
   response, the selection of the four timestamps t0..t3, the validation, the
   offset and round-trip delay and the update of prev.  No proofs here.

   time.Time = Z nanoseconds since the Unix epoch (Model/NtpTime.v); kernel
   timestamps and clock readings are inputs. *)
From ST Require Import Base.Ints Model.NtpTime.
From Coq Require Import ZArith List Bool.
Import ListNotations.
Open Scope Z_scope.

Definition t64_zero : time64 := {| t64_sec := 0; t64_frac := 0 |}.

(* IPClient.prev / SCIONClient.prev; the reference string is a number, 0 = "" *)
Record prev_t := { p_ref : Z; p_inter : bool; p_ctx : time64; p_crx : time64; p_srx : time64 }.

Definition prev_init : prev_t :=
  {| p_ref := 0; p_inter := false; p_ctx := t64_zero; p_crx := t64_zero; p_srx := t64_zero |}.

(* c_scion: the SCION client (window test "<"), else the IP client ("<=");
   c_im: the InterleavedMode switch of the client *)
Record cfg := { c_scion : bool; c_im : bool }.

(* the packet fields the exchange logic reads or writes *)
Record pkt := { k_lvm : Z; k_stratum : Z; k_org : time64; k_rx : time64; k_tx : time64 }.

(* InInterleavedMode, ResetInterleavedMode *)
Definition in_interleaved_mode (c : cfg) (p : prev_t) : bool :=
  c_im c && negb (p_ref p =? 0) && p_inter p.
Definition reset_prev (p : prev_t) : prev_t :=
  {| p_ref := 0; p_inter := p_inter p; p_ctx := p_ctx p; p_crx := p_crx p; p_srx := p_srx p |}.

(* ---- request construction ---- *)
Definition three_seconds : Z := 3000000000.
Definition within_window (scion : bool) (d : Z) : bool :=
  if scion then d <? three_seconds else d <=? three_seconds.

(* SetVersion(4); SetMode(3) on a zero packet *)
Definition req_lvm : Z := 35.

Definition want_interleaved (c : cfg) (ref : Z) (p : prev_t) (now0 : Z) : bool :=
  c_im c && (ref =? p_ref p) &&
  within_window (c_scion c) (time_sub now0 (time_of_time64 (p_ctx p) now0)).

Definition build_request (c : cfg) (ref : Z) (p : prev_t) (now0 : Z) : bool * pkt :=
  if want_interleaved c ref p now0
  then (true, {| k_lvm := req_lvm; k_stratum := 0; k_org := p_srx p; k_rx := p_crx p; k_tx := p_ctx p |})
  else (false, {| k_lvm := req_lvm; k_stratum := 0; k_org := t64_zero; k_rx := t64_zero;
                  k_tx := time64_of_time now0 |}).

(* ---- response handling ---- *)
Inductive rclass := RInter | RBasic | RMismatch.

Definition classify (ireq : bool) (req resp : pkt) : rclass :=
  if ireq && t64_eqb (k_org resp) (k_rx req) then RInter
  else if t64_eqb (k_org resp) (k_tx req) then RBasic
  else RMismatch.

(* ntp.ValidateResponseMetadata *)
Definition pkt_li (lvm : Z) : Z := (lvm / 64) mod 4.
Definition pkt_vn (lvm : Z) : Z := (lvm / 8) mod 8.
Definition pkt_mode (lvm : Z) : Z := lvm mod 8.
Definition metadata_ok (r : pkt) : bool :=
  negb (pkt_li (k_lvm r) =? 3) &&
  ((pkt_vn (k_lvm r) =? 3) || (pkt_vn (k_lvm r) =? 4)) &&
  (pkt_mode (k_lvm r) =? 4) &&
  negb (k_stratum r =? 0) && (k_stratum r <=? 15).

(* error classes *)
Definition E_timeout : Z := 1.      (* read error: nothing (more) arrived before the deadline *)
Definition E_packet : Z := 2.       (* errUnexpectedPacket: origin matches neither request field *)
Definition E_response : Z := 3.     (* ntp errUnexpectedResponse: metadata or t2 < t1 *)
Definition E_junk : Z := 4.         (* undecodable / foreign datagram after the retry was used *)
Definition E_clock : Z := 5.        (* ntp errUnexpectedClockBehavior: t3 < t0 *)

Record accept_t := {
  a_inter : bool;
  a_t0 : Z; a_t1 : Z; a_t2 : Z; a_t3 : Z;
  a_off : Z; a_rtd : Z;
  a_ts : Z;                (* the timestamp returned: receive time of this response *)
  a_prev : prev_t }.

Inductive dres := DRetry | DFail (e : Z) | DAccept (a : accept_t).

(* t0..t3 for a response of the given class *)
Definition select_ts (inter : bool) (p : prev_t) (now0 ctx1 crx : Z) (resp : pkt) : Z * Z * Z * Z :=
  let srx := time_of_time64 (k_rx resp) now0 in
  let stx := time_of_time64 (k_tx resp) now0 in
  if inter
  then (time_of_time64 (p_ctx p) now0, time_of_time64 (p_srx p) now0, stx, time_of_time64 (p_crx p) now0)
  else (ctx1, srx, stx, crx).

Definition update_prev (c : cfg) (ref : Z) (p : prev_t) (inter : bool) (ctx1 crx : Z) (resp : pkt) : prev_t :=
  if c_im c
  then {| p_ref := ref; p_inter := inter; p_ctx := time64_of_time ctx1;
          p_crx := time64_of_time crx; p_srx := k_rx resp |}
  else p.

(* ntp.ValidateResponseTimestamps: 0 = nil, else the error class *)
Definition timestamps_ok (t0 t1 t2 t3 : Z) : Z :=
  if time_sub t3 t0 <? 0 then E_clock
  else if time_sub t2 t1 <? 0 then E_response
  else 0.

(* one decoded datagram from the expected source; can_retry = the retry of the
   receive loop has not been used (and the deadline has not passed) *)
Definition process_response (c : cfg) (ref : Z) (p : prev_t) (ireq : bool) (req : pkt)
    (now0 ctx1 : Z) (resp : pkt) (crx : Z) (can_retry : bool) : dres :=
  match classify ireq req resp with
  | RMismatch => if can_retry then DRetry else DFail E_packet
  | cls =>
      let inter := match cls with RInter => true | _ => false end in
      if negb (metadata_ok resp) then DFail E_response else
      let '(t0, t1, t2, t3) := select_ts inter p now0 ctx1 crx resp in
      let e := timestamps_ok t0 t1 t2 t3 in
      if negb (e =? 0) then DFail e
      else DAccept {| a_inter := inter; a_t0 := t0; a_t1 := t1; a_t2 := t2; a_t3 := t3;
                      a_off := clock_offset t0 t1 t2 t3;
                      a_rtd := round_trip_delay t0 t1 t2 t3;
                      a_ts := crx;
                      a_prev := update_prev c ref p inter ctx1 crx resp |}
  end.

(* what can arrive at the socket of one request *)
Inductive dgram :=
| DgJunk                          (* shorter than 48 bytes, or from another address *)
| DgResp (r : pkt) (crx : Z).     (* a decodable datagram from the server address, receive stamp crx *)

Inductive ares := AErr (e : Z) | AAccept (a : accept_t).

(* the receive loop: maxNumRetries = 1 *)
Fixpoint recv_loop (c : cfg) (ref : Z) (p : prev_t) (ireq : bool) (req : pkt) (now0 ctx1 : Z)
    (retries : Z) (ds : list dgram) : ares :=
  match ds with
  | [] => AErr E_timeout
  | DgJunk :: ds' =>
      if retries =? 1 then AErr E_junk else recv_loop c ref p ireq req now0 ctx1 (retries + 1) ds'
  | DgResp r crx :: ds' =>
      match process_response c ref p ireq req now0 ctx1 r crx (negb (retries =? 1)) with
      | DRetry => recv_loop c ref p ireq req now0 ctx1 (retries + 1) ds'
      | DFail e => AErr e
      | DAccept a => AAccept a
      end
  end.

(* one exchange attempt (measureClockOffsetIP / measureClockOffsetSCION after the
   socket is open): clock reading now0, kernel transmit stamp ctx1, datagrams *)
(* ai_ref: the reference of this attempt: the configured server address, or with
   NTS the server and port named by the key-exchange data in use (remoteAddr is
   rewritten from it before the reference string is formed) *)
Record attempt_in := { ai_now0 : Z; ai_ctx1 : Z; ai_ref : Z; ai_dgrams : list dgram }.

Definition attempt (c : cfg) (p : prev_t) (i : attempt_in) : bool * pkt * ares :=
  let ref := ai_ref i in
  let '(ireq, req) := build_request c ref p (ai_now0 i) in
  (ireq, req, recv_loop c ref p ireq req (ai_now0 i) (ai_ctx1 i) 0 (ai_dgrams i)).

Definition prev_after (p : prev_t) (r : ares) : prev_t :=
  match r with AAccept a => a_prev a | _ => p end.

(* ---- MeasureClockOffsetIP / the per-client loop of MeasureClockOffsetSCION ----
   up to 3 attempts with InterleavedMode (1 without); stops after the first
   attempt that succeeds with the client in interleaved mode.  Result:
   (timestamp, offset, error of the call) where the error is the first
   attempt's error if no attempt succeeded before it (nerr == i rule). *)
Record call_out := {
  co_attempts : list (bool * pkt * ares);   (* in order *)
  co_ok : bool; co_ts : Z; co_off : Z; co_err : Z;
  co_prev : prev_t;
  co_starved : bool }.                       (* the model wanted another attempt but no input was left *)

Fixpoint call_loop (c : cfg) (n : nat) (i nerr : Z) (p : prev_t)
    (ok : bool) (ts off err : Z) (acc : list (bool * pkt * ares)) (ins : list attempt_in) : call_out :=
  match n with
  | O => {| co_attempts := rev acc; co_ok := ok; co_ts := ts; co_off := off; co_err := err;
            co_prev := p; co_starved := false |}
  | S n' =>
      match ins with
      | [] => {| co_attempts := rev acc; co_ok := ok; co_ts := ts; co_off := off; co_err := err;
                 co_prev := p; co_starved := true |}
      | a :: ins' =>
          let '(ireq, req, r) := attempt c p a in
          let acc' := (ireq, req, r) :: acc in
          match r with
          | AAccept x =>
              let p' := a_prev x in
              if in_interleaved_mode c p'
              then {| co_attempts := rev acc'; co_ok := true; co_ts := a_ts x; co_off := a_off x; co_err := 0;
                      co_prev := p'; co_starved := false |}
              else call_loop c n' (i + 1) nerr p' true (a_ts x) (a_off x) 0 acc' ins'
          | AErr e =>
              call_loop c n' (i + 1) (nerr + 1) p ok ts off (if nerr =? i then e else err) acc' ins'
          end
      end
  end.

Definition measure_call (c : cfg) (p : prev_t) (ins : list attempt_in) : call_out :=
  call_loop c (if c_im c then 3%nat else 1%nat) 0 0 p false 0 0 0 [] ins.

(* the start of a call: MeasureClockOffsetSCION resets a client that is not in
   interleaved mode (no path is kept for it) before it measures; reset = the
   caller invoked ResetInterleavedMode *)
Definition call_start (c : cfg) (reset : bool) (p : prev_t) : prev_t :=
  if reset || (c_scion c && negb (in_interleaved_mode c p)) then reset_prev p else p.
