(* The world in which C03 is stated: the client of Model/Exchange.v, a
   protocol-conformant server given by its reply contract (the one proved of
   core/server in C06), and an adversarial network.  Definitions only.

   Ghost information (what a request, a server handling, an arrival really
   was) is kept next to the client's state so that the theorems can say which
   exchange a timestamp belongs to. *)
From ST Require Import Base.Ints Model.NtpTime Model.Exchange.
From Coq Require Import ZArith List Bool.
Import ListNotations.
Open Scope Z_scope.

(* request number q_id as the client sent it: wire fields, the clock reading
   cTxTime0 and the kernel transmit stamp cTxTime1 *)
Record reqinfo := { q_id : nat; q_ireq : bool; q_pkt : pkt; q_now0 : Z; q_ctx : Z }.

(* one handling by the server of one copy of a request: its receive stamp, the
   transmit stamp it put into its own (basic) reply, the transmit stamp it keeps
   on record for that reply (the kernel stamp once read), the offset theta of
   its clock from the client's during this exchange, and the reply it built *)
Record exch := { e_q : reqinfo; e_srx : Z; e_stx : Z; e_rtx : Z; e_theta : Z; e_reply : pkt }.

(* ---- the server's reply contract (C06_reply) ---- *)
Definition reply_basic (q : pkt) (srx stx : Z) (r : pkt) : Prop :=
  k_org r = k_tx q /\ k_rx r = time64_of_time srx /\ k_tx r = time64_of_time stx.

(* interleaved: origin = the request's receive field, transmit = the stamp on
   record for an EARLIER reply to this client whose receive stamp is the
   request's origin field; only for requests with receive <> transmit *)
Definition reply_inter (earlier : list exch) (q : pkt) (srx : Z) (r : pkt) : Prop :=
  k_org r = k_rx q /\ k_rx q <> k_tx q /\ k_rx r = time64_of_time srx /\
  exists e0, In e0 earlier /\ time64_of_time (e_srx e0) = k_org q /\ k_tx r = time64_of_time (e_rtx e0).

Definition conformant (earlier : list exch) (q : pkt) (srx stx : Z) (r : pkt) : Prop :=
  reply_basic q srx stx r \/ reply_inter earlier q srx r.

(* ---- physics ---- *)
Definition time_ok (t : Z) : Prop := 0 <= time_sec t < 2^60.

(* a copy of the reply of exchange e arrives at the socket of request q with
   kernel receive stamp crx: after the request left (client_clock_strict: the
   client's stamps strictly increase; less than 2^32 s later, the period of
   Time64 values - the exchange may straddle an NTP era rollover) and not before the
   server sent it (whichever of its two transmit stamps is taken) *)
Definition arrival_ok (q : reqinfo) (e : exch) (crx : Z) : Prop :=
  q_ctx q < crx /\ crx - q_ctx q < secs_per_era * nanos_per_sec /\ time_ok (q_ctx q) /\ time_ok crx /\
  e_stx e - e_theta e <= crx /\ e_rtx e - e_theta e <= crx.

(* a handling e of a copy of request e_q e, given the earlier handlings: the copy
   arrived after the request was sent; transmit after receive; the receive stamp
   is new for this client (as a Time64); the reply meets the contract *)
Definition ex_ok (earlier : list exch) (e : exch) : Prop :=
  q_ctx (e_q e) + e_theta e <= e_srx e /\ e_srx e < e_stx e /\ e_srx e < e_rtx e /\
  (forall e0, In e0 earlier -> time64_of_time (e_srx e0) <> time64_of_time (e_srx e)) /\
  conformant earlier (q_pkt (e_q e)) (e_srx e) (e_stx e) (e_reply e).

(* ---- state ---- *)
Record world := {
  w_prev : prev_t;
  w_reqs : list reqinfo;          (* newest first *)
  w_exs : list exch;              (* newest first *)
  w_open : bool;                  (* the socket of the newest request is open *)
  w_retries : Z;
  w_gprev : option (exch * Z) }.  (* ghost: the exchange and arrival prev was last built from *)

Definition w_init : world :=
  {| w_prev := prev_init; w_reqs := []; w_exs := []; w_open := false; w_retries := 0; w_gprev := None |}.

Definition cur (w : world) : option reqinfo :=
  match w_reqs w with q :: _ => Some q | [] => None end.

Definition w_send (w : world) (q : reqinfo) : world :=
  {| w_prev := w_prev w; w_reqs := q :: w_reqs w; w_exs := w_exs w; w_open := true; w_retries := 0;
     w_gprev := w_gprev w |}.
Definition w_handle (w : world) (e : exch) : world :=
  {| w_prev := w_prev w; w_reqs := w_reqs w; w_exs := e :: w_exs w; w_open := w_open w;
     w_retries := w_retries w; w_gprev := w_gprev w |}.
Definition w_close (w : world) : world :=
  {| w_prev := w_prev w; w_reqs := w_reqs w; w_exs := w_exs w; w_open := false;
     w_retries := w_retries w; w_gprev := w_gprev w |}.
Definition w_retry (w : world) : world :=
  {| w_prev := w_prev w; w_reqs := w_reqs w; w_exs := w_exs w; w_open := true;
     w_retries := w_retries w + 1; w_gprev := w_gprev w |}.
Definition w_accept (w : world) (p : prev_t) (e : exch) (crx : Z) : world :=
  {| w_prev := p; w_reqs := w_reqs w; w_exs := w_exs w; w_open := false;
     w_retries := w_retries w; w_gprev := Some (e, crx) |}.
Definition w_setprev (w : world) (p : prev_t) : world :=
  {| w_prev := p; w_reqs := w_reqs w; w_exs := w_exs w; w_open := w_open w;
     w_retries := w_retries w; w_gprev := w_gprev w |}.

(* what the client makes of a copy of e's reply arriving with stamp crx *)
Definition client_recv (c : cfg) (ref : Z) (w : world) (q : reqinfo) (e : exch) (crx : Z) : dres :=
  process_response c ref (w_prev w) (q_ireq q) (q_pkt q) (q_now0 q) (q_ctx q) (e_reply e) crx
    (negb (w_retries w =? 1)).

Definition after_recv (c : cfg) (ref : Z) (w : world) (q : reqinfo) (e : exch) (crx : Z) : world :=
  match client_recv c ref w q e crx with
  | DRetry => w_retry w
  | DFail _ => w_close w
  | DAccept a => w_accept w (a_prev a) e crx
  end.

(* ---- transitions ----
   send    : the client (socket closed) reads its clock, builds a request from prev,
             opens a fresh socket and sends; the kernel stamps the transmission
   handle  : the network delivers a copy of ANY request sent so far (delay,
             duplication, reordering, staleness) and the server handles it,
             with any clock offset theta
   recv    : a copy of the reply of some handling OF THE CURRENT REQUEST
             (fresh_socket_per_request) arrives, any number of times, in any order
   junk    : an undecodable or foreign datagram arrives
   timeout : nothing (more) arrives in time (loss)
   other   : between requests the client is reset or has been used with another reference *)
Inductive step (c : cfg) (ref : Z) : world -> world -> Prop :=
| st_send : forall w now0 ctx ireq pk,
    w_open w = false -> build_request c ref (w_prev w) now0 = (ireq, pk) ->
    step c ref w (w_send w {| q_id := length (w_reqs w); q_ireq := ireq; q_pkt := pk; q_now0 := now0; q_ctx := ctx |})
| st_handle : forall w e,
    In (e_q e) (w_reqs w) -> ex_ok (w_exs w) e -> step c ref w (w_handle w e)
| st_recv : forall w q e crx,
    w_open w = true -> cur w = Some q -> In e (w_exs w) -> q_id (e_q e) = q_id q -> arrival_ok q e crx ->
    step c ref w (after_recv c ref w q e crx)
| st_junk : forall w,
    w_open w = true -> step c ref w (if w_retries w =? 1 then w_close w else w_retry w)
| st_timeout : forall w,
    w_open w = true -> step c ref w (w_close w)
| st_other : forall w p,
    w_open w = false -> p_ref p <> ref -> step c ref w (w_setprev w p).

Inductive reachable (c : cfg) (ref : Z) : world -> Prop :=
| reach_init : reachable c ref w_init
| reach_step : forall w w', reachable c ref w -> step c ref w w' -> reachable c ref w'.

(* the client accepts a copy of e's reply arriving with stamp crx, with result a *)
Definition accepts (c : cfg) (ref : Z) (w : world) (q : reqinfo) (e : exch) (crx : Z) (a : accept_t) : Prop :=
  w_open w = true /\ cur w = Some q /\ In e (w_exs w) /\ q_id (e_q e) = q_id q /\ arrival_ok q e crx /\
  client_recv c ref w q e crx = DAccept a.
