(* Property oracle of C15, written from the property text; it is evaluated on
   what was observed of the implementation (and, in the theorems, on what the
   model does).  It does not call the model of MeasureClockOffsetSCION.

   Observation of one round: for every client, in the order of the client
   slice, its state before the round as the exported getters report it
   (InInterleavedMode(), InterleavedModePath() as a fingerprint id), the next
   hops (= indices of offered paths) its requests reached, how often its filter
   was reset, the form of its first request, the values its filter returned;
   the fingerprint id of every offered path; the class of the result and the
   reported offset. *)
From ST Require Import Base.Ints Base.Sorting Model.NtpTime Model.Ftm.
Open Scope Z_scope.

Record cobs := {
  ob_ilv : bool;          (* in interleaved mode before the round *)
  ob_fp : Z;              (* fingerprint of the path of its previous exchange *)
  ob_filter : bool;       (* has a filter *)
  ob_hops : list Z;       (* distinct next hops its requests reached *)
  ob_resets : Z;          (* Filter.Reset calls during the round *)
  ob_first : Z;           (* first request: 1 interleaved form, 0 basic form, -1 no request *)
  ob_vals : list Z;       (* results of Filter.Do during the round = offsets it measured *)
  ob_old : bool }.        (* its previous accepted exchange is 3 s old or older (an interleaved request is
                             only possible within 3 s) *)

Fixpoint zmem (x : Z) (l : list Z) : bool :=
  match l with [] => false | y :: r => (x =? y) || zmem x r end.
Fixpoint remove_one (x : Z) (l : list Z) : list Z :=
  match l with [] => [] | y :: r => if x =? y then r else y :: remove_one x r end.
Fixpoint znodupb (l : list Z) : bool :=
  match l with [] => true | x :: r => negb (zmem x r) && znodupb r end.

(* "a client in interleaved mode keeps the path of its previous exchange while
   that path is still offered": going through the clients in order, a client in
   interleaved mode keeps a path with the fingerprint of its previous exchange
   if one is still available; `avail` = fingerprints of the offered paths not
   yet kept by an earlier client *)
Fixpoint keeps (obs : list cobs) (avail : list Z) : list bool :=
  match obs with
  | [] => []
  | o :: r =>
      if ob_ilv o && zmem (ob_fp o) avail then true :: keeps r (remove_one (ob_fp o) avail)
      else false :: keeps r avail
  end.

Definition participates (o : cobs) : bool := match ob_hops o with [] => false | _ => true end.

(* one value per participating client that produced a measurement: the last offset it measured *)
Definition ob_meas (o : cobs) : list Z := match rev (ob_vals o) with [] => [] | v :: _ => [v] end.

Definition sticky_ok (fps : list Z) (o : cobs) (keep : bool) : bool :=
  if keep then
    match ob_hops o with
    | [p] => (nth (Z.to_nat p) fps (-1) =? ob_fp o) && (ob_resets o =? 0)
             && (ob_first o =? (if ob_old o then 0 else 1))
    | _ => false
    end
  else
    (ob_resets o =? (if ob_filter o then 1 else 0)) && negb (ob_first o =? 1).

Fixpoint all2 {A B} (f : A -> B -> bool) (a : list A) (b : list B) : bool :=
  match a, b with
  | [], [] => true
  | x :: a', y :: b' => f x y && all2 f a' b'
  | _, _ => false
  end.

(* cls: 0 = offset reported, 1 = errNoPath, 4 = errNoMeasurement, anything else = another error / panic *)
Definition C15_round_ok (fps : list Z) (obs : list cobs) (cls off : Z) : bool :=
  let np := Z.of_nat (length fps) in
  let nc := Z.of_nat (length obs) in
  let hops := flat_map ob_hops obs in
  let parts := filter participates obs in
  (* every client probes over at most one path, the paths are offered ones and pairwise distinct *)
  forallb (fun o => Nat.leb (length (ob_hops o)) 1) obs
  && forallb (fun p => (0 <=? p) && (p <? np)) hops
  && znodupb hops
  (* no more (and no fewer) clients take part than there are paths *)
  && (Z.of_nat (length parts) =? Z.min nc np)
  (* sticky / reset clause *)
  && all2 (sticky_ok fps) obs (keeps obs fps)
  (* errNoPath exactly when nobody can take part; errNoMeasurement exactly when no participant measured anything;
     otherwise the reported offset is the fault-tolerant midpoint over one value per participant that measured *)
  && (if Z.min nc np =? 0 then cls =? 1
      else match ftm (flat_map ob_meas parts) with
           | Some m => (cls =? 0) && (off =? m)
           | None => cls =? 4
           end).

(* ---- single draws and samples (crypto.RandIntn, crypto.Sample) ---- *)
(* a draw below n >= 2 is made from the generator's output: at least one read, and the value is the
   residue of the word read last (the accepted one) *)
Definition C15_intn_ok (n : Z) (last_word : Z) (reads : Z) (v : Z) : bool :=
  (0 <=? v) && (v <? Z.max n 1) && (if n <? 2 then v =? 0 else (1 <=? reads) && (v =? last_word mod n)).

(* Sample(k, n): min(k, n) slots are filled, from distinct candidates *)
Fixpoint apply_picks (res : list Z) (picks : list (Z * Z)) : list Z :=
  match picks with
  | [] => res
  | (dst, src) :: r =>
      apply_picks (map (fun iv : Z * Z => if fst iv =? dst then src else snd iv)
                       (combine (map Z.of_nat (seq 0 (length res))) res)) r
  end.

(* the candidates k'.. n-1 beyond the first one each take a draw *)
Definition C15_sample_ok (k n : Z) (k' : Z) (picks : list (Z * Z)) (reads : Z) : bool :=
  let res := apply_picks (repeat (-1) (Z.to_nat k')) picks in
  (k' =? Z.min k n)
  && (n - Z.max k' 1 <=? reads)
  && forallb (fun p : Z * Z => (0 <=? fst p) && (fst p <? k') && (0 <=? snd p) && (snd p <? n)) picks
  && forallb (fun s => 0 <=? s) res
  && znodupb res.
