(* Model of net/ntske/cookies.go: ServerCookie.Encode/Decode and
   EncryptedServerCookie.Encode/Decode.  Both are three type-length-value fields
   (uint16 type, uint16 length, value): a uint16 value, then two byte strings; they
   differ in the type constants only.  No proofs here. *)
From ST Require Import Base.Ints Base.Bytes.
Open Scope Z_scope.

Record ck_types := { ck_t1 : Z; ck_t2 : Z; ck_t3 : Z }.
Definition server_cookie_types := {| ck_t1 := 257; ck_t2 := 513; ck_t3 := 769 |}.       (* 0x101 0x201 0x301: Algo, S2C, C2S *)
Definition encrypted_cookie_types := {| ck_t1 := 1025; ck_t2 := 1281; ck_t3 := 1537 |}. (* 0x401 0x501 0x601: ID, Nonce, Ciphertext *)

(* a cookie value: (uint16 field, first byte string, second byte string) *)
Definition ck_val := (Z * list Z * list Z)%type.

(* Encode: b := make([]byte, 3*4+2+len+len); PutUint16 type, length (uint16(len(..)) wraps), copy *)
Definition ck_encode (ty : ck_types) (c : ck_val) : list Z :=
  let '(v, a, b) := c in
  be_enc 2 (ck_t1 ty) ++ be_enc 2 2 ++ be_enc 2 v
  ++ be_enc 2 (ck_t2 ty) ++ be_enc 2 (u16 (Z.of_nat (length a))) ++ a
  ++ be_enc 2 (ck_t3 ty) ++ be_enc 2 (u16 (Z.of_nat (length b))) ++ b.

(* Decode: the loop over the fields; s is b[pos:].  Returns the fields as assigned so far
   and whether decoding succeeded (all three kinds seen, no truncated field). *)
Fixpoint ck_decode_loop (fuel : nat) (ty : ck_types) (s : list Z) (c : ck_val) (f1 f2 f3 : bool)
  : ck_val * bool * bool :=   (* value, ok, fuel sufficed *)
  match s with
  | [] => (c, f1 && f2 && f3, true)
  | _ =>
    match fuel with
    | O => (c, false, false)
    | S fuel' =>
      if (length s <? 4)%nat then (c, false, true)
      else
        let t := be_dec (firstn 2 s) in
        let l := Z.to_nat (be_dec (firstn 2 (skipn 2 s))) in
        if (length s - 4 <? l)%nat then (c, false, true)
        else
          let body := firstn l (skipn 4 s) in
          let rest := skipn (4 + l) s in
          let '(v, a, b) := c in
          if t =? ck_t1 ty then
            if (l <? 2)%nat then (c, false, true)
            else ck_decode_loop fuel' ty rest (be_dec (firstn 2 body), a, b) true f2 f3
          else if t =? ck_t2 ty then ck_decode_loop fuel' ty rest (v, body, b) f1 true f3
          else if t =? ck_t3 ty then ck_decode_loop fuel' ty rest (v, a, body) f1 f2 true
          else ck_decode_loop fuel' ty rest c f1 f2 f3
    end
  end.

Definition ck_decode (ty : ck_types) (c0 : ck_val) (b : list Z) : ck_val * bool :=
  fst (ck_decode_loop (length b) ty b c0 false false false).

(* values that fit the wire format *)
Definition ck_wf (c : ck_val) : Prop :=
  let '(v, a, b) := c in
  0 <= v < 65536 /\ bytes_ok a /\ bytes_ok b /\ Z.of_nat (length a) < 65536 /\ Z.of_nat (length b) < 65536.

(* ---- property oracle: encode then decode returns the value ---- *)
Definition bl_eqb (a b : list Z) : bool :=
  (fix go a b := match a, b with
     | [], [] => true
     | x :: a', y :: b' => (x =? y) && go a' b'
     | _, _ => false end) a b.

Definition C14_cookie_ok (c : ck_val) (enc : list Z) (dec_ok : bool) (d : ck_val) : bool :=
  let '(v, a, b) := c in let '(v', a', b') := d in
  dec_ok && (v =? v') && bl_eqb a a' && bl_eqb b b'
  && (length enc =? 14 + length a + length b)%nat && bytes_okb enc.
