(* Property oracles for the server's timestamp store (C06, C07), written from
   the property text over what is OBSERVED of the implementation: the request,
   the reply, and the client's stored exchanges before and after the
   operation.  They do not call the model of handleRequest/updateTXTimestamp. *)
From ST Require Import Base.Ints Base.Value Base.Sorting Model.NtpTime Model.Tss.
From Coq Require Import ZArith List Bool.
Import ListNotations.
Open Scope Z_scope.

(* an observed item: queue value, index in the queue array, exchanges (rx, tx) *)
Record oitem := { oi_qval : Z; oi_qidx : Z; oi_ents : list (Z * Z) }.

Definition ents_of (o : option oitem) : list (Z * Z) :=
  match o with Some it => oi_ents it | None => [] end.

Definition pair_code (p : Z * Z) : Z := fst p * 18446744073709551616 + snd p.
Definition same_multiset (a b : list (Z * Z)) : bool :=
  list_eqb Z.eqb (zsort (map pair_code a)) (zsort (map pair_code b)).

Definition has_first (x : Z) (l : list (Z * Z)) : bool := existsb (fun e => fst e =? x) l.
Definition has_pair (x y : Z) (l : list (Z * Z)) : bool := existsb (fun e => (fst e =? x) && (snd e =? y)) l.

(* every recorded transmit time is later than its receive time *)
Definition pairs_ordered (l : list (Z * Z)) : bool := forallb (fun e => fst e <? snd e) l.

(* ---- C06: one handled request ----
   pre: the exchanges kept for this client before the call; q: the request;
   rxt, now: receive time and clock reading given; (org, rx, tx): the reply;
   rxt', txt': the receive and transmit times reported back to the listener. *)
Definition C06_handle_ok (pre : list (Z * Z)) (q : request) (rxt now : Z)
  (org rx tx : Z) (rxt' txt' : Z) : bool :=
  let inter := negb (q_rx q =? q_tx q) && (org =? q_rx q) in
  (* carries the server's receive timestamp of that request *)
  (rx =? to64 rxt') && (rxt <=? rxt') &&
  (* distinct from all receive timestamps currently kept for that client *)
  negb (has_first rx pre) &&
  (* interleaved only if, and whenever, an earlier reply with that receive stamp is on record
     for the same client and the request's receive and transmit fields differ *)
  Bool.eqb inter (negb (q_rx q =? q_tx q) && has_first (q_org q) pre) &&
  (if inter
   then (* transmit = the one recorded for that earlier reply, later than its receive stamp *)
        existsb (fun e => (fst e =? q_org q) && (snd e =? tx) && (fst e <? snd e)) pre
   else (org =? q_tx q) && (tx =? to64 txt') && (if rxt <? now then rx <? tx else true)).

(* ---- C06: one transmit-timestamp report ----
   pre/post: the client's exchanges before/after; rxt: receive time of the
   exchange; txt': the transmit time after the call (what the listener is told). *)
Definition C06_update_ok (pre post : list (Z * Z)) (rxt txt' : Z) : bool :=
  let rx64 := to64 rxt in
  match find (fun e => fst e =? rx64) pre with
  | None => true
  | Some e =>
      if snd e =? to64 txt'
      then negb (has_first rx64 post)           (* no transmit stamp could be read: dropped, not served *)
      else has_pair rx64 (to64 txt') post       (* the kernel transmit stamp is on record *)
  end.

(* ---- C07: one client's item and the queue after any operation ---- *)
Fixpoint nodup_z (l : list Z) : bool :=
  match l with
  | [] => true
  | x :: r => negb (existsb (Z.eqb x) r) && nodup_z r
  end.

Definition lmax (l : list Z) : Z := fold_right Z.max 0 l.

(* the binary-heap order of container/heap on the queue array: no element is
   smaller than its parent.  children of position i are 2i+1 and 2i+2: walk the
   array once, pairing each parent with its (at most two) children *)
Fixpoint heap_children_ok (fuel : nat) (parents children : list Z) : bool :=
  match fuel, parents, children with
  | O, _, _ => true
  | _, _, [] => true
  | _, [], _ :: _ => false
  | S f, p :: ps, [c1] => negb (c1 <? p)
  | S f, p :: ps, c1 :: c2 :: cs => negb (c1 <? p) && negb (c2 <? p) && heap_children_ok f ps cs
  end.
Definition heap_ok (q : list Z) : bool := heap_children_ok (length q) q (tl q).

Definition C07_item_ok (icap : Z) (cid : Z) (it : oitem) (queue : list (Z * Z)) (in_order : bool) : bool :=
  let rxs := map fst (oi_ents it) in
  (1 <=? Z.of_nat (length rxs)) && (Z.of_nat (length rxs) <=? icap) &&
  nodup_z rxs &&
  forallb (fun r => r <=? oi_qval it) rxs &&                    (* never ranked older than its most recent exchange *)
  (if in_order then oi_qval it =? lmax rxs else true) &&        (* exactly that exchange for in-order arrivals *)
  match nth_error queue (Z.to_nat (oi_qidx it)) with            (* the index entry of this client *)
  | Some (k, v) => (0 <=? oi_qidx it) && (k =? cid) && (v =? oi_qval it)
  | None => false
  end.

Definition C07_queue_ok (cap : Z) (nitems : nat) (queue : list (Z * Z)) : bool :=
  heap_ok (map snd queue) && nodup_z (map fst queue) &&
  Nat.eqb (length queue) nitems && (Z.of_nat nitems <=? cap).

(* ---- C07: flood of unknown clients against a full store ----
   small: (client, queue value) of the part of the store that can contain the
   minimum (the least recently active base clients plus the newcomers that got
   state); newcomers are processed in order: a newcomer at least as recent as
   the least recently active client replaces it, any other is served
   statelessly and changes nothing. *)
Fixpoint min_entry (l : list (Z * Z)) : option (Z * Z) :=
  match l with
  | [] => None
  | e :: r => match min_entry r with
              | Some m => if snd m <? snd e then Some m else Some e
              | None => Some e
              end
  end.
Fixpoint remove_key (k : Z) (l : list (Z * Z)) : list (Z * Z) :=
  match l with
  | [] => []
  | e :: r => if fst e =? k then r else e :: remove_key k r
  end.
Fixpoint flood_spec (small : list (Z * Z)) (extras : list (Z * Z)) : list (Z * Z) :=
  match extras with
  | [] => small
  | x :: r =>
      match min_entry small with
      | Some m => if snd m <=? snd x then flood_spec (x :: remove_key (fst m) small) r
                  else flood_spec small r
      | None => flood_spec small r
      end
  end.

Definition C07_flood_ok (cap : Z) (base extras : list (Z * Z)) (lens : list (Z * Z))
  (surv_base surv_extras : list Z) (nitems nqueue heapviol qidxviol qvalviol : Z) : bool :=
  let expect := flood_spec base extras in
  list_eqb Z.eqb (zsort (map fst expect)) (zsort (surv_base ++ surv_extras)) &&
  forallb (fun p => (fst p =? cap) && (snd p =? cap)) lens &&
  (nitems =? cap) && (nqueue =? cap) && (heapviol =? 0) && (qidxviol =? 0) && (qvalviol =? 0).

(* ---- C07 floods, per newcomer: the decision the eviction rule takes for every
   newcomer in turn - whether it gets state and which client loses its state
   (-1: nobody) - so that a wrong admission is seen when it happens and not
   only if it survives to the end of the flood *)
Fixpoint flood_decisions (small : list (Z * Z)) (extras : list (Z * Z)) : list (bool * Z) :=
  match extras with
  | [] => []
  | x :: r =>
      match min_entry small with
      | Some m => if snd m <=? snd x then (true, fst m) :: flood_decisions (x :: remove_key (fst m) small) r
                  else (false, -1) :: flood_decisions small r
      | None => (false, -1) :: flood_decisions small r
      end
  end.

(* observed: (1 = got state | 0, client that lost its state | -1) per newcomer *)
Fixpoint decisions_match (d : list (bool * Z)) (obs : list (Z * Z)) : bool :=
  match d, obs with
  | [], [] => true
  | (b, v) :: dr, (ob, ov) :: or => Bool.eqb b (ob =? 1) && (v =? ov) && decisions_match dr or
  | _, _ => false
  end.

Definition C07_flood_decisions_ok (base extras : list (Z * Z)) (obs : list (Z * Z)) : bool :=
  decisions_match (flood_decisions base extras) obs.

(* ---- C06: the receive time reported back, and what is recorded ----
   rxt: the receive time given; rxt': the one reported back (the reply carries its stamp).
   The stamp is the FIRST one at or after the given receive time that is distinct from all
   receive stamps kept for the client: unchanged when the given one collides with none, and
   moved by one nanosecond per collision otherwise (never by more than one nanosecond per
   stored exchange). *)
Fixpoint all_collide (pre : list (Z * Z)) (rxt : Z) (n : nat) : bool :=
  match n with
  | O => true
  | S m => has_first (to64 rxt) pre && all_collide pre (rxt + 1) m
  end.

Definition C06_rxt_ok (pre : list (Z * Z)) (rxt rxt' : Z) : bool :=
  (rxt <=? rxt') && (rxt' - rxt <=? Z.of_nat (length pre)) && all_collide pre rxt (Z.to_nat (rxt' - rxt)).

(* post: the client's exchanges after the call (None: the client has no record).  The exchange of
   this reply is on record with the software transmit time - unless the client was served without
   state, which is possible only for a client that had no record - and nothing else appeared. *)
Definition C06_post_ok (pre : list (Z * Z)) (rx tx64 : Z) (post : option (list (Z * Z))) : bool :=
  match post with
  | None => match pre with [] => true | _ :: _ => false end
  | Some ents =>
      has_pair rx tx64 ents &&
      forallb (fun e => ((fst e =? rx) && (snd e =? tx64)) || has_pair (fst e) (snd e) pre) ents
  end.

Definition C06_handle_full_ok (pre : list (Z * Z)) (q : request) (rxt now : Z)
  (org rx tx : Z) (rxt' txt' : Z) (post : option (list (Z * Z))) : bool :=
  C06_handle_ok pre q rxt now org rx tx rxt' txt' && C06_rxt_ok pre rxt rxt' && C06_post_ok pre rx (to64 txt') post.

(* ---- C06 across the NTP era rollover (kind tss.era) ----
   A Time64 wraps every 2^32 s (2036-02-07 06:28:16 UTC): "later" between two stamps that are
   less than 68 years apart is the sign of their difference modulo 2^64.  The clauses are those of
   C06_handle_ok / C06_update_ok with this order on stamps and the order of the times themselves
   wherever the observation has them.  (The ranking of clients by recency is declared out of scope
   across the wrap; "transmit later than receive" and "the kernel transmit stamp is what is
   recorded" are not.) *)
Definition t64_later (a b : Z) : bool :=   (* b is later than a *)
  let d := (b - a) mod 18446744073709551616 in (0 <? d) && (d <? 9223372036854775808).

Definition pairs_ordered_era (l : list (Z * Z)) : bool := forallb (fun e => t64_later (fst e) (snd e)) l.

Definition C06_handle_ok_era (pre : list (Z * Z)) (q : request) (rxt now : Z)
  (org rx tx : Z) (rxt' txt' : Z) : bool :=
  let inter := negb (q_rx q =? q_tx q) && (org =? q_rx q) in
  (rx =? to64 rxt') && (rxt <=? rxt') &&
  negb (has_first rx pre) &&
  Bool.eqb inter (negb (q_rx q =? q_tx q) && has_first (q_org q) pre) &&
  (if inter
   then existsb (fun e => (fst e =? q_org q) && (snd e =? tx) && t64_later (fst e) (snd e)) pre
   else (org =? q_tx q) && (tx =? to64 txt') && (rxt' <? txt') && (if rxt <? now then now <=? txt' else true)).

(* the report: txt is the transmit time given (the kernel's), txt' the one handed back.  A given time
   later than the receive time is kept as it is - that is the kernel transmit stamp, and it is what
   goes on record - otherwise the time handed back is receive time + 1 ns *)
Definition C06_update_given_ok (rxt txt txt' : Z) : bool :=
  if rxt <? txt then txt' =? txt else txt' =? rxt + 1.
