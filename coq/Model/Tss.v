(* Model of core/server/server.go: the per-client timestamp store, handleRequest
   and updateTXTimestamp.  A Time64 is the single number sec*2^32+frac (so that
   Before is <); time.Time is nanoseconds.  Code under tssMu is one atomic step. *)
From ST Require Import Base.Ints Model.NtpTime.
From Coq Require Import ZArith List Bool.
Import ListNotations.
Open Scope Z_scope.

Definition to64 (t : Z) : Z := t64_num (time64_of_time t).

Record entry := { e_rx : Z; e_tx : Z }.
Record item := { it_key : Z; it_ents : list entry; it_qval : Z }.

(* hq is the priority queue as container/heap has been told about it: the
   (key, qval) pairs pushed and not yet popped/removed, each qval as of the
   last Push/Fix for that key. *)
Record tss := { items : list item; hq : list (Z * Z) }.
Definition tss_empty : tss := {| items := []; hq := [] |}.

Record config := { cap : Z; icap : Z }.
Definition real_config : config := {| cap := 1048576; icap := 8 |}.

Fixpoint find_item (k : Z) (l : list item) : option item :=
  match l with
  | [] => None
  | it :: r => if it_key it =? k then Some it else find_item k r
  end.
Fixpoint remove_item (k : Z) (l : list item) : list item :=
  match l with
  | [] => []
  | it :: r => if it_key it =? k then r else it :: remove_item k r
  end.
Fixpoint replace_item (it' : item) (l : list item) : list item :=
  match l with
  | [] => []
  | it :: r => if it_key it =? it_key it' then it' :: r else it :: replace_item it' r
  end.

Fixpoint hq_remove (k : Z) (q : list (Z * Z)) : list (Z * Z) :=
  match q with
  | [] => []
  | (k', v) :: r => if k' =? k then r else (k', v) :: hq_remove k r
  end.
Definition hq_fix (k v : Z) (q : list (Z * Z)) : list (Z * Z) :=
  map (fun p => if fst p =? k then (k, v) else p) q.
Definition hq_min_val (q : list (Z * Z)) : option Z :=
  match q with
  | [] => None
  | (_, v) :: r => Some (fold_right (fun p m => Z.min (snd p) m) v r)
  end.
Fixpoint hq_find (k : Z) (q : list (Z * Z)) : option Z :=
  match q with
  | [] => None
  | (k', v) :: r => if k' =? k then Some v else hq_find k r
  end.

Definition has_rx (rx : Z) (l : list entry) : bool := existsb (fun e => e_rx e =? rx) l.

(* the collision loop of handleRequest; fuel = length + 1 iterations suffice *)
Fixpoint uniq (fuel : nat) (l : list entry) (rxt txt : Z) : option (Z * Z) :=
  if has_rx (to64 rxt) l then
    match fuel with
    | O => None
    | S f =>
        let rxt' := rxt + 1 in
        uniq f l rxt' (if rxt' <? txt then txt else rxt' + 1)
    end
  else Some (rxt, txt).

(* the scan of the final (collision-free) pass: o = LAST index whose rx equals
   the request's origin, min = FIRST minimal rx, max = LAST maximal rx *)
Fixpoint scan_from (i : nat) (l : list entry) (org : Z) (o mn mx : option (nat * Z)) :
  option (nat * Z) * option (nat * Z) * option (nat * Z) :=
  match l with
  | [] => (o, mn, mx)
  | e :: r =>
      let o' := if e_rx e =? org then Some (i, e_tx e) else o in
      let mn' := match mn with None => Some (i, e_rx e) | Some (_, m) => if e_rx e <? m then Some (i, e_rx e) else mn end in
      let mx' := match mx with None => Some (i, e_rx e) | Some (_, m) => if negb (e_rx e <? m) then Some (i, e_rx e) else mx end in
      scan_from (S i) r org o' mn' mx'
  end.
Definition scan (l : list entry) (org : Z) := scan_from 0 l org None None None.

Fixpoint set_nth {A} (i : nat) (x : A) (l : list A) : list A :=
  match l, i with
  | [], _ => []
  | _ :: r, O => x :: r
  | y :: r, S j => y :: set_nth j x r
  end.

Record request := { q_org : Z; q_rx : Z; q_tx : Z }.
Record reply := { r_org : Z; r_rx : Z; r_tx : Z; r_inter : bool; r_ref : Z }.

(* the three-way decision for a client that has no item *)
Inductive admission := Evict | Stateless | Insert.
Definition admission_decision (c : config) (size : nat) (qmin : option Z) (rx64 : Z) : admission :=
  if Z.of_nat size =? cap c then
    match qmin with
    | Some m => if negb (rx64 <? m) then Evict else Stateless   (* !qmin.After(rx64) *)
    | None => Stateless
    end
  else Insert.

Record outcome := { o_state : tss; o_reply : reply; o_rxt : Z; o_txt : Z; o_evicted : option Z; o_stateless : bool }.

(* handleRequest.  [now] is the clock reading timebase.Now(); [victim] is the key
   container/heap pops when an eviction happens (it must be a minimum; the
   choice among equal minima is the heap's). *)
Definition handle (c : config) (s : tss) (cid : Z) (q : request) (rxt now victim : Z) : option outcome :=
  let txt0 := if rxt <? now then now else rxt + 1 in
  match find_item cid (items s) with
  | Some it =>
      match uniq (S (length (it_ents it))) (it_ents it) rxt txt0 with
      | None => None
      | Some (rxt', txt') =>
          let rx64 := to64 rxt' in let tx64 := to64 txt' in
          let '(o, mn, mx) := scan (it_ents it) (q_org q) in
          let inter := negb (q_rx q =? q_tx q) && match o with Some _ => true | None => false end in
          let rep := match o with
                     | Some (_, otx) => if inter then {| r_org := q_rx q; r_rx := rx64; r_tx := otx; r_inter := true; r_ref := tx64 |}
                                       else {| r_org := q_tx q; r_rx := rx64; r_tx := tx64; r_inter := false; r_ref := tx64 |}
                     | None => {| r_org := q_tx q; r_rx := rx64; r_tx := tx64; r_inter := false; r_ref := tx64 |}
                     end in
          let newmax := match mx with Some (_, m) => m <? rx64 | None => false end in
          let qval' := if newmax then rx64 else it_qval it in
          let hq' := if newmax then hq_fix cid rx64 (hq s) else hq s in
          let e := {| e_rx := rx64; e_tx := tx64 |} in
          let ents' := match o with
                       | Some (i, _) => set_nth i e (it_ents it)
                       | None => if Z.of_nat (length (it_ents it)) =? icap c
                                 then match mn with Some (i, _) => set_nth i e (it_ents it) | None => it_ents it end
                                 else it_ents it ++ [e]
                       end in
          let it' := {| it_key := cid; it_ents := ents'; it_qval := qval' |} in
          Some {| o_state := {| items := replace_item it' (items s); hq := hq' |};
                  o_reply := rep; o_rxt := rxt'; o_txt := txt'; o_evicted := None; o_stateless := false |}
      end
  | None =>
      let rx64 := to64 rxt in let tx64 := to64 txt0 in
      let rep := {| r_org := q_tx q; r_rx := rx64; r_tx := tx64; r_inter := false; r_ref := tx64 |} in
      match admission_decision c (length (items s)) (hq_min_val (hq s)) rx64 with
      | Stateless =>
          Some {| o_state := s; o_reply := rep; o_rxt := rxt; o_txt := txt0; o_evicted := None; o_stateless := true |}
      | Insert =>
          let it' := {| it_key := cid; it_ents := [{| e_rx := rx64; e_tx := tx64 |}]; it_qval := rx64 |} in
          Some {| o_state := {| items := it' :: items s; hq := (cid, rx64) :: hq s |};
                  o_reply := rep; o_rxt := rxt; o_txt := txt0; o_evicted := None; o_stateless := false |}
      | Evict =>
          (* heap.Pop returns a minimum; which one among equal minima is its choice *)
          match hq_find victim (hq s), hq_min_val (hq s) with
          | Some vq, Some m =>
              if vq =? m then
                let items1 := remove_item victim (items s) in
                let hq1 := hq_remove victim (hq s) in
                let it' := {| it_key := cid; it_ents := [{| e_rx := rx64; e_tx := tx64 |}]; it_qval := rx64 |} in
                Some {| o_state := {| items := it' :: items1; hq := (cid, rx64) :: hq1 |};
                        o_reply := rep; o_rxt := rxt; o_txt := txt0; o_evicted := Some victim; o_stateless := false |}
              else None
          | _, _ => None
          end
      end
  end.

(* the scan of updateTXTimestamp: x = LAST index with rx = rx64; max0 = LAST
   maximal; max1 = maximum of the others *)
Fixpoint scan_tx_from (i : nat) (l : list entry) (rx64 : Z) (x : option (nat * Z)) (m0 m1 : option Z) :
  option (nat * Z) * option Z * option Z :=
  match l with
  | [] => (x, m0, m1)
  | e :: r =>
      let x' := if e_rx e =? rx64 then Some (i, e_tx e) else x in
      let '(m0', m1') :=
        match m0 with
        | None => (Some (e_rx e), m0)
        | Some a => if negb (e_rx e <? a) then (Some (e_rx e), m0)
                    else match m1 with
                         | None => (m0, Some (e_rx e))
                         | Some b => if negb (e_rx e <? b) then (m0, Some (e_rx e)) else (m0, m1)
                         end
        end in
      scan_tx_from (S i) r rx64 x' m0' m1'
  end.

(* swap-remove of slot i: the last element moves into it, the length drops by one *)
Definition swap_remove {A} (d : A) (i : nat) (l : list A) : list A :=
  let init := removelast l in
  if Nat.eqb i (length init) then init else set_nth i (last l d) init.

Record tx_outcome := { t_state : tss; t_txt : Z; t_removed_item : bool; t_removed_entry : bool; t_updated : bool }.

Definition update_tx (s : tss) (cid rxt txt : Z) : tx_outcome :=
  let txt' := if rxt <? txt then txt else rxt + 1 in
  let same := {| t_state := s; t_txt := txt'; t_removed_item := false; t_removed_entry := false; t_updated := false |} in
  match find_item cid (items s) with
  | None => same
  | Some it =>
      let rx64 := to64 rxt in let tx64 := to64 txt' in
      match scan_tx_from 0 (it_ents it) rx64 None None None with
      | (None, _, _) => same
      | (Some (x, xtx), m0, m1) =>
          if negb (xtx =? tx64) then
            let it' := {| it_key := cid; it_ents := set_nth x {| e_rx := rx64; e_tx := tx64 |} (it_ents it); it_qval := it_qval it |} in
            {| t_state := {| items := replace_item it' (items s); hq := hq s |}; t_txt := txt';
               t_removed_item := false; t_removed_entry := false; t_updated := true |}
          else if Nat.eqb (length (it_ents it)) 1 then
            {| t_state := {| items := remove_item cid (items s); hq := hq_remove cid (hq s) |}; t_txt := txt';
               t_removed_item := true; t_removed_entry := true; t_updated := false |}
          else
            let ismax := match m0 with Some a => a =? rx64 | None => false end in
            let qval' := if ismax then match m1 with Some b => b | None => it_qval it end else it_qval it in
            let hq' := if ismax then hq_fix cid qval' (hq s) else hq s in
            let it' := {| it_key := cid; it_ents := swap_remove {| e_rx := 0; e_tx := 0 |} x (it_ents it); it_qval := qval' |} in
            {| t_state := {| items := replace_item it' (items s); hq := hq' |}; t_txt := txt';
               t_removed_item := false; t_removed_entry := true; t_updated := false |}
      end
  end.

(* ---- operations and runs ---- *)
Inductive op :=
| OpHandle (cid : Z) (q : request) (rxt now victim : Z)
| OpUpdateTx (cid rxt txt : Z).

Definition step (c : config) (s : tss) (o : op) : option tss :=
  match o with
  | OpHandle cid q rxt now victim =>
      match handle c s cid q rxt now victim with Some out => Some (o_state out) | None => None end
  | OpUpdateTx cid rxt txt => Some (t_state (update_tx s cid rxt txt))
  end.

Fixpoint run (c : config) (s : tss) (ops : list op) : option tss :=
  match ops with
  | [] => Some s
  | o :: r => match step c s o with Some s' => run c s' r | None => None end
  end.
