(* Model of base/timemath (Midpoint, Median, FaultTolerantMidpoint, Sgn, Inv).
   core/measurements (midpoint, Median, FaultTolerantMidpoint) is modelled in Model/FtmMeas.v. *)
From ST Require Import Base.Ints Base.Sorting Model.NtpTime.
From Coq Require Import Sorting.Permutation.
Open Scope Z_scope.

(* timemath.Midpoint: x + (y-x)/2 in int64 *)
Definition midpoint (x y : Z) : Z := i64 (x + go_div (i64 (y - x)) 2).

Definition sgn (d : Z) : Z := if d <? 0 then -1 else if 0 <? d then 1 else 0.
Definition inv (d : Z) : Z := if d =? min_i64 then max_i64 else - d.

(* None = the Go code panics (empty slice) *)
Definition ftm_sorted (s : list Z) : Z :=
  let n := length s in let f := ((n - 1) / 3)%nat in
  midpoint (nth f s 0) (nth (n - 1 - f) s 0).
Definition median_sorted (s : list Z) : Z :=
  let n := length s in let i := (n / 2)%nat in
  if Nat.eqb (n mod 2) 0 then midpoint (nth (i - 1) s 0) (nth i s 0) else nth i s 0.

Definition ftm (l : list Z) : option Z :=
  match l with [] => None | _ => Some (ftm_sorted (zsort l)) end.
Definition median (l : list Z) : option Z :=
  match l with [] => None | _ => Some (median_sorted (zsort l)) end.

(* measurements: see Model/FtmMeas.v (time.Time as Go stores it, measurements.{midpoint, Median,
   FaultTolerantMidpoint}, and the oracles for timestamped measurements) *)

(* ---- property oracle (from the property text) ---- *)
(* tagged values: (v, true) = correct, (v, false) = arbitrary *)
Definition goods (l : list (Z * bool)) : list Z := map fst (filter (fun x => snd x) l).
Definition lmin (l : list Z) : Z := fold_right Z.min (hd 0 l) l.
Definition lmax (l : list Z) : Z := fold_right Z.max (hd 0 l) l.
Definition nbad (l : list (Z * bool)) : nat := length (filter (fun x => negb (snd x)) l).

Definition C02_ftm_ok (l : list (Z * bool)) (res : Z) : bool :=
  let n := length l in
  if (Nat.leb 1 n) && (Nat.leb (nbad l) ((n - 1) / 3)) && forallb (fun x => Z.abs (fst x) <? 2^62) l
  then (lmin (goods l) <=? res) && (res <=? lmax (goods l)) else true.
Definition C02_median_ok (l : list Z) (res : Z) : bool :=
  if (Nat.leb 1 (length l)) && forallb (fun x => Z.abs x <? 2^62) l
  then (lmin l <=? res) && (res <=? lmax l) else true.
