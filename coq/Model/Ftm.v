(* Model of base/timemath (Midpoint, Median, FaultTolerantMidpoint, Sgn, Inv)
   and core/measurements (midpoint, Median, FaultTolerantMidpoint). *)
From ST Require Import Base.Ints Base.Sorting Model.NtpTime.
From Coq Require Import Sorting.Permutation.
Open Scope Z_scope.

(* timemath.Midpoint: x + (y-x)/2 in int64 *)
Definition midpoint (x y : Z) : Z := i64 (x + go_div (i64 (y - x)) 2).

Definition sgn (d : Z) : Z := if d <? 0 then -1 else if 0 <? d then 1 else 0.
Definition inv (d : Z) : Z := if d =? min_i64 then max_i64 else - d.

(* None = the Go code panics (empty slice) *)
Definition ftm_sorted (s : list Z) : Z :=
  let n := length s in let f := ((n - 1) / 3)%nat in
  midpoint (nth f s 0) (nth (n - 1 - f) s 0).
Definition median_sorted (s : list Z) : Z :=
  let n := length s in let i := (n / 2)%nat in
  if Nat.eqb (n mod 2) 0 then midpoint (nth (i - 1) s 0) (nth i s 0) else nth i s 0.

Definition ftm (l : list Z) : option Z :=
  match l with [] => None | _ => Some (ftm_sorted (zsort l)) end.
Definition median (l : list Z) : option Z :=
  match l with [] => None | _ => Some (median_sorted (zsort l)) end.

(* measurements *)
Record meas := { m_ts : Z; m_off : Z; m_err : bool }.
Definition meas_zero : meas := {| m_ts := 0; m_off := 0; m_err := false |}.

(* time.Time.Add is exact in the model; Sub saturates *)
Definition midpoint_m (x y : meas) : meas :=
  {| m_off := midpoint (m_off x) (m_off y);
     m_ts := if negb (m_ts y <? m_ts x)
             then m_ts x + go_div (time_sub (m_ts y) (m_ts x)) 2
             else m_ts y + go_div (time_sub (m_ts x) (m_ts y)) 2;
     m_err := false |}.

Definition ftm_m_sorted (s : list meas) : meas :=
  let n := length s in let f := ((n - 1) / 3)%nat in
  midpoint_m (nth f s meas_zero) (nth (n - 1 - f) s meas_zero).
Definition median_m_sorted (s : list meas) : meas :=
  let n := length s in let i := (n / 2)%nat in
  if Nat.eqb (n mod 2) 0 then midpoint_m (nth (i - 1) s meas_zero) (nth i s meas_zero)
  else {| m_ts := m_ts (nth i s meas_zero); m_off := m_off (nth i s meas_zero); m_err := false |}.

(* The Go code sorts with an unstable sort on the offset; the order of equal
   offsets is Go's choice.  The model is therefore relational: any sorted
   permutation s of the input may be the slice after the call. *)
Definition is_sorted_perm (ms s : list meas) : Prop :=
  Permutation ms s /\ sorted_by m_off s.

(* executable acceptance check used on the implementation's observations:
   s (the slice after the call) must be sorted and a permutation of ms *)
Definition meas_key (m : meas) : Z * Z * bool := (m_off m, m_ts m, m_err m).
Definition meas_eqb (a b : meas) : bool :=
  (m_off a =? m_off b) && (m_ts a =? m_ts b) && Bool.eqb (m_err a) (m_err b).
Fixpoint remove_first (x : meas) (l : list meas) : option (list meas) :=
  match l with
  | [] => None
  | y :: r => if meas_eqb x y then Some r
              else match remove_first x r with Some r' => Some (y :: r') | None => None end
  end.
Fixpoint is_permb (a b : list meas) : bool :=
  match a with
  | [] => match b with [] => true | _ => false end
  | x :: r => match remove_first x b with Some b' => is_permb r b' | None => false end
  end.
Definition sorted_permb (ms s : list meas) : bool :=
  is_permb ms s && zsortedb (map m_off s).

(* ---- property oracle (from the property text) ---- *)
(* tagged values: (v, true) = correct, (v, false) = arbitrary *)
Definition goods (l : list (Z * bool)) : list Z := map fst (filter (fun x => snd x) l).
Definition lmin (l : list Z) : Z := fold_right Z.min (hd 0 l) l.
Definition lmax (l : list Z) : Z := fold_right Z.max (hd 0 l) l.
Definition nbad (l : list (Z * bool)) : nat := length (filter (fun x => negb (snd x)) l).

Definition C02_ftm_ok (l : list (Z * bool)) (res : Z) : bool :=
  let n := length l in
  if (Nat.leb 1 n) && (Nat.leb (nbad l) ((n - 1) / 3)) && forallb (fun x => Z.abs (fst x) <? 2^62) l
  then (lmin (goods l) <=? res) && (res <=? lmax (goods l)) else true.
Definition C02_median_ok (l : list Z) (res : Z) : bool :=
  if (Nat.leb 1 (length l)) && forallb (fun x => Z.abs x <? 2^62) l
  then (lmin l <=? res) && (res <=? lmax l) else true.
