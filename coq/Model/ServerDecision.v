(* Model of the reply / no-reply decision of the NTP listeners:
     net/ntp/ntp.go          DecodePacket, EncodePacket, LeapIndicator/Version/Mode, SetVersion/SetMode
     net/ntp/validation.go   ValidateRequest
     core/server/server.go   handleRequest (header fields of the response)
     core/server/server_ip.go     runIPServer    (one loop iteration = one step)
     core/server/server_scion.go  runSCIONServer (NTP branch, on the parsed SCION/UDP headers)
   No proofs in this file.

   Conventions: a byte string is a list Z of values 0..255; uint8/uint16/uint32
   values are Z in range; Go's shifts and ors are Z.shiftl / Z.lor on widened
   values exactly as the source writes them.

   What leaves the project is an input of the step (record env):
   - the NTS branch (nts.DecodePacket, FirstCookie, cookie Decode, Provider.Get,
     Decrypt, nts.ProcessRequest): one boolean, "all six calls succeeded";
     and the bytes nts.EncodePacket appends to the 48-byte response header;
   - the clock and the per-client timestamp store (C06/C07): the receive and
     transmit stamps and, when the store has an entry for the request's origin
     stamp, the stored transmit stamp;
   - over SCION: the outcome of Path.Reverse() and of the packet authenticator
     (C13). *)
From ST Require Import Base.Ints.
From Coq Require Import ZArith List Bool.
Import ListNotations.
Open Scope Z_scope.

Definition zlen {A : Type} (l : list A) : Z := Z.of_nat (length l).

(* ---- net/ntp/ntp.go ---- *)

Definition packet_len : Z := 48.
Definition version_min : Z := 1.
Definition version_max : Z := 4.
Definition mode_reserved0 : Z := 0.
Definition mode_client : Z := 3.
Definition mode_server : Z := 4.
Definition leap_no_warning : Z := 0.
Definition leap_unknown : Z := 3.

Record time32 := { t32_sec : Z; t32_frac : Z }.
Record time64 := { t64_sec : Z; t64_frac : Z }.

Record packet := {
  lvm : Z; stratum : Z; poll : Z (* int8 *); precision : Z (* int8 *);
  root_delay : time32; root_dispersion : time32; reference_id : Z;
  reference_time : time64; origin_time : time64; receive_time : time64; transmit_time : time64 }.

Definition zero_packet : packet :=
  {| lvm := 0; stratum := 0; poll := 0; precision := 0;
     root_delay := {| t32_sec := 0; t32_frac := 0 |}; root_dispersion := {| t32_sec := 0; t32_frac := 0 |};
     reference_id := 0;
     reference_time := {| t64_sec := 0; t64_frac := 0 |}; origin_time := {| t64_sec := 0; t64_frac := 0 |};
     receive_time := {| t64_sec := 0; t64_frac := 0 |}; transmit_time := {| t64_sec := 0; t64_frac := 0 |} |}.

Definition time64_eqb (a b : time64) : bool := (t64_sec a =? t64_sec b) && (t64_frac a =? t64_frac b).

Definition byte_at (b : list Z) (i : nat) : Z := nth i b 0.
(* uint16(b[i])<<8 | uint16(b[i+1]) *)
Definition be16_at (b : list Z) (i : nat) : Z :=
  Z.lor (Z.shiftl (byte_at b i) 8) (byte_at b (i + 1)).
(* uint32(b[i])<<24 | uint32(b[i+1])<<16 | uint32(b[i+2])<<8 | uint32(b[i+3]) *)
Definition be32_at (b : list Z) (i : nat) : Z :=
  Z.lor (Z.lor (Z.lor (Z.shiftl (byte_at b i) 24) (Z.shiftl (byte_at b (i + 1)) 16))
               (Z.shiftl (byte_at b (i + 2)) 8)) (byte_at b (i + 3)).

(* DecodePacket: None = errUnexpectedPacketSize *)
Definition decode_packet (b : list Z) : option packet :=
  if zlen b <? packet_len then None else
  Some {| lvm := u8 (byte_at b 0); stratum := u8 (byte_at b 1);
          poll := i8 (byte_at b 2); precision := i8 (byte_at b 3);
          root_delay := {| t32_sec := be16_at b 4; t32_frac := be16_at b 6 |};
          root_dispersion := {| t32_sec := be16_at b 8; t32_frac := be16_at b 10 |};
          reference_id := be32_at b 12;
          reference_time := {| t64_sec := be32_at b 16; t64_frac := be32_at b 20 |};
          origin_time := {| t64_sec := be32_at b 24; t64_frac := be32_at b 28 |};
          receive_time := {| t64_sec := be32_at b 32; t64_frac := be32_at b 36 |};
          transmit_time := {| t64_sec := be32_at b 40; t64_frac := be32_at b 44 |} |}.

(* byte(x >> k) *)
Definition byte_of (x k : Z) : Z := u8 (Z.shiftr x k).
Definition enc16 (x : Z) : list Z := [byte_of x 8; byte_of x 0].
Definition enc32 (x : Z) : list Z := [byte_of x 24; byte_of x 16; byte_of x 8; byte_of x 0].

(* EncodePacket: the 48 bytes written to the first 48 bytes of the buffer *)
Definition encode_packet (p : packet) : list Z :=
  [u8 (lvm p); u8 (stratum p); u8 (poll p); u8 (precision p)]
  ++ enc16 (t32_sec (root_delay p)) ++ enc16 (t32_frac (root_delay p))
  ++ enc16 (t32_sec (root_dispersion p)) ++ enc16 (t32_frac (root_dispersion p))
  ++ enc32 (reference_id p)
  ++ enc32 (t64_sec (reference_time p)) ++ enc32 (t64_frac (reference_time p))
  ++ enc32 (t64_sec (origin_time p)) ++ enc32 (t64_frac (origin_time p))
  ++ enc32 (t64_sec (receive_time p)) ++ enc32 (t64_frac (receive_time p))
  ++ enc32 (t64_sec (transmit_time p)) ++ enc32 (t64_frac (transmit_time p)).

(* (p.LVM >> 6) & 0b11, (p.LVM >> 3) & 0b111, p.LVM & 0b111 *)
Definition leap_of (l : Z) : Z := Z.land (Z.shiftr l 6) 3.
Definition version_of (l : Z) : Z := Z.land (Z.shiftr l 3) 7.
Definition mode_of (l : Z) : Z := Z.land l 7.

(* SetVersion / SetMode: None = panic("unexpected NTP ... value") *)
Definition set_version (l v : Z) : option Z :=
  if negb (Z.land v 7 =? v) then None
  else Some (Z.lor (Z.land l 199) (u8 (Z.shiftl v 3))).
Definition set_mode (l m : Z) : option Z :=
  if negb (Z.land m 7 =? m) then None
  else Some (Z.lor (Z.land l 248) m).

(* ---- net/ntp/validation.go: ValidateRequest; true = nil, false = errUnexpectedRequest ---- *)
Definition validate_lvm (l : Z) : bool :=
  let li := leap_of l in
  if negb (li =? leap_no_warning) && negb (li =? leap_unknown) then false else
  let vn := version_of l in
  if (vn <? version_min) || (version_max <? vn) then false else
  let m := mode_of l in
  if ((vn =? 1) && negb (m =? mode_reserved0)) || (negb (vn =? 1) && negb (m =? mode_client)) then false
  else true.
Definition validate_request (req : packet) : bool := validate_lvm (lvm req).

(* ---- what the environment supplies for one datagram ---- *)
Record env := {
  e_nts_ok : bool;            (* the six NTS calls of the listener all succeed on this payload *)
  e_nts_ext : list Z;         (* what nts.EncodePacket appends to the response header *)
  e_nts_cookie_added : bool;  (* at least one EncryptWithNonce succeeded *)
  e_rx : time64; e_tx : time64;        (* Time64FromTime of the receive stamp / of the clock reading *)
  e_store_hit : option time64;         (* tss[clientID] has rxt = req.OriginTime: its txt *)
  e_spao_fail : bool;                  (* SCION only: authenticator present and MAC mismatch *)
  e_path_rev : option (Z * list Z) }.  (* SCION only: Path.Reverse(): None = error, Some (type, raw bytes) *)

Definition server_ref_id : Z := 1481856083. (* 0x58535453 *)

(* handleRequest, header part; None = panic in SetVersion/SetMode *)
Definition handle_request (req : packet) (e : env) : option packet :=
  match set_version (lvm zero_packet) version_max with
  | None => None
  | Some l1 =>
    match set_mode l1 mode_server with
    | None => None
    | Some l2 =>
      let inter := negb (time64_eqb (receive_time req) (transmit_time req)) in
      let ot := match e_store_hit e with
                | Some tx => if inter then (receive_time req, tx) else (transmit_time req, e_tx e)
                | None => (transmit_time req, e_tx e)
                end in
      Some {| lvm := l2; stratum := 1; poll := poll req; precision := -32;
              root_delay := {| t32_sec := 0; t32_frac := 0 |};
              root_dispersion := {| t32_sec := 0; t32_frac := 10 |};
              reference_id := server_ref_id;
              reference_time := e_tx e; origin_time := fst ot;
              receive_time := e_rx e; transmit_time := snd ot |}
    end
  end.

(* ---- the payload part shared by both listeners: from DecodePacket to the
        bytes handed to the socket / to the UDP layer ---- *)
Inductive decision :=
| NoReply                      (* continue without writing *)
| Reply (payload : list Z)     (* exactly one write of this NTP payload *)
| Crash.                       (* panic *)

Definition nts_max_packet_len : Z := 1024. (* nts.MaxPacketLen *)

Definition ntp_decision (b : list Z) (e : env) : decision :=
  match decode_packet b with
  | None => NoReply                                   (* failed to decode packet payload *)
  | Some req =>
    let nts_branch := packet_len <? zlen b in         (* len(buf) > ntp.PacketLen *)
    (* nts.DecodePacket: len(b) > MaxPacketLen => errPacketTooLong, before anything else is looked at *)
    if nts_branch && ((nts_max_packet_len <? zlen b) || negb (e_nts_ok e)) then NoReply   (* one of the NTS steps failed *)
    else
    let authenticated := nts_branch in
    if negb (validate_request req) then NoReply       (* failed to validate packet payload *)
    else
    match handle_request req e with
    | None => Crash
    | Some resp =>
      let buf := encode_packet resp in
      if authenticated then
        if negb (e_nts_cookie_added e) then NoReply   (* failed to add at least one cookie *)
        else Reply (buf ++ e_nts_ext e)
      else Reply buf
    end
  end.

(* ---- core/server/server_ip.go: one iteration of runIPServer ----
   The loop state is the receive buffer (cap 2048): the kernel overwrites its
   first n bytes, the code looks at buf[:n] only, EncodePacket overwrites the
   first 48 bytes.  A datagram longer than the buffer arrives truncated with
   MSG_TRUNC set: flags != 0, dropped. *)
Definition ip_buf_cap : Z := 2048.

(* source = whatever identifies the sending socket (address and port) *)
Record ip_datagram := { d_src : Z; d_payload : list Z; d_env : env }.
Record ip_write := { w_dst : Z; w_payload : list Z }.

Definition overwrite (buf new : list Z) : list Z := new ++ skipn (length new) buf.

Definition ip_step (buf : list Z) (d : ip_datagram) : list Z * option (list ip_write) :=
  let n := Z.min (zlen (d_payload d)) ip_buf_cap in
  let buf1 := overwrite buf (firstn (Z.to_nat n) (d_payload d)) in   (* ReadMsgUDPAddrPort *)
  if ip_buf_cap <? zlen (d_payload d) then (buf1, Some [])             (* flags != 0 *)
  else
  let b := firstn (Z.to_nat n) buf1 in                                 (* buf = buf[:n] *)
  match ntp_decision b (d_env d) with
  | NoReply => (buf1, Some [])
  | Crash => (buf1, None)
  | Reply out => (overwrite buf1 out, Some [ {| w_dst := d_src d; w_payload := out |} ])
  end.

(* the loop over a history of datagrams; None = the goroutine panicked *)
Fixpoint ip_run (buf : list Z) (h : list ip_datagram) : option (list (list ip_write)) :=
  match h with
  | [] => Some []
  | d :: r =>
    match ip_step buf d with
    | (_, None) => None
    | (buf', Some ws) =>
      match ip_run buf' r with
      | None => None
      | Some rest => Some (ws :: rest)
      end
    end
  end.

(* stateless description of one datagram, used by the correspondence check *)
Definition ip_decision (payload : list Z) (e : env) : decision :=
  if ip_buf_cap <? zlen payload then NoReply else ntp_decision payload e.

(* ---- core/server/server_scion.go: the branch that handles a parsed SCION/UDP
        packet whose L4 destination port is the listener's ---- *)
Definition endhost_port : Z := 30041.
Definition scion_buf_cap : Z := 9188. (* scion.MTU *)

Record scion_hdr := {
  h_dst_ia : Z; h_src_ia : Z;
  h_dst_type : Z; h_src_type : Z;
  h_dst_raw : list Z; h_src_raw : list Z;
  h_path_type : Z; h_path_raw : list Z;
  h_udp_src : Z; h_udp_dst : Z }.

Inductive scion_decision :=
| SNoReply
| SForward                                  (* relayed to the end host port: not an NTP reply *)
| SReply (h : scion_hdr) (payload : list Z) (* written to the last hop *)
| SCrash.

(* netip.AddrFromSlice *)
Definition addr_ok (raw : list Z) : bool := (zlen raw =? 4) || (zlen raw =? 16).

Definition scion_decision_of (conn_port local_port : Z) (h : scion_hdr) (payload : list Z) (e : env)
  : scion_decision :=
  if negb (addr_ok (h_src_raw h)) then SNoReply else
  if negb (addr_ok (h_dst_raw h)) then SNoReply else
  if negb (h_udp_dst h =? local_port) then
    if negb (conn_port =? endhost_port) || (h_udp_dst h =? endhost_port) then SNoReply
    else SForward
  else
  if local_port =? endhost_port then SNoReply else
  if e_spao_fail e then SNoReply else
  match ntp_decision payload e with
  | NoReply => SNoReply
  | Crash => SCrash
  | Reply out =>
    (* handleRequest has run; swap IA, address types, raw addresses; reverse the path; swap ports *)
    match e_path_rev e with
    | None => SNoReply                     (* failed to reverse path *)
    | Some (pt, praw) =>
      SReply {| h_dst_ia := h_src_ia h; h_src_ia := h_dst_ia h;
                h_dst_type := h_src_type h; h_src_type := h_dst_type h;
                h_dst_raw := h_src_raw h; h_src_raw := h_dst_raw h;
                h_path_type := pt; h_path_raw := praw;
                h_udp_src := h_udp_dst h; h_udp_dst := h_udp_src h |} out
    end
  end.

(* ======================================================================
   The property, written from its text (independent of the definitions above):
   arithmetic on the first byte instead of shifts and masks. *)

Definition wf_first_byte (b0 : Z) : bool :=
  let li := b0 / 64 in let vn := (b0 / 8) mod 8 in let m := b0 mod 8 in
  ((li =? 0) || (li =? 3)) &&
  (((2 <=? vn) && (vn <=? 4) && (m =? 3)) || ((vn =? 1) && (m =? 0))).

(* "a well-formed client request: at least 48 bytes, leap indicator 0 or 3,
   version 2-4 with mode 3 or version 1 with mode 0, and, if anything follows
   the 48-byte header, a valid NTS request" *)
Definition wellformed_request (payload : list Z) (nts_valid : bool) : bool :=
  (48 <=? zlen payload) && wf_first_byte (hd 0 payload) && ((zlen payload =? 48) || nts_valid).

(* "every reply is a version-4, server-mode, stratum-1 packet" *)
Definition reply_shape_ok (r : list Z) : bool :=
  (48 <=? zlen r) && ((hd 0 r / 8) mod 8 =? 4) && (hd 0 r mod 8 =? 4) && (nth 1 r 0 =? 1).

(* observation of one datagram sent to a listener: who sent it, what was sent,
   whether it was a valid NTS request, and the NTP replies seen (receiver, bytes) *)
Definition C09_ok (sender : Z) (payload : list Z) (nts_valid : bool) (replies : list (Z * list Z)) : bool :=
  forallb (fun r => reply_shape_ok (snd r) && negb (wf_first_byte (hd 0 (snd r)))) replies &&
  (if wellformed_request payload nts_valid
   then match replies with [(rcv, _)] => rcv =? sender | _ => false end
   else match replies with [] => true | _ => false end).

(* ---- histories ----
   "exactly one NTP reply ... for each UDP payload that is a well-formed client
   request": the sentence quantifies over every datagram a listener receives, so
   each exchange of a history is judged on its own.  What the listener handled
   before (a valid NTS request, a malformed datagram, a burst from another
   socket) never excuses a missing, doubled or misdirected reply to a later
   well-formed request, and never licenses a reply to a later malformed one. *)
Record ip_obs := {
  o_src : Z;                       (* the sending socket *)
  o_payload : list Z;              (* what it sent *)
  o_nts : bool;                    (* the payload is a valid NTS request *)
  o_replies : list (Z * list Z) }. (* NTP replies attributed to it: (receiving socket, bytes) *)

Definition C09_obs_ok (o : ip_obs) : bool := C09_ok (o_src o) (o_payload o) (o_nts o) (o_replies o).

Definition C09_hist_ok (h : list ip_obs) : bool := forallb C09_obs_ok h.

(* several datagrams sent back to back from one socket and the replies that came
   back to it, in order: the replies belong to the well-formed requests, first to
   first; none may be missing and none may be left over *)
Fixpoint C09_burst_ok (sender : Z) (ps : list (list Z * bool)) (reps : list (Z * list Z)) : bool :=
  match ps with
  | [] => match reps with [] => true | _ => false end
  | (p, n) :: ps' =>
      if wellformed_request p n then
        match reps with
        | r :: reps' => C09_ok sender p n [r] && C09_burst_ok sender ps' reps'
        | [] => false
        end
      else C09_burst_ok sender ps' reps
  end.

(* over SCION the reply is "to the sender" when the header is the request's with
   IA, host address (type and bytes) and ports exchanged and the path reversed *)
Definition list_eqb (a b : list Z) : bool :=
  (length a =? length b)%nat && forallb (fun p => fst p =? snd p) (combine a b).

Definition scion_back_to_sender (req rep : scion_hdr) (rev : option (Z * list Z)) : bool :=
  (h_dst_ia rep =? h_src_ia req) && (h_src_ia rep =? h_dst_ia req) &&
  (h_dst_type rep =? h_src_type req) && (h_src_type rep =? h_dst_type req) &&
  list_eqb (h_dst_raw rep) (h_src_raw req) && list_eqb (h_src_raw rep) (h_dst_raw req) &&
  (h_udp_dst rep =? h_udp_src req) && (h_udp_src rep =? h_udp_dst req) &&
  match rev with
  | Some (pt, praw) => (h_path_type rep =? pt) && list_eqb (h_path_raw rep) praw
  | None => false
  end.

Definition C09_scion_ok (sender : Z) (req : scion_hdr) (payload : list Z) (nts_valid : bool)
  (rev : option (Z * list Z)) (replies : list (Z * scion_hdr * list Z)) : bool :=
  forallb (fun r => reply_shape_ok (snd r) && negb (wf_first_byte (hd 0 (snd r)))) replies &&
  (if wellformed_request payload nts_valid
   then match replies with
        | [(rcv, rh, _)] => (rcv =? sender) && scion_back_to_sender req rh rev
        | [] => match rev with None => true | Some _ => false end  (* no way back: nothing can be sent *)
        | _ => false
        end
   else match replies with [] => true | _ => false end).

(* ---- every packet a SCION listener socket receives, not only those addressed to it ----
   "It sends no NTP reply for any other payload": a packet whose host addresses cannot be
   read, or whose L4 destination port is not the listener's, is not a request to the
   listener at all and gets no reply.  One case is not silence: a well-addressed packet for
   another L4 port that came in through the end-host port (30041) is relayed to that port on
   the destination host (the dispatcher rule); what is then seen is the packet's own payload
   on its way to somebody else, at most once - not a reply. *)
Definition scion_addressed (conn_port local_port : Z) (h : scion_hdr) : bool :=
  addr_ok (h_src_raw h) && addr_ok (h_dst_raw h) && (h_udp_dst h =? local_port) && negb (local_port =? endhost_port).

Definition scion_forwarded (conn_port local_port : Z) (h : scion_hdr) : bool :=
  addr_ok (h_src_raw h) && addr_ok (h_dst_raw h) && negb (h_udp_dst h =? local_port) &&
  (conn_port =? endhost_port) && negb (h_udp_dst h =? endhost_port).

Definition C09_scion_any_ok (sender conn_port local_port : Z) (req : scion_hdr) (payload : list Z)
  (nts_valid : bool) (rev : option (Z * list Z)) (seen : list (Z * scion_hdr * list Z)) : bool :=
  if scion_addressed conn_port local_port req then C09_scion_ok sender req payload nts_valid rev seen
  else if scion_forwarded conn_port local_port req then
    match seen with
    | [] => true
    | [(_, _, r)] => list_eqb r payload
    | _ => false
    end
  else match seen with [] => true | _ => false end.

(* ---- the reply answers this request ----
   "one NTP reply ... for each ... request": the reply belongs to the request it is sent for.
   Its origin timestamp is the request's transmit timestamp (basic mode) or, for a follow-up
   request in interleaved mode, the request's receive timestamp; a plain 48-byte request gets
   a plain 48-byte reply, a request with NTS extension fields gets a reply that carries
   extension fields too. *)
Definition slice (b : list Z) (i n : nat) : list Z := firstn n (skipn i b).

Definition reply_pairs_ok (payload r : list Z) : bool :=
  (list_eqb (slice r 24 8) (slice payload 40 8) || list_eqb (slice r 24 8) (slice payload 32 8)) &&
  (if zlen payload =? 48 then zlen r =? 48 else 48 <? zlen r).

Definition C09_pairs_ok (payload : list Z) (replies : list (Z * list Z)) : bool :=
  forallb (fun r => reply_pairs_ok payload (snd r)) replies.

(* bursts: the replies belong to the well-formed requests, first to first *)
Fixpoint C09_burst_pairs_ok (ps : list (list Z * bool)) (reps : list (Z * list Z)) : bool :=
  match ps with
  | [] => true
  | (p, n) :: ps' =>
      if wellformed_request p n then
        match reps with
        | r :: reps' => reply_pairs_ok p (snd r) && C09_burst_pairs_ok ps' reps'
        | [] => true
        end
      else C09_burst_pairs_ok ps' reps
  end.

(* ---- SCION packet authenticator (SPAO) ----
   A request that carries a client's packet authenticator whose MAC does not verify is not a
   valid request to the listener: it gets no reply (the clause proper is C13's; here it is the
   "sends no NTP reply for any other" side of this property).  A packet that is merely
   relayed is not authenticated by the relay. *)
Definition C09_scion_auth_ok (bad_mac : bool) (sender conn_port local_port : Z) (req : scion_hdr)
  (payload : list Z) (nts_valid : bool) (rev : option (Z * list Z)) (seen : list (Z * scion_hdr * list Z)) : bool :=
  if bad_mac && scion_addressed conn_port local_port req
  then match seen with [] => true | _ => false end
  else C09_scion_any_ok sender conn_port local_port req payload nts_valid rev seen.

(* ---- the SCION/UDP length field ----
   slayers.UDP.DecodeFromBytes (a copy of gopacket's): what the UDP layer hands to the listener
   as payload, from the length field and the bytes that follow the 8-byte UDP header: a field
   of at least 8 cuts the payload at that length (or at the end of the data, if the field
   claims more), 0 means "the entire rest of the data" (jumbogram), 1..7 does not decode.
   runSCIONServer then drops the packet if the field exceeds the length of the whole datagram.
   The listener decides on len(udpLayer.Payload), never on the field. *)
Definition udp_payload (len_field : Z) (after_hdr : list Z) : option (list Z) :=
  if 8 <=? len_field then Some (firstn (Z.to_nat (len_field - 8)) after_hdr)
  else if len_field =? 0 then Some after_hdr
  else None.

Definition scion_udp_payload (datagram_len len_field : Z) (after_hdr : list Z) : option (list Z) :=
  if datagram_len <? len_field then None else udp_payload len_field after_hdr.

(* the property's "UDP payload", from the definition of UDP: the length field counts header
   and payload (0: everything that follows, RFC 2675); a field below 8, or one that claims
   more bytes than are there, does not delimit a payload at all *)
Definition udp_payload_spec (len_field : Z) (after_hdr : list Z) : option (list Z) :=
  if len_field =? 0 then Some after_hdr
  else if (8 <=? len_field) && (len_field <=? 8 + zlen after_hdr)
       then Some (firstn (Z.to_nat (len_field - 8)) after_hdr)
       else None.
