(* Model of core/client/client.go MeasureClockOffsetSCION and of the part of
   core/client/client_scion.go that carries a SCION client's interleaved-mode
   state from one exchange to the next (prev.reference, prev.interleaved,
   prev.path; InInterleavedMode, InterleavedModePath, ResetInterleavedMode).

   Paths are identified by their index in the offered slice `ps`; `fps` gives
   the fingerprint of every offered path (an integer id; 0 is the empty
   fingerprint of a path without metadata).  Two offered paths may have the same
   fingerprint. *)
From ST Require Import Base.Ints Base.Sorting Model.NtpTime Model.Ftm Model.Sample.
Open Scope Z_scope.

(* ---- client state ---- *)
Record cstate := {
  cs_en : bool;     (* SCIONClient.InterleavedMode (configuration) *)
  cs_ref : bool;    (* prev.reference <> "" *)
  cs_il : bool;     (* prev.interleaved *)
  cs_fp : Z;        (* prev.path *)
  cs_old : bool }.  (* prev.cTxTime is 3 s old or older: the next request is in basic form whatever prev says *)

Definition in_ilv (c : cstate) : bool := cs_en c && cs_ref c && cs_il c.       (* InInterleavedMode() *)
Definition ilv_path (c : cstate) : Z := if in_ilv c then cs_fp c else 0.        (* InterleavedModePath() *)
Definition reset_client (c : cstate) : cstate :=                                (* ResetInterleavedMode() *)
  {| cs_en := cs_en c; cs_ref := false; cs_il := cs_il c; cs_fp := cs_fp c; cs_old := cs_old c |}.
Definition fresh_client (en : bool) : cstate :=
  {| cs_en := en; cs_ref := false; cs_il := false; cs_fp := 0; cs_old := false |}.
(* 3 s or more pass without an exchange *)
Definition age_client (c : cstate) : cstate :=
  {| cs_en := cs_en c; cs_ref := cs_ref c; cs_il := cs_il c; cs_fp := cs_fp c; cs_old := true |}.

(* ---- first loop: sticky assignment with swap-remove ---- *)
Definition fp_of (fps : list Z) (p : nat) : Z := nth p fps (-1).

(* for j := range len(ps) { if Fingerprint(ps[j]) == pf { ... break } } : first position *)
Fixpoint find_fp (fps : list Z) (f : Z) (ps : list nat) : option nat :=
  match ps with
  | [] => None
  | p :: r => if fp_of fps p =? f then Some O
              else match find_fp fps f r with Some j => Some (S j) | None => None end
  end.

(* ps[j] = ps[len(ps)-1]; ps = ps[:len(ps)-1] *)
Fixpoint swap_remove (j : nat) (ps : list nat) : list nat :=
  match ps with
  | [] => []
  | p :: r =>
      match j with
      | O => match r with [] => [] | _ :: _ => last r O :: removelast r end
      | S j' => p :: swap_remove j' r
      end
  end.

(* result: sps (the path kept by each client, None = nil) and what is left of ps *)
Fixpoint sticky (fps : list Z) (cs : list cstate) (ps : list nat) : list (option nat) * list nat :=
  match cs with
  | [] => ([], ps)
  | c :: r =>
      match (if in_ilv c then find_fp fps (cs_fp c) ps else None) with
      | Some j => let '(sps, ps') := sticky fps r (swap_remove j ps) in (Some (nth j ps O) :: sps, ps')
      | None => let '(sps, ps') := sticky fps r ps in (None :: sps, ps')
      end
  end.

Definition is_none {A} (o : option A) : bool := match o with None => true | Some _ => false end.
Definition is_some {A} (o : option A) : bool := match o with None => false | Some _ => true end.
Definition count_some {A} (l : list (option A)) : nat := length (filter is_some l).

(* ---- crypto.Sample's callback: ps[dst] = ps[src] ---- *)
Fixpoint set_nth {A} (j : nat) (x : A) (l : list A) : list A :=
  match l with
  | [] => []
  | y :: r => match j with O => x :: r | S j' => y :: set_nth j' x r end
  end.
Definition apply_pick (ps : list nat) (pk : Z * Z) : list nat :=
  set_nth (Z.to_nat (fst pk)) (nth (Z.to_nat (snd pk)) ps O) ps.

(* for i, j := 0, 0; j != n; j++ { for sps[i] != nil { i++ }; sps[i] = ps[j] } *)
Fixpoint fill (sps : list (option nat)) (qs : list nat) : list (option nat) :=
  match sps with
  | [] => []
  | Some p :: r => Some p :: fill r qs
  | None :: r => match qs with [] => None :: fill r [] | q :: qs' => Some q :: fill r qs' end
  end.

Inductive assign_res :=
| AOk (asg : list (option nat)) (resets : list bool) (rest : list Z)  (* path of every client; who was reset (client and filter) *)
| ANoPath (resets : list bool) (rest : list Z)                        (* errNoPath *)
| AErr (resets : list bool)                                           (* error of the random generator / context *)
| APanic
| AHang.

Definition assign (fps : list Z) (cs : list cstate) (c : bool) (d : Z) (tape : list Z) : assign_res :=
  let '(sps, ps1) := sticky fps cs (seq 0 (length fps)) in
  let resets := map is_none sps in
  let nsps := Z.of_nat (count_some sps) in
  match sample (Z.of_nat (length sps) - nsps) (Z.of_nat (length ps1)) c d tape with
  | Ok (n, picks, rest) =>
      if nsps + n =? 0 then ANoPath resets rest
      else AOk (fill sps (firstn (Z.to_nat n) (fold_left apply_pick picks ps1))) resets rest
  | Err => AErr resets
  | Panic => APanic
  | Hang => AHang
  end.

(* ---- the exchanges of one client in one round (client_scion.go, state part) ----
   The scripted peer answers every request in one of three ways. *)
Inductive pmode := PN    (* conformant: interleaved reply to an interleaved request, basic otherwise *)
                 | PB    (* always a basic-mode reply *)
                 | PF    (* a reply the client rejects (metadata check); no state change *)
                 | PS.   (* no reply: the client waits until the context of the round ends; nothing is sent afterwards *)

(* one exchange over a path with fingerprint pfp: new state, accepted?, was the request in interleaved form?
   (same server as before; the request is in interleaved form if the previous exchange is less than 3 s old) *)
Definition req_form (s : cstate) : bool := cs_en s && cs_ref s && negb (cs_old s).
Definition exch1 (s : cstate) (m : pmode) (pfp : Z) : cstate * bool * bool :=
  let ril := req_form s in
  let upd (il : bool) :=
    if cs_en s then {| cs_en := true; cs_ref := true; cs_il := il; cs_fp := pfp; cs_old := false |} else s in
  match m with
  | PF => (s, false, ril)
  | PS => (s, false, ril)
  | PN => (upd ril, true, ril)
  | PB => (upd false, true, ril)
  end.

(* up to n exchanges, stopping after the first accepted one that leaves the client in interleaved mode.
   ms: the peer's behaviour per request; vs: what the client's filter returns per accepted exchange.
   result: state, form of every request sent, values the filter returned, in order *)
Fixpoint exch_loop (n : nat) (s : cstate) (ms : list pmode) (vs : list Z) (pfp : Z)
  : cstate * list bool * list Z :=
  match n with
  | O => (s, [], [])
  | S n' =>
      let '(s1, ok, ril) := exch1 s (hd PN ms) pfp in
      if match hd PN ms with PS => true | _ => false end then (s1, [ril], [])   (* the context is over *)
      else if ok then
        if in_ilv s1 then (s1, [ril], [hd 0 vs])
        else let '(s2, rl, dl) := exch_loop n' s1 (tl ms) (tl vs) pfp in (s2, ril :: rl, hd 0 vs :: dl)
      else let '(s2, rl, dl) := exch_loop n' s1 (tl ms) vs pfp in (s2, ril :: rl, dl)
  end.

Definition n_exch (s : cstate) : nat := if cs_en s then 3%nat else 1%nat.

(* the Measurement a client's goroutine sends: Some offset (Error == nil; the offset of the last accepted
   exchange) or None (every exchange failed) *)
Definition client_value (dl : list Z) : option Z :=
  match rev dl with [] => None | v :: _ => Some v end.

(* ---- collection and the reported offset ----
   ms := make([]Measurement, nsps); n = collectMeasurements(...): the successful measurements fill ms[0..n) in
   arrival order; n == 0 gives errNoMeasurement, otherwise the result is FaultTolerantMidpoint(ms[:n]).
   `arrived` lists what the goroutines sent, in arrival order. *)
Definition measured (arrived : list (option Z)) : list Z :=
  flat_map (fun o => match o with Some v => [v] | None => [] end) arrived.

(* None = errNoMeasurement *)
Definition round_offset (arrived : list (option Z)) : option Z := ftm (measured arrived).

(* ---- a whole round over the states of all clients ---- *)
Record client_obs := {
  co_path : option nat;      (* the path its requests were sent over *)
  co_reset : bool;           (* ResetInterleavedMode + Filter.Reset at the start of the round *)
  co_reqs : list bool;       (* form of every request *)
  co_vals : list Z;          (* filter results *)
  co_post : cstate }.

Definition run_client (fps : list Z) (s : cstate) (rs : bool) (p : option nat) (ms : list pmode) (vs : list Z) : client_obs :=
  let s0 := if rs then reset_client s else s in
  match p with
  | None => {| co_path := None; co_reset := rs; co_reqs := []; co_vals := []; co_post := s0 |}
  | Some q =>
      let '(s1, rl, dl) := exch_loop (n_exch s0) s0 ms vs (fp_of fps q) in
      {| co_path := Some q; co_reset := rs; co_reqs := rl; co_vals := dl; co_post := s1 |}
  end.

(* a client that gets its path from the sampling step was reset before *)
Fixpoint run_clients (fps : list Z) (cs : list cstate) (asg : list (option nat)) (resets : list bool)
  (mss : list (list pmode)) (vss : list (list Z)) : list client_obs :=
  match cs, asg, resets with
  | s :: cs', p :: asg', rs :: resets' =>
      run_client fps s rs p (hd [] mss) (hd [] vss) :: run_clients fps cs' asg' resets' (tl mss) (tl vss)
  | _, _, _ => []
  end.

Inductive round_res :=
| ROk (obs : list client_obs) (off : Z) (rest : list Z)
| RNoMeas (obs : list client_obs) (rest : list Z)                      (* errNoMeasurement *)
| RNoPath (post : list cstate) (resets : list bool) (rest : list Z)
| RErr (post : list cstate) (resets : list bool)   (* RandIntn returns the context's error: nobody probes; the resets are done *)
| RFail.      (* panic, hang: not driven through histories *)

Definition participants (obs : list client_obs) : list client_obs := filter (fun o => is_some (co_path o)) obs.

Definition post_reset (cs : list cstate) (resets : list bool) : list cstate :=
  map (fun sr : cstate * bool => if snd sr then reset_client (fst sr) else fst sr) (combine cs resets).

(* c: the context is already cancelled when the round starts *)
Definition run_round_c (c : bool) (fps : list Z) (cs : list cstate) (d : Z) (tape : list Z)
  (mss : list (list pmode)) (vss : list (list Z)) : round_res :=
  match assign fps cs c d tape with
  | AOk asg resets rest =>
      let obs := run_clients fps cs asg resets mss vss in
      match round_offset (map (fun o => client_value (co_vals o)) (participants obs)) with
      | Some off => ROk obs off rest
      | None => RNoMeas obs rest
      end
  | ANoPath resets rest => RNoPath (post_reset cs resets) resets rest
  | AErr resets => RErr (post_reset cs resets) resets
  | _ => RFail
  end.

Definition run_round := run_round_c false.

(* ---- the context ends before every participant has delivered ----
   collectMeasurements leaves its loop at ctx.Done: `arrived` (in arrival order) is cut after the first `cut`
   deliveries; FaultTolerantMidpoint is taken over the successful ones among them. *)
Definition round_offset_cut (arrived : list (option Z)) (cut : nat) : option Z := round_offset (firstn cut arrived).
