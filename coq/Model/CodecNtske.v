(* Model of net/ntske/ntske.go: record packing (ExchangeMsg.Pack and the pack methods)
   and ReadData over a byte stream that the transport delivers in arbitrary pieces.
   No proofs here. *)
From ST Require Import Base.Ints Base.Bytes.
Open Scope Z_scope.

(* ---------- records and their wire format ---------- *)

Inductive ke_record :=
| RNextProto (v : Z)                         (* type 1, critical, body uint16 *)
| REnd                                       (* type 0, critical, empty body *)
| RServer (addr : list Z) (critical : bool)  (* type 6, body = address bytes *)
| RPort (port : Z) (critical : bool)         (* type 7, body uint16 *)
| RCookie (c : list Z)                       (* type 5, not critical, body = cookie *)
| RWarning (code : Z)                        (* type 3, critical, body uint16 *)
| RError (code : Z)                          (* type 2, critical, body uint16 *)
| RAlgorithm (algos : list Z)                (* type 4, critical, body = uint16 list *)
| RUnknown (ty : Z) (body : list Z).         (* a record type this code does not know, not critical
                                                (no pack method: written by other implementations) *)

Definition rec_eom := 0. Definition rec_nextproto := 1. Definition rec_error := 2.
Definition rec_warning := 3. Definition rec_aead := 4. Definition rec_cookie := 5.
Definition rec_server := 6. Definition rec_port := 7.

(* packheader: type with bit 15 set when critical; BodyLen = uint16(len(body)) *)
Definition pack_header (t : Z) (critical : bool) (bodylen : nat) : list Z :=
  be_enc 2 (if critical then Z.lor t 32768 else t) ++ be_enc 2 (u16 (Z.of_nat bodylen)).

Definition pack_simple (t : Z) (critical : bool) (body : list Z) : list Z :=
  pack_header t critical (length body) ++ body.

Definition pack_record (r : ke_record) : list Z :=
  match r with
  | RNextProto v => pack_simple rec_nextproto true (be_enc 2 v)
  | REnd => pack_header rec_eom true 0
  | RServer a c => pack_simple rec_server c a
  | RPort p c => pack_simple rec_port c (be_enc 2 p)
  | RCookie c => pack_simple rec_cookie false c
  | RWarning x => pack_simple rec_warning true (be_enc 2 x)
  | RError x => pack_simple rec_error true (be_enc 2 x)
  | RAlgorithm l => pack_simple rec_aead true (flat_map (be_enc 2) l)
  | RUnknown ty body => pack_simple ty false body
  end.

(* ExchangeMsg.Pack *)
Definition pack_msg (rs : list ke_record) : list Z := flat_map pack_record rs.

(* ---------- the part of ntske.Data that ReadData assigns ---------- *)

Record ke_data := { kd_algo : Z; kd_server : list Z; kd_port : Z; kd_cookies : list (list Z) }.

Definition kd_set_algo d a := {| kd_algo := a; kd_server := kd_server d; kd_port := kd_port d; kd_cookies := kd_cookies d |}.
Definition kd_set_server d s := {| kd_algo := kd_algo d; kd_server := s; kd_port := kd_port d; kd_cookies := kd_cookies d |}.
Definition kd_set_port d p := {| kd_algo := kd_algo d; kd_server := kd_server d; kd_port := p; kd_cookies := kd_cookies d |}.
Definition kd_add_cookie d c := {| kd_algo := kd_algo d; kd_server := kd_server d; kd_port := kd_port d; kd_cookies := kd_cookies d ++ [c] |}.

(* error classes of ReadData *)
Definition e_eof := 1.            (* io.EOF: stream ends at a record boundary *)
Definition e_unexpected := 2.     (* io.ErrUnexpectedEOF: stream ends inside a header or body *)
Definition e_msg_critical := 3.   (* Error record, code 0 *)
Definition e_msg_badreq := 4.     (* Error record, code 1 *)
Definition e_msg_internal := 5.   (* Error record, code 2 *)
Definition e_msg_unknown := 6.    (* Error record, other code *)
Definition e_unknown_critical := 7. (* unknown record type with the critical bit *)
Definition e_fuel := 99.

(* ---------- ReadData, generic in how n bytes are obtained from the reader ---------- *)

Section ReadData.
  Variable R : Type.
  (* rf n r: io.ReadFull of n bytes (also what binary.Read does): the bytes and the reader
     after them, or Err e_eof / Err e_unexpected *)
  Variable rf : nat -> R -> outcome (list Z * R).
  (* rc n r: how the body of a cookie record is read (io.ReadFull in the current code) *)
  Variable rc : nat -> R -> outcome (list Z * R).
  (* the reader after a read that failed: io.ReadFull fails only at the end of the stream,
     having consumed whatever was left *)
  Variable drained : R -> R.

  Definition err_of {A} (o : outcome A) : Z :=
    match o with Ok _ => 0 | Err c => c | Panic => 98 | OutOfFuel => e_fuel end.

  (* one iteration of the loop: Some (reader, data) to continue, None + result to return *)
  Fixpoint read_data (fuel : nat) (r : R) (d : ke_data) : ke_data * Z * R :=
    match fuel with
    | O => (d, e_fuel, r)
    | S fuel' =>
      match rf 4 r with
      | Ok (h, r1) =>
        let ty := be_dec (firstn 2 h) in
        let blen := Z.to_nat (be_dec (skipn 2 h)) in
        let critical := Z.testbit ty 15 in
        let t := Z.land ty 32767 in
        if t =? rec_eom then (d, 0, r1)
        else if t =? rec_nextproto then
          match rf 2 r1 with Ok (_, r2) => read_data fuel' r2 d | o => (d, err_of o, drained r1) end
        else if t =? rec_aead then
          match rf 2 r1 with Ok (v, r2) => read_data fuel' r2 (kd_set_algo d (be_dec v)) | o => (d, err_of o, drained r1) end
        else if t =? rec_cookie then
          match rc blen r1 with Ok (c, r2) => read_data fuel' r2 (kd_add_cookie d c) | o => (d, err_of o, drained r1) end
        else if t =? rec_server then
          match rf blen r1 with Ok (a, r2) => read_data fuel' r2 (kd_set_server d a) | o => (d, err_of o, drained r1) end
        else if t =? rec_port then
          match rf 2 r1 with Ok (v, r2) => read_data fuel' r2 (kd_set_port d (be_dec v)) | o => (d, err_of o, drained r1) end
        else if t =? rec_error then
          match rf 2 r1 with
          | Ok (v, r2) => let code := be_dec v in
                          (d, (if code =? 0 then e_msg_critical else if code =? 1 then e_msg_badreq
                               else if code =? 2 then e_msg_internal else e_msg_unknown), r2)
          | o => (d, err_of o, drained r1) end
        else if critical then (d, e_unknown_critical, r1)
        else match rf blen r1 with Ok (_, r2) => read_data fuel' r2 d | o => (d, err_of o, drained r1) end
      | o => (d, err_of o, drained r)
      end
    end.
End ReadData.

(* ---------- the stream seen as a whole ---------- *)

Definition rf_flat (n : nat) (s : list Z) : outcome (list Z * list Z) :=
  if (n <=? length s)%nat then Ok (firstn n s, skipn n s)
  else match s with [] => Err e_eof | _ => Err e_unexpected end.

(* every iteration consumes a 4-byte header: length s / 4 + 1 iterations suffice *)
Definition read_data_flat (s : list Z) (d : ke_data) : ke_data * Z * list Z :=
  read_data (list Z) rf_flat rf_flat (fun _ => []) (S (length s)) s d.

(* ---------- the stream delivered in pieces ----------
   The reader (bufio.Reader on top of the TLS/QUIC stream) answers a Read of up to m > 0
   bytes with a non-empty prefix of what is left, of a length the transport chooses: the
   schedule lists the choices (c means c+1 bytes; when it runs out everything asked for is
   delivered); at the end of the stream a Read returns nothing (EOF). *)
Record reader := { rd_rest : list Z; rd_sched : list nat }.

Definition rd_read (m : nat) (r : reader) : list Z * reader :=
  match rd_sched r with
  | [] => (firstn m (rd_rest r), {| rd_rest := skipn m (rd_rest r); rd_sched := [] |})
  | c :: sch => let k := Nat.min m (S c) in
                (firstn k (rd_rest r), {| rd_rest := skipn k (rd_rest r); rd_sched := sch |})
  end.

(* io.ReadFull / io.ReadAtLeast: Read until n bytes have arrived; EOF before the first byte
   is io.EOF, after it io.ErrUnexpectedEOF.  Fuel: every Read delivers at least one byte. *)
Fixpoint rf_loop (fuel : nat) (n : nat) (acc : list Z) (r : reader) : outcome (list Z * reader) :=
  match n with
  | O => Ok (acc, r)
  | _ =>
    match fuel with
    | O => OutOfFuel
    | S fuel' =>
      let '(got, r') := rd_read n r in
      match got with
      | [] => match acc with [] => Err e_eof | _ => Err e_unexpected end
      | _ => rf_loop fuel' (n - length got) (acc ++ got) r'
      end
    end
  end.
Definition rf_chunked (n : nat) (r : reader) : outcome (list Z * reader) := rf_loop n n [] r.

Definition rd_drained (r : reader) : reader := {| rd_rest := []; rd_sched := rd_sched r |}.

Definition read_data_chunked (r : reader) (d : ke_data) : ke_data * Z * reader :=
  read_data reader rf_chunked rf_chunked rd_drained (S (length (rd_rest r))) r d.

(* the cookie body as the code read it before commit 0924366: one Read into a buffer of
   the announced length; whatever did not arrive stays zero and stays in the stream *)
Definition rc_single (n : nat) (r : reader) : outcome (list Z * reader) :=
  match n with
  | O => Ok ([], r)
  | _ => let '(got, r') := rd_read n r in
         match got with [] => Err e_eof | _ => Ok (zpad n got, r') end
  end.
Definition read_data_chunked_pinned (r : reader) (d : ke_data) : ke_data * Z * reader :=
  read_data reader rf_chunked rc_single rd_drained (S (length (rd_rest r))) r d.

(* ---------- what a record list means for Data (specification side) ---------- *)

Definition canonical (r : ke_record) : bool :=
  match r with
  | RNextProto v => (0 <=? v) && (v <? 65536)
  | RServer a _ => bytes_okb a && (Z.of_nat (length a) <? 65536)
  | RPort p _ => (0 <=? p) && (p <? 65536)
  | RCookie c => bytes_okb c && (Z.of_nat (length c) <? 65536)
  | RAlgorithm [a] => (0 <=? a) && (a <? 65536)
  | RUnknown ty body => (8 <=? ty) && (ty <? 32768) && bytes_okb body && (Z.of_nat (length body) <? 65536)
  | _ => false
  end.

Definition apply_record (d : ke_data) (r : ke_record) : ke_data :=
  match r with
  | RAlgorithm [a] => kd_set_algo d a
  | RServer a _ => kd_set_server d a
  | RPort p _ => kd_set_port d p
  | RCookie c => kd_add_cookie d c
  | _ => d
  end.

(* ---------- property oracle pieces ---------- *)

Fixpoint list_eqb_z (a b : list Z) : bool :=
  match a, b with
  | [], [] => true
  | x :: a', y :: b' => (x =? y) && list_eqb_z a' b'
  | _, _ => false
  end.
Fixpoint zll_eqb (a b : list (list Z)) : bool :=
  match a, b with
  | [], [] => true
  | x :: a', y :: b' => list_eqb_z x y && zll_eqb a' b'
  | _, _ => false
  end.

Definition kd_eqb (a b : ke_data) : bool :=
  (kd_algo a =? kd_algo b) && list_eqb_z (kd_server a) (kd_server b) && (kd_port a =? kd_port b)
  && zll_eqb (kd_cookies a) (kd_cookies b).

(* all segmentations gave the same data and the same error class *)
Fixpoint C14_same_results (first : ke_data * Z) (others : list (ke_data * Z)) : bool :=
  match others with
  | [] => true
  | (d, e) :: r => kd_eqb (fst first) d && (snd first =? e) && C14_same_results first r
  end.

(* a canonical record list followed by End decodes, with no error, to the data it spells *)
Definition C14_records_ok (rs : list ke_record) (d0 d : ke_data) (err : Z) : bool :=
  (err =? 0) && kd_eqb d (fold_left apply_record rs d0).

(* ---------- record-level meaning of a message (specification side, from RFC 8915 and the
   property text; no bytes involved) ----------
   ke_spec rs d = Some (data, error class, records left for the next call): records in order;
   End ends the message; an Error record ends it with the class of its code; a Warning record is
   of a type ReadData does not know and carries the critical bit: error; a record list that
   just stops is the end of the stream (io.EOF).  None: no claim (a record outside `canonical`,
   e.g. an Algorithm record with several entries). *)
Definition error_class (x : Z) : Z :=
  if x =? 0 then e_msg_critical else if x =? 1 then e_msg_badreq else if x =? 2 then e_msg_internal else e_msg_unknown.

Fixpoint ke_spec (rs : list ke_record) (d : ke_data) : option (ke_data * Z * list ke_record) :=
  match rs with
  | [] => Some (d, e_eof, [])
  | REnd :: r => Some (d, 0, r)
  | RError x :: r => if (0 <=? x) && (x <? 65536) then Some (d, error_class x, r) else None
  | RWarning x :: r => if (0 <=? x) && (x <? 65536) then Some (d, e_unknown_critical, r) else None
  | x :: r => if canonical x then ke_spec r (apply_record d x) else None
  end.

(* what the decoder keeps of a record: the NextProto value, the critical bits of Server and Port
   and the body of an unknown record are discarded (Data has no field for them) *)
Inductive rec_info := IAlgo (a : Z) | IServer (a : list Z) | IPort (p : Z) | ICookie (c : list Z) | INone.
Definition info_of (r : ke_record) : rec_info :=
  match r with
  | RAlgorithm [a] => IAlgo a
  | RServer a _ => IServer a
  | RPort p _ => IPort p
  | RCookie c => ICookie c
  | _ => INone
  end.

(* the records that spell a Data value *)
Definition data_records (d : ke_data) : list ke_record :=
  [RNextProto 0; RAlgorithm [kd_algo d]; RServer (kd_server d) false; RPort (kd_port d) false]
  ++ map RCookie (kd_cookies d).

Definition kd_wf (d : ke_data) : Prop :=
  (0 <= kd_algo d < 65536) /\ (0 <= kd_port d < 65536) /\
  bytes_ok (kd_server d) /\ (Z.of_nat (length (kd_server d)) < 65536) /\
  Forall (fun c => bytes_ok c /\ (Z.of_nat (length c) < 65536)) (kd_cookies d).
