(* Model of net/ntp/ntp.go: Time64 conversion, ordering, offset arithmetic.
   A time.Time is the pair (Unix seconds, nanosecond in [0,1e9)) packed as
   one unbounded Z of nanoseconds since the Unix epoch. *)
From ST Require Import Base.Ints.
Open Scope Z_scope.

Definition ntp_epoch : Z := -2208988800.
Definition nanos_per_sec : Z := 1000000000.
Definition secs_per_era : Z := 4294967296.

Definition time_sec (t : Z) : Z := t / nanos_per_sec.        (* t.Unix(): floor *)
Definition time_nsec (t : Z) : Z := t mod nanos_per_sec.     (* t.Nanosecond() *)
Definition mk_time (sec nsec : Z) : Z := sec * nanos_per_sec + nsec.

Record time64 := { t64_sec : Z; t64_frac : Z }.

(* ntp.Time64FromTime *)
Definition time64_of_time (t : Z) : time64 :=
  {| t64_sec := u32 (i64 (time_sec t - ntp_epoch));
     t64_frac := u32 (go_div (i64 (time_nsec t * 4294967296)) nanos_per_sec) |}.

(* ntp.TimeFromTime64, with both era-unfolding branches *)
Definition unfold_sec (s tref : Z) : Z :=
  let sec := i64 (ntp_epoch + i64 (go_div (i64 (tref - ntp_epoch)) secs_per_era * secs_per_era) + s) in
  if sec <? tref - go_div secs_per_era 2 then i64 (sec + secs_per_era)
  else if tref + go_div secs_per_era 2 <=? sec then i64 (sec - secs_per_era)
  else sec.

(* the pinned revision of the code only had the first branch *)
Definition unfold_sec_pinned (s tref : Z) : Z :=
  let sec := i64 (ntp_epoch + i64 (go_div (i64 (tref - ntp_epoch)) secs_per_era * secs_per_era) + s) in
  if sec <? tref - go_div secs_per_era 2 then i64 (sec + secs_per_era) else sec.

Definition nsec_of_frac (f : Z) : Z := Z.shiftr (i64 (f * nanos_per_sec)) 32.

Definition time_of_time64 (x : time64) (t0 : Z) : Z :=
  mk_time (unfold_sec (t64_sec x) (time_sec t0)) (nsec_of_frac (t64_frac x)).

Definition time_of_time64_pinned (x : time64) (t0 : Z) : Z :=
  mk_time (unfold_sec_pinned (t64_sec x) (time_sec t0)) (nsec_of_frac (t64_frac x)).

Definition t64_before (t u : time64) : bool :=
  (t64_sec t <? t64_sec u) || ((t64_sec t =? t64_sec u) && (t64_frac t <? t64_frac u)).
Definition t64_after (t u : time64) : bool :=
  (t64_sec u <? t64_sec t) || ((t64_sec t =? t64_sec u) && (t64_frac u <? t64_frac t)).
Definition t64_eqb (t u : time64) : bool :=
  (t64_sec t =? t64_sec u) && (t64_frac t =? t64_frac u).

(* one number per Time64, so that Before is < *)
Definition t64_num (t : time64) : Z := t64_sec t * 4294967296 + t64_frac t.

(* time.Time.Sub saturates; time.Duration is int64 *)
Definition time_sub (t u : Z) : Z := sat64 (t - u).

(* ntp.ClockOffset / ntp.RoundTripDelay *)
Definition clock_offset (t0 t1 t2 t3 : Z) : Z :=
  go_div (i64 (time_sub t1 t0 + time_sub t2 t3)) 2.
Definition round_trip_delay (t0 t1 t2 t3 : Z) : Z :=
  i64 (time_sub t3 t0 - time_sub t2 t1).

(* the window of the property, at the granularity the code uses the
   reference time (whole seconds) *)
Definition in_window (t tref : Z) : Prop :=
  - 2147483648 <= time_sec t - time_sec tref < 2147483648.
Definition in_windowb (t tref : Z) : bool :=
  (- 2147483648 <=? time_sec t - time_sec tref) && (time_sec t - time_sec tref <? 2147483648).

(* Property oracle for C04, written from the property text: converting to a
   Time64 and back relative to a reference within the window returns a time
   not later than the original and at most 1 ns earlier. *)
Definition C04_roundtrip_ok (t tref back : Z) : bool :=
  if in_windowb t tref && (0 <=? time_sec tref) then (t - 1 <=? back) && (back <=? t) else true.
Definition C04_order_ok (t1 t2 tref back1 back2 : Z) : bool :=
  if in_windowb t1 tref && in_windowb t2 tref && (0 <=? time_sec tref) && (t1 <=? t2)
  then back1 <=? back2 else true.

(* The window of the property taken literally, at nanosecond granularity:
   -2^31 s <= t - tref < 2^31 s.  It differs from the whole-second window the
   code uses by the band [time_sec t - time_sec tref = 2^31 and nsec t < nsec tref]
   at the upper edge (inside the literal window, mis-unfolded by the code) and the
   mirror band at the lower edge (outside the literal window). *)
Definition in_window_ns (t tref : Z) : Prop :=
  - 2147483648 * nanos_per_sec <= t - tref < 2147483648 * nanos_per_sec.
Definition in_window_nsb (t tref : Z) : bool :=
  (- 2147483648 * nanos_per_sec <=? t - tref) && (t - tref <? 2147483648 * nanos_per_sec).
Definition C04_roundtrip_ns_ok (t tref back : Z) : bool :=
  if in_window_nsb t tref && (0 <=? time_sec tref) then (t - 1 <=? back) && (back <=? t) else true.

(* Oracle for the decoding direction (all 2^32 seconds fields, all 2^32 fractions), written from
   the property text in plain integer arithmetic and demanding no more than it: the decoded time
   lies in the reference's window and names the timestamp's seconds modulo an era (every seconds
   field is the image of a time in the window, which the round trip must give back); and when the
   fraction is the image of a nanosecond value n (n = ceil(f*10^9/2^32) converts to f), the decoded
   nanosecond is n or n - 1 (round trip: never later, at most 1 ns earlier).  Fractions that no
   nanosecond value converts to are not constrained by the property. *)
Definition C04_decode_ok (s f tref back : Z) : bool :=
  if (0 <=? time_sec tref) && (time_sec tref <? 1152921504606846976) then
    (- 2147483648 <=? time_sec back - time_sec tref) && (time_sec back - time_sec tref <? 2147483648)
    && ((time_sec back - ntp_epoch) mod 4294967296 =? s)
    && (let n := (f * 1000000000 + 4294967295) / 4294967296 in
        if (n <? 1000000000) && (n * 4294967296 / 1000000000 =? f)
        then (n - 1 <=? time_nsec back) && (time_nsec back <=? n) else true)
  else true.
