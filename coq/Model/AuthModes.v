(* Model of the part of timeservice.go (createClocks, newNTPReferenceClockIP,
   newNTPReferenceClockSCION, configureIPClientNTS, configureSCIONClientNTS)
   that turns the configuration key auth_modes into the authentication flags of
   the NTP clients the service measures with, and the oracle of C05 for it:
   "when NTS is enabled" - by configuration - every client must have it on.
   No proofs here. *)
From Coq Require Import ZArith List Bool.
Import ListNotations.
Open Scope Z_scope.

(* auth_modes entries: 1 = "nts", 2 = "spao", anything else = a string the service does not know *)
Definition mode_nts : Z := 1.
Definition mode_spao : Z := 2.

(* slices.Contains(authModes, m) *)
Definition has_mode (m : Z) (modes : list Z) : bool := existsb (Z.eqb m) modes.

(* what the wiring hook shows of one client *)
Record aclient := {
  a_auth : bool;     (* Auth.Enabled: IP client = NTS, SCION client = packet authenticator (DRKey) *)
  a_nts : bool;      (* NTS enabled: IP client Auth.Enabled, SCION client Auth.NTSEnabled *)
  a_ke : Z;          (* NTS-KE fetcher: 0 = port and TLS server name unset, 1 = those of the clock's configured
                        remote address, 2 = anything else *)
  a_quic : bool;     (* the fetcher does its key exchange over QUIC/SCION *)
  a_drkey : bool     (* a DRKey fetcher is set *)
}.

(* one client of a clock: scion = SCION clock (7 clients) / IP clock (1 client);
   daemon = scion_daemon_address is configured (the DRKey part of createClocks runs only then) *)
Definition wired_client (modes : list Z) (daemon scion : bool) : aclient :=
  let nts := has_mode mode_nts modes in
  let spao := has_mode mode_spao modes && daemon in
  if scion then
    {| a_auth := spao; a_nts := nts; a_ke := if nts then 1 else 0; a_quic := nts; a_drkey := spao |}
  else
    {| a_auth := nts; a_nts := nts; a_ke := if nts then 1 else 0; a_quic := false; a_drkey := false |}.

(* Oracle, from the property text: NTS is enabled by configuration iff "nts" is among
   auth_modes - wherever in the list, however often, whatever else is listed; then every
   client must have NTS on with a key-exchange fetcher for its server, so that a datagram
   that does not verify cannot yield an offset.  (More authentication than configured is
   not a violation.) *)
Definition C05_cfg_client_ok (modes : list Z) (c : aclient) : bool :=
  if has_mode mode_nts modes then a_nts c && (a_ke c =? 1) else true.
Definition C05_cfg_ok (modes : list Z) (clients : list aclient) : bool :=
  forallb (C05_cfg_client_ok modes) clients.
