(* Model of the configuration path of the time service (timeservice.go clockDrift and syncConfig):
   the six TOML settings clock_drift, reference_clock_impact, peer_clock_impact, peer_clock_cutoff,
   sync_timeout, sync_interval (float64, seconds or plain factors; an omitted key is 0.0) become the
   configured drift of the SystemClock and the sync.Config handed to sync.Run.  No proofs here. *)
From ST Require Import Base.Ints Base.F64 Base.Value Base.Sorting Model.Sync.
From Coq Require Import ZArith Bool List.
Open Scope Z_scope.

Definition default_ref : f64 := f_of_bits 4608308318706860032.    (* 1.25 *)
Definition default_peer : f64 := f_of_bits 4612811918334230528.   (* 2.5 *)
Definition default_cutoff : Z := 50000.
Definition default_timeout : Z := 500000000.
Definition default_interval : Z := 1000000000.

Definition setting (o : option f64) : f64 := match o with Some x => x | None => fzero end.

(* clockDrift: None = logbase.Fatal; the value is in seconds per second, timemath.Duration turns it into ns per s
   (NaN, infinities and values beyond the int64 range become MinInt64, amd64 CVTTSD2SI).  The service refuses a
   drift that is not a number >= 0, and a non-zero drift that does not come to a positive number of ns per s
   (below 1 ns/s it would become 0 = clocks.UnknownDrift and void the bound; beyond the int64 range it is negative):
     d := timemath.Duration(cfg.ClockDrift)
     if !(cfg.ClockDrift >= 0) || (cfg.ClockDrift != 0 && d <= 0) { logbase.Fatal(...) } *)
Definition clock_drift (x : option f64) : option Z :=
  let v := setting x in
  let d := dur_of_seconds v in
  if negb (fge v fzero) || (negb (feq v fzero) && (d <=? 0)) then None else Some d.

Definition factor_or (x : option f64) (dflt : f64) : f64 := if feq (setting x) fzero then dflt else setting x.
Definition dur_or (x : option f64) (dflt : Z) : Z :=
  let d := dur_of_seconds (setting x) in if d =? 0 then dflt else d.

Definition sync_config (ref peer cutoff timeout interval : option f64) : config :=
  mkcfg (factor_or ref default_ref) (factor_or peer default_peer)
        (dur_or cutoff default_cutoff) (dur_or timeout default_timeout) (dur_or interval default_interval).

(* the exact value of a finite float64: x = m * 2^e *)
Definition f_exact (x : f64) : option (Z * Z) :=
  match x with
  | BinarySingleNaN.B754_zero _ => Some (0, 0)
  | BinarySingleNaN.B754_finite s m e _ => Some (if s then Z.neg m else Z.pos m, e)
  | _ => None
  end.

(* "the setting is in seconds (seconds per second for the drift), the service works in nanoseconds": n is x * 10^9 up
   to the float64 rounding of the product and the conversion to whole nanoseconds, |n - x * 10^9| <= 1 + 2^-52 * |x * 10^9|,
   judged when |x * 10^9| < 2^62 (beyond that, and for NaN and the infinities, the conversion to int64 is left to the
   model comparison).  In integers: x * 10^9 * 2^k = num * 2^j with k = max 0 (-e), j = max 0 e. *)
Definition scaled (x : f64) : option (Z * Z) :=   (* (x * 10^9 * 2^k, 2^k) *)
  match f_exact x with
  | Some (m, e) => Some (m * 1000000000 * 2 ^ (Z.max 0 e), 2 ^ (Z.max 0 (- e)))
  | None => None
  end.
Definition nanos_close (x : f64) (n : Z) : bool :=
  match scaled x with
  | Some (v, q) => if Z.abs v <? 2^62 * q then Z.abs (n * q - v) * 2^52 <=? q * 2^52 + Z.abs v else true
  | None => true
  end.
(* below one nanosecond in magnitude (this includes 0) *)
Definition sub_ns (x : f64) : bool :=
  match scaled x with Some (v, q) => Z.abs v <? q | None => false end.

(* a duration setting: a value that comes to 0 ns means "not configured" and takes the default *)
Definition dur_setting_ok (x : option f64) (dflt out : Z) : bool :=
  match x with
  | None => out =? dflt
  | Some x => ((out =? dflt) && sub_ns x) || (nanos_close x out && negb (out =? 0))
  end.

(* oracle for the configuration step, from the documentation of the settings: a negative drift is refused and
   nothing else is; omitted (or zero) settings take the documented defaults; factors that are given are handed
   on unchanged (bit for bit, NaN being one value); the drift and the three durations are given in seconds and
   arrive in nanoseconds *)
Definition same_f (a b : f64) : bool := f_to_bits a =? f_to_bits b.
(* at or beyond 2^62 ns (also: not finite) *)
Definition huge_ns (x : f64) : bool :=
  match scaled x with Some (v, q) => 2^62 * q <=? Z.abs v | None => true end.

(* The drift setting, from the property: "Settings that would void the bound are refused at start-up"; the bound is
   for a configured drift > 0.  A drift that is not a number >= 0 must be refused.  A positive drift must either
   arrive as a POSITIVE number of ns per s (x * 10^9 up to rounding) or be refused - and it may be refused only when
   it has no such value (below 1 ns/s, or beyond the range judged here).  0 (or nothing) configured is the
   documented "unknown drift" and arrives as 0. *)
Definition drift_setting_ok (x : f64) (fatal : bool) (odrift : Z) : bool :=
  if negb (fge x fzero) then fatal
  else if feq x fzero then negb fatal && (odrift =? 0)
  else if fatal then sub_ns x || huge_ns x
  else (0 <? odrift) && nanos_close x odrift.

Definition C01_config_ok (drift ref peer cutoff timeout interval : option f64)
           (fatal : bool) (odrift : Z) (oref opeer : f64) (ocutoff otimeout ointerval : Z) : bool :=
  drift_setting_ok (setting drift) fatal odrift &&
  (fatal ||
   (same_f oref (if feq (setting ref) fzero then default_ref else setting ref) &&
    same_f opeer (if feq (setting peer) fzero then default_peer else setting peer) &&
    dur_setting_ok cutoff default_cutoff ocutoff &&
    dur_setting_ok timeout default_timeout otimeout &&
    dur_setting_ok interval default_interval ointerval)).

(* ---- the service's wiring (timeservice.go runServer / runClient / createClocks) ---- *)

(* source-level tie (harness/cmd/c01/wiring.go): the observation is the list of rules that do not hold *)
Definition C01_wiring_ok {A : Type} (violated : list A) : bool := match violated with nil => true | _ => false end.

(* createClocks: the configured reference clocks (MBG, PHC, SHM, NTP servers) are the reference clocks,
   the configured SCION peers are the peers, nothing else and nothing twice; the order within a list is free *)
Definition C01_clocks_ok (cref cpeer : list Z) (ok : bool) (oref opeer : list Z) : bool :=
  ok && list_eqb Z.eqb (zsort oref) (zsort cref) && list_eqb Z.eqb (zsort opeer) (zsort cpeer).

(* SystemClock.Sleep(d): the bound of C01 is per round, and a round lasts one SyncInterval because Run sleeps
   for it: Sleep(d) must not return before d has passed (1/1000 + 50 us are allowed for the difference between the
   monotonic clock that measures and CLOCK_REALTIME that Sleep waits on), must return (within a generous 10 s),
   and a negative duration is refused (panic) *)
Definition C01_sleep_ok (d : Z) (panicked : bool) (elapsed : Z) : bool :=
  if d <? 0 then panicked
  else negb panicked && (d - d / 1000 - 50000 <=? elapsed) && (elapsed <? d + 10000000000).
