(* C02, measurements: faithful model of the part of Go's time.Time that
   core/measurements.midpoint uses, of measurements.{midpoint, Median,
   FaultTolerantMidpoint}, and the property oracles for Midpoint, for "only
   reorders the caller's slice" and for timestamped measurements.

   This file supersedes the measurement part of Model/Ftm.v (meas, midpoint_m, ...),
   which modelled time.Time as unbounded Unix nanoseconds with an exact Add; nothing
   of C02 refers to those definitions any more.

   time.Time (go1.24.2, src/time/time.go), wall-clock only.  The timestamps of
   measurements come from time.Unix(..).UTC(), time.Now().UTC() and time.Time{}:
   UTC() strips the monotonic reading, so hasMonotonic = 0 and a Time is the pair
     ext  : int64   seconds since January 1, year 1 (t.sec())
     nsec : int32   nanoseconds, 0 <= nsec < 10^9     (t.nsec())
   time.Time{} is (0, 0).  All of After / Before / Equal / Add / addSec / Sub below
   are transcriptions of the Go source for that case. *)
From ST Require Import Base.Ints Base.Sorting Model.Ftm.
From Coq Require Import Sorting.Permutation.
Open Scope Z_scope.

Definition ns_per_s : Z := 1000000000.

Record gtime := { gt_sec : Z; gt_nsec : Z }.
Definition gt_zero : gtime := {| gt_sec := 0; gt_nsec := 0 |}.       (* time.Time{} *)

(* the values a time.Time can hold *)
Definition gt_wf (t : gtime) : Prop := in_i64 (gt_sec t) /\ 0 <= gt_nsec t < ns_per_s.
Definition gt_wfb (t : gtime) : bool := in_i64b (gt_sec t) && (0 <=? gt_nsec t) && (gt_nsec t <? ns_per_s).

(* the instant a Time denotes: nanoseconds since January 1, year 1 (unbounded) *)
Definition gt_abs (t : gtime) : Z := gt_sec t * ns_per_s + gt_nsec t.

(* conversion from and to a time given as ONE unbounded integer of Unix nanoseconds (the time model of
   the source translator, GenLib/GoSem.v: nanoseconds since 1970-01-01, Sub saturating, Add exact) *)
Definition unix_off : Z := 62135596800 * ns_per_s.                 (* time.unixToInternal, in ns *)
Definition gt_unix (t : gtime) : Z := gt_abs t - unix_off.
Definition gt_of_abs (a : Z) : gtime := {| gt_sec := a / ns_per_s; gt_nsec := a mod ns_per_s |}.
Definition gt_of_unix (u : Z) : gtime := gt_of_abs (u + unix_off).
(* the Unix-nanosecond values that are time.Time values: exactly the image of gt_wf under gt_unix *)
Definition unix_repr (u : Z) : Prop := min_i64 * ns_per_s <= u + unix_off < (max_i64 + 1) * ns_per_s.

(* func (t Time) After(u Time) bool { ts := t.sec(); us := u.sec(); return ts > us || ts == us && t.nsec() > u.nsec() } *)
Definition gt_after (t u : gtime) : bool :=
  (gt_sec u <? gt_sec t) || ((gt_sec t =? gt_sec u) && (gt_nsec u <? gt_nsec t)).
Definition gt_before (t u : gtime) : bool :=
  (gt_sec t <? gt_sec u) || ((gt_sec t =? gt_sec u) && (gt_nsec t <? gt_nsec u)).
Definition gt_equal (t u : gtime) : bool :=
  (gt_sec t =? gt_sec u) && (gt_nsec t =? gt_nsec u).

(* func (t *Time) addSec(d int64):
     sum := t.ext + d
     if (sum > t.ext) == (d > 0) { t.ext = sum } else if d > 0 { t.ext = 1<<63 - 1 } else { t.ext = -(1<<63 - 1) } *)
Definition add_sec (ext d : Z) : Z :=
  let sum := i64 (ext + d) in
  if Bool.eqb (ext <? sum) (0 <? d) then sum
  else if 0 <? d then max_i64 else - max_i64.

(* func (t Time) Add(d Duration) Time:
     dsec := int64(d / 1e9); nsec := t.nsec() + int32(d%1e9)
     if nsec >= 1e9 { dsec++; nsec -= 1e9 } else if nsec < 0 { dsec--; nsec += 1e9 }
     t.wall = ... nsec; t.addSec(dsec)
   (|d%1e9| < 10^9 and |dsec| < 2^34: neither the int32 sum nor dsec+-1 can wrap) *)
Definition gt_add (t : gtime) (d : Z) : gtime :=
  let dsec := go_div d ns_per_s in
  let nsec := gt_nsec t + go_rem d ns_per_s in
  if ns_per_s <=? nsec then {| gt_sec := add_sec (gt_sec t) (dsec + 1); gt_nsec := nsec - ns_per_s |}
  else if nsec <? 0 then {| gt_sec := add_sec (gt_sec t) (dsec - 1); gt_nsec := nsec + ns_per_s |}
  else {| gt_sec := add_sec (gt_sec t) dsec; gt_nsec := nsec |}.

(* func (t Time) Sub(u Time) Duration:
     d := Duration(t.sec()-u.sec())*Second + Duration(t.nsec()-u.nsec())      // wrapping int64 arithmetic
     switch { case u.Add(d).Equal(t): return d
              case t.Before(u): return minDuration
              default: return maxDuration } *)
Definition gt_sub (t u : gtime) : Z :=
  let d := i64 (i64 (i64 (gt_sec t - gt_sec u) * ns_per_s) + (gt_nsec t - gt_nsec u)) in
  if gt_equal (gt_add u d) t then d
  else if gt_before t u then min_i64 else max_i64.

(* ---- measurements.Measurement ---- *)
Record tmeas := { tm_ts : gtime; tm_off : Z; tm_err : bool }.     (* tm_err = (Error != nil) *)
Definition tm_zero : tmeas := {| tm_ts := gt_zero; tm_off := 0; tm_err := false |}.

(* func midpoint(x, y Measurement) Measurement:
     var m Measurement                                  // m.Error == nil
     m.Offset = x.Offset + (y.Offset-x.Offset)/2
     if !x.Timestamp.After(y.Timestamp) { m.Timestamp = x.Timestamp.Add(y.Timestamp.Sub(x.Timestamp) / 2) }
     else                               { m.Timestamp = y.Timestamp.Add(x.Timestamp.Sub(y.Timestamp) / 2) } *)
Definition tmidpoint (x y : tmeas) : tmeas :=
  {| tm_off := midpoint (tm_off x) (tm_off y);
     tm_ts := if negb (gt_after (tm_ts x) (tm_ts y))
              then gt_add (tm_ts x) (go_div (gt_sub (tm_ts y) (tm_ts x)) 2)
              else gt_add (tm_ts y) (go_div (gt_sub (tm_ts x) (tm_ts y)) 2);
     tm_err := false |}.

(* the two measurements the functions select from the slice as it is after sorting *)
Definition sel_ftm (s : list tmeas) : tmeas * tmeas :=
  let n := length s in let f := ((n - 1) / 3)%nat in
  (nth f s tm_zero, nth (n - 1 - f) s tm_zero).
Definition sel_median (s : list tmeas) : tmeas * tmeas :=
  let n := length s in let i := (n / 2)%nat in
  if Nat.eqb (n mod 2) 0 then (nth (i - 1) s tm_zero, nth i s tm_zero) else (nth i s tm_zero, nth i s tm_zero).

Definition tftm_sorted (s : list tmeas) : tmeas :=
  let '(x, y) := sel_ftm s in tmidpoint x y.
(* Median with n odd returns Measurement{Timestamp: ms[i].Timestamp, Offset: ms[i].Offset}: Error nil,
   whatever ms[i].Error is *)
Definition tmedian_sorted (s : list tmeas) : tmeas :=
  let '(x, y) := sel_median s in
  if Nat.eqb (length s mod 2) 0 then tmidpoint x y
  else {| tm_ts := tm_ts x; tm_off := tm_off x; tm_err := false |}.

(* slices.SortFunc by Offset only is not stable: the order of measurements with equal
   offsets (whatever their timestamps and errors) is Go's choice.  The model is relational:
   any permutation s of the input that is sorted by offset may be the slice after the call;
   errored measurements are sorted and selected like any other. *)
Definition tm_sorted_perm (ms s : list tmeas) : Prop :=
  Permutation ms s /\ sorted_by tm_off s.

(* ---- executable multiset equality (used by the model's acceptance check and by the oracle) ---- *)
Section Multiset.
  Context {A : Type} (eqb : A -> A -> bool).
  Fixpoint remove_one (x : A) (l : list A) : option (list A) :=
    match l with
    | [] => None
    | y :: r => if eqb x y then Some r
                else match remove_one x r with Some r' => Some (y :: r') | None => None end
    end.
  Fixpoint multiset_eqb (a b : list A) : bool :=
    match a with
    | [] => match b with [] => true | _ => false end
    | x :: r => match remove_one x b with Some b' => multiset_eqb r b' | None => false end
    end.
End Multiset.

Definition gt_eqb (a b : gtime) : bool := (gt_sec a =? gt_sec b) && (gt_nsec a =? gt_nsec b).
(* the full record: timestamp, offset and error *)
Definition tm_eqb (a b : tmeas) : bool :=
  gt_eqb (tm_ts a) (tm_ts b) && (tm_off a =? tm_off b) && Bool.eqb (tm_err a) (tm_err b).

(* ================= property oracles (written from the property text) ================= *)

(* "only reorder the caller's slice": the slice after the call holds exactly the values it held
   before (as a multiset: nothing dropped, duplicated or overwritten) and is in ascending order *)
Definition C02_reorder_ok (before after : list Z) : bool :=
  multiset_eqb Z.eqb before after && zsortedb after.
(* measurements: the same for the full records (timestamp, offset, error), ascending by offset *)
Definition C02_reorder_m_ok (before after : list tmeas) : bool :=
  multiset_eqb tm_eqb before after && zsortedb (map tm_off after).

(* Midpoint lies between its arguments, for offsets of magnitude below 2^62 ns; nothing is
   claimed beyond *)
Definition C02_mid_ok (x y r : Z) : bool :=
  if (Z.abs x <? 2^62) && (Z.abs y <? 2^62) then (Z.min x y <=? r) && (r <=? Z.max x y) else true.

(* order of instants: seconds first, then nanoseconds *)
Definition gt_leb (a b : gtime) : bool :=
  (gt_sec a <? gt_sec b) || ((gt_sec a =? gt_sec b) && (gt_nsec a <=? gt_nsec b)).
(* "the combined timestamp lies between the timestamps of the two selected measurements" *)
Definition C02_ts_ok (x y r : gtime) : bool :=
  gt_wfb r && ((gt_leb x r && gt_leb r y) || (gt_leb y r && gt_leb r x)).

(* ---- containment for EVERY choice of the arbitrary positions ----
   The property quantifies over every choice of at most f = floor((n-1)/3) arbitrary positions.  A result
   lies within the range of the remaining values for every such choice iff it lies between the (f+1)-th
   smallest and the (f+1)-th largest value (Proofs: ftm_every_choice_iff; remove the f smallest, or the f
   largest, to see "only if").  The oracle tests that; it sorts the input itself. *)
Definition contained_for_every_choice (l : list Z) (res : Z) : Prop :=
  forall tl : list (Z * bool), map fst tl = l -> (nbad tl <= (length l - 1) / 3)%nat ->
    lmin (goods tl) <= res <= lmax (goods tl).
Definition C02_ftm_strong_ok (l : list Z) (res : Z) : bool :=
  let n := length l in let f := ((n - 1) / 3)%nat in let s := zsort l in
  if Nat.leb 1 n && forallb (fun x => Z.abs x <? 2^62) l
  then (nth f s 0 <=? res) && (res <=? nth (n - 1 - f) s 0) else true.

(* tagging of a list by position: (x, p i) for the element x at position i (counted from i0) *)
Fixpoint tagi (p : nat -> bool) (i0 : nat) (s : list Z) : list (Z * bool) :=
  match s with [] => [] | x :: r => (x, p i0) :: tagi p (S i0) r end.

(* timestamped measurements: ms = the slice before the call, res = the returned measurement, after = the
   slice after the call.  The two selected measurements are read off the slice as the implementation left it. *)
Definition C02_meas_ftm_ok (ms : list tmeas) (res : tmeas) (after : list tmeas) : bool :=
  C02_reorder_m_ok ms after
  && negb (tm_err res)
  && (let '(x, y) := sel_ftm after in C02_ts_ok (tm_ts x) (tm_ts y) (tm_ts res))
  && C02_ftm_strong_ok (map tm_off ms) (tm_off res).
Definition C02_meas_median_ok (ms : list tmeas) (res : tmeas) (after : list tmeas) : bool :=
  C02_reorder_m_ok ms after
  && negb (tm_err res)
  && (let '(x, y) := sel_median after in C02_ts_ok (tm_ts x) (tm_ts y) (tm_ts res))
  && C02_median_ok (map tm_off ms) (tm_off res).

(* ---- independence of the order of the inputs, measurements ----
   r1, r2 = the results of the same function on a slice and on a permuted copy of it.  The offset and the nil
   error never depend on the order.  The timestamp is that of the two SELECTED measurements: with tied offsets
   which records are selected is the (unstable) sort's choice, so the property text "independent of the order of
   the inputs" can hold for the timestamp only when the offsets are pairwise distinct (Proofs:
   meas_order_independent, meas_tie_order_refuted).  C02_meas_perm_ok is what holds; C02_meas_perm_strict_ok is
   the property text taken literally (kind ftm.meas.tieorder). *)
Fixpoint nodupb (l : list Z) : bool :=
  match l with [] => true | x :: r => negb (existsb (Z.eqb x) r) && nodupb r end.
Definition C02_meas_perm_ok (ms : list tmeas) (r1 r2 : tmeas) : bool :=
  (tm_off r1 =? tm_off r2) && negb (tm_err r1) && negb (tm_err r2)
  && (if nodupb (map tm_off ms) then gt_eqb (tm_ts r1) (tm_ts r2) else true).
Definition C02_meas_perm_strict_ok (r1 r2 : tmeas) : bool := tm_eqb r1 r2.
