(* Model of net/scion/pather.go: the Pather keeps, per destination IA it was
   started with, the paths the SCION daemon reported at the last refresh
   (update); Paths(dst) hands a copy of them to MeasureClockOffsetSCION
   (timeservice.go, ntpReferenceClockSCION.MeasureClockOffset).

   A path is a pair (identity, fingerprint id): the identity stands for the
   path object the daemon returned (in the harness: its underlay next hop),
   the fingerprint is what snet.Fingerprint gives for it.  IAs are integers.

   update(ctx, p, dc, dstIAs):
     localIA, err := dc.LocalIA(ctx); if err != nil { return }      -- state unchanged
     paths := map[IA][]Path{}
     for _, dstIA := range dstIAs {
        if _, ok := paths[dstIA]; ok { continue }                   -- each destination AS is looked up once
        ps, err := dc.Paths(ctx, dstIA, localIA, ...)               -- err: logged, ps is empty
        paths[dstIA] = append(paths[dstIA], ps...) }
     p.paths = paths
   The map is represented by the list of (dstIA, ps) in the order in which the
   keys are inserted (first occurrences in dstIAs); a lookup concatenates the
   entries of that IA (there is at most one). *)
From ST Require Import Base.Ints Base.Sorting Model.NtpTime Model.Ftm Model.Sample Model.PathAssign Model.PathOracle.
Open Scope Z_scope.

Definition dpath := (Z * Z)%type.

Record answer := { an_ia : Z; an_ok : bool; an_paths : list dpath }.

(* dc.Paths(ctx, dst, localIA, ...) of the daemon described by `answers` (first entry of that IA; a failing
   lookup and an IA the daemon knows nothing about give no paths) *)
Fixpoint daemon_paths (answers : list answer) (dst : Z) : list dpath :=
  match answers with
  | [] => []
  | a :: r => if an_ia a =? dst then (if an_ok a then an_paths a else []) else daemon_paths r dst
  end.

Definition pstate := list (Z * list dpath).

(* Pather.Paths(dst) *)
Definition pather_paths (st : pstate) (dst : Z) : list dpath :=
  flat_map (fun e : Z * list dpath => if fst e =? dst then snd e else []) st.

Fixpoint zmemb (x : Z) (l : list Z) : bool := match l with [] => false | y :: r => (x =? y) || zmemb x r end.

(* the destinations that are looked up: an IA that is already a key of the new map is skipped *)
Fixpoint first_occ (seen : list Z) (l : list Z) : list Z :=
  match l with
  | [] => []
  | d :: r => if zmemb d seen then first_occ seen r else d :: first_occ (d :: seen) r
  end.

(* update; lia_ok: dc.LocalIA succeeded *)
Definition pather_update (st : pstate) (lia_ok : bool) (dstIAs : list Z) (answers : list answer) : pstate :=
  if lia_ok then map (fun d => (d, daemon_paths answers d)) (first_occ [] dstIAs) else st.

(* one measurement round of a reference clock whose server is in IA q: the offered paths are Paths(q);
   the clients' requests go to the identities of the paths they were assigned *)
Definition pather_round (c : bool) (st : pstate) (q : Z) (cs : list cstate) (d : Z) (tape : list Z)
  (mss : list (list pmode)) (vss : list (list Z)) : round_res :=
  run_round_c c (map snd (pather_paths st q)) cs d tape mss vss.

(* timeservice.go, ntpReferenceClockSCION.MeasureClockOffset for a server in another AS:
     } else if c.pather != nil { ps = c.pather.Paths(c.remoteAddr.IA) }
   a clock that was built without a SCION daemon address has no Pather (None): no path is offered *)
Definition clock_paths (p : option pstate) (q : Z) : list dpath :=
  match p with Some st => pather_paths st q | None => [] end.

Definition clock_round (c : bool) (p : option pstate) (q : Z) (cs : list cstate) (d : Z) (tape : list Z)
  (mss : list (list pmode)) (vss : list (list Z)) : round_res :=
  run_round_c c (map snd (clock_paths p q)) cs d tape mss vss.

(* ---- property oracle at this level ----
   "every participating client probes over a different path ... and no more clients take part than there are
   paths", where the paths are those the daemon last reported for the server's IA (`truth`, identities pairwise
   distinct): the next hops observed are translated into positions in `truth` (an unknown next hop becomes -1,
   which the range clause of C15_round_ok rejects) and the round is judged by C15_round_ok against the
   fingerprints of `truth`.  Independent of the model of the Pather. *)
Fixpoint index_of (x : Z) (l : list Z) (i : Z) : Z :=
  match l with [] => -1 | y :: r => if x =? y then i else index_of x r (i + 1) end.

Definition with_hops (o : cobs) (h : list Z) : cobs :=
  {| ob_ilv := ob_ilv o; ob_fp := ob_fp o; ob_filter := ob_filter o; ob_hops := h; ob_resets := ob_resets o;
     ob_first := ob_first o; ob_vals := ob_vals o; ob_old := ob_old o |}.

(* positions -> identities (what is seen of the model's clients), identities -> positions (what the oracle does) *)
Definition hops_out (ids : list Z) (o : cobs) : cobs :=
  with_hops o (map (fun p => nth (Z.to_nat p) ids (-1)) (ob_hops o)).
Definition hops_in (ids : list Z) (o : cobs) : cobs :=
  with_hops o (map (fun h => index_of h ids 0) (ob_hops o)).

Definition C15_pather_round_ok (truth : list dpath) (obs : list cobs) (cls off : Z) : bool :=
  C15_round_ok (map snd truth) (map (hops_in (map fst truth)) obs) cls off.

(* the paths the daemon last reported for the server's IA q, as the property sees them: a refresh that gets the
   local IA replaces them by the daemon's answer for q (none if the lookup fails or q is not among the
   destinations the Pather was started with); a refresh that does not get the local IA changes nothing *)
Definition truth_update (truth : list dpath) (lia_ok : bool) (dstIAs : list Z) (answers : list answer) (q : Z) : list dpath :=
  if lia_ok then (if zmemb q dstIAs then daemon_paths answers q else []) else truth.
