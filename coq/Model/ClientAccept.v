(* Model of the response path of the NTP clients of /repo:
     core/client/client_ip.go     measureClockOffsetIP  (receive loop, request construction, state update)
     core/client/client_scion.go  measureClockOffsetSCION (same loop behind the SCION layer checks)
     core/client/client.go        MeasureClockOffsetIP (up to three exchanges per call)
     net/ntp/ntp.go               DecodePacket (the fields the client reads)
     net/ntp/validation.go        ValidateResponseMetadata, ValidateResponseTimestamps
     net/nts/nts.go               DecodePacket, authenticate, ProcessResponse
   No proofs here.

   Conventions: byte strings are lists of Z (0..255), positions are nat, a
   time.Time is a Z of nanoseconds since the Unix epoch (Model/NtpTime.v),
   ntp.Time64 is NtpTime.time64.  What leaves the project is an input: the
   AEAD (miscreant AES-SIV-CMAC Open) is a Section variable, the kernel (which
   datagrams arrive, in which order, from which address, with which receive
   stamp), the clock (cTxTime0, cTxTime1, "Now().Before(deadline)") and the
   gopacket/scionproto parse of a SCION packet are fields of the events. *)
From Coq Require Import ZArith List Bool Lia.
From ST Require Import Base.Ints Model.NtpTime.
Import ListNotations.
Open Scope Z_scope.

Definition bytes := list Z.

(* error classes: one per error value the anchored code can return *)
Inductive eclass :=
| ERead            (* ReadMsgUDPAddrPort failed (deadline exceeded, ...) *)
| EFlags           (* errUnexpectedPacketFlags *)
| ESource          (* errUnexpectedPacketSource (IP client) *)
| ESize            (* ntp.errUnexpectedPacketSize *)
| ETooLong         (* nts.errPacketTooLong *)
| EShortExt        (* nts.errShortExtension *)
| EShortUid        (* nts.errShortUniqueID *)
| ENoUid           (* nts.errNoUniqueID *)
| ENoAuth          (* nts.errNoAuthenticator *)
| ERespId          (* nts.errUnexpectedResponseID *)
| EKeySize         (* miscreant.ErrKeySize *)
| ENonceLen        (* nts.errUnexpectedNonceLen *)
| ENotAuthentic    (* miscreant.ErrNotAuthentic *)
| EUnexpected      (* client.errUnexpectedPacket *)
| EResponse        (* ntp.errUnexpectedResponse *)
| EScionDecode     (* gopacket DecodeLayers error (SCION client) *)
| EScionAuth       (* errInvalidPacketAuthenticator (SCION client) *)
| EClock           (* ntp.errUnexpectedClockBehavior: the client's receive stamp is before its transmit stamp *)
| ENoMeasurement.  (* client.errNoMeasurement: no client of MeasureClockOffsetSCION measured successfully *)

Definition eclass_code (e : eclass) : Z :=
  match e with
  | ERead => 1 | EFlags => 2 | ESource => 3 | ESize => 4 | ETooLong => 5 | EShortExt => 6
  | EShortUid => 7 | ENoUid => 8 | ENoAuth => 9 | ERespId => 10 | EKeySize => 11
  | ENonceLen => 12 | ENotAuthentic => 13 | EUnexpected => 14 | EResponse => 15
  | EScionDecode => 16 | EScionAuth => 17 | EClock => 18 | ENoMeasurement => 19
  end.

Inductive res (A : Type) :=
| Ok (a : A) | Err (e : eclass) | Panic | OutOfFuel.
Arguments Ok {A} a.
Arguments Err {A} e.
Arguments Panic {A}.
Arguments OutOfFuel {A}.

(* ---- byte helpers ---- *)
Definition nthz (b : bytes) (i : nat) : Z := nth i b 0.
Definition be16 (b : bytes) (pos : nat) : Z := nthz b pos * 256 + nthz b (S pos).
Definition be32 (b : bytes) (pos : nat) : Z :=
  ((nthz b pos * 256 + nthz b (pos + 1)) * 256 + nthz b (pos + 2)) * 256 + nthz b (pos + 3).
(* x := make([]byte, n); copy(x, src) *)
Definition take_pad (n : nat) (src : bytes) : bytes :=
  firstn n src ++ repeat 0 (n - length src).

Fixpoint bytes_eqb (a b : bytes) : bool :=
  match a, b with
  | [], [] => true
  | x :: a', y :: b' => (x =? y) && bytes_eqb a' b'
  | _, _ => false
  end.

(* ------------------------------------------------------------------ *)
(* ntp.DecodePacket: the fields the clients read                       *)
(* ------------------------------------------------------------------ *)
Record ntp_hdr := { h_lvm : Z; h_stratum : Z; h_org : time64; h_rx : time64; h_tx : time64 }.

Definition ntp_decode (b : bytes) : option ntp_hdr :=
  if (length b <? 48)%nat then None else
  Some {| h_lvm := nthz b 0; h_stratum := nthz b 1;
          h_org := {| t64_sec := be32 b 24; t64_frac := be32 b 28 |};
          h_rx := {| t64_sec := be32 b 32; t64_frac := be32 b 36 |};
          h_tx := {| t64_sec := be32 b 40; t64_frac := be32 b 44 |} |}.

Definition leap_of (lvm : Z) : Z := (lvm / 64) mod 4.
Definition version_of (lvm : Z) : Z := (lvm / 8) mod 8.
Definition mode_of (lvm : Z) : Z := lvm mod 8.

(* ntp.ValidateResponseMetadata = nil *)
Definition metadata_ok (h : ntp_hdr) : bool :=
  negb (leap_of (h_lvm h) =? 3) &&
  ((version_of (h_lvm h) =? 3) || (version_of (h_lvm h) =? 4)) &&
  (mode_of (h_lvm h) =? 4) &&
  negb (h_stratum h =? 0) && (h_stratum h <=? 15).

(* ------------------------------------------------------------------ *)
(* nts.DecodePacket (as in Model/NtsAuth.v, restricted to what the     *)
(* response path reads)                                                *)
(* ------------------------------------------------------------------ *)
Definition extUniqueIdentifier : Z := 260.   (* 0x104 *)
Definition extCookie : Z := 516.             (* 0x204 *)
Definition extCookiePlaceholder : Z := 772.  (* 0x304 *)
Definition extAuthenticator : Z := 1028.     (* 0x404 *)
Definition MaxPacketLen : nat := 1024.
Definition ntpPacketLen : nat := 48.

Record packet := {
  p_uid : bytes;
  p_cookies : list bytes;
  p_nonce : bytes;
  p_ct : bytes;
  p_pos : nat                 (* Auth.pos *)
}.
Definition packet0 : packet := {| p_uid := []; p_cookies := []; p_nonce := []; p_ct := []; p_pos := 0 |}.

Record dstate := { d_pkt : packet; d_uid : bool; d_auth : bool }.

(* Authenticator.unpack(buf, pos) *)
Definition unpack_auth (b : bytes) (vpos : nat) : bytes * bytes :=
  let nonceLen := Z.to_nat (be16 b vpos) in
  let ctLen := Z.to_nat (be16 b (vpos + 2)) in
  let p := (vpos + 4)%nat in
  let nonce := take_pad nonceLen (skipn p b) in
  let n := Nat.min nonceLen (length b - p) in      (* n := copy(nonce, buf[pos:]) *)
  (nonce, take_pad ctLen (skipn (p + n) b)).

Definition decode_field (b : bytes) (pos : nat) (s : dstate) : res (nat * dstate) :=
  let t := be16 b pos in
  let l := be16 b (pos + 2) in
  if l <? 4 then Err EShortExt else
  let vpos := (pos + 4)%nat in
  let vlen := Z.to_nat (l - 4) in
  let next := (pos + Z.to_nat l)%nat in
  let pk := d_pkt s in
  if t =? extUniqueIdentifier then
    if l - 4 <? 32 then Err EShortUid else
    Ok (next, {| d_pkt := {| p_uid := take_pad vlen (skipn vpos b); p_cookies := p_cookies pk;
                             p_nonce := p_nonce pk; p_ct := p_ct pk; p_pos := p_pos pk |};
                 d_uid := true; d_auth := d_auth s |})
  else if t =? extAuthenticator then
    let '(nonce, ct) := unpack_auth b vpos in
    Ok (next, {| d_pkt := {| p_uid := p_uid pk; p_cookies := p_cookies pk;
                             p_nonce := nonce; p_ct := ct; p_pos := pos |};
                 d_uid := d_uid s; d_auth := true |})
  else if t =? extCookie then
    Ok (next, {| d_pkt := {| p_uid := p_uid pk; p_cookies := p_cookies pk ++ [take_pad vlen (skipn vpos b)];
                             p_nonce := p_nonce pk; p_ct := p_ct pk; p_pos := p_pos pk |};
                 d_uid := d_uid s; d_auth := d_auth s |})
  else Ok (next, s).   (* placeholders and unknown fields are skipped *)

Definition decode_continue (b : bytes) (pos : nat) (s : dstate) : bool :=
  (pos + 28 <=? length b)%nat && negb (d_auth s).

Fixpoint decode_loop (fuel : nat) (b : bytes) (pos : nat) (s : dstate) : res dstate :=
  if decode_continue b pos s then
    match fuel with
    | O => OutOfFuel
    | S f =>
        match decode_field b pos s with
        | Ok (next, s') => decode_loop f b next s'
        | Err e => Err e
        | Panic => Panic
        | OutOfFuel => OutOfFuel
        end
    end
  else Ok s.

Definition decode_packet (b : bytes) : res packet :=
  if (MaxPacketLen <? length b)%nat then Err ETooLong else
  match decode_loop (length b) b ntpPacketLen {| d_pkt := packet0; d_uid := false; d_auth := false |} with
  | Ok s => if negb (d_uid s) then Err ENoUid
            else if negb (d_auth s) then Err ENoAuth
            else Ok (d_pkt s)
  | Err e => Err e
  | Panic => Panic
  | OutOfFuel => OutOfFuel
  end.

(* the loop of authenticate over the decrypted buffer *)
Fixpoint plain_loop (fuel : nat) (b : bytes) (pos : nat) (cs : list bytes) : res (list bytes) :=
  if (pos + 28 <=? length b)%nat then
    match fuel with
    | O => OutOfFuel
    | S f =>
        let t := be16 b pos in
        let l := be16 b (pos + 2) in
        if l <? 4 then Err EShortExt else
        let cs' := if t =? extCookie then cs ++ [take_pad (Z.to_nat (l - 4)) (skipn (pos + 4) b)] else cs in
        plain_loop f b (pos + Z.to_nat l) cs'
    end
  else Ok cs.

(* miscreant.NewAEAD("AES-CMAC-SIV", key, 16) accepts 32- and 64-byte keys *)
Definition key_ok (k : bytes) : bool := (length k =? 32)%nat || (length k =? 64)%nat.

(* ------------------------------------------------------------------ *)
(* events and requests                                                 *)
(* ------------------------------------------------------------------ *)

(* what gopacket / scionproto show of a datagram to the SCION client *)
Inductive auth_view :=
| AuthNone            (* no authenticator option, wrong option length, other SPI/algorithm: not looked at *)
| AuthMac (ok : bool). (* server SPI and algorithm: CMAC recomputed and compared *)

Record scion_view := {
  sv_decode_ok : bool;       (* parser.DecodeLayers returned nil *)
  sv_nlayers : Z;            (* len(decoded) *)
  sv_last : Z;               (* decoded[len-1]: 0 = SCION/UDP, 1 = SCMP, 2 = anything else *)
  sv_len_ok : bool;          (* len(buf) >= udpLayer.Length *)
  sv_src_ia : Z; sv_dst_ia : Z;
  sv_src_host : option Z;    (* the source endpoint: None if the SCION/UDP source port is not the port that was
                                queried (udpLayer.SrcPort != remoteAddr.Host.Port); else RawSrcAddr as an unmapped IPv4 address, if SrcAddrType says IPv4 or IPv6 host (T4Ip,
                                T16Ip); None: a service address or another address type, bytes that are no IP
                                address, an IPv6 address that is not IPv4-mapped (the queried server and the
                                client have IPv4 addresses here) *)
  sv_dst_host : option Z;
  sv_e2e : bool;             (* len(decoded) >= 3 and decoded[len-2] is the end-to-end extension *)
  sv_tsopt : option Z;       (* timestamp option that parses: replaces cRxTime *)
  sv_auth : auth_view
}.

Inductive front :=
| FrontIP (src : Z) (sport : Z)   (* srcAddr.Addr().Unmap(), srcAddr.Port() *)
| FrontSCION (v : scion_view).

Record dgram := {
  g_before : bool;    (* timebase.Now().Before(deadline), should the code ask while handling this datagram *)
  g_xflags : Z;       (* message flags other than MSG_TRUNC *)
  g_front : front;
  g_payload : bytes;  (* the UDP payload as sent (for SCION: udpLayer.Payload) *)
  g_crx : Z           (* cRxTime: kernel receive stamp or clock reading *)
}.

Inductive event :=
| EvErr (before : bool)      (* ReadMsgUDPAddrPort returned an error *)
| EvDgram (g : dgram).

Record request := {
  q_scion : bool;
  q_server : Z;              (* remoteAddr (host) as an unmapped address: the address this exchange queries, i.e. the
                                one the key exchange named if NTS is on, else the one the caller passed *)
  q_port : Z;                (* remoteAddr.Port: part of the reference of the server, not of the source check *)
  q_server_ia : Z; q_local_ia : Z; q_local : Z;    (* SCION only *)
  q_authkey : bool;          (* SCION only: authKey != nil *)
  q_bufcap : nat;            (* cap(buf) of the receive buffer *)
  q_deadline : bool;         (* deadlineIsSet *)
  q_nts : bool;
  q_uid : bytes;             (* requestID *)
  q_s2c : bytes;             (* ntskeData.S2cKey *)
  q_ireq : bool;             (* interleavedReq *)
  q_rx : time64;             (* ntpreq.ReceiveTime *)
  q_tx : time64;             (* ntpreq.TransmitTime *)
  q_ref : Z;                 (* cTxTime0 *)
  q_ctx1 : Z;                (* cTxTime1 *)
  q_pctx : time64; q_psrx : time64; q_pcrx : time64    (* c.prev.cTxTime, sRxTime, cRxTime *)
}.

Record result := {
  r_ileaved : bool;          (* interleavedResp *)
  r_t0 : Z; r_t1 : Z; r_t2 : Z; r_t3 : Z;
  r_off : Z;                 (* ntp.ClockOffset(t0, t1, t2, t3) *)
  r_crx : Z;                 (* cRxTime: the timestamp returned, stored as prev.cRxTime *)
  r_srx : time64             (* ntpresp.ReceiveTime: stored as prev.sRxTime *)
}.

Inductive step :=
| SSkip (e : eclass)         (* logged, numRetries++, continue *)
| SFail (e : eclass)         (* return the error *)
| SAccept (r : result)
| SPanic
| SFuel.

(* if numRetries != maxNumRetries && deadlineIsSet && timebase.Now().Before(deadline)
     { numRetries++; continue }; return err *)
Definition retry (q : request) (nr : nat) (before : bool) (e : eclass) : step :=
  if negb (nr =? 1)%nat && q_deadline q && before then SSkip e else SFail e.

(* flags != 0: MSG_TRUNC is set when the datagram does not fit the buffer *)
Definition flags_ok (q : request) (g : dgram) : bool :=
  (g_xflags g =? 0) && (length (g_payload g) <=? q_bufcap q)%nat.

Definition opt_eqb (a : option Z) (b : Z) : bool :=
  match a with Some x => x =? b | None => false end.

(* the checks between reading the datagram and ntp.DecodePacket *)
Definition front_check (q : request) (g : dgram) : option eclass :=
  match g_front g with
  | FrontIP src sport => if (src =? q_server q) && (sport =? q_port q) then None else Some ESource
  | FrontSCION v =>
      if negb (sv_decode_ok v) then Some EScionDecode else
      if negb ((2 <=? sv_nlayers v) && ((sv_last v =? 0) || (sv_last v =? 1))) then Some EUnexpected else
      if sv_last v =? 1 then Some EUnexpected else
      if negb (sv_len_ok v) then Some EUnexpected else
      if negb ((sv_src_ia v =? q_server_ia q) && opt_eqb (sv_src_host v) (q_server q) &&
               (sv_dst_ia v =? q_local_ia q) && opt_eqb (sv_dst_host v) (q_local q)) then Some EUnexpected else
      if sv_e2e v && q_authkey q then
        match sv_auth v with
        | AuthMac false => Some EScionAuth
        | _ => None
        end
      else None
  end.

(* cRxTime after the optional timestamp option of the SCION end-to-end extension *)
Definition crx_of (g : dgram) : Z :=
  match g_front g with
  | FrontSCION v => if sv_e2e v then match sv_tsopt v with Some t => t | None => g_crx g end else g_crx g
  | FrontIP _ _ => g_crx g
  end.

Section Client.
  (* aessiv.Open(nil, nonce, ciphertext, ad) for the AEAD made with key *)
  Variable open : bytes -> bytes -> bytes -> bytes -> option bytes.

  (* Packet.authenticate(b, key) *)
  Definition authenticate (b key : bytes) (p : packet) : res (list bytes) :=
    if negb (key_ok key) then Err EKeySize else
    if negb (length (p_nonce p) =? 16)%nat then Err ENonceLen else
    if (length b <? p_pos p)%nat then Panic else
    match open key (p_nonce p) (firstn (p_pos p) b) (p_ct p) with
    | None => Err ENotAuthentic
    | Some pt => plain_loop (length pt) pt 0 (p_cookies p)
    end.

  (* nts.DecodePacket followed by nts.ProcessResponse; the result is the list
     of cookies handed to StoreCookie *)
  Definition nts_check (q : request) (b : bytes) : res (list bytes) :=
    match decode_packet b with
    | Ok p => if negb (bytes_eqb (q_uid q) (p_uid p)) then Err ERespId else authenticate b (q_s2c q) p
    | Err e => Err e
    | Panic => Panic
    | OutOfFuel => OutOfFuel
    end.

  (* the part of the loop body after the NTS check *)
  Definition evaluate (q : request) (g : dgram) (h : ntp_hdr) (nr : nat) : step :=
    let ilv := q_ireq q && t64_eqb (h_org h) (q_rx q) in
    if negb ilv && negb (t64_eqb (h_org h) (q_tx q)) then retry q nr (g_before g) EUnexpected else
    if negb (metadata_ok h) then SFail EResponse else
    let crx := crx_of g in
    let srx := time_of_time64 (h_rx h) (q_ref q) in
    let stx := time_of_time64 (h_tx h) (q_ref q) in
    let t0 := if ilv then time_of_time64 (q_pctx q) (q_ref q) else q_ctx1 q in
    let t1 := if ilv then time_of_time64 (q_psrx q) (q_ref q) else srx in
    let t2 := stx in
    let t3 := if ilv then time_of_time64 (q_pcrx q) (q_ref q) else crx in
    if time_sub t3 t0 <? 0 then SFail EClock else
    if time_sub t2 t1 <? 0 then SFail EResponse else
    SAccept {| r_ileaved := ilv; r_t0 := t0; r_t1 := t1; r_t2 := t2; r_t3 := t3;
               r_off := clock_offset t0 t1 t2 t3; r_crx := crx; r_srx := h_rx h |}.

  (* one iteration of the receive loop *)
  Definition handle (q : request) (nr : nat) (ev : event) : step :=
    match ev with
    | EvErr before => retry q nr before ERead
    | EvDgram g =>
        if negb (flags_ok q g) then retry q nr (g_before g) EFlags else
        match front_check q g with
        | Some e => retry q nr (g_before g) e
        | None =>
            match ntp_decode (g_payload g) with
            | None => retry q nr (g_before g) ESize
            | Some h =>
                if q_nts q then
                  match nts_check q (g_payload g) with
                  | Ok _ => evaluate q g h nr
                  | Err e => retry q nr (g_before g) e
                  | Panic => SPanic
                  | OutOfFuel => SFuel
                  end
                else evaluate q g h nr
            end
        end
    end.

  (* the cookies handed to Fetcher.StoreCookie while one datagram is handled:
     ProcessResponse stores pkt.Cookies (the cleartext cookie fields before the
     authenticator and the ones in the decrypted plaintext) as soon as the
     datagram has authenticated, before the origin / metadata checks; ntsresp
     is a fresh Packet for every datagram *)
  Definition dgram_cookies (q : request) (ev : event) : list bytes :=
    match ev with
    | EvErr _ => []
    | EvDgram g =>
        if q_nts q && flags_ok q g then
          match front_check q g, ntp_decode (g_payload g) with
          | None, Some _ => match nts_check q (g_payload g) with Ok cs => cs | _ => [] end
          | _, _ => []
          end
        else []
    end.

  Inductive loop_result :=
  | LAccept (i : nat) (r : result)   (* the i-th event was accepted *)
  | LFail (i : nat) (e : eclass)     (* the i-th event ended the call with this error *)
  | LPanic (i : nat)
  | LFuel (i : nat)
  | LBlocked.                        (* the events ran out: the next read is still pending *)

  (* for { ... }: numRetries = nr, idx = number of events consumed so far *)
  Fixpoint recv_loop (q : request) (nr idx : nat) (evs : list event) : loop_result :=
    match evs with
    | [] => LBlocked
    | ev :: rest =>
        match handle q nr ev with
        | SSkip _ => recv_loop q (S nr) (S idx) rest
        | SFail e => LFail idx e
        | SAccept r => LAccept idx r
        | SPanic => LPanic idx
        | SFuel => LFuel idx
        end
    end.

  (* all cookies stored during the loop, in order *)
  Fixpoint loop_cookies (q : request) (nr : nat) (evs : list event) : list bytes :=
    match evs with
    | [] => []
    | ev :: rest =>
        dgram_cookies q ev ++
        match handle q nr ev with
        | SSkip _ => loop_cookies q (S nr) rest
        | _ => []
        end
    end.

  (* Fetcher.FetchData: a key exchange (ke = the cookies it delivers) when the
     pool is empty, then the first cookie leaves the pool *)
  Definition fetch_pool (pool ke : list bytes) : list bytes :=
    match pool with [] => tl ke | _ :: r => r end.
  (* Fetcher.StoreCookie, for every cookie in turn: longer ones are ignored (MaxCookieLen), and so is
     every cookie that arrives while the pool already holds MaxStoredCookies = 8 *)
  Definition store_cookie (pool : list bytes) (c : bytes) : list bytes :=
    if (896 <? length c)%nat then pool
    else if (8 <=? length pool)%nat then pool
    else pool ++ [c].
  Definition store_cookies (pool cs : list bytes) : list bytes := fold_left store_cookie cs pool.

  (* ---------------------------------------------------------------- *)
  (* request construction, state, the three exchanges of one call      *)
  (* ---------------------------------------------------------------- *)
  Record config := {
    c_scion : bool;
    c_imode : bool;            (* InterleavedMode *)
    c_nts : bool;              (* Auth.Enabled (IP) / Auth.NTSEnabled (SCION) *)
    c_server : Z;              (* the remote address the client is configured with (the exchanges query e_server) *)
    c_server_ia : Z; c_local_ia : Z; c_local : Z;
    c_deadline : bool
  }.

  (* c.prev *)
  Record cstate := {
    s_has : bool;              (* prev.reference != "" *)
    s_host : Z; s_port : Z;    (* prev.reference: the server (host, port; over SCION the ISD-AS is fixed) the state was recorded for *)
    s_il : bool;               (* prev.interleaved *)
    s_ctx : time64; s_crx : time64; s_srx : time64
  }.
  Definition cstate0 : cstate :=
    {| s_has := false; s_host := 0; s_port := 0; s_il := false;
       s_ctx := {| t64_sec := 0; t64_frac := 0 |}; s_crx := {| t64_sec := 0; t64_frac := 0 |};
       s_srx := {| t64_sec := 0; t64_frac := 0 |} |}.

  (* the environment of one exchange *)
  Record xenv := {
    e_ref : Z;                 (* cTxTime0 := timebase.Now() *)
    e_ctx1 : Z;                (* cTxTime1: kernel transmit stamp or clock reading *)
    e_uid : bytes;             (* the 32 random bytes of newID *)
    e_s2c : bytes;             (* ntskeData.S2cKey *)
    e_authkey : bool;          (* SCION: DRKey fetched *)
    e_server : Z; e_port : Z;  (* remoteAddr of this exchange: what the caller passed or, with NTS, what the key
                                  exchange in force names (ntskeData.Server, ntskeData.Port) *)
    e_evs : list event
  }.

  Definition three_seconds : Z := 3000000000.
  Definition zero64 : time64 := {| t64_sec := 0; t64_frac := 0 |}.

  (* interleavedReq: c.InterleavedMode && reference == c.prev.reference && the previous request is at most
     (IP client "<= 3 s", SCION client "< 3 s") old *)
  Definition want_interleaved (c : config) (st : cstate) (e : xenv) : bool :=
    let ref := e_ref e in
    c_imode c && s_has st && (s_host st =? e_server e) && (s_port st =? e_port e) &&
    (let gap := time_sub ref (time_of_time64 (s_ctx st) ref) in
     if c_scion c then gap <? three_seconds else gap <=? three_seconds).

  (* the three timestamp fields of the request on the wire *)
  Definition wire_org (c : config) (st : cstate) (e : xenv) : time64 :=
    if want_interleaved c st e then s_srx st else zero64.
  Definition wire_rx (c : config) (st : cstate) (e : xenv) : time64 :=
    if want_interleaved c st e then s_crx st else zero64.
  Definition wire_tx (c : config) (st : cstate) (e : xenv) : time64 :=
    if want_interleaved c st e then s_ctx st else time64_of_time (e_ref e).

  Definition make_request (c : config) (st : cstate) (e : xenv) : request :=
    {| q_scion := c_scion c; q_server := e_server e; q_port := e_port e; q_server_ia := c_server_ia c;
       q_local_ia := c_local_ia c; q_local := c_local c; q_authkey := e_authkey e;
       q_bufcap := Z.to_nat (if c_scion c then 9188 else if c_nts c then 1024 else 48);
       q_deadline := c_deadline c; q_nts := c_nts c; q_uid := e_uid e; q_s2c := e_s2c e;
       q_ireq := want_interleaved c st e;
       q_rx := wire_rx c st e; q_tx := wire_tx c st e;
       q_ref := e_ref e; q_ctx1 := e_ctx1 e;
       q_pctx := s_ctx st; q_psrx := s_srx st; q_pcrx := s_crx st |}.

  (* if c.InterleavedMode { c.prev... = ... } *)
  Definition update (c : config) (st : cstate) (e : xenv) (r : result) : cstate :=
    if c_imode c then
      {| s_has := true; s_host := e_server e; s_port := e_port e; s_il := r_ileaved r;
         s_ctx := time64_of_time (e_ctx1 e); s_crx := time64_of_time (r_crx r); s_srx := r_srx r |}
    else st.

  Definition in_interleaved_mode (c : config) (st : cstate) : bool := c_imode c && s_has st && s_il st.

  (* what MeasureClockOffsetIP returns *)
  Inductive call_result :=
  | COffset (off : Z) (ts : Z)   (* err == nil *)
  | CError (e : eclass)
  | CPanic
  | CStuck.                      (* out of fuel / read still pending: the model has no answer *)

  (* for i := range n { ... }: acc = (ts, off, err) so far, None = the initial
     zero values; nerr and i as in the code *)
  Fixpoint call_loop (c : config) (st : cstate) (envs : list xenv) (i nerr : nat)
           (acc : option call_result) : cstate * call_result * list (request * loop_result) :=
    match envs with
    | [] => (st, match acc with Some r => r | None => COffset 0 0 end, [])
    | e :: rest =>
        let q := make_request c st e in
        let lr := recv_loop q 0 0 (e_evs e) in
        match lr with
        | LAccept _ r =>
            let st' := update c st e r in
            let acc' := Some (COffset (r_off r) (r_crx r)) in
            if in_interleaved_mode c st' then (st', COffset (r_off r) (r_crx r), [(q, lr)])
            else let '(s2, cr, l) := call_loop c st' rest (S i) nerr acc' in (s2, cr, (q, lr) :: l)
        | LFail _ er =>
            let acc' := if (nerr =? i)%nat then Some (CError er) else acc in
            let '(s2, cr, l) := call_loop c st rest (S i) (S nerr) acc' in (s2, cr, (q, lr) :: l)
        | LPanic _ => (st, CPanic, [(q, lr)])
        | LFuel _ => (st, CStuck, [(q, lr)])
        | LBlocked => (st, CStuck, [(q, lr)])
        end
    end.

  (* MeasureClockOffsetIP: n = 3 exchanges with InterleavedMode, else 1 *)
  Definition num_exchanges (c : config) : nat := if c_imode c then 3%nat else 1%nat.
  Definition call (c : config) (st : cstate) (envs : list xenv) : cstate * call_result * list (request * loop_result) :=
    call_loop c st (firstn (num_exchanges c) envs) 0 0 None.

  (* ResetInterleavedMode: c.prev.reference = "" *)
  Definition reset_state (st : cstate) : cstate :=
    {| s_has := false; s_host := s_host st; s_port := s_port st; s_il := s_il st; s_ctx := s_ctx st; s_crx := s_crx st; s_srx := s_srx st |}.

  (* MeasureClockOffsetSCION with one client and one path: the measurement is
     stored only if its Error is nil; n = collectMeasurements(...); n == 0 is
     errNoMeasurement, otherwise FaultTolerantMidpoint(ms[:n]) of the one
     stored measurement is that measurement *)
  Definition scion_return (cr : call_result) : call_result :=
    match cr with CError _ => CError ENoMeasurement | x => x end.

  (* before fix 3dfc5bf the count was ignored and the midpoint was taken over
     the whole slice of one element: the zero Measurement (time zero, offset 0,
     Error nil) if nothing was stored *)
  Definition scion_return_pinned (cr : call_result) : call_result :=
    match cr with CError _ => COffset 0 0 | x => x end.

  (* a history of one client: calls, and ResetInterleavedMode in between *)
  Inductive hop :=
  | HCall (envs : list xenv)
  | HReset.

  Fixpoint history (c : config) (st : cstate) (ops : list hop) : list (call_result * list (request * loop_result)) :=
    match ops with
    | [] => []
    | HCall envs :: rest =>
        (* MeasureClockOffsetSCION first resets a client that is not in interleaved mode *)
        let st0 := if c_scion c && negb (in_interleaved_mode c st) then reset_state st else st in
        let '(st', cr, l) := call c st0 envs in (cr, l) :: history c st' rest
    | HReset :: rest => history c (reset_state st) rest
    end.
End Client.

(* ------------------------------------------------------------------ *)
(* Property oracle of C05, written from the property text.  It does    *)
(* not call the model of the loop: it looks at the request that was    *)
(* outstanding, at every datagram that was delivered (with the two     *)
(* facts about it that need the key: it carries the unique identifier *)
(* of the request; it verifies under the server-to-client key; both    *)
(* supplied by whoever holds the key), and at what the client reported.*)
(* For the SCION client with packet authentication (DRKey) a third    *)
(* such fact: the datagram's packet authenticator, if it carries one  *)
(* for the server's SPI and algorithm, verifies under the host-host   *)
(* key - "comes from the queried server" with authentication enabled. *)
(* ------------------------------------------------------------------ *)
Record oview := {
  o_from_server : bool;      (* came from the queried server (SCION: queried ISD-AS and host, addressed to the client) *)
  o_payload : bytes;
  o_uid_ok : bool;           (* carries the request's unique identifier *)
  o_auth_ok : bool;          (* verifies under the server-to-client key *)
  o_spao_ok : bool           (* SCION client holding the DRKey host-host key: the datagram does NOT carry, in an
                                end-to-end extension, a packet authenticator for the server's SPI and algorithm
                                whose MAC fails to verify over the received packet (true for every other datagram
                                and every other client) *)
}.

Record oreq := {
  oq_nts : bool;
  oq_ireq : bool;            (* the outstanding request is an interleaved one *)
  oq_rx : time64; oq_tx : time64;   (* its receive and transmit timestamp fields, which a response may echo *)
  oq_sid : Z;                (* identifies the server this exchange queries (host and port) *)
  oq_prev : list (Z * time64); (* the server queried in, and the receive timestamp field of the datagram that was the
                                basis of, the LAST SUCCESSFUL measurement of this client (C05_basis; a list because several delivered datagrams may
                                qualify; empty before the first success).  Not taken from the request: what the
                                request quotes as origin is the client's own bookkeeping *)
  oq_ref : Z                 (* any time within 2^31 s of the exchange: resolves the NTP era *)
}.

(* "a server-mode NTPv3/4 packet with known leap status, stratum 1-15" *)
Definition o_meta_ok (b : bytes) : bool :=
  let lvm := nthz b 0 in
  negb (lvm / 64 =? 3) && ((lvm / 8 mod 8 =? 3) || (lvm / 8 mod 8 =? 4)) && (lvm mod 8 =? 4) &&
  (1 <=? nthz b 1) && (nthz b 1 <=? 15).

Definition o_t64 (b : bytes) (pos : nat) : time64 := {| t64_sec := be32 b pos; t64_frac := be32 b (pos + 4) |}.

(* the clauses one datagram has to meet for the reported (t1, t2) to be based on it *)
Definition o_clauses (q : oreq) (d : oview) (t1 t2 : Z) : bool :=
  let b := o_payload d in
  let org := o_t64 b 24 in
  let basic := t64_eqb org (oq_tx q) in
  let inter := oq_ireq q && t64_eqb org (oq_rx q) in
  o_from_server d && o_spao_ok d && (48 <=? length b)%nat &&
  (basic || inter) && o_meta_ok b &&
  (if oq_nts q then o_uid_ok d && o_auth_ok d else true) &&
  (* the reported server transmit time is the datagram's *)
  (t2 =? time_of_time64 (o_t64 b 40) (oq_ref q)) &&
  (* the reported server receive time is the datagram's, or, for an interleaved
     response, that of the datagram the previous successful measurement was based
     on, which was a measurement of the same server: never a timestamp of a
     datagram that was skipped or rejected, or of another server's *)
  ((t1 =? time_of_time64 (o_t64 b 32) (oq_ref q)) ||
   (inter && existsb (fun p => (fst p =? oq_sid q) && (t1 =? time_of_time64 (snd p) (oq_ref q))) (oq_prev q))) &&
  (* transmit time not before the receive time it is combined with *)
  (t1 <=? t2).

(* the pool clause: every cookie in the pool after a call was in the pool
   before it, was delivered by a key exchange during it, or was carried by a
   delivered datagram that is authentic for its request *)
Definition C05_pool_ok (before ke authentic after : list bytes) : bool :=
  forallb (fun c => existsb (bytes_eqb c) (before ++ ke ++ authentic)) after.

Inductive oobs :=
| ObsError                         (* an error was returned *)
| ObsOffset (t0 t1 t2 t3 off : Z). (* success: the four timestamps combined and the offset *)

Definition C05_ok (q : oreq) (ds : list oview) (o : oobs) : bool :=
  match o with
  | ObsError => true
  | ObsOffset t0 t1 t2 t3 off =>
      existsb (fun d => o_clauses q d t1 t2) ds && (off =? clock_offset t0 t1 t2 t3)
  end.

(* at the level of a whole call (MeasureClockOffsetIP / MeasureClockOffsetSCION): a measurement
   is reported (nil error) only if at least one datagram was accepted during the call - in
   particular not by a call that made no exchange at all *)
Definition C05_call_needs_datagram (reported : bool) (accepted : Z) : bool :=
  if reported then 1 <=? accepted else true.

(* a call with several clients (MeasureClockOffsetSCION, one path each) combines the
   measurements of the clients that accepted a datagram: what it reports lies between the
   smallest and the largest of them - in particular it is one of them if only one client
   succeeded, and never the zero value of a client that did not *)
Definition C05_call_offset_within (off : Z) (accepted : list Z) : bool :=
  existsb (fun a => a <=? off) accepted && existsb (fun b => off <=? b) accepted.

(* the oracle's own history: after an exchange that reported an error the basis
   of the last successful measurement stays what it was; after a success it is
   the receive timestamp field of the delivered datagram(s) that meet the
   clauses for the reported (t1, t2) *)
Definition C05_basis (q : oreq) (ds : list oview) (o : oobs) : list (Z * time64) :=
  match o with
  | ObsError => oq_prev q
  | ObsOffset t0 t1 t2 t3 off =>
      map (fun d => (oq_sid q, o_t64 (o_payload d) 32)) (filter (fun d => o_clauses q d t1 t2) ds)
  end.

(* a sequence of exchanges of one client, each with the request that was
   outstanding (without oq_prev: the oracle supplies it), the delivered
   datagrams and what the client reported *)
Fixpoint C05_run (prev : list (Z * time64)) (xs : list ((list (Z * time64) -> oreq) * list oview * oobs)) : bool :=
  match xs with
  | [] => true
  | (mk, ds, o) :: rest => C05_ok (mk prev) ds o && C05_run (C05_basis (mk prev) ds o) rest
  end.
