(* Model of net/csptp/csptp.go: EncodeMessage/DecodeMessage, Encode/DecodeRequestTLV,
   Encode/DecodeResponseTLV.  A value of each Go struct is the list of its fields in
   wire order (table below); fixed arrays ([6]uint8 seconds, [3]uint8 organisation
   ids) are taken as one big-endian number.  No proofs here.

   Message (15 fields, 44 bytes):
     0 SdoIDMessageType u8   1 PTPVersion u8        2 MessageLength u16   3 DomainNumber u8
     4 MinorSdoID u8         5 FlagField u16        6 CorrectionField i64 7 MessageTypeSpecific u32
     8 ClockID u64           9 Port u16            10 SequenceID u16     11 ControlField u8
    12 LogMessageInterval i8 13 Timestamp.Seconds u48  14 Timestamp.Nanoseconds u32
   RequestTLV (5 fields, 14 bytes + 22 bytes padding [+ 18 bytes padding]):
     0 Type u16  1 Length u16  2 OrganizationID u24  3 OrganizationSubType u24  4 FlagField u32
   ResponseTLV (19 fields): the 5 above, then
     5 Error u16  6 RequestIngressTimestamp.Seconds u48  7 .Nanoseconds u32
     8 RequestCorrectionField i64  9 UTCOffset i16
    10 GMPriority1 u8 11 GMClockClass u8 12 GMClockAccuracy u8 13 GMClockVariance u16 14 GMPriority2 u8
    15 GMClockID u64 16 StepsRemoved u16 17 TimeSource u8 18 Reserved u8      (ServerStateDS) *)
From ST Require Import Base.Ints Base.Bytes.
Open Scope Z_scope.

Definition msg_layout : list fkind :=
  [FU 1; FU 1; FU 2; FU 1; FU 1; FU 2; FS 8; FU 4; FU 8; FU 2; FU 2; FU 1; FS 1; FU 6; FU 4].
Definition msg_len : nat := 44.

(* EncodeMessage(b, msg): _ = b[43] panics on a short buffer; bytes 0..43 written, the rest untouched *)
Definition csptp_encode_msg (b : list Z) (m : list Z) : outcome (list Z) :=
  if (length b <? msg_len)%nat then Panic
  else Ok (enc_fields msg_layout m ++ skipn msg_len b).

(* DecodeMessage(msg, b): error and msg untouched when len(b) < 44 *)
Definition csptp_decode_msg (m0 : list Z) (b : list Z) : list Z * bool :=
  if (length b <? msg_len)%nat then (m0, false) else (dec_fields msg_layout b, true).

(* ---- TLVs ---- *)

Definition tlv_head_layout : list fkind := [FU 2; FU 2; FU 3; FU 3; FU 4].
Definition tlv_body_layout : list fkind := [FU 2; FU 6; FU 4; FS 8; FS 2].
Definition ssds_layout : list fkind := [FU 1; FU 1; FU 1; FU 2; FU 1; FU 8; FU 2; FU 1; FU 1].

(* tlv.FlagField&TLVFlagServerStateDS == TLVFlagServerStateDS *)
Definition ssds_flag (t : list Z) : bool := Z.land (nth 4 t 0) 1 =? 1.

(* EncodedRequestTLVLength / EncodedResponseTLVLength *)
Definition tlv_len (t : list Z) : nat := if ssds_flag t then 54%nat else 36%nat.

(* EncodeRequestTLV(b, tlv): _ = b[35]; 14 header bytes; zeros up to 36; with the flag
   set _ = b[53] and zeros up to 54; bytes after that untouched *)
Definition csptp_encode_req (b : list Z) (t : list Z) : outcome (list Z) :=
  if (length b <? 36)%nat then Panic
  else if ssds_flag t && (length b <? 54)%nat then Panic
  else Ok (enc_fields tlv_head_layout t ++ repeat 0 (tlv_len t - 14) ++ skipn (tlv_len t) b).

(* DecodeRequestTLV(tlv, b): error with tlv untouched below 14 bytes; the five fields are
   assigned before the length check against EncodedRequestTLVLength *)
Definition csptp_decode_req (t0 : list Z) (b : list Z) : list Z * bool :=
  if (length b <? 14)%nat then (t0, false)
  else let t := dec_fields tlv_head_layout b in
       if (length b <? tlv_len t)%nat then (t, false) else (t, true).

(* EncodeResponseTLV(b, tlv): 36 bytes, plus the 18 bytes of ServerStateDS when the flag is set *)
Definition csptp_encode_resp (b : list Z) (t : list Z) : outcome (list Z) :=
  if (length b <? 36)%nat then Panic
  else if ssds_flag t && (length b <? 54)%nat then Panic
  else Ok (enc_fields (tlv_head_layout ++ tlv_body_layout) t
           ++ (if ssds_flag t then enc_fields ssds_layout (skipn 10 t) else [])
           ++ skipn (tlv_len t) b).

(* DecodeResponseTLV(tlv, b): as the request decoder for the first five fields; on the
   length error the remaining fields keep their previous values; ServerStateDS is
   decoded when the flag is set and zeroed otherwise *)
Definition csptp_decode_resp (t0 : list Z) (b : list Z) : list Z * bool :=
  if (length b <? 14)%nat then (t0, false)
  else let h := dec_fields tlv_head_layout b in
       if (length b <? tlv_len h)%nat then (h ++ skipn 5 t0, false)
       else (h ++ dec_fields tlv_body_layout (skipn 14 b)
               ++ (if ssds_flag h then dec_fields ssds_layout (skipn 36 b) else repeat 0 9), true).

(* well-formed values: every field in the range of its Go type; for a response TLV the
   ServerStateDS is zero unless the flag says it is on the wire *)
Definition msg_wf (m : list Z) : Prop := franges msg_layout m.
Definition req_wf (t : list Z) : Prop := franges tlv_head_layout t.
Definition resp_layout : list fkind := tlv_head_layout ++ tlv_body_layout ++ ssds_layout.
Definition resp_wf (t : list Z) : Prop :=
  franges resp_layout t /\ (ssds_flag t = false -> skipn 10 t = repeat 0 9).
Definition resp_wfb (t : list Z) : bool :=
  frangesb resp_layout t && (ssds_flag t || forallb (Z.eqb 0) (skipn 10 t)).

(* ---- property oracle pieces (from the property text) ---- *)

Definition zl_eqb (a b : list Z) : bool :=
  (fix go a b := match a, b with
     | [], [] => true
     | x :: a', y :: b' => (x =? y) && go a' b'
     | _, _ => false end) a b.

(* "encode v into buffer buf, decode the result": no panic iff the buffer has the declared
   length n; exactly n bytes are written (the rest of the buffer keeps its content);
   decoding the n written bytes succeeds and returns v; decoding one byte fewer fails *)
Definition C14_fixed_enc_ok (n : nat) (v buf : list Z) (panicked : bool) (enc : list Z)
                            (dec_ok : bool) (dec : list Z) (short_ok : bool) : bool :=
  if (length buf <? n)%nat then panicked
  else negb panicked && (length enc =? length buf)%nat && bytes_okb enc
       && zl_eqb (skipn n enc) (skipn n buf) && dec_ok && zl_eqb dec v && negb short_ok.

(* "decode b, re-encode into a zeroed buffer of the declared length": decode fails exactly
   when b is shorter than the length declared by its own flag field; the re-encoding
   equals the first n bytes of b *)
Definition C14_fixed_dec_ok (n : nat) (b : list Z) (dec_ok : bool) (reenc : list Z) : bool :=
  if (length b <? n)%nat then negb dec_ok else dec_ok && zl_eqb reenc (firstn n b).
