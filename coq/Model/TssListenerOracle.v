(* C06 at the listeners: what a client sees on the wire.  A listener-level
   history is the list, oldest first, of (client, request, reply datagram)
   triples observed on loopback against the real IP / SCION listeners; the
   server's timestamp store, its clock readings and the kernel transmit
   timestamps are NOT observable there.

   A client is what the listeners key the store with: for the IP listener the
   source ADDRESS of the datagram (core/server/server_ip.go: srcAddr.Addr()),
   for the SCION listener the pair (source ISD-AS, source host address) of the
   SCION header (server_scion.go: SrcIA + "," + srcAddr).  The UDP source
   port is not part of the identity: two sockets on one address are one client
   (they share one record of up to 8 exchanges), and equal host:port under two
   ISD-ASes are two clients.

   The oracle is written from the property text alone and contains only what
   that text states about values visible on the wire:
   - a reply is basic (origin = the request's transmit field) or interleaved
     (origin = the request's receive field, receive <> transmit field);
   - an interleaved reply is given only when an EARLIER reply TO THE SAME
     CLIENT carried the receive stamp that the request names as its origin
     ("timestamps recorded for one client are never served to another");
   - the transmit stamp served is later than that receive stamp;
   - the reply's own receive stamp differs from it (that exchange is still on
     record when it is served, and the new stamp is distinct from the kept ones). *)
From ST Require Import Base.Ints Model.NtpTime Model.Tss.
From Coq Require Import ZArith List Bool.
Import ListNotations.
Open Scope Z_scope.

Record lobs := { l_cl : Z; l_q : request; l_org : Z; l_rx : Z; l_tx : Z }.

Definition lsn_inter (o : lobs) : bool :=
  negb (q_rx (l_q o) =? q_tx (l_q o)) && (l_org o =? q_rx (l_q o)).

(* (client, receive stamp) of a reply *)
Definition lsn_key (o : lobs) : Z * Z := (l_cl o, l_rx o).

(* earlier: the (client, receive stamp) pairs of all earlier replies *)
Definition lsn_step_ok (earlier : list (Z * Z)) (o : lobs) : bool :=
  if lsn_inter o then
    existsb (fun p => (fst p =? l_cl o) && (snd p =? q_org (l_q o)) && (snd p <? l_tx o)) earlier
    && negb (l_rx o =? q_org (l_q o))
  else l_org o =? q_tx (l_q o).

(* newest first *)
Fixpoint lsn_ok_rev (h : list lobs) : bool :=
  match h with
  | [] => true
  | o :: older => lsn_step_ok (map lsn_key older) o && lsn_ok_rev older
  end.

(* h: oldest first *)
Definition C06_lsn_ok (h : list lobs) : bool := lsn_ok_rev (rev h).

(* ---- the relational part (not property text): replay on the model ----
   On loopback with one request in flight at a time, every clock value comes
   from one kernel clock, so besides the property clauses the observed
   history must be what the model produces when it is given the observed
   receive stamp as receive time and the observed reference stamp (the
   software transmit time of the exchange, carried by every reply) as clock
   reading.  The kernel transmit stamp of a reply is not observable until an
   interleaved reply serves it; it must lie between the software transmit time
   of that exchange and the receive stamp of the request that asks for it
   (the request was sent after the reply had arrived), strictly later than the
   software time when both exchanges went through one listener socket (that
   listener goroutine records the kernel stamp before it reads the next
   request). *)

(* the nanoseconds of a Time64 number (era 0): the least time whose stamp it is (Time64FromTime
   rounds the fraction down, so the inverse rounds up); the replay checks to64 (ns_of_64 x) = x *)
Definition ns_of_64 (x : Z) : Z :=
  let sec := x / 4294967296 in let frac := x mod 4294967296 in
  (sec + ntp_epoch) * nanos_per_sec + (frac * nanos_per_sec + 4294967295) / 4294967296.

Record lstep := { s_obs : lobs; s_ref : Z; s_sock : Z }.

(* socket that carried the exchange whose reply had this (client, receive stamp) *)
Fixpoint sock_of (cl rx : Z) (l : list (Z * Z * Z)) : option Z :=
  match l with
  | [] => None
  | (c, r, k) :: rest => if (c =? cl) && (r =? rx) then Some k else sock_of cl rx rest
  end.

Record lacc := { la_state : option tss; la_socks : list (Z * Z * Z); la_prev_ref : Z; la_ok : bool; la_drops : nat }.

Definition basic_shape (o : lobs) (ref : Z) : bool :=
  (l_org o =? q_tx (l_q o)) && (l_tx o =? ref) && (l_rx o <? l_tx o).

Definition lsn_model_step (a : lacc) (st : lstep) : lacc :=
  let o := s_obs st in
  let rxt := ns_of_64 (l_rx o) in let now := ns_of_64 (s_ref st) in
  let times_ok := (to64 rxt =? l_rx o) && (to64 now =? s_ref st) && (la_prev_ref a <? l_rx o) && (l_rx o <? s_ref st) in
  let socks' := (l_cl o, l_rx o, s_sock st) :: la_socks a in
  match la_state a with
  | None => {| la_state := None; la_socks := socks'; la_prev_ref := s_ref st; la_ok := false; la_drops := la_drops a |}
  | Some s =>
      match handle real_config s (l_cl o) (l_q o) rxt now 0 with
      | None => {| la_state := None; la_socks := socks'; la_prev_ref := s_ref st; la_ok := false; la_drops := la_drops a |}
      | Some out =>
          let r := o_reply out in
          let common := times_ok && (r_rx r =? l_rx o) && (r_ref r =? s_ref st) in
          if r_inter r then
            if lsn_inter o then
              (* the model's store holds the software transmit time of the earlier exchange *)
              let strict := match sock_of (l_cl o) (q_org (l_q o)) (la_socks a) with
                            | Some k => k =? s_sock st
                            | None => false
                            end in
              let tx_ok := (r_tx r <=? l_tx o) && (l_tx o <=? l_rx o) && (if strict then r_tx r <? l_tx o else true) in
              {| la_state := Some (o_state out); la_socks := socks'; la_prev_ref := s_ref st;
                 la_ok := la_ok a && common && (r_org r =? l_org o) && tx_ok; la_drops := la_drops a |}
            else
              (* served basic although the exchange should be on record: its transmit stamp could not be
                 read and it was dropped (allowed by the property; counted, see the glue) *)
              let s1 := t_state (update_tx s (l_cl o) (ns_of_64 (q_org (l_q o))) (ns_of_64 (r_tx r))) in
              match handle real_config s1 (l_cl o) (l_q o) rxt now 0 with
              | Some out1 =>
                  {| la_state := Some (o_state out1); la_socks := socks'; la_prev_ref := s_ref st;
                     la_ok := la_ok a && common && negb (r_inter (o_reply out1)) && basic_shape o (s_ref st);
                     la_drops := S (la_drops a) |}
              | None => {| la_state := None; la_socks := socks'; la_prev_ref := s_ref st; la_ok := false; la_drops := la_drops a |}
              end
          else
            {| la_state := Some (o_state out); la_socks := socks'; la_prev_ref := s_ref st;
               la_ok := la_ok a && common && negb (lsn_inter o) && basic_shape o (s_ref st); la_drops := la_drops a |}
      end
  end.

Definition lsn_model_run (h : list lstep) : lacc :=
  fold_left lsn_model_step h
    {| la_state := Some tss_empty; la_socks := []; la_prev_ref := 0; la_ok := true; la_drops := O |}.

(* at most one unexplained drop per history *)
Definition C06_lsn_agree (h : list lstep) : bool :=
  let a := lsn_model_run h in la_ok a && Nat.leb (la_drops a) 1.

(* ---- kind lsn.slowlink: the listeners behind a rate-limited loopback ----
   Besides the datagrams, two more observations: the harness's own clock
   reading after it read each reply (sw_crecv, same clock as the kernel stamps)
   and whether the listener itself reported that it could not read the
   transmit timestamp of that exchange (sw_unread).  The property: an
   interleaved reply serves "the transmit time recorded for the earlier reply
   ..., the kernel transmit timestamp once it has been read, and an exchange
   for which none could be read is dropped from the record rather than served".
   With monotone time, the kernel transmit timestamp of a reply
   - is not earlier than the software transmit time that this very reply carries
     in its transmit field when it is a basic reply (the listener reads its clock,
     fills the packet, then hands it to the kernel), and
   - is not later than the moment the client has the reply in its hands. *)
Record sobs := { sw_obs : lobs; sw_crecv : Z; sw_unread : bool }.

(* margin for reading the clock: 1 ms in Time64 units *)
Definition slow_margin : Z := 4294968.

(* the most recent earlier reply to this client that carried this receive stamp (older: newest first) *)
Definition slow_find (cl rx : Z) (older : list sobs) : option sobs :=
  find (fun p => (l_cl (sw_obs p) =? cl) && (l_rx (sw_obs p) =? rx)) older.

Definition slow_step_ok (older : list sobs) (o : sobs) : bool :=
  lsn_step_ok (map (fun p => lsn_key (sw_obs p)) older) (sw_obs o) &&
  (if lsn_inter (sw_obs o) then
     match slow_find (l_cl (sw_obs o)) (q_org (l_q (sw_obs o))) older with
     | Some j =>
         negb (sw_unread j) &&                                               (* dropped, not served *)
         (if lsn_inter (sw_obs j) then true else l_tx (sw_obs j) <=? l_tx (sw_obs o)) &&   (* not before the software transmit time *)
         (l_tx (sw_obs o) <=? sw_crecv j + slow_margin)                       (* not after the client had the reply *)
     | None => false
     end
   else true).

Fixpoint slow_ok_rev (h : list sobs) : bool :=
  match h with
  | [] => true
  | o :: older => slow_step_ok older o && slow_ok_rev older
  end.

(* h: oldest first *)
Definition C06_slow_ok (h : list sobs) : bool := slow_ok_rev (rev h).

(* relational part: replay on the model in the order the listener goroutine handled the requests
   (one client socket per history).  An exchange whose transmit stamp the listener could not read
   is dropped in the model too; bursts are in flight together, so only the order of the stamps of
   one exchange and the bracket of a served stamp are compared. *)
Record sstepr := { ss_obs : sobs; ss_ref : Z }.

Record sacc := { sa_state : option tss; sa_ok : bool; sa_drops : nat }.

Definition slow_model_step (a : sacc) (st : sstepr) : sacc :=
  let o := sw_obs (ss_obs st) in
  let rxt := ns_of_64 (l_rx o) in let now := ns_of_64 (ss_ref st) in
  let times_ok := (to64 rxt =? l_rx o) && (to64 now =? ss_ref st) && (l_rx o <? ss_ref st) in
  let bad := {| sa_state := None; sa_ok := false; sa_drops := sa_drops a |} in
  let finish (s' : tss) (ok : bool) (drops : nat) :=
    (* the listener's report for this exchange *)
    let s2 := if sw_unread (ss_obs st) then t_state (update_tx s' (l_cl o) rxt now) else s' in
    {| sa_state := Some s2; sa_ok := sa_ok a && ok; sa_drops := drops |} in
  match sa_state a with
  | None => bad
  | Some s =>
      match handle real_config s (l_cl o) (l_q o) rxt now 0 with
      | None => bad
      | Some out =>
          let r := o_reply out in
          let common := times_ok && (r_rx r =? l_rx o) && (r_ref r =? ss_ref st) in
          if r_inter r then
            if lsn_inter o then
              finish (o_state out) (common && (r_org r =? l_org o) && (r_tx r <=? l_tx o) && (l_tx o <=? l_rx o)) (sa_drops a)
            else
              let s1 := t_state (update_tx s (l_cl o) (ns_of_64 (q_org (l_q o))) (ns_of_64 (r_tx r))) in
              match handle real_config s1 (l_cl o) (l_q o) rxt now 0 with
              | Some out1 => finish (o_state out1) (common && negb (r_inter (o_reply out1)) && basic_shape o (ss_ref st)) (S (sa_drops a))
              | None => bad
              end
          else finish (o_state out) (common && negb (lsn_inter o) && basic_shape o (ss_ref st)) (sa_drops a)
      end
  end.

Definition C06_slow_agree (h : list sstepr) : bool :=
  let a := fold_left slow_model_step h {| sa_state := Some tss_empty; sa_ok := true; sa_drops := O |} in
  sa_ok a && Nat.leb (sa_drops a) 1.
