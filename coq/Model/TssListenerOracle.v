(* C06 at the listeners: what a client sees on the wire.  A listener-level
   history is the list, oldest first, of (client, request, reply datagram)
   triples observed on loopback against the real IP / SCION listeners; the
   server's timestamp store, its clock readings and the kernel transmit
   timestamps are NOT observable there.

   A client is what the listeners key the store with: for the IP listener the
   source ADDRESS of the datagram (core/server/server_ip.go: srcAddr.Addr()),
   for the SCION listener the pair (source ISD-AS, source host address) of the
   SCION header (server_scion.go: SrcIA + "," + srcAddr).  The UDP source
   port is not part of the identity: two sockets on one address are one client
   (they share one record of up to 8 exchanges), and equal host:port under two
   ISD-ASes are two clients.

   The oracle is written from the property text alone and contains only what
   that text states about values visible on the wire:
   - a reply is basic (origin = the request's transmit field) or interleaved
     (origin = the request's receive field, receive <> transmit field);
   - an interleaved reply is given only when an EARLIER reply TO THE SAME
     CLIENT carried the receive stamp that the request names as its origin
     ("timestamps recorded for one client are never served to another");
   - the transmit stamp served is later than that receive stamp;
   - the reply's own receive stamp differs from it (that exchange is still on
     record when it is served, and the new stamp is distinct from the kept ones). *)
From ST Require Import Base.Ints Model.NtpTime Model.Tss.
From Coq Require Import ZArith List Bool.
Import ListNotations.
Open Scope Z_scope.

Record lobs := { l_cl : Z; l_q : request; l_org : Z; l_rx : Z; l_tx : Z }.

Definition lsn_inter (o : lobs) : bool :=
  negb (q_rx (l_q o) =? q_tx (l_q o)) && (l_org o =? q_rx (l_q o)).

(* (client, receive stamp) of a reply *)
Definition lsn_key (o : lobs) : Z * Z := (l_cl o, l_rx o).

(* earlier: the (client, receive stamp) pairs of all earlier replies *)
Definition lsn_step_ok (earlier : list (Z * Z)) (o : lobs) : bool :=
  if lsn_inter o then
    existsb (fun p => (fst p =? l_cl o) && (snd p =? q_org (l_q o)) && (snd p <? l_tx o)) earlier
    && negb (l_rx o =? q_org (l_q o))
  else l_org o =? q_tx (l_q o).

(* newest first *)
Fixpoint lsn_ok_rev (h : list lobs) : bool :=
  match h with
  | [] => true
  | o :: older => lsn_step_ok (map lsn_key older) o && lsn_ok_rev older
  end.

(* h: oldest first *)
Definition C06_lsn_ok (h : list lobs) : bool := lsn_ok_rev (rev h).

(* ==== what is evaluated on the real listeners (kinds lsn.hist, lsn.slowlink, lsn.fallback) ====
   Besides the datagrams the harness observes, per exchange:
   - w_ref: the reference stamp of the reply (the listener puts the software transmit time of the
     exchange there);
   - w_crx: the CLIENT's kernel receive stamp of the reply (SO_TIMESTAMPING on the client socket; the
     harness's clock reading after the read when the kernel gave none): on loopback every stamp comes
     from one clock, and the kernel transmits a datagram before it delivers it;
   - w_unread: the listener itself reported "failed to read packet tx timestamp" for this exchange;
   - w_fb: for an exchange that reached the listener WITHOUT kernel receive stamp (timestamping
     switched off on the listener's socket) the two readings V, W the scripted clock handed out
     (receive-time fallback, handling time).
   The rows are in the order in which the listener handled the requests.

   wire_step_ok = the theorem-backed clauses of lsn_step_ok plus, from the property text and monotone
   time (these are NOT consequences of the model for arbitrary clock values, they are what the
   property says about a listener whose stamps come from one monotone clock):
   - the receive stamp differs from every receive stamp an earlier reply to this client carried
     (the kept ones are among them; an exchange reported unread is dropped and does not count);
   - a basic reply's transmit stamp is later than its receive stamp (the clock reading at handling
     time is later than the receive time; for a scripted reading W <= V the text requires nothing);
   - an interleaved reply serves the kernel transmit stamp of the exchange it names: never one the
     listener reported unread ("dropped rather than served"), not earlier than the software transmit
     time which that (basic) reply carried (unless that time was a scripted reading), not later than the client's receipt of that reply;
   - interleaved WHENEVER due: the request's receive and transmit fields differ and its origin is the
     receive stamp of the most recent exchange of this client, whose transmit stamp was read - that
     exchange is on record (nothing but a later exchange of the same client, or 2^20 other clients,
     can displace it: C06_frame), so the reply must be interleaved;
   - without kernel receive stamp the receive stamp is the clock reading V, moved by at most 8 ns and
     only past stamps that earlier replies to this client carried. *)
Record wobs := { w_obs : lobs; w_ref : Z; w_sock : Z; w_crx : Z; w_unread : bool; w_fb : option (Z * Z) }.

Definition same_client_rx (cl rx : Z) (p : wobs) : bool := (l_cl (w_obs p) =? cl) && (l_rx (w_obs p) =? rx).

(* older: newest first *)
Definition wire_find (cl rx : Z) (older : list wobs) : option wobs := find (same_client_rx cl rx) older.
Definition wire_latest (cl : Z) (older : list wobs) : option wobs := find (fun p => l_cl (w_obs p) =? cl) older.

(* without kernel receive stamp: the reply's receive stamp is to64 (v + d) for some d <= n where every
   skipped stamp to64 (v + e), e < d, was carried by an earlier reply to this client (a collision is
   possible only with a stamp that was handed out before) *)
Fixpoint fb_rx_ok (cl : Z) (older : list wobs) (rx v : Z) (n : nat) : bool :=
  (rx =? to64 v) ||
  match n with
  | O => false
  | S m => existsb (fun p => same_client_rx cl (to64 v) p && negb (w_unread p)) older && fb_rx_ok cl older rx (v + 1) m
  end.

Definition wire_step_ok (strict : bool) (older : list wobs) (o : wobs) : bool :=
  let ob := w_obs o in
  lsn_step_ok (map (fun p => lsn_key (w_obs p)) older) ob &&
  (match w_fb o with
   | Some _ => true   (* a scripted reading may repeat a stamp that is no longer kept; fb_rx_ok below *)
   | None => negb (existsb (fun p => same_client_rx (l_cl ob) (l_rx ob) p && negb (w_unread p)) older)
   end) &&
  (if lsn_inter ob then
     match wire_find (l_cl ob) (q_org (l_q ob)) older with
     | Some j =>
         negb (w_unread j) &&
         (if lsn_inter (w_obs j) then true else match w_fb j with Some _ => true | None => l_tx (w_obs j) <=? l_tx ob end) &&
         (l_tx ob <=? w_crx j)
     | None => false
     end
   else
     (match w_fb o with Some (v, w) => if v <? w then l_rx ob <? l_tx ob else true | None => l_rx ob <? l_tx ob end) &&
     (* whenever due *)
     (if strict && negb (q_rx (l_q ob) =? q_tx (l_q ob)) then
        match wire_latest (l_cl ob) older with
        | Some j => negb ((l_rx (w_obs j) =? q_org (l_q ob)) && negb (w_unread j))
        | None => true
        end
      else true)) &&
  match w_fb o with
  | Some (v, _) => fb_rx_ok (l_cl ob) older (l_rx ob) v 8
  | None => true
  end.

Fixpoint wire_ok_rev (strict : bool) (h : list wobs) : bool :=
  match h with
  | [] => true
  | o :: older => wire_step_ok strict older o && wire_ok_rev strict older
  end.

(* h: oldest first (handling order); strict: every failure report of the listener is attributed to
   its exchange (otherwise the whenever-due clause is not evaluated) *)
Definition C06_wire_ok (strict : bool) (h : list wobs) : bool := wire_ok_rev strict (rev h).

(* ---- the relational part: replay on the model ----
   The observed history must be what the model produces when it is given, per exchange, the
   observed receive stamp as receive time and the observed reference stamp as clock reading (for
   an exchange without kernel receive stamp: the scripted readings V and W themselves - there the
   comparison is exact).  The store of the model keeps the software transmit times; an exchange the
   listener reported unread is dropped in the model as well.  A kernel transmit stamp becomes
   visible only when an interleaved reply serves it: it must lie between the software transmit time
   of its exchange and the receive stamp of the request that asks for it (strictly later than the
   software time when both exchanges went through one listener socket: that goroutine records the
   kernel stamp before it reads the next request).  seq: one request in flight at a time (lsn.hist),
   then the stamps of consecutive exchanges are ordered as well.  Every reply that is basic although
   the model expects an interleaved one is counted (drops); the glue allows as many as the listener
   reported failures that could not be attributed - none otherwise. *)

(* the nanoseconds of a Time64 number (era 0): the least time whose stamp it is (Time64FromTime
   rounds the fraction down, so the inverse rounds up); the replay checks to64 (ns_of_64 x) = x *)
Definition ns_of_64 (x : Z) : Z :=
  let sec := x / 4294967296 in let frac := x mod 4294967296 in
  (sec + ntp_epoch) * nanos_per_sec + (frac * nanos_per_sec + 4294967295) / 4294967296.

Fixpoint sock_of (cl rx : Z) (l : list (Z * Z * Z)) : option Z :=
  match l with
  | [] => None
  | (c, r, k) :: rest => if (c =? cl) && (r =? rx) then Some k else sock_of cl rx rest
  end.

Record wacc := { wa_state : option tss; wa_socks : list (Z * Z * Z); wa_prev_ref : Z; wa_ok : bool; wa_drops : nat }.

Definition basic_shape (o : lobs) (ref : Z) : bool :=
  (l_org o =? q_tx (l_q o)) && (l_tx o =? ref).

Definition wire_model_step (seq : bool) (a : wacc) (st : wobs) : wacc :=
  let o := w_obs st in
  let '(rxt, now) := match w_fb st with Some (v, w) => (v, w) | None => (ns_of_64 (l_rx o), ns_of_64 (w_ref st)) end in
  let times_ok :=
    match w_fb st with
    | Some _ => true
    | None => (to64 rxt =? l_rx o) && (to64 now =? w_ref st) && (l_rx o <? w_ref st) &&
              (if seq then wa_prev_ref a <? l_rx o else true)
    end in
  (* socket of the exchange; -1 for an exchange whose software times were scripted readings *)
  let socks' := (l_cl o, l_rx o, match w_fb st with Some _ => -1 | None => w_sock st end) :: wa_socks a in
  let bad := {| wa_state := None; wa_socks := socks'; wa_prev_ref := w_ref st; wa_ok := false; wa_drops := wa_drops a |} in
  let finish (s' : tss) (out : outcome) (ok : bool) (drops : nat) :=
    (* the listener's report for this exchange: unread = the software time is reported again, the exchange is dropped *)
    let s2 := if w_unread st then t_state (update_tx s' (l_cl o) (o_rxt out) (o_txt out)) else s' in
    {| wa_state := Some s2; wa_socks := socks'; wa_prev_ref := w_ref st; wa_ok := wa_ok a && ok; wa_drops := drops |} in
  match wa_state a with
  | None => bad
  | Some s =>
      match handle real_config s (l_cl o) (l_q o) rxt now 0 with
      | None => bad
      | Some out =>
          let r := o_reply out in
          let common := times_ok && (r_rx r =? l_rx o) && (r_ref r =? w_ref st) in
          if r_inter r then
            if lsn_inter o then
              let named := sock_of (l_cl o) (q_org (l_q o)) (wa_socks a) in
              let named_scripted := match named with Some k => k <? 0 | None => false end in
              let strict := match named with Some k => k =? w_sock st | None => false end in
              let scripted := match w_fb st with Some _ => true | None => false end in
              let tx_ok := (if named_scripted then true else r_tx r <=? l_tx o) &&
                           (if scripted then true else l_tx o <=? l_rx o) &&
                           (if strict then r_tx r <? l_tx o else true) in
              finish (o_state out) out (common && (r_org r =? l_org o) && tx_ok) (wa_drops a)
            else
              let s1 := t_state (update_tx s (l_cl o) (ns_of_64 (q_org (l_q o))) (ns_of_64 (r_tx r))) in
              match handle real_config s1 (l_cl o) (l_q o) rxt now 0 with
              | Some out1 => finish (o_state out1) out1 (common && negb (r_inter (o_reply out1)) && basic_shape o (w_ref st)) (S (wa_drops a))
              | None => bad
              end
          else finish (o_state out) out (common && negb (lsn_inter o) && basic_shape o (w_ref st)) (wa_drops a)
      end
  end.

Definition wire_model_run (seq : bool) (h : list wobs) : wacc :=
  fold_left (wire_model_step seq) h
    {| wa_state := Some tss_empty; wa_socks := []; wa_prev_ref := 0; wa_ok := true; wa_drops := O |}.

Definition C06_wire_agree (seq : bool) (tolerated : nat) (h : list wobs) : bool :=
  let a := wire_model_run seq h in wa_ok a && Nat.leb (wa_drops a) tolerated.

(* ==== kind lsn.noreply: an exchange for which the listener sends no reply ====
   Request A is accepted by the listener but cannot be answered (its SCION path cannot be reversed);
   request B of the same client then claims to continue A in interleaved mode.  Observed: whether a
   datagram came back for A, the (receive, transmit) pairs the store holds for the client after A and
   after B, B's request and reply.  From the property text: an interleaved reply is given only when an
   EARLIER REPLY to the same client carried the stamp named as origin - A had no reply, so
   - after A nothing is on record for the client (an exchange without a reply is not on record);
   - B is answered in basic mode;
   - after B the client's record holds B's exchange and nothing else. *)
Definition C06_noreply_ok (gotA : bool) (entsA : list (Z * Z)) (q : request) (gotB : bool)
  (org rx tx : Z) (entsB : list (Z * Z)) : bool :=
  if gotA then true   (* A was answered after all: the clauses above do not apply *)
  else
    match entsA with [] => true | _ :: _ => false end &&
    if gotB then
      lsn_step_ok [] {| l_cl := 0; l_q := q; l_org := org; l_rx := rx; l_tx := tx |} &&
      forallb (fun e => fst e =? rx) entsB
    else match entsB with [] => true | _ :: _ => false end.

(* the model of the listener for these two requests: A is handled and, no reply going out, its
   transmit time is reported unchanged (updateTXTimestamp with the time handleRequest set), B is
   handled with the observed receive / reference stamp as receive time / clock reading.  Returns B's
   reply and the record of the client after B (receive stamp, software transmit stamp). *)
Definition noreply_model (zA : Z) (q : request) (rx ref : Z) : option (reply * list (Z * Z)) :=
  let rB := ns_of_64 rx in
  let rA := rB - 1000000 in
  match handle real_config tss_empty 0 {| q_org := 0; q_rx := 0; q_tx := zA |} rA (rA + 1000) 0 with
  | None => None
  | Some outA =>
      let s1 := t_state (update_tx (o_state outA) 0 (o_rxt outA) (o_txt outA)) in
      match handle real_config s1 0 q rB (ns_of_64 ref) 0 with
      | None => None
      | Some outB =>
          Some (o_reply outB,
                match find_item 0 (items (o_state outB)) with
                | Some it => map (fun e => (e_rx e, e_tx e)) (it_ents it)
                | None => []
                end)
      end
  end.

(* the record after B: the model's exchanges with the kernel transmit stamp (not earlier than the
   software one) in place of the software transmit stamp *)
Fixpoint ents_agree (m o : list (Z * Z)) : bool :=
  match m, o with
  | [], [] => true
  | (mr, mt) :: m', (r, t) :: o' => (mr =? r) && (mt <=? t) && ents_agree m' o'
  | _, _ => false
  end.

Definition C06_noreply_agree (zA : Z) (gotA : bool) (entsA : list (Z * Z)) (q : request) (gotB : bool)
  (org rx tx ref : Z) (entsB : list (Z * Z)) : bool :=
  negb gotA && gotB && match entsA with [] => true | _ :: _ => false end &&
  match noreply_model zA q rx ref with
  | Some (r, ents) =>
      (r_org r =? org) && (r_rx r =? rx) && (r_tx r =? tx) && (r_ref r =? ref) && negb (r_inter r) &&
      (to64 (ns_of_64 rx) =? rx) && (to64 (ns_of_64 ref) =? ref) && ents_agree ents entsB
  | None => false
  end.
