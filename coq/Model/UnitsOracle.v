(* C18: property oracles that need more than Model/Units.v offers (decoded float64 values,
   arbitrary-precision evaluation of the CSPTP formulas).  Written from the property text;
   none of them calls the model of the code.  Executable, no proofs. *)
From Coq Require Import ZArith Bool List.
From Flocq Require Import IEEE754.BinarySingleNaN.
From ST Require Import Base.Ints Base.F64.
Open Scope Z_scope.

(* ---- CSPTP offset / delay formulas ---- *)

(* truth recovery: a server clock theta ahead, symmetric one-way delay delta, corrections c1, c3.
   Range = every int64 subtraction/addition ClockOffset and MeanPathDelay perform stays in int64
   (the absolute times t0, t2 are NOT restricted). *)
Definition C18_recover_range (theta delta c1 c3 : Z) : bool :=
  in_i64b (theta + delta + c1) && in_i64b (- theta + delta + c3) &&
  in_i64b (theta + delta) && in_i64b (- theta + delta) &&
  in_i64b (2 * theta) && in_i64b (2 * delta).
Definition C18_recover_ok (theta delta c1 c3 off mpd : Z) : bool :=
  if C18_recover_range theta delta c1 c3 then (off =? theta) && (mpd =? delta) else true.

(* one-way delays d1 (client to server), d2 (server to client), UTC correction utc:
   t1 = t0 + theta + d1 + c1 + utc,  t3 = t2 - theta + d2 + c3 - utc *)
Definition C18_delays_range (theta d1 d2 c1 c3 utc : Z) : bool :=
  in_i64b (theta + d1 + c1 + utc) && in_i64b (theta + d1 + utc) && in_i64b (theta + d1) &&
  in_i64b (- theta + d2 + c3 - utc) && in_i64b (- theta + d2 - utc) && in_i64b (- theta + d2).
Definition C18_delays_ok (theta d1 d2 c1 c3 utc c2s s2c : Z) : bool :=
  if C18_delays_range theta d1 d2 c1 c3 utc then (c2s =? theta + d1) && (s2c =? - theta + d2) else true.

(* arbitrary four timestamps: the four results against unbounded integer arithmetic, each one
   whenever the intermediate values of ITS computation fit int64 (division by 2 truncates, as
   Go's does) *)
Definition C18_formulas_ok (t0 t1 t2 t3 c1 c3 utc off mpd c2s s2c : Z) : bool :=
  let a := t1 - t0 - c1 in
  let b := t3 - t2 - c3 in
  let ra := in_i64b (t1 - t0) && in_i64b a in
  let rb := in_i64b (t3 - t2) && in_i64b b in
  (if ra && rb && in_i64b (a - b) then off =? Z.quot (a - b) 2 else true) &&
  (if ra && rb && in_i64b (a + b) then mpd =? Z.quot (a + b) 2 else true) &&
  (if ra && in_i64b (a - utc) then c2s =? a - utc else true) &&
  (if rb && in_i64b (b + utc) then s2c =? b + utc else true).

(* ---- frequency <-> scaled ppm, one direction at a time ---- *)
Definition ppm_scale : Z := 65536000000.     (* 2^16 x 10^6 *)

(* ScaledPPMFromFreq f, f = (-1)^s m 2^e finite with |f| x 65536e6 < 2^62: the result has the sign
   of f and |result| is the exact product N/D (N = m x 65536e6 x 2^max(e,0), D = 2^max(-e,0)) up to
   2^-52 relative (one rounding) and one unit for the conversion to an integer (truncation as the
   code does, or rounding):
       |r| - 1 <= N/D (1 + 2^-52),   |r| + 1 >= N/D (1 - 2^-52) *)
Definition C18_ppm_of_freq_ok (f : f64) (r : Z) : bool :=
  match f with
  | B754_zero _ => r =? 0
  | B754_finite s m e _ =>
      let N := Zpos m * ppm_scale * 2 ^ (Z.max 0 e) in
      let D := 2 ^ (Z.max 0 (- e)) in
      if N <? 2^62 * D then
        (if s then r <=? 0 else 0 <=? r) &&
        ((Z.abs r - 1) * D * 2^52 <=? N * (2^52 + 1)) &&
        (N * (2^52 - 1) <=? (Z.abs r + 1) * D * 2^52)
      else true
  | _ => true
  end.

(* FreqFromScaledPPM x, any int64 x: a finite float g of the sign of x (zero exactly for x = 0) with
   g x 65536e6 = x up to 2^-51 relative (conversion of x and one division) *)
Definition C18_freq_of_ppm_ok (x : Z) (g : f64) : bool :=
  match g with
  | B754_zero _ => x =? 0
  | B754_finite s m e _ =>
      let N := Zpos m * ppm_scale * 2 ^ (Z.max 0 e) in
      let D := 2 ^ (Z.max 0 (- e)) in
      (if s then x <? 0 else 0 <? x) &&
      (Z.abs (N - Z.abs x * D) * 2^51 <=? Z.abs x * D)
  | _ => false
  end.

(* ---- re-encoding a wire timestamp whose nanoseconds field is anything the 32 bits allow ----
   the instant s + ns/10^9 is kept exactly; canonical fields come back unchanged; an instant beyond
   the last 48-bit second cannot be written (the code panics) *)
Definition C18_ts_reencode_ok (s ns okk bs bns : Z) : bool :=
  if ns <? 1000000000 then (okk =? 1) && (bs =? s) && (bns =? ns)
  else if s * 1000000000 + ns <? 2^48 * 1000000000 then
    (okk =? 1) && (0 <=? bns) && (bns <? 1000000000) && (bs * 1000000000 + bns =? s * 1000000000 + ns)
  else okk =? 0.

(* ---- the CSPTP client against a server whose timestamps are theta ahead of the client clock ----
   U = UTC correction the exchange announces (utcOffset x 10^9 if the valid flag is set, else 0),
   d1max = upper bound of the request's one-way delay and D2 = the reply's one-way delay, both
   measured by the harness on the client's clock (ns).  Property: the offset is theta up to the delay
   asymmetry, S2C/C2S delays are the one-way delays shifted by -+theta and +-U, the mean path delay is
   the mean of the two delays; correction fields do not appear: they cancel.  1 us of slack. *)
Definition C18_client_ok (theta U d1max D2 off mpd c2s s2c : Z) : bool :=
  (-2000 <=? 2 * (off - theta) + D2) && (2 * (off - theta) + D2 <=? d1max + 2000) &&
  (s2c =? D2 - theta + U) &&
  (-1000 <=? c2s - theta + U) && (c2s - theta + U <=? d1max + 1000) &&
  (-2000 <=? 2 * mpd - D2) && (2 * mpd - D2 <=? d1max + 2000).

(* ---- source check of the adjtimex call sites: entries (category, ok) ----
   1 Timex.Time = TimevalFromNsec(<duration>.Nanoseconds()) with ADJ_SETOFFSET and ADJ_NANO in Modes
   2 Timex.Freq = ScaledPPMFromFreq(..) with ADJ_FREQUENCY in Modes
   3 Timex.Freq read only as the argument of FreqFromScaledPPM
   4 Timex.Offset = <duration>.Nanoseconds() with ADJ_OFFSET, ADJ_NANO in Modes and STA_NANO in Status
   5 the files that use unix.Timex / ClockAdjtime are exactly the known three *)
Fixpoint count_cat (c : Z) (es : list (Z * Z)) : Z :=
  match es with
  | nil => 0
  | cons (c', _) r => (if c' =? c then 1 else 0) + count_cat c r
  end.
Definition C18_callsites_ok (es : list (Z * Z)) : bool :=
  List.forallb (fun e => snd e =? 1) es &&
  (3 <=? count_cat 1 es) && (2 <=? count_cat 2 es) && (1 <=? count_cat 3 es) &&
  (1 <=? count_cat 4 es) && (count_cat 5 es =? 1).
