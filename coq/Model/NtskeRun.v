(* Running the model of the Fetcher (Model/Ntske.v) over a history of calls against scripted
   peers (Model/NtskeOracle.v), producing what the harness observes.  No proofs. *)
From ST Require Import Base.Ints Model.Ntske Model.NtskeOracle.
From Coq Require Import ZArith List Bool.
Import ListNotations.
Open Scope Z_scope.

(* what the script puts on the wire *)
Definition script_stream (sc : script) : bytes := firstn (sc_cut sc) (wire (sc_recs sc) ++ sc_tail sc).

Definition peer_of_script (sc : script) : peer :=
  {| p_up := sc_mode sc =? 0; p_alpn := sc_alpn sc; p_host := sc_host sc; p_stream := script_stream sc |}.

(* the handshake of the transport: crypto/tls over TCP, or crypto/tls inside QUIC *)
Definition negotiate (quic : bool) : list bytes -> list bytes -> handshake :=
  if quic then quic_negotiate else tls_negotiate.

(* what the peer sees of a connection attempt *)
Definition peer_handshake (quic : bool) (sc : script) : bool * bytes :=
  if sc_mode sc =? 0 then
    match negotiate quic [alpn_ntske] (sc_alpn sc) with
    | HsOk p => (true, p)
    | HsFail => (false, [])
    end
  else (false, []).

(* the keys the peer exports from the session on its side (RFC 8915, 5.1), when there is one *)
Definition rfc_label : bytes := 
  [69;88;80;79;82;84;69;82;45;110;101;116;119;111;114;107;45;116;105;109;101;45;115;101;99;117;114;105;116;121]   (* "EXPORTER-network-time-security" *).
Definition peer_key (ex : exporter) (dir : Z) : bytes :=
  match ex rfc_label [0; 0; 0; 15; dir] 32 with Some k => k | None => [] end.

Definition model_fetch (quic : bool) (ex : exporter) (st : kdata) (sc : script) : kdata * fobs :=
  let '(st', fo) := fetch_data quic ex st (peer_of_script sc) in
  let conn := fo_exchanged fo && negb (sc_mode sc =? 1) in
  let '(hs, proto) := if conn then peer_handshake quic sc else (false, []) in
  (st', {| o_conns := if conn then 1 else 0; o_hs_ok := hs; o_negotiated := proto;
           o_peer_c2s := if hs then peer_key ex 0 else []; o_peer_s2c := if hs then peer_key ex 1 else [];
           o_err := fo_err fo; o_data := fo_data fo |}).

(* a history: every FetchData comes with the exporter of the TLS session it may open *)
Inductive mop := MFetch (sc : script) (ex : exporter) | MStore (c : bytes).

Definition op_of (m : mop) : op := match m with MFetch sc _ => OpFetch sc | MStore c => OpStore c end.

(* quic = Fetcher.QUIC.Enabled, fixed for the life of the Fetcher *)
Fixpoint model_run (quic : bool) (st : kdata) (ms : list mop) : list fobs :=
  match ms with
  | [] => []
  | MStore c :: rest => model_run quic (store_cookie st c) rest
  | MFetch sc ex :: rest => let '(st', o) := model_fetch quic ex st sc in o :: model_run quic st' rest
  end.

(* the state of the fetcher after a history *)
Fixpoint model_final (quic : bool) (st : kdata) (ms : list mop) : kdata :=
  match ms with
  | [] => st
  | MStore c :: rest => model_final quic (store_cookie st c) rest
  | MFetch sc ex :: rest => model_final quic (fst (model_fetch quic ex st sc)) rest
  end.
