(* Bridge between the translator's prelude (GenLib.GoSem, independent of the models) and the
   integer / time library the hand-written models use (Base.Ints, Model.NtpTime): the two sets of
   definitions denote the same functions.  Used by the equivalence lemmas in coq/GenEquiv.
   Every proof first unfolds both sides to the same term: leaving it to the conversion test
   (a bare reflexivity) can take minutes on the 64-bit constants. *)
From Coq Require Import ZArith Bool List Lia.
From ST Require Import Base.Ints Model.NtpTime GenLib.GoSem.
Open Scope Z_scope.

Lemma wrap_i64_i64 x : wrap_i64 x = i64 x.
Proof. unfold wrap_i64, i64, two63, two64. reflexivity. Qed.
Lemma wrap_i32_i32 x : wrap_i32 x = i32 x.
Proof. unfold wrap_i32, i32. reflexivity. Qed.
Lemma wrap_i16_i16 x : wrap_i16 x = i16 x.
Proof. unfold wrap_i16, i16. reflexivity. Qed.
Lemma wrap_i8_i8 x : wrap_i8 x = i8 x.
Proof. unfold wrap_i8, i8. reflexivity. Qed.
Lemma wrap_u64_u64 x : wrap_u64 x = u64 x.
Proof. unfold wrap_u64, u64. reflexivity. Qed.
Lemma wrap_u32_u32 x : wrap_u32 x = u32 x.
Proof. unfold wrap_u32, u32. reflexivity. Qed.
Lemma wrap_u16_u16 x : wrap_u16 x = u16 x.
Proof. unfold wrap_u16, u16. reflexivity. Qed.
Lemma wrap_u8_u8 x : wrap_u8 x = u8 x.
Proof. unfold wrap_u8, u8. reflexivity. Qed.
Lemma quot_i64_go_div x y : quot_i64 x y = go_div x y.
Proof. unfold quot_i64, go_div. apply wrap_i64_i64. Qed.
Lemma go_rem_go_rem x y : GoSem.go_rem x y = Ints.go_rem x y.
Proof. unfold GoSem.go_rem, Ints.go_rem. reflexivity. Qed.
Lemma sat_i64_sat64 x : sat_i64 x = sat64 x.
Proof. unfold sat_i64, sat64, min_i64, max_i64. reflexivity. Qed.
Lemma in_i64_in_i64 x : Ints.in_i64 x <-> GoSem.in_i64 x.
Proof. unfold Ints.in_i64, GoSem.in_i64, min_i64, max_i64. lia. Qed.
Lemma shl_i64_mul x n : 0 <= n -> shl_i64 x n = i64 (x * 2 ^ n).
Proof. intros. unfold shl_i64. rewrite Z.shiftl_mul_pow2 by assumption. apply wrap_i64_i64. Qed.
Lemma shl_u8_shiftl x n : shl_u8 x n = u8 (Z.shiftl x n).
Proof. unfold shl_u8. apply wrap_u8_u8. Qed.

Lemma time_Unix_sec t : time_Unix t = time_sec t.
Proof. unfold time_Unix, time_sec, nanos_per_sec. reflexivity. Qed.
Lemma time_Nanosecond_nsec t : time_Nanosecond t = time_nsec t.
Proof. unfold time_Nanosecond, time_nsec, nanos_per_sec. reflexivity. Qed.
Lemma time_mk_mk s n : time_mk s n = mk_time s n.
Proof. unfold time_mk, mk_time, nanos_per_sec. reflexivity. Qed.
Lemma time_Sub_sub t u : time_Sub t u = time_sub t u.
Proof. unfold time_Sub, time_sub. apply sat_i64_sat64. Qed.

Global Hint Rewrite wrap_i64_i64 wrap_i32_i32 wrap_i16_i16 wrap_i8_i8 wrap_u64_u64 wrap_u32_u32
  wrap_u16_u16 wrap_u8_u8 quot_i64_go_div go_rem_go_rem sat_i64_sat64 shl_u8_shiftl
  time_Unix_sec time_Nanosecond_nsec time_mk_mk time_Sub_sub : gobridge.

(* modular arithmetic on the models' i64 (from the GoSem lemmas) *)
Lemma i64_add_l x y : i64 (i64 x + y) = i64 (x + y).
Proof. rewrite <- !wrap_i64_i64. apply wrap_i64_add_l. Qed.
Lemma i64_add_r x y : i64 (x + i64 y) = i64 (x + y).
Proof. rewrite <- !wrap_i64_i64. apply wrap_i64_add_r. Qed.
Lemma i64_sub_l x y : i64 (i64 x - y) = i64 (x - y).
Proof. rewrite <- !wrap_i64_i64. apply wrap_i64_sub_l. Qed.
Lemma i64_sub_r x y : i64 (x - i64 y) = i64 (x - y).
Proof. rewrite <- !wrap_i64_i64. apply wrap_i64_sub_r. Qed.
Lemma i64_mul_l x y : i64 (i64 x * y) = i64 (x * y).
Proof. rewrite <- !wrap_i64_i64. apply wrap_i64_mul_l. Qed.
Lemma i64_mul_r x y : i64 (x * i64 y) = i64 (x * y).
Proof. rewrite <- !wrap_i64_i64. apply wrap_i64_mul_r. Qed.

(* bit fields read with >> and & are div and mod *)
Lemma shr_land_divmod x k m : 0 <= k -> 0 <= m ->
  Z.land (Z.shiftr x k) (2 ^ m - 1) = (x / 2 ^ k) mod 2 ^ m.
Proof. intros. rewrite land_ones_mod by assumption. rewrite Z.shiftr_div_pow2 by assumption. reflexivity. Qed.
Lemma lvm_leap l : Z.land (Z.shiftr l 6) 3 = (l / 64) mod 4.
Proof. apply (shr_land_divmod l 6 2); lia. Qed.
Lemma lvm_version l : Z.land (Z.shiftr l 3) 7 = (l / 8) mod 8.
Proof. apply (shr_land_divmod l 3 3); lia. Qed.
Lemma lvm_mode l : Z.land l 7 = l mod 8.
Proof. apply land_7. Qed.

(* goraw: unfold both vocabularies down to +, -, *, mod, Z.quot, Z.rem, Z.shiftl/r, comparisons on
   literal constants.  Unfolding is complete and deterministic (rewriting with the bridge lemmas is
   not: rewrite also matches the convertible i64 x as an instance of wrap_i64 ?x and then makes no
   progress).  After goraw two equal readings of the code are syntactically equal. *)
Ltac goraw :=
  unfold GoSem.quot_u8, GoSem.quot_u16, GoSem.quot_u32, GoSem.quot_u64, GoSem.quot_i8, GoSem.quot_i16,
         GoSem.quot_i32, GoSem.quot_i64, GoSem.go_rem,
         GoSem.shl_u8, GoSem.shl_u16, GoSem.shl_u32, GoSem.shl_u64, GoSem.shl_i8, GoSem.shl_i16,
         GoSem.shl_i32, GoSem.shl_i64, GoSem.go_shr,
         GoSem.time_Unix, GoSem.time_Nanosecond, GoSem.time_UnixNano, GoSem.time_mk, GoSem.time_Sub,
         GoSem.time_Add, GoSem.time_Before, GoSem.time_After, GoSem.time_Equal, GoSem.sat_i64, GoSem.err_nil,
         NtpTime.time_sec, NtpTime.time_nsec, NtpTime.mk_time, NtpTime.time_sub, NtpTime.nanos_per_sec,
         NtpTime.ntp_epoch, NtpTime.secs_per_era,
         Ints.go_div, Ints.go_rem, Ints.sat64 in *;
  unfold GoSem.wrap_u8, GoSem.wrap_u16, GoSem.wrap_u32, GoSem.wrap_u64, GoSem.wrap_i8, GoSem.wrap_i16,
         GoSem.wrap_i32, GoSem.wrap_i64,
         Ints.u8, Ints.u16, Ints.u32, Ints.u64, Ints.i8, Ints.i16, Ints.i32, Ints.i64,
         Ints.min_i64, Ints.max_i64, Ints.two63, Ints.two64 in *.

(* exhaustive rewriting with the bridge lemmas (autorewrite stops early under binders/ifs) *)
Ltac gobridge :=
  repeat first
    [ rewrite wrap_i64_i64 | rewrite wrap_i32_i32 | rewrite wrap_i16_i16 | rewrite wrap_i8_i8
    | rewrite wrap_u64_u64 | rewrite wrap_u32_u32 | rewrite wrap_u16_u16 | rewrite wrap_u8_u8
    | rewrite quot_i64_go_div | rewrite go_rem_go_rem | rewrite sat_i64_sat64 | rewrite shl_u8_shiftl
    | rewrite time_Unix_sec | rewrite time_Nanosecond_nsec | rewrite time_mk_mk | rewrite time_Sub_sub ].
