(* GoSem: the prelude of the Go -> Gallina translator (harness/cmd/go2coq).

   The generated files (STGen.Gen) use nothing but the Coq standard library and
   the definitions of this file.  Everything here is a definition of what a Go
   operator means on a value represented as an unbounded Z, plus proved lemmas
   about these definitions.  The definitions ARE the trusted statement of Go's
   semantics; they do not depend on any file of the hand-written models
   (in particular not on ST.Base.Ints), so that an equivalence lemma
   "generated = model" compares two independently written readings of the code.

   Conventions (also printed in the header of every generated file):
   * a value of an integer type T is the Z it denotes; values handed to a
     translated function as parameters or record fields are in the range of
     their Go type (the translator never assumes more than that);
   * int and uint are 64 bits wide (the gc compiler on amd64/arm64; the
     verification runs on linux/amd64); time.Duration is int64;
   * + - * unary- unary^ << and narrowing conversions are followed by the
     wrap of the result type, so overflow is computed, never assumed away;
   * / and % truncate towards zero (Z.quot, Z.rem); MinInt / -1 wraps to MinInt
     (quot_iNN), MinInt % -1 = 0 (Z.rem gives that);
   * & | ^ &^ and >> are Z.land Z.lor Z.lxor Z.ldiff Z.shiftr: on Z these are the
     operations on the infinite two's-complement representation and they do
     not leave the range of the operand type (lemmas land_range_u .. shr_range_u below; for the
     signed types the sign extension is what Z's representation is); a shift
     count >= the width gives 0 (<<, >> unsigned) or the sign (>> signed)
     without a special case (lemmas shl_ge_width_.., shr_ge_width_..);
   * package time, trusted model: a time.Time is ONE unbounded Z, the
     nanoseconds since the Unix epoch of the instant.  Monotonic clock readings
     and locations are not modelled (UTC(), Local() are the identity on the
     instant); the representable range of time.Time (int64 seconds since year
     1) is taken to be unbounded. *)
From Coq Require Import ZArith Bool List Lia.
Open Scope Z_scope.

(* ------------------------------------------------------------------ *)
(* wrap to the range of each integer type                              *)
(* ------------------------------------------------------------------ *)
Definition wrap_u8  (x : Z) : Z := x mod 256.
Definition wrap_u16 (x : Z) : Z := x mod 65536.
Definition wrap_u32 (x : Z) : Z := x mod 4294967296.
Definition wrap_u64 (x : Z) : Z := x mod 18446744073709551616.
Definition wrap_i8  (x : Z) : Z := (x + 128) mod 256 - 128.
Definition wrap_i16 (x : Z) : Z := (x + 32768) mod 65536 - 32768.
Definition wrap_i32 (x : Z) : Z := (x + 2147483648) mod 4294967296 - 2147483648.
Definition wrap_i64 (x : Z) : Z :=
  (x + 9223372036854775808) mod 18446744073709551616 - 9223372036854775808.

Definition in_u8  (x : Z) : Prop := 0 <= x < 256.
Definition in_u16 (x : Z) : Prop := 0 <= x < 65536.
Definition in_u32 (x : Z) : Prop := 0 <= x < 4294967296.
Definition in_u64 (x : Z) : Prop := 0 <= x < 18446744073709551616.
Definition in_i8  (x : Z) : Prop := -128 <= x < 128.
Definition in_i16 (x : Z) : Prop := -32768 <= x < 32768.
Definition in_i32 (x : Z) : Prop := -2147483648 <= x < 2147483648.
Definition in_i64 (x : Z) : Prop := -9223372036854775808 <= x < 9223372036854775808.

(* Go's / and % on integers: truncation towards zero.  Division by zero
   panics in Go; the translator guards every division whose divisor is not a
   non-zero constant, so these are never applied to a zero divisor. *)
Definition quot_u8  (x y : Z) : Z := wrap_u8  (Z.quot x y).
Definition quot_u16 (x y : Z) : Z := wrap_u16 (Z.quot x y).
Definition quot_u32 (x y : Z) : Z := wrap_u32 (Z.quot x y).
Definition quot_u64 (x y : Z) : Z := wrap_u64 (Z.quot x y).
Definition quot_i8  (x y : Z) : Z := wrap_i8  (Z.quot x y).
Definition quot_i16 (x y : Z) : Z := wrap_i16 (Z.quot x y).
Definition quot_i32 (x y : Z) : Z := wrap_i32 (Z.quot x y).
Definition quot_i64 (x y : Z) : Z := wrap_i64 (Z.quot x y).
Definition go_rem (x y : Z) : Z := Z.rem x y.

(* x << n for a count n >= 0 (a negative count panics in Go; the translator
   accepts only unsigned or constant counts) *)
Definition shl_u8  (x n : Z) : Z := wrap_u8  (Z.shiftl x n).
Definition shl_u16 (x n : Z) : Z := wrap_u16 (Z.shiftl x n).
Definition shl_u32 (x n : Z) : Z := wrap_u32 (Z.shiftl x n).
Definition shl_u64 (x n : Z) : Z := wrap_u64 (Z.shiftl x n).
Definition shl_i8  (x n : Z) : Z := wrap_i8  (Z.shiftl x n).
Definition shl_i16 (x n : Z) : Z := wrap_i16 (Z.shiftl x n).
Definition shl_i32 (x n : Z) : Z := wrap_i32 (Z.shiftl x n).
Definition shl_i64 (x n : Z) : Z := wrap_i64 (Z.shiftl x n).
(* x >> n: logical for unsigned, arithmetic for signed operands; on Z both
   are the floor division by 2^n *)
Definition go_shr (x n : Z) : Z := Z.shiftr x n.

(* unary ^x (bitwise complement) *)
Definition not_u8  (x : Z) : Z := wrap_u8  (Z.lnot x).
Definition not_u16 (x : Z) : Z := wrap_u16 (Z.lnot x).
Definition not_u32 (x : Z) : Z := wrap_u32 (Z.lnot x).
Definition not_u64 (x : Z) : Z := wrap_u64 (Z.lnot x).
Definition not_i8  (x : Z) : Z := wrap_i8  (Z.lnot x).
Definition not_i16 (x : Z) : Z := wrap_i16 (Z.lnot x).
Definition not_i32 (x : Z) : Z := wrap_i32 (Z.lnot x).
Definition not_i64 (x : Z) : Z := wrap_i64 (Z.lnot x).

(* bool *)
Definition go_bool_eq (a b : bool) : bool := Bool.eqb a b.

(* error values: nil is 0, every package-level errors.New variable a distinct
   positive number (assigned by the translator) *)
Definition err_nil : Z := 0.

(* ------------------------------------------------------------------ *)
(* package time: the trusted model                                     *)
(* ------------------------------------------------------------------ *)
Definition time_Unix (t : Z) : Z := t / 1000000000.          (* Time.Unix(): floor *)
Definition time_Nanosecond (t : Z) : Z := t mod 1000000000.  (* Time.Nanosecond() in [0, 1e9) *)
Definition time_UnixNano (t : Z) : Z := wrap_i64 t.          (* sec*1e9 + nsec computed in int64 *)
Definition time_mk (sec nsec : Z) : Z := sec * 1000000000 + nsec.   (* time.Unix(sec, nsec): any nsec *)
Definition sat_i64 (x : Z) : Z :=
  if x <? -9223372036854775808 then -9223372036854775808
  else if 9223372036854775807 <? x then 9223372036854775807 else x.
(* Time.Sub: time.go computes d in int64 with wrap and returns it only if
   u.Add(d).Equal(t); otherwise minDuration / maxDuration by the order of t, u.
   That is the saturation of the exact difference. *)
Definition time_Sub (t u : Z) : Z := sat_i64 (t - u).
Definition time_Add (t d : Z) : Z := t + d.                  (* exact *)
Definition time_Before (t u : Z) : bool := t <? u.
Definition time_After (t u : Z) : bool := u <? t.
Definition time_Equal (t u : Z) : bool := t =? u.
Definition time_Compare (t u : Z) : Z := if t <? u then -1 else if u <? t then 1 else 0.
(* the zero Time: January 1, year 1, 00:00:00 UTC *)
Definition time_zero : Z := -62135596800 * 1000000000.
Definition time_IsZero (t : Z) : bool := t =? time_zero.

(* ------------------------------------------------------------------ *)
(* lemmas                                                              *)
(* ------------------------------------------------------------------ *)
Ltac gosem_unfold :=
  unfold quot_u8, quot_u16, quot_u32, quot_u64, quot_i8, quot_i16, quot_i32, quot_i64, go_rem,
         shl_u8, shl_u16, shl_u32, shl_u64, shl_i8, shl_i16, shl_i32, shl_i64, go_shr,
         not_u8, not_u16, not_u32, not_u64, not_i8, not_i16, not_i32, not_i64,
         time_Unix, time_Nanosecond, time_UnixNano, time_mk, time_Sub, time_Add,
         time_Before, time_After, time_Equal, time_IsZero, err_nil in *.
Ltac wrap_unfold :=
  unfold wrap_u8, wrap_u16, wrap_u32, wrap_u64, wrap_i8, wrap_i16, wrap_i32, wrap_i64,
         in_u8, in_u16, in_u32, in_u64, in_i8, in_i16, in_i32, in_i64 in *.

Ltac zdm := wrap_unfold; Z.div_mod_to_equations; lia.

(* wrap is the identity on the range *)
Lemma wrap_u8_id  x : in_u8 x  -> wrap_u8 x = x.  Proof. zdm. Qed.
Lemma wrap_u16_id x : in_u16 x -> wrap_u16 x = x. Proof. zdm. Qed.
Lemma wrap_u32_id x : in_u32 x -> wrap_u32 x = x. Proof. zdm. Qed.
Lemma wrap_u64_id x : in_u64 x -> wrap_u64 x = x. Proof. zdm. Qed.
Lemma wrap_i8_id  x : in_i8 x  -> wrap_i8 x = x.  Proof. zdm. Qed.
Lemma wrap_i16_id x : in_i16 x -> wrap_i16 x = x. Proof. zdm. Qed.
Lemma wrap_i32_id x : in_i32 x -> wrap_i32 x = x. Proof. zdm. Qed.
Lemma wrap_i64_id x : in_i64 x -> wrap_i64 x = x. Proof. zdm. Qed.

(* wrap lands in the range *)
Lemma wrap_u8_range  x : in_u8 (wrap_u8 x).   Proof. zdm. Qed.
Lemma wrap_u16_range x : in_u16 (wrap_u16 x). Proof. zdm. Qed.
Lemma wrap_u32_range x : in_u32 (wrap_u32 x). Proof. zdm. Qed.
Lemma wrap_u64_range x : in_u64 (wrap_u64 x). Proof. zdm. Qed.
Lemma wrap_i8_range  x : in_i8 (wrap_i8 x).   Proof. zdm. Qed.
Lemma wrap_i16_range x : in_i16 (wrap_i16 x). Proof. zdm. Qed.
Lemma wrap_i32_range x : in_i32 (wrap_i32 x). Proof. zdm. Qed.
Lemma wrap_i64_range x : in_i64 (wrap_i64 x). Proof. zdm. Qed.

(* wrap differs from its argument by a multiple of the modulus *)
Lemma wrap_i64_cong x : exists k, wrap_i64 x = x + k * 18446744073709551616.
Proof.
  exists (- ((x + 9223372036854775808) / 18446744073709551616)). zdm.
Qed.
Lemma wrap_u64_cong x : exists k, wrap_u64 x = x + k * 18446744073709551616.
Proof. exists (- (x / 18446744073709551616)). zdm. Qed.
Lemma wrap_u32_cong x : exists k, wrap_u32 x = x + k * 4294967296.
Proof. exists (- (x / 4294967296)). zdm. Qed.

(* wrap of a wrapped operand: arithmetic is arithmetic modulo 2^64 *)
Lemma wrap_i64_mod x k : wrap_i64 (x + k * 18446744073709551616) = wrap_i64 x.
Proof.
  unfold wrap_i64.
  replace (x + k * 18446744073709551616 + 9223372036854775808)
    with (x + 9223372036854775808 + k * 18446744073709551616) by ring.
  now rewrite Z.mod_add.
Qed.
Lemma wrap_i64_idem x : wrap_i64 (wrap_i64 x) = wrap_i64 x.
Proof. apply wrap_i64_id, wrap_i64_range. Qed.
Lemma wrap_i64_add_l x y : wrap_i64 (wrap_i64 x + y) = wrap_i64 (x + y).
Proof.
  destruct (wrap_i64_cong x) as [k ->].
  replace (x + k * 18446744073709551616 + y) with (x + y + k * 18446744073709551616) by ring.
  apply wrap_i64_mod.
Qed.
Lemma wrap_i64_add_r x y : wrap_i64 (x + wrap_i64 y) = wrap_i64 (x + y).
Proof. rewrite Z.add_comm, wrap_i64_add_l. f_equal; ring. Qed.
Lemma wrap_i64_sub_l x y : wrap_i64 (wrap_i64 x - y) = wrap_i64 (x - y).
Proof. unfold Z.sub. apply wrap_i64_add_l. Qed.
Lemma wrap_i64_sub_r x y : wrap_i64 (x - wrap_i64 y) = wrap_i64 (x - y).
Proof.
  destruct (wrap_i64_cong y) as [k ->].
  replace (x - (y + k * 18446744073709551616)) with (x - y + (- k) * 18446744073709551616) by ring.
  apply wrap_i64_mod.
Qed.
Lemma wrap_i64_mul_l x y : wrap_i64 (wrap_i64 x * y) = wrap_i64 (x * y).
Proof.
  destruct (wrap_i64_cong x) as [k ->].
  replace ((x + k * 18446744073709551616) * y) with (x * y + (k * y) * 18446744073709551616) by ring.
  apply wrap_i64_mod.
Qed.
Lemma wrap_i64_mul_r x y : wrap_i64 (x * wrap_i64 y) = wrap_i64 (x * y).
Proof. rewrite Z.mul_comm, wrap_i64_mul_l. f_equal; ring. Qed.

(* conversions between integer types = re-wrap; a conversion to a type whose
   range contains the source type's range is the identity (the translator
   emits no wrap for those) *)
Lemma conv_u32_i64 x : in_u32 x -> wrap_i64 x = x. Proof. zdm. Qed.
Lemma conv_u16_i64 x : in_u16 x -> wrap_i64 x = x. Proof. zdm. Qed.
Lemma conv_u8_i64  x : in_u8 x  -> wrap_i64 x = x. Proof. zdm. Qed.
Lemma conv_u8_u64  x : in_u8 x  -> wrap_u64 x = x. Proof. zdm. Qed.
Lemma conv_u32_u64 x : in_u32 x -> wrap_u64 x = x. Proof. zdm. Qed.
Lemma conv_i32_i64 x : in_i32 x -> wrap_i64 x = x. Proof. zdm. Qed.
(* int64 -> uint64 and back is the identity on the bit pattern *)
Lemma conv_i64_u64_i64 x : in_i64 x -> wrap_i64 (wrap_u64 x) = x. Proof. zdm. Qed.
Lemma conv_u64_i64_u64 x : in_u64 x -> wrap_u64 (wrap_i64 x) = x. Proof. zdm. Qed.
Lemma conv_nonneg_i64_u64 x : 0 <= x -> in_i64 x -> wrap_u64 x = x. Proof. zdm. Qed.

(* division: the one overflowing case *)
Example quot_i64_min_m1 : quot_i64 (-9223372036854775808) (-1) = -9223372036854775808.
Proof. reflexivity. Qed.
Example rem_i64_min_m1 : go_rem (-9223372036854775808) (-1) = 0.
Proof. reflexivity. Qed.
Lemma quot_i64_exact x y : in_i64 x -> in_i64 y -> y <> 0 ->
  (x <> -9223372036854775808 \/ y <> -1) -> quot_i64 x y = Z.quot x y.
Proof.
  intros Hx Hy Hy0 Hm. unfold quot_i64. apply wrap_i64_id.
  unfold in_i64 in *. Z.quot_rem_to_equations. nia.
Qed.
Lemma quot_i64_pos_const x c : in_i64 x -> 0 < c -> quot_i64 x c = Z.quot x c.
Proof.
  intros Hx Hc. unfold quot_i64. apply wrap_i64_id.
  unfold in_i64 in *. Z.quot_rem_to_equations. nia.
Qed.
Lemma rem_range x y : y <> 0 -> Z.abs (go_rem x y) < Z.abs y.
Proof. intros. unfold go_rem. apply Z.rem_bound_abs; assumption. Qed.

(* shifts *)
Lemma shr_is_div x n : 0 <= n -> go_shr x n = x / 2 ^ n.
Proof. intros. unfold go_shr. apply Z.shiftr_div_pow2; assumption. Qed.
Lemma shl_is_mul x n : 0 <= n -> Z.shiftl x n = x * 2 ^ n.
Proof. intros. apply Z.shiftl_mul_pow2; assumption. Qed.
Lemma shr_ge_width_u x w n : 0 <= x < 2 ^ w -> 0 <= w <= n -> go_shr x n = 0.
Proof.
  intros Hx Hn. rewrite shr_is_div by lia. apply Z.div_small.
  split; [lia|]. apply Z.lt_le_trans with (2 ^ w); [lia|].
  apply Z.pow_le_mono_r; lia.
Qed.
Lemma shr_ge_width_neg x w n : - 2 ^ w <= x < 0 -> 0 <= w <= n -> go_shr x n = -1.
Proof.
  intros Hx Hn. rewrite shr_is_div by lia.
  assert (Hp : 2 ^ w <= 2 ^ n) by (apply Z.pow_le_mono_r; lia).
  assert (Hp0 : 0 < 2 ^ w) by (apply Z.pow_pos_nonneg; lia).
  symmetry. apply Z.div_unique with (r := x + 2 ^ n); lia.
Qed.
Lemma shl_ge_width_u64 x n : 64 <= n -> shl_u64 x n = 0.
Proof.
  intros Hn. unfold shl_u64, wrap_u64. rewrite Z.shiftl_mul_pow2 by lia.
  replace n with (64 + (n - 64)) by ring. rewrite Z.pow_add_r by lia.
  change (2 ^ 64) with 18446744073709551616.
  replace (x * (18446744073709551616 * 2 ^ (n - 64))) with ((x * 2 ^ (n - 64)) * 18446744073709551616) by ring.
  apply Z.mod_mul. lia.
Qed.
Lemma shl_ge_width_i64 x n : 64 <= n -> shl_i64 x n = 0.
Proof.
  intros Hn. unfold shl_i64. rewrite Z.shiftl_mul_pow2 by lia.
  replace n with (64 + (n - 64)) by ring. rewrite Z.pow_add_r by lia.
  change (2 ^ 64) with 18446744073709551616.
  replace (x * (18446744073709551616 * 2 ^ (n - 64))) with (0 + (x * 2 ^ (n - 64)) * 18446744073709551616) by ring.
  rewrite wrap_i64_mod. reflexivity.
Qed.
Lemma shl_ge_width_u8 x n : 8 <= n -> shl_u8 x n = 0.
Proof.
  intros Hn. unfold shl_u8, wrap_u8. rewrite Z.shiftl_mul_pow2 by lia.
  replace n with (8 + (n - 8)) by ring. rewrite Z.pow_add_r by lia.
  change (2 ^ 8) with 256.
  replace (x * (256 * 2 ^ (n - 8))) with ((x * 2 ^ (n - 8)) * 256) by ring.
  apply Z.mod_mul. lia.
Qed.
Lemma shl_ge_width_u16 x n : 16 <= n -> shl_u16 x n = 0.
Proof.
  intros Hn. unfold shl_u16, wrap_u16. rewrite Z.shiftl_mul_pow2 by lia.
  replace n with (16 + (n - 16)) by ring. rewrite Z.pow_add_r by lia.
  change (2 ^ 16) with 65536.
  replace (x * (65536 * 2 ^ (n - 16))) with ((x * 2 ^ (n - 16)) * 65536) by ring.
  apply Z.mod_mul. lia.
Qed.
Lemma shl_ge_width_u32 x n : 32 <= n -> shl_u32 x n = 0.
Proof.
  intros Hn. unfold shl_u32, wrap_u32. rewrite Z.shiftl_mul_pow2 by lia.
  replace n with (32 + (n - 32)) by ring. rewrite Z.pow_add_r by lia.
  change (2 ^ 32) with 4294967296.
  replace (x * (4294967296 * 2 ^ (n - 32))) with ((x * 2 ^ (n - 32)) * 4294967296) by ring.
  apply Z.mod_mul. lia.
Qed.

(* bit operations in arithmetic terms *)
Lemma land_ones_mod x k : 0 <= k -> Z.land x (2 ^ k - 1) = x mod 2 ^ k.
Proof.
  intros. replace (2 ^ k - 1) with (Z.ones k) by (rewrite Z.ones_equiv; lia).
  apply Z.land_ones; assumption.
Qed.
Lemma land_3 x : Z.land x 3 = x mod 4.     Proof. apply (land_ones_mod x 2); lia. Qed.
Lemma land_7 x : Z.land x 7 = x mod 8.     Proof. apply (land_ones_mod x 3); lia. Qed.
Lemma land_63 x : Z.land x 63 = x mod 64.  Proof. apply (land_ones_mod x 6); lia. Qed.
Lemma land_255 x : Z.land x 255 = x mod 256. Proof. apply (land_ones_mod x 8); lia. Qed.
Lemma ldiff_ones x k : 0 <= k -> Z.ldiff x (2 ^ k - 1) = x / 2 ^ k * 2 ^ k.
Proof.
  intros Hk. replace (2 ^ k - 1) with (Z.ones k) by (rewrite Z.ones_equiv; lia).
  rewrite Z.ldiff_ones_r by assumption.
  rewrite Z.shiftr_div_pow2, Z.shiftl_mul_pow2 by assumption. reflexivity.
Qed.
Lemma ldiff_3 x : Z.ldiff x 3 = x / 4 * 4. Proof. apply (ldiff_ones x 2); lia. Qed.

(* the bit operations do not leave the unsigned ranges *)
Lemma land_range_u a b w : 0 <= w -> 0 <= a < 2 ^ w -> 0 <= b -> 0 <= Z.land a b < 2 ^ w.
Proof.
  intros Hw Ha Hb. split. apply Z.land_nonneg; lia.
  destruct (Z.eq_dec (Z.land a b) 0) as [->|Hn]. apply Z.pow_pos_nonneg; lia.
  assert (Hl : 0 <= Z.land a b) by (apply Z.land_nonneg; lia).
  apply Z.log2_lt_pow2; [lia|].
  destruct (Z.eq_dec a 0) as [->|Ha0]. rewrite Z.land_0_l in Hn. lia.
  pose proof (Z.log2_land a b ltac:(lia) Hb) as Hm.
  assert (Hla : Z.log2 a < w) by (apply Z.log2_lt_pow2; lia).
  lia.
Qed.
Lemma log2_lt_w x w : 0 < w -> 0 <= x < 2 ^ w -> Z.log2 x < w.
Proof.
  intros Hw Hx. destruct (Z.eq_dec x 0) as [->|Hx0]. simpl; lia.
  apply Z.log2_lt_pow2; lia.
Qed.
Lemma lor_range_u a b w : 0 <= w -> 0 <= a < 2 ^ w -> 0 <= b < 2 ^ w -> 0 <= Z.lor a b < 2 ^ w.
Proof.
  intros Hw Ha Hb. split. apply Z.lor_nonneg; lia.
  destruct (Z.eq_dec w 0) as [->|Hw0].
  - change (2 ^ 0) with 1 in *. assert (a = 0) by lia. assert (b = 0) by lia. subst. simpl. lia.
  - destruct (Z.eq_dec (Z.lor a b) 0) as [->|Hn]. apply Z.pow_pos_nonneg; lia.
    assert (Hl : 0 <= Z.lor a b) by (apply Z.lor_nonneg; lia).
    apply Z.log2_lt_pow2; [lia|].
    rewrite Z.log2_lor by lia.
    apply Z.max_lub_lt; apply log2_lt_w; lia.
Qed.
Lemma lxor_range_u a b w : 0 <= w -> 0 <= a < 2 ^ w -> 0 <= b < 2 ^ w -> 0 <= Z.lxor a b < 2 ^ w.
Proof.
  intros Hw Ha Hb. split. apply Z.lxor_nonneg; lia.
  destruct (Z.eq_dec w 0) as [->|Hw0].
  - change (2 ^ 0) with 1 in *. assert (a = 0) by lia. assert (b = 0) by lia. subst. simpl. lia.
  - destruct (Z.eq_dec (Z.lxor a b) 0) as [->|Hn]. apply Z.pow_pos_nonneg; lia.
    assert (Hl : 0 <= Z.lxor a b) by (apply Z.lxor_nonneg; lia).
    apply Z.log2_lt_pow2; [lia|].
    apply Z.le_lt_trans with (Z.max (Z.log2 a) (Z.log2 b)). apply Z.log2_lxor; lia.
    apply Z.max_lub_lt; apply log2_lt_w; lia.
Qed.
Lemma ldiff_range_u a b w : 0 <= w -> 0 <= a < 2 ^ w -> 0 <= b -> 0 <= Z.ldiff a b < 2 ^ w.
Proof.
  intros Hw Ha Hb.
  assert (Hnn : 0 <= Z.ldiff a b) by (apply Z.ldiff_nonneg; lia).
  split; [assumption|].
  destruct (Z.eq_dec (Z.ldiff a b) 0) as [->|Hn]. apply Z.pow_pos_nonneg; lia.
  apply Z.log2_lt_pow2; [lia|].
  destruct (Z_lt_le_dec (Z.log2 (Z.ldiff a b)) w) as [Hlt|Hge]; [assumption|exfalso].
  assert (Hbit : Z.testbit (Z.ldiff a b) (Z.log2 (Z.ldiff a b)) = true) by (apply Z.bit_log2; lia).
  rewrite Z.ldiff_spec in Hbit.
  assert (Hza : Z.testbit a (Z.log2 (Z.ldiff a b)) = false).
  { destruct (Z.eq_dec a 0) as [->|Ha0]. apply Z.bits_0.
    apply Z.bits_above_log2; [lia|].
    assert (Z.log2 a < w) by (apply Z.log2_lt_pow2; lia). lia. }
  rewrite Hza in Hbit. discriminate.
Qed.
Lemma shr_range_u a n w : 0 <= n -> 0 <= a < 2 ^ w -> 0 <= go_shr a n < 2 ^ w.
Proof.
  intros Hn Ha. rewrite shr_is_div by assumption.
  assert (Hp : 0 < 2 ^ n) by (apply Z.pow_pos_nonneg; lia).
  split. apply Z.div_pos; lia.
  apply Z.le_lt_trans with a; [|lia]. apply Z.div_le_upper_bound; nia.
Qed.
(* signed operands: >> keeps the range (floor division moves towards 0 or -1) *)
Lemma shr_range_i a n w : 0 <= n -> - 2 ^ w <= a < 2 ^ w -> - 2 ^ w <= go_shr a n < 2 ^ w.
Proof.
  intros Hn Ha. rewrite shr_is_div by assumption.
  assert (Hp : 0 < 2 ^ n) by (apply Z.pow_pos_nonneg; lia).
  assert (H1 : 1 <= 2 ^ n) by lia.
  pose proof (Z.div_mod a (2 ^ n) ltac:(lia)) as Hd.
  pose proof (Z.mod_pos_bound a (2 ^ n) Hp) as Hm. nia.
Qed.

(* package time *)
Lemma time_Nanosecond_range t : 0 <= time_Nanosecond t < 1000000000.
Proof. unfold time_Nanosecond. apply Z.mod_pos_bound. lia. Qed.
Lemma time_split t : t = time_mk (time_Unix t) (time_Nanosecond t).
Proof. unfold time_mk, time_Unix, time_Nanosecond. Z.div_mod_to_equations. lia. Qed.
Lemma time_mk_Unix s n : 0 <= n < 1000000000 -> time_Unix (time_mk s n) = s.
Proof. unfold time_mk, time_Unix. intros. Z.div_mod_to_equations. lia. Qed.
Lemma time_mk_Nanosecond s n : 0 <= n < 1000000000 -> time_Nanosecond (time_mk s n) = n.
Proof. unfold time_mk, time_Nanosecond. intros. Z.div_mod_to_equations. lia. Qed.
Lemma sat_i64_range x : in_i64 (sat_i64 x).
Proof.
  unfold sat_i64, in_i64.
  destruct (x <? -9223372036854775808) eqn:E1; [lia|].
  destruct (9223372036854775807 <? x) eqn:E2; lia.
Qed.
Lemma sat_i64_id x : in_i64 x -> sat_i64 x = x.
Proof.
  unfold sat_i64, in_i64. intros.
  destruct (x <? -9223372036854775808) eqn:E1; [lia|].
  destruct (9223372036854775807 <? x) eqn:E2; lia.
Qed.
Lemma time_Sub_range t u : in_i64 (time_Sub t u).
Proof. apply sat_i64_range. Qed.
Lemma time_Sub_sign t u : (time_Sub t u <? 0) = (t <? u).
Proof.
  unfold time_Sub, sat_i64.
  destruct (t - u <? -9223372036854775808) eqn:E1; [lia|].
  destruct (9223372036854775807 <? t - u) eqn:E2; lia.
Qed.

(* | of two values with disjoint bits is + (big-endian assembly of bytes) *)
Lemma lor_disjoint_add a b k : 0 <= k -> a mod 2 ^ k = 0 -> 0 <= b < 2 ^ k -> Z.lor a b = a + b.
Proof.
  intros Hk Ha Hb.
  assert (Hl : Z.land a b = 0).
  { apply Z.bits_inj'. intros n Hn. rewrite Z.land_spec, Z.bits_0.
    destruct (Z_lt_le_dec n k) as [Hlt|Hge].
    - assert (Z.testbit a n = false) as ->; [|reflexivity].
      rewrite <- (Z.mod_pow2_bits_low a k n) by lia. rewrite Ha. apply Z.bits_0.
    - assert (Z.testbit b n = false) as ->; [|apply andb_false_r].
      destruct (Z.eq_dec b 0) as [->|Hb0]. apply Z.bits_0.
      apply Z.bits_above_log2; [lia|].
      assert (Z.log2 b < k) by (apply Z.log2_lt_pow2; lia). lia. }
  rewrite <- Z.lxor_lor by assumption. symmetry. apply Z.add_nocarry_lxor. assumption.
Qed.
