(* Proofs about the NTS extension-field codec model: EncodePacket writes the wire format
   field by field, DecodePacket reads every field back as the kind that was written. *)
From ST Require Import Base.Ints Base.Bytes Model.CodecNts.
Open Scope Z_scope.
Ltac Zify.zify_post_hook ::= Z.div_mod_to_equations.

(* ---------- lengths ---------- *)

Lemma pad4len_Z n : Z.of_nat (pad4len n) = (Z.of_nat n + 3) / 4 * 4.
Proof. unfold pad4len. rewrite Nat2Z.inj_mul, Nat2Z.inj_div, Nat2Z.inj_add. reflexivity. Qed.

Lemma pad4len_ge n : (n <= pad4len n < n + 4)%nat /\ (pad4len n mod 4 = 0)%nat.
Proof.
  split; [pose proof (pad4len_Z n); lia|]. unfold pad4len. apply Nat.mod_mul. lia.
Qed.

Lemma pad4_length v : length (pad4 v) = pad4len (length v).
Proof. unfold pad4. rewrite app_length, repeat_length. pose proof (pad4len_ge (length v)). lia. Qed.

Lemma ext_field_length ty v : length (ext_field ty v) = (4 + pad4len (length v))%nat.
Proof. unfold ext_field. rewrite !app_length, !be_enc_length, pad4_length. lia. Qed.

Lemma auth_field_length nonce ct :
  length (auth_field nonce ct) = (8 + pad4len (length nonce) + pad4len (length ct))%nat.
Proof. unfold auth_field. rewrite !app_length, !be_enc_length, !pad4_length. lia. Qed.

Lemma pad4_ok v : bytes_ok v -> bytes_ok (pad4 v).
Proof. intros H. unfold pad4. apply bytes_ok_app. split; [exact H | apply bytes_ok_repeat0]. Qed.

(* ---------- the writer: state = what has been written ++ what is left of the buffer ---------- *)

Definition stof (done rest : list Z) : wstate := (done ++ rest, length done).

Lemma stof_eq d1 r1 d2 r2 : d1 = d2 -> r1 = r2 -> stof d1 r1 = stof d2 r2.
Proof. intros -> ->. reflexivity. Qed.

Lemma put_u16_st done rest v : (2 <= length rest)%nat ->
  put_u16 (stof done rest) v = Ok (stof (done ++ be_enc 2 v) (skipn 2 rest)).
Proof.
  intros H. unfold put_u16, stof. rewrite app_length.
  destruct (Nat.ltb_spec (length done + length rest) (length done + 2)) as [Hl|_]; [lia|].
  f_equal. f_equal.
  - rewrite write_app by (rewrite ?be_enc_length; auto). rewrite be_enc_length. reflexivity.
  - rewrite app_length, be_enc_length. reflexivity.
Qed.

Lemma put_copy_st done rest src : (length src <= length rest)%nat ->
  put_copy (stof done rest) src = Ok (stof (done ++ src) (skipn (length src) rest)).
Proof.
  intros H. unfold put_copy, stof. rewrite app_length.
  destruct (Nat.ltb_spec (length done + length rest) (length done)) as [Hl|_]; [lia|].
  replace (Nat.min (length src) (length done + length rest - length done)) with (length src) by lia.
  rewrite firstn_all. f_equal. f_equal.
  - apply write_app; auto.
  - rewrite app_length. reflexivity.
Qed.

Lemma field_pack_st ty done rest v :
  (4 + pad4len (length v) <= length rest)%nat -> (length rest <= 1024)%nat ->
  field_pack ty (stof done rest) v =
  Ok (stof (done ++ ext_field ty v) (skipn (4 + pad4len (length v)) rest)).
Proof.
  intros Hfit Hmax. pose proof (pad4len_ge (length v)) as [Hp _]. unfold field_pack.
  rewrite put_u16_st by lia. cbn [obind].
  rewrite put_u16_st by (rewrite skipn_length; lia). cbn [obind].
  rewrite put_copy_st by (rewrite !skipn_length; lia). cbn [obind].
  rewrite put_copy_st by (rewrite repeat_length, !skipn_length; lia).
  f_equal. apply stof_eq.
  - unfold ext_field, pad4. rewrite <- !app_assoc. do 2 f_equal. f_equal.
    apply be_enc_congr. unfold u16. change (256 ^ Z.of_nat 2) with 65536.
    rewrite Z.mod_mod by lia. rewrite (Z.mod_small (Z.of_nat (pad4len (length v)))) by lia. reflexivity.
  - rewrite repeat_length, !skipn_skipn. f_equal. lia.
Qed.

Lemma pack_all_st ty cs : forall done rest,
  (length (flat_map (ext_field ty) cs) <= length rest)%nat -> (length rest <= 1024)%nat ->
  pack_all (field_pack ty) (stof done rest) cs =
  Ok (stof (done ++ flat_map (ext_field ty) cs) (skipn (length (flat_map (ext_field ty) cs)) rest)).
Proof.
  induction cs as [|c cs IH]; intros done rest Hfit Hmax; cbn [pack_all flat_map].
  - rewrite app_nil_r. reflexivity.
  - cbn [flat_map] in Hfit. rewrite app_length, ext_field_length in Hfit.
    rewrite field_pack_st by lia. cbn [obind].
    rewrite IH by (rewrite skipn_length; lia).
    f_equal. apply stof_eq.
    + rewrite <- app_assoc. reflexivity.
    + rewrite skipn_skipn, app_length, ext_field_length. reflexivity.
Qed.

Lemma cpad_nat c : 0 <= c < 65536 ->
  Z.to_nat (u16 (- c) mod 4) = (pad4len (Z.to_nat c) - Z.to_nat c)%nat.
Proof. intros H. pose proof (pad4len_Z (Z.to_nat c)). unfold u16. lia. Qed.

Lemma auth_pack_st done rest nonce ct :
  length nonce = 16%nat ->
  (8 + 16 + pad4len (length ct) <= length rest)%nat -> (length rest <= 1024)%nat ->
  auth_pack (stof done rest) nonce ct =
  Ok (stof (done ++ auth_field nonce ct) (skipn (8 + 16 + pad4len (length ct)) rest)).
Proof.
  intros Hn Hfit Hmax. pose proof (pad4len_ge (length ct)) as [Hp _]. unfold auth_pack.
  assert (Hnp : u16 (- u16 (Z.of_nat (length nonce))) mod 4 = 0) by (rewrite Hn; reflexivity).
  rewrite Hnp. assert (Hnl : u16 (Z.of_nat (length nonce)) = 16) by (rewrite Hn; reflexivity). rewrite Hnl.
  assert (Hcl : u16 (Z.of_nat (length ct)) = Z.of_nat (length ct)) by (unfold u16; apply Z.mod_small; lia).
  rewrite Hcl.
  assert (Hcp : Z.to_nat (u16 (- Z.of_nat (length ct)) mod 4) = (pad4len (length ct) - length ct)%nat).
  { rewrite cpad_nat by lia. rewrite Nat2Z.id. reflexivity. }
  rewrite Hcp.
  rewrite put_u16_st by lia. cbn [obind].
  rewrite put_u16_st by (rewrite !skipn_length; lia). cbn [obind].
  rewrite put_u16_st by (rewrite !skipn_length; lia). cbn [obind].
  rewrite put_u16_st by (rewrite !skipn_length; lia). cbn [obind].
  rewrite put_copy_st by (rewrite !skipn_length; lia). cbn [obind].
  rewrite put_copy_st by (rewrite !skipn_length; simpl; lia). cbn [obind].
  rewrite put_copy_st by (rewrite !skipn_length; simpl; lia). cbn [obind].
  rewrite put_copy_st by (rewrite repeat_length, !skipn_length; simpl; lia).
  f_equal. apply stof_eq.
  - unfold auth_field, pad4. rewrite Hn. change (pad4len 16 - 16)%nat with 0%nat.
    change (Z.to_nat 0) with 0%nat. cbn [repeat]. rewrite <- !app_assoc. cbn [app]. do 2 f_equal. f_equal.
    + apply be_enc_congr. unfold u16. change (256 ^ Z.of_nat 2) with 65536. rewrite Z.mod_mod by lia.
      f_equal. change (pad4len 16) with 16%nat.
      assert (Z.of_nat (length ct) mod 4 + (u16 (- Z.of_nat (length ct)) mod 4) = 0 \/
              Z.of_nat (length ct) mod 4 + (u16 (- Z.of_nat (length ct)) mod 4) = 4) by (unfold u16; lia).
      pose proof (pad4len_Z (length ct)). unfold u16 in *. lia.
  - rewrite repeat_length, !skipn_skipn, Hn. change (Z.to_nat 0) with 0%nat. cbn [repeat length].
    f_equal. lia.
Qed.

(* ---------- EncodePacket produces the wire format ---------- *)

Definition nts_wire_len (p : nts_in) (ct : list Z) : nat :=
  (48 + (4 + pad4len (length (ni_id p)))
   + length (flat_map (ext_field ext_cookie) (ni_cookies p))
   + length (flat_map (ext_field ext_cookie_placeholder) (ni_placeholders p))
   + (8 + 16 + pad4len (length ct)))%nat.

Lemma nts_wire_length hdr p nonce ct : length hdr = 48%nat -> length nonce = 16%nat ->
  length (nts_wire hdr p nonce ct) = nts_wire_len p ct.
Proof.
  intros Hh Hn. unfold nts_wire, nts_wire_len.
  rewrite !app_length, ext_field_length, auth_field_length, Hh, Hn. change (pad4len 16) with 16%nat. lia.
Qed.

Theorem nts_encode_wire hdr tail p nonce ct :
  length hdr = 48%nat ->
  (32 <= length (ni_id p))%nat -> length nonce = 16%nat ->
  (nts_wire_len p ct <= 1024)%nat ->
  nts_encode hdr tail p nonce ct = Ok (nts_wire hdr p nonce ct).
Proof.
  intros Hh Hid Hn Hfit. unfold nts_encode. rewrite Hh. cbn [Nat.eqb negb ntp_hdr_len].
  change (48 =? 48)%nat with true. cbn [negb]. unfold ntp_hdr_len, max_packet_len.
  set (tl := if (length tail <? 1024 - 48)%nat then repeat 0 (1024 - 48) else firstn (1024 - 48) tail).
  assert (Htl : length tl = 976%nat).
  { unfold tl. destruct (Nat.ltb_spec (length tail) (1024 - 48)) as [H|H]; [apply repeat_length|].
    rewrite firstn_length. change (1024 - 48)%nat with 976%nat in *. lia. }
  replace (hdr ++ tl, 48%nat) with (stof hdr tl) by (unfold stof; rewrite Hh; reflexivity).
  unfold nts_wire_len in Hfit. unfold uid_pack.
  destruct (Nat.ltb_spec (length (ni_id p)) 32) as [H|_]; [lia|].
  rewrite field_pack_st by lia. cbn [obind].
  rewrite pack_all_st by (rewrite ?skipn_length; lia). cbn [obind].
  rewrite pack_all_st by (rewrite ?skipn_length; lia). cbn [obind].
  rewrite auth_pack_st by (rewrite ?skipn_length; lia).
  unfold stof. rewrite firstn_app_exact by reflexivity.
  unfold nts_wire. rewrite <- !app_assoc. reflexivity.
Qed.

(* ---------- DecodePacket reads the wire format back ---------- *)

Lemma get_u16_app pre v rest : 0 <= v < 65536 ->
  get_u16 (pre ++ be_enc 2 v ++ rest) (length pre) = v.
Proof.
  intros H. unfold get_u16, slice. rewrite skipn_app_exact by reflexivity.
  rewrite firstn_app_exact by apply be_enc_length. apply (be_dec_enc 2). exact H.
Qed.

(* a field header (type, length) followed by its body, somewhere in the packet *)
Lemma field_hdr pre t l body : 0 <= t < 65536 -> 0 <= l < 65536 ->
  let b := pre ++ be_enc 2 t ++ be_enc 2 l ++ body in
  get_u16 b (length pre) = t /\ get_u16 b (length pre + 2) = l /\ skipn (length pre + 4) b = body.
Proof.
  intros Ht Hl b. unfold b. split; [apply get_u16_app; exact Ht|]. split.
  - rewrite (app_assoc pre). replace (length pre + 2)%nat with (length (pre ++ be_enc 2 t))
      by (rewrite app_length, be_enc_length; reflexivity).
    apply get_u16_app. exact Hl.
  - rewrite (app_assoc pre), (app_assoc (pre ++ be_enc 2 t)).
    apply skipn_app_exact. rewrite !app_length, !be_enc_length. lia.
Qed.

Lemma zpad_app_exact v post : zpad (length v) (v ++ post) = v.
Proof.
  unfold zpad. rewrite firstn_app_exact by reflexivity. rewrite app_length.
  replace (length v - (length v + length post))%nat with 0%nat by lia. apply app_nil_r.
Qed.

Lemma ext_field_split ty v : ext_field ty v = be_enc 2 ty ++ be_enc 2 (4 + Z.of_nat (pad4len (length v))) ++ pad4 v.
Proof. reflexivity. Qed.

(* one loop iteration over a well-formed TLV field of a given type *)
Section Step.
  Variables (b pre post v : list Z) (ty : Z) (fuel : nat) (p : nts_pkt) (fu : bool).
  Hypothesis Hb : b = pre ++ ext_field ty v ++ post.
  Hypothesis Hty : 0 <= ty < 65536.
  Hypothesis Hsmall : (length b <= 1024)%nat.
  Hypothesis Hmore : (28 <= 4 + pad4len (length v) + length post)%nat.

  Let len := 4 + Z.of_nat (pad4len (length v)).

  Lemma step_facts :
    get_u16 b (length pre) = ty /\ get_u16 b (length pre + 2) = len /\
    zpad (Z.to_nat (len - 4)) (skipn (length pre + 4) b) = pad4 v /\
    (length pre + 4 + Z.to_nat (len - 4))%nat = length (pre ++ ext_field ty v) /\
    ((28 <=? length b - length pre)%nat = true) /\ (len <? 4) = false.
  Proof.
    assert (Hlen : 0 <= len < 65536).
    { unfold len. assert (length (ext_field ty v) <= 1024)%nat.
      { rewrite Hb, !app_length in Hsmall. lia. }
      rewrite ext_field_length in H. lia. }
    destruct (field_hdr pre ty len (pad4 v ++ post) Hty Hlen) as (H1 & H2 & H3).
    assert (Hbb : b = pre ++ be_enc 2 ty ++ be_enc 2 len ++ pad4 v ++ post).
    { rewrite Hb, ext_field_split, <- !app_assoc. reflexivity. }
    rewrite <- Hbb in H1, H2, H3.
    assert (Hl4 : Z.to_nat (len - 4) = length (pad4 v)).
    { unfold len. rewrite pad4_length. lia. }
    repeat split; auto.
    - rewrite H3, Hl4. apply zpad_app_exact.
    - rewrite Hl4, app_length, ext_field_length, pad4_length. lia.
    - apply Nat.leb_le. rewrite Hb, !app_length, ext_field_length. lia.
    - apply Z.ltb_ge. unfold len. lia.
  Qed.
End Step.

Lemma dec_step_uid b pre post v fuel p fa :
  b = pre ++ ext_field ext_unique_id v ++ post -> (length b <= 1024)%nat -> (32 <= length v)%nat ->
  nts_decode_loop (S fuel) b (length pre) p fa false =
  nts_decode_loop fuel b (length (pre ++ ext_field ext_unique_id v))
    (set_uid p (ext_of ext_unique_id v)) true false.
Proof.
  intros Hb Hs Hv.
  destruct (step_facts b pre post v ext_unique_id Hb) as (H1 & H2 & H3 & H4 & H5 & H6);
    [unfold ext_unique_id; lia | exact Hs | pose proof (pad4len_ge (length v)); lia |].
  cbn [nts_decode_loop]. rewrite H5. cbn [negb andb]. rewrite H1, H2, H6.
  change (ext_unique_id =? ext_unique_id) with true. cbv iota.
  assert (Hvl : (Z.to_nat (4 + Z.of_nat (pad4len (length v)) - 4) <? 32)%nat = false).
  { apply Nat.ltb_ge. pose proof (pad4len_ge (length v)). lia. }
  rewrite Hvl, H3, H4. reflexivity.
Qed.

Lemma dec_step_cookie b pre post v fuel p fu :
  b = pre ++ ext_field ext_cookie v ++ post -> (length b <= 1024)%nat ->
  (28 <= 4 + pad4len (length v) + length post)%nat ->
  nts_decode_loop (S fuel) b (length pre) p fu false =
  nts_decode_loop fuel b (length (pre ++ ext_field ext_cookie v))
    (add_cookie p (ext_of ext_cookie v)) fu false.
Proof.
  intros Hb Hs Hm.
  destruct (step_facts b pre post v ext_cookie Hb) as (H1 & H2 & H3 & H4 & H5 & H6);
    [unfold ext_cookie; lia | exact Hs | exact Hm |].
  cbn [nts_decode_loop]. rewrite H5. cbn [negb andb]. rewrite H1, H2, H6.
  change (ext_cookie =? ext_unique_id) with false. change (ext_cookie =? ext_authenticator) with false.
  change (ext_cookie =? ext_cookie) with true. cbv iota. rewrite H3, H4. reflexivity.
Qed.

Lemma dec_step_placeholder b pre post v fuel p fu :
  b = pre ++ ext_field ext_cookie_placeholder v ++ post -> (length b <= 1024)%nat ->
  (28 <= 4 + pad4len (length v) + length post)%nat ->
  nts_decode_loop (S fuel) b (length pre) p fu false =
  nts_decode_loop fuel b (length (pre ++ ext_field ext_cookie_placeholder v))
    (add_placeholder p (ext_cookie_placeholder, 4 + Z.of_nat (pad4len (length v)))) fu false.
Proof.
  intros Hb Hs Hm.
  destruct (step_facts b pre post v ext_cookie_placeholder Hb) as (H1 & H2 & H3 & H4 & H5 & H6);
    [unfold ext_cookie_placeholder; lia | exact Hs | exact Hm |].
  cbn [nts_decode_loop]. rewrite H5. cbn [negb andb]. rewrite H1, H2, H6.
  change (ext_cookie_placeholder =? ext_unique_id) with false.
  change (ext_cookie_placeholder =? ext_authenticator) with false.
  change (ext_cookie_placeholder =? ext_cookie) with false.
  change (ext_cookie_placeholder =? ext_cookie_placeholder) with true. cbv iota. rewrite H4. reflexivity.
Qed.

Definition add_cookies p l := {| np_uid := np_uid p; np_cookies := np_cookies p ++ l;
  np_placeholders := np_placeholders p; np_auth := np_auth p |}.
Definition add_placeholders p l := {| np_uid := np_uid p; np_cookies := np_cookies p;
  np_placeholders := np_placeholders p ++ l; np_auth := np_auth p |}.

Lemma dec_cookies cs : forall b pre post fuel p fu,
  b = pre ++ flat_map (ext_field ext_cookie) cs ++ post -> (length b <= 1024)%nat -> (28 <= length post)%nat ->
  nts_decode_loop (length cs + fuel) b (length pre) p fu false =
  nts_decode_loop fuel b (length (pre ++ flat_map (ext_field ext_cookie) cs))
    (add_cookies p (map (ext_of ext_cookie) cs)) fu false.
Proof.
  induction cs as [|c cs IH]; intros b pre post fuel p fu Hb Hs Hp.
  - cbn [flat_map map length Nat.add]. rewrite app_nil_r. destruct p; unfold add_cookies; simpl.
    rewrite app_nil_r. reflexivity.
  - cbn [flat_map] in Hb. rewrite <- app_assoc in Hb.
    cbn [length Nat.add].
    rewrite (dec_step_cookie b pre (flat_map (ext_field ext_cookie) cs ++ post) c) by (auto; rewrite app_length; lia).
    assert (Hb' : b = (pre ++ ext_field ext_cookie c) ++ flat_map (ext_field ext_cookie) cs ++ post)
      by (rewrite Hb, <- app_assoc; reflexivity).
    rewrite (IH b (pre ++ ext_field ext_cookie c) post fuel _ fu Hb' Hs Hp).
    cbn [flat_map map]. rewrite <- app_assoc. f_equal.
    destruct p; unfold add_cookies, add_cookie; simpl. rewrite <- app_assoc. reflexivity.
Qed.

Definition ph_of (c : list Z) : Z * Z := (ext_cookie_placeholder, 4 + Z.of_nat (pad4len (length c))).

Lemma dec_placeholders cs : forall b pre post fuel p fu,
  b = pre ++ flat_map (ext_field ext_cookie_placeholder) cs ++ post -> (length b <= 1024)%nat -> (28 <= length post)%nat ->
  nts_decode_loop (length cs + fuel) b (length pre) p fu false =
  nts_decode_loop fuel b (length (pre ++ flat_map (ext_field ext_cookie_placeholder) cs))
    (add_placeholders p (map ph_of cs)) fu false.
Proof.
  induction cs as [|c cs IH]; intros b pre post fuel p fu Hb Hs Hp.
  - cbn [flat_map map length Nat.add]. rewrite app_nil_r. destruct p; unfold add_placeholders; simpl.
    rewrite app_nil_r. reflexivity.
  - cbn [flat_map] in Hb. rewrite <- app_assoc in Hb.
    cbn [length Nat.add].
    rewrite (dec_step_placeholder b pre (flat_map (ext_field ext_cookie_placeholder) cs ++ post) c)
      by (auto; rewrite app_length; lia).
    assert (Hb' : b = (pre ++ ext_field ext_cookie_placeholder c) ++ flat_map (ext_field ext_cookie_placeholder) cs ++ post)
      by (rewrite Hb, <- app_assoc; reflexivity).
    rewrite (IH b (pre ++ ext_field ext_cookie_placeholder c) post fuel _ fu Hb' Hs Hp).
    cbn [flat_map map]. rewrite <- app_assoc. f_equal.
    destruct p; unfold add_placeholders, add_placeholder, ph_of; simpl. rewrite <- app_assoc. reflexivity.
Qed.

(* the authenticator ends the loop *)
Lemma dec_step_auth b pre nonce ct fuel p :
  b = pre ++ auth_field nonce ct -> (length b <= 1024)%nat -> length nonce = 16%nat -> (16 <= length ct)%nat ->
  nts_decode_loop (S fuel) b (length pre) p true false =
  (set_auth p (ext_authenticator, 8 + Z.of_nat (pad4len (length nonce)) + Z.of_nat (pad4len (length ct)), nonce, ct), d_ok).
Proof.
  intros Hb Hs Hn Hc16.
  assert (Hal : length (auth_field nonce ct) = (24 + pad4len (length ct))%nat).
  { rewrite auth_field_length, Hn. reflexivity. }
  pose proof (pad4len_ge (length ct)) as [Hpc _].
  set (len := 8 + Z.of_nat (pad4len (length nonce)) + Z.of_nat (pad4len (length ct))).
  assert (Hlen : 0 <= len < 65536).
  { unfold len. rewrite Hn. change (pad4len 16) with 16%nat. rewrite Hb, app_length, Hal in Hs. lia. }
  set (body := be_enc 2 (Z.of_nat (length nonce)) ++ be_enc 2 (Z.of_nat (length ct)) ++ pad4 nonce ++ pad4 ct).
  assert (Hbb : b = pre ++ be_enc 2 ext_authenticator ++ be_enc 2 len ++ body).
  { rewrite Hb. unfold auth_field, body, len. reflexivity. }
  destruct (field_hdr pre ext_authenticator len body) as (H1 & H2 & H3); [unfold ext_authenticator; lia | exact Hlen |].
  rewrite <- Hbb in H1, H2, H3.
  (* the nonce and ciphertext lengths sit right behind the header *)
  set (pre4 := pre ++ be_enc 2 ext_authenticator ++ be_enc 2 len).
  assert (Hp4 : length pre4 = (length pre + 4)%nat) by (unfold pre4; rewrite !app_length, !be_enc_length; lia).
  assert (Hct : Z.of_nat (length ct) < 65536) by (rewrite Hb, app_length, Hal in Hs; lia).
  destruct (field_hdr pre4 (Z.of_nat (length nonce)) (Z.of_nat (length ct)) (pad4 nonce ++ pad4 ct)) as (G1 & G2 & G3);
    [rewrite Hn; simpl; lia | lia |].
  assert (Hbb4 : b = pre4 ++ be_enc 2 (Z.of_nat (length nonce)) ++ be_enc 2 (Z.of_nat (length ct)) ++ pad4 nonce ++ pad4 ct).
  { rewrite Hbb. unfold pre4, body. rewrite <- !app_assoc. reflexivity. }
  rewrite <- Hbb4, Hp4 in G1, G2, G3.
  assert (Hpn : pad4 nonce = nonce).
  { unfold pad4. rewrite Hn. change (pad4len 16 - 16)%nat with 0%nat. apply app_nil_r. }
  rewrite Hpn in G3.
  assert (Hbl : length b = (length pre + 24 + pad4len (length ct))%nat) by (rewrite Hb, app_length, Hal; lia).
  cbn [nts_decode_loop].
  assert (H28 : (28 <=? length b - length pre)%nat = true) by (apply Nat.leb_le; lia).
  rewrite H28. cbn [negb andb]. rewrite H1, H2.
  assert (H4 : (len <? 4) = false) by (apply Z.ltb_ge; lia). rewrite H4.
  change (ext_authenticator =? ext_unique_id) with false.
  change (ext_authenticator =? ext_authenticator) with true. cbv iota.
  rewrite G1, G2, !Nat2Z.id.
  replace (length pre + 4 + 4)%nat with (length pre + 4 + 4)%nat by reflexivity.
  rewrite G3.
  assert (Hmin : Nat.min (length nonce) (length b - (length pre + 4 + 4)) = 16%nat) by (rewrite Hn; lia).
  rewrite Hmin.
  assert (Hsk : skipn (length pre + 4 + 4 + 16) b = pad4 ct).
  { rewrite <- skipn_skipn, G3. apply skipn_app_exact. exact Hn. }
  rewrite Hsk. rewrite zpad_app_exact. unfold pad4 at 1. rewrite zpad_app_exact.
  (* found_auth = true: the loop condition fails, both fields were found *)
  destruct fuel; cbn [nts_decode_loop]; rewrite Bool.andb_false_r; reflexivity.
Qed.

Lemma flat_fields_len ty cs : (4 * length cs <= length (flat_map (ext_field ty) cs))%nat.
Proof.
  induction cs as [|c cs IH]; cbn [flat_map length]; [lia|]. rewrite app_length, ext_field_length. lia.
Qed.

(* decoding the wire format: every field comes back as the kind it was written as, with the
   value that was written (zero-padded to a multiple of 4), cookies and placeholders appended *)
Theorem nts_decode_wire hdr p nonce ct p0 :
  length hdr = 48%nat -> (32 <= length (ni_id p))%nat -> length nonce = 16%nat -> (16 <= length ct)%nat ->
  (nts_wire_len p ct <= 1024)%nat ->
  nts_decode p0 (nts_wire hdr p nonce ct) = (nts_decoded p0 p nonce ct, d_ok).
Proof.
  intros Hh Hid Hn Hc Hfit.
  pose proof (nts_wire_length hdr p nonce ct Hh Hn) as Hlen.
  set (b := nts_wire hdr p nonce ct) in *.
  set (cs := ni_cookies p) in *. set (phs := ni_placeholders p) in *.
  set (uf := ext_field ext_unique_id (ni_id p)).
  set (cf := flat_map (ext_field ext_cookie) cs). set (pf := flat_map (ext_field ext_cookie_placeholder) phs).
  set (af := auth_field nonce ct).
  assert (Hb : b = hdr ++ uf ++ cf ++ pf ++ af) by reflexivity.
  assert (Hs : (length b <= 1024)%nat) by lia.
  assert (Haf : length af = (24 + pad4len (length ct))%nat).
  { unfold af. rewrite auth_field_length, Hn. reflexivity. }
  pose proof (pad4len_ge (length ct)) as [Hpc _].
  unfold nts_decode. destruct (Nat.ltb_spec max_packet_len (length b)) as [H|_]; [unfold max_packet_len in H; lia|].
  pose proof (flat_fields_len ext_cookie cs) as Hcl. pose proof (flat_fields_len ext_cookie_placeholder phs) as Hpl.
  fold cf in Hcl. fold pf in Hpl.
  unfold nts_wire_len in Hlen. fold cs phs cf pf in Hlen.
  set (k := (length b - (2 + length cs + length phs))%nat).
  replace (length b) with (S (length cs + (length phs + S k))) by (unfold k; lia).
  unfold ntp_hdr_len. rewrite <- Hh.
  rewrite (dec_step_uid b hdr (cf ++ pf ++ af) (ni_id p)) by auto.
  fold uf.
  rewrite (dec_cookies cs b (hdr ++ uf) (pf ++ af)); [| rewrite Hb, <- app_assoc; reflexivity | exact Hs | rewrite app_length; lia].
  fold cf.
  rewrite (dec_placeholders phs b ((hdr ++ uf) ++ cf) af); [| rewrite Hb, <- !app_assoc; reflexivity | exact Hs | lia].
  fold pf.
  rewrite (dec_step_auth b (((hdr ++ uf) ++ cf) ++ pf) nonce ct); [| rewrite Hb, <- !app_assoc; reflexivity | exact Hs | exact Hn | exact Hc].
  reflexivity.
Qed.

(* EncodePacket then DecodePacket *)
Theorem nts_dec_enc hdr tail p nonce ct p0 :
  length hdr = 48%nat ->
  (32 <= length (ni_id p))%nat -> length nonce = 16%nat -> (16 <= length ct)%nat ->
  (nts_wire_len p ct <= 1024)%nat ->
  exists e, nts_encode hdr tail p nonce ct = Ok e /\ e = nts_wire hdr p nonce ct /\
            (length e mod 4 = 0)%nat /\
            nts_decode p0 e = (nts_decoded p0 p nonce ct, d_ok).
Proof.
  intros Hh Hid Hn Hc Hfit. exists (nts_wire hdr p nonce ct).
  split; [apply nts_encode_wire; auto|]. split; [reflexivity|]. split.
  - rewrite nts_wire_length by auto. unfold nts_wire_len.
    assert (Hf : forall ty l, (length (flat_map (ext_field ty) l) mod 4 = 0)%nat).
    { intros ty l. induction l as [|c l IH]; [reflexivity|]. cbn [flat_map]. rewrite app_length, ext_field_length.
      pose proof (pad4len_ge (length c)) as [_ Hm].
      rewrite <- Nat.add_mod_idemp_r, IH, Nat.add_0_r by lia.
      rewrite <- Nat.add_mod_idemp_r, Hm by lia. reflexivity. }
    pose proof (pad4len_ge (length (ni_id p))) as [_ H1]. pose proof (pad4len_ge (length ct)) as [_ H2].
    pose proof (Hf ext_cookie (ni_cookies p)) as H3. pose proof (Hf ext_cookie_placeholder (ni_placeholders p)) as H4.
    set (a := pad4len (length (ni_id p))) in *. set (c := pad4len (length ct)) in *.
    set (x := length (flat_map (ext_field ext_cookie) (ni_cookies p))) in *.
    set (y := length (flat_map (ext_field ext_cookie_placeholder) (ni_placeholders p))) in *.
    apply Nat.mod_divides in H1; [|lia]. apply Nat.mod_divides in H2; [|lia].
    apply Nat.mod_divides in H3; [|lia]. apply Nat.mod_divides in H4; [|lia].
    destruct H1 as [q1 ->], H2 as [q2 ->], H3 as [q3 ->], H4 as [q4 ->].
    replace (48 + (4 + 4 * q1) + 4 * q3 + 4 * q4 + (8 + 16 + 4 * q2))%nat with ((19 + q1 + q3 + q4 + q2) * 4)%nat by lia.
    apply Nat.mod_mul. lia.
  - apply nts_decode_wire; auto.
Qed.

(* the fuel of the decoder is never exhausted, for every input *)
Lemma nts_loop_fuel fuel : forall b pos p fu fa, (length b - pos < 4 * fuel + 28)%nat ->
  snd (nts_decode_loop fuel b pos p fu fa) <> d_fuel.
Proof.
  induction fuel as [|fuel IH]; intros b pos p fu fa Hlen.
  - cbn [nts_decode_loop].
    destruct (Nat.leb_spec 28 (length b - pos)) as [H|H]; [lia|]. cbn [andb].
    destruct (negb fu); [discriminate|]. destruct (negb fa); discriminate.
  - cbn [nts_decode_loop].
    destruct ((28 <=? length b - pos)%nat && negb fa) eqn:Hc.
    + destruct (Z.ltb_spec (get_u16 b (pos + 2)) 4) as [|Hl4]; [discriminate|].
      assert (Hnext : forall q fu' fa', snd (nts_decode_loop fuel b (pos + 4 + Z.to_nat (get_u16 b (pos + 2) - 4)) q fu' fa') <> d_fuel).
      { intros. apply IH. lia. }
      repeat match goal with |- context [if ?c then _ else _] => destruct c end; try discriminate; apply Hnext.
    + destruct (negb fu); [discriminate|]. destruct (negb fa); discriminate.
Qed.

Theorem nts_decode_total p0 b : snd (nts_decode p0 b) <> d_fuel.
Proof.
  unfold nts_decode. destruct (max_packet_len <? length b)%nat; [discriminate|].
  apply nts_loop_fuel. unfold ntp_hdr_len. lia.
Qed.

(* ---------- the oracle accepts the model ---------- *)

Lemma zs_eqb_refl l : zs_eqb l l = true.
Proof. induction l as [|x l IH]; simpl; auto. rewrite Z.eqb_refl. exact IH. Qed.

Lemma forallb_zero_repeat n : forallb (Z.eqb 0) (repeat 0 n) = true.
Proof. induction n; simpl; auto. Qed.

Lemma len4_mod n : (4 + Z.of_nat (pad4len n)) mod 4 = 0.
Proof. pose proof (pad4len_Z n). lia. Qed.

Lemma field_ok_ext ty v : field_ok ty v (ext_of ty v) = true.
Proof.
  unfold field_ok, ext_of. pose proof (pad4len_ge (length v)) as [Hp _].
  rewrite Z.eqb_refl, len4_mod, pad4_length, Z.eqb_refl. cbn [andb].
  change (0 =? 0) with true. cbn [andb].
  replace (length v <=? pad4len (length v))%nat with true by (symmetry; apply Nat.leb_le; lia).
  replace (pad4len (length v) <? length v + 4)%nat with true by (symmetry; apply Nat.ltb_lt; lia).
  cbn [andb]. unfold pad4. rewrite firstn_app_exact, skipn_app_exact by reflexivity.
  rewrite zs_eqb_refl, forallb_zero_repeat, ?Z.eqb_refl. reflexivity.
Qed.

Lemma fields_ok_map ty cs : fields_ok ty cs (map (ext_of ty) cs) = true.
Proof. induction cs as [|c cs IH]; [reflexivity|]. cbn [map fields_ok]. rewrite field_ok_ext. exact IH. Qed.

Lemma placeholders_ok_map cs : placeholders_ok cs (map ph_of cs) = true.
Proof.
  induction cs as [|c cs IH]; [reflexivity|]. cbn [map placeholders_ok ph_of].
  pose proof (pad4len_ge (length c)) as [Hp _]. rewrite Z.eqb_refl, len4_mod.
  change (0 =? 0) with true.
  replace (Z.of_nat (length c) + 4 <=? 4 + Z.of_nat (pad4len (length c))) with true by (symmetry; apply Z.leb_le; lia).
  replace (4 + Z.of_nat (pad4len (length c)) <? Z.of_nat (length c) + 8) with true by (symmetry; apply Z.ltb_lt; lia).
  exact IH.
Qed.

Lemma sum_lens_map ty cs : sum_lens (map (ext_of ty) cs) = Z.of_nat (length (flat_map (ext_field ty) cs)).
Proof.
  induction cs as [|c cs IH]; [reflexivity|]. cbn [map flat_map]. unfold sum_lens in *. cbn [fold_right].
  rewrite IH, app_length, ext_field_length. unfold ext_of. cbn [fst snd]. lia.
Qed.

Lemma sum_plens_map cs : sum_plens (map ph_of cs) = Z.of_nat (length (flat_map (ext_field ext_cookie_placeholder) cs)).
Proof.
  induction cs as [|c cs IH]; [reflexivity|]. cbn [map flat_map]. unfold sum_plens in *. cbn [fold_right].
  rewrite IH, app_length, ext_field_length. unfold ph_of. cbn [fst snd]. lia.
Qed.

Lemma flat_fields_ok ty cs : 0 <= ty -> Forall bytes_ok cs -> bytes_ok (flat_map (ext_field ty) cs).
Proof.
  intros Hty H. induction H as [|c cs Hc Hcs IH]; [constructor|]. cbn [flat_map]. apply bytes_ok_app. split; [|exact IH].
  unfold ext_field. repeat first [apply be_enc_ok | apply pad4_ok; assumption | apply bytes_ok_app; split].
Qed.

Theorem nts_meets_oracle hdr p nonce ct :
  length hdr = 48%nat -> (32 <= length (ni_id p))%nat -> length nonce = 16%nat -> (16 <= length ct)%nat ->
  (nts_wire_len p ct <= 1024)%nat ->
  bytes_ok hdr -> bytes_ok (ni_id p) -> Forall bytes_ok (ni_cookies p) -> Forall bytes_ok (ni_placeholders p) ->
  bytes_ok nonce -> bytes_ok ct ->
  let e := nts_wire hdr p nonce ct in
  let d := nts_decode nts_pkt_empty e in
  C14_nts_ok hdr p nonce ct e (snd d) (fst d) = true.
Proof.
  intros Hh Hid Hn Hc Hfit Bh Bi Bc Bp Bn Bct e d.
  unfold d, e. rewrite nts_decode_wire by auto. cbn [fst snd].
  unfold C14_nts_ok, nts_decoded. cbn [np_uid np_cookies np_placeholders np_auth nts_pkt_empty app].
  change (d_ok =? 0) with true. cbn [andb].
  pose proof (nts_wire_length hdr p nonce ct Hh Hn) as Hlen.
  assert (Hf48 : firstn 48 (nts_wire hdr p nonce ct) = hdr) by (unfold nts_wire; apply firstn_app_exact; exact Hh).
  rewrite Hf48, zs_eqb_refl. cbn [andb].
  destruct (nts_dec_enc hdr [] p nonce ct nts_pkt_empty Hh Hid Hn Hc Hfit) as (e' & _ & -> & Hmod & _).
  assert (Hm4 : Z.of_nat (length (nts_wire hdr p nonce ct)) mod 4 =? 0 = true).
  { apply Z.eqb_eq. apply Nat.mod_divides in Hmod; [|lia]. destruct Hmod as [q ->]. rewrite Nat2Z.inj_mul. 
    rewrite Z.mul_comm. apply Z.mod_mul. lia. }
  rewrite Hm4. cbn [andb].
  assert (Hbok : bytes_okb (nts_wire hdr p nonce ct) = true).
  { apply bytes_okb_ok. unfold nts_wire. apply bytes_ok_app. split; [exact Bh|].
    apply bytes_ok_app. split.
    { unfold ext_field. repeat first [apply be_enc_ok | apply pad4_ok; assumption | apply bytes_ok_app; split]. }
    apply bytes_ok_app. split; [apply flat_fields_ok; [unfold ext_cookie; lia | exact Bc]|].
    apply bytes_ok_app. split; [apply flat_fields_ok; [unfold ext_cookie_placeholder; lia | exact Bp]|].
    unfold auth_field. repeat first [apply be_enc_ok | apply pad4_ok; assumption | apply bytes_ok_app; split]. }
  rewrite Hbok. cbn [andb].
  rewrite field_ok_ext, fields_ok_map. cbn [andb].
  change (map (fun c : list Z => (ext_cookie_placeholder, 4 + Z.of_nat (pad4len (length c)))) (ni_placeholders p))
    with (map ph_of (ni_placeholders p)).
  rewrite placeholders_ok_map. cbn [andb].
  rewrite Z.eqb_refl, !zs_eqb_refl. cbn [andb].
  rewrite sum_lens_map, sum_plens_map. unfold ext_of. cbn [fst snd].
  rewrite Hlen. unfold nts_wire_len. rewrite Hn. change (pad4len 16) with 16%nat.
  pose proof (pad4len_ge (length ct)) as [Hpc Hpm]. pose proof (pad4len_Z (length ct)) as HZ.
  assert (E1 : (8 + Z.of_nat 16 + Z.of_nat (pad4len (length ct))) mod 4 =? 0 = true) by (apply Z.eqb_eq; lia).
  rewrite E1. cbn [andb].
  replace (8 + Z.of_nat 16 + Z.of_nat (length ct) <=? 8 + Z.of_nat 16 + Z.of_nat (pad4len (length ct))) with true
    by (symmetry; apply Z.leb_le; lia).
  replace (8 + Z.of_nat 16 + Z.of_nat (pad4len (length ct)) <? 8 + Z.of_nat 16 + Z.of_nat (length ct) + 8) with true
    by (symmetry; apply Z.ltb_lt; lia).
  cbn [andb]. apply Z.eqb_eq. lia.
Qed.

(* ---------- the encrypted part of a response: NewResponsePacket, then authenticate's walk ---------- *)

Lemma walk_step_cookie pt pre post v fuel acc :
  pt = pre ++ ext_field ext_cookie v ++ post -> (length pt <= 1024)%nat ->
  (28 <= 4 + pad4len (length v) + length post)%nat ->
  nts_auth_walk (S fuel) pt (length pre) acc =
  nts_auth_walk fuel pt (length (pre ++ ext_field ext_cookie v)) (acc ++ [ext_of ext_cookie v]).
Proof.
  intros Hb Hs Hm.
  destruct (step_facts pt pre post v ext_cookie Hb) as (H1 & H2 & H3 & H4 & H5 & H6);
    [unfold ext_cookie; lia | exact Hs | exact Hm |].
  cbn [nts_auth_walk]. rewrite H5, H1, H2, H6.
  change (ext_cookie =? ext_cookie) with true. cbv iota. rewrite H3, H4. reflexivity.
Qed.

Lemma walk_cookies cs : forall pt pre fuel acc,
  pt = pre ++ flat_map (ext_field ext_cookie) cs -> (length pt <= 1024)%nat ->
  Forall (fun c => (24 <= length c)%nat) cs ->
  nts_auth_walk (length cs + fuel) pt (length pre) acc = (acc ++ map (ext_of ext_cookie) cs, d_ok).
Proof.
  induction cs as [|c cs IH]; intros pt pre fuel acc Hb Hs Hl.
  - cbn [flat_map] in Hb. rewrite app_nil_r in Hb. subst pt. cbn [map length Nat.add]. rewrite app_nil_r.
    destruct fuel; cbn [nts_auth_walk]; rewrite Nat.sub_diag; reflexivity.
  - pose proof (Forall_inv Hl) as Hc. pose proof (Forall_inv_tail Hl) as Hcs. cbn beta in Hc.
    cbn [flat_map] in Hb. cbn [length Nat.add].
    pose proof (pad4len_ge (length c)) as [Hp _].
    rewrite (walk_step_cookie pt pre (flat_map (ext_field ext_cookie) cs) c) by (auto; lia).
    rewrite (IH pt (pre ++ ext_field ext_cookie c) fuel) by (auto; rewrite Hb, <- app_assoc; reflexivity).
    cbn [map]. rewrite <- app_assoc. reflexivity.
Qed.

Lemma flat_equal_len cs l : Forall (fun c => length c = l) cs -> (l mod 4 = 0)%nat ->
  length (flat_map (ext_field ext_cookie) cs) = (length cs * (4 + l))%nat.
Proof.
  intros H Hm. assert (Hp : pad4len l = l).
  { unfold pad4len. apply Nat.mod_divides in Hm; [|lia]. destruct Hm as [q ->].
    replace (4 * q + 3)%nat with (3 + q * 4)%nat by lia. rewrite Nat.div_add by lia. simpl. lia. }
  induction H as [|c cs Hc Hcs IH]; [reflexivity|]. cbn [flat_map length]. rewrite app_length, ext_field_length, IH, Hc, Hp. lia.
Qed.

(* a server's cookies (one length, a multiple of 4, at least 24 bytes, at least one of them
   fitting a packet): the plaintext NewResponsePacket builds is their extension fields, cut to
   what fits; the receiver's walk over it returns exactly these cookies, in order, as cookies *)
Theorem nts_response_roundtrip c0 cs idlen acc :
  let cookies := c0 :: cs in
  let l := length c0 in
  Forall (fun c => length c = l) cookies -> (l mod 4 = 0)%nat -> (24 <= l)%nat ->
  (1 <= max_cookies idlen l)%nat ->
  let sent := firstn (Nat.min (length cookies) (max_cookies idlen l)) cookies in
  exists plain, nts_response_plain cookies idlen = Ok plain /\
    plain = flat_map (ext_field ext_cookie) sent /\
    nts_auth_walk (length plain) plain 0 acc = (acc ++ map (ext_of ext_cookie) sent, d_ok).
Proof.
  intros cookies l Hall Hm Hl Hfit sent.
  set (n := max_cookies idlen l) in *.
  assert (Hsent : sent = if (1 <=? n)%nat && (n <? length cookies)%nat then firstn n cookies else cookies).
  { unfold sent. destruct (Nat.leb_spec 1 n) as [_|H]; [|lia]. cbn [andb].
    destruct (Nat.ltb_spec n (length cookies)) as [H|H].
    - replace (Nat.min (length cookies) n) with n by lia. reflexivity.
    - replace (Nat.min (length cookies) n) with (length cookies) by lia. apply firstn_all. }
  assert (Hsub : exists tl, cookies = sent ++ tl).
  { exists (skipn (Nat.min (length cookies) n) cookies). unfold sent. symmetry. apply firstn_skipn. }
  destruct Hsub as [tl Htl].
  assert (Hall' : Forall (fun c => length c = l) sent).
  { rewrite Htl in Hall. apply Forall_app in Hall. tauto. }
  assert (Hk : (length sent <= n)%nat) by (unfold sent; rewrite firstn_length; lia).
  pose proof (flat_equal_len sent l Hall' Hm) as Hflen.
  assert (Hp : pad4len l = l).
  { unfold pad4len. apply Nat.mod_divides in Hm; [|lia]. destruct Hm as [q Hq]. rewrite Hq.
    replace (4 * q + 3)%nat with (3 + q * 4)%nat by lia. rewrite Nat.div_add by lia. simpl. lia. }
  (* n * (4 + l) stays below the packet size *)
  assert (Hn : (n * (4 + l) <= 1024)%nat).
  { unfold n, max_cookies, max_packet_len, ntp_hdr_len. rewrite Hp.
    set (a := (1024 - 48 - (4 + pad4len idlen) - 40)%nat).
    pose proof (Nat.mul_div_le a (4 + l)) as H. assert (a <= 1024)%nat by (unfold a; lia). lia. }
  assert (Hsz : (length sent * (4 + l) <= 1024)%nat) by nia.
  exists (flat_map (ext_field ext_cookie) sent).
  split.
  - unfold nts_response_plain. unfold cookies at 1. cbv iota beta. fold cookies. fold l. fold n. rewrite <- Hsent.
    replace (repeat 0 (length sent * (4 + l)), 0%nat) with (stof [] (repeat 0 (length sent * (4 + l)))) by reflexivity.
    rewrite pack_all_st by (rewrite repeat_length; lia).
    unfold stof. cbn [app]. rewrite Hflen, skipn_all2 by (rewrite repeat_length; lia). rewrite app_nil_r. reflexivity.
  - split; [reflexivity|].
    replace (length (flat_map (ext_field ext_cookie) sent)) with (length sent + (length sent * (3 + l)))%nat by lia.
    apply (walk_cookies sent _ [] _ acc); [reflexivity | lia |].
    rewrite Forall_forall in *. intros x Hx. rewrite (Hall' x Hx). exact Hl.
Qed.


(* ---------- the edges of the domain, stated ---------- *)

(* Authenticator.pack draws its nonce itself (16 bytes from rand.Read; Auth.Nonce of the caller is
   overwritten), so 16 is the only nonce length this project's encoder produces.  The decoder is
   NOT an inverse of the wire format for a nonce whose length is not a multiple of 4:
   Authenticator.unpack advances by the nonce length, not by the padded length, and reads the
   ciphertext from inside the nonce padding. *)
Definition nonce17_hdr : list Z := repeat 0 48.
Definition nonce17_in : nts_in := {| ni_id := repeat 7 32; ni_cookies := []; ni_placeholders := [] |}.
Definition nonce17_nonce : list Z := repeat 1 17.
Definition nonce17_ct : list Z := repeat 2 16.

Lemma nts_nonce_padding_refuted :
  length nonce17_nonce = 17%nat /\
  let d := nts_decode nts_pkt_empty (nts_wire nonce17_hdr nonce17_in nonce17_nonce nonce17_ct) in
  snd d = d_ok /\
  np_auth (fst d) = (ext_authenticator, 44, nonce17_nonce, [0; 0; 0] ++ repeat 2 13) /\
  np_auth (fst d) <> np_auth (nts_decoded nts_pkt_empty nonce17_in nonce17_nonce nonce17_ct).
Proof. vm_compute. repeat split; try reflexivity. intros H. discriminate H. Qed.

(* the walk of authenticate stops as soon as fewer than 28 bytes are left: a plaintext shorter
   than 28 bytes yields nothing, whatever it contains *)
Lemma walk_short fuel pt acc : (length pt < 28)%nat -> nts_auth_walk fuel pt 0 acc = (acc, d_ok).
Proof.
  intros H. destruct fuel; cbn [nts_auth_walk];
    (destruct (Nat.leb_spec 28 (length pt - 0)) as [H'|_]; [lia|reflexivity]).
Qed.

(* so a response carrying one cookie shorter than 24 bytes is built, sealed and sent, and the
   receiver drops the cookie without an error *)
Lemma response_short_cookie_dropped c idlen acc :
  (length c < 24)%nat -> (length c mod 4 = 0)%nat -> (1 <= max_cookies idlen (length c))%nat ->
  exists plain, nts_response_plain [c] idlen = Ok plain /\ plain = ext_field ext_cookie c /\
                nts_auth_walk (length plain) plain 0 acc = (acc, d_ok).
Proof.
  intros Hl Hm Hfit.
  assert (Hp : pad4len (length c) = length c).
  { unfold pad4len. apply Nat.mod_divides in Hm; [|lia]. destruct Hm as [q Hq]. rewrite Hq.
    replace (4 * q + 3)%nat with (3 + q * 4)%nat by lia. rewrite Nat.div_add by lia. simpl. lia. }
  exists (ext_field ext_cookie c). split.
  - unfold nts_response_plain.
    assert (Hcap : (if (1 <=? max_cookies idlen (length c))%nat && (max_cookies idlen (length c) <? length [c])%nat
                    then firstn (max_cookies idlen (length c)) [c] else [c]) = [c]).
    { destruct (Nat.ltb_spec (max_cookies idlen (length c)) (length [c])) as [H|H]; [simpl in H; lia|].
      rewrite Bool.andb_false_r. reflexivity. }
    rewrite Hcap. cbn [length Nat.mul]. rewrite Nat.add_0_r.
    replace (repeat 0 (4 + length c), 0%nat) with (stof [] (repeat 0 (4 + length c))) by reflexivity.
    cbn [pack_all]. rewrite field_pack_st by (rewrite repeat_length; lia). cbn [obind].
    unfold stof. cbn [app]. rewrite skipn_all2 by (rewrite repeat_length; lia). rewrite app_nil_r. reflexivity.
  - split; [reflexivity|]. apply walk_short. rewrite ext_field_length. lia.
Qed.
