(* C11: DecodePacket / authenticate read back what EncodePacket wrote (for the
   packets of the cookie lifecycle: requests of the client, replies of the server). *)
From ST Require Import Base.Ints Base.Bytes Model.CookiePool Proofs.CookiePoolProofs.
From Coq Require Import ZArith List Bool Lia.
Import ListNotations.
Open Scope Z_scope.
Ltac Zify.zify_post_hook ::= Z.div_mod_to_equations.

Lemma skipn_zlen (pre x : bytes) pos : pos = zlen pre -> skipn (Z.to_nat pos) (pre ++ x) = x.
Proof. intros ->. apply skipn_app_exact. unfold zlen. lia. Qed.

Lemma firstn_zlen (pre x : bytes) : firstn (Z.to_nat (zlen pre)) (pre ++ x) = pre.
Proof. apply firstn_app_exact. unfold zlen. lia. Qed.

Lemma be16_at_mid (pre rest : bytes) x pos :
  pos = zlen pre -> 0 <= x < 65536 -> be16_at (pre ++ be16 x ++ rest) pos = x.
Proof.
  intros Hp Hx. unfold be16_at. rewrite (skipn_zlen pre _ pos Hp).
  rewrite firstn_app_exact by reflexivity. unfold be16. apply be_dec_enc. simpl. lia.
Qed.

Lemma take_at_mid (pre body rest : bytes) pos n :
  pos = zlen pre -> n = zlen body -> take_at (pre ++ body ++ rest) pos n = body.
Proof.
  intros Hp Hn. unfold take_at. rewrite (skipn_zlen pre _ pos Hp). unfold zpad.
  subst n. unfold zlen. rewrite Nat2Z.id, firstn_app_exact by reflexivity.
  rewrite app_length. replace (length body - (length body + length rest))%nat with 0%nat by lia.
  apply app_nil_r.
Qed.

Lemma bytes_eq_refl a : bytes_eq a a = true.
Proof. induction a; simpl; [reflexivity|]. rewrite Z.eqb_refl. exact IHa. Qed.

(* a field whose value needs no padding *)
Definition efield (t : Z) (body : bytes) : bytes := be16 t ++ be16 (4 + zlen body) ++ body.

Lemma efield_len t body : zlen (efield t body) = 4 + zlen body.
Proof. unfold efield. rewrite !zlen_app, !zlen_be16. lia. Qed.

(* the header of the field at pos *)
Lemma field_header (pre body rest : bytes) t pos :
  pos = zlen pre -> 0 <= t < 65536 -> 4 + zlen body < 65536 ->
  let b := pre ++ efield t body ++ rest in
  be16_at b pos = t /\ be16_at b (pos + 2) = 4 + zlen body /\
  take_at b (pos + 4) (zlen body) = body.
Proof.
  intros Hp Ht Hl b. unfold b, efield. pose proof (zlen_nonneg body).
  split; [|split].
  - rewrite <- !app_assoc. apply be16_at_mid; assumption.
  - replace (pre ++ (be16 t ++ be16 (4 + zlen body) ++ body) ++ rest)
      with ((pre ++ be16 t) ++ be16 (4 + zlen body) ++ (body ++ rest)) by (rewrite <- !app_assoc; reflexivity).
    apply be16_at_mid; [rewrite zlen_app, zlen_be16; lia|lia].
  - replace (pre ++ (be16 t ++ be16 (4 + zlen body) ++ body) ++ rest)
      with ((pre ++ be16 t ++ be16 (4 + zlen body)) ++ body ++ rest) by (rewrite <- !app_assoc; reflexivity).
    apply take_at_mid; [rewrite !zlen_app, !zlen_be16; lia|reflexivity].
Qed.

Definition set_uid (d : decoded) (u : bytes) : decoded :=
  {| d_uid := Some u; d_cookies := d_cookies d; d_nplaceholders := d_nplaceholders d; d_auth := d_auth d |}.
Definition add_cookie (d : decoded) (c : bytes) : decoded :=
  {| d_uid := d_uid d; d_cookies := d_cookies d ++ [c]; d_nplaceholders := d_nplaceholders d; d_auth := d_auth d |}.
Definition add_placeholder (d : decoded) : decoded :=
  {| d_uid := d_uid d; d_cookies := d_cookies d; d_nplaceholders := d_nplaceholders d + 1; d_auth := d_auth d |}.
Definition set_auth (d : decoded) (a : Z * bytes * bytes) : decoded :=
  {| d_uid := d_uid d; d_cookies := d_cookies d; d_nplaceholders := d_nplaceholders d; d_auth := Some a |}.

(* one turn of the loop of DecodePacket over a unique identifier / cookie / placeholder field *)
Lemma decode_field f (pre body rest : bytes) t pos d :
  pos = zlen pre -> d_auth d = None -> 4 + zlen body < 65536 ->
  28 <= zlen (efield t body ++ rest) ->
  let b := pre ++ efield t body ++ rest in
  let next := zlen (pre ++ efield t body) in
  (t = extUniqueIdentifier -> 32 <= zlen body ->
     decode_loop (S f) b pos d = decode_loop f b next (set_uid d body)) /\
  (t = extCookie -> decode_loop (S f) b pos d = decode_loop f b next (add_cookie d body)) /\
  (t = extCookiePlaceholder -> decode_loop (S f) b pos d = decode_loop f b next (add_placeholder d)).
Proof.
  intros Hp Ha Hl H28 b next.
  assert (Hb : zlen b - pos = zlen (efield t body ++ rest)) by (unfold b; rewrite zlen_app; lia).
  assert (Hn : next = pos + (4 + zlen body)) by (unfold next; rewrite zlen_app, efield_len; lia).
  pose proof (zlen_nonneg body) as Hbn.
  assert (Hu : u16 (4 + zlen body - 4) = zlen body) by (unfold u16; rewrite Z.mod_small; lia).
  assert (Hcore : 0 <= t < 65536 ->
            decode_loop (S f) b pos d =
            (if t =? extUniqueIdentifier then
               if zlen body <? 32 then Err 3 else decode_loop f b next (set_uid d body)
             else if t =? extAuthenticator then
               decode_loop (S f) b pos d
             else if t =? extCookie then decode_loop f b next (add_cookie d body)
             else if t =? extCookiePlaceholder then decode_loop f b next (add_placeholder d)
             else decode_loop f b next d)).
  { intros Ht.
    destruct (field_header pre body rest t pos Hp Ht Hl) as [H1 [H2 H3]]. fold b in H1, H2, H3.
    destruct (t =? extAuthenticator) eqn:Eau.
    { destruct (t =? extUniqueIdentifier) eqn:Eu; [|reflexivity].
      apply Z.eqb_eq in Eu, Eau. unfold extUniqueIdentifier, extAuthenticator in *. lia. }
    cbn [decode_loop]. rewrite Ha at 1. rewrite Hb.
    destruct (_ <? 28) eqn:E28; [lia|]. rewrite H1, H2.
    destruct (4 + zlen body <? 4) eqn:E4; [lia|]. rewrite Hu, H3, <- Hn, Eau.
    reflexivity. }
  repeat split; intros Ht; try intros H32; subst t.
  - rewrite Hcore by (unfold extUniqueIdentifier; lia).
    change (extUniqueIdentifier =? extUniqueIdentifier) with true. cbv iota.
    destruct (zlen body <? 32) eqn:E; [lia|]. reflexivity.
  - rewrite Hcore by (unfold extCookie; lia). reflexivity.
  - rewrite Hcore by (unfold extCookiePlaceholder; lia). reflexivity.
Qed.

Section Codec.
Variable seal : bytes -> bytes -> bytes -> bytes -> bytes.
Hypothesis seal_len : forall k n p a, zlen (seal k n p a) = zlen p + 16.

(* the authenticator is the last field: the loop records it and stops *)
Lemma decode_auth f (pre nonce ct : bytes) pos d :
  pos = zlen pre -> d_auth d = None -> zlen nonce = 16 -> 16 <= zlen ct -> 24 + zlen ct < 65536 ->
  decode_loop (S (S f)) (pre ++ enc_auth nonce ct) pos d = Ok (set_auth d (pos, nonce, ct)).
Proof.
  intros Hp Ha Hn Hc Hl.
  set (body := be16 16 ++ be16 (zlen ct) ++ nonce ++ ct).
  assert (Hbl : zlen body = 20 + zlen ct) by (unfold body; rewrite !zlen_app, !zlen_be16; lia).
  assert (He : enc_auth nonce ct = efield extAuthenticator body ++ []).
  { unfold enc_auth, efield. rewrite Hbl, app_nil_r. unfold body.
    replace (4 + (20 + zlen ct)) with (4 + 2 + 2 + 16 + zlen ct) by lia. rewrite <- ?app_assoc. reflexivity. }
  rewrite He.
  destruct (field_header pre body [] extAuthenticator pos Hp ltac:(unfold extAuthenticator; lia) ltac:(lia)) as [H1 [H2 _]].
  set (b := pre ++ efield extAuthenticator body ++ []) in *.
  assert (Hb : zlen b - pos = 4 + zlen body) by (unfold b; rewrite !zlen_app, efield_len; change (zlen (@nil Z)) with 0; lia).
  cbn [decode_loop]. rewrite Ha at 1. rewrite Hb. destruct (_ <? 28) eqn:E28; [lia|]. rewrite H1, H2.
  destruct (4 + zlen body <? 4) eqn:E4; [lia|].
  change (extAuthenticator =? extUniqueIdentifier) with false.
  change (extAuthenticator =? extAuthenticator) with true. cbv iota.
  (* the fields inside the authenticator *)
  assert (Hb' : b = (pre ++ be16 extAuthenticator ++ be16 (4 + zlen body)) ++ be16 16 ++ (be16 (zlen ct) ++ nonce ++ ct)).
  { unfold b, efield, body. rewrite app_nil_r, <- !app_assoc. reflexivity. }
  assert (Hq : zlen (pre ++ be16 extAuthenticator ++ be16 (4 + zlen body)) = pos + 4)
    by (rewrite !zlen_app, !zlen_be16; lia).
  assert (N1 : be16_at b (pos + 4) = 16) by (rewrite Hb'; apply be16_at_mid; [lia|lia]).
  assert (N2 : be16_at b (pos + 4 + 2) = zlen ct).
  { replace b with ((pre ++ be16 extAuthenticator ++ be16 (4 + zlen body) ++ be16 16) ++ be16 (zlen ct) ++ (nonce ++ ct))
      by (rewrite Hb', <- !app_assoc; reflexivity).
    apply be16_at_mid; [rewrite !zlen_app, !zlen_be16; lia|lia]. }
  assert (N3 : take_at b (pos + 4 + 4) 16 = nonce).
  { replace b with ((pre ++ be16 extAuthenticator ++ be16 (4 + zlen body) ++ be16 16 ++ be16 (zlen ct)) ++ nonce ++ ct)
      by (rewrite Hb', <- !app_assoc; reflexivity).
    apply take_at_mid; [rewrite !zlen_app, !zlen_be16; lia|lia]. }
  assert (N4 : take_at b (pos + 4 + 4 + 16) (zlen ct) = ct).
  { replace b with ((pre ++ be16 extAuthenticator ++ be16 (4 + zlen body) ++ be16 16 ++ be16 (zlen ct) ++ nonce) ++ ct ++ [])
      by (rewrite Hb', app_nil_r, <- !app_assoc; reflexivity).
    apply take_at_mid; [rewrite !zlen_app, !zlen_be16; lia|reflexivity]. }
  rewrite N1, N2, N3.
  assert (Hmin : Z.min 16 (Z.max 0 (zlen b - (pos + 4 + 4))) = 16) by lia.
  rewrite Hmin, N4. reflexivity.
Qed.


Lemma enc_field_efield t body : zlen body mod 4 = 0 -> enc_field t body = efield t body.
Proof. intros H. rewrite (enc_field_aligned t body H). reflexivity. Qed.

Fixpoint add_placeholders (n : nat) (d : decoded) : decoded :=
  match n with O => d | S k => add_placeholders k (add_placeholder d) end.

Lemma add_placeholders_spec n d :
  d_uid (add_placeholders n d) = d_uid d /\ d_cookies (add_placeholders n d) = d_cookies d /\
  d_nplaceholders (add_placeholders n d) = d_nplaceholders d + Z.of_nat n /\ d_auth (add_placeholders n d) = d_auth d.
Proof.
  revert d. induction n as [|n IH]; intros d; cbn [add_placeholders]; [repeat split; lia|].
  destruct (IH (add_placeholder d)) as [A [B [C D]]]. rewrite A, B, C, D. cbn. repeat split; lia.
Qed.

Lemma zlen_concat_repeat (x : bytes) n : zlen (concat (repeat x n)) = Z.of_nat n * zlen x.
Proof. induction n; cbn [repeat concat]; [reflexivity|]. rewrite zlen_app, IHn. lia. Qed.

(* the placeholder fields and the authenticator behind them *)
Lemma decode_placeholders (ph nonce ct : bytes) n : forall f pre pos d,
  pos = zlen pre -> d_auth d = None -> 4 + zlen ph < 65536 ->
  zlen nonce = 16 -> 16 <= zlen ct -> 24 + zlen ct < 65536 ->
  decode_loop (n + S (S f)) (pre ++ concat (repeat (efield extCookiePlaceholder ph) n) ++ enc_auth nonce ct) pos d
  = Ok (set_auth (add_placeholders n d)
          (zlen (pre ++ concat (repeat (efield extCookiePlaceholder ph) n)), nonce, ct)).
Proof.
  induction n as [|n IH]; intros f pre pos d Hp Ha Hl Hn Hc Hcl.
  - cbn [repeat concat app add_placeholders Nat.add]. rewrite app_nil_r.
    rewrite (decode_auth f pre nonce ct pos d Hp Ha Hn Hc Hcl). rewrite Hp. reflexivity.
  - cbn [repeat concat add_placeholders Nat.add]. rewrite <- !app_assoc.
    pose proof (zlen_nonneg ph).
    destruct (decode_field (n + S (S f)) pre ph (concat (repeat (efield extCookiePlaceholder ph) n) ++ enc_auth nonce ct)
                extCookiePlaceholder pos d Hp Ha Hl) as [_ [_ Hstep]].
    { rewrite !zlen_app, efield_len, (enc_auth_len seal seal_len) by exact Hn.
      pose proof (zlen_nonneg (concat (repeat (efield extCookiePlaceholder ph) n))). lia. }
    rewrite (Hstep eq_refl).
    replace (pre ++ efield extCookiePlaceholder ph ++ concat (repeat (efield extCookiePlaceholder ph) n) ++ enc_auth nonce ct)
      with ((pre ++ efield extCookiePlaceholder ph) ++ concat (repeat (efield extCookiePlaceholder ph) n) ++ enc_auth nonce ct)
      by (rewrite <- !app_assoc; reflexivity).
    rewrite (IH f (pre ++ efield extCookiePlaceholder ph) _ (add_placeholder d) eq_refl Ha Hl Hn Hc Hcl).
    rewrite <- !app_assoc. reflexivity.
Qed.

(* DecodePacket reads a request of the client back *)
Theorem decode_request hdr id c nonce key n :
  zlen hdr = 48 -> zlen id = 32 -> zlen c mod 4 = 0 -> zlen nonce = 16 ->
  zlen (request_wire seal hdr id c nonce key n) <= MaxPacketLen ->
  let pre := hdr ++ enc_field extUniqueIdentifier id ++ enc_field extCookie c ++
             concat (repeat (enc_field extCookiePlaceholder (repeat 0 (length c))) n) in
  request_wire seal hdr id c nonce key n = pre ++ enc_auth nonce (seal key nonce [] pre) /\
  decode_packet (request_wire seal hdr id c nonce key n) =
    Ok {| d_uid := Some id; d_cookies := [c]; d_nplaceholders := Z.of_nat n;
          d_auth := Some (zlen pre, nonce, seal key nonce [] pre) |}.
Proof.
  intros Hh Hi Hc4 Hn Hfit pre. split; [reflexivity|].
  set (ct := seal key nonce [] pre).
  assert (Hct : zlen ct = 16) by (unfold ct; rewrite seal_len; reflexivity).
  set (ph := repeat 0 (length c)).
  assert (Hph : zlen ph = zlen c) by (unfold ph; rewrite zlen_repeat; reflexivity).
  assert (Hph4 : zlen ph mod 4 = 0) by (rewrite Hph; exact Hc4).
  assert (Hi4 : zlen id mod 4 = 0) by (rewrite Hi; reflexivity).
  assert (Epre : pre = hdr ++ efield extUniqueIdentifier id ++ efield extCookie c ++
                       concat (repeat (efield extCookiePlaceholder ph) n)).
  { unfold pre. fold ph. rewrite (enc_field_efield _ id Hi4), (enc_field_efield _ c Hc4), (enc_field_efield _ ph Hph4). reflexivity. }
  assert (E0 : request_wire seal hdr id c nonce key n = pre ++ enc_auth nonce ct) by reflexivity.
  assert (Ew : request_wire seal hdr id c nonce key n =
               hdr ++ efield extUniqueIdentifier id ++ efield extCookie c ++
               concat (repeat (efield extCookiePlaceholder ph) n) ++ enc_auth nonce ct).
  { rewrite E0, Epre, <- !app_assoc. reflexivity. }
  rewrite Ew in Hfit |- *.
  set (b := hdr ++ efield extUniqueIdentifier id ++ efield extCookie c ++
            concat (repeat (efield extCookiePlaceholder ph) n) ++ enc_auth nonce ct) in *.
  assert (Hlen : zlen b = 48 + 36 + (4 + zlen c) + Z.of_nat n * (4 + zlen c) + 40).
  { unfold b. rewrite !zlen_app, !efield_len, zlen_concat_repeat, efield_len, (enc_auth_len seal seal_len), Hh, Hi, Hph, Hct by exact Hn. lia. }
  pose proof (zlen_nonneg c) as Hcn.
  assert (Hnn : 0 <= Z.of_nat n * (4 + zlen c)) by (apply Z.mul_nonneg_nonneg; lia).
  unfold MaxPacketLen in Hfit.
  unfold decode_packet. destruct (MaxPacketLen <? zlen b) eqn:E; [unfold MaxPacketLen in E; lia|].
  (* fuel *)
  assert (Hf : exists f, S (length b) = S (S (n + S (S f)))).
  { exists (length b - n - 3)%nat. unfold zlen in Hlen. assert (Z.of_nat n <= Z.of_nat n * (4 + zlen c)) by nia. lia. }
  destruct Hf as [f Hf]. rewrite Hf.
  (* unique identifier *)
  destruct (decode_field (S (n + S (S f))) hdr id
              (efield extCookie c ++ concat (repeat (efield extCookiePlaceholder ph) n) ++ enc_auth nonce ct)
              extUniqueIdentifier ntpPacketLen decoded0) as [H _]; try reflexivity; try (rewrite Hi; lia); try (unfold ntpPacketLen; lia).
  { rewrite !zlen_app, !efield_len, zlen_concat_repeat, efield_len, (enc_auth_len seal seal_len), Hi, Hph, Hct by exact Hn. lia. }
  fold b in H. rewrite (H eq_refl ltac:(lia)). clear H.
  (* cookie *)
  replace b with ((hdr ++ efield extUniqueIdentifier id) ++ efield extCookie c ++
                  concat (repeat (efield extCookiePlaceholder ph) n) ++ enc_auth nonce ct)
    by (unfold b; rewrite <- !app_assoc; reflexivity).
  destruct (decode_field (n + S (S f)) (hdr ++ efield extUniqueIdentifier id) c
              (concat (repeat (efield extCookiePlaceholder ph) n) ++ enc_auth nonce ct)
              extCookie (zlen (hdr ++ efield extUniqueIdentifier id)) (set_uid decoded0 id))
    as [_ [H _]]; try reflexivity; try lia.
  { rewrite !zlen_app, !efield_len, zlen_concat_repeat, efield_len, (enc_auth_len seal seal_len), Hph, Hct by exact Hn. lia. }
  rewrite (H eq_refl). clear H.
  (* placeholders and authenticator *)
  replace ((hdr ++ efield extUniqueIdentifier id) ++ efield extCookie c ++
           concat (repeat (efield extCookiePlaceholder ph) n) ++ enc_auth nonce ct)
    with (((hdr ++ efield extUniqueIdentifier id) ++ efield extCookie c) ++
          concat (repeat (efield extCookiePlaceholder ph) n) ++ enc_auth nonce ct)
    by (rewrite <- !app_assoc; reflexivity).
  rewrite (decode_placeholders ph nonce ct n f _ _ (add_cookie (set_uid decoded0 id) c) eq_refl eq_refl
             ltac:(rewrite Hph; lia) Hn ltac:(lia) ltac:(lia)).
  destruct (add_placeholders_spec n (add_cookie (set_uid decoded0 id) c)) as [A [B [C D]]].
  unfold set_auth. rewrite A, B, C. cbn [d_uid d_cookies d_nplaceholders set_uid add_cookie decoded0 app].
  rewrite Epre, <- !app_assoc. reflexivity.
Qed.

(* ... and a reply of the server *)
Theorem decode_reply hdr uid nonce key (sent : list bytes) :
  zlen hdr = 48 -> 32 <= zlen uid -> zlen uid mod 4 = 0 -> zlen nonce = 16 ->
  zlen (reply_wire seal hdr uid nonce key sent) <= MaxPacketLen ->
  let pre := hdr ++ enc_field extUniqueIdentifier uid in
  let plain := concat (map (enc_field extCookie) sent) in
  decode_packet (reply_wire seal hdr uid nonce key sent) =
    Ok {| d_uid := Some uid; d_cookies := []; d_nplaceholders := 0;
          d_auth := Some (zlen pre, nonce, seal key nonce plain pre) |}.
Proof.
  intros Hh Hu Hu4 Hn Hfit pre plain.
  set (ct := seal key nonce plain pre).
  assert (Hct : zlen ct = zlen plain + 16) by (unfold ct; apply seal_len).
  pose proof (zlen_nonneg plain) as Hpn.
  assert (Epre : pre = hdr ++ efield extUniqueIdentifier uid) by (unfold pre; rewrite (enc_field_efield _ uid Hu4); reflexivity).
  assert (E0 : reply_wire seal hdr uid nonce key sent = pre ++ enc_auth nonce ct) by reflexivity.
  assert (Ew : reply_wire seal hdr uid nonce key sent = hdr ++ efield extUniqueIdentifier uid ++ enc_auth nonce ct).
  { rewrite E0, Epre, <- !app_assoc. reflexivity. }
  rewrite Ew in Hfit |- *.
  set (b := hdr ++ efield extUniqueIdentifier uid ++ enc_auth nonce ct) in *.
  assert (Hlen : zlen b = 48 + (4 + zlen uid) + (24 + zlen ct)).
  { unfold b. rewrite !zlen_app, efield_len, (enc_auth_len seal seal_len), Hh by exact Hn. lia. }
  unfold MaxPacketLen in Hfit.
  unfold decode_packet. destruct (MaxPacketLen <? zlen b) eqn:E; [unfold MaxPacketLen in E; lia|].
  assert (Hf : exists f, S (length b) = S (S (S f))) by (exists (length b - 2)%nat; unfold zlen in Hlen; lia).
  destruct Hf as [f Hf]. rewrite Hf.
  destruct (decode_field (S (S f)) hdr uid (enc_auth nonce ct) extUniqueIdentifier ntpPacketLen decoded0)
    as [H _]; try reflexivity; try lia; try (unfold ntpPacketLen; lia).
  { rewrite !zlen_app, efield_len, (enc_auth_len seal seal_len) by exact Hn. lia. }
  fold b in H. rewrite (H eq_refl Hu). clear H.
  replace b with ((hdr ++ efield extUniqueIdentifier uid) ++ enc_auth nonce ct) by (unfold b; rewrite <- !app_assoc; reflexivity).
  rewrite (decode_auth f _ nonce ct _ (set_uid decoded0 uid) eq_refl eq_refl Hn ltac:(lia) ltac:(lia)).
  unfold set_auth. rewrite Epre. reflexivity.
Qed.

End Codec.

(* the cookie fields of a reply's plaintext *)
Lemma plain_cookies_fields L : L mod 4 = 0 -> 24 <= L -> 4 + L < 65536 ->
  forall cs f pre acc, Forall (fun c => zlen c = L) cs -> (length cs <= f)%nat ->
  plain_cookies (S f) (pre ++ concat (map (efield extCookie) cs)) (zlen pre) acc = Ok (acc ++ cs).
Proof.
  intros H4 H24 HL. induction cs as [|c r IH]; intros f pre acc Hall Hf.
  - cbn [map concat]. rewrite app_nil_r. cbn [plain_cookies]. rewrite Z.sub_diag. cbn. rewrite app_nil_r. reflexivity.
  - apply Forall_cons_iff in Hall as [Hc Hr]. cbn [map concat length] in *.
    destruct f as [|f]; [lia|].
    pose proof (zlen_nonneg (concat (map (efield extCookie) r))) as Hrn.
    destruct (field_header pre c (concat (map (efield extCookie) r)) extCookie (zlen pre) eq_refl
                ltac:(unfold extCookie; lia) ltac:(lia)) as [H1 [H2 H3]].
    set (b := pre ++ efield extCookie c ++ concat (map (efield extCookie) r)) in *.
    assert (Hb : zlen b - zlen pre = 4 + zlen c + zlen (concat (map (efield extCookie) r)))
      by (unfold b; rewrite !zlen_app, efield_len; lia).
    remember (S f) as g eqn:Eg. cbn [plain_cookies]. subst g. rewrite Hb. destruct (_ <? 28) eqn:E; [lia|]. rewrite H1, H2.
    destruct (4 + zlen c <? 4) eqn:E4; [lia|].
    change (extCookie =? extCookie) with true. cbv iota.
    assert (Hu : u16 (4 + zlen c - 4) = zlen c) by (unfold u16; rewrite Z.mod_small; lia).
    rewrite Hu, H3.
    replace b with ((pre ++ efield extCookie c) ++ concat (map (efield extCookie) r)) by (unfold b; rewrite <- !app_assoc; reflexivity).
    replace (zlen pre + (4 + zlen c)) with (zlen (pre ++ efield extCookie c)) by (rewrite zlen_app, efield_len; lia).
    rewrite (IH f _ _ Hr ltac:(lia)). rewrite <- app_assoc. reflexivity.
Qed.

