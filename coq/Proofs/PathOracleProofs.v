(* The C15 property oracle (Model/PathOracle.v) accepts every round of the
   model of MeasureClockOffsetSCION, for all client states, offered paths,
   tapes, peer behaviours and filter values. *)
From ST Require Import Base.Ints Base.Sorting Model.NtpTime Model.Ftm Model.Sample Model.PathAssign Model.PathOracle
  Proofs.FtmProofs Proofs.SampleProofs Proofs.PathAssignProofs.
From Coq Require Import Sorting.Permutation.
Open Scope Z_scope.

(* what the oracle is shown of the model's client i *)
Definition to_cobs (hasf : bool) (s : cstate) (o : client_obs) : cobs :=
  {| ob_ilv := in_ilv s; ob_fp := cs_fp s; ob_filter := hasf;
     ob_hops := match co_path o with Some p => [Z.of_nat p] | None => [] end;
     ob_resets := if hasf && co_reset o then 1 else 0;
     ob_first := match co_reqs o with [] => -1 | b :: _ => if b then 1 else 0 end;
     ob_vals := co_vals o; ob_old := cs_old s |}.

Fixpoint to_cobs_list (hasfs : list bool) (cs : list cstate) (obs : list client_obs) : list cobs :=
  match hasfs, cs, obs with
  | h :: hasfs', s :: cs', o :: obs' => to_cobs h s o :: to_cobs_list hasfs' cs' obs'
  | _, _, _ => []
  end.

(* ---- boolean helpers ---- *)
Lemma zmem_In x l : zmem x l = true <-> In x l.
Proof.
  induction l as [|y r IH]; cbn; [split; [discriminate|tauto]|].
  rewrite orb_true_iff, IH, Z.eqb_eq. split; intros [H|H]; auto.
Qed.

Lemma znodupb_of_nat l : NoDup l -> znodupb (map Z.of_nat l) = true.
Proof.
  induction 1 as [|x r Hx Hr IH]; cbn; [reflexivity|]. rewrite IH, andb_true_r.
  destruct (zmem (Z.of_nat x) (map Z.of_nat r)) eqn:E; [|reflexivity].
  apply zmem_In in E. apply in_map_iff in E. destruct E as [y [Hy Hin]].
  apply Nat2Z.inj in Hy. subst. contradiction.
Qed.

Lemma remove_one_perm f l : In f l -> Permutation (f :: remove_one f l) l.
Proof.
  induction l as [|y r IH]; cbn; [tauto|]. destruct (Z.eqb_spec f y) as [->|E]; [intros _; apply Permutation_refl|].
  intros [H|H]; [congruence|]. eapply Permutation_trans; [apply perm_swap|]. apply perm_skip. apply IH. exact H.
Qed.

Lemma map_fp_seq fps : map (fp_of fps) (seq 0 (length fps)) = fps.
Proof.
  unfold fp_of. induction fps as [|f r IH]; cbn [length seq map]; [reflexivity|].
  cbn [nth]. f_equal. rewrite <- seq_shift, map_map. cbn [nth]. exact IH.
Qed.

(* ---- the oracle's greedy rule is what the sticky loop does ---- *)
Fixpoint keeps_cs (cs : list cstate) (avail : list Z) : list bool :=
  match cs with
  | [] => []
  | c :: r =>
      if in_ilv c && zmem (cs_fp c) avail then true :: keeps_cs r (remove_one (cs_fp c) avail)
      else false :: keeps_cs r avail
  end.

Lemma keeps_to_cobs hasfs cs obs avail :
  length hasfs = length cs -> length obs = length cs ->
  keeps (to_cobs_list hasfs cs obs) avail = keeps_cs cs avail.
Proof.
  revert hasfs obs avail. induction cs as [|c r IH]; intros [|h hs] [|o os] avail H1 H2; cbn in *; try lia; auto.
  destruct (in_ilv c && zmem (cs_fp c) avail); f_equal; apply IH; lia.
Qed.

Lemma find_fp_In fps f ps : In f (map (fp_of fps) ps) -> find_fp fps f ps <> None.
Proof.
  intros H Hn. apply in_map_iff in H. destruct H as [p [Hp Hin]]. exact (find_fp_None _ _ _ Hn p Hin Hp).
Qed.

Lemma keeps_sticky fps cs ps avail sps ps' :
  Permutation avail (map (fp_of fps) ps) ->
  sticky fps cs ps = (sps, ps') -> keeps_cs cs avail = map is_some sps.
Proof.
  revert ps avail sps ps'. induction cs as [|c r IH]; intros ps avail sps ps' Hp; cbn [sticky keeps_cs].
  - intros H. inversion H. reflexivity.
  - destruct (in_ilv c) eqn:Hil; cbn [andb].
    + destruct (find_fp fps (cs_fp c) ps) as [j|] eqn:Ef.
      * destruct (sticky fps r (swap_remove j ps)) as [s0 p0] eqn:E. intros H. inversion H; subst. clear H.
        destruct (find_fp_Some _ _ _ _ Ef) as [Hj Hfp].
        assert (Hin : In (cs_fp c) avail).
        { apply (Permutation_in _ (Permutation_sym Hp)). rewrite <- Hfp. apply in_map. apply nth_In. exact Hj. }
        apply zmem_In in Hin. rewrite Hin. cbn [map is_some]. f_equal.
        eapply IH; [|exact E].
        apply (Permutation_cons_inv (a := cs_fp c)).
        eapply Permutation_trans; [apply remove_one_perm; apply zmem_In; exact Hin|].
        eapply Permutation_trans; [exact Hp|].
        rewrite <- Hfp. change (fp_of fps (nth j ps O) :: map (fp_of fps) (swap_remove j ps))
          with (map (fp_of fps) (nth j ps O :: swap_remove j ps)).
        apply Permutation_map. apply Permutation_sym. apply swap_remove_perm. exact Hj.
      * destruct (sticky fps r ps) as [s0 p0] eqn:E. intros H. inversion H; subst. clear H.
        destruct (zmem (cs_fp c) avail) eqn:Ez.
        -- exfalso. apply zmem_In in Ez. apply (Permutation_in _ Hp) in Ez. exact (find_fp_In _ _ _ Ez Ef).
        -- cbn [map is_some]. f_equal. eapply IH; [exact Hp|exact E].
    + destruct (sticky fps r ps) as [s0 p0] eqn:E. intros H. inversion H; subst. clear H.
      cbn [map is_some]. f_equal. eapply IH; [exact Hp|exact E].
Qed.

Lemma sticky_forall2 fps cs ps sps ps' :
  sticky fps cs ps = (sps, ps') ->
  Forall2 (fun s o => forall p, o = Some p -> in_ilv s = true /\ fp_of fps p = cs_fp s) cs sps.
Proof.
  revert ps sps ps'. induction cs as [|c r IH]; intros ps sps ps'; cbn [sticky].
  - intros H. inversion H. constructor.
  - destruct (if in_ilv c then find_fp fps (cs_fp c) ps else None) as [j|] eqn:Ef.
    + destruct (sticky fps r (swap_remove j ps)) as [s0 p0] eqn:E. intros H. inversion H; subst. clear H.
      constructor; [|eapply IH; exact E]. intros p Hp. inversion Hp; subst.
      destruct (in_ilv c); [|discriminate]. split; [reflexivity|]. apply find_fp_Some in Ef. tauto.
    + destruct (sticky fps r ps) as [s0 p0] eqn:E. intros H. inversion H; subst. clear H.
      constructor; [discriminate|eapply IH; exact E].
Qed.

(* the first request of a round *)
Lemma exch_loop_first n s ms vs pfp s' rl dl :
  exch_loop (S n) s ms vs pfp = (s', rl, dl) -> exists r, rl = req_form s :: r.
Proof.
  cbn [exch_loop]. unfold exch1. destruct (hd PN ms).
  - destruct (in_ilv _).
    + intros H. inversion H. eauto.
    + destruct (exch_loop n _ _ _ _) as [[s2 rl2] dl2]. intros H. inversion H. eauto.
  - destruct (in_ilv _).
    + intros H. inversion H. eauto.
    + destruct (exch_loop n _ _ _ _) as [[s2 rl2] dl2]. intros H. inversion H. eauto.
  - destruct (exch_loop n _ _ _ _) as [[s2 rl2] dl2]. intros H. inversion H. eauto.
  - intros H. inversion H. eauto.
Qed.

Lemma n_exch_pos s : exists n, n_exch s = S n.
Proof. unfold n_exch. destruct (cs_en s); eauto. Qed.

Section Round.
  Variable fps : list Z.

  (* sticky clause of the oracle on the model's clients *)
  Lemma all2_sticky cs : forall hasfs sps qs mss vss,
    length hasfs = length cs ->
    Forall2 (fun s o => forall p, o = Some p -> in_ilv s = true /\ fp_of fps p = cs_fp s) cs sps ->
    all2 (sticky_ok fps) (to_cobs_list hasfs cs (run_clients fps cs (fill sps qs) (map is_none sps) mss vss))
         (map is_some sps) = true.
  Proof.
    induction cs as [|s r IH]; intros hasfs sps qs mss vss Hl Hf.
    - inversion Hf; subst. destruct hasfs; reflexivity.
    - inversion Hf as [|? o ? sps' Ho Hr]; subst. destruct hasfs as [|h hs]; [cbn in Hl; lia|].
      destruct o as [p|].
      + destruct (Ho p eq_refl) as [Hil Hfp].
        cbn [fill map is_none is_some run_clients to_cobs_list all2].
        rewrite IH by (cbn in Hl; auto; lia). rewrite andb_true_r.
        unfold run_client. destruct (n_exch_pos s) as [n Hn]. rewrite Hn.
        destruct (exch_loop (S n) s (hd [] mss) (hd [] vss) (fp_of fps p)) as [[s1 rl] dl] eqn:El.
        destruct (exch_loop_first _ _ _ _ _ _ _ _ El) as [rr ->].
        unfold sticky_ok, to_cobs. cbn [ob_hops co_path ob_fp ob_resets co_reset ob_first co_reqs ob_old].
        rewrite Nat2Z.id. fold (fp_of fps p). rewrite Hfp, Z.eqb_refl, andb_false_r.
        unfold in_ilv in Hil. apply andb_true_iff in Hil. destruct Hil as [Hil _]. unfold req_form. rewrite Hil.
        destruct (cs_old s); reflexivity.
      + cbn [map is_none is_some].
        assert (Hgen : forall p' qs', all2 (sticky_ok fps)
                   (to_cobs_list (h :: hs) (s :: r) (run_clients fps (s :: r) (p' :: fill sps' qs') (true :: map is_none sps') mss vss))
                   (false :: map is_some sps') = true).
        { intros p' qs'. cbn [run_clients to_cobs_list all2].
          rewrite IH by (cbn in Hl; auto; lia). rewrite andb_true_r.
          unfold run_client. destruct p' as [q|].
          - destruct (n_exch_pos (reset_client s)) as [n Hn]. rewrite Hn.
            destruct (exch_loop (S n) (reset_client s) (hd [] mss) (hd [] vss) (fp_of fps q)) as [[s1 rl] dl] eqn:El.
            destruct (exch_loop_first _ _ _ _ _ _ _ _ El) as [rr ->].
            unfold sticky_ok, to_cobs, req_form. cbn [ob_resets co_reset ob_first co_reqs ob_filter reset_client cs_ref cs_en cs_old].
            rewrite andb_false_r. cbn [andb]. rewrite andb_true_r. destruct h; reflexivity.
          - unfold sticky_ok, to_cobs. cbn [ob_resets co_reset ob_first co_reqs ob_filter].
            rewrite andb_true_r. destruct h; reflexivity. }
        cbn [fill]. destruct qs as [|q qs']; apply Hgen.
  Qed.

  (* the list-level facts the other clauses need *)
  Lemma run_clients_cobs cs : forall hasfs asg resets mss vss,
    length asg = length cs -> length resets = length cs -> length hasfs = length cs ->
    let mobs := run_clients fps cs asg resets mss vss in
    let L := to_cobs_list hasfs cs mobs in
    flat_map ob_hops L = map Z.of_nat (somes asg)
    /\ forallb (fun o => Nat.leb (length (ob_hops o)) 1) L = true
    /\ length L = length cs /\ length mobs = length cs
    /\ flat_map ob_meas (filter participates L) = measured (map (fun o => client_value (co_vals o)) (participants mobs))
    /\ length (filter participates L) = length (somes asg).
  Proof.
    induction cs as [|s r IH]; intros [|h hs] [|p asg] [|rs resets] mss vss H1 H2 H3; cbn in H1, H2, H3; try lia.
    - cbn. repeat split; reflexivity.
    - destruct (IH hs asg resets (tl mss) (tl vss) ltac:(lia) ltac:(lia) ltac:(lia)) as [I1 [I2 [I3 [I4 [I5 I6]]]]].
      cbv zeta. cbn [run_clients to_cobs_list flat_map forallb length filter].
      unfold run_client. destruct p as [q|].
      + destruct (exch_loop _ _ _ _ _) as [[s1 rl] dl].
        unfold participants. cbn [to_cobs ob_hops co_path participates filter is_some map somes app length Nat.leb andb flat_map].
        fold (participants (run_clients fps r asg resets (tl mss) (tl vss))).
        rewrite I1, I2, I3, I4, I5, I6. repeat split; try reflexivity.
        unfold measured. cbn [flat_map]. f_equal. unfold ob_meas, client_value, to_cobs. cbn [ob_vals co_vals]. destruct (rev dl); reflexivity.
      + unfold participants. cbn [to_cobs ob_hops co_path participates filter is_some map somes app length Nat.leb andb flat_map].
        fold (participants (run_clients fps r asg resets (tl mss) (tl vss))).
        rewrite I1, I2, I3, I4, I5, I6. repeat split; reflexivity.
  Qed.
End Round.

Lemma forallb_range (fps : list Z) (l : list nat) :
  (forall p, In p l -> (p < length fps)%nat) ->
  forallb (fun p => (0 <=? p) && (p <? Z.of_nat (length fps))) (map Z.of_nat l) = true.
Proof.
  intros H. apply forallb_forall. intros x Hx. apply in_map_iff in Hx. destruct Hx as [p [<- Hp]].
  specialize (H p Hp). apply andb_true_iff. split; [apply Z.leb_le; lia|apply Z.ltb_lt; lia].
Qed.

(* the clauses of the oracle for a round in which somebody takes part *)
Lemma round_clauses fps cs hasfs c d tape mss vss asg resets rest' cls off :
  length hasfs = length cs -> Z.of_nat (length fps) <= max_i64 -> words tape -> word d ->
  assign fps cs c d tape = AOk asg resets rest' ->
  match round_offset (map (fun o => client_value (co_vals o)) (participants (run_clients fps cs asg resets mss vss))) with
  | Some m => cls = 0 /\ off = m
  | None => cls = 4
  end ->
  C15_round_ok fps (to_cobs_list hasfs cs (run_clients fps cs asg resets mss vss)) cls off = true.
Proof.
  intros Hh Hmax Hw Hd Ea Hres.
  destruct (assign_ok_facts _ _ _ _ _ _ _ _ Hmax Hw Hd Ea) as [[[Hl1 Hl2] Hdist Hoff Hcnt Hne _] _].
  destruct (run_clients_cobs fps cs hasfs asg resets mss vss Hl1 Hl2 Hh) as [I1 [I2 [I3 [I4 [I5 I6]]]]].
  cbv zeta in I1, I2, I3, I4, I5, I6.
  unfold C15_round_ok. rewrite I1, I2, I3, I5, I6.
  rewrite (forallb_range fps _ Hoff), (znodupb_of_nat _ Hdist). cbn [andb].
  rewrite Hcnt.
  assert (Hmin : Z.of_nat (Nat.min (length cs) (length fps)) = Z.min (Z.of_nat (length cs)) (Z.of_nat (length fps))) by lia.
  rewrite Hmin, Z.eqb_refl. cbn [andb].
  (* sticky clause *)
  assert (Hst : all2 (sticky_ok fps) (to_cobs_list hasfs cs (run_clients fps cs asg resets mss vss))
                  (keeps (to_cobs_list hasfs cs (run_clients fps cs asg resets mss vss)) fps) = true).
  { rewrite keeps_to_cobs by (auto; lia).
    unfold assign in Ea. destruct (sticky fps cs (seq 0 (length fps))) as [sps ps1] eqn:Es.
    destruct (sample _ _ c d tape) as [[[n picks] rest2]| | |]; try discriminate.
    destruct (_ =? 0); [discriminate|]. inversion Ea; subst asg resets.
    rewrite (keeps_sticky fps cs (seq 0 (length fps)) fps sps ps1); [|rewrite map_fp_seq; apply Permutation_refl|exact Es].
    apply all2_sticky; [exact Hh|]. eapply sticky_forall2. exact Es. }
  rewrite Hst. cbn [andb].
  destruct (Z.min (Z.of_nat (length cs)) (Z.of_nat (length fps)) =? 0) eqn:E0; [apply Z.eqb_eq in E0; lia|].
  unfold round_offset in Hres.
  destruct (ftm _) as [m|]; [destruct Hres as [-> ->]; rewrite !Z.eqb_refl; reflexivity|subst cls; reflexivity].
Qed.

(* Main theorem: the oracle accepts every round the model can produce. *)
Theorem model_round_ok c fps cs hasfs d tape mss vss obs off rest :
  length hasfs = length cs -> Z.of_nat (length fps) <= max_i64 -> words tape -> word d ->
  run_round_c c fps cs d tape mss vss = ROk obs off rest ->
  C15_round_ok fps (to_cobs_list hasfs cs obs) 0 off = true.
Proof.
  intros Hh Hmax Hw Hd. unfold run_round_c.
  destruct (assign fps cs c d tape) as [asg resets rest'| | | |] eqn:Ea; try discriminate.
  destruct (round_offset _) as [m|] eqn:Ero; [|discriminate].
  intros H. inversion H; subst obs off rest'. clear H.
  eapply round_clauses; eauto. rewrite Ero. split; reflexivity.
Qed.

(* ... the round that reports errNoMeasurement (no participant produced a measurement) ... *)
Theorem model_nomeas_ok c fps cs hasfs d tape mss vss obs rest :
  length hasfs = length cs -> Z.of_nat (length fps) <= max_i64 -> words tape -> word d ->
  run_round_c c fps cs d tape mss vss = RNoMeas obs rest ->
  C15_round_ok fps (to_cobs_list hasfs cs obs) 4 0 = true
  /\ Forall (fun o => co_vals o = []) (participants obs).
Proof.
  intros Hh Hmax Hw Hd. unfold run_round_c.
  destruct (assign fps cs c d tape) as [asg resets rest'| | | |] eqn:Ea; try discriminate.
  destruct (round_offset _) as [m|] eqn:Ero; [discriminate|].
  intros H. inversion H; subst obs rest'. clear H. split.
  - eapply round_clauses; eauto. rewrite Ero. reflexivity.
  - apply round_offset_none in Ero. unfold measured in Ero.
    induction (participants (run_clients fps cs asg resets mss vss)) as [|o r IH]; [constructor|].
    cbn [map flat_map] in Ero. apply app_eq_nil in Ero. destruct Ero as [E1 E2].
    constructor; [|apply IH; exact E2].
    unfold client_value in E1. destruct (co_vals o) as [|v vs] using rev_ind; [reflexivity|].
    rewrite rev_app_distr in E1. cbn in E1. discriminate.
Qed.

(* ... and the round that reports errNoPath *)
Definition idle_cobs (hasf : bool) (s : cstate) : cobs :=
  {| ob_ilv := in_ilv s; ob_fp := cs_fp s; ob_filter := hasf; ob_hops := []; ob_resets := if hasf then 1 else 0;
     ob_first := -1; ob_vals := []; ob_old := cs_old s |}.

Lemma keeps_none_avail cs : keeps_cs cs [] = map (fun _ => false) cs.
Proof. induction cs as [|c r IH]; cbn; [reflexivity|]. rewrite andb_false_r. f_equal. exact IH. Qed.

Theorem model_nopath_ok c fps cs hasfs d tape mss vss post resets rest :
  length hasfs = length cs ->
  run_round_c c fps cs d tape mss vss = RNoPath post resets rest ->
  C15_round_ok fps (map (fun hs : bool * cstate => idle_cobs (fst hs) (snd hs)) (combine hasfs cs)) 1 0 = true
  /\ resets = map (fun _ => true) cs.
Proof.
  intros Hh. unfold run_round_c.
  destruct (assign fps cs c d tape) as [asg resets' rest'| resets' rest'| | |] eqn:Ea; try discriminate.
  { destruct (round_offset _); discriminate. }
  intros H. unfold post_reset in H. inversion H; subst post resets rest. clear H.
  destruct (assign_nopath _ _ _ _ _ _ _ Ea) as [Hmin Hres]. split; [|exact Hres].
  unfold C15_round_ok.
  set (L := map (fun hs : bool * cstate => idle_cobs (fst hs) (snd hs)) (combine hasfs cs)).
  assert (HL : length L = length cs) by (unfold L; rewrite map_length, combine_length; lia).
  assert (Hhops : flat_map ob_hops L = []).
  { unfold L. clear. induction (combine hasfs cs) as [|x r IH]; cbn; auto. }
  assert (Hparts : filter participates L = []).
  { unfold L. clear. induction (combine hasfs cs) as [|x r IH]; cbn; auto. }
  assert (Hone : forallb (fun o => Nat.leb (length (ob_hops o)) 1) L = true).
  { unfold L. clear. induction (combine hasfs cs) as [|x r IH]; cbn; auto. }
  rewrite Hhops, Hparts, Hone, HL. cbn [forallb znodupb andb length].
  assert (Hz : Z.min (Z.of_nat (length cs)) (Z.of_nat (length fps)) = 0) by lia.
  rewrite Hz. cbn [Z.of_nat Z.eqb andb].
  rewrite andb_true_r.
  (* sticky clause: nobody keeps anything: either there are no clients or no paths *)
  assert (Hcase : cs = [] \/ fps = []).
  { destruct cs; [left; reflexivity|]. destruct fps; [right; reflexivity|]. cbn in Hmin. lia. }
  destruct Hcase as [-> | ->].
  - destruct hasfs; [|cbn in Hh; lia]. reflexivity.
  - assert (Hk : keeps L [] = map (fun _ => false) L).
    { clear. induction L as [|o r IH]; cbn; [reflexivity|]. rewrite andb_false_r. f_equal. exact IH. }
    rewrite Hk. unfold L. clear. induction (combine hasfs cs) as [|x r IH]; cbn [map all2]; [reflexivity|].
    rewrite IH, andb_true_r. unfold sticky_ok, idle_cobs. cbn. destruct (fst x); reflexivity.
Qed.
