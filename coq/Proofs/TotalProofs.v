(* C08: totality proofs for the models in Model/Total.v: no decoder, encoder or receive-loop
   iteration ends in Panic or OutOfFuel, whatever the bytes and whatever the external calls answer. *)
From ST Require Import Base.Ints Model.Total.
Open Scope Z_scope.
Ltac Zify.zify_post_hook ::= Z.div_mod_to_equations.

Definition safe {A} (o : outcome A) : Prop :=
  match o with Panic | OutOfFuel => False | _ => True end.

Definition is_ok {A} (o : outcome A) : Prop := exists v, o = Ok v.

Lemma safe_class {A} (o : outcome A) : safe o <-> C08_class_ok (class_of o) = true.
Proof. destruct o; simpl; split; intros H; try exact I; try discriminate; try reflexivity; contradiction. Qed.

Lemma safe_bind {A B} (o : outcome A) (f : A -> outcome B) :
  safe o -> (forall a, o = Ok a -> safe (f a)) -> safe (obind o f).
Proof. destruct o; simpl; intros Ho Hf; auto. Qed.

Lemma ok_bind {A B} (o : outcome A) (f : A -> outcome B) :
  is_ok o -> (forall a, o = Ok a -> safe (f a)) -> safe (obind o f).
Proof. intros [v ->] Hf. simpl. apply Hf. reflexivity. Qed.

Lemma ok_safe {A} (o : outcome A) : is_ok o -> safe o.
Proof. intros [v ->]. exact I. Qed.

(* ---------- slices ---------- *)

Lemma blen_nonneg b : 0 <= blen b.
Proof. unfold blen. lia. Qed.

Lemma blen_skipn k b : blen (skipn k b) = blen b - Z.min (Z.of_nat k) (blen b).
Proof. unfold blen. rewrite skipn_length. lia. Qed.

Lemma blen_firstn k b : blen (firstn k b) = Z.min (Z.of_nat k) (blen b).
Proof. unfold blen. rewrite firstn_length. lia. Qed.

Lemma blen_app a b : blen (a ++ b) = blen a + blen b.
Proof. unfold blen. rewrite app_length. lia. Qed.

Lemma blen_repeat (x : Z) k : blen (repeat x k) = Z.of_nat k.
Proof. unfold blen. rewrite repeat_length. reflexivity. Qed.

Lemma blen_make_copy n s : 0 <= n -> blen (make_copy n s) = n.
Proof.
  intros Hn. unfold make_copy. rewrite blen_app, blen_repeat.
  pose proof (firstn_le_length (Z.to_nat n) s) as Hle.
  unfold blen. lia.
Qed.

Lemma idx_ok b i : 0 <= i < blen b -> is_ok (idx b i).
Proof.
  intros H. unfold idx.
  replace ((0 <=? i) && (i <? blen b)) with true by (symmetry; apply andb_true_iff; split; [apply Z.leb_le|apply Z.ltb_lt]; lia).
  eexists. reflexivity.
Qed.

Lemma from_ok b a : 0 <= a <= blen b -> from b a = Ok (skipn (Z.to_nat a) b).
Proof.
  intros H. unfold from.
  replace ((0 <=? a) && (a <=? blen b)) with true by (symmetry; apply andb_true_iff; split; apply Z.leb_le; lia).
  reflexivity.
Qed.

Lemma sub_ok b a c : 0 <= a <= c -> c <= blen b -> is_ok (sub b a c).
Proof.
  intros H1 H2. unfold sub.
  replace ((0 <=? a) && (a <=? c) && (c <=? blen b)) with true
    by (symmetry; rewrite !andb_true_iff; repeat split; apply Z.leb_le; lia).
  eexists. reflexivity.
Qed.

Lemma be16_range s v : be16 s = Ok v -> 0 <= v < 65536.
Proof.
  destruct s as [|x [|y r]]; simpl; try discriminate. intros H. injection H as <-.
  pose proof (Z.mod_pos_bound x 256). pose proof (Z.mod_pos_bound y 256). lia.
Qed.

Lemma u16_at_ok b pos : 0 <= pos -> pos + 2 <= blen b -> exists v, u16_at b pos = Ok v /\ 0 <= v < 65536.
Proof.
  intros H0 H2. unfold u16_at. rewrite from_ok by lia. simpl.
  assert (Hl : 2 <= blen (skipn (Z.to_nat pos) b)) by (rewrite blen_skipn; lia).
  destruct (skipn (Z.to_nat pos) b) as [|x [|y r]] eqn:E; unfold blen in Hl; simpl in Hl; try lia.
  eexists. split; [reflexivity|].
  pose proof (Z.mod_pos_bound x 256). pose proof (Z.mod_pos_bound y 256). lia.
Qed.

Lemma rd_be_ok b n : forall off acc, 0 <= off -> off + Z.of_nat n <= blen b -> is_ok (rd_be b off n acc).
Proof.
  induction n as [|k IH]; intros off acc H0 H1; cbn [rd_be].
  - eexists. reflexivity.
  - destruct (idx_ok b off) as [v Hv]; [lia|]. rewrite Hv. simpl. apply IH; lia.
Qed.

Lemma be_val_nonneg l : forall acc, 0 <= acc -> 0 <= be_val l acc.
Proof.
  induction l as [|x r IH]; intros acc H; cbn [be_val]; [exact H|].
  apply IH. pose proof (Z.mod_pos_bound x 256 ltac:(lia)). lia.
Qed.

Lemma le_val_nonneg l : 0 <= le_val l.
Proof.
  induction l as [|x r IH]; cbn [le_val]; [lia|]. pose proof (Z.mod_pos_bound x 256 ltac:(lia)). lia.
Qed.

Ltac step_idx b i :=
  let v := fresh "v" in let Hv := fresh "Hv" in
  destruct (idx_ok b i) as [v Hv]; [lia|]; rewrite Hv; cbn [obind].
Ltac step_rd b off n acc :=
  let v := fresh "v" in let Hv := fresh "Hv" in
  destruct (rd_be_ok b n off acc) as [v Hv]; [lia|simpl; lia|]; rewrite Hv; cbn [obind].

(* ---------- ntp ---------- *)

Lemma ntp_decode_spec b :
  (blen b < 48 /\ ntp_decode b = Err e_size) \/ (48 <= blen b /\ is_ok (ntp_decode b)).
Proof.
  unfold ntp_decode. destruct (blen b <? 48) eqn:E.
  - left. apply Z.ltb_lt in E. auto.
  - right. apply Z.ltb_ge in E. split; [exact E|].
    step_idx b 47. step_idx b 0. step_rd b 4 36%nat 0. step_rd b 40 4%nat 0. step_rd b 44 4%nat 0.
    eexists. reflexivity.
Qed.

Lemma ntp_decode_total b : safe (ntp_decode b).
Proof. destruct (ntp_decode_spec b) as [[_ ->]|[_ H]]; [exact I|apply ok_safe, H]. Qed.

(* ---------- csptp ---------- *)

Lemma csptp_decode_message_spec b :
  (blen b < 44 /\ csptp_decode_message b = Err e_size) \/ (44 <= blen b /\ is_ok (csptp_decode_message b)).
Proof.
  unfold csptp_decode_message. destruct (blen b <? 44) eqn:E.
  - left. apply Z.ltb_lt in E. auto.
  - right. apply Z.ltb_ge in E. split; [exact E|].
    step_idx b 43. step_idx b 0. step_rd b 2 2%nat 0. step_rd b 4 26%nat 0. step_rd b 30 2%nat 0. step_rd b 32 12%nat 0.
    eexists. reflexivity.
Qed.

Lemma csptp_decode_message_total b : safe (csptp_decode_message b).
Proof. destruct (csptp_decode_message_spec b) as [[_ ->]|[_ H]]; [exact I|apply ok_safe, H]. Qed.

Lemma tlv_len_cases f : tlv_len f = 36 \/ tlv_len f = 54.
Proof. unfold tlv_len. destruct (Z.odd f); auto. Qed.

Lemma csptp_decode_request_tlv_total b : safe (csptp_decode_request_tlv b).
Proof.
  unfold csptp_decode_request_tlv. destruct (blen b <? 14) eqn:E; [exact I|]. apply Z.ltb_ge in E.
  step_idx b 13. step_rd b 0 2%nat 0. step_rd b 2 8%nat 0. step_rd b 10 4%nat 0.
  destruct (blen b <? tlv_len v2); exact I.
Qed.

Lemma csptp_decode_response_tlv_total b : safe (csptp_decode_response_tlv b).
Proof.
  unfold csptp_decode_response_tlv. destruct (blen b <? 14) eqn:E; [exact I|]. apply Z.ltb_ge in E.
  step_idx b 13. step_rd b 0 2%nat 0. step_rd b 2 8%nat 0. step_rd b 10 4%nat 0.
  destruct (blen b <? tlv_len v2) eqn:E2; [exact I|]. apply Z.ltb_ge in E2.
  unfold tlv_len in E2.
  destruct (Z.odd v2) eqn:Eo.
  - step_idx b 35. step_rd b 14 22%nat 0. step_idx b 53. step_rd b 36 18%nat 0. exact I.
  - step_idx b 35. step_rd b 14 22%nat 0. exact I.
Qed.

(* ---------- cookies ---------- *)

Lemma cookie_loop_total ta tb tc b : forall fuel pos st,
  0 <= pos -> blen b - pos <= Z.of_nat fuel -> safe (cookie_loop fuel ta tb tc b pos st).
Proof.
  induction fuel as [|f IH]; intros pos st H0 Hf.
  - simpl. destruct (pos <? blen b) eqn:E; [apply Z.ltb_lt in E; lia|exact I].
  - cbn [cookie_loop]. destruct (pos <? blen b) eqn:E; [|exact I]. apply Z.ltb_lt in E.
    destruct (blen b - pos <? 4) eqn:E4; [exact I|]. apply Z.ltb_ge in E4.
    destruct (u16_at_ok b pos) as [t [Ht _]]; [lia|lia|]. rewrite Ht. cbn [obind].
    destruct (u16_at_ok b (pos + 2)) as [len [Hl Hlr]]; [lia|lia|]. rewrite Hl. cbn [obind].
    destruct (blen b - pos - 4 <? len) eqn:E5; [exact I|]. apply Z.ltb_ge in E5.
    assert (Hnext : forall st', safe (cookie_loop f ta tb tc b (pos + 4 + len) st')) by (intros; apply IH; lia).
    destruct (t =? ta).
    { destruct (len <? 2) eqn:E2; [exact I|]. apply Z.ltb_ge in E2.
      destruct (u16_at_ok b (pos + 4)) as [v [Hv _]]; [lia|lia|]. rewrite Hv. cbn [obind]. apply Hnext. }
    destruct (t =? tb).
    { destruct (sub_ok b (pos + 4) (pos + 4 + len)) as [v Hv]; [lia|lia|]. rewrite Hv. cbn [obind]. apply Hnext. }
    destruct (t =? tc).
    { destruct (sub_ok b (pos + 4) (pos + 4 + len)) as [v Hv]; [lia|lia|]. rewrite Hv. cbn [obind]. apply Hnext. }
    apply Hnext.
Qed.

Lemma cookie_decode_total ta tb tc b : safe (cookie_decode ta tb tc b).
Proof.
  unfold cookie_decode. apply safe_bind.
  - apply cookie_loop_total; unfold blen; lia.
  - intros [pos st] _. destruct (negb (pos =? blen b)); [exact I|].
    destruct (t_a st), (t_b st), (t_c st); exact I.
Qed.

Lemma server_cookie_decode_total b : safe (server_cookie_decode b).
Proof. apply cookie_decode_total. Qed.
Lemma encrypted_cookie_decode_total b : safe (encrypted_cookie_decode b).
Proof. apply cookie_decode_total. Qed.

Lemma cookie_decrypt_total aopen key nonce ct : safe (cookie_decrypt aopen key nonce ct).
Proof.
  unfold cookie_decrypt. destruct (negb (key_ok key)); [exact I|].
  destruct (negb (blen nonce =? 16)) eqn:En; [exact I|].
  unfold go_open. rewrite En. destruct (aopen key nonce ct []); simpl; [apply server_cookie_decode_total|exact I].
Qed.

(* without the length check of Decrypt the AEAD's precondition is violated by a cookie from the wire *)
Lemma go_open_needs_nonce_check aopen key ct :
  go_open aopen key [] ct [] = Panic.
Proof. reflexivity. Qed.

(* ---------- nts: DecodePacket ---------- *)

Definition no_auth (st : nts_pkt) : bool := match np_auth st with None => true | Some _ => false end.

Lemma unpack_value_ok b p len : 0 <= p <= blen b -> is_ok (unpack_value b p len).
Proof. intros H. unfold unpack_value. rewrite from_ok by lia. eexists. reflexivity. Qed.

Lemma unpack_auth_ok b p : 0 <= p -> p + 4 <= blen b -> is_ok (unpack_auth b p).
Proof.
  intros H0 H4. unfold unpack_auth.
  destruct (u16_at_ok b p) as [nl [Hn Hnr]]; [lia|lia|]. rewrite Hn. cbn [obind].
  destruct (u16_at_ok b (p + 2)) as [cl [Hc _]]; [lia|lia|]. rewrite Hc. cbn [obind].
  rewrite from_ok by lia. cbn [obind].
  set (s1 := skipn (Z.to_nat (p + 4)) b).
  assert (Hs1 : blen s1 = blen b - (p + 4)) by (unfold s1; rewrite blen_skipn; lia).
  assert (Hz : 0 <= zmin nl (blen s1) <= blen s1) by (unfold zmin; destruct (nl <? blen s1) eqn:E; [apply Z.ltb_lt in E|apply Z.ltb_ge in E]; lia).
  rewrite from_ok by lia. cbn [obind]. eexists. reflexivity.
Qed.

Lemma nts_loop_total b : forall fuel pos st,
  0 <= pos -> blen b - pos - 27 <= Z.of_nat fuel -> safe (nts_loop fuel b pos st).
Proof.
  induction fuel as [|f IH]; intros pos st H0 Hf.
  - simpl. fold (no_auth st). destruct ((28 <=? blen b - pos) && no_auth st) eqn:E; [|exact I].
    apply andb_true_iff in E. destruct E as [E _]. apply Z.leb_le in E. lia.
  - cbn [nts_loop]. fold (no_auth st). destruct ((28 <=? blen b - pos) && no_auth st) eqn:E; [|exact I].
    apply andb_true_iff in E. destruct E as [E _]. apply Z.leb_le in E.
    destruct (u16_at_ok b pos) as [ty [Ht _]]; [lia|lia|]. rewrite Ht. cbn [obind].
    destruct (u16_at_ok b (pos + 2)) as [len [Hl Hlr]]; [lia|lia|]. rewrite Hl. cbn [obind].
    destruct (len <? 4) eqn:E4; [exact I|]. apply Z.ltb_ge in E4.
    assert (Hnext : forall st', safe (nts_loop f b (pos + 4 + len - 4) st')) by (intros; apply IH; lia).
    destruct (ty =? 260).
    { destruct (len - 4 <? 32); [exact I|].
      destruct (unpack_value_ok b (pos + 4) len) as [v Hv]; [lia|]. rewrite Hv. cbn [obind]. apply Hnext. }
    destruct (ty =? 1028).
    { destruct (unpack_auth_ok b (pos + 4)) as [v Hv]; [lia|lia|]. rewrite Hv. cbn [obind]. apply Hnext. }
    destruct (ty =? 516).
    { destruct (unpack_value_ok b (pos + 4) len) as [v Hv]; [lia|]. rewrite Hv. cbn [obind]. apply Hnext. }
    destruct (ty =? 772); apply Hnext.
Qed.

Lemma nts_decode_total b : safe (nts_decode b).
Proof.
  unfold nts_decode. destruct (1024 <? blen b); [exact I|].
  apply safe_bind.
  - apply nts_loop_total; unfold blen; lia.
  - intros st _. destruct (np_uid st), (np_auth st); exact I.
Qed.

(* what a successfully decoded packet looks like: the authenticator field starts inside the packet
   with at least 28 bytes behind it, and the unique identifier lies wholly in front of it *)
Definition final_inv (b : list Z) (st : nts_pkt) : Prop :=
  forall n c a, np_auth st = Some (n, c, a) ->
    48 <= a /\ a + 28 <= blen b /\ forall u, np_uid st = Some u -> 52 + blen u <= a.

Definition loop_inv (b : list Z) (pos : Z) (st : nts_pkt) : Prop :=
  (np_auth st = None -> forall u, np_uid st = Some u -> 52 + blen u <= pos) /\ final_inv b st.

Lemma unpack_value_len b p len v : 4 <= len -> unpack_value b p len = Ok v -> blen v = len - 4.
Proof.
  intros Hl. unfold unpack_value. destruct (from b p); simpl; try discriminate.
  intros H. injection H as <-. apply blen_make_copy. lia.
Qed.

Lemma nts_loop_inv b : forall fuel pos st st',
  48 <= pos -> loop_inv b pos st -> nts_loop fuel b pos st = Ok st' -> final_inv b st'.
Proof.
  induction fuel as [|f IH]; intros pos st st' H48 [Hu Hfin] Hrun.
  - simpl in Hrun. fold (no_auth st) in Hrun.
    destruct ((28 <=? blen b - pos) && no_auth st); [discriminate|]. injection Hrun as <-. exact Hfin.
  - cbn [nts_loop] in Hrun. fold (no_auth st) in Hrun.
    destruct ((28 <=? blen b - pos) && no_auth st) eqn:E; [|injection Hrun as <-; exact Hfin].
    apply andb_true_iff in E. destruct E as [E Ena]. apply Z.leb_le in E.
    unfold no_auth in Ena. destruct (np_auth st) eqn:Eauth; [discriminate|]. clear Ena.
    destruct (u16_at b pos) as [ty| | |]; cbn [obind] in Hrun; try discriminate.
    destruct (u16_at b (pos + 2)) as [len| | |]; cbn [obind] in Hrun; try discriminate.
    destruct (len <? 4) eqn:E4; [discriminate|]. apply Z.ltb_ge in E4.
    specialize (Hu eq_refl).
    destruct (ty =? 260).
    { destruct (len - 4 <? 32); [discriminate|].
      destruct (unpack_value b (pos + 4) len) as [v| | |] eqn:Ev; cbn [obind] in Hrun; try discriminate.
      eapply IH; [|split|exact Hrun]; [lia| |].
      - cbn [np_uid np_auth np_cookies np_placeholders nts_empty]. intros _ u Hsome. injection Hsome as <-. rewrite (unpack_value_len _ _ _ _ E4 Ev). lia.
      - intros n c a Ha. cbn [np_uid np_auth np_cookies np_placeholders nts_empty] in Ha. try rewrite Eauth in Ha. discriminate. }
    destruct (ty =? 1028).
    { destruct (unpack_auth b (pos + 4)) as [v| | |]; cbn [obind] in Hrun; try discriminate.
      eapply IH; [|split|exact Hrun]; [lia| |].
      - cbn [np_uid np_auth np_cookies np_placeholders nts_empty]. discriminate.
      - intros n c a Ha. cbn [np_uid np_auth np_cookies np_placeholders nts_empty] in Ha. injection Ha as _ _ <-. cbn [np_uid np_auth np_cookies np_placeholders nts_empty]. repeat split; try lia; try exact Hu. }
    destruct (ty =? 516).
    { destruct (unpack_value b (pos + 4) len) as [v| | |]; cbn [obind] in Hrun; try discriminate.
      eapply IH; [|split|exact Hrun]; [lia| |].
      - cbn [np_uid np_auth np_cookies np_placeholders nts_empty]. intros _ u Hsome. specialize (Hu u Hsome). lia.
      - intros n c a Ha. cbn [np_uid np_auth np_cookies np_placeholders nts_empty] in Ha. try rewrite Eauth in Ha. discriminate. }
    destruct (ty =? 772).
    { eapply IH; [|split|exact Hrun]; [lia| |].
      - cbn [np_uid np_auth np_cookies np_placeholders nts_empty]. intros _ u Hsome. specialize (Hu u Hsome). lia.
      - intros n c a Ha. cbn [np_uid np_auth np_cookies np_placeholders nts_empty] in Ha. try rewrite Eauth in Ha. discriminate. }
    eapply IH; [|split|exact Hrun]; [lia| |].
    + intros _ u Hsome. specialize (Hu u Hsome). lia.
    + exact Hfin.
Qed.

Lemma nts_decode_inv b p : nts_decode b = Ok p ->
  blen b <= 1024 /\ final_inv b p /\ (exists u, np_uid p = Some u /\ 32 <= blen u) /\ (exists a, np_auth p = Some a).
Proof.
  unfold nts_decode. destruct (1024 <? blen b) eqn:E; [discriminate|]. apply Z.ltb_ge in E.
  destruct (nts_loop (length b) b 48 nts_empty) as [st| | |] eqn:Hl; cbn [obind]; try discriminate.
  destruct (np_uid st) eqn:Eu; [|discriminate]. destruct (np_auth st) eqn:Ea; [|discriminate].
  intros H. injection H as <-.
  assert (Hfin : final_inv b st).
  { eapply nts_loop_inv; [|split|exact Hl]; [lia| |].
    - cbn [np_uid np_auth np_cookies np_placeholders nts_empty]. discriminate.
    - intros n c a Ha. cbn [np_uid np_auth np_cookies np_placeholders nts_empty] in Ha. discriminate. }
  split; [exact E|]. split; [exact Hfin|]. split; [|eauto].
  exists l. split; [exact Eu|].
  (* the unique identifier has at least 32 bytes: shown by a second invariant *)
  clear Hfin E Ea.
  assert (Hgen : forall fuel pos st0 st1, (forall u, np_uid st0 = Some u -> 32 <= blen u) ->
            nts_loop fuel b pos st0 = Ok st1 -> forall u, np_uid st1 = Some u -> 32 <= blen u).
  { induction fuel as [|f IH]; intros pos st0 st1 H0 Hrun.
    - simpl in Hrun. destruct ((28 <=? blen b - pos) && _); [discriminate|]. injection Hrun as <-. exact H0.
    - cbn [nts_loop] in Hrun. destruct ((28 <=? blen b - pos) && _); [|injection Hrun as <-; exact H0].
      destruct (u16_at b pos) as [ty| | |]; cbn [obind] in Hrun; try discriminate.
      destruct (u16_at b (pos + 2)) as [len| | |]; cbn [obind] in Hrun; try discriminate.
      destruct (len <? 4) eqn:E4; [discriminate|]. apply Z.ltb_ge in E4.
      destruct (ty =? 260).
      { destruct (len - 4 <? 32) eqn:E32; [discriminate|]. apply Z.ltb_ge in E32.
        destruct (unpack_value b (pos + 4) len) as [v| | |] eqn:Ev; cbn [obind] in Hrun; try discriminate.
        eapply IH; [|exact Hrun]. cbn [np_uid np_auth np_cookies np_placeholders nts_empty]. intros u Hs. injection Hs as <-.
        rewrite (unpack_value_len _ _ _ _ E4 Ev). lia. }
      destruct (ty =? 1028).
      { destruct (unpack_auth b (pos + 4)) as [v| | |]; cbn [obind] in Hrun; try discriminate.
        eapply IH; [|exact Hrun]. exact H0. }
      destruct (ty =? 516).
      { destruct (unpack_value b (pos + 4) len) as [v| | |]; cbn [obind] in Hrun; try discriminate.
        eapply IH; [|exact Hrun]. exact H0. }
      destruct (ty =? 772); (eapply IH; [|exact Hrun]; exact H0). }
  eapply Hgen; [|exact Hl|exact Eu]. cbn [np_uid np_auth np_cookies np_placeholders nts_empty]. discriminate.
Qed.

Lemma nts_decode_uid_bound b p u : nts_decode b = Ok p -> np_uid p = Some u -> 32 <= blen u <= 944.
Proof.
  intros Hd Hu. destruct (nts_decode_inv b p Hd) as (Hlen & Hfin & (u' & Hu' & H32) & (a & Ha)).
  rewrite Hu in Hu'. injection Hu' as <-. split; [exact H32|].
  destruct a as [[n c] a]. destruct (Hfin n c a Ha) as (_ & H28 & Hub). specialize (Hub u Hu). lia.
Qed.

(* ---------- nts: the decrypted fields, authenticate ---------- *)

Lemma nts_walk_total d : forall fuel pos acc,
  0 <= pos -> blen d - pos - 27 <= Z.of_nat fuel -> safe (nts_walk fuel d pos acc).
Proof.
  induction fuel as [|f IH]; intros pos acc H0 Hf.
  - simpl. destruct (28 <=? blen d - pos) eqn:E; [apply Z.leb_le in E; lia|exact I].
  - cbn [nts_walk]. destruct (28 <=? blen d - pos) eqn:E; [|exact I]. apply Z.leb_le in E.
    destruct (u16_at_ok d pos) as [ty [Ht _]]; [lia|lia|]. rewrite Ht. cbn [obind].
    destruct (u16_at_ok d (pos + 2)) as [len [Hl _]]; [lia|lia|]. rewrite Hl. cbn [obind].
    destruct (len <? 4) eqn:E4; [exact I|]. apply Z.ltb_ge in E4.
    destruct (ty =? 516).
    + destruct (unpack_value_ok d (pos + 4) len) as [v Hv]; [lia|]. rewrite Hv. cbn [obind]. apply IH; lia.
    + apply IH; lia.
Qed.

Lemma nts_authenticate_total aopen b key p : nts_decode b = Ok p -> safe (nts_authenticate aopen b key p).
Proof.
  intros Hd. destruct (nts_decode_inv b p Hd) as (_ & Hfin & _ & (a & Ha)).
  unfold nts_authenticate. rewrite Ha. destruct a as [[nonce ct] apos].
  destruct (Hfin nonce ct apos Ha) as (H48 & H28 & _).
  destruct (negb (key_ok key)); [exact I|].
  destruct (negb (blen nonce =? 16)) eqn:En; [exact I|].
  destruct (sub_ok b 0 apos) as [ad Had]; [lia|lia|]. rewrite Had. cbn [obind].
  unfold go_open. rewrite En. destruct (aopen key nonce ct ad); cbn [obind]; [|exact I].
  apply nts_walk_total; unfold blen; lia.
Qed.

Lemma nts_process_response_total aopen b key reqid p :
  nts_decode b = Ok p -> safe (nts_process_response aopen b key reqid p).
Proof.
  intros Hd. unfold nts_process_response.
  match goal with |- safe (if negb ?c then _ else _) => destruct c end; simpl; [|exact I].
  apply nts_authenticate_total. exact Hd.
Qed.

(* ---------- nts: EncodePacket ---------- *)

Lemma hdr_pack_ok L pos : 0 <= pos -> pos + 4 <= L -> hdr_pack L pos = Ok (pos + 4).
Proof.
  intros H0 H4. unfold hdr_pack.
  replace ((0 <=? pos) && (pos + 4 <=? L)) with true by (symmetry; apply andb_true_iff; split; apply Z.leb_le; lia).
  reflexivity.
Qed.

Lemma copy_at_ok L pos n : 0 <= pos <= L -> 0 <= n ->
  exists p, copy_at L pos n = Ok p /\ pos <= p <= L /\ p <= pos + n /\ (pos + n <= L -> p = pos + n).
Proof.
  intros H0 Hn. unfold copy_at.
  replace ((0 <=? pos) && (pos <=? L)) with true by (symmetry; apply andb_true_iff; split; apply Z.leb_le; lia).
  eexists. split; [reflexivity|]. unfold zmin. destruct (n <? L - pos) eqn:E; [apply Z.ltb_lt in E|apply Z.ltb_ge in E]; lia.
Qed.

Lemma pad4_spec n : 0 <= n -> n <= pad4 n <= n + 3 /\ pad4 n mod 4 = 0.
Proof. intros H. unfold pad4. lia. Qed.

Lemma field_pack_ok L pos vlen : 0 <= pos -> pos + 4 <= L -> 0 <= vlen ->
  exists p, field_pack L pos vlen = Ok p /\ pos + 4 <= p <= L /\ p <= pos + 4 + pad4 vlen /\
            (pos + 4 + pad4 vlen <= L -> p = pos + 4 + pad4 vlen).
Proof.
  intros H0 H4 Hv. unfold field_pack. rewrite hdr_pack_ok by lia. cbn [obind].
  destruct (copy_at_ok L (pos + 4) vlen) as (p2 & E2 & Hr2 & Hu2 & Hx2); [lia|lia|]. rewrite E2. cbn [obind].
  destruct (pad4_spec vlen Hv) as [Hp _].
  destruct (copy_at_ok L p2 (pad4 vlen - vlen)) as (p3 & E3 & Hr3 & Hu3 & Hx3); [lia|lia|].
  exists p3. split; [exact E3|]. repeat split; try lia.
Qed.

Lemma fields_pack_exact L flen : 0 <= flen -> forall k pos, 0 <= pos ->
  pos + Z.of_nat k * (4 + pad4 flen) <= L ->
  fields_pack L pos (repeat flen k) = Ok (pos + Z.of_nat k * (4 + pad4 flen)).
Proof.
  intros Hf. destruct (pad4_spec flen Hf) as [Hp _].
  induction k as [|k IH]; intros pos H0 Hfit.
  - simpl. f_equal. lia.
  - cbn [repeat fields_pack].
    destruct (field_pack_ok L pos flen) as (p & E & _ & _ & Hx); [lia|nia|lia|]. rewrite E. cbn [obind].
    rewrite Hx by nia. rewrite IH by nia. f_equal. lia.
Qed.

Lemma auth_pack_ok pos ptlen : 0 <= pos -> pos + 8 <= 1024 -> 0 <= ptlen -> is_ok (auth_pack pos true ptlen).
Proof.
  intros H0 H8 Hp. unfold auth_pack. cbn [negb].
  rewrite hdr_pack_ok by lia. cbn [obind]. rewrite hdr_pack_ok by lia. cbn [obind].
  destruct (copy_at_ok 1024 (pos + 4 + 4) 16) as (p3 & E3 & Hr3 & _); [lia|lia|]. rewrite E3. cbn [obind].
  destruct (copy_at_ok 1024 p3 0) as (p4 & E4 & Hr4 & _); [lia|lia|]. rewrite E4. cbn [obind].
  destruct (copy_at_ok 1024 p4 (ptlen + 16)) as (p5 & E5 & Hr5 & _); [lia|lia|]. rewrite E5. cbn [obind].
  destruct (copy_at_ok 1024 p5 ((- (ptlen + 16)) mod 4)) as (p6 & E6 & _); [lia|lia|].
  exists p6. exact E6.
Qed.

(* the reply to an authenticated request: the unique identifier of a decoded request has 32..944
   bytes; the cookies a listener issues have a length that is a multiple of four (124 bytes) *)
Lemma nts_server_reply_ok idlen n clen :
  32 <= idlen <= 944 -> 1 <= n -> 0 <= clen -> clen mod 4 = 0 -> is_ok (nts_server_reply idlen n clen).
Proof.
  intros Hid Hn Hc Hc4. unfold nts_server_reply.
  set (m := max_cookies idlen clen).
  set (n' := if (1 <=? m) && (m <? n) then m else n).
  assert (Hn' : 1 <= n').
  { unfold n'. destruct ((1 <=? m) && (m <? n)) eqn:E; [|exact Hn]. apply andb_true_iff in E. destruct E as [E _]. apply Z.leb_le in E. exact E. }
  assert (Hpad : pad4 clen = clen) by (unfold pad4; lia).
  rewrite (fields_pack_exact (n' * (4 + clen)) clen Hc (Z.to_nat n') 0) by (rewrite ?Hpad; nia).
  cbn [obind]. unfold nts_encode. cbn [Z.eqb negb Pos.eqb].
  unfold uid_pack. replace (idlen <? 32) with false by (symmetry; apply Z.ltb_ge; lia).
  destruct (pad4_spec idlen) as [Hp Hp4]; [lia|].
  assert (Hp944 : pad4 idlen <= 944) by (unfold pad4; lia).
  destruct (field_pack_ok 1024 48 idlen) as (p1 & E1 & Hr1 & Hu1 & _); [lia|lia|lia|]. rewrite E1. cbn [obind fields_pack].
  apply auth_pack_ok; nia.
Qed.

(* the request of a client: fine up to a cookie of 928 bytes ... *)
Lemma quot_mul_le a d : 0 <= a -> 0 < d -> Z.quot a d * d <= a.
Proof. intros Ha Hd. rewrite Z.quot_div_nonneg by lia. pose proof (Z.mul_div_le a d Hd). lia. Qed.

Lemma nts_client_request_ok navail clen :
  1 <= navail -> 0 <= clen <= 928 -> is_ok (nts_client_request navail clen).
Proof.
  intros Hn Hc. unfold nts_client_request.
  destruct (pad4_spec clen) as [Hp Hp4]; [lia|].
  assert (Hp928 : pad4 clen <= 928) by (unfold pad4; lia).
  set (mc := max_cookies 32 clen).
  assert (Hmc : mc * (4 + pad4 clen) <= 900 /\ 0 <= mc).
  { unfold mc, max_cookies. change (1024 - 48 - (4 + pad4 32) - 40) with 900.
    split; [apply quot_mul_le; lia|]. apply Z.quot_pos; lia. }
  set (np := if mc - 1 <? 8 - navail then mc - 1 else 8 - navail).
  assert (Hnp : np <= mc - 1) by (unfold np; destruct (mc - 1 <? 8 - navail) eqn:E; [lia|apply Z.ltb_ge in E; lia]).
  unfold nts_encode. cbn [Z.eqb negb Pos.eqb]. unfold uid_pack. cbn [Z.ltb Z.compare Pos.compare Pos.compare_cont].
  destruct (field_pack_ok 1024 48 32) as (p1 & E1 & _ & _ & Hx1); [lia|lia|lia|]. rewrite E1. cbn [obind].
  rewrite Hx1 by (unfold pad4; simpl; lia). change (48 + 4 + pad4 32) with 84.
  cbn [fields_pack].
  destruct (field_pack_ok 1024 84 clen) as (p2 & E2 & Hr2 & Hu2 & Hx2); [lia|lia|lia|]. rewrite E2. cbn [obind].
  destruct (Z_le_gt_dec np 0) as [Hnp0|Hnp0].
  - replace (Z.to_nat np) with 0%nat by lia. cbn [repeat fields_pack obind]. apply auth_pack_ok; lia.
  - assert (Hfit : 84 + (1 + np) * (4 + pad4 clen) <= 984) by nia.
    rewrite Hx2 by nia.
    rewrite (fields_pack_exact 1024 clen) by (try lia; rewrite Z2Nat.id by lia; nia).
    cbn [obind]. rewrite Z2Nat.id by lia. apply auth_pack_ok; nia.
Qed.

(* ---------- ntske ReadData ---------- *)

Lemma take_spec n s : 0 <= n -> safe (take n s) /\ forall h r, take n s = Ok (h, r) -> blen r = blen s - n.
Proof.
  intros Hn. unfold take. destruct (n =? 0) eqn:E0.
  - apply Z.eqb_eq in E0. split; [exact I|]. intros h r H. injection H as _ <-. lia.
  - destruct s as [|x s']; [split; [exact I|discriminate]|].
    destruct (blen (x :: s') <? n) eqn:E; [split; [exact I|discriminate]|]. apply Z.ltb_ge in E.
    split; [exact I|]. intros h r H. injection H as _ <-. rewrite blen_skipn. lia.
Qed.

Lemma ke_read_total : forall fuel s d, blen s + 1 <= Z.of_nat fuel -> safe (ke_read fuel s d).
Proof.
  induction fuel as [|f IH]; intros s d Hf; [pose proof (blen_nonneg s); lia|].
  cbn [ke_read]. destruct (take_spec 4 s) as [Hs Hl]; [lia|].
  destruct (take 4 s) as [[h s1]| | |] eqn:Et; try exact I; try contradiction. cbn [obind].
  specialize (Hl h s1 eq_refl).
  set (bl := be_val (skipn 2 h) 0). assert (Hbl : 0 <= bl) by (apply be_val_nonneg; lia).
  assert (Hrec : forall n, 0 <= n -> forall g : list Z * list Z -> ke_data,
            safe (obind (take n s1) (fun r => ke_read f (snd r) (g r)))).
  { intros n Hn g. destruct (take_spec n s1 Hn) as [Hs' Hl'].
    destruct (take n s1) as [[h' s2]| | |] eqn:Et'; try exact I; try contradiction. cbn [obind snd].
    specialize (Hl' h' s2 eq_refl). apply IH. lia. }
  destruct (_ mod 32768 =? 0); [exact I|].
  destruct (_ mod 32768 =? 1); [apply (Hrec 2 ltac:(lia) (fun _ => d))|].
  destruct (_ mod 32768 =? 4); [apply (Hrec 2 ltac:(lia) (fun r => _))|].
  destruct (_ mod 32768 =? 5); [apply (Hrec bl Hbl (fun r => _))|].
  destruct (_ mod 32768 =? 6); [apply (Hrec bl Hbl (fun r => _))|].
  destruct (_ mod 32768 =? 7); [apply (Hrec 2 ltac:(lia) (fun r => _))|].
  destruct (_ mod 32768 =? 2).
  { destruct (take_spec 2 s1) as [Hs' _]; [lia|]. destruct (take 2 s1) as [[h' s2]| | |]; try exact I; contradiction. }
  destruct (32768 <=? _); [exact I|].
  apply (Hrec bl Hbl (fun _ => d)).
Qed.

Lemma ntske_read_data_total s : safe (ntske_read_data s).
Proof. unfold ntske_read_data. apply ke_read_total. unfold blen. lia. Qed.

(* ---------- udp: TimestampFromOOBData ---------- *)

Lemma rd_i64_ok oob off : 0 <= off < blen oob -> is_ok (rd_i64 oob off).
Proof. intros H. unfold rd_i64. destruct (idx_ok oob off H) as [v ->]. eexists. reflexivity. Qed.

Lemma oob_loop_total : forall fuel oob, blen oob <= Z.of_nat fuel -> safe (oob_loop fuel oob).
Proof.
  induction fuel as [|f IH]; intros oob Hf.
  - simpl. destruct (16 <=? blen oob) eqn:E; [apply Z.leb_le in E; lia|exact I].
  - cbn [oob_loop]. destruct (16 <=? blen oob) eqn:E; [|exact I]. apply Z.leb_le in E.
    destruct (idx_ok oob 0) as [v0 Hv0]; [lia|]. rewrite Hv0. cbn [obind].
    set (hlen := le_val (firstn 8 oob)).
    destruct ((hlen <? 16) || (blen oob <? hlen)) eqn:Eh; [exact I|].
    apply orb_false_iff in Eh. destruct Eh as [Eh1 Eh2]. apply Z.ltb_ge in Eh1. apply Z.ltb_ge in Eh2.
    assert (Hskip : safe (let n := 16 + cmsg_align hlen - 16 in
                          if blen oob <? n then Err e_oob_data else obind (from oob n) (oob_loop f))).
    { cbv zeta. destruct (blen oob <? 16 + cmsg_align hlen - 16) eqn:En; [exact I|]. apply Z.ltb_ge in En.
      assert (Ha : hlen <= cmsg_align hlen) by (unfold cmsg_align; lia).
      rewrite from_ok by lia. cbn [obind]. apply IH. rewrite blen_skipn. lia. }
    destruct (_ =? 1); [|exact Hskip].
    destruct (_ =? 65).
    { destruct (negb (hlen =? 64)) eqn:E64; [exact I|]. apply negb_false_iff, Z.eqb_eq in E64.
      destruct (rd_i64_ok oob 16) as [a0 ->]; [lia|]. cbn [obind].
      destruct (rd_i64_ok oob 24) as [a1 ->]; [lia|]. cbn [obind].
      destruct (rd_i64_ok oob 32) as [a2 ->]; [lia|]. cbn [obind].
      destruct (rd_i64_ok oob 40) as [a3 ->]; [lia|]. cbn [obind].
      destruct (rd_i64_ok oob 48) as [a4 ->]; [lia|]. cbn [obind].
      destruct (rd_i64_ok oob 56) as [a5 ->]; [lia|]. cbn [obind].
      destruct (negb (a4 =? 0) || negb (a5 =? 0)).
      - destruct (_ || _); exact I.
      - destruct (_ || _); exact I. }
    destruct (_ =? 35); [|exact Hskip].
    destruct (negb (hlen =? 32)) eqn:E32; [exact I|]. apply negb_false_iff, Z.eqb_eq in E32.
    destruct (rd_i64_ok oob 16) as [a0 ->]; [lia|]. cbn [obind].
    destruct (rd_i64_ok oob 24) as [a1 ->]; [lia|]. exact I.
Qed.

Lemma timestamp_from_oob_total oob : safe (timestamp_from_oob oob).
Proof. apply oob_loop_total. unfold blen. lia. Qed.

(* ---------- scion: the authenticator option ---------- *)

Lemma auth_opt_site_total d : safe (auth_opt_site d).
Proof.
  unfold auth_opt_site. destruct (blen d =? 28) eqn:E; [|exact I]. apply Z.eqb_eq in E.
  unfold auth_opt_metadata, auth_opt_mac. rewrite E. cbn [Z.eqb Pos.eqb negb].
  destruct (rd_be_ok d 4 0 0) as [spi ->]; [lia|simpl; lia|]. cbn [obind].
  destruct (idx_ok d 4) as [al ->]; [lia|]. cbn [obind].
  rewrite from_ok by lia. exact I.
Qed.

(* the functions themselves do panic on any other length: the guard at the call sites is needed *)
Lemma auth_opt_metadata_panics d : blen d <> 28 -> auth_opt_metadata d = Panic.
Proof. intros H. unfold auth_opt_metadata. apply Z.eqb_neq in H. rewrite H. reflexivity. Qed.

(* ---------- receive loops ---------- *)

(* a listener issues cookies of one length, a multiple of four (124 bytes with the 32-byte keys
   of AES-SIV-CMAC-256) *)
Definition wf_env (env : ip_env) : Prop := 0 <= env_cookie_len env /\ env_cookie_len env mod 4 = 0.

Lemma nts_loop_placeholders b : forall fuel pos st0 st1,
  0 <= np_placeholders st0 -> nts_loop fuel b pos st0 = Ok st1 -> 0 <= np_placeholders st1.
Proof.
  induction fuel as [|f IH]; intros pos st0 st1 H0 Hrun.
  - simpl in Hrun. destruct ((28 <=? blen b - pos) && _); [discriminate|]. injection Hrun as <-. exact H0.
  - cbn [nts_loop] in Hrun. destruct ((28 <=? blen b - pos) && _); [|injection Hrun as <-; exact H0].
    destruct (u16_at b pos) as [ty| | |]; cbn [obind] in Hrun; try discriminate.
    destruct (u16_at b (pos + 2)) as [len| | |]; cbn [obind] in Hrun; try discriminate.
    destruct (len <? 4); [discriminate|].
    destruct (ty =? 260).
    { destruct (len - 4 <? 32); [discriminate|].
      destruct (unpack_value b (pos + 4) len) as [v| | |]; cbn [obind] in Hrun; try discriminate.
      eapply IH; [|exact Hrun]. exact H0. }
    destruct (ty =? 1028).
    { destruct (unpack_auth b (pos + 4)) as [v| | |]; cbn [obind] in Hrun; try discriminate.
      eapply IH; [|exact Hrun]. exact H0. }
    destruct (ty =? 516).
    { destruct (unpack_value b (pos + 4) len) as [v| | |]; cbn [obind] in Hrun; try discriminate.
      eapply IH; [|exact Hrun]. exact H0. }
    destruct (ty =? 772).
    { eapply IH; [|exact Hrun]. cbn [np_placeholders]. lia. }
    eapply IH; [|exact Hrun]. exact H0.
Qed.

Lemma nts_decode_placeholders b p : nts_decode b = Ok p -> 0 <= np_placeholders p.
Proof.
  unfold nts_decode. destruct (1024 <? blen b); [discriminate|].
  destruct (nts_loop (length b) b 48 nts_empty) as [st| | |] eqn:Hl; cbn [obind]; try discriminate.
  destruct (np_uid st); [|discriminate]. destruct (np_auth st); [|discriminate].
  intros H. injection H as <-. eapply nts_loop_placeholders; [|exact Hl]. cbn. lia.
Qed.

Lemma nts_walk_len d : forall fuel pos acc r, nts_walk fuel d pos acc = Ok r -> (length acc <= length r)%nat.
Proof.
  induction fuel as [|f IH]; intros pos acc r Hrun.
  - simpl in Hrun. destruct (28 <=? blen d - pos); [discriminate|]. injection Hrun as <-. lia.
  - cbn [nts_walk] in Hrun. destruct (28 <=? blen d - pos); [|injection Hrun as <-; lia].
    destruct (u16_at d pos) as [ty| | |]; cbn [obind] in Hrun; try discriminate.
    destruct (u16_at d (pos + 2)) as [len| | |]; cbn [obind] in Hrun; try discriminate.
    destruct (len <? 4); [discriminate|].
    destruct (ty =? 516).
    + destruct (unpack_value d (pos + 4) len) as [v| | |]; cbn [obind] in Hrun; try discriminate.
      apply IH in Hrun. rewrite app_length in Hrun. simpl in Hrun. lia.
    + apply IH in Hrun. exact Hrun.
Qed.

Lemma nts_authenticate_len aopen b key p r :
  nts_authenticate aopen b key p = Ok r -> (length (np_cookies p) <= length r)%nat.
Proof.
  unfold nts_authenticate. destruct (np_auth p) as [[[nonce ct] apos]|]; [|discriminate].
  destruct (negb (key_ok key)); [discriminate|]. destruct (negb (blen nonce =? 16)); [discriminate|].
  destruct (sub b 0 apos); cbn [obind]; try discriminate.
  destruct (go_open aopen key nonce ct a); cbn [obind]; try discriminate.
  apply nts_walk_len.
Qed.

(* the NTS part always comes to a decision, and when it accepts, the sizes handed to the reply
   encoder are within the range for which EncodePacket is total *)
Lemma nts_part_ok env buf :
  exists r, nts_part env buf = Ok r /\
    match r with inl _ => True | inr (idlen, n) => 32 <= idlen <= 944 /\ 1 <= n end.
Proof.
  unfold nts_part.
  pose proof (nts_decode_total buf) as Hd.
  destruct (nts_decode buf) as [p|e| |] eqn:Ed; try contradiction; [|eexists; split; [reflexivity|exact I]].
  destruct (np_cookies p) as [|c cs] eqn:Ec; [eexists; split; [reflexivity|exact I]|].
  pose proof (encrypted_cookie_decode_total c) as Hc.
  destruct (encrypted_cookie_decode c) as [[[id nonce] ct]|e| |]; try contradiction; [|eexists; split; [reflexivity|exact I]].
  destruct (env_key env id) as [k|]; [|eexists; split; [reflexivity|exact I]].
  pose proof (cookie_decrypt_total (env_open env) k nonce ct) as Hk.
  destruct (cookie_decrypt (env_open env) k nonce ct) as [[[al s2c] c2s]|e| |]; try contradiction; [|eexists; split; [reflexivity|exact I]].
  pose proof (nts_authenticate_total (env_open env) buf c2s p Ed) as Ha.
  destruct (nts_authenticate (env_open env) buf c2s p) as [cookies|e| |] eqn:Eauth; try contradiction; [|eexists; split; [reflexivity|exact I]].
  eexists. split; [reflexivity|].
  destruct (nts_decode_inv buf p Ed) as (_ & _ & (u & Hu & _) & _). rewrite Hu.
  split; [eapply nts_decode_uid_bound; eassumption|].
  pose proof (nts_authenticate_len _ _ _ _ _ Eauth) as Hlen. rewrite Ec in Hlen. simpl in Hlen.
  pose proof (nts_decode_placeholders buf p Ed). lia.
Qed.

Lemma ntp_decode_lvm b : 48 <= blen b -> exists x y, ntp_decode b = Ok (nth 0 b 0 mod 256, x, y).
Proof.
  intros H. unfold ntp_decode. replace (blen b <? 48) with false by (symmetry; apply Z.ltb_ge; lia).
  step_idx b 47.
  unfold idx at 1. replace ((0 <=? 0) && (0 <? blen b)) with true by (symmetry; apply andb_true_iff; split; [reflexivity|apply Z.ltb_lt; lia]).
  cbn [obind]. step_rd b 4 36%nat 0. step_rd b 40 4%nat 0. step_rd b 44 4%nat 0.
  change (Z.to_nat 0) with 0%nat. eauto.
Qed.

Lemma serve_payload_ok env buf : wf_env env -> is_ok (serve_payload env buf).
Proof.
  intros [Hc Hc4]. unfold serve_payload.
  destruct (ntp_decode_spec buf) as [[_ ->]|[_ [[[lvm s] f] ->]]]; [eexists; reflexivity|].
  destruct (48 <? blen buf).
  - destruct (nts_part_ok env buf) as (r & -> & Hr). cbn [obind].
    destruct r as [why|[idlen n]]; [eexists; reflexivity|].
    destruct (negb (ntp_validate_request lvm)); [eexists; reflexivity|].
    destruct Hr as [Hid Hn].
    destruct (nts_server_reply_ok idlen n (env_cookie_len env) Hid Hn Hc Hc4) as [l ->]. eexists. reflexivity.
  - destruct (negb (ntp_validate_request lvm)); eexists; reflexivity.
Qed.

(* one iteration of runIPServer ends with a decision and leaves the goroutine's state as it was *)
Lemma ip_server_step_ok env st d : wf_env env -> exists a, ip_server_step env st d = Ok (st, a).
Proof.
  intros Hw. unfold ip_server_step. destruct (ls_cap st <? blen d); [eexists; reflexivity|].
  destruct (sub_ok d 0 (blen d)) as [buf ->]; [pose proof (blen_nonneg d); lia|lia|]. cbn [obind].
  destruct (serve_payload_ok env buf Hw) as [a ->]. eexists. reflexivity.
Qed.

Lemma ip_server_run_served env : wf_env env -> forall h st acc,
  exists acts, ip_server_run env st h acc = Served (rev acc ++ acts) /\ length acts = length h.
Proof.
  intros Hw. induction h as [|d r IH]; intros st acc.
  - exists []. split; [simpl; rewrite app_nil_r; reflexivity|reflexivity].
  - cbn [ip_server_run]. destruct (ip_server_step_ok env st d Hw) as [a ->].
    destruct (IH st (a :: acc)) as (acts & -> & Hl). exists (a :: acts). split.
    + simpl. rewrite <- app_assoc. reflexivity.
    + simpl. rewrite Hl. reflexivity.
Qed.

(* a well-formed request: a 48-byte NTP packet that ValidateRequest accepts *)
Definition well_formed_request (s : list Z) : Prop :=
  blen s = 48 /\ ntp_validate_request (nth 0 s 0 mod 256) = true.

Lemma well_formed_answered env st s : well_formed_request s -> blen s <= ls_cap st ->
  ip_server_step env st s = Ok (st, Reply 48).
Proof.
  intros [H48 Hv] Hcap. unfold ip_server_step.
  replace (ls_cap st <? blen s) with false by (symmetry; apply Z.ltb_ge; lia).
  unfold sub. replace ((0 <=? 0) && (0 <=? blen s) && (blen s <=? blen s)) with true
    by (symmetry; rewrite !andb_true_iff; repeat split; apply Z.leb_le; lia).
  cbn [obind]. change (Z.to_nat 0) with 0%nat. cbn [skipn]. rewrite Z.sub_0_r.
  replace (firstn (Z.to_nat (blen s)) s) with s by (unfold blen; rewrite Nat2Z.id, firstn_all; reflexivity).
  unfold serve_payload. destruct (ntp_decode_lvm s) as (x & y & ->); [lia|].
  rewrite H48. cbn [Z.ltb Z.compare Pos.compare Pos.compare_cont]. rewrite Hv. reflexivity.
Qed.

Lemma ip_server_run_app env : wf_env env -> forall h1 h2 st acc,
  exists acts1, length acts1 = length h1 /\
    ip_server_run env st (h1 ++ h2) acc = ip_server_run env st h2 (rev acts1 ++ acc).
Proof.
  intros Hw. induction h1 as [|d r IH]; intros h2 st acc.
  - exists []. split; reflexivity.
  - cbn [app ip_server_run]. destruct (ip_server_step_ok env st d Hw) as [a ->].
    destruct (IH h2 st (a :: acc)) as (acts & Hl & ->). exists (a :: acts). split; [simpl; lia|].
    simpl. rewrite <- app_assoc. reflexivity.
Qed.

(* whatever was received before, the next well-formed request is answered *)
Lemma sentinel_answered env : wf_env env -> forall h s st,
  well_formed_request s -> blen s <= ls_cap st ->
  exists acts, length acts = length h /\ ip_server_run env st (h ++ [s]) [] = Served (acts ++ [Reply 48]).
Proof.
  intros Hw h s st Hs Hcap.
  destruct (ip_server_run_app env Hw h [s] st []) as (acts & Hl & ->).
  cbn [ip_server_run]. rewrite (well_formed_answered env st s Hs Hcap).
  exists acts. split; [exact Hl|]. cbn [rev]. rewrite app_nil_r, rev_involutive. reflexivity.
Qed.

(* ---------- csptp listener and client ---------- *)

Lemma blen_sub b a c v : sub b a c = Ok v -> 0 <= a -> blen v = c - a.
Proof.
  unfold sub. destruct ((0 <=? a) && (a <=? c) && (c <=? blen b)) eqn:E; [|discriminate].
  rewrite !andb_true_iff in E. destruct E as [[E1 E2] E3]. apply Z.leb_le in E1, E2, E3.
  intros H H0. injection H as <-. rewrite blen_firstn, blen_skipn. lia.
Qed.

Lemma csptp_request_tlv_len b r : csptp_decode_request_tlv b = Ok r -> 14 <= blen b.
Proof. unfold csptp_decode_request_tlv. destruct (blen b <? 14) eqn:E; [discriminate|]. apply Z.ltb_ge in E. auto. Qed.

Lemma csptp_response_tlv_len b r : csptp_decode_response_tlv b = Ok r -> 14 <= blen b.
Proof. unfold csptp_decode_response_tlv. destruct (blen b <? 14) eqn:E; [discriminate|]. apply Z.ltb_ge in E. auto. Qed.

Lemma csptp_server_step_ok port d : is_ok (csptp_server_step port d).
Proof.
  unfold csptp_server_step. destruct (98 <? blen d); [eexists; reflexivity|].
  destruct (blen d <? 44) eqn:E; [eexists; reflexivity|]. apply Z.ltb_ge in E.
  destruct (sub_ok d 0 44) as [hd Hhd]; [lia|lia|]. rewrite Hhd. cbn [obind].
  pose proof (blen_sub _ _ _ _ Hhd ltac:(lia)) as Hl.
  destruct (csptp_decode_message_spec hd) as [[_ ->]|[_ [[[ty mlen] seq] ->]]]; [eexists; reflexivity|].
  destruct (negb (blen d =? mlen)); [eexists; reflexivity|].
  destruct ((ty =? 0) && (port =? 319)).
  { destruct (negb (blen d - 44 =? 0)); eexists; reflexivity. }
  destruct ((ty =? 8) && (port =? 320)); [|eexists; reflexivity].
  rewrite from_ok by lia. cbn [obind].
  pose proof (csptp_decode_request_tlv_total (skipn (Z.to_nat 44) d)) as Ht.
  destruct (csptp_decode_request_tlv (skipn (Z.to_nat 44) d)) as [[tty flags]|e| |] eqn:Et; try contradiction; [|eexists; reflexivity].
  apply csptp_request_tlv_len in Et.
  destruct (rd_be_ok (skipn (Z.to_nat 44) d) 6 4 0) as [org ->]; [lia|change (Z.of_nat 6) with 6; lia|]. cbn [obind].
  destruct (negb _); [eexists; reflexivity|]. destruct (negb _); eexists; reflexivity.
Qed.

Lemma csptp_client_step_ok seq fe fg d : is_ok (csptp_client_step seq fe fg d).
Proof.
  unfold csptp_client_step. destruct (98 <? blen d); [eexists; reflexivity|].
  destruct (blen d <? 44) eqn:E; [eexists; reflexivity|]. apply Z.ltb_ge in E.
  destruct (sub_ok d 0 44) as [hd Hhd]; [lia|lia|]. rewrite Hhd. cbn [obind].
  destruct (csptp_decode_message_spec hd) as [[_ ->]|[_ [[[ty mlen] sq] ->]]]; [eexists; reflexivity|].
  destruct (negb (blen d =? mlen)); [eexists; reflexivity|].
  destruct (negb (sq =? seq)); [eexists; reflexivity|].
  destruct (ty =? 0).
  { destruct (negb fe); [eexists; reflexivity|]. destruct (negb (blen d - 44 =? 0)); eexists; reflexivity. }
  destruct (ty =? 8); [|eexists; reflexivity].
  destruct (negb fg); [eexists; reflexivity|].
  rewrite from_ok by lia. cbn [obind].
  pose proof (csptp_decode_response_tlv_total (skipn (Z.to_nat 44) d)) as Ht.
  destruct (csptp_decode_response_tlv (skipn (Z.to_nat 44) d)) as [[tty flags]|e| |] eqn:Et; try contradiction; [|eexists; reflexivity].
  apply csptp_response_tlv_len in Et.
  destruct (rd_be_ok (skipn (Z.to_nat 44) d) 6 4 0) as [org ->]; [lia|change (Z.of_nat 6) with 6; lia|]. cbn [obind].
  destruct (negb _); [eexists; reflexivity|]. destruct (negb _); eexists; reflexivity.
Qed.

(* the guard added to the client is what keeps buf[44:] in bounds: without it a 10-byte datagram
   whose first byte says Follow Up panics *)
Lemma from_short_panics : from (repeat 0 10%nat) 44 = Panic.
Proof. reflexivity. Qed.

(* ---------- SCION listener over the parser's result ---------- *)

Lemma scion_server_step_ok env p : wf_env (se_ip env) -> 0 <= sp_udplen p -> is_ok (scion_server_step env p).
Proof.
  intros Hw Hu. unfold scion_server_step.
  destruct (negb (sp_ok p)); [eexists; reflexivity|].
  destruct (negb _); [eexists; reflexivity|].
  destruct (sp_last p =? 2).
  { destruct (negb _); [eexists; reflexivity|]. destruct (negb (sp_rev_ok p)); eexists; reflexivity. }
  destruct (sp_buflen p <? sp_udplen p) eqn:El; [eexists; reflexivity|]. apply Z.ltb_ge in El.
  destruct (negb (addr_from_slice_ok (sp_srclen p))); [eexists; reflexivity|].
  destruct (negb (addr_from_slice_ok (sp_dstlen p))); [eexists; reflexivity|].
  destruct (negb (sp_dstport p =? se_host_port env)).
  { destruct (_ || _); eexists; reflexivity. }
  destruct (se_host_port env =? 30041); [eexists; reflexivity|].
  assert (Hauth : is_ok (if se_fetcher env && (3 <=? sp_nlayers p) && sp_e2e p
            then match sp_auth p with
                 | None => Ok true
                 | Some d => obind (auth_opt_site d) (fun o =>
                     match o with
                     | None => Ok true
                     | Some (spi, algo, mac) =>
                         if (spi =? 196731) && (algo =? 0) then
                           if negb (se_key_ok env) then Ok true
                           else obind (from (repeat 0 (Z.to_nat (sp_buflen p))) (sp_buflen p - sp_udplen p)) (fun _ =>
                                Ok (se_mac_ok env mac))
                         else Ok true
                     end)
                 end
            else Ok true)).
  { destruct (_ && _ && _); [|eexists; reflexivity].
    destruct (sp_auth p) as [d|]; [|eexists; reflexivity].
    pose proof (auth_opt_site_total d) as Hs.
    assert (Hne : forall e, auth_opt_site d <> Err e).
    { intros e. unfold auth_opt_site. destruct (blen d =? 28) eqn:E28; [|discriminate]. apply Z.eqb_eq in E28.
      unfold auth_opt_metadata, auth_opt_mac. rewrite E28. cbn [Z.eqb Pos.eqb negb].
      destruct (rd_be_ok d 4 0 0) as [spi ->]; [lia|simpl; lia|]. cbn [obind].
      destruct (idx_ok d 4) as [al ->]; [lia|]. cbn [obind]. rewrite from_ok by lia. discriminate. }
    destruct (auth_opt_site d) as [o|e| |]; try contradiction; [|exfalso; eapply Hne; reflexivity].
    cbn [obind]. destruct o as [[[spi algo] mac]|]; [|eexists; reflexivity].
    destruct (_ && _); [|eexists; reflexivity].
    destruct (negb (se_key_ok env)); [eexists; reflexivity|].
    rewrite from_ok by (rewrite blen_repeat; lia). eexists. reflexivity. }
  destruct Hauth as [g ->]. cbn [obind].
  destruct (negb g); [eexists; reflexivity|].
  destruct (serve_payload_ok (se_ip env) (sp_payload p) Hw) as [a ->].
  destruct a; [eexists; reflexivity| |eexists; reflexivity].
  destruct (negb (sp_rev_ok p)); eexists; reflexivity.
Qed.

(* ---------- the oracle holds for the model ---------- *)

Lemma class_ok_of_safe {A} (o : outcome A) : safe o -> C08_class_ok (class_of o) = true.
Proof. apply safe_class. Qed.

(* the request of a client whose first cookie has 929 bytes or more: EncodePacket panics *)
Lemma nts_client_request_929 : nts_client_request 8 929 = Panic.
Proof. vm_compute. reflexivity. Qed.

Lemma nts_client_request_refuted : exists navail clen,
  1 <= navail /\ 0 <= clen < 65536 /\ nts_client_request navail clen = Panic.
Proof. exists 8, 929. split; [lia|]. split; [lia|]. exact nts_client_request_929. Qed.

Lemma nts_walk_total_all d acc : safe (nts_walk (length d) d 0 acc).
Proof. apply nts_walk_total; unfold blen; lia. Qed.

Lemma ip_server_run_served_all env : wf_env env -> forall h st,
  exists acts, ip_server_run env st h [] = Served acts /\ length acts = length h.
Proof. intros Hw h st. destruct (ip_server_run_served env Hw h st []) as (a & H & L). exists a. split; [exact H|exact L]. Qed.

Lemma model_meets_oracle_decoders b aopen key nonce ct :
  C08_class_ok (class_of (ntp_decode b)) = true /\
  C08_class_ok (class_of (csptp_decode_message b)) = true /\
  C08_class_ok (class_of (csptp_decode_request_tlv b)) = true /\
  C08_class_ok (class_of (csptp_decode_response_tlv b)) = true /\
  C08_class_ok (class_of (server_cookie_decode b)) = true /\
  C08_class_ok (class_of (encrypted_cookie_decode b)) = true /\
  C08_class_ok (class_of (cookie_decrypt aopen key nonce ct)) = true /\
  C08_class_ok (class_of (nts_decode b)) = true /\
  C08_class_ok (class_of (ntske_read_data b)) = true /\
  C08_class_ok (class_of (timestamp_from_oob b)) = true /\
  C08_class_ok (class_of (auth_opt_site b)) = true.
Proof.
  repeat split; apply class_ok_of_safe.
  - apply ntp_decode_total. - apply csptp_decode_message_total. - apply csptp_decode_request_tlv_total.
  - apply csptp_decode_response_tlv_total. - apply server_cookie_decode_total. - apply encrypted_cookie_decode_total.
  - apply cookie_decrypt_total. - apply nts_decode_total. - apply ntske_read_data_total.
  - apply timestamp_from_oob_total. - apply auth_opt_site_total.
Qed.

Lemma nts_client_request_ok_896 navail clen :
  1 <= navail -> 0 <= clen <= 896 -> is_ok (nts_client_request navail clen).
Proof. intros H1 H2. apply nts_client_request_ok; lia. Qed.
