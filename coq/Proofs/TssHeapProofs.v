(* The array heap of Model/TssHeap.v (Go's container/heap on tssQueue) is a
   heap after every operation, keeps the back-pointers right and the contents
   those of the abstract queue of Model/Tss.v; Pop returns a minimum; hence
   handle_h / update_tx_h refine Tss.handle / Tss.update_tx (C07). *)
From ST Require Import Base.Ints Model.NtpTime Model.Tss Model.TssHeap
  Proofs.NtpTimeProofs Proofs.TssProofs Proofs.TssInv Proofs.TssRun.
From Coq Require Import ZArith List Bool Lia Arith Permutation.
Import ListNotations.
Open Scope Z_scope.

(* ================= lists ================= *)
Lemma nth_set_nth_eq {A} (d : A) l : forall i x, (i < length l)%nat -> nth i (set_nth i x l) d = x.
Proof.
  induction l as [|y r IH]; intros [|i] x Hi; cbn [length] in Hi; try lia; cbn [set_nth nth]; [reflexivity|].
  apply IH. lia.
Qed.

Lemma nth_set_nth_neq {A} (d : A) l : forall i k x, k <> i -> nth k (set_nth i x l) d = nth k l d.
Proof.
  induction l as [|y r IH]; intros [|i] [|k] x Hne; cbn [set_nth nth]; try reflexivity; try lia.
  apply IH. lia.
Qed.

Lemma set_nth_nth_same {A} (d : A) l : forall i, set_nth i (nth i l d) l = l.
Proof.
  induction l as [|y r IH]; intros [|i]; cbn [set_nth nth]; try reflexivity. f_equal. apply IH.
Qed.

Lemma perm_nth_set {A} (d : A) r : forall j x, (j < length r)%nat ->
  Permutation (nth j r d :: set_nth j x r) (x :: r).
Proof.
  induction r as [|z r IH]; intros [|j] x Hj; cbn [length] in Hj; try lia; cbn [nth set_nth].
  - apply perm_swap.
  - eapply perm_trans; [apply perm_swap|]. eapply perm_trans; [apply perm_skip; apply IH; lia|]. apply perm_swap.
Qed.

Lemma nth_removelast {A} (d : A) l i : (i < length l - 1)%nat -> nth i (removelast l) d = nth i l d.
Proof.
  intros Hi. destruct l as [|a l0]; [cbn in Hi; lia|].
  assert (Hne : a :: l0 <> []) by discriminate.
  pose proof (app_removelast_last d Hne) as Hs. rewrite Hs at 2.
  rewrite app_nth1; [reflexivity|]. rewrite removelast_length. exact Hi.
Qed.

Lemma last_nth {A} (d : A) l : last l d = nth (length l - 1) l d.
Proof.
  destruct l as [|a l0]; [reflexivity|].
  assert (Hne : a :: l0 <> []) by discriminate.
  pose proof (app_removelast_last d Hne) as Hs. set (l := a :: l0) in *.
  transitivity (nth (length l - 1) (removelast l ++ [last l d]) d); [|rewrite <- Hs; reflexivity].
  rewrite app_nth2; rewrite removelast_length; [|lia].
  replace (length l - 1 - (length l - 1))%nat with O by lia. reflexivity.
Qed.

(* ================= the slot exchange ================= *)
Definition sw (a : list hel) (i j : nat) : list hel := set_nth j (nth i a hd0) (set_nth i (nth j a hd0) a).

Lemma hswap_arr h i j : h_arr (hswap h i j) = sw (h_arr h) i j.
Proof. reflexivity. Qed.

Lemma sw_length a i j : length (sw a i j) = length a.
Proof. unfold sw. rewrite !set_nth_length. reflexivity. Qed.

Lemma sw_nth a i j k : (i < length a)%nat -> (j < length a)%nat ->
  nth k (sw a i j) hd0 = if Nat.eqb k j then nth i a hd0 else if Nat.eqb k i then nth j a hd0 else nth k a hd0.
Proof.
  intros Hi Hj. unfold sw. destruct (Nat.eqb k j) eqn:Ej.
  - apply Nat.eqb_eq in Ej. subst k. apply nth_set_nth_eq. rewrite set_nth_length. exact Hj.
  - apply Nat.eqb_neq in Ej. rewrite nth_set_nth_neq by exact Ej. destruct (Nat.eqb k i) eqn:Ei.
    + apply Nat.eqb_eq in Ei. subst k. apply nth_set_nth_eq. exact Hi.
    + apply Nat.eqb_neq in Ei. apply nth_set_nth_neq. exact Ei.
Qed.

Lemma sw_same a i : sw a i i = a.
Proof. unfold sw. rewrite set_nth_nth_same. apply set_nth_nth_same. Qed.

Lemma sw_comm a i j : (i < length a)%nat -> (j < length a)%nat -> sw a i j = sw a j i.
Proof.
  intros Hi Hj. apply (nth_ext _ _ hd0 hd0); [rewrite !sw_length; reflexivity|].
  intros k _. rewrite !sw_nth by assumption.
  destruct (Nat.eqb k j) eqn:Ej; destruct (Nat.eqb k i) eqn:Ei; try reflexivity.
  apply Nat.eqb_eq in Ej, Ei. subst. reflexivity.
Qed.

Lemma sw_perm_lt a : forall i j, (i < j)%nat -> (j < length a)%nat -> Permutation (sw a i j) a.
Proof.
  induction a as [|x r IH]; intros [|i] [|j] Hij Hj; cbn [length] in Hj; try lia.
  - unfold sw. cbn [nth set_nth]. apply perm_nth_set. lia.
  - unfold sw. cbn [nth set_nth]. apply perm_skip. apply IH; lia.
Qed.

Lemma sw_perm a i j : (i < length a)%nat -> (j < length a)%nat -> Permutation (sw a i j) a.
Proof.
  intros Hi Hj. destruct (Nat.lt_total i j) as [H|[H|H]].
  - apply sw_perm_lt; assumption.
  - subst j. rewrite sw_same. apply Permutation_refl.
  - rewrite sw_comm by assumption. apply sw_perm_lt; assumption.
Qed.

(* ================= the qidx table ================= *)
Lemma bp_get_set k k' i bp : bp_get k (bp_set k' i bp) = if k' =? k then i else bp_get k bp.
Proof.
  induction bp as [|[k0 j] r IH]; cbn [bp_set bp_get].
  - destruct (k' =? k); reflexivity.
  - destruct (k0 =? k') eqn:E0; cbn [bp_get].
    + apply Z.eqb_eq in E0. subst k0. destruct (k' =? k); reflexivity.
    + destruct (k0 =? k) eqn:E1; [|exact IH].
      apply Z.eqb_eq in E1. subst k0. rewrite Z.eqb_sym, E0. reflexivity.
Qed.

Lemma bp_get_del k k' bp : k <> k' -> bp_get k (bp_del k' bp) = bp_get k bp.
Proof.
  intros Hne. induction bp as [|[k0 j] r IH]; cbn [bp_del bp_get]; [reflexivity|].
  destruct (k0 =? k') eqn:E0; cbn [bp_get].
  - apply Z.eqb_eq in E0. subst k0. destruct (k' =? k) eqn:E1; [apply Z.eqb_eq in E1; congruence|reflexivity].
  - destruct (k0 =? k); [reflexivity|exact IH].
Qed.

(* ================= heap order ================= *)
Definition hv (a : list hel) (i : nat) : Z := snd (nth i a hd0).
Definition hk (a : list hel) (i : nat) : Z := fst (nth i a hd0).
Definition child (i c : nat) : Prop := c = (2 * i + 1)%nat \/ c = (2 * i + 2)%nat.

(* the first n slots are in heap order *)
Definition heap_n (a : list hel) (n : nat) : Prop :=
  forall i c, (c < n)%nat -> child i c -> hv a i <= hv a c.
Definition heap_valid (a : list hel) : Prop := heap_n a (length a).

(* heap order except for the edges at slot p, whose parent is not above its children *)
Definition almost (a : list hel) (n p : nat) : Prop :=
  (forall i c, (c < n)%nat -> child i c -> i <> p -> c <> p -> hv a i <= hv a c) /\
  (forall g c, (c < n)%nat -> child g p -> child p c -> hv a g <= hv a c).

Definition bp_ok (h : heap) : Prop :=
  forall i, (i < length (h_arr h))%nat -> bp_get (hk (h_arr h) i) (h_bp h) = i.
Definition keys_nodup (a : list hel) : Prop := NoDup (map fst a).

Lemma parent_cases j : (0 < j)%nat -> child ((j - 1) / 2) j.
Proof.
  intros Hj. unfold child.
  pose proof (Nat.div_mod (j - 1) 2 ltac:(lia)) as H.
  pose proof (Nat.mod_upper_bound (j - 1) 2 ltac:(lia)) as H2.
  lia.
Qed.

Lemma child_parent i c : child i c -> ((c - 1) / 2)%nat = i.
Proof.
  intros [->| ->].
  - replace (2 * i + 1 - 1)%nat with (i * 2)%nat by lia. apply Nat.div_mul. lia.
  - replace (2 * i + 2 - 1)%nat with (1 + i * 2)%nat by lia. rewrite Nat.div_add by lia. reflexivity.
Qed.

(* the usual wording: no element is smaller than its parent *)
Lemma heap_n_parent a n : heap_n a n <-> forall j, (0 < j < n)%nat -> hv a ((j - 1) / 2) <= hv a j.
Proof.
  split.
  - intros H j Hj. apply H; [lia|]. apply parent_cases. lia.
  - intros H i c Hc Hch. rewrite <- (child_parent i c Hch). apply H. destruct Hch; lia.
Qed.

Lemma heap_n_almost a n p : heap_n a n -> almost a n p.
Proof.
  intros H. split.
  - intros i c Hc Hch _ _. apply H; assumption.
  - intros g c Hc Hg Hch. apply Z.le_trans with (hv a p); [apply H; [destruct Hch; lia|exact Hg]|apply H; assumption].
Qed.

Lemma heap_n_le a n m : (m <= n)%nat -> heap_n a n -> heap_n a m.
Proof. intros Hm H i c Hc Hch. apply H; [lia|exact Hch]. Qed.

(* the root is a minimum *)
Lemma heap_root_min a n : heap_n a n -> forall j, (j < n)%nat -> hv a 0 <= hv a j.
Proof.
  intros H j. induction j as [j IH] using lt_wf_ind. intros Hj.
  destruct j as [|j]; [lia|].
  pose proof (parent_cases (S j) ltac:(lia)) as Hch.
  apply Z.le_trans with (hv a ((S j - 1) / 2)).
  - apply IH; destruct Hch; lia.
  - apply H; assumption.
Qed.

(* ================= Swap keeps the table right ================= *)
Definition wf (h : heap) : Prop := bp_ok h /\ keys_nodup (h_arr h).

Lemma hv_sw a i j k : (i < length a)%nat -> (j < length a)%nat ->
  hv (sw a i j) k = if Nat.eqb k j then hv a i else if Nat.eqb k i then hv a j else hv a k.
Proof.
  intros Hi Hj. unfold hv. rewrite sw_nth by assumption.
  destruct (Nat.eqb k j); [reflexivity|]. destruct (Nat.eqb k i); reflexivity.
Qed.

Lemma hk_sw a i j k : (i < length a)%nat -> (j < length a)%nat ->
  hk (sw a i j) k = if Nat.eqb k j then hk a i else if Nat.eqb k i then hk a j else hk a k.
Proof.
  intros Hi Hj. unfold hk. rewrite sw_nth by assumption.
  destruct (Nat.eqb k j); [reflexivity|]. destruct (Nat.eqb k i); reflexivity.
Qed.

Lemma key_inj a i j : keys_nodup a -> (i < length a)%nat -> (j < length a)%nat -> hk a i = hk a j -> i = j.
Proof. intros Hnd Hi Hj H. exact (NoDup_map_nth_inj fst a hd0 i j Hnd Hi Hj H). Qed.

Lemma hk_in a i : (i < length a)%nat -> In (hk a i) (map fst a).
Proof. intros Hi. unfold hk. apply in_map. apply nth_In. exact Hi. Qed.

Lemma in_keys_nth a k : In k (map fst a) -> exists i, (i < length a)%nat /\ hk a i = k.
Proof.
  intros H. apply in_map_iff in H. destruct H as [x [Hx Hin]].
  destruct (In_nth _ _ hd0 Hin) as [i [Hi Hn]]. exists i. split; [exact Hi|]. unfold hk. rewrite Hn. exact Hx.
Qed.

Lemma hswap_wf h i j : wf h -> (i < length (h_arr h))%nat -> (j < length (h_arr h))%nat ->
  wf (hswap h i j) /\ Permutation (h_arr (hswap h i j)) (h_arr h).
Proof.
  intros [Hbp Hnd] Hi Hj.
  assert (Hp : Permutation (h_arr (hswap h i j)) (h_arr h)) by (rewrite hswap_arr; apply sw_perm; assumption).
  split; [|exact Hp]. split.
  - intros k Hk. rewrite hswap_arr in *. rewrite sw_length in Hk. rewrite hk_sw by assumption.
    unfold hswap. cbn [h_bp]. fold (hk (h_arr h) i). fold (hk (h_arr h) j). rewrite !bp_get_set.
    destruct (Nat.eqb_spec k j) as [->|Hkj].
    + rewrite Z.eqb_refl. reflexivity.
    + destruct (Nat.eqb_spec k i) as [->|Hki].
      * destruct (hk (h_arr h) i =? hk (h_arr h) j) eqn:E.
        -- apply Z.eqb_eq in E. exfalso. apply Hkj. apply (key_inj (h_arr h)); assumption.
        -- rewrite Z.eqb_refl. reflexivity.
      * destruct (hk (h_arr h) i =? hk (h_arr h) k) eqn:E1.
        { apply Z.eqb_eq in E1. exfalso. apply Hki. symmetry. apply (key_inj (h_arr h)); assumption. }
        destruct (hk (h_arr h) j =? hk (h_arr h) k) eqn:E2.
        { apply Z.eqb_eq in E2. exfalso. apply Hkj. symmetry. apply (key_inj (h_arr h)); assumption. }
        apply Hbp. exact Hk.
  - unfold keys_nodup. eapply Permutation_NoDup; [apply Permutation_map; apply Permutation_sym; exact Hp|exact Hnd].
Qed.

Ltac eqbs := repeat match goal with
  | |- context [Nat.eqb ?x ?y] => destruct (Nat.eqb_spec x y)
  end.

(* ================= up ================= *)
Lemma up_f_spec : forall fuel h j n,
  (j < fuel)%nat -> wf h -> (j < n)%nat -> (n <= length (h_arr h))%nat ->
  almost (h_arr h) n j ->
  (forall c, (c < n)%nat -> child j c -> hv (h_arr h) j <= hv (h_arr h) c) ->
  exists h', up_f fuel h j = Some h' /\ wf h' /\ Permutation (h_arr h') (h_arr h) /\
             heap_n (h_arr h') n /\
             (forall k, (j < k)%nat -> nth k (h_arr h') hd0 = nth k (h_arr h) hd0).
Proof.
  induction fuel as [|f IH]; intros h j n Hfuel Hwf Hjn Hn [HA1 HA2] HC; [lia|].
  cbn [up_f]. set (i := ((j - 1) / 2)%nat). set (a := h_arr h) in *.
  assert (Hpar : (0 < j)%nat -> child i j) by (intros H0; apply parent_cases; exact H0).
  destruct (Nat.eqb_spec i j) as [Hij|Hij].
  { (* j = 0: no parent *)
    cbn [orb]. exists h. split; [reflexivity|]. split; [exact Hwf|]. split; [apply Permutation_refl|]. split; [|auto].
    assert (Hj0 : (j = 0)%nat). { destruct j as [|j']; [reflexivity|]. specialize (Hpar ltac:(lia)). unfold child in Hpar. lia. }
    intros i' c Hc Hch. fold a.
    destruct (Nat.eq_dec i' j) as [->|Hi']; [apply HC; assumption|].
    apply HA1; try assumption. unfold child in Hch. lia. }
  assert (Hj0 : (0 < j)%nat). { destruct j as [|j']; [|lia]. exfalso. apply Hij. unfold i. reflexivity. }
  specialize (Hpar Hj0).
  assert (Hilt : (i < j)%nat) by (unfold child in Hpar; lia).
  cbn [orb]. unfold hless. fold a. fold (hv a j). fold (hv a i).
  destruct (hv a j <? hv a i) eqn:Eless; cbn [negb].
  2:{ (* parent not above: done *)
    apply Z.ltb_ge in Eless.
    exists h. split; [reflexivity|]. split; [exact Hwf|]. split; [apply Permutation_refl|]. split; [|auto].
    intros i' c Hc Hch. fold a.
    destruct (Nat.eq_dec c j) as [->|Hcj].
    - assert (i' = i) by (unfold child in *; lia). subst i'. exact Eless.
    - destruct (Nat.eq_dec i' j) as [->|Hi'j]; [apply HC; assumption|]. apply HA1; assumption. }
  apply Z.ltb_lt in Eless.
  assert (Hia : (i < length a)%nat) by lia. assert (Hja : (j < length a)%nat) by lia.
  destruct (hswap_wf h i j Hwf Hia Hja) as [Hwf1 Hp1].
  assert (Hlen1 : length (h_arr (hswap h i j)) = length a) by (rewrite hswap_arr; apply sw_length).
  destruct (IH (hswap h i j) i n) as [h' [Hup [Hwf' [Hp' [Hheap Hsame]]]]]; try assumption; try lia.
  - (* almost at i *)
    rewrite hswap_arr. fold a. split.
    + intros i' c Hc Hch Hne1 Hne2. rewrite !hv_sw by assumption.
      destruct (Nat.eqb_spec i' j) as [->|Hi'j].
      * (* edge out of j: its children are below the old parent *)
        destruct (Nat.eqb_spec c j) as [->|Hcj]; [unfold child in Hch; lia|].
        destruct (Nat.eqb_spec c i) as [->|Hci]; [congruence|]. apply HA2; assumption.
      * destruct (Nat.eqb_spec i' i) as [->|Hi'i]; [congruence|].
        destruct (Nat.eqb_spec c j) as [->|Hcj]; [exfalso; unfold child in *; lia|].
        destruct (Nat.eqb_spec c i) as [->|Hci]; [congruence|]. apply HA1; assumption.
    + intros g c Hc Hg Hch. rewrite !hv_sw by assumption.
      assert (Hgi : hv a g <= hv a i) by (apply HA1; [lia|exact Hg|unfold child in *; lia|lia]).
      destruct (Nat.eqb_spec g j) as [->|Hgj]; [exfalso; unfold child in *; lia|].
      destruct (Nat.eqb_spec g i) as [->|Hgi']; [exfalso; unfold child in *; lia|].
      destruct (Nat.eqb_spec c j) as [->|Hcj]; [exact Hgi|].
      destruct (Nat.eqb_spec c i) as [->|Hci]; [exfalso; unfold child in *; lia|].
      apply Z.le_trans with (hv a i); [exact Hgi|]. apply HA1; try assumption; lia.
  - (* the children of i *)
    rewrite hswap_arr. fold a. intros c Hc Hch. rewrite !hv_sw by assumption.
    destruct (Nat.eqb_spec i j) as [E|_]; [lia|]. rewrite Nat.eqb_refl.
    destruct (Nat.eqb_spec c j) as [->|Hcj]; [lia|].
    destruct (Nat.eqb_spec c i) as [->|Hci]; [exfalso; unfold child in *; lia|].
    assert (hv a i <= hv a c) by (apply HA1; try assumption; lia). lia.
  - exists h'. split; [exact Hup|]. split; [exact Hwf'|]. split; [eapply perm_trans; eassumption|]. split; [exact Hheap|].
    intros k Hk. rewrite Hsame by lia. rewrite hswap_arr. fold a. rewrite sw_nth by assumption.
    destruct (Nat.eqb_spec k j); [lia|]. destruct (Nat.eqb_spec k i); [lia|]. reflexivity.
Qed.

Theorem up_fuel h j : up_f (S j) h j <> None.
Proof.
  assert (H : forall fuel h j, (j < fuel)%nat -> up_f fuel h j <> None).
  { induction fuel as [|f IH]; intros h0 j0 Hf; [lia|]. cbn [up_f].
    destruct (Nat.eqb_spec ((j0 - 1) / 2) j0) as [E|E]; cbn [orb]; [discriminate|].
    destruct (negb (hless (h_arr h0) j0 ((j0 - 1) / 2))); [discriminate|].
    apply IH. destruct j0 as [|j']; [exfalso; apply E; reflexivity|].
    pose proof (parent_cases (S j') ltac:(lia)) as Hc. unfold child in Hc. lia. }
  apply H. lia.
Qed.

(* ================= down ================= *)
Lemma down_f_spec : forall fuel h i n,
  (n - i < fuel)%nat -> wf h -> (n <= length (h_arr h))%nat ->
  almost (h_arr h) n i ->
  exists h' i', down_f fuel h i n = Some (h', i') /\ wf h' /\ Permutation (h_arr h') (h_arr h) /\
    (i <= i')%nat /\
    (forall k, (n <= k)%nat -> nth k (h_arr h') hd0 = nth k (h_arr h) hd0) /\
    (i' = i -> h' = h /\ forall c, (c < n)%nat -> child i c -> hv (h_arr h) i <= hv (h_arr h) c) /\
    ((i < i')%nat -> forall g, child g i -> hv (h_arr h) g <= hv (h_arr h) i) /\
    ((forall g, child g i -> hv (h_arr h) g <= hv (h_arr h) i) -> heap_n (h_arr h') n).
Proof.
  induction fuel as [|f IH]; intros h i n Hfuel Hwf Hn [HA1 HA2]; [lia|].
  cbn [down_f]. set (a := h_arr h) in *.
  destruct (Nat.ltb_spec (2 * i + 1) n) as [Hj1|Hj1]; cbn [negb].
  2:{ (* no child inside the first n slots *)
    exists h, i. split; [reflexivity|]. split; [exact Hwf|]. split; [apply Permutation_refl|]. split; [lia|].
    split; [auto|]. split; [intros _; split; [reflexivity|intros c Hc Hch; unfold child in Hch; lia]|].
    split; [lia|]. intros Hpar i' c Hc Hch. fold a.
    destruct (Nat.eq_dec i' i) as [->|Hi']; [unfold child in Hch; lia|].
    destruct (Nat.eq_dec c i) as [->|Hci]; [apply Hpar; exact Hch|]. apply HA1; assumption. }
  set (j1 := (2 * i + 1)%nat) in *. set (j2 := (j1 + 1)%nat).
  set (j := if Nat.ltb j2 n && hless a j2 j1 then j2 else j1).
  assert (Hj : (j < n)%nat /\ child i j /\ forall c, (c < n)%nat -> child i c -> hv a j <= hv a c).
  { unfold j. destruct (Nat.ltb_spec j2 n) as [Hj2|Hj2]; cbn [andb].
    - unfold hless. fold (hv a j2). fold (hv a j1). destruct (hv a j2 <? hv a j1) eqn:E.
      + apply Z.ltb_lt in E. split; [exact Hj2|]. split; [unfold child, j2, j1; lia|].
        intros c Hc [Hc1|Hc2]; [replace c with j1 by (unfold j1; lia); lia|replace c with j2 by (unfold j2, j1; lia); lia].
      + apply Z.ltb_ge in E. split; [exact Hj1|]. split; [unfold child, j1; lia|].
        intros c Hc [Hc1|Hc2]; [replace c with j1 by (unfold j1; lia); lia|replace c with j2 by (unfold j2, j1; lia); lia].
    - split; [exact Hj1|]. split; [unfold child, j1; lia|].
      intros c Hc [Hc1|Hc2]; [replace c with j1 by (unfold j1; lia); lia|unfold j2, j1 in Hj2; lia]. }
  destruct Hj as [Hjn [Hchj Hminj]]. clearbody j. clear j2.
  assert (Hij : (i < j)%nat) by (unfold child in Hchj; lia).
  unfold hless. fold a. fold (hv a j). fold (hv a i).
  destruct (hv a j <? hv a i) eqn:Eless; cbn [negb].
  2:{ (* not above its smaller child: done *)
    apply Z.ltb_ge in Eless.
    assert (HC : forall c, (c < n)%nat -> child i c -> hv a i <= hv a c).
    { intros c Hc Hch. specialize (Hminj c Hc Hch). lia. }
    exists h, i. split; [reflexivity|]. split; [exact Hwf|]. split; [apply Permutation_refl|]. split; [lia|].
    split; [auto|]. split; [intros _; split; [reflexivity|exact HC]|].
    split; [lia|]. intros Hpar i' c Hc Hch. fold a.
    destruct (Nat.eq_dec i' i) as [->|Hi']; [apply HC; assumption|].
    destruct (Nat.eq_dec c i) as [->|Hci]; [apply Hpar; exact Hch|]. apply HA1; assumption. }
  apply Z.ltb_lt in Eless.
  assert (Hia : (i < length a)%nat) by lia. assert (Hja : (j < length a)%nat) by lia.
  destruct (hswap_wf h i j Hwf Hia Hja) as [Hwf1 Hp1].
  assert (Hlen1 : length (h_arr (hswap h i j)) = length a) by (rewrite hswap_arr; apply sw_length).
  destruct (IH (hswap h i j) j n) as [h' [i' [Hd [Hwf' [Hp' [Hle [Hsame [_ [_ Hheap]]]]]]]]]; try assumption; try lia.
  { (* almost at j *)
    rewrite hswap_arr. fold a. split.
    - intros i0 c Hc Hch Hne1 Hne2. rewrite !hv_sw by assumption.
      destruct (Nat.eqb_spec i0 j) as [->|_]; [congruence|].
      destruct (Nat.eqb_spec c j) as [->|_]; [congruence|].
      destruct (Nat.eqb_spec i0 i) as [->|Hi0].
      + (* the other child of i *)
        destruct (Nat.eqb_spec c i) as [->|Hci]; [exfalso; unfold child in Hch; lia|]. apply Hminj; assumption.
      + destruct (Nat.eqb_spec c i) as [->|Hci]; [apply HA2; assumption|]. apply HA1; assumption.
    - intros g c Hc Hg Hch. rewrite !hv_sw by assumption.
      assert (g = i) by (unfold child in *; lia). subst g.
      destruct (Nat.eqb_spec i j) as [E|_]; [lia|]. rewrite Nat.eqb_refl.
      destruct (Nat.eqb_spec c j) as [->|Hcj]; [exfalso; unfold child in Hch; lia|].
      destruct (Nat.eqb_spec c i) as [->|Hci]; [exfalso; unfold child in *; lia|].
      apply HA1; try assumption; lia. }
  exists h', i'. split; [exact Hd|]. split; [exact Hwf'|]. split; [eapply perm_trans; eassumption|]. split; [lia|].
  split.
  { intros k Hk. rewrite Hsame by exact Hk. rewrite hswap_arr. fold a. rewrite sw_nth by assumption.
    destruct (Nat.eqb_spec k j); [lia|]. destruct (Nat.eqb_spec k i); [lia|]. reflexivity. }
  split; [intros E; lia|].
  split.
  { intros _ g Hg. fold a. assert (hv a g <= hv a j) by (apply HA2; assumption). lia. }
  intros _. apply Hheap. rewrite hswap_arr. fold a. intros g Hg.
  assert (g = i) by (unfold child in *; lia). subst g. rewrite !hv_sw by assumption.
  destruct (Nat.eqb_spec i j) as [E|_]; [lia|]. rewrite !Nat.eqb_refl. lia.
Qed.

Theorem down_fuel h i n : down_f (S (n - i)) h i n <> None.
Proof.
  assert (H : forall fuel h i, (n - i < fuel)%nat -> down_f fuel h i n <> None).
  { induction fuel as [|f IH]; intros h0 i0 Hf; [lia|]. cbn [down_f].
    destruct (Nat.ltb_spec (2 * i0 + 1) n) as [Hj1|Hj1]; cbn [negb]; [|discriminate].
    match goal with |- context [negb (hless ?a ?j ?i)] => destruct (negb (hless a j i)); [discriminate|] end.
    apply IH. destruct (Nat.ltb (2 * i0 + 1 + 1) n && hless (h_arr h0) (2 * i0 + 1 + 1) (2 * i0 + 1)); lia. }
  apply H. lia.
Qed.

(* ================= the API of container/heap ================= *)
Lemma up_total h j : exists h', up_f (S j) h j = Some h' /\ up h j = h'.
Proof.
  unfold up. destruct (up_f (S j) h j) as [h'|] eqn:E; [exists h'; auto|]. exfalso. exact (up_fuel h j E).
Qed.

(* if !down(h, i, n) { up(h, i) }: what Fix and Remove do at a changed slot *)
Definition refix (h : heap) (i n : nat) : heap :=
  let '(h2, moved) := down h i n in if moved then h2 else up h2 i.

Lemma refix_spec h i n :
  wf h -> (i < n)%nat -> (n <= length (h_arr h))%nat -> almost (h_arr h) n i ->
  wf (refix h i n) /\ Permutation (h_arr (refix h i n)) (h_arr h) /\ heap_n (h_arr (refix h i n)) n /\
  (forall k, (n <= k)%nat -> nth k (h_arr (refix h i n)) hd0 = nth k (h_arr h) hd0).
Proof.
  intros Hwf Hi Hn Halm.
  destruct (down_f_spec (S (n - i)) h i n ltac:(lia) Hwf Hn Halm)
    as [h2 [i' [Hd [Hwf2 [Hp2 [Hle [Hsame [Hstay [Hmoved Hheap]]]]]]]]].
  unfold refix, down. rewrite Hd.
  destruct (Nat.ltb_spec i i') as [Hlt|Hge].
  - (* it moved down: the parent edge was fine *)
    split; [exact Hwf2|]. split; [exact Hp2|]. split; [apply Hheap; apply Hmoved; exact Hlt|exact Hsame].
  - assert (i' = i) by lia. destruct (Hstay H) as [-> HC].
    destruct (up_total h i) as [h3 [Hup ->]].
    destruct (up_f_spec (S i) h i n ltac:(lia) Hwf Hi Hn Halm HC) as [h3' [Hup' [Hwf3 [Hp3 [Hheap3 Hsame3]]]]].
    assert (h3' = h3) by congruence. subst h3'.
    split; [exact Hwf3|]. split; [exact Hp3|]. split; [exact Hheap3|]. intros k Hk. apply Hsame3. lia.
Qed.

Lemma hfix_refix h i : hfix h i = refix h i (length (h_arr h)).
Proof. reflexivity. Qed.

Lemma hremove_refix h i :
  hremove h i = hpop_last (if Nat.eqb (length (h_arr h) - 1) i then h else refix (hswap h i (length (h_arr h) - 1)) i (length (h_arr h) - 1)).
Proof. reflexivity. Qed.

(* tssQueue.Pop on an array whose first len-1 slots are a heap *)
Lemma hpop_last_spec h :
  wf h -> h_arr h <> [] -> heap_n (h_arr h) (length (h_arr h) - 1) ->
  snd (hpop_last h) = nth (length (h_arr h) - 1) (h_arr h) hd0 /\
  wf (fst (hpop_last h)) /\ heap_valid (h_arr (fst (hpop_last h))) /\
  Permutation (snd (hpop_last h) :: h_arr (fst (hpop_last h))) (h_arr h).
Proof.
  intros [Hbp Hnd] Hne Hheap. unfold hpop_last. cbn [fst snd h_arr h_bp].
  set (a := h_arr h) in *.
  assert (Hperm : Permutation (last a hd0 :: removelast a) a).
  { rewrite (app_removelast_last hd0 Hne) at 3. apply Permutation_cons_append. }
  split; [apply last_nth|]. split; [split|split; [|exact Hperm]].
  - intros k Hk. cbn [h_arr h_bp] in *. rewrite removelast_length in Hk.
    unfold hk. rewrite nth_removelast by exact Hk. apply Hbp. fold a. lia.
  - unfold keys_nodup. cbn [h_arr].
    assert (H : NoDup (map fst (last a hd0 :: removelast a))).
    { eapply Permutation_NoDup; [apply Permutation_map; apply Permutation_sym; exact Hperm|exact Hnd]. }
    cbn [map] in H. inversion H; assumption.
  - unfold heap_valid. rewrite removelast_length. intros i c Hc Hch.
    unfold hv. rewrite !nth_removelast by (unfold child in Hch; lia). apply Hheap; assumption.
Qed.

Theorem hpush_spec h k v :
  wf h -> heap_valid (h_arr h) -> ~ In k (map fst (h_arr h)) ->
  wf (hpush h (k, v)) /\ heap_valid (h_arr (hpush h (k, v))) /\
  Permutation (h_arr (hpush h (k, v))) ((k, v) :: h_arr h).
Proof.
  intros [Hbp Hnd] Hheap Hfresh.
  set (a := h_arr h) in *. set (n := length a).
  set (h0 := {| h_arr := a ++ [(k, v)]; h_bp := bp_set k n (h_bp h) |}).
  change (hpush h (k, v)) with (up h0 n).
  assert (Hlen0 : length (h_arr h0) = S n) by (cbn [h0 h_arr]; rewrite app_length; cbn [length]; lia).
  assert (Hwf0 : wf h0).
  { split.
    - intros i Hi. rewrite Hlen0 in Hi. cbn [h0 h_arr h_bp]. rewrite bp_get_set. unfold hk.
      destruct (Nat.eq_dec i n) as [->|Hin].
      + rewrite app_nth2 by (fold n; lia). fold n. rewrite Nat.sub_diag. cbn [nth fst]. rewrite Z.eqb_refl. reflexivity.
      + rewrite app_nth1 by (fold n; lia). fold (hk a i).
        destruct (k =? hk a i) eqn:E.
        * apply Z.eqb_eq in E. exfalso. apply Hfresh. rewrite E. apply hk_in. fold n. lia.
        * apply Hbp. fold a. fold n. lia.
    - unfold keys_nodup. cbn [h0 h_arr]. rewrite map_app. cbn [map fst]. apply NoDup_app_last; assumption. }
  assert (Hnth0 : forall i, (i < n)%nat -> hv (h_arr h0) i = hv a i).
  { intros i Hi. unfold hv. cbn [h0 h_arr]. rewrite app_nth1 by (fold n; lia). reflexivity. }
  assert (Halm : almost (h_arr h0) (S n) n).
  { split.
    - intros i c Hc Hch Hne1 Hne2. assert (c < n)%nat by lia. rewrite !Hnth0 by (unfold child in Hch; lia).
      apply Hheap; assumption.
    - intros g c Hc Hg Hch. unfold child in Hch. lia. }
  destruct (up_total h0 n) as [h1 [Hup ->]].
  destruct (up_f_spec (S n) h0 n (S n) ltac:(lia) Hwf0 ltac:(lia) ltac:(lia) Halm) as [h1' [Hup' [Hwf1 [Hp1 [Hheap1 _]]]]].
  { intros c Hc Hch. unfold child in Hch. lia. }
  assert (h1' = h1) by congruence. subst h1'.
  split; [exact Hwf1|]. split.
  - unfold heap_valid. rewrite (Permutation_length Hp1), Hlen0. exact Hheap1.
  - eapply perm_trans; [exact Hp1|]. cbn [h0 h_arr]. apply Permutation_sym. apply Permutation_cons_append.
Qed.

Theorem hpop_spec h :
  wf h -> heap_valid (h_arr h) -> h_arr h <> [] ->
  snd (hpop h) = nth 0 (h_arr h) hd0 /\
  wf (fst (hpop h)) /\ heap_valid (h_arr (fst (hpop h))) /\
  Permutation (snd (hpop h) :: h_arr (fst (hpop h))) (h_arr h).
Proof.
  intros Hwf Hheap Hne. unfold hpop. set (a := h_arr h) in *. set (n := (length a - 1)%nat).
  assert (Hlen : (0 < length a)%nat) by (destruct a; [congruence|cbn; lia]).
  destruct (hswap_wf h 0 n Hwf ltac:(fold a; lia) ltac:(fold a; lia)) as [Hwf1 Hp1].
  set (h1 := hswap h 0 n) in *.
  assert (Hlen1 : length (h_arr h1) = length a) by (apply Permutation_length; exact Hp1).
  assert (Halm : almost (h_arr h1) n 0).
  { split.
    - intros i c Hc Hch Hne1 Hne2. unfold h1. rewrite hswap_arr. fold a. rewrite !hv_sw by lia.
      destruct (Nat.eqb_spec i n); [unfold child in Hch; lia|]. destruct (Nat.eqb_spec i 0); [lia|].
      destruct (Nat.eqb_spec c n); [lia|]. destruct (Nat.eqb_spec c 0); [lia|].
      apply Hheap; [fold a; lia|exact Hch].
    - intros g c Hc Hg Hch. unfold child in Hg. lia. }
  destruct (down_f_spec (S (n - 0)) h1 0 n ltac:(lia) Hwf1 ltac:(lia) Halm)
    as [h2 [i' [Hd [Hwf2 [Hp2 [_ [Hsame [_ [_ Hheap2]]]]]]]]].
  unfold down. rewrite Hd. cbn [fst].
  assert (Hlen2 : length (h_arr h2) = length a) by (rewrite (Permutation_length Hp2); exact Hlen1).
  assert (Hne2 : h_arr h2 <> []) by (intros E; rewrite E in Hlen2; cbn in Hlen2; lia).
  assert (Hh2 : heap_n (h_arr h2) (length (h_arr h2) - 1)).
  { rewrite Hlen2. fold n. apply Hheap2. intros g Hg. unfold child in Hg. lia. }
  destruct (hpop_last_spec h2 Hwf2 Hne2 Hh2) as [Hx [Hwf3 [Hheap3 Hp3]]].
  split.
  - rewrite Hx, Hlen2. fold n. rewrite Hsame by lia. unfold h1. rewrite hswap_arr. fold a.
    rewrite sw_nth by lia. rewrite Nat.eqb_refl. reflexivity.
  - split; [exact Hwf3|]. split; [exact Hheap3|].
    eapply perm_trans; [exact Hp3|]. eapply perm_trans; [exact Hp2|exact Hp1].
Qed.

Theorem hremove_spec h i :
  wf h -> heap_valid (h_arr h) -> (i < length (h_arr h))%nat ->
  snd (hremove h i) = nth i (h_arr h) hd0 /\
  wf (fst (hremove h i)) /\ heap_valid (h_arr (fst (hremove h i))) /\
  Permutation (snd (hremove h i) :: h_arr (fst (hremove h i))) (h_arr h).
Proof.
  intros Hwf Hheap Hi. rewrite hremove_refix. set (a := h_arr h) in *. set (n := (length a - 1)%nat).
  assert (Hne : a <> []) by (intros E; rewrite E in Hi; cbn in Hi; lia).
  destruct (Nat.eqb_spec n i) as [E|E].
  - destruct (hpop_last_spec h Hwf Hne) as [Hx [Hwf3 [Hheap3 Hp3]]].
    { fold a. fold n. apply (heap_n_le a (length a)); [lia|exact Hheap]. }
    fold a in Hx. fold n in Hx. rewrite E in Hx. auto.
  - destruct (hswap_wf h i n Hwf ltac:(fold a; lia) ltac:(fold a; lia)) as [Hwf1 Hp1].
    set (h1 := hswap h i n) in *.
    assert (Hlen1 : length (h_arr h1) = length a) by (apply Permutation_length; exact Hp1).
    assert (Halm : almost (h_arr h1) n i).
    { split.
      - intros i0 c Hc Hch Hne1 Hne2. unfold h1. rewrite hswap_arr. fold a. rewrite !hv_sw by lia.
        destruct (Nat.eqb_spec i0 n); [unfold child in Hch; lia|]. destruct (Nat.eqb_spec i0 i); [lia|].
        destruct (Nat.eqb_spec c n); [lia|]. destruct (Nat.eqb_spec c i); [lia|].
        apply Hheap; [fold a; lia|exact Hch].
      - intros g c Hc Hg Hch. unfold h1. rewrite hswap_arr. fold a. rewrite !hv_sw by lia.
        destruct (Nat.eqb_spec g n); [unfold child in *; lia|]. destruct (Nat.eqb_spec g i); [unfold child in *; lia|].
        destruct (Nat.eqb_spec c n); [lia|]. destruct (Nat.eqb_spec c i); [unfold child in *; lia|].
        apply Z.le_trans with (hv a i); apply Hheap; try assumption; fold a; lia. }
    destruct (refix_spec h1 i n Hwf1 ltac:(lia) ltac:(lia) Halm) as [Hwf2 [Hp2 [Hheap2 Hsame]]].
    set (h2 := refix h1 i n) in *.
    assert (Hlen2 : length (h_arr h2) = length a) by (rewrite (Permutation_length Hp2); exact Hlen1).
    assert (Hne2 : h_arr h2 <> []) by (intros E2; rewrite E2 in Hlen2; cbn in Hlen2; lia).
    destruct (hpop_last_spec h2 Hwf2 Hne2) as [Hx [Hwf3 [Hheap3 Hp3]]].
    { rewrite Hlen2. exact Hheap2. }
    split.
    + rewrite Hx, Hlen2. fold n. rewrite Hsame by lia. unfold h1. rewrite hswap_arr. fold a.
      rewrite sw_nth by lia. rewrite Nat.eqb_refl. reflexivity.
    + split; [exact Hwf3|]. split; [exact Hheap3|].
      eapply perm_trans; [exact Hp3|]. eapply perm_trans; [exact Hp2|exact Hp1].
Qed.

(* tssi.qval = v; heap.Fix(&tssQ, tssi.qidx) *)
Lemma hq_fix_keys k v a : map fst (hq_fix k v a) = map fst a.
Proof.
  unfold hq_fix. rewrite map_map. apply map_ext. intros p. destruct (fst p =? k) eqn:E; [|reflexivity].
  apply Z.eqb_eq in E. cbn [fst]. congruence.
Qed.

Lemma hq_fix_nth k v a j : (j < length a)%nat ->
  nth j (hq_fix k v a) hd0 = if hk a j =? k then (k, v) else nth j a hd0.
Proof.
  unfold hq_fix, hk. revert j. induction a as [|x r IH]; intros [|j] Hj; cbn [length] in Hj; try lia; cbn [map nth]; [reflexivity|].
  apply IH. lia.
Qed.

Theorem hset_fix_spec h i k v :
  wf h -> heap_valid (h_arr h) -> (i < length (h_arr h))%nat -> hk (h_arr h) i = k ->
  wf (hfix (hset_qval h k v) i) /\ heap_valid (h_arr (hfix (hset_qval h k v) i)) /\
  Permutation (h_arr (hfix (hset_qval h k v) i)) (hq_fix k v (h_arr h)).
Proof.
  intros [Hbp Hnd] Hheap Hi Hk. set (a := h_arr h) in *.
  set (h0 := hset_qval h k v).
  assert (Hlen0 : length (h_arr h0) = length a) by (cbn [h0 hset_qval h_arr]; unfold hq_fix; apply map_length).
  assert (Hhk0 : forall j, (j < length a)%nat -> hk (h_arr h0) j = hk a j).
  { intros j Hj. unfold hk at 1. cbn [h0 hset_qval h_arr]. fold a. rewrite hq_fix_nth by exact Hj.
    destruct (hk a j =? k) eqn:E; [apply Z.eqb_eq in E; cbn [fst]; congruence|reflexivity]. }
  assert (Hhv0 : forall j, (j < length a)%nat -> j <> i -> hv (h_arr h0) j = hv a j).
  { intros j Hj Hne. unfold hv at 1. cbn [h0 hset_qval h_arr]. fold a. rewrite hq_fix_nth by exact Hj.
    destruct (hk a j =? k) eqn:E; [|reflexivity]. apply Z.eqb_eq in E. exfalso. apply Hne.
    apply (key_inj a); try assumption. congruence. }
  assert (Hwf0 : wf h0).
  { split.
    - intros j Hj. rewrite Hlen0 in Hj. rewrite Hhk0 by exact Hj. cbn [h0 hset_qval h_bp]. apply Hbp. exact Hj.
    - unfold keys_nodup. cbn [h0 hset_qval h_arr]. rewrite hq_fix_keys. exact Hnd. }
  assert (Halm : almost (h_arr h0) (length (h_arr h0)) i).
  { rewrite Hlen0. split.
    - intros i0 c Hc Hch Hne1 Hne2. rewrite !Hhv0 by (unfold child in Hch; lia). apply Hheap; assumption.
    - intros g c Hc Hg Hch. rewrite !Hhv0 by (unfold child in *; lia).
      apply Z.le_trans with (hv a i); apply Hheap; assumption. }
  rewrite hfix_refix.
  destruct (refix_spec h0 i (length (h_arr h0)) Hwf0 ltac:(lia) ltac:(lia) Halm) as [Hwf2 [Hp2 [Hheap2 _]]].
  split; [exact Hwf2|]. split; [|exact Hp2].
  unfold heap_valid. rewrite (Permutation_length Hp2). exact Hheap2.
Qed.

(* ================= the root is the minimum of the abstract queue ================= *)
Lemma fold_min_spec v r : let m := fold_right (fun (p : Z * Z) m => Z.min (snd p) m) v r in
  m <= v /\ (forall x, In x r -> m <= snd x) /\ (m = v \/ exists x, In x r /\ snd x = m).
Proof.
  induction r as [|p r IH]; cbn [fold_right In]; [split; [lia|]; split; [tauto|left; reflexivity]|].
  cbv zeta in IH. destruct IH as [H1 [H2 H3]].
  set (m := fold_right (fun (p : Z * Z) m => Z.min (snd p) m) v r) in *.
  split; [lia|]. split.
  - intros x [<-|Hx]; [lia|]. specialize (H2 x Hx). lia.
  - destruct (Z.min_spec (snd p) m) as [[Hlt ->]|[Hge ->]].
    + right. exists p. split; [left; reflexivity|reflexivity].
    + destruct H3 as [H3|[x [Hx1 Hx2]]]; [left; exact H3|right; exists x; split; [right; exact Hx1|exact Hx2]].
Qed.

Lemma hq_min_val_spec q m : hq_min_val q = Some m ->
  (exists x, In x q /\ snd x = m) /\ forall x, In x q -> m <= snd x.
Proof.
  destruct q as [|[k v] r]; cbn [hq_min_val]; [discriminate|]. intros H. inversion H as [Hm]; clear H.
  destruct (fold_min_spec v r) as [H1 [H2 H3]]. cbv zeta in *. rewrite Hm in *. split.
  - destruct H3 as [->|[x [Hx1 Hx2]]]; [exists (k, v); split; [left; reflexivity|reflexivity]|exists x; split; [right; exact Hx1|exact Hx2]].
  - intros x [<-|Hx]; [exact H1|apply H2; exact Hx].
Qed.

Lemma hq_min_val_some q : q <> [] -> exists m, hq_min_val q = Some m.
Proof. destruct q as [|[k v] r]; [congruence|]. intros _. eexists. reflexivity. Qed.

Lemma heap_root_le a x : heap_valid a -> In x a -> hv a 0 <= snd x.
Proof.
  intros Hh Hx. destruct (In_nth _ _ hd0 Hx) as [j [Hj Hn]].
  pose proof (heap_root_min a (length a) Hh j Hj) as H. unfold hv at 2 in H. rewrite Hn in H. exact H.
Qed.

Lemma root_is_min a q : heap_valid a -> Permutation a q -> a <> [] -> hq_min_val q = Some (hv a 0).
Proof.
  intros Hh Hp Hne.
  assert (Hq : q <> []) by (intros ->; apply Permutation_sym, Permutation_nil in Hp; congruence).
  destruct (hq_min_val_some q Hq) as [m Hm]. rewrite Hm. f_equal.
  destruct (hq_min_val_spec q m Hm) as [[x [Hx1 Hx2]] Hall].
  assert (H1 : hv a 0 <= m). { rewrite <- Hx2. apply heap_root_le; [exact Hh|]. eapply Permutation_in; [apply Permutation_sym; exact Hp|exact Hx1]. }
  assert (H2 : m <= hv a 0).
  { apply (Hall (nth 0 a hd0)). eapply Permutation_in; [exact Hp|]. apply nth_In. destruct a; [congruence|cbn; lia]. }
  lia.
Qed.

Lemma qmin_eq h q : heap_valid (h_arr h) -> Permutation (h_arr h) q -> qmin h = hq_min_val q.
Proof.
  intros Hh Hp. unfold qmin. destruct (h_arr h) as [|[k v] r] eqn:E.
  - apply Permutation_nil in Hp. subst q. reflexivity.
  - symmetry. rewrite <- E in *. rewrite (root_is_min _ q Hh Hp) by (rewrite E; discriminate).
    unfold hv. rewrite E. reflexivity.
Qed.

Lemma hq_find_in q k v : NoDup (map fst q) -> In (k, v) q -> hq_find k q = Some v.
Proof.
  induction q as [|[k' v'] r IH]; cbn [map fst hq_find In]; [tauto|]. intros Hnd [H|H].
  - inversion H; subst. rewrite Z.eqb_refl. reflexivity.
  - inversion Hnd as [|? ? Hn Hnd']; subst. destruct (k' =? k) eqn:E; [|apply IH; assumption].
    apply Z.eqb_eq in E. subst k'. exfalso. apply Hn. change k with (fst (k, v)). apply in_map. exact H.
Qed.

Lemma hq_remove_perm k l l' : Permutation l l' -> NoDup (map fst l) -> Permutation (hq_remove k l) (hq_remove k l').
Proof.
  induction 1 as [|[kx vx] l l' Hp IH|[kx vx] [ky vy] l|l l' l'' Hp1 IH1 Hp2 IH2]; intros Hnd.
  - apply Permutation_refl.
  - cbn [hq_remove]. destruct (kx =? k); [exact Hp|]. apply perm_skip. apply IH. cbn [map] in Hnd. inversion Hnd; assumption.
  - cbn [hq_remove]. destruct (ky =? k) eqn:Ey; destruct (kx =? k) eqn:Ex; try apply Permutation_refl.
    + apply Z.eqb_eq in Ey, Ex. exfalso. cbn [map fst] in Hnd. inversion Hnd as [|? ? Hn _]; subst. apply Hn. left. reflexivity.
    + apply perm_swap.
  - eapply perm_trans; [apply IH1; exact Hnd|]. apply IH2.
    eapply Permutation_NoDup; [apply Permutation_map; exact Hp1|exact Hnd].
Qed.

Lemma hq_remove_cons_perm x a q : NoDup (map fst q) -> Permutation (x :: a) q -> Permutation a (hq_remove (fst x) q).
Proof.
  intros Hnd Hp.
  assert (Hnd' : NoDup (map fst (x :: a))) by (eapply Permutation_NoDup; [apply Permutation_map; apply Permutation_sym; exact Hp|exact Hnd]).
  pose proof (hq_remove_perm (fst x) _ _ Hp Hnd') as H. destruct x as [kx vx]. cbn [hq_remove fst] in H.
  rewrite Z.eqb_refl in H. exact H.
Qed.

(* ================= refinement ================= *)
(* the concrete store sh represents the abstract store s *)
Definition Rel (sh : tssh) (s : tss) : Prop :=
  hs_items sh = items s /\ Permutation (h_arr (hs_heap sh)) (hq s) /\
  heap_valid (h_arr (hs_heap sh)) /\ bp_ok (hs_heap sh).

Lemma Rel_empty : Rel tssh_empty tss_empty.
Proof.
  unfold Rel, tssh_empty, tss_empty, heap_empty. cbn. split; [reflexivity|]. split; [apply perm_nil|].
  split; [intros i c Hc; cbn in Hc; lia|intros i Hi; cbn in Hi; lia].
Qed.

Lemma inv_keys c s : Inv c s -> map fst (hq s) = map it_key (items s).
Proof. intros [_ [_ [_ Hhq]]]. rewrite Hhq, map_map. reflexivity. Qed.

Lemma rel_wf c sh s : Rel sh s -> Inv c s -> wf (hs_heap sh).
Proof.
  intros [_ [Hp [_ Hbp]]] HI. split; [exact Hbp|]. unfold keys_nodup.
  eapply Permutation_NoDup; [apply Permutation_map; apply Permutation_sym; exact Hp|].
  rewrite (inv_keys c s HI). destruct HI as [Hnd _]. exact Hnd.
Qed.

Lemma rel_pos c sh s cid it : Rel sh s -> Inv c s -> find_item cid (items s) = Some it ->
  (bp_get cid (h_bp (hs_heap sh)) < length (h_arr (hs_heap sh)))%nat /\
  hk (h_arr (hs_heap sh)) (bp_get cid (h_bp (hs_heap sh))) = cid.
Proof.
  intros [_ [Hp [_ Hbp]]] HI Hf. destruct (find_item_In _ _ _ Hf) as [Hin Hkey].
  assert (Hk : In cid (map fst (h_arr (hs_heap sh)))).
  { eapply Permutation_in; [apply Permutation_map; apply Permutation_sym; exact Hp|].
    rewrite (inv_keys c s HI), <- Hkey. apply in_map. exact Hin. }
  destruct (in_keys_nth _ _ Hk) as [i [Hi Hki]]. rewrite <- Hki. rewrite (Hbp i Hi). split; [exact Hi|reflexivity].
Qed.

Lemma rel_fresh c sh s cid : Rel sh s -> Inv c s -> find_item cid (items s) = None ->
  ~ In cid (map fst (h_arr (hs_heap sh))).
Proof.
  intros [_ [Hp _]] HI Hf Hin. apply (find_item_None _ _ Hf). rewrite <- (inv_keys c s HI).
  eapply Permutation_in; [apply Permutation_map; exact Hp|exact Hin].
Qed.

Lemma hq_fix_perm k v a q : Permutation a q -> Permutation (hq_fix k v a) (hq_fix k v q).
Proof. intros H. unfold hq_fix. apply Permutation_map. exact H. Qed.

(* tssi.qval = v; heap.Fix(&tssQ, tssi.qidx) on a represented store *)
Lemma rel_fix c sh s cid it v items' :
  Rel sh s -> Inv c s -> find_item cid (items s) = Some it ->
  Rel {| hs_items := items'; hs_heap := hfix (hset_qval (hs_heap sh) cid v) (bp_get cid (h_bp (hs_heap sh))) |}
      {| items := items'; hq := hq_fix cid v (hq s) |}.
Proof.
  intros HR HI Hf. pose proof (rel_wf c sh s HR HI) as Hwf. destruct (rel_pos c sh s cid it HR HI Hf) as [Hi Hk].
  destruct HR as [_ [Hp [Hh _]]].
  destruct (hset_fix_spec (hs_heap sh) _ cid v Hwf Hh Hi Hk) as [[Hbp' _] [Hh' Hp']].
  unfold Rel. cbn [hs_items hs_heap items hq]. split; [reflexivity|]. split; [|split; assumption].
  eapply perm_trans; [exact Hp'|]. apply hq_fix_perm. exact Hp.
Qed.

(* delete(tss, x.key) after Pop/Remove: the qidx of a key that left the array does not matter *)
Lemma wf_bp_del h k : wf h -> ~ In k (map fst (h_arr h)) -> wf {| h_arr := h_arr h; h_bp := bp_del k (h_bp h) |}.
Proof.
  intros [Hbp Hnd] Hn. split; [|exact Hnd]. intros i Hi. cbn [h_arr h_bp] in *. rewrite bp_get_del; [apply Hbp; exact Hi|].
  intros E. apply Hn. rewrite <- E. apply hk_in. exact Hi.
Qed.

Lemma after_remove h h1 x q :
  wf h1 -> heap_valid (h_arr h1) -> Permutation (x :: h_arr h1) (h_arr h) -> Permutation (h_arr h) q -> NoDup (map fst q) ->
  wf {| h_arr := h_arr h1; h_bp := bp_del (fst x) (h_bp h1) |} /\
  Permutation (h_arr h1) (hq_remove (fst x) q) /\
  (forall k, ~ In k (map fst (h_arr h)) -> ~ In k (map fst (h_arr h1))).
Proof.
  intros Hwf1 Hh1 Hp1 Hp Hnd.
  assert (Hp' : Permutation (x :: h_arr h1) q) by (eapply perm_trans; eassumption).
  assert (Hnd1 : NoDup (map fst (x :: h_arr h1))).
  { eapply Permutation_NoDup; [apply Permutation_map; apply Permutation_sym; exact Hp'|exact Hnd]. }
  split; [|split].
  - apply wf_bp_del; [exact Hwf1|]. cbn [map] in Hnd1. inversion Hnd1; assumption.
  - apply hq_remove_cons_perm; assumption.
  - intros k Hk Hin. apply Hk. eapply Permutation_in; [apply Permutation_map; exact Hp1|]. cbn [map]. right. exact Hin.
Qed.

Lemma rel_push h q k v its :
  wf h -> heap_valid (h_arr h) -> Permutation (h_arr h) q -> ~ In k (map fst (h_arr h)) ->
  Rel {| hs_items := its; hs_heap := hpush h (k, v) |} {| items := its; hq := (k, v) :: q |}.
Proof.
  intros Hwf Hh Hp Hfresh. destruct (hpush_spec h k v Hwf Hh Hfresh) as [[Hbp' _] [Hh' Hp']].
  unfold Rel. cbn [hs_items hs_heap items hq]. split; [reflexivity|]. split; [|split; assumption].
  eapply perm_trans; [exact Hp'|]. apply perm_skip. exact Hp.
Qed.

Definition out_match (oh : houtcome) (out : outcome) : Prop :=
  Rel (ho_state oh) (o_state out) /\ ho_reply oh = o_reply out /\ ho_rxt oh = o_rxt out /\
  ho_txt oh = o_txt out /\ ho_evicted oh = o_evicted out /\ ho_stateless oh = o_stateless out.

(* what heap.Pop returns is a minimum of the abstract queue: the side condition
   of Tss.handle on its victim input holds for the root of the array *)
Theorem pop_is_minimum c sh s :
  Rel sh s -> Inv c s -> h_arr (hs_heap sh) <> [] ->
  snd (hpop (hs_heap sh)) = nth 0 (h_arr (hs_heap sh)) hd0 /\
  fst (snd (hpop (hs_heap sh))) = root_key (hs_heap sh) /\
  hq_find (root_key (hs_heap sh)) (hq s) = Some (snd (snd (hpop (hs_heap sh)))) /\
  hq_min_val (hq s) = Some (snd (snd (hpop (hs_heap sh)))) /\
  forall x, In x (hq s) -> snd (snd (hpop (hs_heap sh))) <= snd x.
Proof.
  intros HR HI Hne. pose proof HR as [Hit [Hperm [Hheap Hbp]]]. pose proof (rel_wf c sh s HR HI) as Hwf.
  destruct (hpop_spec (hs_heap sh) Hwf Hheap Hne) as [Hx _]. rewrite Hx.
  assert (Hndq : NoDup (map fst (hq s))) by (rewrite (inv_keys c s HI); destruct HI as [Hnd _]; exact Hnd).
  assert (Hxin : In (nth 0 (h_arr (hs_heap sh)) hd0) (hq s)).
  { eapply Permutation_in; [exact Hperm|]. apply nth_In. destruct (h_arr (hs_heap sh)); [congruence|cbn; lia]. }
  pose proof (root_is_min _ (hq s) Hheap Hperm Hne) as Hmin. unfold hv in Hmin.
  split; [reflexivity|]. split; [reflexivity|]. split; [|split; [exact Hmin|]].
  - unfold root_key. destruct (nth 0 (h_arr (hs_heap sh)) hd0) as [kx vx] eqn:E. cbn [fst snd]. apply hq_find_in; assumption.
  - destruct (hq_min_val_spec _ _ Hmin) as [_ Hall]. exact Hall.
Qed.

Theorem handle_h_refines c sh s cid q rxt now :
  Rel sh s -> Inv c s ->
  match handle_h c sh cid q rxt now with
  | Some oh => exists out, handle c s cid q rxt now (root_key (hs_heap sh)) = Some out /\ out_match oh out
  | None => handle c s cid q rxt now (root_key (hs_heap sh)) = None
  end.
Proof.
  intros HR HI. pose proof HR as [Hit [Hperm [Hheap Hbp]]]. pose proof (rel_wf c sh s HR HI) as Hwf.
  unfold handle_h, handle. rewrite Hit.
  destruct (find_item cid (items s)) as [it|] eqn:Hfind.
  - (* the client has an item *)
    destruct (uniq (S (length (it_ents it))) (it_ents it) rxt (if rxt <? now then now else rxt + 1)) as [[rxt' txt']|]; [|reflexivity].
    destruct (scan (it_ents it) (q_org q)) as [[o mn] mx].
    eexists. split; [reflexivity|]. unfold out_match.
    cbn [ho_state o_state ho_reply o_reply ho_rxt o_rxt ho_txt o_txt ho_evicted o_evicted ho_stateless o_stateless].
    split; [|repeat split; reflexivity].
    destruct (match mx with Some (_, m) => m <? to64 rxt' | None => false end).
    + apply (rel_fix c sh s cid it); assumption.
    + unfold Rel. cbn [hs_items hs_heap items hq]. split; [reflexivity|]. split; [exact Hperm|]. split; assumption.
  - (* a newcomer *)
    cbv zeta. rewrite (qmin_eq (hs_heap sh) (hq s) Hheap Hperm).
    pose proof (rel_fresh c sh s cid HR HI Hfind) as Hfresh.
    destruct (admission_decision c (length (items s)) (hq_min_val (hq s)) (to64 rxt)) eqn:Hadm.
    + (* eviction: heap.Pop *)
      assert (Hne : h_arr (hs_heap sh) <> []).
      { intros E. rewrite E in Hperm. apply Permutation_nil in Hperm. unfold admission_decision in Hadm. rewrite Hperm in Hadm. cbn [hq_min_val] in Hadm.
        destruct (Z.of_nat (length (items s)) =? cap c); discriminate. }
      destruct (pop_is_minimum c sh s HR HI Hne) as [_ [Hk [Hfnd [Hmin _]]]].
      destruct (hpop_spec (hs_heap sh) Hwf Hheap Hne) as [_ [Hwf1 [Hheap1 Hp1]]].
      assert (Hndq : NoDup (map fst (hq s))) by (rewrite (inv_keys c s HI); destruct HI as [Hnd _]; exact Hnd).
      destruct (hpop (hs_heap sh)) as [h1 x] eqn:Hpop. cbn [fst snd] in *.
      rewrite Hfnd, Hmin, Z.eqb_refl.
      eexists. split; [reflexivity|]. unfold out_match.
      cbn [ho_state o_state ho_reply o_reply ho_rxt o_rxt ho_txt o_txt ho_evicted o_evicted ho_stateless o_stateless].
      split; [|rewrite Hk; repeat split; reflexivity].
      destruct (after_remove (hs_heap sh) h1 x (hq s) Hwf1 Hheap1 Hp1 Hperm Hndq) as [Hwf1' [Hp1' Hsub]].
      rewrite <- Hk. apply rel_push; [exact Hwf1'|exact Hheap1|exact Hp1'|apply Hsub; exact Hfresh].
    + (* served statelessly *)
      eexists. split; [reflexivity|]. unfold out_match.
      cbn [ho_state o_state ho_reply o_reply ho_rxt o_rxt ho_txt o_txt ho_evicted o_evicted ho_stateless o_stateless].
      split; [exact HR|repeat split; reflexivity].
    + (* a new item: heap.Push *)
      eexists. split; [reflexivity|]. unfold out_match.
      cbn [ho_state o_state ho_reply o_reply ho_rxt o_rxt ho_txt o_txt ho_evicted o_evicted ho_stateless o_stateless].
      split; [|repeat split; reflexivity]. apply rel_push; assumption.
Qed.

Definition tx_match (oh : htx_outcome) (out : tx_outcome) : Prop :=
  Rel (ht_state oh) (t_state out) /\ ht_txt oh = t_txt out /\ ht_removed_item oh = t_removed_item out /\
  ht_removed_entry oh = t_removed_entry out /\ ht_updated oh = t_updated out.

Ltac txcbn := cbn [ht_state t_state ht_txt t_txt ht_removed_item t_removed_item ht_removed_entry t_removed_entry ht_updated t_updated].

Theorem update_tx_h_refines c sh s cid rxt txt :
  Rel sh s -> Inv c s -> tx_match (update_tx_h sh cid rxt txt) (update_tx s cid rxt txt).
Proof.
  intros HR HI. pose proof HR as [Hit [Hperm [Hheap Hbp]]]. pose proof (rel_wf c sh s HR HI) as Hwf.
  unfold update_tx_h, update_tx, tx_match. rewrite Hit.
  destruct (find_item cid (items s)) as [it|] eqn:Hfind; [|txcbn; split; [exact HR|repeat split; reflexivity]].
  destruct (scan_tx_from 0 (it_ents it) (to64 rxt) None None None) as [[x m0] m1].
  destruct x as [[xi xtx]|]; [|txcbn; split; [exact HR|repeat split; reflexivity]].
  destruct (negb (xtx =? to64 (if rxt <? txt then txt else rxt + 1))).
  { txcbn.
    split; [|repeat split; reflexivity]. unfold Rel. cbn [hs_items hs_heap items hq]. split; [reflexivity|]. split; [exact Hperm|]. split; assumption. }
  destruct (Nat.eqb (length (it_ents it)) 1).
  - (* the item goes: heap.Remove(&tssQ, tssi.qidx) *)
    destruct (rel_pos c sh s cid it HR HI Hfind) as [Hi Hk].
    destruct (hremove_spec (hs_heap sh) _ Hwf Hheap Hi) as [Hx [Hwf1 [Hheap1 Hp1]]].
    assert (Hndq : NoDup (map fst (hq s))) by (rewrite (inv_keys c s HI); destruct HI as [Hnd _]; exact Hnd).
    destruct (hremove (hs_heap sh) (bp_get cid (h_bp (hs_heap sh)))) as [h1 x] eqn:Hrem. cbn [fst snd] in *.
    assert (Hxk : fst x = cid) by (rewrite Hx; exact Hk).
    destruct (after_remove (hs_heap sh) h1 x (hq s) Hwf1 Hheap1 Hp1 Hperm Hndq) as [[Hbp1' _] [Hp1' _]].
    rewrite Hxk in *.
    txcbn.
    split; [|repeat split; reflexivity]. unfold Rel. cbn [hs_items hs_heap items hq h_arr]. split; [reflexivity|]. split; [exact Hp1'|]. split; assumption.
  - txcbn.
    split; [|repeat split; reflexivity].
    destruct (match m0 with Some a => a =? to64 rxt | None => false end).
    + apply (rel_fix c sh s cid it); assumption.
    + unfold Rel. cbn [hs_items hs_heap items hq]. split; [reflexivity|]. split; [exact Hperm|]. split; assumption.
Qed.

(* ================= histories ================= *)
Section Runs.
Variable k : Z.
Variable c : config.
Hypothesis Hicap : 0 < icap c.

(* with the victim taken from the array, handleRequest always answers *)
Theorem handle_h_defined sh s cid q rxt now :
  Rel sh s -> Inv c s -> in_era k rxt -> in_era k (rxt + icap c + 1) -> in_era k now ->
  handle_h c sh cid q rxt now <> None.
Proof.
  intros HR HI E1 E2 E3 Hnone. pose proof (handle_h_refines c sh s cid q rxt now HR HI) as H. rewrite Hnone in H.
  destruct (handle_defined k c Hicap s cid q rxt now _ HI E1 E2 E3 H) as [_ [_ [m [Hmin [_ Hnf]]]]].
  assert (Hne : h_arr (hs_heap sh) <> []).
  { destruct HR as [_ [Hperm _]]. intros E. rewrite E in Hperm. apply Permutation_nil in Hperm. rewrite Hperm in Hmin. discriminate. }
  destruct (pop_is_minimum c sh s HR HI Hne) as [_ [_ [Hfnd [Hmin' _]]]]. apply Hnf. congruence.
Qed.

Lemma with_victim_era sh o : op_in_era k c o -> op_in_era k c (with_victim sh o).
Proof. destruct o; cbn [with_victim op_in_era]; auto. Qed.

Lemma step_h_refines sh s log o :
  Rel sh s -> Inv c s -> Prov log s -> op_in_era k c o ->
  exists sh' s' ev, step_h c sh o = Some sh' /\ step_log c s (with_victim sh o) = Some (s', ev) /\
                    Rel sh' s' /\ Inv c s' /\ Prov (ev :: log) s'.
Proof.
  intros HR HI HP Hera. pose proof (with_victim_era sh o Hera) as Hera'.
  destruct o as [cid q rxt now victim|cid rxt txt]; cbn [step_h with_victim step_log] in *.
  - destruct Hera as [E1 [E2 E3]].
    pose proof (handle_h_refines c sh s cid q rxt now HR HI) as H.
    destruct (handle_h c sh cid q rxt now) as [oh|] eqn:Hh; [|exfalso; exact (handle_h_defined sh s cid q rxt now HR HI E1 E2 E3 Hh)].
    destruct H as [out [Hout [HR' _]]].
    exists (ho_state oh), (o_state out), (EvReply cid q (o_reply out)). split; [reflexivity|]. rewrite Hout. split; [reflexivity|].
    split; [exact HR'|].
    apply (step_log_inv k c Hicap s (OpHandle cid q rxt now (root_key (hs_heap sh))) _ _ log HI HP Hera').
    cbn [step_log]. rewrite Hout. reflexivity.
  - destruct (update_tx_h_refines c sh s cid rxt txt HR HI) as [HR' _].
    eexists _, _, _. split; [reflexivity|]. split; [reflexivity|]. split; [exact HR'|].
    apply (step_log_inv k c Hicap s (OpUpdateTx cid rxt txt) _ _ log HI HP Hera'). reflexivity.
Qed.

Lemma run_h_refines ops : forall sh s log,
  Rel sh s -> Inv c s -> Prov log s -> Forall (op_in_era k c) ops ->
  exists sh' s' log', run_h c sh ops = Some sh' /\ run_log c s log (with_victims c sh ops) = Some (s', log') /\
                      Forall (op_in_era k c) (with_victims c sh ops) /\ Rel sh' s' /\ Inv c s' /\ Prov log' s'.
Proof.
  induction ops as [|o r IH]; intros sh s log HR HI HP Hera.
  - exists sh, s, log. cbn [run_h with_victims run_log]. split; [reflexivity|]. split; [reflexivity|]. split; [constructor|]. auto.
  - inversion Hera as [|? ? Ho Hr]; subst.
    destruct (step_h_refines sh s log o HR HI HP Ho) as [sh1 [s1 [ev [Hs [Hl [HR1 [HI1 HP1]]]]]]].
    destruct (IH sh1 s1 (ev :: log) HR1 HI1 HP1 Hr) as [sh' [s' [log' [Hrun [Hlog [Hera' [HR' [HI' HP']]]]]]]].
    exists sh', s', log'. cbn [run_h with_victims run_log]. rewrite Hs, Hl. split; [exact Hrun|]. split; [exact Hlog|].
    split; [constructor; [apply with_victim_era; exact Ho|exact Hera']|]. auto.
Qed.

(* every history runs on the concrete store, and what it reaches represents a
   state that the same history (victims = the popped roots) reaches in Tss.v:
   every theorem about reachable states of Tss.v holds of the concrete items *)
Theorem heap_run ops : 0 <= cap c -> Forall (op_in_era k c) ops ->
  exists sh s log, run_h c tssh_empty ops = Some sh /\ reachable k c s log /\ Rel sh s.
Proof.
  intros Hcap Hera.
  destruct (run_h_refines ops tssh_empty tss_empty [] Rel_empty (Inv_empty c Hcap) Prov_empty Hera)
    as [sh [s [log [Hrun [Hlog [Hera' [HR _]]]]]]].
  exists sh, s, log. split; [exact Hrun|]. split; [|exact HR].
  exists (with_victims c tssh_empty ops). split; assumption.
Qed.
End Runs.
