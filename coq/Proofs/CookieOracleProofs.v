(* C11: the property oracle (Model/CookieOracle.v) accepts what the model does. *)
From ST Require Import Base.Ints Base.Bytes Model.CookiePool Model.CookieOracle Model.CookieSystem
  Proofs.CookiePoolProofs Proofs.CookieCodecProofs Proofs.CookieRefine.
From Coq Require Import ZArith List Bool Lia.
Import ListNotations.
Open Scope Z_scope.
Ltac Zify.zify_post_hook ::= Z.div_mod_to_equations.

(* ---- the boolean list predicates ---- *)
Lemma bytes_eqb_eq a b : bytes_eqb a b = true <-> a = b.
Proof.
  revert b. induction a as [|x a IH]; intros [|y b]; cbn; split; try congruence; try discriminate.
  - intros H. apply andb_prop in H as [H1 H2]. apply Z.eqb_eq in H1. apply IH in H2. congruence.
  - intros E. injection E as -> ->. rewrite Z.eqb_refl. apply IH. reflexivity.
Qed.

Lemma mem_In x l : mem x l = true <-> In x l.
Proof.
  unfold mem. rewrite existsb_exists. split.
  - intros [y [Hy E]]. apply bytes_eqb_eq in E. subst. exact Hy.
  - intros H. exists x. split; [exact H|apply bytes_eqb_eq; reflexivity].
Qed.

Lemma mem_false x l : mem x l = false <-> ~ In x l.
Proof. rewrite <- mem_In. destruct (mem x l); split; congruence. Qed.

Lemma distinct_NoDup l : distinct l = true <-> NoDup l.
Proof.
  induction l as [|x l IH]; cbn; split; intros H; try constructor; try reflexivity.
  - apply andb_prop in H as [H1 H2]. apply negb_true_iff, mem_false in H1. exact H1.
  - apply andb_prop in H as [_ H2]. apply IH. exact H2.
  - inversion H as [|? ? Hn Hd]; subst. apply andb_true_intro. split.
    + apply negb_true_iff, mem_false. exact Hn.
    + apply IH. exact Hd.
Qed.

Lemma olen_zlen {A} (l : list A) : olen l = zlen l.
Proof. reflexivity. Qed.

(* ---- the oracle's field parser on the fields the encoders write ---- *)
Lemma be16_bytes x : 0 <= x < 65536 -> exists a b, be16 x = [a; b] /\ a * 256 + b = x.
Proof.
  intros H. exists ((x / 256 ^ Z.of_nat 1) mod 256), ((x / 256 ^ Z.of_nat 0) mod 256).
  split; [reflexivity|]. change (256 ^ Z.of_nat 1) with 256. change (256 ^ Z.of_nat 0) with 1.
  rewrite Z.div_1_r. lia.
Qed.

Definition fields_wf (fs : list (Z * bytes)) : Prop :=
  Forall (fun f => 0 <= fst f < 65536 /\ zlen (snd f) mod 4 = 0 /\ 4 + zlen (snd f) < 65536) fs.

Definition wire_of (fs : list (Z * bytes)) : bytes := concat (map (fun f => efield (fst f) (snd f)) fs).

Lemma ext_fields_wire fs : forall f, fields_wf fs -> (length fs < f)%nat -> ext_fields f (wire_of fs) = Some fs.
Proof.
  induction fs as [|[t body] fs IH]; intros f Hwf Hf.
  - destruct f; [lia|]. reflexivity.
  - destruct f as [|f]; [cbn in Hf; lia|].
    apply Forall_cons_iff in Hwf as [[Ht [H4 Hl]] Hwf]. cbn [fst snd] in *.
    unfold wire_of. cbn [map concat fst snd]. unfold efield.
    destruct (be16_bytes t Ht) as [t1 [t2 [E1 E1']]].
    pose proof (zlen_nonneg body) as Hb.
    destruct (be16_bytes (4 + zlen body) ltac:(lia)) as [l1 [l2 [E2 E2']]].
    rewrite E1, E2. cbn [app ext_fields]. rewrite E1', E2'.
    destruct (4 + zlen body <? 4) eqn:Ea; [lia|].
    assert (Em : (4 + zlen body) mod 4 =? 0 = true) by (apply Z.eqb_eq; lia). rewrite Em.
    match goal with |- context [olen ?x <? ?y] =>
      assert (Eo : olen x <? y = false) by (apply Z.ltb_ge; unfold olen, zlen; rewrite app_length; lia) end.
    rewrite Eo. cbn [negb orb].
    replace (Z.to_nat (4 + zlen body - 4)) with (length body) by (unfold zlen; lia).
    rewrite skipn_app_exact, firstn_app_exact by reflexivity.
    change (concat (map (fun f0 => be16 (fst f0) ++ be16 (4 + zlen (snd f0)) ++ snd f0) fs)) with (wire_of fs).
    rewrite (IH f Hwf ltac:(cbn in Hf; lia)). reflexivity.
Qed.

Lemma wire_len_ge fs : (4 * length fs <= length (wire_of fs))%nat.
Proof.
  induction fs as [|[t b] fs IH]; cbn [length]; [lia|].
  unfold wire_of in *. cbn [map concat fst snd]. rewrite app_length.
  pose proof (efield_len t b) as H. unfold zlen in H. pose proof (Nat2Z.is_nonneg (length b)). lia.
Qed.

Lemma fields_of_wire hdr fs : zlen hdr = 48 -> fields_wf fs -> fields_of (hdr ++ wire_of fs) = Some fs.
Proof.
  intros Hh Hwf. unfold fields_of, o_ntp_len. rewrite (skipn_zlen hdr _ 48 (eq_sym Hh)).
  apply ext_fields_wire; [exact Hwf|]. pose proof (wire_len_ge fs). lia.
Qed.

(* counting fields by type *)
Lemma count_app t a b : count_type t (a ++ b) = count_type t a + count_type t b.
Proof. unfold count_type, olen. rewrite filter_app, app_length. lia. Qed.
Lemma values_app t a b : values_of t (a ++ b) = values_of t a ++ values_of t b.
Proof. unfold values_of. rewrite filter_app, map_app. reflexivity. Qed.
Lemma count_repeat t t' (v : obytes) n : count_type t (repeat (t', v) n) = if t' =? t then Z.of_nat n else 0.
Proof.
  unfold count_type, olen. induction n as [|n IH]; cbn [repeat filter fst]; [destruct (t' =? t); reflexivity|].
  destruct (t' =? t) eqn:E; cbn [length]; lia.
Qed.
Lemma values_repeat t t' (v : obytes) n : values_of t (repeat (t', v) n) = if t' =? t then repeat v n else [].
Proof.
  unfold values_of. induction n as [|n IH]; cbn [repeat filter fst map]; [destruct (t' =? t); reflexivity|].
  destruct (t' =? t) eqn:E; cbn [map snd]; rewrite IH; reflexivity.
Qed.
Lemma last_type_app l x : last_type (l ++ [x]) = fst x.
Proof. unfold last_type. rewrite rev_app_distr. reflexivity. Qed.

Section Wire.
Variable seal : bytes -> bytes -> bytes -> bytes -> bytes.
Hypothesis seal_len : forall k n p a, zlen (seal k n p a) = zlen p + 16.
Variable L : Z.
Hypothesis L4 : L mod 4 = 0.
Hypothesis L24 : 24 <= L.
Hypothesis Lfit : 1 <= max_cookies 32 L.

Definition auth_body (nonce ct : bytes) : bytes := be16 16 ++ be16 (zlen ct) ++ nonce ++ ct.

Lemma enc_auth_efield nonce ct : zlen nonce = 16 ->
  enc_auth nonce ct = efield extAuthenticator (auth_body nonce ct).
Proof.
  intros Hn. unfold enc_auth, efield, auth_body. rewrite !zlen_app, !zlen_be16, Hn.
  replace (4 + (2 + (2 + (16 + zlen ct)))) with (4 + 2 + 2 + 16 + zlen ct) by lia.
  rewrite <- ?app_assoc. reflexivity.
Qed.

Definition request_fields (uid c nonce ct : bytes) (p : nat) : list (Z * bytes) :=
  [(extUniqueIdentifier, uid); (extCookie, c)] ++ repeat (extCookiePlaceholder, repeat 0 (length c)) p ++
  [(extAuthenticator, auth_body nonce ct)].

Lemma request_wire_fields hdr uid c nonce key p :
  zlen uid = 32 -> zlen c = L -> zlen nonce = 16 ->
  exists ct, zlen ct = 16 /\
    request_wire seal hdr uid c nonce key p = hdr ++ wire_of (request_fields uid c nonce ct p) /\
    fields_wf (request_fields uid c nonce ct p).
Proof.
  intros Hu Hc Hn. unfold request_wire. cbv zeta.
  set (pre := hdr ++ _). set (ct := seal key nonce [] pre).
  assert (Hct : zlen ct = 16) by (unfold ct; rewrite seal_len; reflexivity).
  clearbody ct. exists ct. split; [exact Hct|].
  pose proof (L_small L L4 L24 Lfit) as HLs.
  assert (Hph : zlen (repeat 0 (length c)) = L) by (rewrite zlen_repeat; exact Hc).
  split.
  - unfold pre, request_fields, wire_of. rewrite !map_app, !concat_app, map_repeat'. cbn [map concat fst snd].
    rewrite (enc_field_efield _ uid ltac:(rewrite Hu; reflexivity)), (enc_field_efield _ c ltac:(rewrite Hc; exact L4)),
            (enc_field_efield _ (repeat 0 (length c)) ltac:(rewrite Hph; exact L4)), (enc_auth_efield _ _ Hn).
    rewrite <- !app_assoc, !app_nil_r. reflexivity.
  - unfold fields_wf, request_fields. repeat (apply Forall_app; split); repeat constructor; cbn [fst snd];
      try (unfold extUniqueIdentifier, extCookie, extAuthenticator; lia); try (rewrite ?Hu, ?Hc; lia || assumption || reflexivity).
    + apply Forall_forall. intros x Hx. apply repeat_spec in Hx. subst x. cbn [fst snd]. rewrite Hph.
      unfold extCookiePlaceholder. repeat split; lia || assumption.
    + unfold auth_body. rewrite !zlen_app, !zlen_be16, Hn, Hct. reflexivity.
    + unfold auth_body. rewrite !zlen_app, !zlen_be16, Hn, Hct. lia.
Qed.

(* the oracle accepts a request of the client at pool level [level] *)
Theorem request_ok_wire hdr uid c nonce key level :
  zlen hdr = 48 -> zlen uid = 32 -> zlen c = L -> zlen nonce = 16 -> 1 <= level <= 8 ->
  let p := placeholders_at L level in
  zlen (request_wire seal hdr uid c nonce key p) <= MaxPacketLen ->
  request_ok level (request_wire seal hdr uid c nonce key p) = true /\
  request_cookie (request_wire seal hdr uid c nonce key p) = Some c /\
  request_uid (request_wire seal hdr uid c nonce key p) = Some uid /\
  request_nfields (request_wire seal hdr uid c nonce key p) = 1 + Z.of_nat p.
Proof.
  intros Hh Hu Hc Hn Hlv p Hfit.
  destruct (request_wire_fields hdr uid c nonce key p Hu Hc Hn) as [ct [Hct [Ew Hwf]]].
  pose proof (fields_of_wire hdr _ Hh Hwf) as Hf. rewrite <- Ew in Hf.
  set (fs := request_fields uid c nonce ct p) in *.
  assert (C1 : count_type t_uid fs = 1).
  { unfold fs, request_fields. rewrite !count_app, count_repeat. reflexivity. }
  assert (C2 : count_type t_cookie fs = 1).
  { unfold fs, request_fields. rewrite !count_app, count_repeat. reflexivity. }
  assert (C3 : count_type t_auth fs = 1).
  { unfold fs, request_fields. rewrite !count_app, count_repeat. reflexivity. }
  assert (C4 : count_type t_placeholder fs = Z.of_nat p).
  { unfold fs, request_fields. rewrite !count_app, count_repeat.
    change (extCookiePlaceholder =? t_placeholder) with true. cbv iota.
    change (count_type t_placeholder [(extUniqueIdentifier, uid); (extCookie, c)]) with 0.
    change (count_type t_placeholder [(extAuthenticator, auth_body nonce ct)]) with 0. lia. }
  assert (V1 : values_of t_cookie fs = [c]).
  { unfold fs, request_fields. rewrite !values_app, values_repeat. reflexivity. }
  assert (V2 : values_of t_uid fs = [uid]).
  { unfold fs, request_fields. rewrite !values_app, values_repeat. reflexivity. }
  assert (V3 : values_of t_placeholder fs = repeat (repeat 0 (length c)) p).
  { unfold fs, request_fields. rewrite !values_app, values_repeat.
    change (extCookiePlaceholder =? t_placeholder) with true. cbv iota.
    change (values_of t_placeholder [(extUniqueIdentifier, uid); (extCookie, c)]) with (@nil obytes).
    change (values_of t_placeholder [(extAuthenticator, auth_body nonce ct)]) with (@nil obytes).
    rewrite app_nil_r. reflexivity. }
  assert (C5 : last_type fs = t_auth).
  { unfold fs, request_fields. rewrite app_assoc, last_type_app. reflexivity. }
  assert (C6 : olen fs = 3 + Z.of_nat p).
  { unfold fs, request_fields, olen. rewrite !app_length, repeat_length. cbn [length]. lia. }
  unfold request_cookie, request_uid, request_nfields. rewrite Hf, V1, V2, C2, C4.
  repeat split; try reflexivity.
  unfold request_ok. unfold obytes, bytes in *. rewrite Hf, C1, C2, C3, C4, C5, C6, V1, V2, V3.
  assert (Hp : Z.of_nat p = Z.max 0 (num_placeholders level 32 L)) by (unfold p, placeholders_at; lia).
  pose proof (num_placeholders_le level 32 L) as [Hle _]. unfold numStoredCookies in Hle.
  pose proof (placeholders_maximal 32 L level ltac:(lia) Lfit ltac:(unfold numStoredCookies; lia)) as Hmax.
  cbv zeta in Hmax. rewrite <- Hp in Hmax. unfold numStoredCookies, MaxPacketLen, ntpPacketLen, auth_len in Hmax.
  unfold field_len in Hmax. rewrite (pad4_mult4 _ L4) in Hmax. change (pad4 32) with 32 in Hmax.
  unfold o_max_packet, o_pool_size, with_n_cookie_fields, o_ntp_len.
  unfold MaxPacketLen in Hfit. unfold olen, zlen in *. rewrite Hu, Hc.
  apply andb_true_intro. split; [apply Z.leb_le; exact Hfit|].
  repeat (apply andb_true_intro; split); try (apply Z.eqb_eq; reflexivity); try (apply Z.leb_le; lia).
  - apply forallb_forall. intros v Hv. apply repeat_spec in Hv. subst v. rewrite repeat_length. apply Z.eqb_eq. exact Hc.
  - apply orb_true_iff. destruct Hmax as [E|E]; [left; apply Z.eqb_eq; lia|right; apply Z.ltb_lt; lia].
Qed.

(* ... and a reply of the server carrying the cookies cs: the part of reply_ok that reads the datagrams *)
Lemma reply_fields_of rhdr uid rnonce key (sent : list bytes) :
  zlen rhdr = 48 -> zlen uid = 32 -> zlen rnonce = 16 ->
  Forall (fun x => zlen x = L) sent ->
  zlen (reply_wire seal rhdr uid rnonce key sent) <= MaxPacketLen ->
  exists body, fields_of (reply_wire seal rhdr uid rnonce key sent) =
               Some [(extUniqueIdentifier, uid); (extAuthenticator, body)].
Proof.
  intros Hh Hu Hn Hall Hfit. unfold reply_wire in *. cbv zeta in *.
  set (pre := rhdr ++ _) in *. set (plain := concat _) in *. set (ct := seal key rnonce plain pre) in *.
  assert (Hplain : zlen plain = Z.of_nat (length sent) * (4 + L)).
  { unfold plain. clear - Hall L4. induction Hall as [|x l Hx Hl IH]; cbn [map concat length]; [reflexivity|].
    rewrite zlen_app, IH, enc_field_len, Hx. unfold field_len. rewrite (pad4_mult4 _ L4). lia. }
  assert (Hct : zlen ct = zlen plain + 16) by (unfold ct; apply seal_len).
  exists (auth_body rnonce ct).
  assert (Ew : pre ++ enc_auth rnonce ct =
               rhdr ++ wire_of [(extUniqueIdentifier, uid); (extAuthenticator, auth_body rnonce ct)]).
  { unfold pre, wire_of. cbn [map concat fst snd].
    rewrite (enc_field_efield _ uid ltac:(rewrite Hu; reflexivity)), (enc_auth_efield _ _ Hn).
    rewrite <- !app_assoc, !app_nil_r. reflexivity. }
  rewrite Ew. apply fields_of_wire; [exact Hh|].
  assert (Hfit' : zlen (pre ++ enc_auth rnonce ct) <= MaxPacketLen) by exact Hfit.
  rewrite zlen_app, (enc_auth_len seal seal_len) in Hfit' by exact Hn. unfold MaxPacketLen in Hfit'.
  pose proof (zlen_nonneg pre). pose proof (zlen_nonneg plain).
  unfold fields_wf. repeat constructor; cbn [fst snd]; try (unfold extUniqueIdentifier, extAuthenticator; lia);
    try (rewrite Hu; lia || reflexivity).
  - unfold auth_body. rewrite !zlen_app, !zlen_be16, Hn, Hct, Hplain.
    assert (HLq : L = 4 * (L / 4)) by lia. rewrite HLq.
    replace (2 + (2 + (16 + (Z.of_nat (length sent) * (4 + 4 * (L / 4)) + 16))))
      with ((9 + Z.of_nat (length sent) * (1 + L / 4)) * 4) by ring. apply Z_mod_mult.
  - unfold auth_body. rewrite !zlen_app, !zlen_be16, Hn, Hct. lia.
Qed.

(* reply_ok, given what the reply is and what is known of its cookies *)
Theorem reply_ok_wire hdr uid c nonce key level rhdr rnonce ks2c kc2s (cs : list bytes) (cfs : list cookie_facts)
  (known : list obytes) cur :
  zlen hdr = 48 -> zlen uid = 32 -> zlen c = L -> zlen nonce = 16 -> 1 <= level <= 8 ->
  zlen rhdr = 48 -> zlen rnonce = 16 ->
  let p := placeholders_at L level in
  let req := request_wire seal hdr uid c nonce key p in
  let reply := reply_wire seal rhdr uid rnonce ks2c cs in
  zlen req <= MaxPacketLen -> zlen reply <= MaxPacketLen ->
  Forall (fun x => zlen x = L) cs -> zlen cs = reply_count (1 + Z.of_nat p) 32 L ->
  map cf_bytes cfs = cs -> NoDup cs -> (forall x, In x cs -> ~ In x known) ->
  Forall (fun f => cf_keyid f = cur /\ cf_keys f = Some (kc2s, ks2c)) cfs ->
  reply_ok req reply true cfs kc2s ks2c known cur = true.
Proof.
  intros Hh Hu Hc Hn Hlv Hrh Hrn p req reply Hfq Hfr Hall Hk Hmap Hnd Hfresh Hkeys.
  destruct (request_ok_wire hdr uid c nonce key level Hh Hu Hc Hn Hlv Hfq) as [_ [_ [Euid Enf]]].
  fold p in Euid, Enf. fold req in Euid, Enf.
  destruct (reply_fields_of rhdr uid rnonce ks2c cs Hrh Hu Hrn Hall Hfr) as [body Hf]. fold reply in Hf.
  assert (Hlen : olen cfs = zlen cs) by (rewrite <- Hmap; unfold olen, zlen; rewrite map_length; reflexivity).
  pose proof (reply_count_bounds (1 + Z.of_nat p) 32 L ltac:(lia)) as Hb.
  pose proof (reply_count_maximal 32 L (1 + Z.of_nat p) ltac:(lia) Lfit ltac:(lia)) as Hmax.
  unfold reply_ok. rewrite Hf, Euid, Enf, Hlen, Hk.
  change (count_type t_uid [(extUniqueIdentifier, uid); (extAuthenticator, body)]) with 1.
  change (count_type t_auth [(extUniqueIdentifier, uid); (extAuthenticator, body)]) with 1.
  change (last_type [(extUniqueIdentifier, uid); (extAuthenticator, body)]) with t_auth.
  change (olen [(extUniqueIdentifier, uid); (extAuthenticator, body)]) with 2.
  change (values_of t_uid [(extUniqueIdentifier, uid); (extAuthenticator, body)]) with [uid].
  assert (Eb : bytes_eqb uid uid = true) by (apply bytes_eqb_eq; reflexivity). cbv beta iota. rewrite Eb.
  unfold MaxPacketLen in Hfr.
  assert (E0 : olen reply <=? o_max_packet = true) by (apply Z.leb_le; exact Hfr). rewrite E0.
  cbn [andb Z.eqb Pos.eqb].
  assert (Hd : distinct (map cf_bytes cfs) = true) by (rewrite Hmap; apply distinct_NoDup; exact Hnd).
  assert (Hk1 : forallb (fun c0 => negb (mem (cf_bytes c0) known)) cfs = true).
  { apply forallb_forall. intros f Hf'. apply negb_true_iff, mem_false. apply Hfresh. rewrite <- Hmap. apply in_map. exact Hf'. }
  assert (Hk2 : forallb (fun c0 => cf_keyid c0 =? cur) cfs = true).
  { apply forallb_forall. intros f Hf'. rewrite Forall_forall in Hkeys. apply Z.eqb_eq. exact (proj1 (Hkeys f Hf')). }
  assert (Hk3 : forallb (fun c0 => match cf_keys c0 with
                                  | Some (a, b) => bytes_eqb a kc2s && bytes_eqb b ks2c
                                  | None => false end) cfs = true).
  { apply forallb_forall. intros f Hf'. rewrite Forall_forall in Hkeys. rewrite (proj2 (Hkeys f Hf')).
    apply andb_true_intro. split; apply bytes_eqb_eq; reflexivity. }
  rewrite Hd, Hk1, Hk2, Hk3.
  destruct cfs as [|f0 cfs']; [cbn in Hlen; lia|].
  assert (Hc0 : olen (cf_bytes f0) = L).
  { assert (In (cf_bytes f0) cs) by (rewrite <- Hmap; left; reflexivity).
    rewrite Forall_forall in Hall. exact (Hall _ H). }
  repeat (apply andb_true_intro; split); try reflexivity; try (apply Z.leb_le; lia).
  apply orb_true_iff. destruct Hmax as [E|E]; [left; apply Z.eqb_eq; lia|right; apply Z.ltb_lt].
  unfold with_n_cookie_fields, o_max_packet, o_ntp_len. rewrite Hc0. unfold olen. fold (zlen uid). rewrite Hu.
  unfold reply_len, auth_len, field_len, MaxPacketLen, ntpPacketLen in E. rewrite (pad4_mult4 _ L4) in E.
  change (pad4 32) with 32 in E. lia.
Qed.

End Wire.

(* ================= the oracle on the calls of the concrete system ================= *)
Section ModelMeetsOracle.
Variable seal : bytes -> bytes -> bytes -> bytes -> bytes.
Variable aopen : bytes -> bytes -> bytes -> bytes -> option bytes.
Variable mk_cookie : Z -> Z -> nat -> bytes -> bytes -> bytes.
Variable cookie_keyid : bytes -> Z.
Variable open_cookie : Z -> bytes -> option (bytes * bytes).
Variable pstate : Type.
Variable pcurrent : pstate -> Z -> option (skey * pstate).
Variable pget : pstate -> Z -> Z -> option skey.
Variable cid : bytes -> nat.
Variable L : Z.
Hypothesis seal_len : forall k n p a, zlen (seal k n p a) = zlen p + 16.
Hypothesis open_seal : forall k n p a, aopen k n (seal k n p a) a = Some p.
Hypothesis L4 : L mod 4 = 0.
Hypothesis L24 : 24 <= L.
Hypothesis Lmax : L <= MaxCookieLen.
Hypothesis Lfit : 1 <= max_cookies 32 L.
Hypothesis mk_len : forall id v n a b, zlen a = 32 -> zlen b = 32 -> zlen (mk_cookie id v n a b) = L.
Hypothesis cid_mk : forall id v n a b, cid (mk_cookie id v n a b) = n.
Hypothesis kid_mk : forall id v n a b, cookie_keyid (mk_cookie id v n a b) = id.
Hypothesis open_mk : forall id v n a b, zlen a = 32 -> zlen b = 32 -> open_cookie v (mk_cookie id v n a b) = Some (a, b).
Variable plog : pstate -> list skey.
Variable PInv : Z -> pstate -> Prop.
Hypothesis P_cur : forall T p t k p', PInv T p -> T <= t -> pcurrent p t = Some (k, p') ->
  PInv t p' /\ In k (plog p') /\ incl (plog p) (plog p') /\ pget p' (sk_id k) t = Some k.
Hypothesis P_get : forall T p id t k, PInv T p -> pget p id t = Some k -> sk_id k = id /\ In k (plog p).
Hypothesis P_uniq : forall T p x y, PInv T p -> In x (plog p) -> In y (plog p) -> sk_id x = sk_id y -> x = y.
Hypothesis P_weak : forall T T' p, PInv T p -> T <= T' -> PInv T' p.

Notation Cstep := (cstep pstate pcurrent pget seal aopen mk_cookie cookie_keyid open_cookie).
Notation Creach := (creach seal aopen mk_cookie cookie_keyid open_cookie pstate pcurrent pget PInv).

(* what the harness finds out about a cookie of a reply: its key identifier, and the session keys
   it opens to under the key the provider hands out for that identifier now *)
Definition facts_of (p : pstate) (now : Z) (c : bytes) : cookie_facts :=
  {| cf_bytes := c; cf_keyid := cookie_keyid c;
     cf_keys := match pget p (cookie_keyid c) now with
                | Some k => open_cookie (sk_val k) c
                | None => None
                end |}.

(* the pool level a request is built at: the pool of the previous call, or eight after a key exchange *)
Definition level_at (s : csys pstate) : Z :=
  match pool (cs_client s) with [] => 8 | p => zlen p end.

(* every request the model sends is accepted by request_ok *)
Theorem model_request_ok s o s' ob req :
  Creach s -> wf_op o -> Cstep s o = Some (s', ob) -> ob_sent ob = Some req ->
  request_ok (level_at s) req = true.
Proof.
  intros Hr Hwf H Hs. destruct Hwf as [Hage [Hu [Hn [Hh Hrest]]]].
  destruct (concrete_request seal aopen mk_cookie cookie_keyid open_cookie pstate pcurrent pget cid L
              seal_len open_seal L4 L24 Lmax Lfit mk_len cid_mk kid_mk open_mk plog PInv P_cur P_get P_uniq P_weak
              s o s' ob req Hr (conj Hage (conj Hu (conj Hn (conj Hh Hrest)))) H Hs)
    as [c [level [key [Hlv [Hb [Hc [Ereq Efit]]]]]]].
  assert (El : level_at s = level).
  { unfold level_at. destruct Hlv as [[E ->]|[[r E] ->]]; rewrite E; reflexivity. }
  rewrite El, Ereq. rewrite Ereq in Efit.
  exact (proj1 (request_ok_wire seal seal_len L L4 L24 Lfit (o_hdr o) (o_uid o) c (o_nonce o) key level Hh Hu Hc Hn Hb Efit)).
Qed.

(* every reply of the model's server is accepted by reply_ok, whatever cookies issued earlier are known *)
Theorem model_reply_ok s o s' ob req reply cs cur known :
  Creach s -> wf_op o -> Cstep s o = Some (s', ob) ->
  ob_sent ob = Some req -> ob_reply ob = Some (reply, cs, cur) ->
  (forall x, In x known -> In x (cs_sent s') \/ (cid x < sv_next (cs_server s))%nat) ->
  reply_ok req reply true (map (facts_of (sv_prov (cs_server s')) (cs_now s')) cs)
    (c2s (cs_client s')) (s2c (cs_client s')) known (sk_id cur) = true.
Proof.
  intros Hr Hwf H Hs Hrep Hknown. pose proof Hwf as [Hage [Hu [Hn [Hh [Hrn [Hrh _]]]]]].
  destruct (concrete_request seal aopen mk_cookie cookie_keyid open_cookie pstate pcurrent pget cid L
              seal_len open_seal L4 L24 Lmax Lfit mk_len cid_mk kid_mk open_mk plog PInv P_cur P_get P_uniq P_weak
              s o s' ob req Hr Hwf H Hs)
    as [c [level [key [Hlv [Hb [Hc [Ereq Efit]]]]]]].
  destruct (concrete_reply seal aopen mk_cookie cookie_keyid open_cookie pstate pcurrent pget cid L
              seal_len open_seal L4 L24 Lmax Lfit mk_len cid_mk kid_mk open_mk plog PInv P_cur P_get P_uniq P_weak
              s o s' ob reply cs cur Hr Hwf H Hrep)
    as [req' [Hs' [dq [Ed [Ecount [Erep [Efr [Hall [Hget [Hnd [B [HB1 [HB2 HB3]]]]]]]]]]]]].
  rewrite Hs in Hs'. injection Hs' as <-.
  rewrite Ereq in Efit, Ed.
  assert (Hcount : server_issue_count dq = 1 + Z.of_nat (placeholders_at L level)).
  { destruct (decode_request seal seal_len (o_hdr o) (o_uid o) c (o_nonce o) key (placeholders_at L level)
                Hh Hu ltac:(rewrite Hc; exact L4) Hn Efit) as [_ Ed'].
    rewrite Ed' in Ed. injection Ed as <-. unfold server_issue_count. cbn [d_cookies d_nplaceholders].
    unfold zlen. cbn [length]. lia. }
  rewrite Hcount in Ecount.
  rewrite Ereq, Erep.
  assert (Hlen : Forall (fun x => zlen x = L) cs)
    by (eapply Forall_mono; [|exact Hall]; intros x [_ [_ [_ E]]]; exact E).
  set (p' := sv_prov (cs_server s')) in *. set (now' := cs_now s') in *.
  apply (reply_ok_wire seal seal_len L L4 L24 Lfit (o_hdr o) (o_uid o) c (o_nonce o) key level (o_rhdr o) (o_rnonce o)
           (s2c (cs_client s')) (c2s (cs_client s')) cs _ known (sk_id cur) Hh Hu Hc Hn Hb Hrh Hrn Efit);
    try assumption.
  - rewrite <- Erep. exact Efr.
  - rewrite map_map. cbn [facts_of cf_bytes]. apply map_id.
  - apply (NoDup_map_inv cid). exact Hnd.
  - intros x Hx Hk. rewrite Forall_forall in HB2, HB3. specialize (HB2 x Hx).
    destruct (Hknown x Hk) as [Hsx|Hlt]; [specialize (HB3 x Hsx); lia|lia].
  - apply Forall_forall. intros f Hf. apply in_map_iff in Hf as [x [<- Hx]].
    rewrite Forall_forall in Hall. destruct (Hall x Hx) as [A [B' _]].
    unfold facts_of. cbn [cf_keyid cf_keys]. rewrite A, Hget, B'. split; reflexivity.
Qed.

End ModelMeetsOracle.
