(* C13 - the flags the model of createClocks gives the SCION clients satisfy the oracle *)
From Coq Require Import ZArith List Bool Lia PeanoNat.
From ST Require Import Model.SvcSpao.
Import ListNotations.
Open Scope Z_scope.

Definition the_client (modes : list Z) : svcclient :=
  let spao := has_mode MODE_SPAO modes in mkSvcclient spao spao (if spao then 1 else 0).

Lemma in_model_clocks : forall modes n m c, In c (model_clocks modes n m) ->
  sk_clients c = repeat (the_client modes) clients_per_scion_clock.
Proof.
  intros modes n m c H. unfold model_clocks in H. apply in_app_or in H.
  destruct H as [H|H]; apply repeat_spec in H; subst; reflexivity.
Qed.

Lemma in_all_clients : forall modes n m c, In c (all_clients (model_clocks modes n m)) -> c = the_client modes.
Proof.
  intros modes n m c H. unfold all_clients in H. apply in_flat_map in H. destruct H as [k [Hk Hc]].
  rewrite (in_model_clocks modes n m k Hk) in Hc. apply repeat_spec in Hc. exact Hc.
Qed.

Lemma firstn_model : forall modes n m, firstn n (model_clocks modes n m) = repeat (model_clock modes false) n.
Proof.
  intros. unfold model_clocks.
  rewrite firstn_app, repeat_length, Nat.sub_diag, firstn_O, app_nil_r.
  rewrite <- (repeat_length (model_clock modes false) n) at 1. apply firstn_all.
Qed.

Lemma skipn_model : forall modes n m, skipn n (model_clocks modes n m) = repeat (model_clock modes true) m.
Proof.
  intros. unfold model_clocks.
  rewrite skipn_app, repeat_length, Nat.sub_diag. simpl.
  rewrite <- (repeat_length (model_clock modes false) n) at 1. rewrite skipn_all. reflexivity.
Qed.

Lemma filter_refs : forall modes n m,
  filter (fun c => negb (sk_peer c)) (model_clocks modes n m) = repeat (model_clock modes false) n.
Proof.
  intros. unfold model_clocks. rewrite filter_app.
  assert (A : forall k, filter (fun c => negb (sk_peer c)) (repeat (model_clock modes false) k) = repeat (model_clock modes false) k).
  { induction k; simpl; [reflexivity|rewrite IHk; reflexivity]. }
  assert (B : forall k, filter (fun c => negb (sk_peer c)) (repeat (model_clock modes true) k) = []).
  { induction k; simpl; [reflexivity|exact IHk]. }
  rewrite A, B, app_nil_r. reflexivity.
Qed.

Lemma svc_spao_on_model : forall modes nrefs npeers,
  C13_svc_spao_ok modes nrefs npeers true (model_clocks modes nrefs npeers) = true.
Proof.
  intros modes n m. unfold C13_svc_spao_ok. cbv zeta.
  rewrite filter_refs, firstn_model, skipn_model, Nat.eqb_refl.
  assert (Hlen : (length (model_clocks modes n m) =? n + m)%nat = true).
  { unfold model_clocks. rewrite app_length, !repeat_length. apply Nat.eqb_refl. }
  rewrite Hlen. cbn [andb].
  assert (H1 : forallb (fun c => Bool.eqb (sk_peer c) false) (repeat (model_clock modes false) n) = true).
  { apply forallb_forall. intros c Hc. apply repeat_spec in Hc. subst. reflexivity. }
  assert (H2 : forallb (fun c => Bool.eqb (sk_peer c) true) (repeat (model_clock modes true) m) = true).
  { apply forallb_forall. intros c Hc. apply repeat_spec in Hc. subst. reflexivity. }
  assert (H3 : forallb (fun c => (length (sk_clients c) =? clients_per_scion_clock)%nat) (model_clocks modes n m) = true).
  { apply forallb_forall. intros c Hc. rewrite (in_model_clocks modes n m c Hc), repeat_length. apply Nat.eqb_refl. }
  rewrite H1, H2, H3. cbn [andb].
  pose proof (in_all_clients modes n m) as Hin.
  set (cl := all_clients (model_clocks modes n m)) in *.
  assert (H4 : forallb (fun c => Bool.eqb (sc_auth c) (has_mode MODE_SPAO modes)) cl = true).
  { apply forallb_forall. intros c Hc. rewrite (Hin c Hc). apply eqb_reflx. }
  assert (H5 : forallb (fun c => Bool.eqb (sc_drkey c) (has_mode MODE_SPAO modes)) cl = true).
  { apply forallb_forall. intros c Hc. rewrite (Hin c Hc). apply eqb_reflx. }
  rewrite H4, H5. cbn [andb].
  destruct (has_mode MODE_SPAO modes) eqn:Hs.
  - destruct cl as [|c0 r] eqn:Hcl; [reflexivity|].
    assert (E0 : c0 = the_client modes) by (apply Hin; left; reflexivity).
    assert (Ha : forall c, In c (c0 :: r) -> sc_fetcher c = 1).
    { intros c Hc. rewrite (Hin c Hc). unfold the_client. rewrite Hs. reflexivity. }
    rewrite (Ha c0 (or_introl eq_refl)). cbn [Z.eqb negb andb].
    apply forallb_forall. intros c Hc. rewrite (Ha c Hc). reflexivity.
  - apply forallb_forall. intros c Hc. rewrite (Hin c Hc). unfold the_client. rewrite Hs. reflexivity.
Qed.
