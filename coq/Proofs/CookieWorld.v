(* C11: the assumptions of the concrete system bundled (crypto: AES-SIV and the sealing of
   server cookies; provider: the facts C12 proves), the theorems of Proofs/CookieRefine.v
   and Proofs/CookieOracleProofs.v restated over such a bundle, and two instances:
   the provider of C12 (Model/Provider.v), and a toy crypto that shows the crypto
   assumptions to be consistent. *)
From ST Require Import Base.Ints Base.Bytes Model.CookiePool Model.CookieOracle Model.CookieSystem
  Model.Provider Proofs.ProviderProofs
  Proofs.CookiePoolProofs Proofs.CookieCodecProofs Proofs.CookieRefine Proofs.CookieOracleProofs Proofs.CookieSystemC12.
From Coq Require Import ZArith List Bool Lia.
Import ListNotations.
Open Scope Z_scope.

Record crypto := {
  k_seal : bytes -> bytes -> bytes -> bytes -> bytes;            (* AES-SIV Seal key nonce plaintext ad *)
  k_open : bytes -> bytes -> bytes -> bytes -> option bytes;     (* AES-SIV Open key nonce ciphertext ad *)
  k_mk : Z -> Z -> nat -> bytes -> bytes -> bytes;               (* the server cookie for (key id, key value, nonce number, C2S, S2C) *)
  k_keyid : bytes -> Z;                                          (* the key identifier a cookie names *)
  k_opencookie : Z -> bytes -> option (bytes * bytes);           (* a cookie opened under a key value *)
  k_cid : bytes -> nat;                                          (* the nonce number of a cookie: its identity *)
  k_L : Z;                                                       (* the length of the server's cookies *)
  k_seal_len : forall k n p a, zlen (k_seal k n p a) = zlen p + 16;
  k_open_seal : forall k n p a, k_open k n (k_seal k n p a) a = Some p;
  k_L4 : k_L mod 4 = 0; k_L24 : 24 <= k_L; k_Lmax : k_L <= MaxCookieLen; k_Lfit : 1 <= max_cookies 32 k_L;
  k_mk_len : forall id v n a b, zlen a = 32 -> zlen b = 32 -> zlen (k_mk id v n a b) = k_L;
  k_cid_mk : forall id v n a b, k_cid (k_mk id v n a b) = n;
  k_kid_mk : forall id v n a b, k_keyid (k_mk id v n a b) = id;
  k_open_mk : forall id v n a b, zlen a = 32 -> zlen b = 32 -> k_opencookie v (k_mk id v n a b) = Some (a, b)
}.

Record provider := {
  p_state : Type;
  p_current : p_state -> Z -> option (skey * p_state);           (* Provider.Current() at a clock reading *)
  p_get : p_state -> Z -> Z -> option skey;                      (* Provider.Get(id) at a clock reading *)
  p_log : p_state -> list skey;                                  (* ghost: the keys handed out so far *)
  p_inv : Z -> p_state -> Prop;                                  (* its invariant, given the latest clock reading *)
  p_cur_ok : forall T p t k p', p_inv T p -> T <= t -> p_current p t = Some (k, p') ->
    p_inv t p' /\ In k (p_log p') /\ incl (p_log p) (p_log p') /\ p_get p' (sk_id k) t = Some k;
  p_get_ok : forall T p id t k, p_inv T p -> p_get p id t = Some k -> sk_id k = id /\ In k (p_log p);
  p_uniq : forall T p x y, p_inv T p -> In x (p_log p) -> In y (p_log p) -> sk_id x = sk_id y -> x = y;
  p_weak : forall T T' p, p_inv T p -> T <= T' -> p_inv T' p
}.

Section World.
Variable K : crypto.
Variable P : provider.

Definition wstate := csys (p_state P).
Definition wstep : wstate -> cop -> option (wstate * cobs) :=
  cstep (p_state P) (p_current P) (p_get P) (k_seal K) (k_open K) (k_mk K) (k_keyid K) (k_opencookie K).
Definition wrun : wstate -> list cop -> option (wstate * list cobs) :=
  crun (p_state P) (p_current P) (p_get P) (k_seal K) (k_open K) (k_mk K) (k_keyid K) (k_opencookie K).
(* reached from a client without data and a provider in order, by well-formed calls *)
Definition wreach : wstate -> Prop :=
  creach (k_seal K) (k_open K) (k_mk K) (k_keyid K) (k_opencookie K) (p_state P) (p_current P) (p_get P) (p_inv P).
Definition walpha : wstate -> sys nat := alpha (p_state P) (k_cid K).

Ltac inst T X :=
  pose proof (T (k_seal K) (k_open K) (k_mk K) (k_keyid K) (k_opencookie K) (p_state P) (p_current P) (p_get P)
           (k_cid K) (k_L K) (k_seal_len K) (k_open_seal K) (k_L4 K) (k_L24 K) (k_Lmax K) (k_Lfit K)
           (k_mk_len K) (k_cid_mk K) (k_kid_mk K) (k_open_mk K) (p_log P) (p_inv P)
           (p_cur_ok P) (p_get_ok P) (p_uniq P) (p_weak P)) as X.
Ltac use T := let X := fresh "X" in inst T X; apply X.

Lemma W_reach_abstract s : wreach s ->
  reachable (fun k : nat => k) (k_L K) (walpha s).
Proof. intros H. inst creach_inv X. exact (proj2 (X s H)). Qed.

Lemma W_step_refines s o s' ob :
  wreach s -> wf_op o -> wstep s o = Some (s', ob) ->
  exists e, walpha s' = sys_step (fun k : nat => k) (k_L K) (walpha s) e /\
            e_skip e = o_skip o /\ e_nosend e = ob_nosend ob /\ e_ok e = ob_intact ob /\
            (e_ke_ok e = true <-> o_ke o <> None).
Proof.
  intros Hr Hwf H. inst creach_inv X. inst cstep_refines Y.
  destruct (Y s o s' ob (proj1 (X s Hr)) Hwf H) as [_ [_ [e [A [B [C [D [E _]]]]]]]].
  exists e. repeat split; try assumption; apply E.
Qed.

Lemma W_no_reuse s : wreach s -> NoDup (cs_sent s).
Proof. use concrete_no_reuse. Qed.

Lemma W_sent_leaves_pool s x : wreach s -> In x (cs_sent s) -> ~ In x (pool (cs_client s)).
Proof. use concrete_sent_leaves_pool. Qed.

Lemma W_pool s o s' ob :
  wreach s -> wf_op o -> wstep s o = Some (s', ob) ->
  let n := length (pool (cs_client s)) in
  let n' := length (pool (cs_client s')) in
  (n' <= 8)%nat /\
  (ob_intact ob = true -> (n <= n')%nat /\ (n = 8%nat -> n' = 8%nat) /\ (n = 0%nat -> n' = 8%nat)) /\
  (ob_intact ob = false -> n <> 0%nat -> n' = (n - 1)%nat) /\
  (n = 0%nat -> o_ke o <> None -> ob_intact ob = false -> n' = 7%nat) /\
  (n = 0%nat -> o_ke o = None -> n' = 0%nat /\ ob_sent ob = None) /\
  (ob_sent ob = None -> cs_sent s' = cs_sent s) /\
  (ob_sent ob <> None -> exists c, cs_sent s' = c :: cs_sent s /\
                                   (pool (cs_client s) = [] \/ exists r, pool (cs_client s) = c :: r)).
Proof. use concrete_pool. Qed.

Lemma W_reply s o s' ob reply cs cur :
  wreach s -> wf_op o -> wstep s o = Some (s', ob) -> ob_reply ob = Some (reply, cs, cur) ->
  exists req, ob_sent ob = Some req /\
    reply_good (k_seal K) (k_keyid K) (k_opencookie K) (p_state P) (p_get P) (k_cid K) (k_L K) s s' o req reply cs cur.
Proof. use concrete_reply. Qed.

Lemma W_request_ok s o s' ob req :
  wreach s -> wf_op o -> wstep s o = Some (s', ob) -> ob_sent ob = Some req ->
  request_ok (level_at (p_state P) s) req = true.
Proof. use model_request_ok. Qed.

Lemma W_reply_ok s o s' ob req reply cs cur known :
  wreach s -> wf_op o -> wstep s o = Some (s', ob) ->
  ob_sent ob = Some req -> ob_reply ob = Some (reply, cs, cur) ->
  (forall x, In x known -> In x (cs_sent s') \/ (k_cid K x < sv_next (cs_server s))%nat) ->
  reply_ok req reply true
    (map (facts_of (k_keyid K) (k_opencookie K) (p_state P) (p_get P) (sv_prov (cs_server s')) (cs_now s')) cs)
    (c2s (cs_client s')) (s2c (cs_client s')) known (sk_id cur) = true.
Proof. use model_reply_ok. Qed.

End World.

(* ---- the provider of C12 ---- *)
Definition c12_provider : provider :=
  {| p_state := Provider.state; p_current := c12_current; p_get := c12_get; p_log := c12_log; p_inv := c12_inv;
     p_cur_ok := c12_cur; p_get_ok := c12_get_spec; p_uniq := c12_uniq; p_weak := c12_weak |}.

(* ---- a toy crypto: the assumptions are consistent ---- *)
Definition toy_seal (k n p a : bytes) : bytes := repeat 0 16 ++ p.
Definition toy_open (k n c a : bytes) : option bytes := Some (skipn 16 c).
Definition toy_mk (id v : Z) (n : nat) (a b : bytes) : bytes :=
  [id; v; Z.of_nat n] ++ a ++ b ++ repeat 0 57.
Definition toy_keyid (c : bytes) : Z := nth 0 c 0.
Definition toy_cid (c : bytes) : nat := Z.to_nat (nth 2 c 0).
Definition toy_opencookie (v : Z) (c : bytes) : option (bytes * bytes) :=
  Some (firstn 32 (skipn 3 c), firstn 32 (skipn 35 c)).

Lemma toy_mk_len id v n a b : zlen a = 32 -> zlen b = 32 -> zlen (toy_mk id v n a b) = 124.
Proof. intros Ha Hb. unfold toy_mk. rewrite !zlen_app, zlen_repeat, Ha, Hb. reflexivity. Qed.

Lemma toy_open_mk id v n a b : zlen a = 32 -> zlen b = 32 -> toy_opencookie v (toy_mk id v n a b) = Some (a, b).
Proof.
  intros Ha Hb. unfold toy_opencookie, toy_mk.
  assert (La : length a = 32%nat) by (unfold zlen in Ha; lia).
  assert (Lb : length b = 32%nat) by (unfold zlen in Hb; lia).
  set (X := a ++ b ++ repeat 0 57).
  change (skipn 3 ([id; v; Z.of_nat n] ++ X)) with X.
  change (skipn 35 ([id; v; Z.of_nat n] ++ X)) with (skipn 32 X).
  unfold X. rewrite firstn_app_exact by exact La. rewrite skipn_app_exact by exact La.
  rewrite firstn_app_exact by exact Lb. reflexivity.
Qed.

Definition toy_crypto : crypto.
Proof.
  refine {| k_seal := toy_seal; k_open := toy_open; k_mk := toy_mk; k_keyid := toy_keyid;
            k_opencookie := toy_opencookie; k_cid := toy_cid; k_L := 124 |}.
  - intros. unfold toy_seal. rewrite zlen_app, zlen_repeat. lia.
  - intros. reflexivity.
  - reflexivity.
  - lia.
  - unfold MaxCookieLen. lia.
  - change (max_cookies 32 124) with 7. lia.
  - exact toy_mk_len.
  - intros. unfold toy_cid, toy_mk. cbn. apply Nat2Z.id.
  - intros. reflexivity.
  - exact toy_open_mk.
Defined.
