From ST Require Import Base.Ints Base.Sorting Model.NtpTime Model.Ftm Proofs.NtpTimeProofs Proofs.UnitsProofs.
From Coq Require Import ZArith List Bool Lia Sorting.Permutation Sorting.Sorted.
Import ListNotations.
Open Scope Z_scope.

Definition bounded (x : Z) : Prop := Z.abs x < 2^62.

(* ---------- midpoint ---------- *)
Ltac Zify.zify_post_hook ::= Z.to_euclidean_division_equations.

Lemma midpoint_exact x y : bounded x -> bounded y -> midpoint x y = x + Z.quot (y - x) 2.
Proof.
  unfold bounded, midpoint, go_div. change (2^62) with 4611686018427387904. intros Hx Hy.
  rewrite (i64_id (y - x)) by (unfold min_i64, max_i64; lia).
  rewrite (i64_id (Z.quot (y - x) 2)) by (unfold min_i64, max_i64; lia).
  apply i64_id. unfold min_i64, max_i64. lia.
Qed.

Lemma midpoint_between x y : bounded x -> bounded y -> x <= y -> x <= midpoint x y <= y.
Proof. intros Hx Hy Hle. rewrite midpoint_exact by assumption. lia. Qed.

Lemma midpoint_same x : bounded x -> midpoint x x = x.
Proof. intros H. pose proof (midpoint_between x x H H (Z.le_refl x)). lia. Qed.

(* ---------- counting correct values among the smallest / largest ---------- *)
Notation tv := (Z * bool)%type (only parsing).

Lemma nbad_app a b : nbad (a ++ b) = (nbad a + nbad b)%nat.
Proof. unfold nbad. rewrite filter_app, app_length. reflexivity. Qed.

Lemma nbad_perm l l' : Permutation l l' -> nbad l = nbad l'.
Proof.
  intros H. unfold nbad. induction H as [|x l l' H IH|x y l|l l' l'' H1 IH1 H2 IH2]; cbn [filter]; try lia.
  - destruct (negb (snd x)); cbn [length]; lia.
  - destruct (negb (snd x)), (negb (snd y)); cbn [length]; lia.
Qed.

Lemma exists_good (l : list tv) : (nbad l < length l)%nat -> exists x, In x l /\ snd x = true.
Proof.
  induction l as [|x l IH]; cbn [length]; [lia|]. unfold nbad; cbn [filter]. intros H.
  destruct (snd x) eqn:E; cbn [negb length] in H.
  - exists x. split; [left; reflexivity|exact E].
  - destruct IH as [y [Hy1 Hy2]]; [unfold nbad; lia|]. exists y. split; [right; exact Hy1|exact Hy2].
Qed.

Lemma sorted_t_nth_le (l : list tv) d i j :
  sorted_by fst l -> (i <= j < length l)%nat -> fst (nth i l d) <= fst (nth j l d).
Proof.
  unfold sorted_by. intros Hs. revert i j.
  induction Hs as [|x r Hs IH Hall]; cbn [length nth]; intros i j Hij; [lia|].
  destruct i, j; try lia.
  - rewrite Forall_forall in Hall. apply Hall. apply nth_In. lia.
  - apply IH. lia.
Qed.

Lemma In_firstn_nth (l : list tv) d k x : In x (firstn k l) -> exists i, (i < k)%nat /\ (i < length l)%nat /\ nth i l d = x.
Proof.
  revert k. induction l as [|y l IH]; intros [|k]; cbn [firstn In length nth]; try tauto.
  intros [->|H]; [exists 0%nat; repeat split; lia|].
  destruct (IH k H) as [i [H1 [H2 H3]]]. exists (S i). repeat split; try lia. exact H3.
Qed.

Lemma In_skipn_nth (l : list tv) d k x : In x (skipn k l) -> exists i, (k <= i < length l)%nat /\ nth i l d = x.
Proof.
  revert k. induction l as [|y l IH]; intros [|k]; cbn [skipn In length]; try tauto.
  - intros [->|H]; [exists 0%nat; split; [lia|reflexivity]|].
    destruct (In_nth _ _ d H) as [i [Hi1 Hi2]]. exists (S i). split; [lia|exact Hi2].
  - intros H. destruct (IH k H) as [i [H1 H2]]. exists (S i). split; [lia|exact H2].
Qed.

Theorem trimmed_bracketed (l : list tv) d f :
  sorted_by fst l -> (nbad l <= f)%nat -> (2 * f < length l)%nat ->
  (exists g, In g l /\ snd g = true /\ fst g <= fst (nth f l d)) /\
  (exists g, In g l /\ snd g = true /\ fst (nth (length l - 1 - f) l d) <= fst g).
Proof.
  intros Hs Hb Hf. split.
  - assert (Hlen : length (firstn (S f) l) = S f) by (rewrite firstn_length; lia).
    assert (Hnb : (nbad (firstn (S f) l) <= nbad l)%nat).
    { rewrite <- (firstn_skipn (S f) l) at 2. rewrite nbad_app. lia. }
    destruct (exists_good (firstn (S f) l)) as [g [Hg1 Hg2]]; [lia|].
    destruct (In_firstn_nth l d _ _ Hg1) as [i [Hi1 [Hi2 Hi3]]].
    exists g. split; [|split]; [| exact Hg2 |].
    + rewrite <- (firstn_skipn (S f) l). apply in_or_app; left; exact Hg1.
    + rewrite <- Hi3. apply sorted_t_nth_le; [exact Hs | lia].
  - set (k := (length l - 1 - f)%nat).
    assert (Hlen : length (skipn k l) = S f) by (rewrite skipn_length; unfold k; lia).
    assert (Hnb : (nbad (skipn k l) <= nbad l)%nat).
    { rewrite <- (firstn_skipn k l) at 2. rewrite nbad_app. lia. }
    destruct (exists_good (skipn k l)) as [g [Hg1 Hg2]]; [lia|].
    destruct (In_skipn_nth l d _ _ Hg1) as [i [Hi1 Hi3]].
    exists g. split; [|split]; [| exact Hg2 |].
    + rewrite <- (firstn_skipn k l). apply in_or_app; right; exact Hg1.
    + rewrite <- Hi3. apply sorted_t_nth_le; [exact Hs | unfold k in *; lia].
Qed.

Lemma map_nth_fst (l : list tv) i : (i < length l)%nat -> nth i (map fst l) 0 = fst (nth i l (0, true)).
Proof. intros H. change 0 with (fst (0, true)) at 1. apply map_nth. Qed.

Lemma all_bounded_nth (l : list Z) i : (forall x, In x l -> bounded x) -> (i < length l)%nat -> bounded (nth i l 0).
Proof. intros H Hi. apply H. apply nth_In. exact Hi. Qed.

(* ---------- the fault-tolerant midpoint is bracketed by correct values ---------- *)
Theorem ftm_contained (l : list tv) :
  l <> [] -> (nbad l <= (length l - 1) / 3)%nat -> (forall x, In x l -> bounded (fst x)) ->
  exists res lo hi, ftm (map fst l) = Some res /\ In (lo, true) l /\ In (hi, true) l /\ lo <= res <= hi.
Proof.
  intros Hne Hb Hbd.
  assert (Hn : (1 <= length l)%nat) by (destruct l; [congruence|cbn [length]; lia]).
  set (s := isort fst l).
  assert (Hp : Permutation l s) by apply isort_perm.
  assert (Hs : sorted_by fst s) by apply isort_sorted.
  assert (Hls : length s = length l) by apply isort_length.
  assert (Hms : zsort (map fst l) = map fst s) by (symmetry; apply isort_map).
  set (f := ((length l - 1) / 3)%nat).
  assert (Hf : (2 * f < length l)%nat).
  { unfold f. pose proof (Nat.div_mod (length l - 1) 3 ltac:(discriminate)) as Hdm. generalize dependent ((length l - 1) / 3)%nat. generalize dependent ((length l - 1) mod 3)%nat. intros. pose proof (Nat.mod_upper_bound (length l - 1) 3 ltac:(discriminate)). lia. }
  destruct (trimmed_bracketed s (0, true) f Hs) as [[g1 [G1 [G2 G3]]] [g2 [G4 [G5 G6]]]].
  { rewrite <- (nbad_perm _ _ Hp). exact Hb. }
  { exact (eq_ind_r (fun n => (2 * f < n)%nat) Hf Hls). }
  exists (ftm_sorted (zsort (map fst l))), (fst g1), (fst g2).
  split; [destruct l; [congruence|reflexivity]|].
  split; [apply (Permutation_in _ (Permutation_sym Hp)); destruct g1 as [v b]; cbn in *; subst b; exact G1|].
  split; [apply (Permutation_in _ (Permutation_sym Hp)); destruct g2 as [v b]; cbn in *; subst b; exact G4|].
  unfold ftm_sorted. rewrite Hms, map_length, Hls. fold f.
  rewrite !map_nth_fst by lia.
  assert (Hbs : forall x, In x s -> bounded (fst x)) by (intros x Hx; apply Hbd; apply (Permutation_in _ (Permutation_sym Hp)); exact Hx).
  assert (B1 : bounded (fst (nth f s (0, true)))) by (apply Hbs, nth_In; lia).
  assert (B2 : bounded (fst (nth (length l - 1 - f) s (0, true)))) by (apply Hbs, nth_In; lia).
  assert (Hle : fst (nth f s (0, true)) <= fst (nth (length l - 1 - f) s (0, true))) by (apply sorted_t_nth_le; [exact Hs|lia]).
  pose proof (midpoint_between _ _ B1 B2 Hle) as Hm.
  rewrite Hls in G6. lia.
Qed.

(* ---------- min / max ---------- *)
Lemma lmin_le l x : In x l -> lmin l <= x.
Proof.
  unfold lmin. generalize (hd 0 l). induction l as [|y r IH]; intros d H; [destruct H|].
  cbn [fold_right]. destruct H as [->|H]; [lia|]. specialize (IH d H). lia.
Qed.
Lemma lmax_ge l x : In x l -> x <= lmax l.
Proof.
  unfold lmax. generalize (hd 0 l). induction l as [|y r IH]; intros d H; [destruct H|].
  cbn [fold_right]. destruct H as [->|H]; [lia|]. specialize (IH d H). lia.
Qed.

Lemma In_goods l v : In (v, true) l -> In v (goods l).
Proof.
  intros H. unfold goods. apply in_map_iff. exists (v, true). split; [reflexivity|].
  apply filter_In. split; [exact H|reflexivity].
Qed.

Theorem ftm_oracle (l : list tv) res : ftm (map fst l) = Some res -> C02_ftm_ok l res = true.
Proof.
  intros Hr. unfold C02_ftm_ok.
  destruct (Nat.leb 1 (length l) && Nat.leb (nbad l) ((length l - 1) / 3) && forallb (fun x => Z.abs (fst x) <? 2 ^ 62) l) eqn:E; [|reflexivity].
  apply andb_prop in E. destruct E as [E E3]. apply andb_prop in E. destruct E as [E1 E2].
  apply Nat.leb_le in E1, E2.
  assert (Hne : l <> []) by (destruct l; [cbn in E1; lia|discriminate]).
  assert (Hbd : forall x, In x l -> bounded (fst x)).
  { intros x Hx. rewrite forallb_forall in E3. specialize (E3 x Hx). unfold bounded. lia. }
  destruct (ftm_contained l Hne E2 Hbd) as [r [lo [hi [H1 [H2 [H3 H4]]]]]].
  rewrite Hr in H1. inversion H1; subst r.
  pose proof (lmin_le _ _ (In_goods _ _ H2)). pose proof (lmax_ge _ _ (In_goods _ _ H3)). lia.
Qed.

(* ---------- median ---------- *)
Theorem median_contained (l : list Z) :
  l <> [] -> (forall x, In x l -> bounded x) ->
  exists res, median l = Some res /\ lmin l <= res <= lmax l.
Proof.
  intros Hne Hbd.
  assert (Hn : (1 <= length l)%nat) by (destruct l; [congruence|cbn [length]; lia]).
  exists (median_sorted (zsort l)). split; [destruct l; [congruence|reflexivity]|].
  set (s := zsort l).
  assert (Hp : Permutation l s) by apply isort_perm.
  assert (Hs : zsorted s) by apply isort_sorted.
  assert (Hls : length s = length l) by apply isort_length.
  assert (Hin : forall i, (i < length l)%nat -> In (nth i s 0) l).
  { intros i Hi. apply (Permutation_in _ (Permutation_sym Hp)). apply nth_In. lia. }
  unfold median_sorted. rewrite Hls.
  pose proof (Nat.div_mod (length l) 2) as Hdm.
  destruct (Nat.eqb (length l mod 2) 0) eqn:E.
  - apply Nat.eqb_eq in E.
    assert (H1 : In (nth (length l / 2 - 1) s 0) l) by (apply Hin; lia).
    assert (H2 : In (nth (length l / 2) s 0) l) by (apply Hin; lia).
    assert (Hle : nth (length l / 2 - 1) s 0 <= nth (length l / 2) s 0) by (apply sorted_nth_le; [exact Hs|lia]).
    pose proof (midpoint_between _ _ (Hbd _ H1) (Hbd _ H2) Hle).
    pose proof (lmin_le _ _ H1). pose proof (lmax_ge _ _ H2). lia.
  - apply Nat.eqb_neq in E.
    assert (H1 : In (nth (length l / 2) s 0) l) by (apply Hin; lia).
    pose proof (lmin_le _ _ H1). pose proof (lmax_ge _ _ H1). lia.
Qed.

Theorem median_oracle l res : median l = Some res -> C02_median_ok l res = true.
Proof.
  intros Hr. unfold C02_median_ok.
  destruct (Nat.leb 1 (length l) && forallb (fun x => Z.abs x <? 2 ^ 62) l) eqn:E; [|reflexivity].
  apply andb_prop in E. destruct E as [E1 E3]. apply Nat.leb_le in E1.
  assert (Hne : l <> []) by (destruct l; [cbn in E1; lia|discriminate]).
  assert (Hbd : forall x, In x l -> bounded x).
  { intros x Hx. rewrite forallb_forall in E3. specialize (E3 x Hx). unfold bounded. lia. }
  destruct (median_contained l Hne Hbd) as [r [H1 H2]]. rewrite Hr in H1. inversion H1; subst r. lia.
Qed.

(* ---------- order independence; only reorders ---------- *)
Theorem perm_invariant l l' : Permutation l l' -> ftm l = ftm l' /\ median l = median l'.
Proof.
  intros Hp. pose proof (zsort_perm_invariant _ _ Hp) as Hs.
  destruct l as [|x r], l' as [|y r'].
  - split; reflexivity.
  - apply Permutation_nil in Hp. discriminate.
  - apply Permutation_sym, Permutation_nil in Hp. discriminate.
  - unfold ftm, median. rewrite Hs. split; reflexivity.
Qed.

Theorem only_reorders l : Permutation l (zsort l) /\ zsorted (zsort l).
Proof. split; [apply isort_perm|apply isort_sorted]. Qed.

(* measurements: Proofs/FtmMeasProofs.v *)

Example ftm_example : ftm [10; -5; 1000000; 7] = Some 8 /\ C02_ftm_ok [(10, true); (-5, true); (1000000, false); (7, true)] 8 = true.
Proof. vm_compute. split; reflexivity. Qed.
