(* Facts about the configuration path (Model/SyncConfig.v): the model satisfies the configuration oracle,
   the all-omitted configuration gives the documented admissible defaults, NaN settings end in a
   configuration that sync.Run refuses, an omitted clock_drift is clocks.UnknownDrift. *)
From Coq Require Import ZArith List Bool Lia Reals Lra Psatz.
From ST Require Import Base.Ints Base.F64 Model.NtpTime Model.Units Model.Sync Model.SyncConfig Proofs.SyncProofs Proofs.SyncDriftProofs.
From Flocq Require Import Core.Core Relative IEEE754.BinarySingleNaN.
Open Scope Z_scope.

#[local] Instance Vexp2 : Valid_exp fexp := fexp_correct prec emax Hprec.
#[local] Instance Vrnd2 : Valid_rnd (round_mode mode_NE) := valid_rnd_round_mode mode_NE.

Lemma trunc_err r : (Rabs (IZR (Ztrunc r) - r) < 1)%R.
Proof.
  destruct (Rle_or_lt 0 r) as [H|H].
  - rewrite Ztrunc_floor by exact H. pose proof (Zfloor_lb r). pose proof (Zfloor_ub r). apply Rabs_def1; lra.
  - rewrite Ztrunc_ceil by lra. pose proof (Zceil_ub r). pose proof (Zceil_lb r). apply Rabs_def1; lra.
Qed.

Lemma trunc_small r : (Rabs r < 1)%R -> Ztrunc r = 0.
Proof.
  intros H. apply Rabs_def2 in H. destruct (Rle_or_lt 0 r) as [H0|H0].
  - rewrite Ztrunc_floor by exact H0. apply Zfloor_imp. simpl. lra.
  - rewrite Ztrunc_ceil by lra. apply Zceil_imp. simpl. lra.
Qed.

Lemma format_2m1022 : generic_format radix2 fexp (bpow radix2 (-1022)).
Proof. apply generic_format_bpow. unfold SpecFloat.fexp, SpecFloat.emin, prec, emax. lia. Qed.

Lemma RN_opp x : RN (- x) = (- RN x)%R.
Proof. unfold RN. apply round_NE_opp. Qed.

(* one rounding to nearest and one truncation *)
Lemma trunc_rn_close V : (Rabs V < bpow radix2 62)%R ->
  (Rabs (IZR (Ztrunc (RN V)) - V) <= 1 + bpow radix2 (-52) * Rabs V)%R /\ (Ztrunc (RN V) = 0 -> (Rabs V < 1)%R).
Proof.
  intros HV. split.
  - destruct (Rle_or_lt (bpow radix2 (-1022)) (Rabs V)) as [Hn|Hs].
    + destruct (RN_rel V Hn) as [e [He E]].
      pose proof (trunc_err (RN V)) as T. rewrite E in *.
      assert (Rabs (V * (1 + e) - V) <= u * Rabs V)%R.
      { replace (V * (1 + e) - V)%R with (V * e)%R by ring. rewrite Rabs_mult. pose proof (Rabs_pos V). nra. }
      assert (U2 : (u * 2 = bpow radix2 (-52))%R) by (rewrite u_val; simpl; lra).
      pose proof (Rabs_pos V).
      replace (IZR (Ztrunc (V * (1 + e))) - V)%R with ((IZR (Ztrunc (V * (1 + e))) - V * (1 + e)) + (V * (1 + e) - V))%R by ring.
      eapply Rle_trans; [apply Rabs_triang|]. rewrite <- U2. pose proof u_range. nra.
    + assert (Rabs (RN V) <= bpow radix2 (-1022))%R.
      { apply abs_round_le_generic; auto with typeclass_instances; [apply format_2m1022|lra]. }
      assert (bpow radix2 (-1022) < 1)%R by (change 1%R with (bpow radix2 0); apply bpow_lt; lia).
      rewrite trunc_small by lra. pose proof (Rabs_pos V). pose proof (bpow_ge_0 radix2 (-52)).
      replace (0 - V)%R with (- V)%R by ring. rewrite Rabs_Ropp. nra.
  - intros Z0. destruct (Rlt_or_le (Rabs V) 1) as [L|G]; [exact L|exfalso].
    destruct (Rle_or_lt 0 V) as [P|N].
    + rewrite Rabs_pos_eq in G by exact P.
      assert (1 <= RN V)%R by (rewrite <- RN_1; apply RN_le; exact G).
      pose proof (Ztrunc_le _ _ H) as T. rewrite Ztrunc_IZR in T. lia.
    + rewrite Rabs_left in G by exact N.
      assert (RN V <= -1)%R.
      { replace V with (- - V)%R by ring. rewrite RN_opp. assert (1 <= RN (- V))%R by (rewrite <- RN_1; apply RN_le; lra). lra. }
      pose proof (Ztrunc_le _ _ H) as T. rewrite Ztrunc_IZR in T. lia.
Qed.

Lemma IZR_pow2 n : 0 <= n -> IZR (2 ^ n) = bpow radix2 n.
Proof. intros H. exact (IZR_Zpower radix2 n H). Qed.

Lemma bpow_split e : (bpow radix2 e * bpow radix2 (Z.max 0 (- e)) = bpow radix2 (Z.max 0 e))%R.
Proof. rewrite <- bpow_plus. f_equal. lia. Qed.

(* seconds -> nanoseconds (timemath.Duration): within 1 ns + 2^-52 relative of x * 10^9, and 0 only below 1 ns *)
Lemma dur_of_seconds_spec x : nanos_close x (dur_of_seconds x) = true /\ (dur_of_seconds x = 0 -> is_finite x = true -> sub_ns x = true).
Proof.
  destruct x as [s|s| |s m e B].
  - split; [destruct s; vm_compute; reflexivity|intros _ _; reflexivity].
  - split; [reflexivity|discriminate].
  - split; [reflexivity|discriminate].
  - set (x := B754_finite s m e B).
    set (sm := if s then Z.neg m else Z.pos m).
    set (j := Z.max 0 e). set (k := Z.max 0 (- e)).
    assert (Sc : scaled x = Some (sm * 1000000000 * 2 ^ j, 2 ^ k)) by reflexivity.
    set (v := sm * 1000000000 * 2 ^ j) in *. set (q := 2 ^ k) in *.
    assert (Hj : 0 <= j) by (unfold j; lia). assert (Hk : 0 <= k) by (unfold k; lia).
    assert (Bx : B2R x = (IZR sm * bpow radix2 e)%R).
    { unfold x, sm. cbn. unfold F2R. cbn. destruct s; reflexivity. }
    set (V := (B2R x * 1000000000)%R).
    assert (Rq : IZR q = bpow radix2 k) by (unfold q; apply IZR_pow2; exact Hk).
    assert (Rv : IZR v = (V * IZR q)%R).
    { unfold v, V. rewrite !mult_IZR, (IZR_pow2 j Hj), Rq, Bx.
      pose proof (bpow_split e) as S. fold j k in S. rewrite <- S. ring. }
    assert (Qp : (0 < IZR q)%R) by (rewrite Rq; apply bpow_gt_0).
    destruct (f_of_int_exact 1000000000) as [V9 F9]; [lia|].
    assert (Main : (Rabs V < bpow radix2 62)%R ->
                   dur_of_seconds x = Ztrunc (RN V)).
    { intros HV. unfold dur_of_seconds.
      destruct (fmul_val x (f_of_int 1000000000)) as [E1 E2]; [reflexivity|exact F9| |].
      { rewrite V9. fold V. apply Rle_lt_trans with (bpow radix2 62); [|apply bpow_lt; reflexivity].
        apply abs_round_le_generic; auto with typeclass_instances; [apply format_pow2; lia|lra]. }
      rewrite V9 in E1. fold V in E1.
      rewrite f_to_i64_val; [rewrite E1; reflexivity|exact E2|].
      rewrite E1. apply Rle_lt_trans with (bpow radix2 62); [|change (IZR two63) with (bpow radix2 63); apply bpow_lt; reflexivity].
      apply abs_round_le_generic; auto with typeclass_instances; [apply format_pow2; lia|lra]. }
    assert (Small : Z.abs v < 2^62 * q -> (Rabs V < bpow radix2 62)%R).
    { intros H. apply IZR_lt in H. rewrite abs_IZR, mult_IZR, Rv, Rabs_mult, (Rabs_pos_eq (IZR q)) in H by lra.
      change (IZR (2^62)) with (bpow radix2 62) in H. nra. }
    split.
    + unfold nanos_close. rewrite Sc. destruct (Z.abs v <? 2 ^ 62 * q) eqn:C; [|reflexivity].
      apply Z.ltb_lt in C. pose proof (Small C) as HV. rewrite (Main HV).
      destruct (trunc_rn_close V HV) as [T _]. set (n := Ztrunc (RN V)) in *.
      apply Z.leb_le. apply le_IZR.
      rewrite plus_IZR, !mult_IZR, !abs_IZR, minus_IZR, mult_IZR, Rv.
      change (IZR (2^52)) with (bpow radix2 52).
      replace (IZR n * IZR q - V * IZR q)%R with ((IZR n - V) * IZR q)%R by ring.
      rewrite !Rabs_mult, (Rabs_pos_eq (IZR q)) by lra.
      assert (P : (bpow radix2 (-52) * bpow radix2 52 = 1)%R) by (rewrite <- bpow_plus; reflexivity).
      pose proof (Rabs_pos V). pose proof (bpow_gt_0 radix2 52). pose proof (bpow_gt_0 radix2 (-52)).
      apply Rle_trans with ((1 + bpow radix2 (-52) * Rabs V) * IZR q * bpow radix2 52)%R.
      * apply Rmult_le_compat_r; [lra|]. apply Rmult_le_compat_r; [lra|exact T].
      * replace ((1 + bpow radix2 (-52) * Rabs V) * IZR q * bpow radix2 52)%R
          with (IZR q * bpow radix2 52 + Rabs V * IZR q * (bpow radix2 (-52) * bpow radix2 52))%R by ring.
        rewrite P. lra.
    + intros Z0 _. unfold sub_ns. rewrite Sc. apply Z.ltb_lt.
      destruct (Z_lt_le_dec (Z.abs v) (2^62 * q)) as [C|C].
      * pose proof (Small C) as HV. rewrite (Main HV) in Z0.
        destruct (trunc_rn_close V HV) as [_ T]. specialize (T Z0).
        apply lt_IZR. rewrite abs_IZR, Rv, Rabs_mult, (Rabs_pos_eq (IZR q)) by lra. nra.
      * (* the value is at least 2^62 ns: the conversion cannot give 0 *)
        exfalso. revert Z0.
        assert (HV : (bpow radix2 62 <= Rabs V)%R).
        { apply IZR_le in C. rewrite abs_IZR, mult_IZR, Rv, Rabs_mult, (Rabs_pos_eq (IZR q)) in C by lra.
          change (IZR (2^62)) with (bpow radix2 62) in C. nra. }
        assert (HR : (bpow radix2 62 <= Rabs (RN V))%R).
        { destruct (Rle_or_lt 0 V) as [P|N].
          - rewrite Rabs_pos_eq in HV by exact P.
            assert (bpow radix2 62 <= RN V)%R by (rewrite <- (RN_id_format (bpow radix2 62)) by (apply format_pow2; lia); apply RN_le; exact HV).
            rewrite Rabs_pos_eq; [exact H|]. pose proof (bpow_gt_0 radix2 62). lra.
          - rewrite Rabs_left in HV by exact N.
            assert (bpow radix2 62 <= RN (- V))%R by (rewrite <- (RN_id_format (bpow radix2 62)) by (apply format_pow2; lia); apply RN_le; exact HV).
            rewrite RN_opp in H. pose proof (bpow_gt_0 radix2 62). rewrite Rabs_left; lra. }
        unfold dur_of_seconds, fmul.
        generalize (Bmult_correct prec emax Hprec Hmax mode_NE x (f_of_int 1000000000)).
        rewrite V9. fold V. fold (RN V).
        set (y := Bmult mode_NE x (f_of_int 1000000000)). clearbody y.
        case Rlt_bool_spec; intros Hov.
        -- intros [E1 [E2 _]]. unfold f_to_i64, fis_finite. rewrite E2, F9. change (is_finite x) with true. cbn [andb].
          assert (ET : Btrunc y = Ztrunc (RN V)).
          { apply eq_IZR. rewrite (Btrunc_correct prec emax Hmax), E1. apply round_FIX_IZR. }
          rewrite ET.
          assert (NZ : Ztrunc (RN V) <> 0).
          { intros Z0. pose proof (trunc_err (RN V)) as T. rewrite Z0 in T.
            replace (0 - RN V)%R with (- RN V)%R in T by ring. rewrite Rabs_Ropp in T.
            assert (1 < bpow radix2 62)%R by (change 1%R with (bpow radix2 0); apply bpow_lt; lia). lra. }
          destruct (in_i64b (Ztrunc (RN V))); [exact NZ|unfold min_i64; lia].
        -- intros E. unfold f_to_i64, fis_finite.
          assert (is_finite y = false).
          { change (binary_overflow prec emax mode_NE (xorb (Bsign x) (Bsign (f_of_int 1000000000)))) with (SpecFloat.S754_infinity (xorb (Bsign x) (Bsign (f_of_int 1000000000)))) in E.
            destruct y as [sy|sy| |sy my ey By]; try reflexivity; discriminate E. }
          rewrite H. unfold min_i64. lia.
Qed.

Lemma dur_or_ok x dflt : dur_setting_ok x dflt (dur_or x dflt) = true.
Proof.
  destruct x as [x|]; [|vm_compute; apply Z.eqb_refl].
  unfold dur_setting_ok, dur_or, setting.
  destruct (dur_of_seconds_spec x) as [C Z0].
  destruct (dur_of_seconds x =? 0) eqn:E.
  - apply Z.eqb_eq in E. rewrite Z.eqb_refl. cbn [andb].
    destruct x as [s|s| |s m e B].
    + rewrite (Z0 E eq_refl). reflexivity.
    + destruct s; vm_compute in E; discriminate E.
    + vm_compute in E. discriminate E.
    + rewrite (Z0 E eq_refl). reflexivity.
  - rewrite C, E. apply orb_true_r.
Qed.

(* the drift setting: the repaired clockDrift satisfies the drift clause of the configuration oracle *)
Lemma fge_feq_fgt (v : f64) : fge v fzero = true -> feq v fzero = false -> fgt v fzero = true.
Proof. unfold fge, feq, fgt. destruct (fcmp v fzero) as [[| |]|]; try discriminate; reflexivity. Qed.

Lemma scaled_pos (v : f64) : fgt v fzero = true -> is_finite v = true ->
  exists w q, scaled v = Some (w, q) /\ 0 < w /\ 0 < q.
Proof.
  destruct v as [s|s| |s m e B]; try discriminate.
  intros H _. destruct s; [cbn in H; discriminate H|].
    eexists _, _. split; [reflexivity|]. cbn [fst snd].
    split; [|apply Z.pow_pos_nonneg; lia].
    apply Z.mul_pos_pos; [lia|apply Z.pow_pos_nonneg; lia].
Qed.

Lemma drift_model_ok x :
  match clock_drift x with
  | None => drift_setting_ok (setting x) true 0 = true
  | Some d => drift_setting_ok (setting x) false d = true
  end.
Proof.
  unfold clock_drift, drift_setting_ok. set (v := setting x). cbv zeta.
  destruct (fge v fzero) eqn:G; cbn [negb orb]; [|reflexivity].
  destruct (feq v fzero) eqn:E; cbn [negb andb].
  - (* +-0 *)
    assert (dur_of_seconds v = 0) as ->.
    { destruct v as [s|s| |s m e B].
      - destruct s; vm_compute; reflexivity.
      - destruct s; vm_compute in E; discriminate E.
      - vm_compute in E. discriminate E.
      - unfold feq, fcmp in E. cbn in E. destruct s; discriminate E. }
    reflexivity.
  - destruct (dur_of_seconds_spec v) as [C Z0].
    destruct (dur_of_seconds v <=? 0) eqn:L; [|rewrite C; apply Z.leb_gt in L; apply Z.ltb_lt in L; rewrite L; reflexivity].
    apply Z.leb_le in L. pose proof (fge_feq_fgt v G E) as P.
    destruct (huge_ns v) eqn:H; [apply orb_true_r|]. rewrite orb_false_r.
    assert (F : is_finite v = true).
    { destruct v as [s|s| |s m e B]; try reflexivity; unfold huge_ns in H; cbn in H; discriminate H. }
    destruct (scaled_pos v P F) as [w [q [S [Wp Qp]]]].
    apply Z0; [|exact F].
    unfold huge_ns in H. unfold nanos_close in C. rewrite S in H, C.
    apply Z.leb_gt in H. rewrite (proj2 (Z.ltb_lt _ _) H) in C. apply Z.leb_le in C.
    set (d := dur_of_seconds v) in *.
    destruct (Z.eq_dec d 0) as [D0|D0]; [exact D0|exfalso].
    assert (d * q <= - q) by nia.
    rewrite Z.abs_neq in C by lia. rewrite (Z.abs_eq w) in C by lia. change (2^52) with 4503599627370496 in C. lia.
Qed.

Lemma config_oracle drift ref peer cutoff timeout interval :
  let cfg := sync_config ref peer cutoff timeout interval in
  match clock_drift drift with
  | None => C01_config_ok drift ref peer cutoff timeout interval true 0 fzero fzero 0 0 0 = true
  | Some d => C01_config_ok drift ref peer cutoff timeout interval false d (c_ref cfg) (c_peer cfg)
                            (c_cutoff cfg) (c_timeout cfg) (c_interval cfg) = true
  end.
Proof.
  cbv zeta. unfold C01_config_ok. pose proof (drift_model_ok drift) as D.
  destruct (clock_drift drift) as [d|]; rewrite D; [|reflexivity].
  cbn [orb andb sync_config c_ref c_peer c_cutoff c_timeout c_interval]. unfold factor_or, same_f.
  rewrite !Z.eqb_refl, !dur_or_ok. reflexivity.
Qed.

(* the clause the sub-nanosecond drift violated: a drift setting that is accepted is 0 / omitted (the documented
   unknown drift) or arrives as a positive number of ns per s - never as the 0 that stands for "unknown" *)
Lemma accepted_drift_positive x d : clock_drift x = Some d ->
  (feq (setting x) fzero = true /\ d = 0) \/ (fgt (setting x) fzero = true /\ 0 < d).
Proof.
  unfold clock_drift. cbv zeta. set (v := setting x).
  destruct (fge v fzero) eqn:G; cbn [negb orb]; [|discriminate].
  destruct (feq v fzero) eqn:E; cbn [negb andb].
  - intros H. inversion H. left. split; [reflexivity|].
    pose proof (drift_model_ok x) as D. unfold clock_drift in D. cbv zeta in D. fold v in D.
    rewrite G, E in D. cbn [negb orb andb] in D. unfold drift_setting_ok in D. rewrite G, E in D. cbn in D.
    apply Z.eqb_eq in D. exact D.
  - destruct (dur_of_seconds v <=? 0) eqn:L; [discriminate|]. intros H. inversion H. subst d.
    right. split; [apply fge_feq_fgt; assumption|apply Z.leb_gt in L; exact L].
Qed.

(* the reviewer's setting: clock_drift = 5e-10 (0.5 ns/s) is refused; NaN is refused *)
Lemma sub_ns_drift_refused :
  clock_drift (Some (f_of_bits 4467902934002620053)) = None /\ clock_drift (Some (f_of_bits 9221120237041090560)) = None.
Proof. vm_compute. split; reflexivity. Qed.

(* nothing configured: the documented defaults 1.25 / 2.5 / 50 us / 500 ms / 1 s, which sync.Run accepts;
   the drift is clocks.UnknownDrift = 0 *)
Lemma config_defaults :
  sync_config None None None None None = mkcfg default_ref default_peer 50000 500000000 1000000000 /\
  inadmissible (sync_config None None None None None) = false /\ clock_drift None = Some 0.
Proof. vm_compute. repeat split; reflexivity. Qed.

Lemma feq_nan_l (x y : f64) : fis_nan x = true -> feq x y = false.
Proof. destruct x; try discriminate. reflexivity. Qed.

(* a NaN factor in the configuration file reaches sync.Run as NaN and is refused there *)
Lemma config_nan_factor ref peer cutoff timeout interval :
  fis_nan (setting ref) = true \/ fis_nan (setting peer) = true ->
  inadmissible (sync_config ref peer cutoff timeout interval) = true.
Proof.
  intros H. apply nan_inadmissible. cbn [sync_config c_ref c_peer]. unfold factor_or.
  destruct H as [H|H]; [left|right]; rewrite (feq_nan_l _ _ H); exact H.
Qed.

Lemma dur_of_seconds_nan (x : f64) : fis_nan x = true -> dur_of_seconds x = min_i64.
Proof. destruct x; try discriminate. intros _. vm_compute. reflexivity. Qed.

(* a NaN interval or timeout becomes MinInt64 ns and is refused by sync.Run as well *)
Lemma config_nan_duration ref peer cutoff timeout interval :
  fis_nan (setting interval) = true \/ fis_nan (setting timeout) = true ->
  inadmissible (sync_config ref peer cutoff timeout interval) = true.
Proof.
  intros H. unfold inadmissible. cbn [sync_config c_interval c_timeout]. unfold dur_or.
  destruct H as [H|H]; rewrite (dur_of_seconds_nan _ H); cbn [Z.eqb min_i64].
  - replace (min_i64 <=? 0) with true by reflexivity. rewrite !orb_true_r. reflexivity.
  - replace (min_i64 <? 0) with true by reflexivity. rewrite !orb_true_r. reflexivity.
Qed.

(* an omitted (or zero) clock_drift is clocks.UnknownDrift: SystemClock.Drift reports MaxInt64 for every interval,
   both caps exceed every int64 and no correction is ever clamped - the bound of C01 is void by configuration *)
Lemma config_unknown_drift d : clock_drift None = Some 0 /\ sysclk_drift 0 d = max_i64.
Proof. split; [vm_compute; reflexivity|apply unknown_drift]. Qed.

Lemma config_nan_refused ref peer cutoff timeout interval :
  fis_nan (setting ref) = true \/ fis_nan (setting peer) = true \/ fis_nan (setting interval) = true \/ fis_nan (setting timeout) = true ->
  inadmissible (sync_config ref peer cutoff timeout interval) = true.
Proof.
  intros [H|[H|[H|H]]];
    [apply config_nan_factor; left; exact H|apply config_nan_factor; right; exact H|
     apply config_nan_duration; left; exact H|apply config_nan_duration; right; exact H].
Qed.
