(* Facts about the configuration path (Model/SyncConfig.v): the model satisfies the configuration oracle,
   the all-omitted configuration gives the documented admissible defaults, NaN settings end in a
   configuration that sync.Run refuses, an omitted clock_drift is clocks.UnknownDrift. *)
From Coq Require Import ZArith List Bool Lia Reals.
From ST Require Import Base.Ints Base.F64 Model.NtpTime Model.Units Model.Sync Model.SyncConfig Proofs.SyncProofs.
From Flocq Require Import Core.Core IEEE754.BinarySingleNaN.
Open Scope Z_scope.

Lemma config_oracle drift ref peer cutoff timeout interval :
  let cfg := sync_config ref peer cutoff timeout interval in
  match clock_drift drift with
  | None => C01_config_ok drift ref peer cutoff timeout interval true 0 fzero fzero 0 0 0 = true
  | Some d => C01_config_ok drift ref peer cutoff timeout interval false d (c_ref cfg) (c_peer cfg)
                            (c_cutoff cfg) (c_timeout cfg) (c_interval cfg) = true
  end.
Proof.
  cbv zeta. unfold clock_drift, C01_config_ok.
  destruct (flt (setting drift) fzero) eqn:E; [reflexivity|].
  cbn [Bool.eqb orb andb sync_config c_ref c_peer c_cutoff c_timeout c_interval]. unfold factor_or, same_f.
  rewrite !Z.eqb_refl. cbn [andb].
  assert (A : match drift with None => dur_of_seconds (setting drift) =? 0 | Some _ => true end = true).
  { destruct drift; [reflexivity|]. vm_compute. reflexivity. }
  rewrite A. cbn [andb].
  assert (B : forall dflt, dur_or None dflt = dflt) by (intros; vm_compute; reflexivity).
  destruct cutoff, timeout, interval; rewrite ?B, ?Z.eqb_refl; reflexivity.
Qed.

(* nothing configured: the documented defaults 1.25 / 2.5 / 50 us / 500 ms / 1 s, which sync.Run accepts;
   the drift is clocks.UnknownDrift = 0 *)
Lemma config_defaults :
  sync_config None None None None None = mkcfg default_ref default_peer 50000 500000000 1000000000 /\
  inadmissible (sync_config None None None None None) = false /\ clock_drift None = Some 0.
Proof. vm_compute. repeat split; reflexivity. Qed.

Lemma feq_nan_l (x y : f64) : fis_nan x = true -> feq x y = false.
Proof. destruct x; try discriminate. reflexivity. Qed.

(* a NaN factor in the configuration file reaches sync.Run as NaN and is refused there *)
Lemma config_nan_factor ref peer cutoff timeout interval :
  fis_nan (setting ref) = true \/ fis_nan (setting peer) = true ->
  inadmissible (sync_config ref peer cutoff timeout interval) = true.
Proof.
  intros H. apply nan_inadmissible. cbn [sync_config c_ref c_peer]. unfold factor_or.
  destruct H as [H|H]; [left|right]; rewrite (feq_nan_l _ _ H); exact H.
Qed.

Lemma dur_of_seconds_nan (x : f64) : fis_nan x = true -> dur_of_seconds x = min_i64.
Proof. destruct x; try discriminate. intros _. vm_compute. reflexivity. Qed.

(* a NaN interval or timeout becomes MinInt64 ns and is refused by sync.Run as well *)
Lemma config_nan_duration ref peer cutoff timeout interval :
  fis_nan (setting interval) = true \/ fis_nan (setting timeout) = true ->
  inadmissible (sync_config ref peer cutoff timeout interval) = true.
Proof.
  intros H. unfold inadmissible. cbn [sync_config c_interval c_timeout]. unfold dur_or.
  destruct H as [H|H]; rewrite (dur_of_seconds_nan _ H); cbn [Z.eqb min_i64].
  - replace (min_i64 <=? 0) with true by reflexivity. rewrite !orb_true_r. reflexivity.
  - replace (min_i64 <? 0) with true by reflexivity. rewrite !orb_true_r. reflexivity.
Qed.

(* an omitted (or zero) clock_drift is clocks.UnknownDrift: SystemClock.Drift reports MaxInt64 for every interval,
   both caps exceed every int64 and no correction is ever clamped - the bound of C01 is void by configuration *)
Lemma config_unknown_drift d : clock_drift None = Some 0 /\ sysclk_drift 0 d = max_i64.
Proof. split; [vm_compute; reflexivity|apply unknown_drift]. Qed.

Lemma config_nan_refused ref peer cutoff timeout interval :
  fis_nan (setting ref) = true \/ fis_nan (setting peer) = true \/ fis_nan (setting interval) = true \/ fis_nan (setting timeout) = true ->
  inadmissible (sync_config ref peer cutoff timeout interval) = true.
Proof.
  intros [H|[H|[H|H]]];
    [apply config_nan_factor; left; exact H|apply config_nan_factor; right; exact H|
     apply config_nan_duration; left; exact H|apply config_nan_duration; right; exact H].
Qed.
