(* Proofs about Model/ServerDecision.v (property C09). *)
From ST Require Import Base.Ints Model.ServerDecision.
From ST Require Base.Bytes.
From Coq Require Import ZArith List Bool Lia.
Import ListNotations.
Open Scope Z_scope.

Definition bytes_ok (b : list Z) : Prop := Forall (fun x => 0 <= x < 256) b.

(* contract of the parts that leave the project, for one datagram:
   - nts.DecodePacket rejects more than MaxPacketLen = 1024 bytes, so an NTS-valid payload is not longer;
   - an authenticated request carries at least one cookie (FirstCookie succeeded) and
     EncryptWithNonce only fails when crypto/rand fails, so a cookie is added;
   - nts.EncodePacket produces at most 1024 bytes in total. *)
Definition env_ok (payload : list Z) (e : env) : Prop :=
  (e_nts_ok e = true -> zlen payload <= 1024 /\ e_nts_cookie_added e = true) /\
  zlen (e_nts_ext e) <= 1024 - 48.

(* ---------- the first byte: complete sweep ---------- *)

Definition all_bytes : list Z := map Z.of_nat (seq 0 256).

Lemma in_all_bytes : forall l, 0 <= l < 256 -> In l all_bytes.
Proof.
  intros l Hl. unfold all_bytes. apply in_map_iff. exists (Z.to_nat l). split.
  - lia.
  - apply in_seq. lia.
Qed.

Lemma lvm_sweep_b : forallb (fun l => Bool.eqb (validate_lvm l) (wf_first_byte l)) all_bytes = true.
Proof. vm_compute. reflexivity. Qed.

Lemma lvm_sweep : forall l, 0 <= l < 256 -> validate_lvm l = wf_first_byte l.
Proof.
  intros l Hl. pose proof lvm_sweep_b as H. rewrite forallb_forall in H.
  apply Bool.eqb_prop. apply H. apply in_all_bytes. exact Hl.
Qed.

(* the 8 accepted first bytes, and nothing else *)
Definition accepted_first_bytes : list Z :=
  [8; 19; 27; 35; 200; 211; 219; 227].

Lemma accepted_sweep_b :
  forallb (fun l => Bool.eqb (validate_lvm l) (existsb (Z.eqb l) accepted_first_bytes)) all_bytes = true.
Proof. vm_compute. reflexivity. Qed.

Lemma accepted_exactly : forall l, 0 <= l < 256 ->
  (validate_lvm l = true <-> In l accepted_first_bytes).
Proof.
  intros l Hl. pose proof accepted_sweep_b as H. rewrite forallb_forall in H.
  specialize (H l (in_all_bytes l Hl)). apply Bool.eqb_prop in H. rewrite H.
  rewrite existsb_exists. split.
  - intros [x [Hin Hx]]. apply Z.eqb_eq in Hx. subst x. exact Hin.
  - intros Hin. exists l. split; [exact Hin | apply Z.eqb_refl].
Qed.

(* Prop-level reading of the first-byte condition *)
Lemma wf_first_byte_prop : forall l, 0 <= l < 256 ->
  (wf_first_byte l = true <->
   (l / 64 = 0 \/ l / 64 = 3) /\
   ((2 <= (l / 8) mod 8 <= 4 /\ l mod 8 = 3) \/ ((l / 8) mod 8 = 1 /\ l mod 8 = 0))).
Proof.
  intros l Hl. unfold wf_first_byte. cbv zeta.
  rewrite !andb_true_iff, !orb_true_iff, !andb_true_iff, !Z.eqb_eq, !Z.leb_le. tauto.
Qed.

(* shifts and masks are the arithmetic the property text uses *)
Lemma fields_sweep_b :
  forallb (fun l => (leap_of l =? l / 64) && (version_of l =? (l / 8) mod 8) && (mode_of l =? l mod 8)) all_bytes = true.
Proof. vm_compute. reflexivity. Qed.

Lemma fields_arith : forall l, 0 <= l < 256 ->
  leap_of l = l / 64 /\ version_of l = (l / 8) mod 8 /\ mode_of l = l mod 8.
Proof.
  intros l Hl. pose proof fields_sweep_b as H. rewrite forallb_forall in H.
  specialize (H l (in_all_bytes l Hl)). rewrite !andb_true_iff, !Z.eqb_eq in H. tauto.
Qed.

(* ---------- bytes ---------- *)

Lemma hd_nth0 : forall (b : list Z), nth 0 b 0 = hd 0 b.
Proof. destruct b; reflexivity. Qed.

Lemma bytes_ok_hd : forall b, bytes_ok b -> 0 <= hd 0 b < 256.
Proof. intros b H. destruct b as [|x r]; simpl; [lia|]. inversion H; assumption. Qed.

Lemma u8_small : forall x, 0 <= x < 256 -> u8 x = x.
Proof. intros x H. unfold u8. apply Z.mod_small. exact H. Qed.

Lemma zlen_app : forall (a b : list Z), zlen (a ++ b) = zlen a + zlen b.
Proof. intros. unfold zlen. rewrite app_length. lia. Qed.

Lemma zlen_nonneg : forall (a : list Z), 0 <= zlen a.
Proof. intros. unfold zlen. lia. Qed.

Lemma encode_length : forall p, length (encode_packet p) = 48%nat.
Proof. intros p. reflexivity. Qed.

Lemma encode_zlen : forall p, zlen (encode_packet p) = 48.
Proof. intros p. unfold zlen. rewrite encode_length. reflexivity. Qed.

Lemma encode_hd : forall p ext, hd 0 (encode_packet p ++ ext) = u8 (lvm p).
Proof. intros. reflexivity. Qed.

Lemma encode_nth1 : forall p ext, nth 1 (encode_packet p ++ ext) 0 = u8 (stratum p).
Proof. intros. reflexivity. Qed.

Lemma decode_some : forall b, 48 <= zlen b -> exists req, decode_packet b = Some req /\ lvm req = u8 (hd 0 b).
Proof.
  intros b H. unfold decode_packet, packet_len.
  destruct (zlen b <? 48) eqn:E; [apply Z.ltb_lt in E; lia|].
  eexists. split; [reflexivity|]. simpl. unfold byte_at. rewrite hd_nth0. reflexivity.
Qed.

Lemma decode_none : forall b, zlen b < 48 -> decode_packet b = None.
Proof.
  intros b H. unfold decode_packet, packet_len.
  destruct (zlen b <? 48) eqn:E; [reflexivity|apply Z.ltb_ge in E; lia].
Qed.

(* ---------- handleRequest ---------- *)

Definition reply_packet (req : packet) (e : env) : packet :=
  let inter := negb (time64_eqb (receive_time req) (transmit_time req)) in
  let ot := match e_store_hit e with
            | Some tx => if inter then (receive_time req, tx) else (transmit_time req, e_tx e)
            | None => (transmit_time req, e_tx e)
            end in
  {| lvm := 36; stratum := 1; poll := poll req; precision := -32;
     root_delay := {| t32_sec := 0; t32_frac := 0 |};
     root_dispersion := {| t32_sec := 0; t32_frac := 10 |};
     reference_id := server_ref_id;
     reference_time := e_tx e; origin_time := fst ot;
     receive_time := e_rx e; transmit_time := snd ot |}.

(* SetVersion(4) and SetMode(4) never panic; the header is LI 0, VN 4, mode 4 *)
Lemma handle_request_total : forall req e, handle_request req e = Some (reply_packet req e).
Proof. intros. reflexivity. Qed.

Lemma reply_packet_fields : forall req e,
  leap_of (lvm (reply_packet req e)) = 0 /\ version_of (lvm (reply_packet req e)) = 4 /\
  mode_of (lvm (reply_packet req e)) = 4 /\ stratum (reply_packet req e) = 1.
Proof. intros. repeat split. Qed.

(* ---------- the decision on one payload ---------- *)

Local Opaque encode_packet.

(* closed form of ntp_decision *)
Definition reply_bytes (b : list Z) (e : env) : list Z :=
  match decode_packet b with
  | Some req => encode_packet (reply_packet req e) ++ (if 48 <? zlen b then e_nts_ext e else [])
  | None => []
  end.

Lemma ntp_decision_closed : forall b e, bytes_ok b -> env_ok b e ->
  ntp_decision b e = if wellformed_request b (e_nts_ok e) then Reply (reply_bytes b e) else NoReply.
Proof.
  intros b e Hb [Hnts _]. unfold ntp_decision, wellformed_request, reply_bytes.
  destruct (Z_lt_ge_dec (zlen b) 48) as [Hlt|Hge].
  - rewrite (decode_none b Hlt). replace (48 <=? zlen b) with false by (symmetry; apply Z.leb_gt; lia).
    reflexivity.
  - destruct (decode_some b) as [req [Hd Hl]]; [lia|]. rewrite Hd.
    replace (48 <=? zlen b) with true by (symmetry; apply Z.leb_le; lia).
    unfold validate_request. rewrite Hl.
    rewrite (u8_small _ (bytes_ok_hd b Hb)). rewrite (lvm_sweep _ (bytes_ok_hd b Hb)).
    unfold packet_len. rewrite handle_request_total.
    destruct (48 <? zlen b) eqn:Elong.
    + assert (zlen b =? 48 = false) as -> by (apply Z.eqb_neq; apply Z.ltb_lt in Elong; lia).
      destruct (e_nts_ok e) eqn:En; simpl.
      * destruct (Hnts eq_refl) as [Hsz Hc]. rewrite Hc. simpl.
        assert (nts_max_packet_len <? zlen b = false) as -> by (apply Z.ltb_ge; unfold nts_max_packet_len; lia).
        simpl. destruct (wf_first_byte (hd 0 b)); reflexivity.
      * rewrite andb_false_r, orb_true_r. reflexivity.
    + assert (zlen b =? 48 = true) as -> by (apply Z.eqb_eq; apply Z.ltb_ge in Elong; lia).
      rewrite app_nil_r. cbn [andb orb].
      destruct (wf_first_byte (hd 0 b)); reflexivity.
Qed.

Lemma ntp_decision_never_crashes : forall b e, ntp_decision b e <> Crash.
Proof.
  intros b e. unfold ntp_decision. destruct (decode_packet b) as [req|]; [|discriminate].
  rewrite handle_request_total.
  destruct (_ && _); [discriminate|]. destruct (negb (validate_request req)); [discriminate|].
  destruct (packet_len <? zlen b); [destruct (negb _)|]; discriminate.
Qed.

(* any reply, under any environment, starts with byte 36 = LI 0, VN 4, mode 4, then stratum 1,
   and is the 48-byte header followed by whatever NTS appended *)
Lemma reply_form : forall b e out, ntp_decision b e = Reply out ->
  exists req ext, out = encode_packet (reply_packet req e) ++ ext.
Proof.
  intros b e out. unfold ntp_decision. destruct (decode_packet b) as [req|]; [|discriminate].
  rewrite handle_request_total.
  destruct (_ && _); [discriminate|]. destruct (negb (validate_request req)); [discriminate|].
  destruct (packet_len <? zlen b).
  - destruct (negb _); [discriminate|]. intros [= <-]. eauto.
  - intros [= <-]. exists req, []. rewrite app_nil_r. reflexivity.
Qed.

Lemma reply_shape : forall b e out, ntp_decision b e = Reply out ->
  reply_shape_ok out = true /\ hd 0 out = 36 /\ nth 1 out 0 = 1 /\ 48 <= zlen out.
Proof.
  intros b e out H. destruct (reply_form b e out H) as [req [ext ->]].
  assert (48 <= zlen (encode_packet (reply_packet req e) ++ ext)) as Hlen
    by (rewrite zlen_app, encode_zlen; pose proof (zlen_nonneg ext); lia).
  unfold reply_shape_ok. rewrite encode_hd, encode_nth1. simpl lvm. simpl stratum.
  repeat split; try assumption.
  apply Z.leb_le in Hlen. rewrite Hlen. reflexivity.
Qed.

(* a reply is never answered: whatever listener environment it meets *)
Lemma reply_not_answered : forall b e out, ntp_decision b e = Reply out ->
  forall e', ntp_decision out e' = NoReply.
Proof.
  intros b e out H e'. destruct (reply_shape b e out H) as [_ [Hhd [_ Hlen]]].
  unfold ntp_decision. destruct (decode_some out Hlen) as [req [Hd Hl]]. rewrite Hd.
  unfold validate_request. rewrite Hl, Hhd.
  destruct (_ && _); reflexivity.
Qed.

Lemma reply_not_wellformed : forall b e out, ntp_decision b e = Reply out ->
  forall nts, wellformed_request out nts = false.
Proof.
  intros b e out H nts. destruct (reply_shape b e out H) as [_ [Hhd _]].
  unfold wellformed_request. rewrite Hhd. rewrite andb_false_r. reflexivity.
Qed.

(* ---------- the IP listener ---------- *)

Definition writes_of (src : Z) (d : decision) : list ip_write :=
  match d with Reply out => [ {| w_dst := src; w_payload := out |} ] | _ => [] end.

Lemma firstn_overwrite : forall (buf new : list Z), firstn (length new) (overwrite buf new) = new.
Proof.
  intros. unfold overwrite. rewrite firstn_app, Nat.sub_diag, firstn_all. simpl. apply app_nil_r.
Qed.

(* one iteration looks at the received bytes only, whatever the buffer held before *)
Lemma ip_step_stateless : forall buf d,
  snd (ip_step buf d) = Some (writes_of (d_src d) (ip_decision (d_payload d) (d_env d))).
Proof.
  intros buf d. unfold ip_step, ip_decision.
  destruct (ip_buf_cap <? zlen (d_payload d)) eqn:E; [reflexivity|].
  apply Z.ltb_ge in E.
  assert (Z.to_nat (Z.min (zlen (d_payload d)) ip_buf_cap) = length (d_payload d)) as Hn
    by (unfold zlen in *; lia).
  rewrite Hn, firstn_all, firstn_overwrite.
  pose proof (ntp_decision_never_crashes (d_payload d) (d_env d)) as Hc.
  destruct (ntp_decision (d_payload d) (d_env d)); simpl; try reflexivity. congruence.
Qed.

Lemma ip_run_stateless : forall h buf,
  ip_run buf h = Some (map (fun d => writes_of (d_src d) (ip_decision (d_payload d) (d_env d))) h).
Proof.
  induction h as [|d r IH]; intros buf; [reflexivity|].
  simpl. pose proof (ip_step_stateless buf d) as Hs.
  destruct (ip_step buf d) as [buf' o]. simpl in Hs. subst o.
  rewrite IH. reflexivity.
Qed.

(* the buffer keeps its capacity *)
Lemma overwrite_length : forall (buf new : list Z), (length new <= length buf)%nat ->
  length (overwrite buf new) = length buf.
Proof. intros. unfold overwrite. rewrite app_length, skipn_length. lia. Qed.

Lemma reply_len : forall b e out, ntp_decision b e = Reply out ->
  zlen out <= 48 + zlen (e_nts_ext e).
Proof.
  intros b e out. unfold ntp_decision. destruct (decode_packet b) as [rq|]; [|discriminate].
  rewrite handle_request_total.
  destruct (_ && _); [discriminate|]. destruct (negb (validate_request rq)); [discriminate|].
  destruct (packet_len <? _).
  - destruct (negb _); [discriminate|]. intros [= <-].
    rewrite zlen_app, encode_zlen. lia.
  - intros [= <-]. rewrite encode_zlen. pose proof (zlen_nonneg (e_nts_ext e)). lia.
Qed.

Lemma ip_step_buf : forall buf d, length buf = Z.to_nat ip_buf_cap ->
  zlen (e_nts_ext (d_env d)) <= 1024 - 48 ->
  length (fst (ip_step buf d)) = Z.to_nat ip_buf_cap.
Proof.
  intros buf d Hbuf Hext. unfold ip_step.
  set (n := Z.to_nat (Z.min (zlen (d_payload d)) ip_buf_cap)).
  assert (length (overwrite buf (firstn n (d_payload d))) = length buf) as H1.
  { apply overwrite_length. rewrite firstn_length. unfold n, ip_buf_cap in *. lia. }
  destruct (ip_buf_cap <? zlen (d_payload d)); [cbn [fst]; lia|].
  destruct (ntp_decision _ _) eqn:Ed; cbn [fst]; try lia.
  pose proof (reply_len _ _ _ Ed) as Hl.
  rewrite overwrite_length; [lia|].
  rewrite H1, Hbuf. unfold zlen, ip_buf_cap in *. lia.
Qed.

Definition is_reply_payload (p : list Z) : Prop := exists b e, ntp_decision b e = Reply p.

Lemma ip_decision_reply_inv : forall p e out, ip_decision p e = Reply out -> ntp_decision p e = Reply out.
Proof. intros p e out. unfold ip_decision. destruct (_ <? _); [discriminate|auto]. Qed.

Lemma ip_decision_of_reply : forall p e, is_reply_payload p -> ip_decision p e = NoReply.
Proof.
  intros p e [b [e0 H]]. unfold ip_decision. destruct (_ <? _); [reflexivity|].
  apply (reply_not_answered b e0 p H).
Qed.

(* ---------- the SCION listener ---------- *)

Lemma list_eqb_refl : forall a, list_eqb a a = true.
Proof.
  intros a. unfold list_eqb. rewrite Nat.eqb_refl. simpl.
  induction a as [|x r IH]; [reflexivity|]. simpl. rewrite Z.eqb_refl. exact IH.
Qed.

Definition addressed_to_listener (conn_port local_port : Z) (h : scion_hdr) : bool :=
  addr_ok (h_src_raw h) && addr_ok (h_dst_raw h) && (h_udp_dst h =? local_port) && negb (local_port =? endhost_port).

Lemma scion_decision_closed : forall cp lp h payload e,
  addressed_to_listener cp lp h = true -> e_spao_fail e = false ->
  scion_decision_of cp lp h payload e =
    match ntp_decision payload e with
    | NoReply => SNoReply
    | Crash => SCrash
    | Reply out =>
      match e_path_rev e with
      | None => SNoReply
      | Some (pt, praw) =>
        SReply {| h_dst_ia := h_src_ia h; h_src_ia := h_dst_ia h;
                  h_dst_type := h_src_type h; h_src_type := h_dst_type h;
                  h_dst_raw := h_src_raw h; h_src_raw := h_dst_raw h;
                  h_path_type := pt; h_path_raw := praw;
                  h_udp_src := h_udp_dst h; h_udp_dst := h_udp_src h |} out
      end
    end.
Proof.
  intros cp lp h payload e Ha Hs. unfold addressed_to_listener in Ha.
  rewrite !andb_true_iff in Ha. destruct Ha as [[[H1 H2] H3] H4].
  unfold scion_decision_of. rewrite H1, H2, H3, Hs. simpl.
  apply negb_true_iff in H4. rewrite H4. reflexivity.
Qed.

Lemma scion_reply_inv : forall cp lp h payload e rh out,
  scion_decision_of cp lp h payload e = SReply rh out ->
  ntp_decision payload e = Reply out /\ scion_back_to_sender h rh (e_path_rev e) = true.
Proof.
  intros cp lp h payload e rh out. unfold scion_decision_of.
  destruct (negb (addr_ok (h_src_raw h))); [discriminate|].
  destruct (negb (addr_ok (h_dst_raw h))); [discriminate|].
  destruct (negb (h_udp_dst h =? lp)).
  { destruct (_ || _); discriminate. }
  destruct (lp =? endhost_port); [discriminate|].
  destruct (e_spao_fail e); [discriminate|].
  destruct (ntp_decision payload e) as [|o|]; try discriminate.
  destruct (e_path_rev e) as [[pt praw]|]; [|discriminate].
  intros H. inversion H. subst. split; [reflexivity|].
  unfold scion_back_to_sender. simpl. rewrite !Z.eqb_refl, !list_eqb_refl. reflexivity.
Qed.

Lemma scion_never_crashes : forall cp lp h payload e, scion_decision_of cp lp h payload e <> SCrash.
Proof.
  intros cp lp h payload e. unfold scion_decision_of.
  destruct (negb (addr_ok (h_src_raw h))); [discriminate|].
  destruct (negb (addr_ok (h_dst_raw h))); [discriminate|].
  destruct (negb (h_udp_dst h =? lp)).
  { destruct (_ || _); discriminate. }
  destruct (lp =? endhost_port); [discriminate|].
  destruct (e_spao_fail e); [discriminate|].
  pose proof (ntp_decision_never_crashes payload e) as Hc.
  destruct (ntp_decision payload e) as [|o|]; try discriminate; [|congruence].
  destruct (e_path_rev e) as [[pt praw]|]; discriminate.
Qed.

(* ---------- the oracle holds for the model ---------- *)

Definition ip_replies (src : Z) (d : decision) : list (Z * list Z) :=
  match d with Reply out => [(src, out)] | _ => [] end.

Lemma model_meets_oracle_ip : forall src payload e, bytes_ok payload -> env_ok payload e ->
  C09_ok src payload (e_nts_ok e) (ip_replies src (ip_decision payload e)) = true.
Proof.
  intros src payload e Hb He. unfold C09_ok, ip_decision.
  destruct (ip_buf_cap <? zlen payload) eqn:Ebig.
  - simpl. apply Z.ltb_lt in Ebig. unfold ip_buf_cap in Ebig.
    assert (wellformed_request payload (e_nts_ok e) = false) as ->; [|reflexivity].
    unfold wellformed_request.
    assert (zlen payload =? 48 = false) as -> by (apply Z.eqb_neq; lia).
    destruct (e_nts_ok e) eqn:En.
    + destruct He as [Hn _]. destruct (Hn En). lia.
    + rewrite andb_false_r. reflexivity.
  - rewrite (ntp_decision_closed payload e Hb He).
    destruct (wellformed_request payload (e_nts_ok e)) eqn:Ew; [|reflexivity].
    assert (ntp_decision payload e = Reply (reply_bytes payload e)) as Hd
      by (rewrite (ntp_decision_closed payload e Hb He), Ew; reflexivity).
    destruct (reply_shape _ _ _ Hd) as [Hs [Hhd _]].
    simpl. rewrite Hs, Hhd, Z.eqb_refl. reflexivity.
Qed.

Definition scion_replies (src : Z) (d : scion_decision) : list (Z * scion_hdr * list Z) :=
  match d with SReply rh out => [(src, rh, out)] | _ => [] end.

Lemma model_meets_oracle_scion : forall cp lp src h payload e,
  bytes_ok payload -> env_ok payload e ->
  addressed_to_listener cp lp h = true -> e_spao_fail e = false ->
  C09_scion_ok src h payload (e_nts_ok e) (e_path_rev e)
    (scion_replies src (scion_decision_of cp lp h payload e)) = true.
Proof.
  intros cp lp src h payload e Hb He Ha Hs. unfold C09_scion_ok.
  destruct (scion_decision_of cp lp h payload e) as [| |rh out|] eqn:Ed; simpl.
  - (* no reply *)
    rewrite (scion_decision_closed _ _ _ _ _ Ha Hs) in Ed.
    rewrite (ntp_decision_closed payload e Hb He) in Ed.
    destruct (wellformed_request payload (e_nts_ok e)); [|reflexivity].
    destruct (e_path_rev e) as [[pt praw]|]; [discriminate|reflexivity].
  - (* forward: impossible for a packet addressed to the listener *)
    rewrite (scion_decision_closed _ _ _ _ _ Ha Hs) in Ed.
    destruct (ntp_decision payload e); try discriminate.
    destruct (e_path_rev e) as [[pt praw]|]; discriminate.
  - destruct (scion_reply_inv _ _ _ _ _ _ _ Ed) as [Hd Hback].
    destruct (reply_shape _ _ _ Hd) as [Hsh [Hhd _]].
    rewrite Hsh, Hhd, Hback, Z.eqb_refl. simpl.
    rewrite (ntp_decision_closed payload e Hb He) in Hd.
    destruct (wellformed_request payload (e_nts_ok e)); [reflexivity|discriminate].
  - exfalso. exact (scion_never_crashes _ _ _ _ _ Ed).
Qed.

(* ---------- Prop-level statements ---------- *)

(* the property's "well-formed client request", as a proposition *)
Definition valid_client_request (payload : list Z) (nts_valid : bool) : Prop :=
  48 <= zlen payload /\
  (hd 0 payload / 64 = 0 \/ hd 0 payload / 64 = 3) /\
  ((2 <= (hd 0 payload / 8) mod 8 <= 4 /\ hd 0 payload mod 8 = 3) \/
   ((hd 0 payload / 8) mod 8 = 1 /\ hd 0 payload mod 8 = 0)) /\
  (zlen payload = 48 \/ nts_valid = true).

Lemma wellformed_request_prop : forall payload nts, bytes_ok payload ->
  (wellformed_request payload nts = true <-> valid_client_request payload nts).
Proof.
  intros payload nts Hb. unfold wellformed_request, valid_client_request.
  rewrite !andb_true_iff, orb_true_iff, Z.leb_le, Z.eqb_eq.
  rewrite (wf_first_byte_prop _ (bytes_ok_hd payload Hb)). tauto.
Qed.

(* version / mode / stratum of a payload, as the wire format defines them *)
Definition is_server_reply (r : list Z) : Prop :=
  48 <= zlen r /\ (hd 0 r / 8) mod 8 = 4 /\ hd 0 r mod 8 = 4 /\ nth 1 r 0 = 1.

Lemma reply_shape_ok_prop : forall r, reply_shape_ok r = true <-> is_server_reply r.
Proof.
  intros r. unfold reply_shape_ok, is_server_reply.
  rewrite !andb_true_iff, Z.leb_le, !Z.eqb_eq. tauto.
Qed.

Lemma ip_reply_iff_valid : forall payload e, bytes_ok payload -> env_ok payload e ->
  ((exists out, ip_decision payload e = Reply out) <-> valid_client_request payload (e_nts_ok e)).
Proof.
  intros payload e Hb He.
  rewrite <- (wellformed_request_prop payload (e_nts_ok e) Hb).
  pose proof (model_meets_oracle_ip 0 payload e Hb He) as Ho.
  unfold C09_ok in Ho. apply andb_true_iff in Ho. destruct Ho as [_ Ho].
  destruct (wellformed_request payload (e_nts_ok e)).
  - split; [reflexivity|]. intros _.
    destruct (ip_decision payload e) as [|out|]; simpl in Ho; try discriminate. eauto.
  - split; [|discriminate]. intros [out Hout]. rewrite Hout in Ho. discriminate.
Qed.

(* what one iteration of the IP loop writes, for every buffer state *)
Lemma ip_step_writes : forall buf d, bytes_ok (d_payload d) -> env_ok (d_payload d) (d_env d) ->
  exists ws, snd (ip_step buf d) = Some ws /\
    ((valid_client_request (d_payload d) (e_nts_ok (d_env d)) /\
      exists out, ws = [ {| w_dst := d_src d; w_payload := out |} ] /\ is_server_reply out)
     \/
     (~ valid_client_request (d_payload d) (e_nts_ok (d_env d)) /\ ws = [])).
Proof.
  intros buf d Hb He. rewrite ip_step_stateless. eexists. split; [reflexivity|].
  pose proof (ip_reply_iff_valid _ _ Hb He) as Hiff.
  destruct (ip_decision (d_payload d) (d_env d)) as [|out|] eqn:Ed.
  - right. split; [|reflexivity]. intros Hv. apply Hiff in Hv. destruct Hv as [o Ho]. discriminate.
  - left. split; [apply Hiff; eauto|]. exists out. split; [reflexivity|].
    apply reply_shape_ok_prop. apply ip_decision_reply_inv in Ed.
    apply (reply_shape _ _ _ Ed).
  - right. split; [|reflexivity]. intros Hv. apply Hiff in Hv. destruct Hv as [o Ho]. discriminate.
Qed.

Definition datagram_ok (d : ip_datagram) : Prop := bytes_ok (d_payload d) /\ env_ok (d_payload d) (d_env d).

(* for every history of datagrams, from every buffer state: the goroutine does
   not panic, and the i-th datagram is answered exactly once, to its sender, iff
   it is a valid client request; nothing else is ever written *)
Lemma ip_history : forall h buf, Forall datagram_ok h ->
  exists outs, ip_run buf h = Some outs /\
    Forall2 (fun d ws =>
      (valid_client_request (d_payload d) (e_nts_ok (d_env d)) /\
       exists out, ws = [ {| w_dst := d_src d; w_payload := out |} ] /\ is_server_reply out)
      \/ (~ valid_client_request (d_payload d) (e_nts_ok (d_env d)) /\ ws = [])) h outs.
Proof.
  induction h as [|d r IH]; intros buf Hall.
  - exists []. split; [reflexivity|constructor].
  - inversion Hall as [|d' r' [Hb He] Hr]; subst.
    destruct (ip_step_writes buf d Hb He) as [ws [Hs Hw]].
    simpl. destruct (ip_step buf d) as [buf' o]. simpl in Hs. subst o.
    destruct (IH buf' Hr) as [outs [Hrun Hf]]. rewrite Hrun.
    exists (ws :: outs). split; [reflexivity|]. constructor; assumption.
Qed.

(* number of datagrams written = number of valid requests received *)
Lemma ip_history_count : forall h buf outs, ip_run buf h = Some outs ->
  length (concat outs) =
  length (filter (fun d => match ip_decision (d_payload d) (d_env d) with Reply _ => true | _ => false end) h).
Proof.
  intros h buf outs. rewrite ip_run_stateless. intros [= <-]. clear buf.
  induction h as [|d r IH]; [reflexivity|].
  simpl. rewrite app_length, IH.
  destruct (ip_decision (d_payload d) (d_env d)); reflexivity.
Qed.

(* everything a listener ever writes is a server reply ... *)
Lemma ip_run_outputs_are_replies : forall h buf outs, ip_run buf h = Some outs ->
  Forall (fun w => is_reply_payload (w_payload w)) (concat outs).
Proof.
  intros h buf outs. rewrite ip_run_stateless. intros [= <-]. clear buf.
  induction h as [|d r IH]; [constructor|].
  simpl. apply Forall_app. split; [|exact IH].
  destruct (ip_decision (d_payload d) (d_env d)) as [|out|] eqn:Ed; simpl; constructor; [|constructor].
  simpl. exists (d_payload d), (d_env d). apply ip_decision_reply_inv. exact Ed.
Qed.

(* ... and a listener that is sent server replies only, from whatever sources, in
   whatever state and environment, writes nothing: no reflection, no ping-pong *)
Lemma ip_run_of_replies : forall h buf, Forall (fun d => is_reply_payload (d_payload d)) h ->
  ip_run buf h = Some (map (fun _ => []) h).
Proof.
  intros h buf Hall. rewrite ip_run_stateless. f_equal.
  induction h as [|d r IH]; [reflexivity|].
  inversion Hall as [|d' r' Hd Hr]; subst. simpl. rewrite (ip_decision_of_reply _ _ Hd).
  rewrite (IH Hr). reflexivity.
Qed.

Lemma no_pingpong : forall h buf outs, ip_run buf h = Some outs ->
  forall (redirect : ip_write -> ip_datagram),
    (forall w, d_payload (redirect w) = w_payload w) ->
    forall buf2, ip_run buf2 (map redirect (concat outs)) = Some (map (fun _ => []) (concat outs)).
Proof.
  intros h buf outs Hrun redirect Hred buf2.
  pose proof (ip_run_outputs_are_replies h buf outs Hrun) as Hall.
  rewrite ip_run_of_replies.
  - rewrite map_map. reflexivity.
  - rewrite Forall_map. eapply Forall_impl; [|exact Hall]. intros w Hw. simpl. rewrite Hred. exact Hw.
Qed.

(* SCION listener: a packet addressed to the listener is answered iff its payload is a
   valid request and the path can be reversed; the reply goes back to the sender *)
Lemma scion_reply_iff_valid : forall cp lp h payload e,
  bytes_ok payload -> env_ok payload e ->
  addressed_to_listener cp lp h = true -> e_spao_fail e = false ->
  ((exists rh out, scion_decision_of cp lp h payload e = SReply rh out) <->
   (valid_client_request payload (e_nts_ok e) /\ e_path_rev e <> None)).
Proof.
  intros cp lp h payload e Hb He Ha Hs.
  rewrite <- (wellformed_request_prop payload (e_nts_ok e) Hb).
  rewrite (scion_decision_closed _ _ _ _ _ Ha Hs), (ntp_decision_closed payload e Hb He).
  destruct (wellformed_request payload (e_nts_ok e)).
  - destruct (e_path_rev e) as [[pt praw]|].
    + split; [intros _; split; [reflexivity|discriminate]|]. intros _. eauto.
    + split; [intros [rh [out Hx]]; discriminate|]. intros [_ Hn]. congruence.
  - split; [intros [rh [out Hx]]; discriminate|]. intros [Hx _]. discriminate.
Qed.

Lemma scion_reply_addressing : forall cp lp h payload e rh out,
  scion_decision_of cp lp h payload e = SReply rh out ->
  h_dst_ia rh = h_src_ia h /\ h_src_ia rh = h_dst_ia h /\
  h_dst_type rh = h_src_type h /\ h_src_type rh = h_dst_type h /\
  h_dst_raw rh = h_src_raw h /\ h_src_raw rh = h_dst_raw h /\
  h_udp_dst rh = h_udp_src h /\ h_udp_src rh = h_udp_dst h /\
  e_path_rev e = Some (h_path_type rh, h_path_raw rh) /\
  is_server_reply out /\ (forall e', ntp_decision out e' = NoReply).
Proof.
  intros cp lp h payload e rh out Hd.
  destruct (scion_reply_inv _ _ _ _ _ _ _ Hd) as [Hn _].
  assert (is_server_reply out) as Hsh by (apply reply_shape_ok_prop; apply (reply_shape _ _ _ Hn)).
  pose proof (reply_not_answered _ _ _ Hn) as Hna.
  revert Hd. unfold scion_decision_of.
  destruct (negb (addr_ok (h_src_raw h))); [discriminate|].
  destruct (negb (addr_ok (h_dst_raw h))); [discriminate|].
  destruct (negb (h_udp_dst h =? lp)).
  { destruct (_ || _); discriminate. }
  destruct (lp =? endhost_port); [discriminate|].
  destruct (e_spao_fail e); [discriminate|].
  destruct (ntp_decision payload e) as [|o|]; try discriminate.
  destruct (e_path_rev e) as [[pt praw]|]; [|discriminate].
  intros [= <- <-]. simpl. destruct Hsh as [Hs1 [Hs2 [Hs3 Hs4]]]. repeat split; auto.
Qed.

(* a SCION listener never answers a server reply either *)
Lemma scion_decision_of_reply : forall cp lp h p e, is_reply_payload p ->
  forall rh out, scion_decision_of cp lp h p e <> SReply rh out.
Proof.
  intros cp lp h p e [b [e0 Hb]] rh out Hd.
  destruct (scion_reply_inv _ _ _ _ _ _ _ Hd) as [Hn _].
  rewrite (reply_not_answered _ _ _ Hb e) in Hn. discriminate.
Qed.

(* ---------- the oracle holds for the model on whole histories ---------- *)

(* what an observer sees of one datagram of a history: sender, payload, the NTS
   verdict of the payload, and the datagrams the listener wrote for it *)
Definition observe (d : ip_datagram) (ws : list ip_write) : ip_obs :=
  {| o_src := d_src d; o_payload := d_payload d; o_nts := e_nts_ok (d_env d);
     o_replies := map (fun w => (w_dst w, w_payload w)) ws |}.

Definition observe_run (h : list ip_datagram) (outs : list (list ip_write)) : list ip_obs :=
  map (fun dw => observe (fst dw) (snd dw)) (combine h outs).

Lemma writes_replies : forall src d,
  map (fun w => (w_dst w, w_payload w)) (writes_of src d) = ip_replies src d.
Proof. intros src [|out|]; reflexivity. Qed.

(* every history, every buffer state: each exchange passes the property oracle,
   whatever the listener handled before it *)
Lemma model_meets_oracle_history : forall h buf, Forall datagram_ok h ->
  exists outs, ip_run buf h = Some outs /\ length outs = length h /\
    C09_hist_ok (observe_run h outs) = true.
Proof.
  intros h buf Hall. rewrite ip_run_stateless. eexists. split; [reflexivity|].
  split; [apply map_length|]. clear buf.
  induction Hall as [|d r [Hb He] Hr IH]; [reflexivity|].
  unfold C09_hist_ok, observe_run in *. simpl. rewrite IH, andb_true_r.
  unfold C09_obs_ok, observe. simpl. rewrite writes_replies.
  apply model_meets_oracle_ip; assumption.
Qed.

(* a burst: datagrams of one socket handled one after the other; the replies, in
   the order written, pass the burst oracle *)
Lemma model_meets_oracle_burst : forall src h buf, Forall datagram_ok h ->
  Forall (fun d => d_src d = src) h ->
  exists outs, ip_run buf h = Some outs /\
    C09_burst_ok src (map (fun d => (d_payload d, e_nts_ok (d_env d))) h)
                     (map (fun w => (w_dst w, w_payload w)) (concat outs)) = true.
Proof.
  intros src h buf Hall Hsrc. rewrite ip_run_stateless. eexists. split; [reflexivity|]. clear buf.
  induction Hall as [|d r [Hb He] Hr IH]; [reflexivity|].
  inversion Hsrc as [|d' r' Hd Hsr]; subst d' r'. specialize (IH Hsr).
  cbn [map concat C09_burst_ok]. rewrite map_app, writes_replies, Hd.
  pose proof (model_meets_oracle_ip src (d_payload d) (d_env d) Hb He) as Ho.
  destruct (wellformed_request (d_payload d) (e_nts_ok (d_env d))) eqn:Ew.
  - destruct (ip_decision (d_payload d) (d_env d)) as [|out|]; cbn [ip_replies app] in *.
    + unfold C09_ok in Ho. rewrite Ew in Ho. simpl in Ho. discriminate.
    + rewrite Ho. exact IH.
    + unfold C09_ok in Ho. rewrite Ew in Ho. simpl in Ho. discriminate.
  - destruct (ip_decision (d_payload d) (d_env d)) as [|out|]; cbn [ip_replies app] in *.
    + exact IH.
    + unfold C09_ok in Ho. rewrite Ew in Ho. cbn [forallb] in Ho. rewrite andb_false_r in Ho. discriminate.
    + exact IH.
Qed.

(* a plain (48-byte) well-formed request is answered exactly once, to its sender,
   wherever it stands in a history: nothing is required of the datagrams before
   and after it (valid NTS requests, garbage, any environment) *)
Lemma plain_request_answered_in_any_history : forall pre d post buf,
  datagram_ok d -> valid_client_request (d_payload d) false ->
  exists outs_pre out outs_post,
    ip_run buf (pre ++ d :: post) =
      Some (outs_pre ++ [ {| w_dst := d_src d; w_payload := out |} ] :: outs_post) /\
    length outs_pre = length pre /\ length outs_post = length post /\ is_server_reply out.
Proof.
  intros pre d post buf [Hb He] Hv. rewrite ip_run_stateless, map_app. cbn [map].
  assert (valid_client_request (d_payload d) (e_nts_ok (d_env d))) as Hv'.
  { destruct Hv as [H1 [H2 [H3 [H4|H4]]]]; [|discriminate]. repeat split; auto. }
  apply (ip_reply_iff_valid _ _ Hb He) in Hv'. destruct Hv' as [out Hout].
  rewrite Hout. cbn [writes_of].
  eexists _, out, _. split; [reflexivity|]. split; [apply map_length|]. split; [apply map_length|].
  apply reply_shape_ok_prop. apply ip_decision_reply_inv in Hout. apply (reply_shape _ _ _ Hout).
Qed.

(* ---------- SCION: the oracle for every packet, addressed to the listener or not ---------- *)

Lemma scion_addressed_eq : forall cp lp h, scion_addressed cp lp h = addressed_to_listener cp lp h.
Proof. reflexivity. Qed.

Lemma model_meets_oracle_scion_any : forall cp lp src h payload e,
  bytes_ok payload -> env_ok payload e -> e_spao_fail e = false ->
  C09_scion_any_ok src cp lp h payload (e_nts_ok e) (e_path_rev e)
    (scion_replies src (scion_decision_of cp lp h payload e)) = true.
Proof.
  intros cp lp src h payload e Hb He Hs. unfold C09_scion_any_ok.
  destruct (scion_addressed cp lp h) eqn:Ea.
  - apply model_meets_oracle_scion; assumption.
  - assert (scion_replies src (scion_decision_of cp lp h payload e) = []) as ->.
    { unfold scion_addressed in Ea. unfold scion_decision_of.
      destruct (addr_ok (h_src_raw h)); [|reflexivity].
      destruct (addr_ok (h_dst_raw h)); [|reflexivity].
      destruct (h_udp_dst h =? lp); cbn [negb andb] in *.
      - apply negb_false_iff in Ea. rewrite Ea. reflexivity.
      - destruct (_ || _); reflexivity. }
    destruct (scion_forwarded cp lp h); reflexivity.
Qed.

(* ---------- SCION: a request whose packet authenticator does not verify ---------- *)

Lemma model_meets_oracle_scion_auth : forall cp lp src h payload e,
  bytes_ok payload -> env_ok payload e ->
  C09_scion_auth_ok (e_spao_fail e) src cp lp h payload (e_nts_ok e) (e_path_rev e)
    (scion_replies src (scion_decision_of cp lp h payload e)) = true.
Proof.
  intros cp lp src h payload e Hb He. unfold C09_scion_auth_ok.
  destruct (e_spao_fail e) eqn:Es; cbn [andb].
  - destruct (scion_addressed cp lp h) eqn:Ea.
    + assert (scion_decision_of cp lp h payload e = SNoReply) as ->; [|reflexivity].
      unfold scion_addressed in Ea. rewrite !andb_true_iff in Ea. destruct Ea as [[[H1 H2] H3] H4].
      unfold scion_decision_of. rewrite H1, H2, H3, Es. cbn [negb].
      apply negb_true_iff in H4. rewrite H4. reflexivity.
    + (* not for the listener: the authenticator is not looked at *)
      unfold C09_scion_any_ok. rewrite Ea.
      assert (scion_replies src (scion_decision_of cp lp h payload e) = []) as ->.
      { unfold scion_addressed in Ea. unfold scion_decision_of.
        destruct (addr_ok (h_src_raw h)); [|reflexivity].
        destruct (addr_ok (h_dst_raw h)); [|reflexivity].
        destruct (h_udp_dst h =? lp); cbn [negb andb] in *.
        - apply negb_false_iff in Ea. rewrite Ea. reflexivity.
        - destruct (_ || _); reflexivity. }
      destruct (scion_forwarded cp lp h); reflexivity.
  - apply model_meets_oracle_scion_any; assumption.
Qed.

(* ---------- the reply belongs to its request ---------- *)

Lemma be32_bytes : forall a b c d, 0 <= a < 256 -> 0 <= b < 256 -> 0 <= c < 256 -> 0 <= d < 256 ->
  Z.lor (Z.lor (Z.lor (Z.shiftl a 24) (Z.shiftl b 16)) (Z.shiftl c 8)) d =
  a * 16777216 + b * 65536 + c * 256 + d.
Proof.
  intros a b c d Ha Hb Hc Hd.
  rewrite (Z.shiftl_mul_pow2 b 16), (Z.shiftl_mul_pow2 c 8) by lia.
  rewrite (Bytes.lor_shift_add a (b * 2 ^ 16) 24) by lia.
  replace (a * 2 ^ 24 + b * 2 ^ 16) with ((a * 256 + b) * 2 ^ 16) by lia.
  rewrite <- (Z.shiftl_mul_pow2 (a * 256 + b) 16) by lia.
  rewrite (Bytes.lor_shift_add (a * 256 + b) (c * 2 ^ 8) 16) by lia.
  replace ((a * 256 + b) * 2 ^ 16 + c * 2 ^ 8) with ((a * 65536 + b * 256 + c) * 2 ^ 8) by lia.
  rewrite <- (Z.shiftl_mul_pow2 (a * 65536 + b * 256 + c) 8) by lia.
  rewrite (Bytes.lor_shift_add (a * 65536 + b * 256 + c) d 8) by lia.
  lia.
Qed.

Lemma enc32_of_bytes : forall a b c d, 0 <= a < 256 -> 0 <= b < 256 -> 0 <= c < 256 -> 0 <= d < 256 ->
  enc32 (Z.lor (Z.lor (Z.lor (Z.shiftl a 24) (Z.shiftl b 16)) (Z.shiftl c 8)) d) = [a; b; c; d].
Proof.
  intros a b c d Ha Hb Hc Hd. rewrite be32_bytes by assumption.
  unfold enc32, byte_of, u8. rewrite !Z.shiftr_div_pow2 by lia.
  change (2 ^ 24) with 16777216. change (2 ^ 16) with 65536. change (2 ^ 8) with 256. change (2 ^ 0) with 1.
  repeat f_equal; lia.
Qed.

Lemma bytes_ok_nth : forall b i, bytes_ok b -> 0 <= nth i b 0 < 256.
Proof.
  intros b i Hb. destruct (Nat.lt_ge_cases i (length b)) as [Hi|Hi].
  - unfold bytes_ok in Hb. rewrite Forall_forall in Hb. apply Hb. apply nth_In. exact Hi.
  - rewrite nth_overflow by exact Hi. lia.
Qed.

Lemma enc32_be32_at : forall b i, bytes_ok b ->
  enc32 (be32_at b i) = [nth i b 0; nth (i + 1) b 0; nth (i + 2) b 0; nth (i + 3) b 0].
Proof.
  intros b i Hb. unfold be32_at, byte_at. apply enc32_of_bytes; apply bytes_ok_nth; exact Hb.
Qed.

Lemma slice8_nth : forall (b : list Z) i, (i + 8 <= length b)%nat ->
  slice b i 8 = [nth i b 0; nth (i + 1) b 0; nth (i + 2) b 0; nth (i + 3) b 0;
                 nth (i + 4) b 0; nth (i + 5) b 0; nth (i + 6) b 0; nth (i + 7) b 0].
Proof.
  intros b i. revert b. induction i as [|i IH]; intros b Hl.
  - do 8 (destruct b as [|? b]; [simpl in Hl; lia|]). reflexivity.
  - destruct b as [|x b]; [simpl in Hl; lia|]. simpl in Hl.
    unfold slice in *. cbn [skipn Nat.add nth]. apply IH. lia.
Qed.

Lemma time64_slice : forall b i, bytes_ok b -> (i + 8 <= length b)%nat ->
  enc32 (be32_at b i) ++ enc32 (be32_at b (i + 4)) = slice b i 8.
Proof.
  intros b i Hb Hl. rewrite !enc32_be32_at by exact Hb. rewrite (slice8_nth b i Hl).
  replace (i + 4 + 1)%nat with (i + 5)%nat by lia. replace (i + 4 + 2)%nat with (i + 6)%nat by lia.
  replace (i + 4 + 3)%nat with (i + 7)%nat by lia. reflexivity.
Qed.

Lemma encode_origin_slice : forall p ext,
  slice (encode_packet p ++ ext) 24 8 =
  enc32 (t64_sec (origin_time p)) ++ enc32 (t64_frac (origin_time p)).
Proof. intros p ext. reflexivity. Qed.

Lemma reply_pairs : forall b e out, bytes_ok b ->
  (e_nts_ok e = true -> e_nts_ext e <> []) ->
  ntp_decision b e = Reply out -> reply_pairs_ok b out = true.
Proof.
  intros b e out Hb Hext. unfold ntp_decision.
  destruct (decode_packet b) as [rq|] eqn:Ed; [|discriminate].
  assert (48 <= zlen b) as Hlen.
  { unfold decode_packet in Ed. destruct (zlen b <? packet_len) eqn:E; [discriminate|].
    apply Z.ltb_ge in E. unfold packet_len in E. exact E. }
  assert (Hl : (48 <= length b)%nat) by (unfold zlen in Hlen; lia).
  assert (Htx : enc32 (t64_sec (transmit_time rq)) ++ enc32 (t64_frac (transmit_time rq)) = slice b 40 8).
  { unfold decode_packet in Ed. destruct (zlen b <? packet_len); [discriminate|]. inversion Ed; subst rq; clear Ed.
    cbn [transmit_time t64_sec t64_frac]. apply (time64_slice b 40 Hb). lia. }
  assert (Hrx : enc32 (t64_sec (receive_time rq)) ++ enc32 (t64_frac (receive_time rq)) = slice b 32 8).
  { unfold decode_packet in Ed. destruct (zlen b <? packet_len); [discriminate|]. inversion Ed; subst rq; clear Ed.
    cbn [receive_time t64_sec t64_frac]. apply (time64_slice b 32 Hb). lia. }
  rewrite handle_request_total.
  destruct (_ && _) eqn:Ents; [discriminate|]. destruct (negb (validate_request rq)); [discriminate|].
  assert (Horig : forall ext, list_eqb (slice (encode_packet (reply_packet rq e) ++ ext) 24 8) (slice b 40 8)
                            || list_eqb (slice (encode_packet (reply_packet rq e) ++ ext) 24 8) (slice b 32 8) = true).
  { intros ext. rewrite encode_origin_slice. unfold reply_packet. cbn [origin_time].
    destruct (e_store_hit e) as [tx|]; [destruct (negb (time64_eqb (receive_time rq) (transmit_time rq)))|]; cbn [fst].
    - rewrite Hrx, list_eqb_refl. apply orb_true_r.
    - rewrite Htx, list_eqb_refl. reflexivity.
    - rewrite Htx, list_eqb_refl. reflexivity. }
  unfold reply_pairs_ok.
  destruct (packet_len <? zlen b) eqn:Elong; unfold packet_len in Elong.
  - destruct (negb (e_nts_cookie_added e)); [discriminate|]. intros [= <-].
    rewrite Horig. cbn [andb].
    apply Z.ltb_lt in Elong. assert (zlen b =? 48 = false) as -> by (apply Z.eqb_neq; lia).
    cbn [andb] in Ents. apply orb_false_iff in Ents. destruct Ents as [_ Ents]. apply negb_false_iff in Ents.
    rewrite zlen_app, encode_zlen. apply Z.ltb_lt.
    specialize (Hext Ents). destruct (e_nts_ext e); [congruence|]. unfold zlen. simpl length. lia.
  - intros [= <-]. rewrite <- (app_nil_r (encode_packet (reply_packet rq e))) at 1 2.
    rewrite Horig. cbn [andb]. apply Z.ltb_ge in Elong.
    assert (zlen b =? 48 = true) as -> by (apply Z.eqb_eq; lia).
    rewrite encode_zlen. reflexivity.
Qed.

(* nts.MaxPacketLen: a datagram of more than 1024 bytes is never answered, whatever follows
   the header and whatever the NTS code would say about it (no hypothesis on the environment) *)
Lemma oversize_nts_not_answered : forall b e, 1024 < zlen b -> ntp_decision b e = NoReply.
Proof.
  intros b e Hl. unfold ntp_decision. destruct (decode_packet b); [|reflexivity].
  assert (packet_len <? zlen b = true) as -> by (apply Z.ltb_lt; unfold packet_len; lia).
  assert (nts_max_packet_len <? zlen b = true) as -> by (apply Z.ltb_lt; unfold nts_max_packet_len; lia).
  reflexivity.
Qed.

(* the UDP layer delivers the payload the length field delimits, whenever the field does not
   claim more bytes than the datagram has after the UDP header *)
Lemma udp_payload_meets_spec : forall dl L rest, L <= 8 + zlen rest -> 8 + zlen rest <= dl ->
  scion_udp_payload dl L rest = udp_payload_spec L rest.
Proof.
  intros dl L rest HL Hdl. unfold scion_udp_payload, udp_payload, udp_payload_spec.
  assert (dl <? L = false) as -> by (apply Z.ltb_ge; lia).
  destruct (8 <=? L) eqn:E8.
  - apply Z.leb_le in E8. assert (L =? 0 = false) as -> by (apply Z.eqb_neq; lia).
    assert (L <=? 8 + zlen rest = true) as -> by (apply Z.leb_le; lia). reflexivity.
  - destruct (L =? 0); reflexivity.
Qed.
