(* Reservoir sampling with the REAL draws (rejection-sampled 32-bit words):
   how far the distribution over k-subsets is from uniform.

   A draw below m = i+1 (2 <= m <= MaxInt32) is x mod m for the first accepted
   word x (x > 2^32 mod m).  The accepted words with residue j are
   `words_for m j`; there are Q = 2^32 / m of them, Q - 1 for the one residue
   j = 2^32 mod m (SampleProofs.randint_class_sizes).  An accepted-word vector
   [x_k; ...; x_(n-1)] (x_i accepted for i+1) determines the draw vector
   [x_i mod (i+1)] and hence the selected subset.

   With w i j = |words_for (i+1) j| the number of accepted-word vectors that
   select a set with property P is the weighted count wcntP, and
       prod (Q_i - 1) * #draw vectors(P) <= wcntP P <= prod Q_i * #draw vectors(P).
   Since every k-subset has the same number (n-k)! of draw vectors
   (reservoir_subset_uniform), for any two k-subsets S, T of the n candidates
       #words(S) * prod_{i=k}^{n-1} (Q_i - 1) <= #words(T) * prod_{i=k}^{n-1} Q_i :
   the probabilities of two subsets differ by at most the factor
   prod Q_i/(Q_i - 1), the composition of the per-draw deviations (under
   uniform accepted words; the rejected words only delay a draw).  For at most
   65536 candidates each factor is at most 65536/65535. *)
From ST Require Import Base.Ints Model.Sample Model.PathAssign Proofs.SampleProofs Proofs.PathAssignProofs
  Proofs.ReservoirProofs Proofs.ReservoirSetProofs.
From Coq Require Import Arith Lia List Factorial.
Import ListNotations.
Open Scope nat_scope.

(* ---- sums ---- *)
Lemma list_sum_le {A} (f g : A -> nat) l : (forall x, In x l -> f x <= g x) ->
  list_sum (map f l) <= list_sum (map g l).
Proof.
  induction l as [|x r IH]; intros H; [reflexivity|]. cbn [map].
  change (list_sum (f x :: map f r)) with (f x + list_sum (map f r)).
  change (list_sum (g x :: map g r)) with (g x + list_sum (map g r)).
  assert (H1 := H x (or_introl eq_refl)). assert (H2 := IH (fun y Hy => H y (or_intror Hy))). lia.
Qed.

Lemma list_sum_scale {A} c (f : A -> nat) l : list_sum (map (fun x => c * f x) l) = c * list_sum (map f l).
Proof.
  induction l as [|x r IH]; [cbn; lia|]. cbn [map].
  change (list_sum (c * f x :: map (fun x => c * f x) r)) with (c * f x + list_sum (map (fun x => c * f x) r)).
  change (list_sum (f x :: map f r)) with (f x + list_sum (map f r)). rewrite IH. lia.
Qed.

(* ---- weighted counting ---- *)
Section Weighted.
  Variable w : nat -> nat -> nat.        (* w i j: number of ways draw i can come out as j *)
  Variables lo hi : nat -> nat.
  Variables a b : nat.                  (* the draws a <= i < b are the ones the bounds are known for *)
  Hypothesis w_bounds : forall i j, a <= i < b -> j <= i -> lo i <= w i j <= hi i.

  Fixpoint wcntP (P : list nat -> bool) (k : nat) (res : list nat) (i m : nat) : nat :=
    match m with
    | O => if P res then 1 else 0
    | S m' => list_sum (map (fun j => w i j * wcntP P k (rstep k res i j) (S i) m') (seq 0 (S i)))
    end.

  Fixpoint prod_f (f : nat -> nat) (i m : nat) : nat :=
    match m with O => 1 | S m' => f i * prod_f f (S i) m' end.

  Theorem wcnt_bounds P k : forall m res i, a <= i -> i + m <= b ->
    prod_f lo i m * cntP P k res i m <= wcntP P k res i m
    /\ wcntP P k res i m <= prod_f hi i m * cntP P k res i m.
  Proof.
    induction m as [|m IH]; intros res i Ha Hb; cbn [wcntP cntP prod_f]; [lia|]. split.
    - rewrite <- Nat.mul_assoc, <- list_sum_scale, <- list_sum_scale.
      apply list_sum_le. intros j Hj. apply in_seq in Hj.
      destruct (IH (rstep k res i j) (S i) ltac:(lia) ltac:(lia)) as [H1 _]. destruct (w_bounds i j ltac:(lia) ltac:(lia)) as [H2 _].
      transitivity (lo i * wcntP P k (rstep k res i j) (S i) m); [apply Nat.mul_le_mono_l; exact H1|apply Nat.mul_le_mono_r; exact H2].
    - rewrite <- Nat.mul_assoc, <- list_sum_scale, <- list_sum_scale.
      apply list_sum_le. intros j Hj. apply in_seq in Hj.
      destruct (IH (rstep k res i j) (S i) ltac:(lia) ltac:(lia)) as [_ H1]. destruct (w_bounds i j ltac:(lia) ltac:(lia)) as [_ H2].
      transitivity (hi i * wcntP P k (rstep k res i j) (S i) m); [apply Nat.mul_le_mono_r; exact H2|apply Nat.mul_le_mono_l; exact H1].
  Qed.

  (* two k-subsets of the n candidates *)
  Theorem wcnt_subsets k n S T :
    a <= k -> n <= b -> k <= n -> NoDup S -> length S = k -> (forall x, In x S -> x < n) ->
    NoDup T -> length T = k -> (forall x, In x T -> x < n) ->
    wcntP (same_set S) k (seq 0 k) k (n - k) * prod_f lo k (n - k)
    <= wcntP (same_set T) k (seq 0 k) k (n - k) * prod_f hi k (n - k).
  Proof.
    intros Hak Hnb Hk HS1 HS2 HS3 HT1 HT2 HT3.
    assert (ES := reservoir_subset_uniform k n S Hk HS1 HS2 HS3). rewrite <- cntP_counts in ES.
    assert (ET := reservoir_subset_uniform k n T Hk HT1 HT2 HT3). rewrite <- cntP_counts in ET.
    destruct (wcnt_bounds (same_set S) k (n - k) (seq 0 k) k Hak ltac:(lia)) as [_ H1].
    destruct (wcnt_bounds (same_set T) k (n - k) (seq 0 k) k Hak ltac:(lia)) as [H2 _].
    rewrite ES in H1. rewrite ET in H2.
    transitivity (prod_f hi k (n - k) * fact (n - k) * prod_f lo k (n - k)); [apply Nat.mul_le_mono_r; exact H1|].
    transitivity (prod_f lo k (n - k) * fact (n - k) * prod_f hi k (n - k)); [lia|apply Nat.mul_le_mono_r; exact H2].
  Qed.

  (* a uniform bound a/b on every factor hi/lo carries over to the product *)
  Lemma prod_ratio u v : (forall i, i < b -> hi i * v <= lo i * u) ->
    forall m i, i + m <= b -> prod_f hi i m * v ^ m <= prod_f lo i m * u ^ m.
  Proof.
    intros H. induction m as [|m IH]; intros i Hb; cbn [prod_f Nat.pow]; [lia|].
    specialize (IH (S i) ltac:(lia)). specialize (H i ltac:(lia)).
    transitivity ((hi i * v) * (prod_f hi (S i) m * v ^ m)); [lia|].
    transitivity ((lo i * u) * (prod_f lo (S i) m * u ^ m)); [|lia].
    apply Nat.mul_le_mono; assumption.
  Qed.
End Weighted.

(* ---- the weights of the real draws ---- *)
Open Scope Z_scope.

Definition zrange (lo hi : Z) : list Z := map (fun t => lo + Z.of_nat t) (seq 0 (Z.to_nat (hi - lo))).

(* the accepted words of a draw below m that give residue j *)
Definition words_for (m j : Z) : list Z := map (fun q => q * m + j) (zrange (acc_lo m j) (acc_hi m j)).

Lemma zrange_In lo hi x : In x (zrange lo hi) <-> lo <= x < hi.
Proof.
  unfold zrange. rewrite in_map_iff. split.
  - intros [t [<- Ht]]. apply in_seq in Ht. lia.
  - intros H. exists (Z.to_nat (x - lo)). split; [lia|apply in_seq; lia].
Qed.

Lemma zrange_NoDup lo hi : NoDup (zrange lo hi).
Proof.
  unfold zrange. apply FinFun.Injective_map_NoDup; [|apply seq_NoDup]. intros a b H. lia.
Qed.

Theorem words_for_spec m j x : 2 <= m <= max_i32 -> 0 <= j < m ->
  In x (words_for m j) <-> (word x /\ thresh31 m < x /\ x mod m = j).
Proof.
  intros Hm Hj. rewrite (randint_residue_classes m j x Hm Hj). unfold words_for. rewrite in_map_iff. split.
  - intros [q [<- Hq]]. apply zrange_In in Hq. exists q. split; [reflexivity|exact Hq].
  - intros [q [-> Hq]]. exists q. split; [reflexivity|apply zrange_In; exact Hq].
Qed.

Lemma words_for_NoDup m j : 2 <= m -> NoDup (words_for m j).
Proof.
  intros Hm. unfold words_for. apply FinFun.Injective_map_NoDup; [|apply zrange_NoDup]. intros a b H. nia.
Qed.

Lemma words_for_length m j : 2 <= m <= max_i32 -> 0 <= j < m ->
  Z.of_nat (length (words_for m j)) = (if j =? two32 mod m then two32 / m - 1 else two32 / m).
Proof.
  intros Hm Hj. unfold words_for, zrange. rewrite !map_length, seq_length.
  destruct (randint_class_sizes m j Hm Hj) as [E _]. rewrite <- E.
  assert (0 <= acc_hi m j - acc_lo m j); [|lia]. rewrite E.
  assert (2 <= two32 / m). { apply Z.div_le_lower_bound; unfold max_i32, two32 in *; lia. }
  destruct (j =? two32 mod m); lia.
Qed.

Definition wreal (i j : nat) : nat := length (words_for (Z.of_nat (S i)) (Z.of_nat j)).
Definition qlo (i : nat) : nat := Z.to_nat (two32 / Z.of_nat (S i) - 1).
Definition qhi (i : nat) : nat := Z.to_nat (two32 / Z.of_nat (S i)).

Lemma wreal_bounds i j : (1 <= i)%nat -> Z.of_nat (S i) <= max_i32 -> (j <= i)%nat -> (qlo i <= wreal i j <= qhi i)%nat.
Proof.
  intros Hi Hm Hj. unfold wreal, qlo, qhi.
  assert (Hm2 : 2 <= Z.of_nat (S i) <= max_i32) by lia.
  assert (Hj2 : 0 <= Z.of_nat j < Z.of_nat (S i)) by lia.
  assert (E := words_for_length _ _ Hm2 Hj2).
  assert (2 <= two32 / Z.of_nat (S i)). { apply Z.div_le_lower_bound; unfold max_i32, two32 in *; lia. }
  destruct (Z.of_nat j =? two32 mod Z.of_nat (S i)); lia.
Qed.

(* every factor Q/(Q-1) is at most 65536/65535 when there are at most 65536 candidates *)
Lemma q_ratio i : Z.of_nat (S i) <= 65536 ->
  Z.of_nat (qhi i) * 65535 <= Z.of_nat (qlo i) * 65536 /\ 0 < Z.of_nat (qlo i).
Proof.
  intros Hm. unfold qhi, qlo.
  assert (65536 <= two32 / Z.of_nat (S i)). { apply Z.div_le_lower_bound; unfold two32; lia. }
  lia.
Qed.

Lemma prod_ratio_Z (lo hi : nat -> nat) (b : nat) (u v : Z) : 0 <= u -> 0 <= v ->
  (forall i, (i < b)%nat -> Z.of_nat (hi i) * v <= Z.of_nat (lo i) * u) ->
  forall m i, (i + m <= b)%nat ->
    Z.of_nat (prod_f hi i m) * v ^ Z.of_nat m <= Z.of_nat (prod_f lo i m) * u ^ Z.of_nat m.
Proof.
  intros Hu Hv H. induction m as [|m IH]; intros i Hb; cbn [prod_f]; [cbn; lia|].
  specialize (IH (S i) ltac:(lia)). specialize (H i ltac:(lia)).
  rewrite !Nat2Z.inj_succ, !Z.pow_succ_r, !Nat2Z.inj_mul by lia.
  assert (0 <= v ^ Z.of_nat m) by (apply Z.pow_nonneg; lia).
  assert (0 <= u ^ Z.of_nat m) by (apply Z.pow_nonneg; lia).
  transitivity ((Z.of_nat (hi i) * v) * (Z.of_nat (prod_f hi (S i) m) * v ^ Z.of_nat m)); [lia|].
  transitivity ((Z.of_nat (lo i) * u) * (Z.of_nat (prod_f lo (S i) m) * u ^ Z.of_nat m)); [|lia].
  apply Z.mul_le_mono_nonneg; lia.
Qed.

(* ---- accepted-word vectors ---- *)
Fixpoint wvectors (i m : nat) : list (list Z) :=
  match m with
  | O => [[]]
  | S m' => flat_map (fun j => flat_map (fun x => map (cons x) (wvectors (S i) m')) (words_for (Z.of_nat (S i)) (Z.of_nat j)))
                     (seq 0 (S i))
  end.

(* the draws of a word vector: x_i mod (i+1) *)
Fixpoint draws_of (i : nat) (xs : list Z) : list nat :=
  match xs with [] => [] | x :: r => Z.to_nat (x mod Z.of_nat (S i)) :: draws_of (S i) r end.

Fixpoint accepted (i : nat) (xs : list Z) : Prop :=
  match xs with [] => True | x :: r => word x /\ thresh31 (Z.of_nat (S i)) < x /\ accepted (S i) r end.

Theorem wvectors_spec m : forall i xs, (1 <= i)%nat -> Z.of_nat (i + m) <= max_i32 ->
  In xs (wvectors i m) <-> length xs = m /\ accepted i xs.
Proof.
  induction m as [|m IH]; intros i xs Hi Hmax; cbn [wvectors].
  - split.
    + intros [<-|[]]. split; [reflexivity|exact I].
    + intros [Hl _]. destruct xs; [left; reflexivity|discriminate].
  - assert (Hm2 : 2 <= Z.of_nat (S i) <= max_i32) by lia.
    rewrite in_flat_map. split.
    + intros [j [Hj Hin]]. apply in_seq in Hj. apply in_flat_map in Hin. destruct Hin as [x [Hx Hin]].
      apply in_map_iff in Hin. destruct Hin as [r [<- Hr]].
      apply words_for_spec in Hx; [|exact Hm2|lia]. destruct Hx as [Hw [Ht _]].
      apply IH in Hr; [|lia|lia]. destruct Hr as [Hl Ha]. cbn [length accepted]. split; [lia|]. split; [exact Hw|]. split; [exact Ht|exact Ha].
    + intros [Hl Ha]. destruct xs as [|x r]; [discriminate|]. cbn [length accepted] in *. destruct Ha as [Hw [Ht Ha]].
      assert (Hr : 0 <= x mod Z.of_nat (S i) < Z.of_nat (S i)) by (apply Z.mod_pos_bound; lia).
      exists (Z.to_nat (x mod Z.of_nat (S i))). split; [apply in_seq; lia|].
      apply in_flat_map. exists x. split.
      * apply words_for_spec; [exact Hm2|lia|]. split; [exact Hw|]. split; [exact Ht|lia].
      * apply in_map. apply IH; [lia|lia|]. split; [lia|exact Ha].
Qed.

Lemma length_filter_flat_map' {A B} (P : B -> bool) (f : A -> list B) l :
  length (filter P (flat_map f l)) = list_sum (map (fun x => length (filter P (f x))) l).
Proof. apply length_filter_flat_map. Qed.

(* the weighted count counts accepted-word vectors *)
Theorem wcnt_counts P k m : forall res i, (1 <= i)%nat -> Z.of_nat (i + m) <= max_i32 ->
  wcntP wreal P k res i m
  = length (filter (fun xs => P (run k res i (draws_of i xs))) (wvectors i m)).
Proof.
  induction m as [|m IH]; intros res i Hi Hmax; cbn [wcntP wvectors].
  - cbn [filter draws_of run]. destruct (P res); reflexivity.
  - rewrite length_filter_flat_map. f_equal. apply map_ext_in. intros j Hj. apply in_seq in Hj.
    rewrite length_filter_flat_map.
    rewrite (sum_const _ (wcntP wreal P k (rstep k res i j) (S i) m)); [unfold wreal; reflexivity|].
    intros x Hx. rewrite filter_map_cons. cbn [draws_of run].
    assert (Hm2 : 2 <= Z.of_nat (S i) <= max_i32) by lia.
    apply words_for_spec in Hx; [|exact Hm2|lia]. destruct Hx as [_ [_ Hx]]. rewrite Hx, Nat2Z.id.
    symmetry. apply IH; lia.
Qed.

(* Composed bound: two k-subsets S, T of n <= MaxInt32 candidates (1 <= k <= n), counted in accepted-word vectors *)
Theorem reservoir_words_bound k n S T :
  (1 <= k <= n)%nat -> Z.of_nat n <= max_i32 ->
  NoDup S -> length S = k -> (forall x, In x S -> (x < n)%nat) ->
  NoDup T -> length T = k -> (forall x, In x T -> (x < n)%nat) ->
  let count U := length (filter (fun xs => same_set U (run k (seq 0 k) k (draws_of k xs))) (wvectors k (n - k))) in
  (count S * prod_f qlo k (n - k) <= count T * prod_f qhi k (n - k))%nat.
Proof.
  intros Hk Hn HS1 HS2 HS3 HT1 HT2 HT3. cbv beta zeta.
  rewrite <- (wcnt_counts (same_set S) k (n - k) (seq 0 k) k) by lia.
  rewrite <- (wcnt_counts (same_set T) k (n - k) (seq 0 k) k) by lia.
  apply (wcnt_subsets wreal qlo qhi 1 n); try assumption; try lia.
  intros i j Hi Hj. apply wreal_bounds; lia.
Qed.

(* ... and with at most 65536 candidates the factor is at most (65536/65535)^(n-k) *)
Theorem reservoir_words_bound_small k n S T :
  (1 <= k <= n)%nat -> Z.of_nat n <= 65536 ->
  NoDup S -> length S = k -> (forall x, In x S -> (x < n)%nat) ->
  NoDup T -> length T = k -> (forall x, In x T -> (x < n)%nat) ->
  let count U := length (filter (fun xs => same_set U (run k (seq 0 k) k (draws_of k xs))) (wvectors k (n - k))) in
  Z.of_nat (count S) * 65535 ^ Z.of_nat (n - k) <= Z.of_nat (count T) * 65536 ^ Z.of_nat (n - k).
Proof.
  intros Hk Hn HS1 HS2 HS3 HT1 HT2 HT3. cbv beta zeta.
  assert (Hn' : Z.of_nat n <= max_i32) by (unfold max_i32; lia).
  assert (H := reservoir_words_bound k n S T Hk Hn' HS1 HS2 HS3 HT1 HT2 HT3). cbv beta zeta in H.
  assert (Hr := prod_ratio_Z qlo qhi n 65536 65535 ltac:(lia) ltac:(lia)
                  (fun i Hi => proj1 (q_ratio i ltac:(lia))) (n - k)%nat k ltac:(lia)).
  set (cS := length (filter (fun xs => same_set S (run k (seq 0 k) k (draws_of k xs))) (wvectors k (n - k)))) in *.
  set (cT := length (filter (fun xs => same_set T (run k (seq 0 k) k (draws_of k xs))) (wvectors k (n - k)))) in *.
  set (L := prod_f qlo k (n - k)) in *. set (Hh := prod_f qhi k (n - k)) in *.
  assert (HL : 0 < Z.of_nat L).
  { unfold L. clear - Hk Hn. assert (G : forall m i, (1 <= i)%nat -> Z.of_nat (i + m) <= 65536 -> 0 < Z.of_nat (prod_f qlo i m)).
    { induction m as [|m IH]; intros i H1 H2; cbn [prod_f]; [lia|]. specialize (IH (S i) ltac:(lia) ltac:(lia)).
      destruct (q_ratio i ltac:(lia)) as [_ Hq]. nia. }
    apply G; lia. }
  set (p5 := 65535 ^ Z.of_nat (n - k)) in *. set (p6 := 65536 ^ Z.of_nat (n - k)) in *.
  assert (0 <= p5) by (apply Z.pow_nonneg; lia).
  assert (0 <= p6) by (apply Z.pow_nonneg; lia).
  assert (H' : Z.of_nat cS * Z.of_nat L <= Z.of_nat cT * Z.of_nat Hh) by nia.
  (* cS * L <= cT * Hh and Hh * p5 <= L * p6 *)
  apply (Z.mul_le_mono_pos_r _ _ (Z.of_nat L) HL).
  transitivity (Z.of_nat cT * Z.of_nat Hh * p5); [nia|].
  transitivity (Z.of_nat cT * (Z.of_nat L * p6)); [|lia].
  rewrite <- Z.mul_assoc. apply Z.mul_le_mono_nonneg_l; [lia|exact Hr].
Qed.
