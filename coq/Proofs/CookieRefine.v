(* C11: the concrete system (Model/CookieSystem.v: the functions the check executes)
   refines the abstract history system (sys_step of Model/CookiePool.v), and the
   history theorems restated over runs of the concrete system. *)
From ST Require Import Base.Ints Base.Bytes Model.CookiePool Model.CookieSystem
  Proofs.CookiePoolProofs Proofs.CookieCodecProofs.
From Coq Require Import ZArith List Bool Lia.
Import ListNotations.
Open Scope Z_scope.
Ltac Zify.zify_post_hook ::= Z.div_mod_to_equations.

Lemma filter_all {A} (f : A -> bool) l : (forall x, In x l -> f x = true) -> filter f l = l.
Proof.
  induction l as [|a l IH]; intros H; cbn [filter]; [reflexivity|].
  rewrite (H a (or_introl eq_refl)). f_equal. apply IH. intros x Hx. apply H. right. exact Hx.
Qed.

(* StoreCookie: nothing is dropped while there is room, and the pool never passes eight *)
Lemma store_all cs : forall p,
  Forall (fun x => cookie_len_ok x = true) cs -> (length p + length cs <= 8)%nat ->
  fold_left store_cookie cs p = p ++ cs.
Proof.
  induction cs as [|c r IH]; intros p Hall Hlen; cbn [fold_left]; [rewrite app_nil_r; reflexivity|].
  apply Forall_cons_iff in Hall as [Hc Hr]. cbn [length] in Hlen.
  unfold store_cookie at 2. rewrite Hc. cbn [negb].
  destruct (MaxStoredCookies <=? zlen p) eqn:E; [apply Z.leb_le in E; unfold MaxStoredCookies, zlen in E; lia|].
  rewrite IH; [rewrite <- app_assoc; reflexivity|exact Hr|rewrite app_length; cbn [length]; lia].
Qed.

Lemma store_cap cs : forall p, (length p <= 8)%nat -> (length (fold_left store_cookie cs p) <= 8)%nat.
Proof.
  induction cs as [|c r IH]; intros p Hp; cbn [fold_left]; [exact Hp|]. apply IH.
  unfold store_cookie. destruct (negb (cookie_len_ok c)); [exact Hp|].
  destruct (MaxStoredCookies <=? zlen p) eqn:E; [exact Hp|].
  apply Z.leb_gt in E. unfold MaxStoredCookies, zlen in E. rewrite app_length. cbn [length]. lia.
Qed.

Lemma store_grows cs : forall p, (length p <= length (fold_left store_cookie cs p))%nat.
Proof.
  induction cs as [|c r IH]; intros p; cbn [fold_left]; [lia|].
  eapply Nat.le_trans; [|apply IH]. unfold store_cookie.
  destruct (negb (cookie_len_ok c)); [lia|]. destruct (MaxStoredCookies <=? zlen p); [lia|].
  rewrite app_length. lia.
Qed.

Section Exchange.
Variable seal : bytes -> bytes -> bytes -> bytes -> bytes.
Variable aopen : bytes -> bytes -> bytes -> bytes -> option bytes.
Hypothesis seal_len : forall k n p a, zlen (seal k n p a) = zlen p + 16.
Hypothesis open_seal : forall k n p a, aopen k n (seal k n p a) a = Some p.
Variable L : Z.
Hypothesis L4 : L mod 4 = 0.
Hypothesis L24 : 24 <= L.
Hypothesis Lfit : 1 <= max_cookies 32 L.

Lemma L_small : L <= 1024.
Proof.
  pose proof (max_cookies_fit 32 L ltac:(lia) Lfit) as H. unfold field_len, MaxPacketLen, ntpPacketLen in H.
  rewrite (pad4_mult4 _ L4) in H. change (pad4 32) with 32 in H.
  set (m := max_cookies 32 L) in *.
  assert (1 * (4 + L) <= m * (4 + L)) by (apply Z.mul_le_mono_nonneg_r; lia). lia.
Qed.

Definition placeholders_at (level : Z) : nat := Z.to_nat (Z.max 0 (num_placeholders level 32 L)).

(* the client's request for a pool c :: rest *)
Lemma client_request_wire (d : client) c rest uid nonce hdr :
  pool d = c :: rest -> zlen c = L -> zlen (c2s d) = 32 ->
  zlen uid = 32 -> zlen nonce = 16 -> zlen hdr = 48 ->
  let p := placeholders_at (zlen (pool d)) in
  client_request seal d uid nonce hdr = Ok (request_wire seal hdr uid c nonce (c2s d) p) /\
  zlen (request_wire seal hdr uid c nonce (c2s d) p) <= MaxPacketLen.
Proof.
  intros Hp Hc Hk Hu Hn Hh p.
  assert (Hko : key_ok (c2s d) = true) by (unfold key_ok; rewrite Hk; reflexivity).
  destruct (request_encoding seal seal_len hdr uid c rest (c2s d) nonce Hh Hu Hko Hn ltac:(rewrite Hc; exact Lfit))
    as [pkt [E1 [_ [_ [E2 [E3 E4]]]]]].
  assert (E1' : new_request (pool d) (c2s d) uid = Ok pkt) by (rewrite Hp; exact E1).
  unfold client_request. rewrite E1'. cbn [obind]. rewrite Hc in *.
  assert (Ep : p = Z.to_nat (Z.max 0 (num_placeholders (zlen (c :: rest)) 32 L)))
    by (unfold p, placeholders_at; rewrite Hp; reflexivity).
  rewrite Ep. split; [exact E2|]. eapply Z.le_trans; [|exact E4]. apply Z.eq_le_incl. exact E3.
Qed.

(* ProcessRequest on it succeeds and finds no further cookies *)
Lemma authenticate_request hdr uid c nonce key p :
  zlen hdr = 48 -> zlen uid = 32 -> zlen c = L -> zlen nonce = 16 -> zlen key = 32 ->
  zlen (request_wire seal hdr uid c nonce key p) <= MaxPacketLen ->
  exists dq, decode_packet (request_wire seal hdr uid c nonce key p) = Ok dq /\
    d_uid dq = Some uid /\ d_cookies dq = [c] /\ d_nplaceholders dq = Z.of_nat p /\
    authenticate aopen (request_wire seal hdr uid c nonce key p) dq key = Ok [].
Proof.
  intros Hh Hu Hc Hn Hk Hfit.
  destruct (decode_request seal seal_len hdr uid c nonce key p Hh Hu ltac:(rewrite Hc; exact L4) Hn Hfit) as [Ew Ed].
  eexists. split; [exact Ed|]. cbn [d_uid d_cookies d_nplaceholders]. repeat split.
  unfold authenticate. cbn [d_auth]. unfold key_ok. rewrite Hk, Hn. cbn [negb Z.eqb orb Pos.eqb].
  rewrite Ew at 1. rewrite firstn_zlen. rewrite open_seal. reflexivity.
Qed.

(* the server's reply to a request asking for n cookies, cs being the n cookies it made *)
Lemma server_reply_wire hdr uid c nonce kc2s ks2c p (mk : nat -> list bytes) rnonce rhdr :
  zlen hdr = 48 -> zlen uid = 32 -> zlen c = L -> zlen nonce = 16 -> zlen kc2s = 32 -> zlen ks2c = 32 ->
  zlen rnonce = 16 -> zlen rhdr = 48 ->
  zlen (request_wire seal hdr uid c nonce kc2s p) <= MaxPacketLen ->
  (forall n, length (mk n) = n /\ Forall (fun x => zlen x = L) (mk n)) ->
  let cs := mk (S p) in
  let k := reply_count (1 + Z.of_nat p) 32 L in
  let sent := firstn (Z.to_nat k) cs in
  server_reply seal aopen (request_wire seal hdr uid c nonce kc2s p) kc2s ks2c mk rnonce rhdr
    = Ok (reply_wire seal rhdr uid rnonce ks2c sent, sent) /\
  zlen (reply_wire seal rhdr uid rnonce ks2c sent) <= MaxPacketLen /\ zlen sent = k.
Proof.
  intros Hh Hu Hc Hn Hk1 Hk2 Hrn Hrh Hfit Hmk cs k sent.
  destruct (authenticate_request hdr uid c nonce kc2s p Hh Hu Hc Hn Hk1 Hfit) as [dq [Ed [Eu [Ec [Ep Ea]]]]].
  unfold server_reply. rewrite Ed. cbn [obind]. rewrite Ec, Ea. cbn [obind]. rewrite Ep, Eu.
  repeat match goal with |- context [mk ?n] =>
    lazymatch n with S p => fail | _ => replace n with (S p) by (unfold zlen; cbn [app length]; lia) end end.
  fold cs.
  destruct (Hmk (S p)) as [Hlen Hall]. fold cs in Hlen, Hall.
  destruct cs as [|c0 r] eqn:Ecs; [cbn in Hlen; lia|].
  assert (Hko : key_ok ks2c = true) by (unfold key_ok; rewrite Hk2; reflexivity).
  assert (Hzcs : zlen (c0 :: r) = 1 + Z.of_nat p) by (unfold zlen; rewrite Hlen; lia).
  unfold bytes in *.
  destruct (reply_encoding seal seal_len rhdr uid c0 r ks2c rnonce L Hrh ltac:(lia) Hko Hrn Hall L4 ltac:(lia)
              ltac:(rewrite Hu; exact Lfit)) as [pkt [E1 [E2 [E3 [E4 E5]]]]].
  unfold bytes in *. rewrite Hu in *. rewrite Hzcs in E2, E3, E4, E5. fold k in E2, E3, E4, E5. rewrite E1. cbn [obind]. rewrite E2. cbn [obind].
  destruct (cap_cookies_spec 32 c0 r) as [Hcap _]. cbv zeta in Hcap.
  assert (Hc0 : zlen c0 = L) by (inversion Hall; assumption).
  rewrite Hc0, Hzcs in Hcap. fold k in Hcap. rewrite Hcap.
  unfold sent. split; [reflexivity|]. split; [rewrite E4; exact E5|exact E3].
Qed.

(* the client takes the cookies of that reply into its pool *)
Lemma client_process_wire rhdr uid rnonce ks2c (sent : list bytes) (c1 : client) :
  zlen rhdr = 48 -> zlen uid = 32 -> zlen rnonce = 16 -> zlen ks2c = 32 ->
  Forall (fun x => zlen x = L) sent -> L <= MaxCookieLen ->
  zlen (reply_wire seal rhdr uid rnonce ks2c sent) <= MaxPacketLen ->
  (length (pool c1) + length sent <= 8)%nat ->
  client_process aopen (reply_wire seal rhdr uid rnonce ks2c sent) ks2c uid c1
    = Ok {| pool := pool c1 ++ sent; c2s := c2s c1; s2c := s2c c1 |}.
Proof.
  intros Hh Hu Hn Hk Hall Hmax Hfit Hroom.
  pose proof (decode_reply seal seal_len rhdr uid rnonce ks2c sent Hh ltac:(lia) ltac:(rewrite Hu; reflexivity) Hn Hfit) as Ed.
  cbv zeta in Ed. unfold client_process. rewrite Ed. cbn [obind d_uid]. rewrite bytes_eq_refl. cbn [negb].
  unfold authenticate. cbn [d_auth]. unfold key_ok. rewrite Hk, Hn. cbn [negb Z.eqb orb Pos.eqb].
  unfold reply_wire at 1. cbv zeta. rewrite firstn_zlen. rewrite open_seal.
  (* the cookie fields of the plaintext *)
  assert (Hplain : concat (map (enc_field extCookie) sent) = [] ++ concat (map (efield extCookie) sent)).
  { cbn [app]. f_equal. apply map_ext_in. intros x Hx. apply enc_field_efield.
    rewrite Forall_forall in Hall. rewrite (Hall x Hx). exact L4. }
  rewrite Hplain.
  pose proof L_small.
  rewrite (plain_cookies_fields L L4 L24 ltac:(lia) sent _ [] [] Hall).
  2:{ cbn [app]. clear - Hall L24. induction Hall as [|x l Hx Hl IH]; cbn [map concat length]; [lia|].
      rewrite app_length. assert (4 <= length (efield extCookie x))%nat.
      { pose proof (efield_len extCookie x). unfold zlen in *. lia. } lia. }
  cbn [obind d_cookies app]. unfold store. rewrite store_all; [reflexivity| |exact Hroom].
  apply Forall_forall. intros x Hx. rewrite Forall_forall in Hall.
  unfold cookie_len_ok. rewrite (Hall x Hx). apply Z.leb_le. exact Hmax.
Qed.

End Exchange.

(* ================= the concrete system refines the abstract one ================= *)
Section Refine.
Variable seal : bytes -> bytes -> bytes -> bytes -> bytes.
Variable aopen : bytes -> bytes -> bytes -> bytes -> option bytes.
Variable mk_cookie : Z -> Z -> nat -> bytes -> bytes -> bytes.
Variable cookie_keyid : bytes -> Z.
Variable open_cookie : Z -> bytes -> option (bytes * bytes).
Variable pstate : Type.
Variable pcurrent : pstate -> Z -> option (skey * pstate).
Variable pget : pstate -> Z -> Z -> option skey.
(* the opaque identity of a cookie: the number of the server nonce inside it *)
Variable cid : bytes -> nat.
Variable L : Z.

Hypothesis seal_len : forall k n p a, zlen (seal k n p a) = zlen p + 16.
Hypothesis open_seal : forall k n p a, aopen k n (seal k n p a) a = Some p.
Hypothesis L4 : L mod 4 = 0.
Hypothesis L24 : 24 <= L.
Hypothesis Lmax : L <= MaxCookieLen.
Hypothesis Lfit : 1 <= max_cookies 32 L.
Hypothesis mk_len : forall id v n a b, zlen a = 32 -> zlen b = 32 -> zlen (mk_cookie id v n a b) = L.
Hypothesis cid_mk : forall id v n a b, cid (mk_cookie id v n a b) = n.
Hypothesis kid_mk : forall id v n a b, cookie_keyid (mk_cookie id v n a b) = id.
Hypothesis open_mk : forall id v n a b, zlen a = 32 -> zlen b = 32 -> open_cookie v (mk_cookie id v n a b) = Some (a, b).

(* the key provider, by the facts C12 proves of it: [plog] the keys it has handed out,
   [PInv T] its invariant when T is the latest clock reading *)
Variable plog : pstate -> list skey.
Variable PInv : Z -> pstate -> Prop.
Hypothesis P_cur : forall T p t k p', PInv T p -> T <= t -> pcurrent p t = Some (k, p') ->
  PInv t p' /\ In k (plog p') /\ incl (plog p) (plog p') /\ pget p' (sk_id k) t = Some k.
Hypothesis P_get : forall T p id t k, PInv T p -> pget p id t = Some k -> sk_id k = id /\ In k (plog p).
Hypothesis P_uniq : forall T p x y, PInv T p -> In x (plog p) -> In y (plog p) -> sk_id x = sk_id y -> x = y.
Hypothesis P_weak : forall T T' p, PInv T p -> T <= T' -> PInv T' p.

Notation Cstep := (cstep pstate pcurrent pget seal aopen mk_cookie cookie_keyid open_cookie).
Notation Cexchange := (cexchange pstate pcurrent pget seal aopen mk_cookie cookie_keyid open_cookie).
Notation Ntp_server := (ntp_server pstate pcurrent pget seal aopen mk_cookie cookie_keyid open_cookie).
Notation Crun := (crun pstate pcurrent pget seal aopen mk_cookie cookie_keyid open_cookie).
Notation Make := (make_cookies mk_cookie).

Definition wf_op (o : cop) : Prop :=
  0 <= o_age o /\ zlen (o_uid o) = 32 /\ zlen (o_nonce o) = 16 /\ zlen (o_hdr o) = 48 /\
  zlen (o_rnonce o) = 16 /\ zlen (o_rhdr o) = 48 /\
  match o_ke o with Some (a, b) => zlen a = 32 /\ zlen b = 32 | None => True end.

(* c is a cookie the servers made, with a key the provider handed out, for session keys (a, b) *)
Definition made_for (p : pstate) (next : nat) (a b c : bytes) : Prop :=
  exists k n, In k (plog p) /\ (n < next)%nat /\ c = mk_cookie (sk_id k) (sk_val k) n a b.

Definition CInv (s : csys pstate) : Prop :=
  let cl := cs_client s in
  let sv := cs_server s in
  PInv (cs_now s) (sv_prov sv) /\
  Forall (made_for (sv_prov sv) (sv_next sv) (c2s cl) (s2c cl)) (pool cl) /\
  (pool cl <> [] -> zlen (c2s cl) = 32 /\ zlen (s2c cl) = 32) /\
  (length (pool cl) <= 8)%nat.

(* the abstraction: cookies by their identity *)
Definition alpha (s : csys pstate) : sys nat :=
  {| s_pool := map cid (pool (cs_client s)); s_next := sv_next (cs_server s); s_sent := map cid (cs_sent s) |}.

Lemma made_for_mono p p' n n' a b c :
  incl (plog p) (plog p') -> (n <= n')%nat -> made_for p n a b c -> made_for p' n' a b c.
Proof. intros Hi Hn [k [m [H1 [H2 H3]]]]. exists k, m. repeat split; [apply Hi, H1|lia|exact H3]. Qed.

Lemma make_length k from a b n : length (Make k from a b n) = n.
Proof. unfold make_cookies. rewrite map_length, seq_length. reflexivity. Qed.

Lemma make_len k from a b n : zlen a = 32 -> zlen b = 32 -> Forall (fun x => zlen x = L) (Make k from a b n).
Proof. intros Ha Hb. unfold make_cookies. apply Forall_forall. intros x Hx. apply in_map_iff in Hx as [i [<- _]]. apply mk_len; assumption. Qed.

Lemma make_cid k from a b n : map cid (Make k from a b n) = seq from n.
Proof.
  unfold make_cookies. rewrite map_map. erewrite map_ext; [apply map_id|]. intros i. apply cid_mk.
Qed.

Lemma make_made p k from a b n :
  In k (plog p) -> Forall (made_for p (from + n) a b) (Make k from a b n).
Proof.
  intros Hk. unfold make_cookies. apply Forall_forall. intros x Hx. apply in_map_iff in Hx as [i [<- Hi]].
  apply in_seq in Hi. exists k, i. repeat split; [exact Hk|lia].
Qed.

Lemma Forall_firstn' {A} (P : A -> Prop) n l : Forall P l -> Forall P (firstn n l).
Proof. revert n. induction l; intros [|n] H; simpl; try constructor; inversion H; subst; auto. Qed.

Lemma firstn_seq a n k : (k <= n)%nat -> firstn k (seq a n) = seq a k.
Proof.
  revert a n. induction k as [|k IH]; intros a n H; [reflexivity|].
  destruct n as [|n]; [lia|]. cbn [seq firstn]. f_equal. apply IH. lia.
Qed.

Lemma issue_n_id a n : issue_n (fun k : nat => k) a n = seq a n.
Proof. unfold issue_n. apply map_id. Qed.

(* the NTP server on a request of the client *)
Lemma ntp_server_spec sv now hdr uid c nonce a b p rnonce rhdr T r sv2 :
  PInv T (sv_prov sv) -> T <= now ->
  made_for (sv_prov sv) (sv_next sv) a b c ->
  zlen hdr = 48 -> zlen uid = 32 -> zlen nonce = 16 -> zlen a = 32 -> zlen b = 32 ->
  zlen rnonce = 16 -> zlen rhdr = 48 ->
  zlen (request_wire seal hdr uid c nonce a p) <= MaxPacketLen ->
  Ntp_server sv now (request_wire seal hdr uid c nonce a p) rnonce rhdr = Some (r, sv2) ->
  (r = None /\ sv2 = sv) \/
  (exists cur p', pcurrent (sv_prov sv) now = Some (cur, p') /\
     let sent := firstn (Z.to_nat (reply_count (1 + Z.of_nat p) 32 L)) (Make cur (sv_next sv) a b (S p)) in
     r = Some (reply_wire seal rhdr uid rnonce b sent, sent, cur) /\
     sv2 = {| sv_prov := p'; sv_next := (sv_next sv + S p)%nat |} /\
     zlen (reply_wire seal rhdr uid rnonce b sent) <= MaxPacketLen /\
     zlen sent = reply_count (1 + Z.of_nat p) 32 L).
Proof.
  intros HP HT [k [n [Hk [Hn Hc]]]] Hh Hu Hno Ha Hb Hrn Hrh Hfit H.
  assert (Hcl : zlen c = L) by (rewrite Hc; apply mk_len; assumption).
  destruct (authenticate_request seal aopen seal_len open_seal L L4 hdr uid c nonce a p Hh Hu Hcl Hno Ha Hfit)
    as [dq [Ed [Eu [Ec [Ep _]]]]].
  unfold ntp_server in H. rewrite Ed, Ec in H.
  destruct (pget (sv_prov sv) (cookie_keyid c) now) as [key|] eqn:Eg;
    [|left; inversion H; subst; tauto].
  assert (key = k).
  { rewrite Hc, kid_mk in Eg. destruct (P_get T _ _ _ _ HP Eg) as [Hid Hin].
    apply (P_uniq T (sv_prov sv)); assumption. }
  subst key. rewrite Hc, (open_mk _ _ _ _ _ Ha Hb) in H. rewrite <- Hc in H.
  destruct (pcurrent (sv_prov sv) now) as [[cur p']|] eqn:Ecur; [|discriminate].
  destruct (server_reply_wire seal aopen seal_len open_seal L L4 L24 Lfit hdr uid c nonce a b p
              (Make cur (sv_next sv) a b) rnonce rhdr Hh Hu Hcl Hno Ha Hb Hrn Hrh Hfit
              ltac:(intros m; split; [apply make_length|apply make_len; assumption])) as [Es [Ef Ez]].
  cbv zeta in Es. rewrite Es in H. right. exists cur, p'. split; [reflexivity|]. cbv zeta.
  rewrite Ep in H.
  assert (Hn' : Z.to_nat (zlen [c] + Z.of_nat p) = S p) by (unfold zlen; cbn [length]; lia).
  unfold bytes in *. rewrite Hn' in H.
  inversion H as [[Hr Hs]]. repeat split; assumption.
Qed.

Lemma zlen_map {A B} (f : A -> B) l : zlen (map f l) = zlen l.
Proof. unfold zlen. rewrite map_length. reflexivity. Qed.

Lemma Forall_tl {A} (P : A -> Prop) x l : Forall P (x :: l) -> Forall P l.
Proof. intros H. inversion H; assumption. Qed.

Lemma Forall_mono {A} (P Q : A -> Prop) l : (forall x, P x -> Q x) -> Forall P l -> Forall Q l.
Proof. intros H HP. induction HP; constructor; auto. Qed.

(* the part of a call after FetchData, for a pool c :: rest *)
Lemma cexchange_spec sent0 now sv1 rekeyed (d c1 : client) o c rest T s' ob :
  pool d = c :: rest -> c1 = {| pool := rest; c2s := c2s d; s2c := s2c d |} ->
  PInv T (sv_prov sv1) -> T <= now ->
  Forall (made_for (sv_prov sv1) (sv_next sv1) (c2s d) (s2c d)) (pool d) ->
  zlen (c2s d) = 32 -> zlen (s2c d) = 32 -> wf_op o -> (length (pool d) <= 8)%nat ->
  Cexchange sent0 now sv1 rekeyed d c1 o = Some (s', ob) ->
  CInv s' /\ cs_now s' = now /\
  exists ok waste,
    alpha s' = sys_exchange (fun k : nat => k) L (map cid (pool d)) (sv_next sv1) (map cid sent0)
                 ok (ob_nosend ob) waste sys0 /\
    ok = ob_intact ob /\ ob_rekeyed ob = rekeyed /\
    cs_sent s' = (if ob_nosend ob then sent0 else c :: sent0) /\
    (ob_nosend ob = true -> ob_sent ob = None) /\ (ob_nosend ob = false -> ob_sent ob <> None) /\
    (ob_intact ob = true -> ob_nosend ob = false).
Proof.
  intros Hp Hc1 HP HT Hall Hk1 Hk2 [Hage [Hu [Hn [Hh [Hrn [Hrh _]]]]]] Hle8 H.
  assert (Hrest8 : (length rest <= 7)%nat) by (rewrite Hp in Hle8; cbn [length] in Hle8; lia).
  pose proof (P_weak _ _ _ HP HT) as HPnow.
  assert (Hmade_c : made_for (sv_prov sv1) (sv_next sv1) (c2s d) (s2c d) c)
    by (rewrite Hp in Hall; inversion Hall; assumption).
  assert (Hrest : Forall (made_for (sv_prov sv1) (sv_next sv1) (c2s d) (s2c d)) rest)
    by (rewrite Hp in Hall; apply Forall_tl in Hall; exact Hall).
  assert (Hcl : zlen c = L) by (destruct Hmade_c as [k [n [_ [_ E]]]]; rewrite E; apply mk_len; assumption).
  destruct (client_request_wire seal seal_len L Lfit d c rest (o_uid o) (o_nonce o) (o_hdr o) Hp Hcl Hk1 Hu Hn Hh)
    as [Ereq Efit]. cbv zeta in Ereq, Efit.
  set (p := placeholders_at L (zlen (pool d))) in *.
  assert (Hpz : Z.of_nat p = Z.max 0 (num_placeholders (zlen (map cid (pool d))) 32 L))
    by (rewrite zlen_map; unfold p, placeholders_at; lia).
  (* the abstract exchange on the pool of identities *)
  assert (Habs : forall ok nosend waste,
     sys_exchange (fun k : nat => k) L (map cid (pool d)) (sv_next sv1) (map cid sent0) ok nosend waste sys0 =
     if nosend then {| s_pool := map cid rest; s_next := sv_next sv1; s_sent := map cid sent0 |}
     else if ok then {| s_pool := map cid rest ++ seq (sv_next sv1) (Z.to_nat (reply_count (1 + Z.of_nat p) 32 L));
                        s_next := (sv_next sv1 + S p)%nat; s_sent := cid c :: map cid sent0 |}
     else {| s_pool := map cid rest; s_next := (sv_next sv1 + waste)%nat; s_sent := cid c :: map cid sent0 |}).
  { intros ok nosend waste. unfold sys_exchange. rewrite <- Hpz.
    rewrite Hp. cbn [map]. destruct nosend; [reflexivity|]. destruct ok; [|reflexivity].
    destruct (L <=? MaxCookieLen) eqn:E; [|lia]. rewrite issue_n_id.
    replace (Z.to_nat (1 + Z.of_nat p)) with (S p) by lia. reflexivity. }
  unfold cexchange in H. rewrite Ereq, Hp in H.
  assert (Hdone_lost : forall sv2 waste req,
     PInv now (sv_prov sv2) -> incl (plog (sv_prov sv1)) (plog (sv_prov sv2)) ->
     sv_next sv2 = (sv_next sv1 + waste)%nat ->
     s' = {| cs_client := c1; cs_server := sv2; cs_now := now; cs_sent := c :: sent0 |} ->
     ob = {| ob_sent := Some req; ob_rekeyed := rekeyed; ob_openable := false; ob_reply := None;
             ob_intact := false; ob_nosend := false |} \/
     (exists x, ob = {| ob_sent := Some req; ob_rekeyed := rekeyed; ob_openable := true; ob_reply := Some x;
                       ob_intact := false; ob_nosend := false |}) ->
     CInv s' /\ cs_now s' = now /\
     exists ok waste0,
       alpha s' = sys_exchange (fun k : nat => k) L (map cid (pool d)) (sv_next sv1) (map cid sent0)
                    ok (ob_nosend ob) waste0 sys0 /\
       ok = ob_intact ob /\ ob_rekeyed ob = rekeyed /\
       cs_sent s' = (if ob_nosend ob then sent0 else c :: sent0) /\
       (ob_nosend ob = true -> ob_sent ob = None) /\ (ob_nosend ob = false -> ob_sent ob <> None) /\
       (ob_intact ob = true -> ob_nosend ob = false)).
  { intros sv2 waste req HP2 Hincl Hnx Es Eo. subst s'. split; [|split; [reflexivity|]].
    - unfold CInv. cbn [cs_client cs_server cs_now]. subst c1. cbn [pool c2s s2c].
      split; [exact HP2|]. split; [|split; [intros _; split; assumption|lia]].
      eapply Forall_mono; [|exact Hrest]. intros x Hx. eapply made_for_mono; [exact Hincl| |exact Hx]. lia.
    - exists false, waste.
      assert (Eob : ob_nosend ob = false /\ ob_intact ob = false /\ ob_rekeyed ob = rekeyed /\ ob_sent ob = Some req)
        by (destruct Eo as [->|[x ->]]; cbn; tauto).
      destruct Eob as [E1 [E2 [E3 E4]]]. rewrite E1, E2, E3, E4. rewrite Habs.
      unfold alpha. cbn [cs_client cs_server cs_sent map]. subst c1. cbn [pool]. rewrite Hnx.
      repeat split; try reflexivity; try discriminate; try (intros; discriminate). }
  destruct (o_fate o) eqn:Ef.
  - (* Deliver *)
    destruct (Ntp_server sv1 now _ (o_rnonce o) (o_rhdr o)) as [[r sv2]|] eqn:En; [|discriminate].
    destruct (ntp_server_spec sv1 now (o_hdr o) (o_uid o) c (o_nonce o) (c2s d) (s2c d) p (o_rnonce o) (o_rhdr o)
                T r sv2 HP HT Hmade_c Hh Hu Hn Hk1 Hk2 Hrn Hrh Efit En) as [[-> ->]|[cur [p' [Ecur [Er [Esv [Erf Ez]]]]]]].
    + injection H as Es Eo. symmetry in Es, Eo.
      exact (Hdone_lost sv1 0%nat _ HPnow (incl_refl _) (eq_sym (Nat.add_0_r _)) Es (or_introl Eo)).
    + cbv zeta in Er, Erf, Ez. destruct (P_cur _ _ _ _ _ HP HT Ecur) as [HP' [Hcur [Hincl _]]].
      set (sent := firstn (Z.to_nat (reply_count (1 + Z.of_nat p) 32 L)) (Make cur (sv_next sv1) (c2s d) (s2c d) (S p))) in *.
      assert (Hsent_len : Forall (fun x => zlen x = L) sent) by (apply Forall_firstn', make_len; assumption).
      assert (Hroom : (length (pool c1) + length sent <= 8)%nat).
      { subst c1. cbn [pool].
        assert (Hs : Z.of_nat (length sent) = reply_count (1 + Z.of_nat p) 32 L) by exact Ez.
        pose proof (reply_count_bounds (1 + Z.of_nat p) 32 L ltac:(lia)) as Hb.
        pose proof (num_placeholders_le (zlen (map cid (pool d))) 32 L) as [Hn8 _]. unfold numStoredCookies in Hn8.
        rewrite zlen_map in Hn8, Hpz. rewrite Hp in Hn8, Hpz. unfold zlen in Hn8, Hpz. cbn [length] in Hn8, Hpz. lia. }
      rewrite Er in H.
      rewrite (client_process_wire seal aopen seal_len open_seal L L4 L24 Lfit (o_rhdr o) (o_uid o) (o_rnonce o) (s2c d)
                 sent c1 Hrh Hu Hrn Hk2 Hsent_len Lmax Erf Hroom) in H.
      injection H as Es Eo. subst s' ob. split; [|split; [reflexivity|]].
      * unfold CInv. cbn [cs_client cs_server cs_now pool c2s s2c]. subst c1 sv2. cbn [pool c2s s2c sv_prov sv_next].
        split; [exact HP'|]. split; [|split; [intros _; split; assumption|rewrite app_length; exact Hroom]].
        apply Forall_app. split.
        -- eapply Forall_mono; [|exact Hrest]. intros x Hx. eapply made_for_mono; [exact Hincl| |exact Hx]. lia.
        -- apply Forall_firstn'. apply make_made. exact Hcur.
      * exists true, 0%nat. cbn [ob_nosend ob_intact ob_rekeyed ob_sent]. rewrite Habs.
        unfold alpha. cbn [cs_client cs_server cs_sent pool map]. subst c1 sv2. cbn [pool sv_next].
        rewrite map_app. unfold sent at 1. rewrite <- firstn_map, make_cid, firstn_seq.
        2:{ pose proof (reply_count_bounds (1 + Z.of_nat p) 32 L ltac:(lia)). lia. }
        repeat split; try reflexivity; try discriminate; try (intros; discriminate).
  - (* LoseRequest *)
    injection H as Es Eo. symmetry in Es, Eo.
    exact (Hdone_lost sv1 0%nat _ HPnow (incl_refl _) (eq_sym (Nat.add_0_r _)) Es (or_introl Eo)).
  - (* LoseReply *)
    destruct (Ntp_server sv1 now _ (o_rnonce o) (o_rhdr o)) as [[r sv2]|] eqn:En; [|discriminate].
    destruct (ntp_server_spec sv1 now (o_hdr o) (o_uid o) c (o_nonce o) (c2s d) (s2c d) p (o_rnonce o) (o_rhdr o)
                T r sv2 HP HT Hmade_c Hh Hu Hn Hk1 Hk2 Hrn Hrh Efit En) as [[-> ->]|[cur [p' [Ecur [Er [Esv [Erf Ez]]]]]]].
    + injection H as Es Eo. symmetry in Es, Eo.
      exact (Hdone_lost sv1 0%nat _ HPnow (incl_refl _) (eq_sym (Nat.add_0_r _)) Es (or_introl Eo)).
    + cbv zeta in Er. destruct (P_cur _ _ _ _ _ HP HT Ecur) as [HP' [Hcur [Hincl _]]].
      rewrite Er in H. injection H as Es Eo. symmetry in Es, Eo. subst sv2.
      exact (Hdone_lost {| sv_prov := p'; sv_next := (sv_next sv1 + S p)%nat |} (S p) _ HP' Hincl eq_refl Es (or_intror (ex_intro _ _ Eo))).
  - (* NoSend *)
    injection H as Es Eo. subst s' ob. split; [|split; [reflexivity|]].
    + unfold CInv. cbn [cs_client cs_server cs_now]. subst c1. cbn [pool c2s s2c].
      split; [exact HPnow|]. split; [exact Hrest|split; [intros _; split; assumption|lia]].
    + exists false, 0%nat. cbn [ob_nosend ob_intact ob_rekeyed ob_sent]. rewrite Habs.
      unfold alpha. cbn [cs_client cs_server cs_sent]. subst c1. cbn [pool].
      repeat split; try reflexivity; try discriminate; try (intros; discriminate).
Qed.


Lemma sys_exchange_dflt {C} (issue : nat -> C) cl p nx sent ok nosend waste d1 d2 :
  p <> [] -> sys_exchange issue cl p nx sent ok nosend waste d1 = sys_exchange issue cl p nx sent ok nosend waste d2.
Proof. intros H. destruct p; [congruence|reflexivity]. Qed.

(* one call of the concrete system is one step of the abstract system on the cookie identities *)
Theorem cstep_refines s o s' ob :
  CInv s -> wf_op o -> Cstep s o = Some (s', ob) ->
  CInv s' /\ cs_now s' = cs_now s + o_age o /\
  exists e, alpha s' = sys_step (fun k : nat => k) L (alpha s) e /\
            e_skip e = o_skip o /\ e_nosend e = ob_nosend ob /\ e_ok e = ob_intact ob /\
            (e_ke_ok e = true <-> o_ke o <> None) /\
            (ob_sent ob = None <-> s_sent (alpha s') = s_sent (alpha s)) /\
            (ob_rekeyed ob = true -> pool (cs_client s) = [] /\ o_ke o <> None) /\
            (ob_sent ob = None -> cs_sent s' = cs_sent s) /\
            (ob_sent ob <> None -> exists c, cs_sent s' = c :: cs_sent s /\
                                             (pool (cs_client s) = [] \/ exists r, pool (cs_client s) = c :: r)) /\
            (ob_intact ob = true -> ob_nosend ob = false /\ ob_sent ob <> None).
Proof.
  intros [HP [Hall [Hkeys Hle8]]] Hwf H. pose proof Hwf as [Hage [Hu [Hn [Hh [Hrn [Hrh Hke]]]]]].
  unfold cstep in H.
  set (now := cs_now s + o_age o) in *.
  set (sv0 := {| sv_prov := sv_prov (cs_server s); sv_next := (sv_next (cs_server s) + o_skip o)%nat |}) in *.
  assert (HT : cs_now s <= now) by (unfold now; lia).
  destruct (pool (cs_client s)) as [|c rest] eqn:Ep.
  - destruct (o_ke o) as [[k1 k2]|] eqn:Eke.
    + (* a key exchange *)
      destruct Hke as [Hk1 Hk2].
      unfold key_exchange in H. cbn [sv_prov sv_next sv0 fst snd] in H.
      destruct (pcurrent (sv_prov (cs_server s)) now) as [[k p']|] eqn:Ecur; [|discriminate].
      destruct (P_cur _ _ _ _ _ HP HT Ecur) as [HP' [Hk [Hincl _]]].
      set (nx := (sv_next (cs_server s) + o_skip o)%nat) in *.
      set (cookies := Make k nx k1 k2 keCookies) in *.
      assert (Ecs : exists x r, cookies = x :: r) by (unfold cookies, make_cookies, keCookies; cbn [seq map]; eauto).
      destruct Ecs as [x [r Ecs]].
      assert (Hlen_ok : forallb cookie_len_ok cookies = true).
      { apply forallb_forall. intros y Hy. pose proof (make_len k nx k1 k2 keCookies Hk1 Hk2) as Hf.
        rewrite Forall_forall in Hf. unfold cookie_len_ok. rewrite (Hf y Hy). apply Z.leb_le. exact Lmax. }
      assert (Ef : fetch (cs_client s) (KeOk cookies k1 k2) =
                   Some ({| pool := cookies; c2s := k1; s2c := k2 |}, {| pool := r; c2s := k1; s2c := k2 |})).
      { unfold fetch. rewrite Ep. rewrite Ecs in Hlen_ok |- *. rewrite Hlen_ok. reflexivity. }
      rewrite Ef in H.
      destruct (cexchange_spec (cs_sent s) now {| sv_prov := p'; sv_next := (nx + keCookies)%nat |} true
                  {| pool := cookies; c2s := k1; s2c := k2 |} {| pool := r; c2s := k1; s2c := k2 |} o x r now s' ob
                  Ecs eq_refl HP' (Z.le_refl _) (make_made p' k nx k1 k2 keCookies Hk) Hk1 Hk2 Hwf
                  ltac:(cbn [pool]; unfold cookies; rewrite make_length; unfold keCookies; lia) H)
        as [HI [Hnow [ok [waste [Ha [Hok [Hrk [Hsent [Hns1 [Hns2 Hin]]]]]]]]]].
      split; [exact HI|]. split; [exact Hnow|].
      exists {| e_ke_ok := true; e_ok := ok; e_skip := o_skip o; e_waste := waste; e_nosend := ob_nosend ob |}.
      cbn [e_ke_ok e_ok e_skip e_waste e_nosend].
      split.
      { rewrite Ha. unfold sys_step, alpha. cbn [s_pool s_next s_sent e_ke_ok e_ok e_skip e_waste e_nosend].
        rewrite Ep. cbn [map]. fold nx. rewrite issue_n_id. cbn [pool]. unfold cookies. rewrite make_cid.
        apply sys_exchange_dflt. unfold keCookies. cbn [seq]. discriminate. }
      split; [reflexivity|]. split; [reflexivity|]. split; [exact Hok|].
      split; [split; [intros _; discriminate|reflexivity]|].
      split; [split|].
      { intros E. unfold alpha. cbn [s_sent]. rewrite Hsent.
        destruct (ob_nosend ob) eqn:En; [reflexivity|]. exfalso. exact (Hns2 eq_refl E). }
      { unfold alpha. cbn [s_sent]. rewrite Hsent. destruct (ob_nosend ob) eqn:En; [intros _; apply Hns1; reflexivity|].
        cbn [map]. intros E. exfalso. revert E. generalize (map cid (cs_sent s)) (cid x). clear.
        intros l n E. assert (Hl : length (n :: l) = length l) by (rewrite E; reflexivity). cbn in Hl. lia. }
      split; [intros _; split; [reflexivity|discriminate]|].
      { rewrite Hsent. destruct (ob_nosend ob) eqn:En.
        - split; [reflexivity|]. split; [intros Hx; exfalso; apply Hx, Hns1; reflexivity|].
          intros Hi. specialize (Hin Hi). discriminate.
        - split; [intros Hx; exfalso; exact (Hns2 eq_refl Hx)|].
          split; [intros _; eexists; split; [reflexivity|left; reflexivity]|]. intros _. split; [reflexivity|apply Hns2; reflexivity]. }
    + (* no key exchange possible *)
      assert (Ef : fetch (cs_client s) KeErr = None) by (unfold fetch; rewrite Ep; reflexivity).
      rewrite Ef in H. injection H as Es Eo. subst s' ob.
      split; [|split; [reflexivity|]].
      * unfold CInv. cbn [cs_client cs_server cs_now fetch_failed client0 pool sv0 sv_prov].
        split; [apply (P_weak _ _ _ HP HT)|]. split; [constructor|split; [congruence|lia]].
      * exists {| e_ke_ok := false; e_ok := false; e_skip := o_skip o; e_waste := 0; e_nosend := false |}.
        cbn [e_ke_ok e_ok e_skip e_waste e_nosend ob_nosend ob_intact ob_sent ob_rekeyed].
        split.
        { unfold sys_step, alpha. cbn [s_pool s_next s_sent e_ke_ok e_skip cs_client cs_server cs_sent fetch_failed client0 pool sv0 sv_next].
          rewrite Ep. reflexivity. }
        split; [reflexivity|]. split; [reflexivity|]. split; [reflexivity|].
        split; [split; [discriminate|congruence]|].
        split; [split; reflexivity|]. split; [discriminate|].
        split; [reflexivity|]. split; [intros Hx; exfalso; apply Hx; reflexivity|discriminate].
  - (* cookies left: no key exchange *)
    assert (Ef : fetch (cs_client s) KeErr =
                 Some (cs_client s, {| pool := rest; c2s := c2s (cs_client s); s2c := s2c (cs_client s) |}))
      by (unfold fetch; rewrite Ep; cbv beta iota; rewrite Ep; reflexivity).
    rewrite Ef in H.
    destruct (Hkeys ltac:(congruence)) as [Hk1 Hk2].
    assert (Hall0 : Forall (made_for (sv_prov sv0) (sv_next sv0) (c2s (cs_client s)) (s2c (cs_client s))) (pool (cs_client s))).
    { rewrite Ep. eapply Forall_mono; [|exact Hall]. intros y Hy. eapply made_for_mono; [apply incl_refl| |exact Hy]. cbn. lia. }
    destruct (cexchange_spec (cs_sent s) now sv0 false (cs_client s) _ o c rest (cs_now s) s' ob
                Ep eq_refl HP HT Hall0 Hk1 Hk2 Hwf ltac:(rewrite Ep; exact Hle8) H)
      as [HI [Hnow [ok [waste [Ha [Hok [Hrk [Hsent [Hns1 [Hns2 Hin]]]]]]]]]].
    split; [exact HI|]. split; [exact Hnow|].
    exists {| e_ke_ok := match o_ke o with Some _ => true | None => false end;
              e_ok := ok; e_skip := o_skip o; e_waste := waste; e_nosend := ob_nosend ob |}.
    cbn [e_ke_ok e_ok e_skip e_waste e_nosend].
    split.
    { rewrite Ha. unfold sys_step, alpha. cbn [s_pool s_next s_sent e_ke_ok e_ok e_skip e_waste e_nosend].
      rewrite Ep. cbn [map sv0 sv_next]. apply sys_exchange_dflt. discriminate. }
    split; [reflexivity|]. split; [reflexivity|]. split; [exact Hok|].
    split; [destruct (o_ke o); split; intros; try reflexivity; try discriminate; congruence|].
    split; [split|].
    { intros E. unfold alpha. cbn [s_sent]. rewrite Hsent.
      destruct (ob_nosend ob) eqn:En; [reflexivity|]. exfalso. exact (Hns2 eq_refl E). }
    { unfold alpha. cbn [s_sent]. rewrite Hsent. destruct (ob_nosend ob) eqn:En; [intros _; apply Hns1; reflexivity|].
      cbn [map]. intros E. exfalso. revert E. generalize (map cid (cs_sent s)) (cid c). clear.
      intros l n E. assert (Hl : length (n :: l) = length l) by (rewrite E; reflexivity). cbn in Hl. lia. }
    split; [intros E; rewrite Hrk in E; discriminate|].
      { rewrite Hsent. destruct (ob_nosend ob) eqn:En.
        - split; [reflexivity|]. split; [intros Hx; exfalso; apply Hx, Hns1; reflexivity|].
          intros Hi. specialize (Hin Hi). discriminate.
        - split; [intros Hx; exfalso; exact (Hns2 eq_refl Hx)|].
          split; [intros _; eexists; split; [reflexivity|right; eexists; reflexivity]|]. intros _. split; [reflexivity|apply Hns2; reflexivity]. }
Qed.

Lemma client_process_keys (aopen0 : bytes -> bytes -> bytes -> bytes -> option bytes) reply k u c1 a :
  client_process aopen0 reply k u c1 = Ok a -> c2s a = c2s c1 /\ s2c a = s2c c1.
Proof.
  unfold client_process. destruct (decode_packet reply) as [dr| | |]; cbn [obind]; try discriminate.
  destruct (d_uid dr); try discriminate. destruct (negb _); try discriminate.
  destruct (authenticate aopen0 reply dr k) as [cs| | |]; cbn [obind]; try discriminate.
  intros E. injection E as <-. split; reflexivity.
Qed.

(* whatever an authenticated reply carries - from any server, any number of cookies in the clear or
   in the ciphertext -: processing it never shrinks the pool and never takes it beyond eight *)
Theorem client_process_cap (aopen0 : bytes -> bytes -> bytes -> bytes -> option bytes) reply k u c1 c2 :
  client_process aopen0 reply k u c1 = Ok c2 -> (length (pool c1) <= 8)%nat ->
  (length (pool c1) <= length (pool c2) <= 8)%nat.
Proof.
  unfold client_process. destruct (decode_packet reply) as [dr| | |]; cbn [obind]; try discriminate.
  destruct (d_uid dr); try discriminate. destruct (negb _); try discriminate.
  destruct (authenticate aopen0 reply dr k) as [cs| | |]; cbn [obind]; try discriminate.
  intros E Hle. injection E as <-. cbn [store pool]. split; [apply store_grows|apply store_cap; exact Hle].
Qed.

(* ---- the server's part of an exchange ---- *)
Definition reply_good (s s' : csys pstate) (o : cop) (req reply : bytes) (cs : list bytes) (cur : skey) : Prop :=
  exists dq,
    decode_packet req = Ok dq /\
    (* one cookie per cookie or placeholder requested - as many as fit (reply_count) *)
    zlen cs = reply_count (server_issue_count dq) 32 L /\
    (* well formed, within the maximum packet size, the requester can open it *)
    reply = reply_wire seal (o_rhdr o) (o_uid o) (o_rnonce o) (s2c (cs_client s')) cs /\
    zlen reply <= MaxPacketLen /\
    (* every cookie is sealed under the provider's current key, which Get hands out at this time,
       and opens to the client's session keys; every cookie is new *)
    Forall (fun c => cookie_keyid c = sk_id cur /\
                     open_cookie (sk_val cur) c = Some (c2s (cs_client s'), s2c (cs_client s')) /\
                     (sv_next (cs_server s) <= cid c)%nat /\ zlen c = L) cs /\
    pget (sv_prov (cs_server s')) (sk_id cur) (cs_now s') = Some cur /\
    NoDup (map cid cs) /\
    (* ... newer than every cookie sent so far, this call's included *)
    (exists B, (sv_next (cs_server s) <= B)%nat /\ Forall (fun c => (B <= cid c)%nat) cs /\
               Forall (fun y => (cid y < B)%nat) (cs_sent s')).

Lemma cexchange_reply sent0 now sv1 rekeyed (d c1 : client) o c rest T s' ob reply cs cur :
  pool d = c :: rest -> c1 = {| pool := rest; c2s := c2s d; s2c := s2c d |} ->
  PInv T (sv_prov sv1) -> T <= now ->
  Forall (made_for (sv_prov sv1) (sv_next sv1) (c2s d) (s2c d)) (pool d) ->
  zlen (c2s d) = 32 -> zlen (s2c d) = 32 -> wf_op o ->
  Forall (fun y => (cid y < sv_next sv1)%nat) sent0 ->
  Cexchange sent0 now sv1 rekeyed d c1 o = Some (s', ob) ->
  ob_reply ob = Some (reply, cs, cur) ->
  exists req dq,
    ob_sent ob = Some req /\ decode_packet req = Ok dq /\
    zlen cs = reply_count (server_issue_count dq) 32 L /\
    reply = reply_wire seal (o_rhdr o) (o_uid o) (o_rnonce o) (s2c d) cs /\
    zlen reply <= MaxPacketLen /\
    Forall (fun x => cookie_keyid x = sk_id cur /\ open_cookie (sk_val cur) x = Some (c2s d, s2c d) /\
                     (sv_next sv1 <= cid x)%nat /\ zlen x = L) cs /\
    pget (sv_prov (cs_server s')) (sk_id cur) now = Some cur /\
    NoDup (map cid cs) /\
    c2s (cs_client s') = c2s d /\ s2c (cs_client s') = s2c d /\ cs_now s' = now /\
    Forall (fun y => (cid y < sv_next sv1)%nat) (cs_sent s').
Proof.
  intros Hp Hc1 HP HT Hall Hk1 Hk2 [Hage [Hu [Hn [Hh [Hrn [Hrh _]]]]]] Hsent0 H Hrep.
  assert (Hsentc : Forall (fun y => (cid y < sv_next sv1)%nat) (c :: sent0)).
  { constructor; [|exact Hsent0]. rewrite Hp in Hall. inversion Hall as [|? ? [k [n [_ [Hn' E]]]] _]; subst.
    rewrite cid_mk. exact Hn'. }
  assert (Hmade_c : made_for (sv_prov sv1) (sv_next sv1) (c2s d) (s2c d) c)
    by (rewrite Hp in Hall; inversion Hall; assumption).
  assert (Hcl : zlen c = L) by (destruct Hmade_c as [k [n [_ [_ E]]]]; rewrite E; apply mk_len; assumption).
  destruct (client_request_wire seal seal_len L Lfit d c rest (o_uid o) (o_nonce o) (o_hdr o) Hp Hcl Hk1 Hu Hn Hh)
    as [Ereq Efit]. cbv zeta in Ereq, Efit.
  set (p := placeholders_at L (zlen (pool d))) in *.
  destruct (authenticate_request seal aopen seal_len open_seal L L4 (o_hdr o) (o_uid o) c (o_nonce o) (c2s d) p
              Hh Hu Hcl Hn Hk1 Efit) as [dq [Ed [Eu [Ec [Ep _]]]]].
  assert (Hcount : server_issue_count dq = 1 + Z.of_nat p)
    by (unfold server_issue_count; rewrite Ec, Ep; unfold zlen; cbn [length]; lia).
  unfold cexchange in H. rewrite Ereq, Hp in H.
  assert (Hmain : forall r sv2 c2,
     Ntp_server sv1 now (request_wire seal (o_hdr o) (o_uid o) c (o_nonce o) (c2s d) p) (o_rnonce o) (o_rhdr o) = Some (r, sv2) ->
     r = Some (reply, cs, cur) ->
     c2s (cs_client s') = c2s d -> s2c (cs_client s') = s2c d -> cs_server s' = sv2 -> cs_now s' = now ->
     ob_sent ob = Some (request_wire seal (o_hdr o) (o_uid o) c (o_nonce o) (c2s d) p) ->
     cs_sent s' = c :: sent0 ->
     c2 = tt ->
     exists req dq0,
       ob_sent ob = Some req /\ decode_packet req = Ok dq0 /\
       zlen cs = reply_count (server_issue_count dq0) 32 L /\
       reply = reply_wire seal (o_rhdr o) (o_uid o) (o_rnonce o) (s2c d) cs /\
       zlen reply <= MaxPacketLen /\
       Forall (fun x => cookie_keyid x = sk_id cur /\ open_cookie (sk_val cur) x = Some (c2s d, s2c d) /\
                        (sv_next sv1 <= cid x)%nat /\ zlen x = L) cs /\
       pget (sv_prov (cs_server s')) (sk_id cur) now = Some cur /\
       NoDup (map cid cs) /\
       c2s (cs_client s') = c2s d /\ s2c (cs_client s') = s2c d /\ cs_now s' = now /\
       Forall (fun y => (cid y < sv_next sv1)%nat) (cs_sent s')).
  { intros r sv2 c2 En Er Ea Eb Esv Enow Esent Ecs _.
    destruct (ntp_server_spec sv1 now (o_hdr o) (o_uid o) c (o_nonce o) (c2s d) (s2c d) p (o_rnonce o) (o_rhdr o)
                T r sv2 HP HT Hmade_c Hh Hu Hn Hk1 Hk2 Hrn Hrh Efit En) as [[-> _]|[cur' [p' [Ecur [Er' [Esv' [Erf Ez]]]]]]];
      [discriminate|].
    cbv zeta in Er', Erf, Ez.
    set (sent := firstn (Z.to_nat (reply_count (1 + Z.of_nat p) 32 L)) (Make cur' (sv_next sv1) (c2s d) (s2c d) (S p))) in *.
    rewrite Er in Er'. injection Er' as E1 E2 E3. subst reply cs cur'. unfold sent in *. clear sent.
    destruct (P_cur _ _ _ _ _ HP HT Ecur) as [HP' [Hcur [Hincl Hget]]].
    exists (request_wire seal (o_hdr o) (o_uid o) c (o_nonce o) (c2s d) p), dq.
    rewrite Hcount. repeat split; try assumption; try reflexivity; try (rewrite Ecs; exact Hsentc).
    - apply Forall_firstn'. unfold make_cookies. apply Forall_forall. intros x Hx.
      apply in_map_iff in Hx as [i [<- Hi]]. apply in_seq in Hi. rewrite kid_mk, (open_mk _ _ _ _ _ Hk1 Hk2), cid_mk, (mk_len _ _ _ _ _ Hk1 Hk2). repeat split; try reflexivity. exact (proj1 Hi).
    - rewrite Esv, Esv'. exact Hget.
    - rewrite <- firstn_map, make_cid. rewrite firstn_seq.
      + apply seq_NoDup.
      + assert (Hb : 1 <= reply_count (1 + Z.of_nat p) 32 L <= 1 + Z.of_nat p) by (apply reply_count_bounds; clear; lia).
        clearbody p. clear - Hb. lia. }
  destruct (o_fate o) eqn:Ef.
  - destruct (Ntp_server sv1 now _ (o_rnonce o) (o_rhdr o)) as [[r sv2]|] eqn:En; [|discriminate].
    destruct r as [[[reply' cs'] cur']|].
    + injection H as Es Eo. subst s' ob. cbn [ob_reply] in Hrep. injection Hrep as -> -> ->.
      eapply (Hmain _ sv2 tt eq_refl eq_refl); try reflexivity.
      * cbn [cs_client]. destruct (client_process _ _ _ _ _) as [a| | |] eqn:Ecp;
          try (subst c1; reflexivity). rewrite (proj1 (client_process_keys _ _ _ _ _ _ Ecp)). subst c1. reflexivity.
      * cbn [cs_client]. destruct (client_process _ _ _ _ _) as [a| | |] eqn:Ecp;
          try (subst c1; reflexivity). rewrite (proj2 (client_process_keys _ _ _ _ _ _ Ecp)). subst c1. reflexivity.
    + injection H as Es Eo. subst ob. cbn in Hrep. discriminate.
  - injection H as Es Eo. subst ob. cbn in Hrep. discriminate.
  - destruct (Ntp_server sv1 now _ (o_rnonce o) (o_rhdr o)) as [[r sv2]|] eqn:En; [|discriminate].
    destruct r as [[[reply' cs'] cur']|].
    + injection H as Es Eo. subst s' ob. cbn [ob_reply] in Hrep. injection Hrep as -> -> ->.
      eapply (Hmain _ sv2 tt eq_refl eq_refl); try reflexivity; subst c1; reflexivity.
    + injection H as Es Eo. subst ob. cbn in Hrep. discriminate.
  - injection H as Es Eo. subst ob. cbn in Hrep. discriminate.
Qed.

(* runs *)
Theorem crun_refines os : forall s s' obs,
  CInv s -> Forall wf_op os -> Crun s os = Some (s', obs) ->
  CInv s' /\ exists es, alpha s' = sys_run (fun k : nat => k) L (alpha s) es.
Proof.
  induction os as [|o os IH]; intros s s' obs HI Hwf H.
  - cbn in H. injection H as <- _. split; [exact HI|]. exists []. reflexivity.
  - apply Forall_cons_iff in Hwf as [Hw Hws]. cbn [crun] in H.
    destruct (Cstep s o) as [[s1 b]|] eqn:E1; [|discriminate].
    destruct (Crun s1 os) as [[s2 bs]|] eqn:E2; [|discriminate].
    injection H as <- _.
    destruct (cstep_refines s o s1 b HI Hw E1) as [HI1 [_ [e [Ha _]]]].
    destruct (IH s1 s2 bs HI1 Hws E2) as [HI2 [es Hes]].
    split; [exact HI2|]. exists (e :: es). cbn [sys_run fold_left]. rewrite <- Ha. exact Hes.
Qed.

(* states of the concrete system reached from the start: a provider in order, a client without data *)
Definition creach (s : csys pstate) : Prop :=
  exists p0 t0 os obs, PInv t0 p0 /\ Forall wf_op os /\ Crun (csys0 pstate p0 t0) os = Some (s, obs).

Lemma id_inj : forall i j : nat, (fun k : nat => k) i = (fun k : nat => k) j -> i = j.
Proof. intros i j H. exact H. Qed.

Lemma creach_inv s : creach s -> CInv s /\ reachable (fun k : nat => k) L (alpha s).
Proof.
  intros [p0 [t0 [os [obs [HP [Hwf H]]]]]].
  assert (HI0 : CInv (csys0 pstate p0 t0)).
  { unfold CInv, csys0. cbn. split; [exact HP|]. split; [constructor|split; [congruence|lia]]. }
  destruct (crun_refines os _ _ _ HI0 Hwf H) as [HI [es Hes]]. split; [exact HI|].
  exists es. rewrite Hes. reflexivity.
Qed.

(* ---- the history theorems, over runs of the concrete system ---- *)

Theorem concrete_no_reuse s : creach s -> NoDup (cs_sent s).
Proof.
  intros Hr. destruct (creach_inv s Hr) as [_ [es Hes]].
  apply (NoDup_map_inv cid). change (map cid (cs_sent s)) with (s_sent (alpha s)). rewrite Hes.
  apply no_reuse. exact id_inj.
Qed.

Theorem concrete_sent_leaves_pool s x : creach s -> In x (cs_sent s) -> ~ In x (pool (cs_client s)).
Proof.
  intros Hr Hs Hp. destruct (creach_inv s Hr) as [_ [es Hes]].
  apply (sent_not_pooled (fun k : nat => k) id_inj L es (cid x)).
  - rewrite <- Hes. unfold alpha. cbn [s_sent]. apply in_map. exact Hs.
  - rewrite <- Hes. unfold alpha. cbn [s_pool]. apply in_map. exact Hp.
Qed.

Lemma pool_len s : length (pool (cs_client s)) = length (s_pool (alpha s)).
Proof. unfold alpha. cbn [s_pool]. rewrite map_length. reflexivity. Qed.

(* the reply of the server in a call of the concrete system *)
Theorem concrete_reply s o s' ob reply cs cur :
  creach s -> wf_op o -> Cstep s o = Some (s', ob) -> ob_reply ob = Some (reply, cs, cur) ->
  exists req, ob_sent ob = Some req /\ reply_good s s' o req reply cs cur.
Proof.
  intros Hr Hwf H Hrep. destruct (creach_inv s Hr) as [[HP [Hall [Hkeys _]]] _].
  pose proof Hwf as [Hage [_ [_ [_ [_ [_ Hke]]]]]].
  unfold cstep in H.
  set (now := cs_now s + o_age o) in *.
  set (sv0 := {| sv_prov := sv_prov (cs_server s); sv_next := (sv_next (cs_server s) + o_skip o)%nat |}) in *.
  assert (HT : cs_now s <= now) by (unfold now; lia).
  assert (Hfin : forall (sv1 : server pstate) (d : client),
     (sv_next (cs_server s) <= sv_next sv1)%nat ->
     (exists req dq,
       ob_sent ob = Some req /\ decode_packet req = Ok dq /\
       zlen cs = reply_count (server_issue_count dq) 32 L /\
       reply = reply_wire seal (o_rhdr o) (o_uid o) (o_rnonce o) (s2c d) cs /\
       zlen reply <= MaxPacketLen /\
       Forall (fun x => cookie_keyid x = sk_id cur /\ open_cookie (sk_val cur) x = Some (c2s d, s2c d) /\
                        (sv_next sv1 <= cid x)%nat /\ zlen x = L) cs /\
       pget (sv_prov (cs_server s')) (sk_id cur) now = Some cur /\
       NoDup (map cid cs) /\
       c2s (cs_client s') = c2s d /\ s2c (cs_client s') = s2c d /\ cs_now s' = now /\
       Forall (fun y => (cid y < sv_next sv1)%nat) (cs_sent s')) ->
     exists req, ob_sent ob = Some req /\ reply_good s s' o req reply cs cur).
  { intros sv1 d Hle [req [dq [E1 [E2 [E3 [E4 [E5 [E6 [E7 [E8 [E9 [E10 [E11 E12]]]]]]]]]]]]].
    exists req. split; [exact E1|]. exists dq. rewrite E9, E10, E11.
    split; [exact E2|]. split; [exact E3|]. split; [exact E4|]. split; [exact E5|].
    split; [eapply Forall_mono; [|exact E6]; intros x [A [B [C D]]]; repeat split; try assumption; lia|].
    split; [exact E7|]. split; [exact E8|].
    exists (sv_next sv1). split; [exact Hle|]. split; [|exact E12].
    eapply Forall_mono; [|exact E6]. intros x [_ [_ [C _]]]. exact C. }
  assert (Hsent_lt : Forall (fun y => (cid y < sv_next (cs_server s))%nat) (cs_sent s)).
  { destruct (creach_inv s Hr) as [_ Hreach]. pose proof (reachable_inv _ id_inj L _ Hreach) as [_ [_ [_ [Hiss _]]]].
    apply Forall_forall. intros y Hy.
    destruct (Hiss (cid y)) as [k [Hk E]]; [right; unfold alpha; cbn [s_sent]; apply in_map; exact Hy|].
    cbn in E. unfold alpha in Hk. cbn [s_next] in Hk. lia. }
  destruct (pool (cs_client s)) as [|c rest] eqn:Ep.
  - destruct (o_ke o) as [[k1 k2]|] eqn:Eke.
    + destruct Hke as [Hk1 Hk2].
      unfold key_exchange in H. cbn [sv_prov sv_next sv0 fst snd] in H.
      destruct (pcurrent (sv_prov (cs_server s)) now) as [[k p']|] eqn:Ecur; [|discriminate].
      destruct (P_cur _ _ _ _ _ HP HT Ecur) as [HP' [Hk [Hincl _]]].
      set (nx := (sv_next (cs_server s) + o_skip o)%nat) in *.
      set (cookies := Make k nx k1 k2 keCookies) in *.
      assert (Ecs : exists x r, cookies = x :: r) by (unfold cookies, make_cookies, keCookies; cbn [seq map]; eauto).
      destruct Ecs as [x [r Ecs]].
      assert (Hlen_ok : forallb cookie_len_ok cookies = true).
      { apply forallb_forall. intros y Hy. pose proof (make_len k nx k1 k2 keCookies Hk1 Hk2) as Hf.
        rewrite Forall_forall in Hf. unfold cookie_len_ok. rewrite (Hf y Hy). apply Z.leb_le. exact Lmax. }
      assert (Ef : fetch (cs_client s) (KeOk cookies k1 k2) =
                   Some ({| pool := cookies; c2s := k1; s2c := k2 |}, {| pool := r; c2s := k1; s2c := k2 |})).
      { unfold fetch. rewrite Ep. rewrite Ecs in Hlen_ok |- *. rewrite Hlen_ok. reflexivity. }
      rewrite Ef in H.
      apply (Hfin {| sv_prov := p'; sv_next := (nx + keCookies)%nat |} {| pool := cookies; c2s := k1; s2c := k2 |});
        [cbn [sv_next]; unfold nx; lia|].
      exact (cexchange_reply (cs_sent s) now {| sv_prov := p'; sv_next := (nx + keCookies)%nat |} true
               {| pool := cookies; c2s := k1; s2c := k2 |} _ o x r now s' ob reply cs cur
               Ecs eq_refl HP' (Z.le_refl _) (make_made p' k nx k1 k2 keCookies Hk) Hk1 Hk2 Hwf
               ltac:(eapply Forall_mono; [|exact Hsent_lt]; cbn [sv_next]; unfold nx; intros; lia) H Hrep).
    + assert (Ef : fetch (cs_client s) KeErr = None) by (unfold fetch; rewrite Ep; reflexivity).
      rewrite Ef in H. injection H as Es Eo. subst ob. cbn in Hrep. discriminate.
  - assert (Ef : fetch (cs_client s) KeErr =
                 Some (cs_client s, {| pool := rest; c2s := c2s (cs_client s); s2c := s2c (cs_client s) |}))
      by (unfold fetch; rewrite Ep; cbv beta iota; rewrite Ep; reflexivity).
    rewrite Ef in H.
    destruct (Hkeys ltac:(congruence)) as [Hk1 Hk2].
    assert (Hall0 : Forall (made_for (sv_prov sv0) (sv_next sv0) (c2s (cs_client s)) (s2c (cs_client s))) (pool (cs_client s))).
    { rewrite Ep. eapply Forall_mono; [|exact Hall]. intros y Hy. eapply made_for_mono; [apply incl_refl| |exact Hy]. cbn. lia. }
    apply (Hfin sv0 (cs_client s)); [cbn [sv0 sv_next]; lia|].
    exact (cexchange_reply (cs_sent s) now sv0 false (cs_client s) _ o c rest (cs_now s) s' ob reply cs cur
             Ep eq_refl HP HT Hall0 Hk1 Hk2 Hwf
             ltac:(eapply Forall_mono; [|exact Hsent_lt]; cbn [sv0 sv_next]; intros; lia) H Hrep).
Qed.

(* the request of a call *)
Lemma cexchange_sent sent0 now sv1 rekeyed (d c1 : client) o c rest s' ob req :
  pool d = c :: rest ->
  Forall (fun x => zlen x = L) (pool d) -> zlen (c2s d) = 32 -> wf_op o ->
  Cexchange sent0 now sv1 rekeyed d c1 o = Some (s', ob) -> ob_sent ob = Some req ->
  req = request_wire seal (o_hdr o) (o_uid o) c (o_nonce o) (c2s d) (placeholders_at L (zlen (pool d))) /\
  zlen req <= MaxPacketLen /\ zlen c = L.
Proof.
  intros Hp Hall Hk1 [Hage [Hu [Hn [Hh _]]]] H Hs.
  assert (Hcl : zlen c = L) by (rewrite Hp in Hall; inversion Hall; assumption).
  destruct (client_request_wire seal seal_len L Lfit d c rest (o_uid o) (o_nonce o) (o_hdr o) Hp Hcl Hk1 Hu Hn Hh)
    as [Ereq Efit]. cbv zeta in Ereq, Efit.
  unfold cexchange in H. rewrite Ereq, Hp in H. rewrite Hp in Efit |- *.
  assert (G : forall r, Some r = Some req -> r = request_wire seal (o_hdr o) (o_uid o) c (o_nonce o) (c2s d) (placeholders_at L (zlen (c :: rest))) ->
              req = request_wire seal (o_hdr o) (o_uid o) c (o_nonce o) (c2s d) (placeholders_at L (zlen (c :: rest))) /\
              zlen req <= MaxPacketLen /\ zlen c = L).
  { intros r E Er. injection E as <-. subst r. repeat split; assumption. }
  destruct (o_fate o);
    repeat match type of H with
           | match ?x with _ => _ end = _ => destruct x as [[[[[? ?] ?]|] ?]|]
           end; try discriminate; injection H as _ Eo; subst ob; cbn [ob_sent] in Hs; try discriminate;
    exact (G _ Hs eq_refl).
Qed.

Theorem concrete_request s o s' ob req :
  creach s -> wf_op o -> Cstep s o = Some (s', ob) -> ob_sent ob = Some req ->
  exists c level key,
    (pool (cs_client s) = [] /\ level = 8 \/ (exists r, pool (cs_client s) = c :: r) /\ level = zlen (pool (cs_client s))) /\
    1 <= level <= 8 /\ zlen c = L /\
    req = request_wire seal (o_hdr o) (o_uid o) c (o_nonce o) key (placeholders_at L level) /\
    zlen req <= MaxPacketLen.
Proof.
  intros Hr Hwf H Hs. destruct (creach_inv s Hr) as [[HP [Hall [Hkeys _]]] Hreach].
  pose proof (reachable_inv _ id_inj L _ Hreach) as [_ [_ [_ [_ Hle]]]].
  unfold alpha in Hle. cbn [s_pool] in Hle. rewrite map_length in Hle.
  pose proof Hwf as [Hage [_ [_ [_ [_ [_ Hke]]]]]].
  unfold cstep in H.
  set (now := cs_now s + o_age o) in *.
  set (sv0 := {| sv_prov := sv_prov (cs_server s); sv_next := (sv_next (cs_server s) + o_skip o)%nat |}) in *.
  destruct (pool (cs_client s)) as [|c rest] eqn:Ep.
  - destruct (o_ke o) as [[k1 k2]|] eqn:Eke.
    + destruct Hke as [Hk1 Hk2].
      unfold key_exchange in H. cbn [sv_prov sv_next sv0 fst snd] in H.
      destruct (pcurrent (sv_prov (cs_server s)) now) as [[k p']|] eqn:Ecur; [|discriminate].
      set (nx := (sv_next (cs_server s) + o_skip o)%nat) in *.
      set (cookies := Make k nx k1 k2 keCookies) in *.
      assert (Ecs : exists x r, cookies = x :: r) by (unfold cookies, make_cookies, keCookies; cbn [seq map]; eauto).
      destruct Ecs as [x [r Ecs]].
      assert (Hlen_ok : forallb cookie_len_ok cookies = true).
      { apply forallb_forall. intros y Hy. pose proof (make_len k nx k1 k2 keCookies Hk1 Hk2) as Hf.
        rewrite Forall_forall in Hf. unfold cookie_len_ok. rewrite (Hf y Hy). apply Z.leb_le. exact Lmax. }
      assert (Ef : fetch (cs_client s) (KeOk cookies k1 k2) =
                   Some ({| pool := cookies; c2s := k1; s2c := k2 |}, {| pool := r; c2s := k1; s2c := k2 |})).
      { unfold fetch. rewrite Ep. rewrite Ecs in Hlen_ok |- *. rewrite Hlen_ok. reflexivity. }
      rewrite Ef in H.
      destruct (cexchange_sent _ _ _ _ {| pool := cookies; c2s := k1; s2c := k2 |} _ o x r s' ob req Ecs
                  (make_len k nx k1 k2 keCookies Hk1 Hk2) Hk1 Hwf H Hs) as [E1 [E2 E3]].
      exists x, 8, k1. split; [left; split; reflexivity|]. split; [lia|]. split; [exact E3|].
      cbn [pool c2s] in E1. assert (E8 : zlen cookies = 8) by (unfold zlen, cookies; rewrite make_length; reflexivity).
      rewrite E8 in E1. split; [exact E1|exact E2].
    + assert (Ef : fetch (cs_client s) KeErr = None) by (unfold fetch; rewrite Ep; reflexivity).
      rewrite Ef in H. injection H as _ Eo. subst ob. discriminate.
  - assert (Ef : fetch (cs_client s) KeErr =
                 Some (cs_client s, {| pool := rest; c2s := c2s (cs_client s); s2c := s2c (cs_client s) |}))
      by (unfold fetch; rewrite Ep; cbv beta iota; rewrite Ep; reflexivity).
    rewrite Ef in H.
    destruct (Hkeys ltac:(congruence)) as [Hk1 Hk2].
    assert (HallL : Forall (fun x => zlen x = L) (pool (cs_client s))).
    { rewrite Ep. eapply Forall_mono; [|exact Hall]. intros y [k [n [_ [_ E]]]]. rewrite E. apply mk_len; assumption. }
    destruct (cexchange_sent _ _ _ _ (cs_client s) _ o c rest s' ob req Ep HallL Hk1 Hwf H Hs) as [E1 [E2 E3]].
    exists c, (zlen (c :: rest)), (c2s (cs_client s)).
    split; [right; split; [eexists; reflexivity|reflexivity]|].
    split; [unfold zlen; cbn [length] in *; lia|]. split; [exact E3|].
    rewrite Ep in E1. split; [exact E1|exact E2].
Qed.

(* one call from a reachable state: what it does to the pool *)
Theorem concrete_pool s o s' ob :
  creach s -> wf_op o -> Cstep s o = Some (s', ob) ->
  let n := length (pool (cs_client s)) in
  let n' := length (pool (cs_client s')) in
  (n' <= 8)%nat /\
  (ob_intact ob = true -> (n <= n')%nat /\ (n = 8%nat -> n' = 8%nat) /\ (n = 0%nat -> n' = 8%nat)) /\
  (ob_intact ob = false -> n <> 0%nat -> n' = (n - 1)%nat) /\
  (n = 0%nat -> o_ke o <> None -> ob_intact ob = false -> n' = 7%nat) /\
  (n = 0%nat -> o_ke o = None -> n' = 0%nat /\ ob_sent ob = None) /\
  (ob_sent ob = None -> cs_sent s' = cs_sent s) /\
  (ob_sent ob <> None -> exists c, cs_sent s' = c :: cs_sent s /\
                                   (pool (cs_client s) = [] \/ exists r, pool (cs_client s) = c :: r)).
Proof.
  intros Hr Hwf H n n'.
  destruct (creach_inv s Hr) as [HI Hreach]. pose proof (reachable_inv _ id_inj L _ Hreach) as HAI.
  destruct (cstep_refines s o s' ob HI Hwf H)
    as [HI' [_ [e [Ha [_ [Hns [Hok [Hke [Hsent [Hrk [Hs1 [Hs2 Hint]]]]]]]]]]]].
  unfold n, n'. rewrite !pool_len, Ha.
  assert (Hz : s_pool (alpha s) = [] <-> length (s_pool (alpha s)) = 0%nat)
    by (destruct (s_pool (alpha s)); cbn; split; congruence || lia).
  split; [apply (pool_le_eight _ id_inj L _ e HAI)|].
  split.
  { intros Hi. destruct (Hint Hi) as [Hn Hsome]. rewrite <- Hok in Hi. rewrite <- Hns in Hn.
    split; [apply (success_never_shrinks _ id_inj L Lmax _ e HAI Hi Hn)|].
    split; [intros E; apply (stays_eight _ id_inj L Lmax _ e HAI Hi Hn E)|].
    intros E. apply Hz in E.
    assert (Hk : e_ke_ok e = true).
    { destruct (e_ke_ok e) eqn:Ek; [reflexivity|]. exfalso.
      destruct (kefail_nothing (fun k : nat => k) L (alpha s) e E Ek) as [_ Hs].
      rewrite <- Ha in Hs. apply Hsent in Hs. exact (Hsome Hs). }
    apply (rekey_success _ id_inj L Lmax _ e E Hk Hi Hn). }
  split.
  { intros Hi Hne. rewrite <- Hok in Hi.
    apply (loss_pops_one _ id_inj L Lmax _ e HAI).
    - intros E. apply Hz in E. lia.
    - left. exact Hi. }
  split.
  { intros E Hk Hi. apply Hz in E. apply (rekey_loss _ id_inj L Lmax _ e E).
    - apply Hke. exact Hk.
    - left. rewrite Hok. exact Hi. }
  split.
  { intros E Hk. apply Hz in E.
    assert (Hk' : e_ke_ok e = false).
    { destruct (e_ke_ok e) eqn:Ek; [|reflexivity]. exfalso. apply (proj1 Hke); [reflexivity|exact Hk]. }
    destruct (kefail_nothing (fun k : nat => k) L (alpha s) e E Hk') as [Hp Hs].
    rewrite Hp. split; [reflexivity|]. rewrite <- Ha in Hs. exact (proj2 Hsent Hs). }
  split; [exact Hs1|exact Hs2].
Qed.

End Refine.
