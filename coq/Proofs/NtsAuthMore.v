(* C10: further theorems.
   - what exactly the symbolic AEAD gives (aead_siv: the hypotheses the real
     AES-SIV is believed to meet, with the key clause restricted to the S2V/CMAC
     half of the key when the plaintext is empty), and the clauses "any change to
     an authenticated byte, the nonce or the ciphertext, the use of a different
     key or direction ... is rejected" derived from
       accepted  =>  the ciphertext is a seal, under the receiver's key and the
                     packet's nonce, of exactly the bytes in front of the authenticator;
   - the executable oracles C10_client_ok, C10_session_ok, C10_reject_clean,
     C10_reissue_ok hold of the model. *)
From Coq Require Import ZArith List Bool Lia.
From ST Require Import Base.Ints Model.NtsAuth Proofs.NtsAuthProofs Proofs.NtsAuthComplete Proofs.NtsAuthInstance.
Import ListNotations.
Open Scope Z_scope.

(* The AEAD as far as it is assumed: Open inverts Seal; Open succeeds only on
   Seal's own output for the same key, nonce and associated data (authenticity:
   without the key no other string opens); equal seals have the same nonce,
   associated data and plaintext, keys with the same first (S2V/CMAC) half, and
   the same key when the plaintext is not empty; the ciphertext is the 16-byte
   tag followed by the encrypted plaintext.  ideal_aead (injective in the whole
   key) is stronger and NOT met by AES-SIV for empty plaintexts. *)
Definition aead_siv (seal : bytes -> bytes -> option bytes -> bytes -> bytes)
                    (open : bytes -> bytes -> option bytes -> bytes -> option bytes) : Prop :=
  (forall k n ad p, open k n ad (seal k n ad p) = Some p) /\
  (forall k n ad c p, open k n ad c = Some p -> c = seal k n ad p) /\
  seal_inj_siv seal /\
  (forall k n ad p, length (seal k n ad p) = (16 + length p)%nat).

Lemma ideal_implies_siv : forall seal open, ideal_aead seal open -> aead_siv seal open.
Proof.
  intros seal open [A [B [C D]]].
  split; [exact A|split; [exact B|split; [apply seal_inj_siv_of; exact C|exact D]]].
Qed.

(* ---- accepted => seal of exactly the preceding bytes (restated for aead_siv) ---- *)
Lemma siv_sound_server : forall seal open, aead_siv seal open ->
  forall b key r, server_accept open b key = Ok r -> exists p, verifies seal b key p.
Proof. intros seal open [A [B [C D]]]. intros. eapply server_sound; eauto. Qed.

Lemma siv_sound_client : forall seal open, aead_siv seal open ->
  forall b key reqID r, client_accept open b key reqID = Ok r ->
  exists p, verifies seal b key p /\ p_uid p = reqID.
Proof. intros seal open [A [B [C D]]]. intros. eapply client_sound; eauto. Qed.

(* two datagrams that verify and carry the same ciphertext: same nonce, same
   authenticated bytes, keys with the same first half - the same key unless the
   plaintext is empty (ciphertext of 16 bytes) *)
Theorem siv_same_ciphertext : forall seal open, aead_siv seal open ->
  forall b1 k1 p1 b2 k2 p2,
  verifies seal b1 k1 p1 -> verifies seal b2 k2 p2 -> p_ct p1 = p_ct p2 ->
  mac_half k1 = mac_half k2 /\ (length (p_ct p1) <> 16%nat -> k1 = k2) /\
  p_nonce p1 = p_nonce p2 /\ p_pos p1 = p_pos p2 /\
  firstn (p_pos p1) b1 = firstn (p_pos p1) b2.
Proof.
  intros seal open [A [B [C D]]] b1 k1 p1 b2 k2 p2
         [_ [W1 [_ [_ [pt1 E1]]]]] [_ [W2 [_ [_ [pt2 E2]]]]] Hc.
  assert (Hl : length (p_ct p1) = (16 + length pt1)%nat) by (rewrite E1; apply D).
  rewrite E1, E2 in Hc. apply C in Hc. destruct Hc as [Hm [Hk [Hn [Had Hpt]]]].
  inversion Had as [Hpre].
  assert (Hpos : p_pos p1 = p_pos p2).
  { apply (f_equal (@length Z)) in Hpre. rewrite !firstn_length in Hpre.
    destruct W1 as [_ _ H1 _ _ _]. destruct W2 as [_ _ H2 _ _ _]. lia. }
  rewrite <- Hpos in Hpre. repeat split; auto.
  intro Hne. apply Hk. intro Hz. rewrite Hz in Hl. simpl in Hl. lia.
Qed.

(* "the only seal under the receiver's key that reaches it is the one of the
   honest packet b1" - nobody without the key makes another one (authenticity of
   the AEAD, as a hypothesis on what is in circulation) *)
Definition only_seal_in_circulation (seal : bytes -> bytes -> option bytes -> bytes -> bytes)
                                    (b2 k2 : bytes) (p1 : packet) : Prop :=
  forall p n ad pt, decode_packet b2 = Ok p -> p_ct p = seal k2 n ad pt -> p_ct p = p_ct p1.

(* whatever is accepted carries exactly the ciphertext, the nonce and the
   authenticated bytes of the honest packet, under its key (first half) *)
Theorem siv_accept_only_honest : forall seal open, aead_siv seal open ->
  forall b1 k1 p1 b2 k2 p2,
  verifies seal b1 k1 p1 -> only_seal_in_circulation seal b2 k2 p1 -> verifies seal b2 k2 p2 ->
  p_ct p2 = p_ct p1 /\ mac_half k2 = mac_half k1 /\ (length (p_ct p1) <> 16%nat -> k2 = k1) /\
  p_nonce p2 = p_nonce p1 /\ p_pos p2 = p_pos p1 /\
  firstn (p_pos p1) b2 = firstn (p_pos p1) b1.
Proof.
  intros seal open HS b1 k1 p1 b2 k2 p2 V1 Hu V2.
  assert (Hc : p_ct p2 = p_ct p1).
  { destruct V2 as [D2 [_ [_ [_ [pt2 E2]]]]]. eapply Hu; eauto. }
  destruct (siv_same_ciphertext seal open HS _ _ _ _ _ _ V1 V2 (eq_sym Hc)) as [A [B [C [D E]]]].
  repeat split; auto. intro Hne. symmetry. auto.
Qed.

Lemma accept_verifies : forall seal open, aead_siv seal open ->
  forall b key, ((exists r, server_accept open b key = Ok r) \/ (exists id r, client_accept open b key id = Ok r)) ->
  exists p, verifies seal b key p.
Proof.
  intros seal open HS b key [[r H]|[id [r H]]].
  - eapply siv_sound_server; eauto.
  - destruct (siv_sound_client seal open HS _ _ _ _ H) as [p [V _]]. eauto.
Qed.

(* any change to the ciphertext, the nonce, an authenticated byte, or a key with
   another first half: rejected by the server and by a client with any identifier *)
Theorem siv_tamper_any : forall seal open, aead_siv seal open ->
  forall b1 k1 p1 b2 k2 p2,
  verifies seal b1 k1 p1 -> only_seal_in_circulation seal b2 k2 p1 -> decode_packet b2 = Ok p2 ->
  (p_ct p2 <> p_ct p1 \/ p_nonce p2 <> p_nonce p1 \/
   firstn (p_pos p1) b2 <> firstn (p_pos p1) b1 \/ mac_half k2 <> mac_half k1 \/
   (length (p_ct p1) <> 16%nat /\ k2 <> k1)) ->
  (forall r, server_accept open b2 k2 <> Ok r) /\ (forall id r, client_accept open b2 k2 id <> Ok r).
Proof.
  intros seal open HS b1 k1 p1 b2 k2 p2 V1 Hu D2 Hne.
  assert (X : forall p, verifies seal b2 k2 p -> False).
  { intros p V2. assert (p = p2) by (destruct V2 as [D _]; congruence). subst p.
    destruct (siv_accept_only_honest seal open HS _ _ _ _ _ _ V1 Hu V2) as [A [B [C [D [E F]]]]].
    destruct Hne as [N|[N|[N|[N|[N1 N2]]]]]; auto. }
  split.
  - intros r H. destruct (siv_sound_server seal open HS _ _ _ H) as [p V]. eauto.
  - intros id r H. destruct (siv_sound_client seal open HS _ _ _ _ H) as [p [V _]]. eauto.
Qed.

(* a datagram that DecodePacket refuses is rejected *)
Theorem undecodable_rejected : forall open b key,
  (forall p, decode_packet b <> Ok p) ->
  (forall r, server_accept open b key <> Ok r) /\ (forall id r, client_accept open b key id <> Ok r).
Proof.
  intros open b key H. unfold server_accept, client_accept.
  destruct (decode_packet b) as [p| | |]; [exfalso; eapply H; reflexivity| | |]; split; intros; discriminate.
Qed.

(* the two length fields inside the authenticator are the lengths of the nonce
   and the ciphertext the decoder hands on *)
Theorem decode_lengths : forall b p, decode_packet b = Ok p ->
  length (p_nonce p) = Z.to_nat (be16 b (p_pos p + 4)) /\
  length (p_ct p) = Z.to_nat (be16 b (p_pos p + 6)).
Proof.
  intros b p H. apply decode_packet_spec in H. destruct H as [_ _ _ _ Ha _].
  unfold unpack_auth in Ha. inversion Ha as [[E1 E2]].
  rewrite E1 at 1. rewrite E2 at 1. rewrite !take_pad_length.
  replace (p_pos p + 4 + 2)%nat with (p_pos p + 6)%nat by lia. split; reflexivity.
Qed.

(* a changed nonce-length or ciphertext-length field: rejected *)
Theorem siv_tamper_lengths : forall seal open, aead_siv seal open ->
  forall b1 k1 p1 b2 k2 p2,
  verifies seal b1 k1 p1 -> only_seal_in_circulation seal b2 k2 p1 -> decode_packet b2 = Ok p2 ->
  p_pos p2 = p_pos p1 ->
  (Z.to_nat (be16 b2 (p_pos p1 + 4)) <> Z.to_nat (be16 b1 (p_pos p1 + 4)) \/
   Z.to_nat (be16 b2 (p_pos p1 + 6)) <> Z.to_nat (be16 b1 (p_pos p1 + 6))) ->
  (forall r, server_accept open b2 k2 <> Ok r) /\ (forall id r, client_accept open b2 k2 id <> Ok r).
Proof.
  intros seal open HS b1 k1 p1 b2 k2 p2 V1 Hu D2 Hpos Hne.
  assert (D1 : decode_packet b1 = Ok p1) by (destruct V1 as [D _]; exact D).
  destruct (decode_lengths _ _ D1) as [L1 L1'].
  destruct (decode_lengths _ _ D2) as [L2 L2']. rewrite Hpos in L2, L2'.
  eapply siv_tamper_any; eauto.
  destruct Hne as [N|N].
  - right. left. intro E. apply N. rewrite <- L1, <- L2, E. reflexivity.
  - left. intro E. apply N. rewrite <- L1', <- L2', E. reflexivity.
Qed.

(* the use of a different key: rejected when the keys differ in the first half,
   and for every different key when the plaintext is not empty (responses) *)
Theorem siv_wrong_key : forall seal open, aead_siv seal open ->
  forall b k1 p k2,
  verifies seal b k1 p ->
  (mac_half k2 <> mac_half k1 \/ (length (p_ct p) <> 16%nat /\ k2 <> k1)) ->
  (forall r, server_accept open b k2 <> Ok r) /\ (forall id r, client_accept open b k2 id <> Ok r).
Proof.
  intros seal open HS b k1 p k2 V1 Hne.
  assert (X : forall q, verifies seal b k2 q -> False).
  { intros q V2. assert (q = p) by (destruct V1 as [D1 _]; destruct V2 as [D2 _]; congruence). subst q.
    destruct (siv_same_ciphertext seal open HS _ _ _ _ _ _ V1 V2 eq_refl) as [A [B _]].
    destruct Hne as [N|[N1 N2]]; [apply N; auto|apply N2; symmetry; auto]. }
  split.
  - intros r H. destruct (siv_sound_server seal open HS _ _ _ H) as [q V]. eauto.
  - intros id r H. destruct (siv_sound_client seal open HS _ _ _ _ H) as [q [V _]]. eauto.
Qed.

(* the use of the other direction's key: a packet sealed under the C2S key is
   rejected by the client (which holds S2C), one sealed under S2C by the server *)
Theorem wrong_direction : forall (export : bytes -> bytes -> bytes) seal open,
  (forall l c c', export l c = export l c' -> c = c') -> ideal_aead seal open ->
  forall b p,
  (verifies seal b (snd (export_keys export)) p ->
   forall id r, client_accept open b (fst (export_keys export)) id <> Ok r) /\
  (verifies seal b (fst (export_keys export)) p ->
   forall r, server_accept open b (snd (export_keys export)) <> Ok r).
Proof.
  intros export seal open He HI b p.
  pose proof (directions_differ export He) as Hd.
  split; intros V.
  - assert (D : decode_packet b = Ok p) by (destruct V as [D _]; exact D).
    apply (proj2 (c10_tamper seal open HI _ _ _ _ _ _ V D eq_refl (or_introl Hd))).
  - assert (D : decode_packet b = Ok p) by (destruct V as [D _]; exact D).
    apply (proj1 (c10_tamper seal open HI _ _ _ _ _ _ V D eq_refl (or_introl (fun E => Hd (eq_sym E))))).
Qed.

(* ---- the client's receive loop meets its oracle ---- *)
Lemma client_loop_accept : forall open dl key reqid ds retries i k,
  client_loop open dl key reqid ds retries i = Some k ->
  (i <= k)%nat /\ (k - i < length ds)%nat /\
  exists r, client_accept open (nth (k - i) ds []) key reqid = Ok r.
Proof.
  intros open dl key reqid ds. induction ds as [|b r IH]; intros retries i k H; simpl in H; [discriminate|].
  destruct (client_accept open b key reqid) as [p'| | |] eqn:E.
  - inversion H; subst k. rewrite Nat.sub_diag. simpl. split; [lia|]. split; [lia|]. eauto.
  - destruct (dl && (retries =? 0)%nat); [|discriminate].
    apply IH in H. destruct H as [H1 [H2 H3]]. split; [lia|]. split; [simpl; lia|].
    replace (k - i)%nat with (S (k - S i)) by lia. exact H3.
  - destruct (dl && (retries =? 0)%nat); [|discriminate].
    apply IH in H. destruct H as [H1 [H2 H3]]. split; [lia|]. split; [simpl; lia|].
    replace (k - i)%nat with (S (k - S i)) by lia. exact H3.
  - destruct (dl && (retries =? 0)%nat); [|discriminate].
    apply IH in H. destruct H as [H1 [H2 H3]]. split; [lia|]. split; [simpl; lia|].
    replace (k - i)%nat with (S (k - S i)) by lia. exact H3.
Qed.

Definition used_of (r : option nat) : Z := match r with Some i => Z.of_nat i | None => -1 end.

Theorem model_meets_client_oracle : forall seal open, ideal_aead seal open ->
  forall hs ds key reqid dl,
  (forall h, In h hs -> honest_ok seal h) ->
  (forall b, In b ds -> unforgeable seal hs b key 1) ->
  (forall h, In h hs -> model_accepts open (h_bytes h) (h_key h) (h_dir h) (h_uid h) = true) ->
  C10_client_ok hs ds key reqid (used_of (client_loop open dl key reqid ds 0 0)) = true.
Proof.
  intros seal open [A [B [C D]]] hs ds key reqid dl Hh Hu Hc.
  unfold C10_client_ok. apply andb_true_iff. split.
  - destruct (client_loop open dl key reqid ds 0 0) as [k|] eqn:E; [|reflexivity].
    apply client_loop_accept in E. destruct E as [_ [E2 [r E3]]]. rewrite Nat.sub_0_r in E2, E3.
    unfold used_of. replace (Z.of_nat k <? 0) with false by (symmetry; apply Z.ltb_ge; lia).
    rewrite Nat2Z.id.
    eapply accepted_justified; eauto.
    + apply Hu. apply nth_In. exact E2.
    + unfold model_accepts. simpl. rewrite E3. reflexivity.
  - destruct ds as [|b r]; [reflexivity|].
    destruct (existsb (is_honest b key 1 reqid) hs) eqn:E; [|reflexivity].
    apply existsb_exists in E. destruct E as [h [Hin E]]. unfold is_honest in E.
    apply andb_true_iff in E. destruct E as [E E4]. apply andb_true_iff in E. destruct E as [E E3].
    apply andb_true_iff in E. destruct E as [E1 E2].
    apply bytes_eqb_eq in E1. apply bytes_eqb_eq in E2. apply Z.eqb_eq in E3.
    simpl in E4. apply bytes_eqb_eq in E4.
    specialize (Hc h Hin). rewrite E1, E2, E3, E4 in Hc. unfold model_accepts in Hc. simpl in Hc.
    simpl. destruct (client_accept open b key reqid) as [p'| | |]; try discriminate. reflexivity.
Qed.

(* ---- a long session: identifiers are fresh (crypto/rand), so a response to a
   different request is rejected ---- *)
Theorem model_meets_session_oracle : forall seal open, aead_siv seal open ->
  forall (uids : Z -> bytes), (forall a b, uids a = uids b -> a = b) ->
  forall b key n k p,
  decode_packet b = Ok p -> p_uid p = uids k ->
  C10_session_ok (model_accepts open b key 1 (uids n)) n k = true.
Proof.
  intros seal open HS uids Hinj b key n k p Hd Hu. unfold C10_session_ok, model_accepts. simpl.
  destruct (client_accept open b key (uids n)) as [r| | |] eqn:E; try reflexivity.
  destruct (siv_sound_client seal open HS _ _ _ _ E) as [q [[D _] Q]].
  assert (q = p) by congruence. subst q. apply Z.eqb_eq. apply Hinj. congruence.
Qed.

(* ---- a rejected packet hands nothing to the cookie store ---- *)
Theorem model_meets_reject_clean : forall o : outcome packet,
  C10_reject_clean (match o with Ok _ => true | _ => false end) (client_stored o) = true.
Proof. intros [p| | |]; reflexivity. Qed.

(* ---- the cookies a listener re-issues open, under the key they were sealed
   with, to exactly the server cookie of the request ---- *)
Theorem model_meets_reissue_oracle : forall seal open, ideal_aead seal open ->
  forall sc key keyid rnds replied,
  wf_cookie sc -> lenz (sc_s2c sc) + lenz (sc_c2s sc) < 65000 -> key_ok key = true ->
  Forall (fun r : bytes => length r = 16%nat) rnds ->
  C10_reissue_ok replied (reissued_ok open sc key (reissue seal sc key keyid rnds)) = true.
Proof.
  intros seal open HI sc key keyid rnds replied Hw Hl Hk Hr.
  assert (X : reissued_ok open sc key (reissue seal sc key keyid rnds) = true).
  { unfold reissued_ok, reissue. induction Hr as [|r rs Hr1 Hr2 IH]; [reflexivity|].
    cbn [map forallb]. rewrite IH, andb_true_r.
    destruct (cookie_seal seal sc key keyid r) as [cb| | |] eqn:E.
    - rewrite (c10_cookie_complete seal open HI sc key keyid r cb Hw Hl Hr1 E).
      unfold sc_eqb. rewrite Z.eqb_refl.
      assert (R : forall x, bytes_eqb x x = true) by (intro x; apply bytes_eqb_eq; reflexivity).
      rewrite !R. reflexivity.
    - unfold cookie_seal, sc_encrypt in E. rewrite Hk in E. discriminate.
    - unfold cookie_seal, sc_encrypt in E. rewrite Hk in E. discriminate.
    - unfold cookie_seal, sc_encrypt in E. rewrite Hk in E. discriminate. }
  unfold C10_reissue_ok. rewrite X. destruct replied; reflexivity.
Qed.

(* what passes the client passes the authentication step alone (the receiver the
   harness uses to judge encoder output of either direction) *)
Theorem client_accept_authentic : forall open b key id r,
  client_accept open b key id = Ok r -> server_accept open b key = Ok r.
Proof.
  intros open b key id r H. unfold client_accept in H. unfold server_accept.
  destruct (decode_packet b) as [p| | |]; try discriminate.
  unfold process_response in H. unfold process_request.
  destruct (negb (bytes_eqb id (p_uid p))); [discriminate|exact H].
Qed.

(* ---- "the use of a different key is rejected" does not follow from what
   AES-SIV provides: the cipher ex2 (Proofs/NtsAuthInstance.v) meets aead_siv,
   and a request that the project's encoder seals under the key k2 is accepted
   by the server under the different key k1 (same first half) ---- *)
Lemma ex2_seal_empty_half : forall k k' n ad,
  mac_half k = mac_half k' -> ex2_seal k n ad [] = ex2_seal k' n ad [].
Proof. intros k k' n ad H. unfold ex2_seal, keypart. rewrite H. reflexivity. Qed.

Theorem different_key_clause_refuted :
  aead_siv ex2_seal ex2_open /\
  exists k1 k2 hdr uid rnd b r,
    k1 <> k2 /\ key_ok k1 = true /\ key_ok k2 = true /\
    enc_packet ex2_seal hdr uid [] [] k2 [] rnd = Ok b /\
    server_accept ex2_open b k1 = Ok r.
Proof.
  split; [exact (conj ex2_open_seal (conj ex2_open_only_seal (conj ex2_seal_inj_siv ex2_seal_len)))|].
  set (k1 := repeat 1 32). set (k2 := repeat 1 16 ++ repeat 2 16).
  set (hdr := repeat 0 48). set (uid := repeat 3 32). set (rnd := repeat 9 16).
  assert (Hh : length hdr = 48%nat) by reflexivity.
  assert (Hu : (32 <= length uid)%nat) by (unfold uid; rewrite repeat_length; lia).
  assert (Hr : length rnd = 16%nat) by reflexivity.
  assert (Hfit : (enc_len uid [] [] [] <= MaxPacketLen)%nat) by (vm_compute; lia).
  assert (Hk1 : key_ok k1 = true) by reflexivity.
  assert (Hk2 : key_ok k2 = true) by reflexivity.
  assert (Hm : mac_half k2 = mac_half k1) by reflexivity.
  destruct (encoder_accepted ex2_seal ex2_open ex2_open_seal ex2_seal_len hdr uid [] [] k1 [] rnd [] Hh Hu Hk1 Hr Hfit eq_refl)
    as [_ [_ [_ [S1 _]]]].
  destruct (encoder_accepted ex2_seal ex2_open ex2_open_seal ex2_seal_len hdr uid [] [] k2 [] rnd [] Hh Hu Hk2 Hr Hfit eq_refl)
    as [E2 _].
  cbv zeta in S1, E2.
  rewrite (ex2_seal_empty_half k2 k1 _ _ Hm) in E2.
  eexists k1, k2, hdr, uid, rnd, _, _.
  split; [discriminate|]. split; [exact Hk1|]. split; [exact Hk2|]. split; [exact E2|exact S1].
Qed.

(* ---- a shortened datagram ----
   Authenticator.unpack reads nonce and ciphertext by the two inner length fields
   and fills what the datagram does not hold with zeros (take_pad); DecodePacket
   asks for 28 remaining bytes only.  What holds: whatever is accepted, EXTENDED
   WITH ZEROS to the declared lengths, carries the seal of the bytes in front of
   the authenticator. *)
Theorem accept_zero_extended : forall seal open, aead_siv seal open ->
  forall b key,
  ((exists r, server_accept open b key = Ok r) \/ (exists id r, client_accept open b key id = Ok r)) ->
  exists p pt, decode_packet b = Ok p /\ length (p_nonce p) = 16%nat /\
    take_pad 16 (skipn (p_pos p + 8) b) = p_nonce p /\
    take_pad (Z.to_nat (be16 b (p_pos p + 6))) (skipn (p_pos p + 24) b) =
      seal key (p_nonce p) (Some (firstn (p_pos p) b)) pt.
Proof.
  intros seal open HS b key H.
  destruct (accept_verifies seal open HS b key H) as [p [D [W [_ [Hn [pt E]]]]]].
  destruct (wire_auth_16 b p W Hn) as [_ [A2 A3]].
  exists p, pt. split; [exact D|]. split; [exact Hn|]. split; [symmetry; exact A2|].
  rewrite <- A3. exact E.
Qed.

(* What does NOT hold: "only the datagram that was sealed is accepted".  With the
   cipher ex3 (Open succeeds only on Seal's output) the request the project's
   encoder produces ends in a zero byte of the tag; with that byte cut off the
   datagram is one byte shorter and is still accepted by the server and, as a
   response, by the client with its identifier; under another key it is refused. *)
Theorem truncated_tag_refuted :
  (forall k n ad p, ex3_open k n ad (ex3_seal k n ad p) = Some p) /\
  (forall k n ad c p, ex3_open k n ad c = Some p -> c = ex3_seal k n ad p) /\
  let key := repeat 7 32 in let rnd := repeat 9 16 in let uid := repeat 1 32 in
  match enc_packet ex3_seal (repeat 0 48) uid [] [] key [] rnd with
  | Ok b =>
      let b' := firstn (length b - 1) b in
      (length b' < length b)%nat /\ b' <> b /\
      (exists r, server_accept ex3_open b' key = Ok r) /\
      (exists r, client_accept ex3_open b' key uid = Ok r) /\
      server_accept ex3_open b' (repeat 8 32) = Err ENotAuthentic
  | _ => False
  end.
Proof.
  split; [exact ex3_open_seal|]. split; [exact ex3_open_only_seal|].
  vm_compute. split; [lia|]. split; [discriminate|]. split; [eexists; reflexivity|].
  split; [eexists; reflexivity|reflexivity].
Qed.
