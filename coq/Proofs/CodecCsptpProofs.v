(* Proofs about the CSPTP message / TLV codec model. *)
From ST Require Import Base.Ints Base.Bytes Model.CodecCsptp.
Open Scope Z_scope.
Ltac Zify.zify_post_hook ::= Z.div_mod_to_equations.

Lemma zl_eqb_refl l : zl_eqb l l = true.
Proof. induction l as [|x l IH]; simpl; auto. rewrite Z.eqb_refl. exact IH. Qed.

(* ---------- layouts that are concatenations ---------- *)

Lemma enc_fields_app k1 k2 v : 
  enc_fields (k1 ++ k2) v = enc_fields k1 v ++ enc_fields k2 (skipn (length k1) v) \/ (length v < length k1)%nat.
Proof.
  revert v. induction k1 as [|k k1 IH]; intros v; simpl.
  - left. reflexivity.
  - destruct v as [|x v]; simpl; [right; lia|].
    destruct (IH v) as [H|H]; [left|right; lia]. rewrite H, app_assoc. reflexivity.
Qed.

Lemma dec_fields_app k1 k2 b :
  dec_fields (k1 ++ k2) b = dec_fields k1 b ++ dec_fields k2 (skipn (total k1) b).
Proof.
  revert b. induction k1 as [|k k1 IH]; intros b; simpl; [reflexivity|].
  f_equal. rewrite IH. f_equal. f_equal. rewrite skipn_skipn. reflexivity.
Qed.

Lemma franges_app k1 k2 v :
  franges (k1 ++ k2) v <-> franges k1 (firstn (length k1) v) /\ franges k2 (skipn (length k1) v).
Proof.
  revert v. induction k1 as [|k k1 IH]; intros v; simpl.
  - tauto.
  - destruct v as [|x v]; simpl; [tauto|]. rewrite IH. tauto.
Qed.

Lemma franges_firstn_prefix k1 k2 v :
  franges (k1 ++ k2) v -> enc_fields k1 v = enc_fields k1 (firstn (length k1) v).
Proof.
  revert v. induction k1 as [|k k1 IH]; intros v; simpl; [destruct v; reflexivity|].
  destruct v as [|x v]; simpl; [tauto|]. intros [_ H]. f_equal. apply IH. exact H.
Qed.

(* ---------- generic facts for one fixed layout written at the start of a buffer ---------- *)

Section Fixed.
Variable ks : list fkind.
Hypothesis Hw : Forall (fun k => (0 < fwidth k)%nat) ks.

Lemma fixed_dec_enc v rest : franges ks v -> dec_fields ks (enc_fields ks v ++ rest) = v.
Proof. apply dec_enc_fields. Qed.

Lemma fixed_enc_dec b : bytes_ok b -> (total ks <= length b)%nat ->
  enc_fields ks (dec_fields ks b) = firstn (total ks) b /\ franges ks (dec_fields ks b).
Proof. intros H1 H2. split; [apply enc_dec_fields | apply dec_fields_ranges]; auto. Qed.
End Fixed.

(* ---------- Message ---------- *)

Lemma msg_widths : Forall (fun k => (0 < fwidth k)%nat) msg_layout.
Proof. repeat constructor. Qed.

Lemma msg_enc_length m : franges msg_layout m -> length (enc_fields msg_layout m) = 44%nat.
Proof. intros H. rewrite enc_fields_length by (apply franges_length; exact H). reflexivity. Qed.

Lemma csptp_msg_dec_enc m b :
  msg_wf m -> (44 <= length b)%nat ->
  exists e, csptp_encode_msg b m = Ok e /\ length e = length b /\ skipn 44 e = skipn 44 b /\ bytes_ok (firstn 44 e) /\
            forall m0, csptp_decode_msg m0 e = (m, true) /\ csptp_decode_msg m0 (firstn 43 e) = (m0, false).
Proof.
  intros Hwf Hlen. unfold csptp_encode_msg, msg_len.
  destruct (Nat.ltb_spec (length b) 44) as [H|_]; [lia|].
  eexists. split; [reflexivity|].
  pose proof (msg_enc_length m Hwf) as Hl.
  split; [rewrite app_length, Hl, skipn_length; lia|].
  split; [apply skipn_app_exact; exact Hl|].
  split; [rewrite firstn_app_exact by exact Hl; apply enc_fields_ok|].
  intros m0. unfold csptp_decode_msg, msg_len. split.
  - destruct (Nat.ltb_spec (length (enc_fields msg_layout m ++ skipn 44 b)) 44) as [H|_].
    + rewrite app_length, Hl in H. lia.
    + rewrite dec_enc_fields by exact Hwf. reflexivity.
  - destruct (Nat.ltb_spec (length (firstn 43 (enc_fields msg_layout m ++ skipn 44 b))) 44) as [_|H];
      [reflexivity|]. rewrite firstn_length in H. lia.
Qed.

Lemma csptp_msg_short_panics m b : (length b < 44)%nat -> csptp_encode_msg b m = Panic.
Proof.
  intros H. unfold csptp_encode_msg, msg_len. apply Nat.ltb_lt in H. rewrite H. reflexivity.
Qed.

Lemma csptp_msg_enc_dec m0 b b' :
  bytes_ok b -> (44 <= length b)%nat -> (44 <= length b')%nat ->
  exists m, csptp_decode_msg m0 b = (m, true) /\ msg_wf m /\
            csptp_encode_msg b' m = Ok (firstn 44 b ++ skipn 44 b').
Proof.
  intros Hok Hlen Hlen'. exists (dec_fields msg_layout b).
  unfold csptp_decode_msg, csptp_encode_msg, msg_len.
  destruct (Nat.ltb_spec (length b) 44) as [H|_]; [lia|].
  destruct (Nat.ltb_spec (length b') 44) as [H|_]; [lia|].
  destruct (fixed_enc_dec msg_layout msg_widths b Hok Hlen) as [He Hr].
  split; [reflexivity|]. split; [exact Hr|]. rewrite He. reflexivity.
Qed.

Lemma csptp_msg_decode_short m0 b : (length b < 44)%nat -> csptp_decode_msg m0 b = (m0, false).
Proof. intros H. unfold csptp_decode_msg, msg_len. apply Nat.ltb_lt in H. rewrite H. reflexivity. Qed.

(* ---------- TLVs ---------- *)

Lemma head_widths : Forall (fun k => (0 < fwidth k)%nat) tlv_head_layout.
Proof. repeat constructor. Qed.
Lemma body_widths : Forall (fun k => (0 < fwidth k)%nat) tlv_body_layout.
Proof. repeat constructor. Qed.
Lemma ssds_widths : Forall (fun k => (0 < fwidth k)%nat) ssds_layout.
Proof. repeat constructor. Qed.

Lemma tlv_len_cases t : (tlv_len t = 36 /\ ssds_flag t = false)%nat \/ (tlv_len t = 54%nat /\ ssds_flag t = true).
Proof. unfold tlv_len. destruct (ssds_flag t); auto. Qed.

(* the flag of a decoded header is the flag of the encoded value *)
Lemma ssds_flag_head t t' : firstn 5 t = firstn 5 t' -> ssds_flag t = ssds_flag t'.
Proof.
  intros H. unfold ssds_flag.
  assert (Hn : nth 4 t 0 = nth 4 t' 0).
  { rewrite <- (firstn_skipn 5 t), <- (firstn_skipn 5 t'), H.
    destruct (Nat.lt_ge_cases 4 (length (firstn 5 t'))) as [Hl|Hl].
    - rewrite !app_nth1 by exact Hl. reflexivity.
    - assert (length (firstn 5 t) = length (firstn 5 t')) by (rewrite H; reflexivity).
      rewrite !firstn_length in *.
      assert (skipn 5 t = []) by (apply skipn_all2; lia).
      assert (skipn 5 t' = []) by (apply skipn_all2; lia).
      congruence. }
  rewrite Hn. reflexivity.
Qed.

Lemma req_head_length t : franges tlv_head_layout t -> length (enc_fields tlv_head_layout t) = 14%nat.
Proof. intros H. rewrite enc_fields_length by (apply franges_length; exact H). reflexivity. Qed.

Lemma csptp_req_dec_enc t b :
  req_wf t -> (tlv_len t <= length b)%nat ->
  exists e, csptp_encode_req b t = Ok e /\ length e = length b /\ skipn (tlv_len t) e = skipn (tlv_len t) b /\
            bytes_ok (firstn (tlv_len t) e) /\
            forall t0, csptp_decode_req t0 e = (t, true) /\
                       snd (csptp_decode_req t0 (firstn (tlv_len t - 1) e)) = false.
Proof.
  intros Hwf Hlen. unfold csptp_encode_req.
  pose proof (req_head_length t Hwf) as Hl.
  assert (H36 : (36 <= length b)%nat) by (destruct (tlv_len_cases t) as [[? _]|[? _]]; lia).
  destruct (Nat.ltb_spec (length b) 36) as [H|_]; [lia|].
  assert (Hf : ssds_flag t && (length b <? 54)%nat = false).
  { destruct (tlv_len_cases t) as [[_ ->]|[Hn ->]]; [reflexivity|]. simpl. apply Nat.ltb_ge. lia. }
  rewrite Hf. eexists. split; [reflexivity|].
  set (n := tlv_len t) in *.
  assert (Hn14 : (36 <= n)%nat) by (unfold n; destruct (tlv_len_cases t) as [[? _]|[? _]]; lia).
  set (pre := enc_fields tlv_head_layout t ++ repeat 0 (n - 14)).
  assert (Hpre : length pre = n) by (unfold pre; rewrite app_length, Hl, repeat_length; lia).
  rewrite app_assoc. fold pre.
  split; [rewrite app_length, Hpre, skipn_length; lia|].
  split; [apply skipn_app_exact; exact Hpre|].
  split.
  { rewrite firstn_app_exact by exact Hpre. unfold pre. apply bytes_ok_app.
    split; [apply enc_fields_ok | apply bytes_ok_repeat0]. }
  intros t0. unfold csptp_decode_req.
  assert (Hdec : forall rest, dec_fields tlv_head_layout (pre ++ rest) = t).
  { intros rest. unfold pre. rewrite <- app_assoc. apply dec_enc_fields. exact Hwf. }
  split.
  - destruct (Nat.ltb_spec (length (pre ++ skipn n b)) 14) as [H|_];
      [rewrite app_length in H; lia|].
    rewrite Hdec. fold n.
    destruct (Nat.ltb_spec (length (pre ++ skipn n b)) n) as [H|_];
      [rewrite app_length in H; lia | reflexivity].
  - rewrite firstn_app. rewrite Hpre.
    replace (n - 1 - n)%nat with 0%nat by lia. change (firstn 0 (skipn n b)) with (@nil Z). rewrite app_nil_r.
    destruct (Nat.ltb_spec (length (firstn (n - 1) pre)) 14) as [H|H]; [reflexivity|].
    assert (Hd2 : dec_fields tlv_head_layout (firstn (n - 1) pre) = t).
    { unfold pre. rewrite firstn_app, Hl.
      rewrite (firstn_all2 (n := (n - 1)%nat)) by lia.
      apply dec_enc_fields. exact Hwf. }
    rewrite Hd2. fold n.
    destruct (Nat.ltb_spec (length (firstn (n - 1) pre)) n) as [_|H2]; [reflexivity|].
    rewrite firstn_length in H2. lia.
Qed.

Lemma csptp_req_short_panics t b : (length b < tlv_len t)%nat -> csptp_encode_req b t = Panic.
Proof.
  intros H. unfold csptp_encode_req.
  destruct (Nat.ltb_spec (length b) 36) as [_|H36]; [reflexivity|].
  destruct (tlv_len_cases t) as [[Hn _]|[Hn ->]]; [lia|].
  simpl. destruct (Nat.ltb_spec (length b) 54) as [_|H54]; [reflexivity|lia].
Qed.

(* decode then re-encode: the 14 header bytes come back, the padding is written as zeros *)
Lemma csptp_req_enc_dec t0 b b' :
  bytes_ok b -> (14 <= length b)%nat ->
  let t := fst (csptp_decode_req t0 b) in
  req_wf t /\ (snd (csptp_decode_req t0 b) = true <-> (tlv_len t <= length b)%nat) /\
  ((tlv_len t <= length b')%nat ->
   csptp_encode_req b' t = Ok (firstn 14 b ++ repeat 0 (tlv_len t - 14) ++ skipn (tlv_len t) b')).
Proof.
  intros Hok Hlen. unfold csptp_decode_req.
  destruct (Nat.ltb_spec (length b) 14) as [H|_]; [lia|].
  destruct (fixed_enc_dec tlv_head_layout head_widths b Hok Hlen) as [He Hr].
  set (t := dec_fields tlv_head_layout b) in *.
  assert (Ht : fst (if (length b <? tlv_len t)%nat then (t, false) else (t, true)) = t)
    by (destruct (length b <? tlv_len t)%nat; reflexivity).
  rewrite Ht. split; [exact Hr|]. split.
  - destruct (Nat.ltb_spec (length b) (tlv_len t)); simpl; split; intros; try discriminate; try lia; auto.
  - intros Hb'. unfold csptp_encode_req.
    assert (H36 : (36 <= length b')%nat) by (destruct (tlv_len_cases t) as [[? _]|[? _]]; lia).
    destruct (Nat.ltb_spec (length b') 36) as [H|_]; [lia|].
    assert (Hf : ssds_flag t && (length b' <? 54)%nat = false).
    { destruct (tlv_len_cases t) as [[_ ->]|[Hn ->]]; [reflexivity|]. simpl. apply Nat.ltb_ge. lia. }
    rewrite Hf, He. reflexivity.
Qed.

(* ---- response TLV ---- *)

Lemma resp_split t : franges resp_layout t ->
  franges tlv_head_layout (firstn 5 t) /\ franges tlv_body_layout (firstn 5 (skipn 5 t)) /\
  franges ssds_layout (skipn 10 t) /\ length t = 19%nat.
Proof.
  intros H. pose proof (franges_length _ _ H) as Hl. unfold resp_layout in H.
  apply franges_app in H as [H1 H2]. apply franges_app in H2 as [H2 H3].
  rewrite skipn_skipn in H3. simpl in Hl. repeat split; auto.
Qed.

Lemma enc_fields_firstn ks v : enc_fields ks (firstn (length ks) v) = enc_fields ks v.
Proof.
  revert v. induction ks as [|k ks IH]; intros v; simpl; [destruct v; reflexivity|].
  destruct v as [|x v]; simpl; [reflexivity|]. f_equal. apply IH.
Qed.

Lemma franges_firstn ks v : franges ks (firstn (length ks) v) ->
  forall rest, dec_fields ks (enc_fields ks v ++ rest) = firstn (length ks) v.
Proof.
  intros H rest. rewrite <- enc_fields_firstn. apply dec_enc_fields. exact H.
Qed.

Definition resp_bytes (t : list Z) : list Z :=
  enc_fields (tlv_head_layout ++ tlv_body_layout) t
  ++ (if ssds_flag t then enc_fields ssds_layout (skipn 10 t) else []).

Lemma resp_bytes_split t : franges resp_layout t ->
  resp_bytes t = enc_fields tlv_head_layout t ++ enc_fields tlv_body_layout (skipn 5 t)
                 ++ (if ssds_flag t then enc_fields ssds_layout (skipn 10 t) else []).
Proof.
  intros H. destruct (resp_split t H) as (_ & _ & _ & Hl). unfold resp_bytes.
  destruct (enc_fields_app tlv_head_layout tlv_body_layout t) as [->|Hs]; [|simpl in Hs; lia].
  rewrite <- app_assoc. reflexivity.
Qed.

Lemma resp_bytes_length t : franges resp_layout t -> length (resp_bytes t) = tlv_len t.
Proof.
  intros H. rewrite resp_bytes_split by exact H. destruct (resp_split t H) as (H1 & H2 & H3 & Hl).
  rewrite !app_length. rewrite <- (enc_fields_firstn tlv_head_layout), <- (enc_fields_firstn tlv_body_layout).
  rewrite (enc_fields_length tlv_head_layout) by (apply franges_length; exact H1).
  rewrite (enc_fields_length tlv_body_layout) by (apply franges_length; exact H2).
  unfold tlv_len. destruct (ssds_flag t).
  - rewrite (enc_fields_length ssds_layout) by (apply franges_length; exact H3). reflexivity.
  - reflexivity.
Qed.

Lemma list19_split (t : list Z) : length t = 19%nat ->
  t = firstn 5 t ++ firstn 5 (skipn 5 t) ++ skipn 10 t.
Proof.
  intros H. rewrite <- (firstn_skipn 5 t) at 1. f_equal.
  rewrite <- (firstn_skipn 5 (skipn 5 t)) at 1. f_equal. rewrite skipn_skipn. reflexivity.
Qed.

Lemma csptp_resp_dec_enc t b :
  resp_wf t -> (tlv_len t <= length b)%nat ->
  exists e, csptp_encode_resp b t = Ok e /\ length e = length b /\ skipn (tlv_len t) e = skipn (tlv_len t) b /\
            bytes_ok (firstn (tlv_len t) e) /\
            forall t0, csptp_decode_resp t0 e = (t, true) /\
                       snd (csptp_decode_resp t0 (firstn (tlv_len t - 1) e)) = false.
Proof.
  intros [Hr Hz] Hlen. unfold csptp_encode_resp.
  assert (H36 : (36 <= length b)%nat) by (destruct (tlv_len_cases t) as [[? _]|[? _]]; lia).
  destruct (Nat.ltb_spec (length b) 36) as [H|_]; [lia|].
  assert (Hf : ssds_flag t && (length b <? 54)%nat = false).
  { destruct (tlv_len_cases t) as [[_ ->]|[Hn ->]]; [reflexivity|]. simpl. apply Nat.ltb_ge. lia. }
  rewrite Hf. eexists. split; [reflexivity|].
  rewrite app_assoc. fold (resp_bytes t).
  pose proof (resp_bytes_length t Hr) as Hpre. set (n := tlv_len t) in *.
  split; [rewrite app_length, Hpre, skipn_length; lia|].
  split; [apply skipn_app_exact; exact Hpre|].
  split.
  { rewrite firstn_app_exact by exact Hpre. unfold resp_bytes. apply bytes_ok_app.
    split; [apply enc_fields_ok|]. destruct (ssds_flag t); [apply enc_fields_ok | constructor]. }
  destruct (resp_split t Hr) as (H1 & H2 & H3 & Hl19).
  assert (Hhead : forall rest, dec_fields tlv_head_layout (resp_bytes t ++ rest) = firstn 5 t).
  { intros rest. rewrite resp_bytes_split by exact Hr. rewrite <- !app_assoc.
    apply (franges_firstn tlv_head_layout t H1). }
  assert (Hflag : ssds_flag (firstn 5 t) = ssds_flag t).
  { apply ssds_flag_head. rewrite firstn_firstn. reflexivity. }
  assert (Hhl : length (enc_fields tlv_head_layout t) = 14%nat).
  { rewrite <- enc_fields_firstn. apply enc_fields_length. apply franges_length. exact H1. }
  assert (Hbl : length (enc_fields tlv_body_layout (skipn 5 t)) = 22%nat).
  { rewrite <- enc_fields_firstn. apply enc_fields_length. apply franges_length. exact H2. }
  intros t0. unfold csptp_decode_resp. split.
  - destruct (Nat.ltb_spec (length (resp_bytes t ++ skipn n b)) 14) as [H|_].
    { rewrite app_length in H. unfold n in *. destruct (tlv_len_cases t) as [[? _]|[? _]]; lia. }
    rewrite Hhead. unfold tlv_len at 1. rewrite Hflag. fold (tlv_len t). fold n.
    destruct (Nat.ltb_spec (length (resp_bytes t ++ skipn n b)) n) as [H|_];
      [rewrite app_length in H; lia|].
    f_equal. etransitivity; [|symmetry; apply (list19_split t Hl19)]. f_equal. f_equal.
    + rewrite resp_bytes_split by exact Hr. rewrite <- !app_assoc.
      rewrite skipn_app_exact by exact Hhl.
      apply (franges_firstn tlv_body_layout (skipn 5 t) H2).
    + rewrite resp_bytes_split by exact Hr.
      destruct (ssds_flag t) eqn:Hfl.
      * rewrite <- !app_assoc. rewrite app_assoc.
        rewrite skipn_app_exact by (rewrite app_length, Hhl, Hbl; reflexivity).
        apply dec_enc_fields. exact H3.
      * symmetry. apply Hz. reflexivity.
  - rewrite firstn_app, Hpre. replace (n - 1 - n)%nat with 0%nat by lia.
    change (firstn 0 (skipn n b)) with (@nil Z). rewrite app_nil_r.
    assert (Hn14 : (36 <= n)%nat) by (unfold n; destruct (tlv_len_cases t) as [[? _]|[? _]]; lia).
    destruct (Nat.ltb_spec (length (firstn (n - 1) (resp_bytes t))) 14) as [H|H]; [reflexivity|].
    assert (Hd2 : dec_fields tlv_head_layout (firstn (n - 1) (resp_bytes t)) = firstn 5 t).
    { rewrite resp_bytes_split by exact Hr. rewrite firstn_app, Hhl.
      rewrite (firstn_all2 (n := (n - 1)%nat)) by lia.
      apply (franges_firstn tlv_head_layout t H1). }
    rewrite Hd2. unfold tlv_len at 1. rewrite Hflag. fold (tlv_len t). fold n.
    destruct (Nat.ltb_spec (length (firstn (n - 1) (resp_bytes t))) n) as [_|H2']; [reflexivity|].
    rewrite firstn_length in H2'. lia.
Qed.

Lemma csptp_resp_short_panics t b : (length b < tlv_len t)%nat -> csptp_encode_resp b t = Panic.
Proof.
  intros H. unfold csptp_encode_resp.
  destruct (Nat.ltb_spec (length b) 36) as [_|H36]; [reflexivity|].
  destruct (tlv_len_cases t) as [[Hn _]|[Hn ->]]; [lia|].
  simpl. destruct (Nat.ltb_spec (length b) 54) as [_|H54]; [reflexivity|lia].
Qed.

(* decode then re-encode reproduces the declared number of bytes *)
Lemma csptp_resp_enc_dec t0 b b' :
  bytes_ok b -> (14 <= length b)%nat ->
  let h := dec_fields tlv_head_layout b in
  (length b < tlv_len h)%nat /\ snd (csptp_decode_resp t0 b) = false \/
  (tlv_len h <= length b)%nat /\
  exists t, csptp_decode_resp t0 b = (t, true) /\ resp_wf t /\ tlv_len t = tlv_len h /\
            ((tlv_len t <= length b')%nat ->
             csptp_encode_resp b' t = Ok (firstn (tlv_len t) b ++ skipn (tlv_len t) b')).
Proof.
  intros Hok Hlen h. unfold csptp_decode_resp.
  destruct (Nat.ltb_spec (length b) 14) as [H|_]; [lia|]. fold h.
  destruct (Nat.ltb_spec (length b) (tlv_len h)) as [Hs|Hl]; [left; split; [exact Hs|reflexivity]|].
  right. split; [exact Hl|]. eexists. split; [reflexivity|].
  destruct (fixed_enc_dec tlv_head_layout head_widths b Hok Hlen) as [He1 Hr1]. fold h in He1, Hr1.
  assert (H36 : (36 <= length b)%nat) by (destruct (tlv_len_cases h) as [[? _]|[? _]]; lia).
  assert (Hok14 : bytes_ok (skipn 14 b)) by (apply bytes_ok_skipn; exact Hok).
  destruct (fixed_enc_dec tlv_body_layout body_widths (skipn 14 b) Hok14) as [He2 Hr2];
    [rewrite skipn_length; simpl; lia|].
  set (bd := dec_fields tlv_body_layout (skipn 14 b)) in *.
  set (ss := if ssds_flag h then dec_fields ssds_layout (skipn 36 b) else repeat 0 9).
  assert (Hh5 : length h = 5%nat) by (unfold h; apply dec_fields_length).
  assert (Hb5 : length bd = 5%nat) by (unfold bd; apply dec_fields_length).
  assert (Hflag : ssds_flag (h ++ bd ++ ss) = ssds_flag h).
  { apply ssds_flag_head. rewrite firstn_app, Hh5. change (5 - 5)%nat with 0%nat. rewrite firstn_O, app_nil_r. reflexivity. }
  assert (Hss : franges ssds_layout ss /\
                (if ssds_flag h then enc_fields ssds_layout ss = firstn 18 (skipn 36 b) /\ (54 <= length b)%nat
                 else ss = repeat 0 9)).
  { unfold ss. destruct (ssds_flag h) eqn:Hfl.
    - assert (H54 : (54 <= length b)%nat) by (unfold tlv_len in Hl; rewrite Hfl in Hl; lia).
      destruct (fixed_enc_dec ssds_layout ssds_widths (skipn 36 b)) as [He3 Hr3];
        [apply bytes_ok_skipn; exact Hok | rewrite skipn_length; simpl; lia|].
      split; [exact Hr3|]. split; [exact He3|exact H54].
    - split; [|reflexivity]. simpl. lia. }
  destruct Hss as [Hr3 Hss].
  assert (Hlen3 : tlv_len (h ++ bd ++ ss) = tlv_len h) by (unfold tlv_len; rewrite Hflag; reflexivity).
  assert (Hsk5 : skipn 5 (h ++ bd ++ ss) = bd ++ ss) by (apply skipn_app_exact; exact Hh5).
  assert (Hsk10 : skipn 10 (h ++ bd ++ ss) = ss).
  { change 10%nat with (5 + 5)%nat. rewrite <- skipn_skipn, Hsk5. apply skipn_app_exact; exact Hb5. }
  split.
  { split.
    - unfold resp_layout. apply franges_app. rewrite firstn_app_exact by exact Hh5.
      split; [exact Hr1|]. change (length tlv_head_layout) with 5%nat. rewrite Hsk5.
      apply franges_app. rewrite firstn_app_exact by exact Hb5. split; [exact Hr2|].
      rewrite skipn_app_exact by exact Hb5. exact Hr3.
    - rewrite Hflag, Hsk10. intros Hfl. rewrite Hfl in Hss. exact Hss. }
  split; [exact Hlen3|].
  intros Hb'. unfold csptp_encode_resp. rewrite Hlen3 in *.
  assert (H36' : (36 <= length b')%nat) by (destruct (tlv_len_cases h) as [[? _]|[? _]]; lia).
  destruct (Nat.ltb_spec (length b') 36) as [H|_]; [lia|].
  rewrite Hflag.
  assert (Hf : ssds_flag h && (length b' <? 54)%nat = false).
  { destruct (tlv_len_cases h) as [[_ ->]|[Hn ->]]; [reflexivity|]. simpl. apply Nat.ltb_ge. lia. }
  rewrite Hf. f_equal. rewrite app_assoc. f_equal.
  destruct (enc_fields_app tlv_head_layout tlv_body_layout (h ++ bd ++ ss)) as [->|Hs];
    [|rewrite !app_length in Hs; simpl in Hs; lia].
  change (length tlv_head_layout) with 5%nat. rewrite Hsk5, Hsk10.
  rewrite <- (enc_fields_firstn tlv_head_layout), firstn_app_exact by exact Hh5.
  rewrite <- (enc_fields_firstn tlv_body_layout), firstn_app_exact by exact Hb5.
  rewrite He1, He2. simpl total.
  unfold tlv_len. destruct (ssds_flag h).
  - destruct Hss as [-> H54].
    change 54%nat with (14 + 22 + 18)%nat. rewrite !firstn_plus. reflexivity.
  - rewrite app_nil_r. change 36%nat with (14 + 22)%nat. rewrite firstn_plus. reflexivity.
Qed.

(* ---------- the oracle accepts the model ---------- *)

Definition ok_of {A} (o : outcome A) (d : A) : A := match o with Ok a => a | _ => d end.
Definition panicked {A} (o : outcome A) : bool := match o with Panic => true | _ => false end.

Lemma enc_whole_ok n (e b : list Z) :
  bytes_ok b -> bytes_ok (firstn n e) -> skipn n e = skipn n b -> bytes_okb e = true.
Proof.
  intros Hb Hf Hs. apply bytes_okb_ok. rewrite <- (firstn_skipn n e). apply bytes_ok_app.
  split; [exact Hf|]. rewrite Hs. apply bytes_ok_skipn. exact Hb.
Qed.

Lemma msg_meets_oracle m b m0 :
  msg_wf m -> bytes_ok b ->
  let o := csptp_encode_msg b m in let e := ok_of o b in
  C14_fixed_enc_ok 44 m b (panicked o) e (snd (csptp_decode_msg m0 e)) (fst (csptp_decode_msg m0 e))
     (snd (csptp_decode_msg m0 (firstn 43 e))) = true.
Proof.
  intros Hwf Hbok o e. unfold C14_fixed_enc_ok.
  destruct (Nat.ltb_spec (length b) 44) as [Hs|Hl].
  - unfold o. rewrite csptp_msg_short_panics by exact Hs. reflexivity.
  - destruct (csptp_msg_dec_enc m b Hwf Hl) as (e' & He & Hlen & Hsk & Hok & Hd).
    unfold e, o. rewrite He. simpl ok_of. simpl panicked.
    destruct (Hd m0) as [-> ->]. cbn [fst snd]. rewrite Hlen, Nat.eqb_refl, Hsk, !zl_eqb_refl.
    rewrite (enc_whole_ok 44 e' b Hbok Hok Hsk). reflexivity.
Qed.

Lemma req_meets_oracle t b t0 :
  req_wf t -> bytes_ok b ->
  let o := csptp_encode_req b t in let e := ok_of o b in
  C14_fixed_enc_ok (tlv_len t) t b (panicked o) e (snd (csptp_decode_req t0 e)) (fst (csptp_decode_req t0 e))
     (snd (csptp_decode_req t0 (firstn (tlv_len t - 1) e))) = true.
Proof.
  intros Hwf Hbok o e. unfold C14_fixed_enc_ok.
  destruct (Nat.ltb_spec (length b) (tlv_len t)) as [Hs|Hl].
  - unfold o. rewrite csptp_req_short_panics by exact Hs. reflexivity.
  - destruct (csptp_req_dec_enc t b Hwf Hl) as (e' & He & Hlen & Hsk & Hok & Hd).
    unfold e, o. rewrite He. simpl ok_of. simpl panicked.
    destruct (Hd t0) as [-> ->]. cbn [fst snd]. rewrite Hlen, Nat.eqb_refl, Hsk, !zl_eqb_refl.
    rewrite (enc_whole_ok _ e' b Hbok Hok Hsk). reflexivity.
Qed.

Lemma resp_meets_oracle t b t0 :
  resp_wf t -> bytes_ok b ->
  let o := csptp_encode_resp b t in let e := ok_of o b in
  C14_fixed_enc_ok (tlv_len t) t b (panicked o) e (snd (csptp_decode_resp t0 e)) (fst (csptp_decode_resp t0 e))
     (snd (csptp_decode_resp t0 (firstn (tlv_len t - 1) e))) = true.
Proof.
  intros Hwf Hbok o e. unfold C14_fixed_enc_ok.
  destruct (Nat.ltb_spec (length b) (tlv_len t)) as [Hs|Hl].
  - unfold o. rewrite csptp_resp_short_panics by exact Hs. reflexivity.
  - destruct (csptp_resp_dec_enc t b Hwf Hl) as (e' & He & Hlen & Hsk & Hok & Hd).
    unfold e, o. rewrite He. simpl ok_of. simpl panicked.
    destruct (Hd t0) as [-> ->]. cbn [fst snd]. rewrite Hlen, Nat.eqb_refl, Hsk, !zl_eqb_refl.
    rewrite (enc_whole_ok _ e' b Hbok Hok Hsk). reflexivity.
Qed.
