(* Proofs about the Ntimed filter model (C17). *)
From ST Require Import Base.Ints Base.Value Base.F64 Model.NtpTime Model.Ftm Model.Lucky Model.Ntimed.
From Coq Require Import ZArith List Lia Bool.
From Flocq Require Import IEEE754.BinarySingleNaN.
Import ListNotations.
Open Scope Z_scope.

(* ---- which midpoint Do converts ---- *)

Lemma choose_raw f navg lo hi mid0 fl fh :
  snd (nt_choose f navg lo hi mid0 fl fh) = 1 \/ snd (nt_choose f navg lo hi mid0 fl fh) = 4 ->
  fst (nt_choose f navg lo hi mid0 fl fh) = mid0.
Proof.
  unfold nt_choose. destruct (fl && fh); [reflexivity|].
  destruct (fgt navg c3 && fl); [cbn; intros [H|H]; discriminate|].
  destruct (fgt navg c3 && fh); [cbn; intros [H|H]; discriminate|]. reflexivity.
Qed.

(* the output is the raw offset unless exactly one limit is violated after the warm-up *)
Lemma do_raw_unless f e s :
  ni_branch (nt_do_info f e s) = 1 \/ ni_branch (nt_do_info f e s) = 4 -> ni_out (nt_do_info f e s) = raw_f s.
Proof.
  unfold nt_do_info. cbn [ni_branch ni_out]. intros H. rewrite (choose_raw _ _ _ _ _ _ _ H). reflexivity.
Qed.

(* a sample within the learned bounds (neither limit violated) comes back raw *)
Theorem within_bounds_raw f e s :
  ni_fail_lo (nt_do_info f e s) = false -> ni_fail_hi (nt_do_info f e s) = false -> ni_out (nt_do_info f e s) = raw_f s.
Proof.
  unfold nt_do_info. cbn [ni_fail_lo ni_fail_hi ni_out]. intros -> ->.
  unfold nt_choose. rewrite !andb_false_r. reflexivity.
Qed.

(* so does one that violates both *)
Theorem both_limits_raw f e s :
  ni_fail_lo (nt_do_info f e s) = true -> ni_fail_hi (nt_do_info f e s) = true -> ni_out (nt_do_info f e s) = raw_f s.
Proof.
  unfold nt_do_info. cbn [ni_fail_lo ni_fail_hi ni_out]. intros -> ->. reflexivity.
Qed.

(* ---- the sample counter ---- *)

Definition navg_of (n : nat) : f64 := f_of_int (Z.of_nat (Nat.min n 20)).

Lemma f64_eq (x y : f64) : B2SF x = B2SF y -> x = y.
Proof. apply B2SF_inj. Qed.

(* navg += 1.0 while below 20: exact on the small integers *)
Lemma navg_advance n : nt_advance (navg_of n) = navg_of (S n).
Proof.
  destruct (Nat.le_gt_cases 20 n) as [H|H].
  - unfold navg_of. rewrite !Nat.min_r by lia. apply f64_eq. vm_compute. reflexivity.
  - do 20 (destruct n as [|n]; [apply f64_eq; vm_compute; reflexivity|]). lia.
Qed.

Lemma navg_young n : (n <= 3)%nat -> fgt (navg_of n) c3 = false.
Proof. intros H. do 4 (destruct n as [|n]; [vm_compute; reflexivity|]). lia. Qed.

(* the state's counter and epoch after a Do *)
Lemma do_navg f e s : nt_navg (ni_state (nt_do_info f e s)) = nt_advance (nt_navg (nt_pre f e)).
Proof. reflexivity. Qed.

Lemma do_epoch f e s : nt_epoch (ni_state (nt_do_info f e s)) = e.
Proof.
  unfold nt_do_info. cbn [ni_state nt_epoch]. unfold nt_pre.
  destruct (nt_epoch f =? e) eqn:E; [apply Z.eqb_eq in E; exact E|reflexivity].
Qed.

(* if the counter (after advancing) is at most 3, branches 2 and 3 are closed *)
Lemma do_young_raw f e s :
  fgt (nt_navg (ni_state (nt_do_info f e s))) c3 = false -> ni_out (nt_do_info f e s) = raw_f s.
Proof.
  rewrite do_navg. unfold nt_do_info. cbn [ni_out]. intros H. unfold nt_choose. rewrite H.
  cbn [andb]. destruct (_ && _); reflexivity.
Qed.

(* tracked: the filter's epoch is prev and its counter says n samples *)
Definition tracked (f : ntimed) (prev : Z) (n : nat) : Prop :=
  nt_epoch f = prev /\ nt_navg f = navg_of n.

Lemma tracked_zero e : tracked (nt_zero e) e 0.
Proof. split; [reflexivity|]. apply f64_eq. vm_compute. reflexivity. Qed.

Lemma do_tracked f prev n e s : tracked f prev n ->
  tracked (ni_state (nt_do_info f e s)) e (if e =? prev then S n else 1).
Proof.
  intros [He Hn]. split; [apply do_epoch|]. rewrite do_navg. unfold nt_pre. rewrite He.
  rewrite (Z.eqb_sym e prev). destruct (prev =? e).
  - rewrite Hn. apply navg_advance.
  - destruct (tracked_zero e) as [_ H0]. rewrite H0. apply (navg_advance 0).
Qed.

(* every Do reached with at most two samples since the last reset point returns the raw offset *)
Theorem young_raw ops : forall f prev n, tracked f prev n ->
  Forall2 (fun (i : nt_info) (cs : nat * sample) => (fst cs <= 3)%nat -> ni_out i = raw_f (snd cs))
          (nt_trace f ops) (combine (since_counts prev n ops) (do_samples ops)).
Proof.
  induction ops as [|op r IH]; intros f prev n Ht; [constructor|].
  destruct op as [e s|e]; cbn [nt_trace nt_step since_counts do_samples combine].
  - pose proof (do_tracked f prev n e s Ht) as Ht'.
    constructor; [|apply IH; exact Ht'].
    cbn [fst snd]. intros Hle. apply do_young_raw. destruct Ht' as [_ ->]. apply navg_young. exact Hle.
  - apply IH. apply tracked_zero.
Qed.

(* ---- reset ---- *)

Lemma zero_epoch_irrelevant e s : nt_do_info (nt_zero 0) e s = nt_do_info (nt_zero e) e s.
Proof.
  assert (E : nt_pre (nt_zero 0) e = nt_pre (nt_zero e) e).
  { unfold nt_pre. cbn [nt_epoch nt_zero]. rewrite Z.eqb_refl.
    destruct (0 =? e) eqn:E; [apply Z.eqb_eq in E; subst e|]; reflexivity. }
  unfold nt_do_info. rewrite E. reflexivity.
Qed.

(* at a reset point the step does not depend on the state the filter was in *)
Theorem reset_point_forgets f op : is_reset_point (nt_epoch f) op = true -> nt_step f op = nt_step (nt_zero 0) op.
Proof.
  destruct op as [e s|e]; cbn [is_reset_point nt_step]; [|reflexivity].
  intros H. apply negb_true_iff in H. rewrite zero_epoch_irrelevant.
  assert (E : nt_do_info f e s = nt_do_info (nt_zero e) e s).
  { assert (E : nt_pre f e = nt_pre (nt_zero e) e).
    { unfold nt_pre. cbn [nt_epoch nt_zero]. rewrite Z.eqb_refl. rewrite (Z.eqb_sym (nt_epoch f) e), H. reflexivity. }
    unfold nt_do_info. rewrite E. reflexivity. }
  rewrite E. reflexivity.
Qed.

Theorem reset_forgets f1 f2 op rest :
  is_reset_point (nt_epoch f1) op = true -> is_reset_point (nt_epoch f2) op = true ->
  nt_run f1 (op :: rest) = nt_run f2 (op :: rest).
Proof.
  intros H1 H2. unfold nt_run. cbn [nt_trace].
  rewrite (reset_point_forgets f1 op H1), (reset_point_forgets f2 op H2). reflexivity.
Qed.

(* replaying with a new filter at every reset point gives the same outputs *)
Theorem restarting_same ops : forall f, nt_run_restarting f ops = nt_run f ops.
Proof.
  induction ops as [|op r IH]; intros f; [reflexivity|].
  unfold nt_run. cbn [nt_run_restarting nt_trace].
  destruct (is_reset_point (nt_epoch f) op) eqn:E.
  - rewrite <- (reset_point_forgets f op E).
    destruct (nt_step f op) as [f' [i|]]; cbn [map]; rewrite IH; reflexivity.
  - destruct (nt_step f op) as [f' [i|]]; cbn [map]; rewrite IH; reflexivity.
Qed.

(* the trace has one entry per Do *)
Lemma trace_length ops : forall f, length (nt_trace f ops) = length (do_samples ops).
Proof.
  induction ops as [|op r IH]; intros f; [reflexivity|].
  destruct op as [e s|e]; cbn [nt_trace nt_step do_samples length]; rewrite IH; reflexivity.
Qed.

(* ---- the oracle on the model ---- *)

Definition within_of (tr : list nt_info) : list bool :=
  map (fun i => negb (ni_fail_lo i) && negb (ni_fail_hi i)) tr.

Lemma list_eqb_refl l : list_eqb Z.eqb l l = true.
Proof. induction l as [|x r IH]; cbn; [reflexivity|]. rewrite Z.eqb_refl, IH. reflexivity. Qed.

Lemma steps_ok_model ops : forall f prev n,
  (forall s, In s (do_samples ops) -> raw_close s (raw_f s) = true) -> tracked f prev n ->
  C17_ntimed_steps_ok (do_samples ops) (since_counts prev n ops) (within_of (nt_trace f ops)) (map ni_out (nt_trace f ops)) = true.
Proof.
  induction ops as [|op r IH]; intros f prev n Hclose Ht; [reflexivity|].
  destruct op as [e s|e]; cbn [nt_trace nt_step since_counts do_samples within_of map C17_ntimed_steps_ok].
  - pose proof (do_tracked f prev n e s Ht) as Ht'.
    fold (within_of (nt_trace (ni_state (nt_do_info f e s)) r)).
    assert (Hs : raw_close s (raw_f s) = true) by (apply Hclose; left; reflexivity).
    rewrite (IH _ _ _ (fun s' H' => Hclose s' (or_intror H')) Ht'), andb_true_r.
    destruct (Nat.leb (if e =? prev then S n else 1%nat) 3) eqn:E1; cbn [orb].
    + apply Nat.leb_le in E1. rewrite do_young_raw; [exact Hs|].
      destruct Ht' as [_ ->]. apply navg_young. exact E1.
    + destruct (negb (ni_fail_lo (nt_do_info f e s)) && negb (ni_fail_hi (nt_do_info f e s))) eqn:E2; [|reflexivity].
      apply andb_prop in E2. destruct E2 as [E2 E3]. apply negb_true_iff in E2, E3.
      rewrite (within_bounds_raw f e s E2 E3). exact Hs.
  - apply IH; [exact Hclose|apply tracked_zero].
Qed.

(* the model meets the oracle on every history, given that the float evaluation
   of the raw offset is close to the exact one for the samples of the history *)
Theorem ntimed_model_meets_oracle ops :
  (forall s, In s (do_samples ops) -> raw_close s (raw_f s) = true) ->
  let tr := nt_trace (nt_zero 0) ops in
  C17_ntimed_ok ops (within_of tr) (map ni_out tr) (reset_points 0 0 ops) (nt_run_restarting (nt_zero 0) ops) = true.
Proof.
  intros Hclose. cbv zeta. unfold C17_ntimed_ok.
  rewrite (steps_ok_model ops (nt_zero 0) 0 0 Hclose (tracked_zero 0)).
  rewrite list_eqb_refl. rewrite restarting_same. unfold nt_run. rewrite list_eqb_refl. reflexivity.
Qed.

(* the reset and restart clauses of the oracle need no such hypothesis *)
Theorem ntimed_reset_oracle ops :
  let tr := nt_trace (nt_zero 0) ops in
  list_eqb Z.eqb (nt_run_restarting (nt_zero 0) ops) (map ni_out tr) = true.
Proof. cbv zeta. rewrite restarting_same. apply list_eqb_refl. Qed.

Theorem young_raw_fresh ops :
  Forall2 (fun (i : nt_info) (cs : nat * sample) => (fst cs <= 3)%nat -> ni_out i = raw_f (snd cs))
          (nt_trace (nt_zero 0) ops) (combine (since_counts 0 0 ops) (do_samples ops)).
Proof. apply young_raw. apply tracked_zero. Qed.

(* ---- Reset equals fresh ---- *)

Lemma zero_step e op : nt_step (nt_zero e) op = nt_step (nt_zero 0) op.
Proof.
  destruct op as [e' s|e']; cbn [nt_step]; [|reflexivity].
  assert (E : nt_do_info (nt_zero e) e' s = nt_do_info (nt_zero 0) e' s).
  { assert (E : nt_pre (nt_zero e) e' = nt_pre (nt_zero 0) e').
    { unfold nt_pre. cbn [nt_epoch nt_zero].
      destruct (e =? e') eqn:E1; [apply Z.eqb_eq in E1; subst e|];
        (destruct (0 =? e') eqn:E2; [apply Z.eqb_eq in E2; subst e'|]); reflexivity. }
    unfold nt_do_info. rewrite E. reflexivity. }
  rewrite E. reflexivity.
Qed.

Lemma zero_run e ops : nt_run (nt_zero e) ops = nt_run (nt_zero 0) ops.
Proof. destruct ops as [|op r]; [reflexivity|]. unfold nt_run. cbn [nt_trace]. rewrite (zero_step e op). reflexivity. Qed.

(* for ALL states f: after Reset (under any epoch) the filter answers every further history like a new one *)
Theorem reset_equals_fresh f e ops : nt_run f (NReset e :: ops) = nt_run (nt_zero 0) ops.
Proof. unfold nt_run at 1. cbn [nt_trace nt_step]. apply zero_run. Qed.

(* the state Reset leaves is the zero state of that epoch, whatever it was *)
Theorem reset_state f e : nt_after f [NReset e] = nt_zero e.
Proof. reflexivity. Qed.

(* ... and so does a Do under another epoch than the filter's *)
Theorem epoch_change_equals_fresh f e s ops : nt_epoch f <> e ->
  nt_run f (NDo e s :: ops) = nt_run (nt_zero 0) (NDo e s :: ops).
Proof.
  intros H. unfold nt_run. cbn [nt_trace].
  rewrite (reset_point_forgets f (NDo e s)); [reflexivity|].
  cbn [is_reset_point]. apply negb_true_iff. apply Z.eqb_neq. intros E. apply H. symmetry. exact E.
Qed.

(* ---- one filter per client: the expected observation meets the oracle ---- *)

Lemma ziota_lower a n x : In x (ziota a n) -> a <= x.
Proof.
  revert a. induction n as [|n IH]; intros a H; [destruct H|].
  destruct H as [<-|H]; [lia|]. specialize (IH (a + 1) H). lia.
Qed.

Lemma ziota_nodup a n : znodup (ziota a n) = true.
Proof.
  revert a. induction n as [|n IH]; intros a; [reflexivity|].
  cbn [ziota znodup]. rewrite IH, andb_true_r. apply negb_true_iff.
  destruct (existsb (Z.eqb a) (ziota (a + 1) n)) eqn:E; [|reflexivity].
  apply existsb_exists in E. destruct E as [x [Hx Hex]]. apply Z.eqb_eq in Hex. subst x.
  apply ziota_lower in Hx. lia.
Qed.

Lemma ziota_length a n : length (ziota a n) = n.
Proof. revert a. induction n as [|n IH]; intros a; [reflexivity|]. cbn. rewrite IH. reflexivity. Qed.

Lemma ziota_nonneg a n : 0 <= a -> forallb (fun i => 0 <=? i) (ziota a n) = true.
Proof.
  revert a. induction n as [|n IH]; intros a H; [reflexivity|].
  cbn [ziota forallb]. rewrite IH by lia. destruct (Z.leb_spec 0 a); [reflexivity|lia].
Qed.

Lemma repeat_all_one n : forallb (fun t => t =? 1) (repeat 1 n) = true.
Proof. induction n as [|n IH]; [reflexivity|]. cbn. exact IH. Qed.

Theorem filters_expected_ok kinds npeer :
  let '(counts, types, ids) := svc_expected kinds npeer in
  C17_filters_ok kinds npeer true counts types ids = true.
Proof.
  unfold svc_expected, C17_filters_ok. cbn [andb].
  rewrite list_eqb_refl, repeat_length, Nat.eqb_refl, repeat_all_one, ziota_length, Nat.eqb_refl,
    ziota_nonneg by lia. rewrite ziota_nodup. reflexivity.
Qed.

(* sharing is rejected: two clients with the same filter never pass *)
Theorem filters_shared_rejected kinds npeer counts types pre x mid post :
  C17_filters_ok kinds npeer true counts types (pre ++ x :: mid ++ x :: post) = false.
Proof.
  unfold C17_filters_ok. 
  assert (H : znodup (pre ++ x :: mid ++ x :: post) = false).
  { induction pre as [|p r IH]; cbn [app znodup].
    - assert (E : existsb (Z.eqb x) (mid ++ x :: post) = true).
      { apply existsb_exists. exists x. split; [apply in_or_app; right; left; reflexivity|apply Z.eqb_refl]. }
      rewrite E. reflexivity.
    - rewrite IH. apply andb_false_r. }
  rewrite H. apply andb_false_r.
Qed.
