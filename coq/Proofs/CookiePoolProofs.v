(* Proofs about the cookie lifecycle model (Model/CookiePool.v), C11. *)
From ST Require Import Base.Ints Base.Bytes Model.CookiePool.
From Coq Require Import ZArith List Bool Lia.
Import ListNotations.
Open Scope Z_scope.

Ltac Zify.zify_post_hook ::= Z.div_mod_to_equations.

(* ================= arithmetic of lengths ================= *)

Lemma pad4_spec n : 0 <= n -> n <= pad4 n < n + 4 /\ pad4 n mod 4 = 0.
Proof. intros Hn. unfold pad4. split; [lia|]. apply Z_mod_mult. Qed.

Lemma pad4_mult4 n : n mod 4 = 0 -> pad4 n = n.
Proof. intros H. unfold pad4. lia. Qed.

Lemma field_len_pos n : 0 <= n -> 4 <= field_len n.
Proof. intros Hn. unfold field_len. pose proof (pad4_spec n Hn). lia. Qed.

Lemma quot_nonpos a b : a < 0 -> 0 < b -> Z.quot a b <= 0.
Proof.
  intros Ha Hb. replace a with (- (- a)) by lia. rewrite Z.quot_opp_l by lia.
  assert (0 <= Z.quot (- a) b) by (apply Z.quot_pos; lia). lia.
Qed.

(* maxCookies cookie fields fit next to the header, the identifier and the authenticator *)
Lemma max_cookies_fit idLen clen :
  0 <= clen -> 1 <= max_cookies idLen clen ->
  max_cookies idLen clen * field_len clen <= MaxPacketLen - ntpPacketLen - field_len idLen - 40.
Proof.
  intros Hc Hm. unfold max_cookies, field_len in *.
  pose proof (pad4_spec clen Hc) as [Hp _].
  set (N := MaxPacketLen - ntpPacketLen - (4 + pad4 idLen) - (4 + 4 + 16 + 16)) in *.
  set (D := 4 + pad4 clen) in *.
  assert (HD : 0 < D) by (unfold D; lia).
  destruct (Z_lt_ge_dec N 0) as [Hn|Hn].
  - pose proof (quot_nonpos N D Hn HD). lia.
  - rewrite Z.quot_div_nonneg in * by lia.
    pose proof (Z.mul_div_le N D HD).
    replace (MaxPacketLen - ntpPacketLen - (4 + pad4 idLen) - 40) with N by (unfold N; lia). lia.
Qed.

(* ... and one more does not *)
Lemma max_cookies_tight idLen clen :
  0 <= clen -> 0 <= max_cookies idLen clen ->
  MaxPacketLen - ntpPacketLen - field_len idLen - 40 < (max_cookies idLen clen + 1) * field_len clen.
Proof.
  intros Hc Hm. unfold max_cookies, field_len in *.
  pose proof (pad4_spec clen Hc) as [Hp _].
  set (N := MaxPacketLen - ntpPacketLen - (4 + pad4 idLen) - (4 + 4 + 16 + 16)) in *.
  set (D := 4 + pad4 clen) in *.
  assert (HD : 0 < D) by (unfold D; lia).
  replace (MaxPacketLen - ntpPacketLen - (4 + pad4 idLen) - 40) with N by (unfold N; lia).
  destruct (Z_lt_ge_dec N 0) as [Hn|Hn].
  - assert (0 < (Z.quot N D + 1) * D) by nia. lia.
  - rewrite Z.quot_div_nonneg in * by lia.
    pose proof (Z.mod_pos_bound N D HD). pose proof (Z.div_mod N D). nia.
Qed.

Lemma num_placeholders_le level idLen clen :
  num_placeholders level idLen clen <= numStoredCookies - level /\
  num_placeholders level idLen clen <= max_cookies idLen clen - 1.
Proof. unfold num_placeholders. destruct (_ <? _) eqn:E; lia. Qed.

Lemma reply_count_bounds r idLen clen :
  1 <= r -> 1 <= reply_count r idLen clen <= r.
Proof. intros Hr. unfold reply_count. destruct (_ && _) eqn:E; [apply andb_prop in E; destruct E|]; lia. Qed.

Lemma reply_count_fit r idLen clen :
  0 <= clen -> 1 <= r -> 1 <= max_cookies idLen clen ->
  reply_count r idLen clen <= max_cookies idLen clen.
Proof. intros Hc Hr Hm. unfold reply_count. destruct (_ && _) eqn:E; [|apply andb_false_iff in E; destruct E]; lia. Qed.

(* requests and replies fit, for every cookie length of which at least one fits, at every pool level *)
Theorem request_fits idLen clen level :
  0 <= clen -> 1 <= max_cookies idLen clen -> 1 <= level ->
  request_len level idLen clen <= MaxPacketLen.
Proof.
  intros Hc Hm Hl. unfold request_len, auth_len.
  pose proof (max_cookies_fit idLen clen Hc Hm) as Hf.
  pose proof (num_placeholders_le level idLen clen) as [_ Hn].
  pose proof (field_len_pos clen Hc).
  assert ((1 + Z.max 0 (num_placeholders level idLen clen)) * field_len clen
          <= max_cookies idLen clen * field_len clen) by (apply Z.mul_le_mono_nonneg_r; lia).
  lia.
Qed.

Theorem reply_fits idLen clen r :
  0 <= clen -> 1 <= max_cookies idLen clen -> 1 <= r ->
  reply_len (reply_count r idLen clen) idLen clen <= MaxPacketLen.
Proof.
  intros Hc Hm Hr. unfold reply_len, auth_len.
  pose proof (max_cookies_fit idLen clen Hc Hm) as Hf.
  pose proof (reply_count_fit r idLen clen Hc Hr Hm).
  pose proof (reply_count_bounds r idLen clen Hr).
  pose proof (field_len_pos clen Hc).
  assert (reply_count r idLen clen * field_len clen <= max_cookies idLen clen * field_len clen)
    by (apply Z.mul_le_mono_nonneg_r; lia).
  lia.
Qed.

(* the cap only bites when one more cookie would not fit *)
Theorem reply_count_maximal idLen clen r :
  0 <= clen -> 1 <= max_cookies idLen clen -> 1 <= r ->
  reply_count r idLen clen = r \/
  MaxPacketLen < reply_len (reply_count r idLen clen + 1) idLen clen.
Proof.
  intros Hc Hm Hr. unfold reply_count. destruct (_ && _) eqn:E; [right|left; reflexivity].
  pose proof (max_cookies_tight idLen clen Hc ltac:(lia)). unfold reply_len, auth_len. lia.
Qed.

Theorem placeholders_maximal idLen clen level :
  0 <= clen -> 1 <= max_cookies idLen clen -> 1 <= level <= numStoredCookies ->
  let p := Z.max 0 (num_placeholders level idLen clen) in
  p = numStoredCookies - level \/
  MaxPacketLen < ntpPacketLen + field_len idLen + (p + 2) * field_len clen + auth_len 0.
Proof.
  intros Hc Hm Hl p. unfold p, num_placeholders. destruct (_ <? _) eqn:E; [right|left; lia].
  pose proof (max_cookies_tight idLen clen Hc ltac:(lia)). unfold auth_len.
  replace (Z.max 0 (max_cookies idLen clen - 1) + 2) with (max_cookies idLen clen + 1) by lia. lia.
Qed.

(* the numbers for this project's cookies *)
Lemma server_cookie_len : serverCookieLen = 124. Proof. reflexivity. Qed.
Lemma max_cookies_issued : max_cookies 32 serverCookieLen = 7. Proof. reflexivity. Qed.

Lemma num_placeholders_issued level :
  1 <= level <= 8 -> Z.max 0 (num_placeholders level 32 124) = Z.min (8 - level) 6.
Proof. intros H. unfold num_placeholders. change (max_cookies 32 124) with 7. unfold numStoredCookies. destruct (_ <? _) eqn:E; lia. Qed.

Theorem fits_issued level :
  1 <= level <= 8 ->
  request_len level 32 124 = 124 + 128 * (1 + Z.min (8 - level) 6) /\
  request_len level 32 124 <= 1024 /\
  let r := 1 + Z.max 0 (num_placeholders level 32 124) in
  reply_count r 32 124 = r /\
  reply_len (reply_count r 32 124) 32 124 = request_len level 32 124.
Proof.
  intros H. unfold request_len, reply_len. rewrite (num_placeholders_issued level H).
  unfold reply_count. change (max_cookies 32 124) with 7.
  unfold field_len, auth_len, pad4, ntpPacketLen.
  change ((32 + 3) / 4 * 4) with 32. change ((124 + 3) / 4 * 4) with 124.
  destruct (_ && _) eqn:E; [apply andb_prop in E; destruct E|]; lia.
Qed.

(* ================= histories ================= *)

Lemma nodup_app {A} (a b : list A) :
  NoDup (a ++ b) <-> NoDup a /\ NoDup b /\ (forall x, In x a -> ~ In x b).
Proof.
  induction a as [|x a IH]; simpl.
  - split; [intros H; repeat split; [constructor|exact H|tauto]|tauto].
  - split.
    + intros H. inversion H as [|? ? Hn Hd]; subst. apply IH in Hd as [Ha [Hb Hx]].
      repeat split; [constructor; [intros Hi; apply Hn, in_or_app; tauto|exact Ha]|exact Hb|].
      intros y [->|Hy]; [intros Hi; apply Hn, in_or_app; tauto|apply Hx, Hy].
    + intros [Ha [Hb Hx]]. inversion Ha as [|? ? Hn Hd]; subst. constructor.
      * intros Hi. apply in_app_or in Hi as [Hi|Hi]; [tauto|exact (Hx x (or_introl eq_refl) Hi)].
      * apply IH. repeat split; [exact Hd|exact Hb|intros y Hy; apply Hx; tauto].
Qed.

Section Hist.
Context {C : Type}.
Variable issue : nat -> C.
Hypothesis issue_inj : forall i j, issue i = issue j -> i = j.   (* server nonces are fresh *)
Variable clen : Z.

Definition issued_below (n : nat) (c : C) : Prop := exists k, (k < n)%nat /\ c = issue k.

Definition Inv (s : sys C) : Prop :=
  NoDup (s_pool s) /\ NoDup (s_sent s) /\
  (forall x, In x (s_pool s) -> ~ In x (s_sent s)) /\
  (forall x, In x (s_pool s) \/ In x (s_sent s) -> issued_below (s_next s) x) /\
  (length (s_pool s) <= 8)%nat.

Lemma issue_n_length from n : length (issue_n issue from n) = n.
Proof. unfold issue_n. rewrite map_length, seq_length. reflexivity. Qed.

Lemma issue_n_in from n x : In x (issue_n issue from n) <-> exists k, (from <= k < from + n)%nat /\ x = issue k.
Proof.
  unfold issue_n. rewrite in_map_iff. split.
  - intros [k [E Hk]]. apply in_seq in Hk. exists k. split; [lia|congruence].
  - intros [k [Hk E]]. exists k. split; [congruence|apply in_seq; lia].
Qed.

Lemma issue_n_nodup from n : NoDup (issue_n issue from n).
Proof.
  unfold issue_n. generalize (seq_NoDup n from). generalize (seq from n). intros l Hl.
  induction Hl as [|x l Hn Hd IH]; simpl; constructor; [|exact IH].
  intros Hi. apply in_map_iff in Hi as [y [E Hy]]. apply issue_inj in E. subst. tauto.
Qed.

Lemma issued_below_mono n m c : (n <= m)%nat -> issued_below n c -> issued_below m c.
Proof. intros H [k [Hk E]]. exists k. split; [lia|exact E]. Qed.

Lemma issued_below_not_new nx n x : issued_below nx x -> ~ In x (issue_n issue nx n).
Proof.
  intros [k [Hk E]] Hi. apply issue_n_in in Hi as [j [Hj E']]. subst. apply issue_inj in E'. lia.
Qed.

(* the number of cookies a success brings: at least one, at most what is missing plus the one used *)
Lemma refill_bounds (level : nat) :
  (1 <= level <= 8)%nat ->
  let np := Z.max 0 (num_placeholders (Z.of_nat level) 32 clen) in
  let k := if clen <=? MaxCookieLen then Z.to_nat (reply_count (1 + np) 32 clen) else O in
  (clen <= MaxCookieLen -> (1 <= k)%nat) /\ (k <= Z.to_nat (1 + np))%nat /\ (level - 1 + k <= 8)%nat.
Proof.
  intros Hl np k.
  pose proof (num_placeholders_le (Z.of_nat level) 32 clen) as [Hn _]. unfold numStoredCookies in Hn.
  pose proof (reply_count_bounds (1 + np) 32 clen ltac:(lia)) as Hk.
  unfold k. destruct (clen <=? MaxCookieLen) eqn:E; (split; [intros; lia|]); split; lia.
Qed.

Lemma exchange_inv p nx sent ok nosend waste dflt :
  NoDup p -> NoDup sent -> (forall x, In x p -> ~ In x sent) ->
  (forall x, In x p \/ In x sent -> issued_below nx x) -> (length p <= 8)%nat ->
  Inv dflt -> Inv (sys_exchange issue clen p nx sent ok nosend waste dflt).
Proof.
  intros Hp Hs Hd Hi Hl Hdf. destruct p as [|c rest]; [exact Hdf|].
  unfold sys_exchange. unfold zlen.
  destruct nosend.
  { inversion Hp as [|? ? Hnc Hr]; subst. unfold Inv; cbn [s_pool s_sent s_next]. repeat split.
    - exact Hr.
    - exact Hs.
    - intros x Hx. apply Hd. simpl. tauto.
    - intros x [Hx|Hx]; apply Hi; simpl; tauto.
    - simpl in Hl. lia. }
  pose proof (refill_bounds (length (c :: rest)) ltac:(simpl in *; lia)) as Hb. cbv zeta in Hb.
  set (np := Z.max 0 (num_placeholders (Z.of_nat (length (c :: rest))) 32 clen)) in *.
  set (k := if clen <=? MaxCookieLen then Z.to_nat (reply_count (1 + np) 32 clen) else O) in *.
  inversion Hp as [|? ? Hnc Hr]; subst.
  destruct ok; unfold Inv; cbn [s_pool s_sent s_next].
  - repeat split.
    + apply nodup_app. repeat split; [exact Hr|apply issue_n_nodup|].
      intros x Hx. apply issued_below_not_new, Hi. simpl. tauto.
    + constructor; [apply Hd; simpl; tauto|exact Hs].
    + intros x Hx [E|Hin].
      * subst x. apply in_app_or in Hx as [Hx|Hx]; [tauto|].
        revert Hx. apply issued_below_not_new, Hi. simpl. tauto.
      * apply in_app_or in Hx as [Hx|Hx]; [apply (Hd x); simpl; tauto|].
        revert Hx. apply issued_below_not_new, Hi. tauto.
    + intros x [Hx|[E|Hx]].
      * apply in_app_or in Hx as [Hx|Hx].
        -- apply issued_below_mono with nx; [lia|apply Hi; simpl; tauto].
        -- apply issue_n_in in Hx as [j [Hj E]]. exists j. split; [lia|exact E].
      * subst x. apply issued_below_mono with nx; [lia|apply Hi; simpl; tauto].
      * apply issued_below_mono with nx; [lia|apply Hi; tauto].
    + rewrite app_length, issue_n_length. cbn [length] in *. lia.
  - repeat split.
    + exact Hr.
    + constructor; [apply Hd; simpl; tauto|exact Hs].
    + intros x Hx [E|Hin]; [subst; tauto|apply (Hd x); simpl; tauto].
    + intros x [Hx|[E|Hx]]; (apply issued_below_mono with nx; [lia|]); apply Hi; simpl; tauto.
    + simpl in Hl. lia.
Qed.

Lemma step_inv s o : Inv s -> Inv (sys_step issue clen s o).
Proof.
  intros HI. pose proof HI as [Hp [Hs [Hd [Hi Hl]]]]. unfold sys_step.
  destruct (s_pool s) as [|c rest] eqn:Ep.
  - destruct (e_ke_ok o).
    + apply exchange_inv; try exact HI; try exact Hs.
      * apply issue_n_nodup.
      * intros x Hx Hxs. revert Hx. apply issued_below_not_new.
        apply issued_below_mono with (s_next s); [lia|apply Hi; tauto].
      * intros x [Hx|Hx].
        -- apply issue_n_in in Hx as [j [Hj E]]. exists j. split; [lia|exact E].
        -- apply issued_below_mono with (s_next s); [lia|apply Hi; tauto].
      * rewrite issue_n_length. unfold keCookies. lia.
    + unfold Inv; simpl. repeat split; [constructor|exact Hs|tauto| |lia].
      intros x [[]|Hx]. apply issued_below_mono with (s_next s); [lia|apply Hi; tauto].
  - apply exchange_inv; try assumption.
    intros x Hx. apply issued_below_mono with (s_next s); [lia|apply Hi; exact Hx].
Qed.

Lemma inv0 : Inv sys0.
Proof. unfold Inv, sys0; simpl. repeat split; try constructor; try tauto; try lia. Qed.

Lemma run_inv os : forall s, Inv s -> Inv (sys_run issue clen s os).
Proof. induction os as [|o os IH]; intros s H; simpl; [exact H|apply IH, step_inv, H]. Qed.

Definition reachable (s : sys C) : Prop := exists os, s = sys_run issue clen sys0 os.

Lemma reachable_inv s : reachable s -> Inv s.
Proof. intros [os ->]. apply run_inv, inv0. Qed.

(* --- no cookie is sent twice --- *)
Theorem no_reuse os : NoDup (s_sent (sys_run issue clen sys0 os)).
Proof. pose proof (run_inv os sys0 inv0) as [_ [H _]]. exact H. Qed.

(* --- a cookie that is sent leaves the pool for good --- *)
Theorem sent_not_pooled os x :
  In x (s_sent (sys_run issue clen sys0 os)) -> ~ In x (s_pool (sys_run issue clen sys0 os)).
Proof. pose proof (run_inv os sys0 inv0) as [_ [_ [H _]]]. intros Hs Hp. exact (H x Hp Hs). Qed.

(* what one call sends: nothing, or exactly the cookie at the head of the pool it fetched *)
Theorem step_sends s o :
  s_sent (sys_step issue clen s o) = s_sent s \/
  exists c, s_sent (sys_step issue clen s o) = c :: s_sent s /\
            (s_pool s = [] \/ exists r, s_pool s = c :: r).
Proof.
  unfold sys_step. destruct (s_pool s) as [|c rest].
  - destruct (e_ke_ok o); [|left; reflexivity].
    unfold sys_exchange, issue_n, keCookies. cbn [seq map].
    destruct (e_nosend o); [left; reflexivity|].
    right. exists (issue (s_next s + e_skip o)). destruct (e_ok o); simpl; tauto.
  - unfold sys_exchange. destruct (e_nosend o); [left; reflexivity|].
    right. exists c. destruct (e_ok o); simpl; split; eauto.
Qed.

(* --- pool bounds --- *)
Theorem pool_le_eight s o : Inv s -> (length (s_pool (sys_step issue clen s o)) <= 8)%nat.
Proof. intros H. apply step_inv with (o := o) in H. destruct H as [_ [_ [_ [_ H]]]]. exact H. Qed.

Hypothesis clen_ok : clen <= MaxCookieLen.   (* cookies the client keeps (StoreCookie) *)

Lemma exchange_len p nx sent ok nosend waste dflt :
  (1 <= length p <= 8)%nat ->
  let s' := sys_exchange issue clen p nx sent ok nosend waste dflt in
  if nosend then length (s_pool s') = (length p - 1)%nat else
  if ok then (length p <= length (s_pool s') <= 8)%nat /\ (length p = 8%nat -> length (s_pool s') = 8%nat)
  else length (s_pool s') = (length p - 1)%nat.
Proof.
  intros Hl. destruct p as [|c rest]; [simpl in Hl; lia|].
  unfold sys_exchange, zlen.
  destruct nosend; [cbn [s_pool length]; lia|].
  pose proof (refill_bounds (length (c :: rest)) Hl) as Hb. cbv zeta in Hb.
  destruct Hb as [Hb1 Hb]. specialize (Hb1 clen_ok).
  destruct ok; cbn [s_pool].
  - rewrite app_length, issue_n_length. cbn [length] in *. split; [lia|]. intros E.
    assert (Hz : Z.max 0 (num_placeholders (Z.of_nat (S (length rest))) 32 clen) = 0).
    { pose proof (num_placeholders_le (Z.of_nat (S (length rest))) 32 clen) as [Hn _]. unfold numStoredCookies in Hn. lia. }
    rewrite Hz in *. destruct (clen <=? MaxCookieLen); lia.
  - cbn [length] in *. lia.
Qed.

Theorem success_never_shrinks s o :
  Inv s -> e_ok o = true -> e_nosend o = false ->
  (length (s_pool s) <= length (s_pool (sys_step issue clen s o)) <= 8)%nat.
Proof.
  intros HI Hok Hns. split; [|apply pool_le_eight, HI].
  destruct HI as [_ [_ [_ [_ Hl]]]]. unfold sys_step.
  destruct (s_pool s) as [|c rest] eqn:Ep; [simpl; lia|].
  pose proof (exchange_len (c :: rest) (s_next s + e_skip o) (s_sent s) true false (e_waste o) s ltac:(simpl in *; lia)) as H.
  cbv zeta iota in H. rewrite Hok, Hns. destruct H as [[H1 _] _]. exact H1.
Qed.

Theorem stays_eight s o :
  Inv s -> e_ok o = true -> e_nosend o = false -> length (s_pool s) = 8%nat ->
  length (s_pool (sys_step issue clen s o)) = 8%nat.
Proof.
  intros HI Hok Hns H8. unfold sys_step.
  destruct (s_pool s) as [|c rest] eqn:Ep; [simpl in H8; lia|].
  pose proof (exchange_len (c :: rest) (s_next s + e_skip o) (s_sent s) true false (e_waste o) s ltac:(simpl in *; lia)) as H.
  cbv zeta iota in H. rewrite Hok, Hns. apply H. exact H8.
Qed.

(* a fresh or drained client that re-keys starts from eight cookies *)
Theorem rekey_success s o :
  s_pool s = [] -> e_ke_ok o = true -> e_ok o = true -> e_nosend o = false ->
  length (s_pool (sys_step issue clen s o)) = 8%nat.
Proof.
  intros Ep Hk Hok Hns. unfold sys_step. rewrite Ep, Hk, Hok, Hns.
  pose proof (exchange_len (issue_n issue (s_next s + e_skip o) keCookies) (s_next s + e_skip o + keCookies)
                (s_sent s) true false (e_waste o) s) as H.
  rewrite issue_n_length in H. cbv zeta iota in H. apply H; unfold keCookies; lia.
Qed.

Theorem rekey_loss s o :
  s_pool s = [] -> e_ke_ok o = true -> e_ok o = false \/ e_nosend o = true ->
  length (s_pool (sys_step issue clen s o)) = 7%nat.
Proof.
  intros Ep Hk Hok. unfold sys_step. rewrite Ep, Hk.
  pose proof (exchange_len (issue_n issue (s_next s + e_skip o) keCookies) (s_next s + e_skip o + keCookies)
                (s_sent s) (e_ok o) (e_nosend o) (e_waste o) s) as H.
  rewrite issue_n_length in H. cbv zeta in H. specialize (H ltac:(unfold keCookies; lia)).
  destruct (e_nosend o); [rewrite H; reflexivity|].
  destruct Hok as [Hok|Hok]; [rewrite Hok in *; rewrite H; reflexivity|discriminate].
Qed.

(* a lost exchange, or a call that ends before its request leaves, costs exactly one cookie *)
Theorem loss_pops_one s o :
  Inv s -> s_pool s <> [] -> e_ok o = false \/ e_nosend o = true ->
  length (s_pool (sys_step issue clen s o)) = (length (s_pool s) - 1)%nat.
Proof.
  intros HI Hne Hok. destruct HI as [_ [_ [_ [_ Hl]]]]. unfold sys_step.
  destruct (s_pool s) as [|c rest] eqn:Ep; [congruence|].
  pose proof (exchange_len (c :: rest) (s_next s + e_skip o) (s_sent s) (e_ok o) (e_nosend o) (e_waste o) s ltac:(simpl in *; lia)) as H.
  cbv zeta in H.
  destruct (e_nosend o); [exact H|].
  destruct Hok as [Hok|Hok]; [rewrite Hok in *; exact H|discriminate].
Qed.

(* ... and such a call sends nothing *)
Theorem nosend_sends_nothing s o :
  e_nosend o = true -> s_sent (sys_step issue clen s o) = s_sent s.
Proof.
  intros Hns. unfold sys_step. destruct (s_pool s) as [|c rest].
  - destruct (e_ke_ok o); [|reflexivity]. unfold sys_exchange, issue_n, keCookies. cbn [seq map]. rewrite Hns. reflexivity.
  - unfold sys_exchange. rewrite Hns. reflexivity.
Qed.

Theorem kefail_nothing s o :
  s_pool s = [] -> e_ke_ok o = false ->
  s_pool (sys_step issue clen s o) = [] /\ s_sent (sys_step issue clen s o) = s_sent s.
Proof. intros Ep Hk. unfold sys_step. rewrite Ep, Hk. simpl. tauto. Qed.

(* loss-free operation: the pool is eight after every call *)
Definition loss_free (os : list exch) : Prop :=
  Forall (fun o => e_ke_ok o = true /\ e_ok o = true /\ e_nosend o = false) os.

Theorem loss_free_eight os :
  loss_free os -> os <> [] -> length (s_pool (sys_run issue clen sys0 os)) = 8%nat.
Proof.
  intros Hf Hne.
  assert (G : forall l s, Inv s -> loss_free l -> (s_pool s = [] \/ length (s_pool s) = 8%nat) ->
              l <> [] -> length (s_pool (sys_run issue clen s l)) = 8%nat).
  { clear Hf Hne os. induction l as [|o os IH]; intros s HI Hf Hs Hne; [congruence|].
    inversion Hf as [|? ? [Hk [Hok Hns]] Hf']; subst. simpl.
    assert (H8 : length (s_pool (sys_step issue clen s o)) = 8%nat).
    { destruct Hs as [Hs|Hs]; [apply rekey_success|apply stays_eight]; assumption. }
    destruct os as [|o' os']; [exact H8|].
    apply IH; [apply step_inv, HI|exact Hf'|right; exact H8|discriminate]. }
  apply G; [apply inv0|exact Hf|left; reflexivity|exact Hne].
Qed.

End Hist.

(* with this project's cookies: two successes restore a pool of eight from any level *)
Section Recover.
Context {C : Type}.
Variable issue : nat -> C.
Hypothesis issue_inj : forall i j, issue i = issue j -> i = j.

Lemma success_level s o :
  Inv issue s -> s_pool s <> [] -> e_ok o = true -> e_nosend o = false ->
  Z.of_nat (length (s_pool (sys_step issue 124 s o))) = Z.min 8 (Z.of_nat (length (s_pool s)) + 6).
Proof.
  intros HI Hne Hok Hns. destruct HI as [_ [_ [_ [_ Hl]]]]. unfold sys_step.
  destruct (s_pool s) as [|c rest] eqn:Ep; [congruence|].
  unfold sys_exchange. rewrite Hok, Hns. cbn [s_pool]. rewrite app_length, issue_n_length. unfold zlen.
  assert (Hlv : 1 <= Z.of_nat (length (c :: rest)) <= 8) by (cbn [length] in *; lia).
  rewrite (num_placeholders_issued _ Hlv). change (124 <=? MaxCookieLen) with true. cbv iota.
  unfold reply_count. change (max_cookies 32 124) with 7.
  cbn [length] in *. destruct (_ && _) eqn:E; [apply andb_prop in E; destruct E|apply andb_false_iff in E; destruct E]; lia.
Qed.

Theorem recovers_in_two s o1 o2 :
  Inv issue s -> e_ke_ok o1 = true -> e_ok o1 = true -> e_nosend o1 = false ->
  e_ok o2 = true -> e_nosend o2 = false ->
  length (s_pool (sys_step issue 124 (sys_step issue 124 s o1) o2)) = 8%nat.
Proof.
  intros HI Hk H1 N1 H2 N2.
  assert (H7 : (7 <= length (s_pool (sys_step issue 124 s o1)))%nat).
  { destruct (s_pool s) as [|c rest] eqn:Ep.
    - rewrite (rekey_success issue issue_inj 124 ltac:(unfold MaxCookieLen; lia) s o1 Ep Hk H1 N1). lia.
    - pose proof (success_level s o1 HI ltac:(congruence) H1 N1) as H. rewrite Ep in H. simpl length in H. lia. }
  pose proof (step_inv issue issue_inj 124 s o1 HI) as HI1.
  pose proof (success_level _ o2 HI1 ltac:(intros E; rewrite E in H7; simpl in H7; lia) H2 N2) as H.
  destruct HI1 as [_ [_ [_ [_ Hl]]]]. lia.
Qed.

End Recover.

(* ================= the encoders, byte by byte ================= *)

Lemma zlen_app {A} (a b : list A) : zlen (a ++ b) = zlen a + zlen b.
Proof. unfold zlen. rewrite app_length. lia. Qed.
Lemma zlen_repeat {A} (x : A) n : zlen (repeat x n) = Z.of_nat n.
Proof. unfold zlen. rewrite repeat_length. reflexivity. Qed.
Lemma zlen_nonneg {A} (l : list A) : 0 <= zlen l.
Proof. unfold zlen. lia. Qed.
Lemma zlen_be16 x : zlen (be16 x) = 2.
Proof. reflexivity. Qed.

Lemma pack_hdr_ok out a b : zlen out + 4 <= MaxPacketLen -> pack_hdr out a b = Ok (out ++ be16 a ++ be16 b).
Proof. intros H. unfold pack_hdr. destruct (_ <=? _) eqn:E; [reflexivity|lia]. Qed.

Lemma copy_to_fits out src : zlen out + zlen src <= MaxPacketLen -> copy_to out src = out ++ src.
Proof. intros H. unfold copy_to. rewrite firstn_all2; [reflexivity|]. unfold zlen in *. lia. Qed.

(* one extension field on the wire *)
Definition enc_field (t : Z) (body : bytes) : bytes :=
  be16 t ++ be16 (4 + pad4 (zlen body)) ++ body ++ repeat 0 (Z.to_nat (pad4 (zlen body) - zlen body)).

Lemma enc_field_len t body : zlen (enc_field t body) = field_len (zlen body).
Proof.
  unfold enc_field, field_len. rewrite !zlen_app, !zlen_be16, zlen_repeat.
  pose proof (pad4_spec (zlen body) (zlen_nonneg body)). lia.
Qed.

Lemma pack_field_ok out t body :
  zlen out + field_len (zlen body) <= MaxPacketLen ->
  pack_field out t body = Ok (out ++ enc_field t body).
Proof.
  intros H. unfold pack_field, field_len in *.
  pose proof (pad4_spec (zlen body) (zlen_nonneg body)) as [Hp _].
  pose proof (zlen_nonneg out). pose proof (zlen_nonneg body). unfold MaxPacketLen in *.
  rewrite pack_hdr_ok by (unfold MaxPacketLen; lia). cbn [obind].
  assert (E : u16 (4 + u16 (pad4 (zlen body))) = 4 + pad4 (zlen body)).
  { unfold u16. rewrite (Z.mod_small (pad4 _)) by lia. apply Z.mod_small. lia. }
  rewrite E.
  rewrite (copy_to_fits _ body) by (rewrite !zlen_app, !zlen_be16; unfold MaxPacketLen; lia).
  rewrite copy_to_fits by (rewrite !zlen_app, !zlen_be16, zlen_repeat; unfold MaxPacketLen; lia).
  unfold enc_field. rewrite <- !app_assoc. reflexivity.
Qed.

Lemma pack_fields_ok t bodies : forall out,
  zlen out + fold_right (fun b acc => field_len (zlen b) + acc) 0 bodies <= MaxPacketLen ->
  pack_fields out t bodies = Ok (out ++ concat (map (enc_field t) bodies)).
Proof.
  induction bodies as [|b r IH]; intros out H; simpl in *.
  - rewrite app_nil_r. reflexivity.
  - assert (0 <= fold_right (fun b acc => field_len (zlen b) + acc) 0 r).
    { clear. induction r; simpl; [lia|]. pose proof (field_len_pos (zlen a) (zlen_nonneg a)). lia. }
    rewrite pack_field_ok by lia. cbn [obind].
    rewrite IH by (rewrite zlen_app, enc_field_len; lia).
    rewrite <- app_assoc. reflexivity.
Qed.

Lemma map_repeat' {A B} (f : A -> B) x n : map f (repeat x n) = repeat (f x) n.
Proof. induction n; simpl; [reflexivity|rewrite IHn; reflexivity]. Qed.

Lemma fold_repeat_len (b : bytes) n :
  fold_right (fun b acc => field_len (zlen b) + acc) 0 (repeat b n) = Z.of_nat n * field_len (zlen b).
Proof. induction n; simpl repeat; simpl fold_right; [lia|]. rewrite IHn. lia. Qed.

Section Enc.
Variable seal : bytes -> bytes -> bytes -> bytes -> bytes.
Hypothesis seal_len : forall k n p a, zlen (seal k n p a) = zlen p + 16.

Definition enc_auth (nonce ct : bytes) : bytes :=
  be16 extAuthenticator ++ be16 (4 + 2 + 2 + 16 + zlen ct) ++ be16 16 ++ be16 (zlen ct) ++ nonce ++ ct.

Lemma pack_auth_ok out key plain nonce :
  key_ok key = true -> zlen nonce = 16 -> zlen plain mod 4 = 0 ->
  zlen out + auth_len (zlen plain) <= MaxPacketLen ->
  pack_auth seal out key plain nonce = Ok (out ++ enc_auth nonce (seal key nonce plain out)).
Proof.
  intros Hk Hn Hp4 Hfit. unfold pack_auth, auth_len in *. rewrite Hk. simpl negb. cbv iota.
  pose proof (zlen_nonneg out). pose proof (zlen_nonneg plain). unfold MaxPacketLen in *.
  set (ct := seal key nonce plain out). assert (Hct : zlen ct = zlen plain + 16) by apply seal_len.
  rewrite Hn. change (u16 16) with 16. assert (E0 : u16 (- (16)) mod 4 = 0) by reflexivity. rewrite E0.
  assert (E1 : u16 (zlen ct) = zlen ct) by (unfold u16; apply Z.mod_small; lia).
  rewrite E1.
  assert (E2 : u16 (- zlen ct) mod 4 = 0) by (unfold u16; lia).
  rewrite E2.
  assert (E3 : u16 (4 + 2 + 2 + 16 + 0 + zlen ct + 0) = 4 + 2 + 2 + 16 + zlen ct) by (unfold u16; rewrite Z.mod_small; lia).
  rewrite E3.
  rewrite pack_hdr_ok by (unfold MaxPacketLen; lia). cbn [obind].
  rewrite pack_hdr_ok by (rewrite !zlen_app, !zlen_be16; unfold MaxPacketLen; lia). cbn [obind].
  simpl Z.to_nat. simpl repeat.
  repeat match goal with |- context [copy_to (?a ++ ?b) ?src] =>
    rewrite (copy_to_fits (a ++ b) src)
      by (rewrite !zlen_app, !zlen_be16; change (zlen (@nil Z)) with 0; unfold MaxPacketLen; lia) end.
  unfold enc_auth. rewrite !app_nil_r, <- !app_assoc. reflexivity.
Qed.

Lemma enc_auth_len nonce ct : zlen nonce = 16 -> zlen (enc_auth nonce ct) = 24 + zlen ct.
Proof. intros H. unfold enc_auth. rewrite !zlen_app, !zlen_be16. lia. Qed.

(* the request of a client whose pool is c :: rest *)
Definition request_wire (hdr id c nonce key : bytes) (p : nat) : bytes :=
  let pre := hdr ++ enc_field extUniqueIdentifier id ++ enc_field extCookie c ++
             concat (repeat (enc_field extCookiePlaceholder (repeat 0 (length c))) p) in
  pre ++ enc_auth nonce (seal key nonce [] pre).

Theorem request_encoding hdr id c rest kc2s nonce :
  zlen hdr = 48 -> zlen id = 32 -> key_ok kc2s = true -> zlen nonce = 16 ->
  1 <= max_cookies 32 (zlen c) ->
  let level := zlen (c :: rest) in
  let p := Z.to_nat (Z.max 0 (num_placeholders level 32 (zlen c))) in
  exists pkt, new_request (c :: rest) kc2s id = Ok pkt /\
    p_cookies pkt = [c] /\ length (p_placeholders pkt) = p /\
    encode_packet seal hdr pkt nonce = Ok (request_wire hdr id c nonce kc2s p) /\
    zlen (request_wire hdr id c nonce kc2s p) = request_len level 32 (zlen c) /\
    request_len level 32 (zlen c) <= MaxPacketLen.
Proof.
  intros Hh Hi Hk Hn Hm level p.
  assert (Hlev : 1 <= level) by (unfold level, zlen; simpl length; lia).
  pose proof (request_fits 32 (zlen c) level (zlen_nonneg c) Hm Hlev) as Hfit.
  assert (Ep : Z.to_nat (num_placeholders level 32 (zlen c)) = p) by (unfold p; lia).
  exists {| p_uid := id; p_cookies := [c]; p_placeholders := repeat (repeat 0 (length c)) p;
            p_key := kc2s; p_plain := [] |}.
  split; [unfold new_request; rewrite Hi; rewrite <- Ep; reflexivity|].
  cbn [p_cookies p_placeholders p_uid p_key p_plain].
  split; [reflexivity|]. split; [apply repeat_length|].
  assert (Hlenwire : zlen (request_wire hdr id c nonce kc2s p) = request_len level 32 (zlen c)).
  { unfold request_wire. cbv zeta. rewrite !zlen_app, enc_auth_len, seal_len by exact Hn.
    rewrite !enc_field_len.
    assert (Hc : zlen (concat (repeat (enc_field extCookiePlaceholder (repeat 0 (length c))) p))
                 = Z.of_nat p * field_len (zlen c)).
    { clear. induction p; cbn [repeat concat]; [reflexivity|].
      rewrite zlen_app, IHp, enc_field_len, zlen_repeat. fold (zlen c). lia. }
    rewrite Hc, Hh, Hi. unfold request_len, auth_len, ntpPacketLen. change (zlen []) with 0.
    unfold p. lia. }
  split; [|split; [exact Hlenwire|exact Hfit]].
  unfold request_len, auth_len, ntpPacketLen in Hfit.
  pose proof (field_len_pos (zlen c) (zlen_nonneg c)) as Hfc.
  assert (Hfi : field_len 32 = 36) by reflexivity.
  assert (Hpz : Z.of_nat p = Z.max 0 (num_placeholders level 32 (zlen c))) by (unfold p; lia).
  rewrite <- Hpz, Z.mul_add_distr_r, Z.mul_1_l in Hfit.
  unfold encode_packet. cbn [p_cookies p_placeholders p_uid p_key p_plain]. rewrite Hh. change (negb (48 =? ntpPacketLen)) with false. cbv iota.
  unfold pack_uid. rewrite Hi. change (32 <? 32) with false. cbv iota.
  rewrite pack_field_ok by (rewrite Hh, Hi, Hfi; unfold MaxPacketLen; lia). cbn [obind].
  rewrite pack_fields_ok by (cbn [fold_right]; rewrite zlen_app, enc_field_len, Hh, Hi, Hfi; unfold MaxPacketLen in *; lia).
  cbn [obind].
  rewrite pack_fields_ok.
  2:{ rewrite fold_repeat_len, zlen_repeat. fold (zlen c).
      cbn [map concat]. rewrite !zlen_app, !enc_field_len, Hh, Hi, Hfi. change (zlen []) with 0.
      unfold MaxPacketLen in *. lia. }
  cbn [obind].
  rewrite pack_auth_ok; try assumption; [|reflexivity|].
  - unfold request_wire. cbv zeta. cbn [map concat]. rewrite app_nil_r, map_repeat', <- !app_assoc. reflexivity.
  - cbn [map concat]. rewrite app_nil_r, map_repeat', !zlen_app, !enc_field_len, Hh, Hi, Hfi.
    assert (Hc : zlen (concat (repeat (enc_field extCookiePlaceholder (repeat 0 (length c))) p))
                 = Z.of_nat p * field_len (zlen c)).
    { clear. induction p; cbn [repeat concat]; [reflexivity|].
      rewrite zlen_app, IHp, enc_field_len, zlen_repeat. fold (zlen c). lia. }
    rewrite Hc. unfold auth_len. change (zlen []) with 0. unfold MaxPacketLen in *. lia.
Qed.
End Enc.


(* ---- replies ---- *)
Lemma enc_field_aligned t body : zlen body mod 4 = 0 ->
  enc_field t body = be16 t ++ be16 (4 + zlen body) ++ body.
Proof.
  intros H. unfold enc_field. rewrite (pad4_mult4 _ H), Z.sub_diag. simpl repeat. rewrite app_nil_r. reflexivity.
Qed.

Lemma pack_cookies_n_ok L : L mod 4 = 0 -> 0 <= L <= 1024 ->
  forall cs out lim, Forall (fun c => zlen c = L) cs ->
  zlen out + zlen cs * (4 + L) <= lim ->
  pack_cookies_n lim out cs = Ok (out ++ concat (map (enc_field extCookie) cs)).
Proof.
  intros H4 HL. induction cs as [|c r IH]; intros out lim Hall Hfit; cbn [pack_cookies_n map concat].
  - rewrite app_nil_r. reflexivity.
  - apply Forall_cons_iff in Hall as [Hc Hr].
    assert (Hz : zlen (c :: r) = 1 + zlen r) by (unfold zlen; cbn [length]; lia). rewrite Hz in Hfit.
    pose proof (zlen_nonneg r). pose proof (zlen_nonneg out).
    assert (Hnn : 0 <= zlen r * (4 + L)) by (apply Z.mul_nonneg_nonneg; lia).
    rewrite Z.mul_add_distr_r, Z.mul_1_l in Hfit.
    rewrite Hc, (pad4_mult4 _ H4).
    unfold pack_hdr_n. destruct (_ <=? _) eqn:E; [|lia]. cbn [obind].
    assert (Eu : u16 (4 + u16 L) = 4 + L).
    { unfold u16. rewrite (Z.mod_small L) by lia. apply Z.mod_small. lia. }
    rewrite Eu, Z.sub_diag. simpl repeat.
    unfold copy_to_n at 2. rewrite firstn_all2.
    2:{ rewrite !zlen_app, !zlen_be16. unfold zlen in *. lia. }
    unfold copy_to_n. cbn [firstn]. rewrite firstn_nil, app_nil_r.
    rewrite IH; [|exact Hr|rewrite !zlen_app, !zlen_be16; lia].
    rewrite (enc_field_aligned extCookie c) by (rewrite Hc; exact H4). rewrite Hc, <- !app_assoc. reflexivity.
Qed.

Lemma cap_cookies_spec idLen c0 r :
  let cs := c0 :: r in
  let k := reply_count (zlen cs) idLen (zlen c0) in
  cap_cookies idLen cs = firstn (Z.to_nat k) cs /\ zlen (cap_cookies idLen cs) = k.
Proof.
  intros cs k. unfold k, cap_cookies, reply_count, cs.
  destruct (_ && _) eqn:E.
  - apply andb_prop in E as [E1 E2]. split; [reflexivity|].
    unfold zlen in *. rewrite firstn_length. lia.
  - split; [|reflexivity]. rewrite firstn_all2; [reflexivity|]. unfold zlen. lia.
Qed.

Lemma Forall_firstn {A} (P : A -> Prop) n l : Forall P l -> Forall P (firstn n l).
Proof. revert n. induction l; intros [|n] H; simpl; try constructor; inversion H; subst; auto. Qed.

Section Reply.
Variable seal : bytes -> bytes -> bytes -> bytes -> bytes.
Hypothesis seal_len : forall k n p a, zlen (seal k n p a) = zlen p + 16.

Definition reply_wire (hdr uid nonce key : bytes) (cookies : list bytes) : bytes :=
  let pre := hdr ++ enc_field extUniqueIdentifier uid in
  pre ++ enc_auth nonce (seal key nonce (concat (map (enc_field extCookie) cookies)) pre).

(* the reply to a request that asked for [zlen cs] cookies, the server having made the cookies cs *)
Theorem reply_encoding hdr uid c0 r ks2c nonce L :
  let cs := c0 :: r in
  zlen hdr = 48 -> 32 <= zlen uid -> key_ok ks2c = true -> zlen nonce = 16 ->
  Forall (fun c => zlen c = L) cs -> L mod 4 = 0 -> 0 <= L ->
  1 <= max_cookies (zlen uid) L ->
  let k := reply_count (zlen cs) (zlen uid) L in
  let sent := firstn (Z.to_nat k) cs in
  exists pkt, new_response cs ks2c uid = Ok pkt /\
    encode_packet seal hdr pkt nonce = Ok (reply_wire hdr uid nonce ks2c sent) /\
    zlen sent = k /\
    zlen (reply_wire hdr uid nonce ks2c sent) = reply_len k (zlen uid) L /\
    reply_len k (zlen uid) L <= MaxPacketLen.
Proof.
  intros cs Hh Hu Hk Hn Hall H4 HL0 Hm k sent.
  assert (Hc0 : zlen c0 = L) by (inversion Hall; assumption).
  pose proof (cap_cookies_spec (zlen uid) c0 r) as [Hcap Hcaplen]. cbv zeta in Hcap, Hcaplen.
  rewrite Hc0 in Hcap, Hcaplen. fold cs in Hcap, Hcaplen. fold k in Hcap, Hcaplen. fold sent in Hcap.
  assert (Hcs1 : 1 <= zlen cs) by (unfold cs, zlen; cbn [length]; lia).
  pose proof (reply_count_bounds (zlen cs) (zlen uid) L Hcs1) as Hkb. fold k in Hkb.
  pose proof (reply_fits (zlen uid) L (zlen cs) HL0 Hm Hcs1) as Hfit. fold k in Hfit.
  pose proof (max_cookies_fit (zlen uid) L HL0 Hm) as Hmf.
  pose proof (reply_count_fit (zlen cs) (zlen uid) L HL0 Hcs1 Hm) as Hkm. fold k in Hkm.
  assert (HL : 0 <= L <= 1024).
  { unfold field_len, MaxPacketLen, ntpPacketLen in Hmf. pose proof (pad4_spec (zlen uid) ltac:(lia)).
    rewrite (pad4_mult4 _ H4) in Hmf. nia. }
  assert (Hsent : zlen sent = k) by (rewrite <- Hcap; exact Hcaplen).
  assert (Hallsent : Forall (fun c => zlen c = L) sent) by (apply Forall_firstn; exact Hall).
  assert (Hplain : zlen (concat (map (enc_field extCookie) sent)) = k * field_len L).
  { rewrite <- Hsent. clear - Hallsent H4. induction Hallsent as [|c l Hc Hl IH]; cbn [map concat]; [reflexivity|].
    rewrite zlen_app, IH, enc_field_len, Hc. unfold zlen. cbn [length]. lia. }
  assert (Hfl : field_len L = 4 + L) by (unfold field_len; rewrite (pad4_mult4 _ H4); reflexivity).
  exists {| p_uid := uid; p_cookies := []; p_placeholders := []; p_key := ks2c;
            p_plain := concat (map (enc_field extCookie) sent) |}.
  split.
  { assert (Hsent' : @zlen bytes sent = k) by exact Hsent.
    unfold new_response, cs. fold cs. rewrite Hcap, Hc0, Hsent'.
    rewrite (pack_cookies_n_ok L H4 HL sent [] (k * (4 + L)) Hallsent) by (rewrite Hsent; change (zlen []) with 0; lia).
    cbn [obind app]. rewrite Hplain, Hfl, Z.sub_diag. simpl repeat. rewrite app_nil_r. reflexivity. }
  assert (Hwl : zlen (reply_wire hdr uid nonce ks2c sent) = reply_len k (zlen uid) L).
  { unfold reply_wire. cbv zeta. rewrite !zlen_app, (enc_auth_len seal seal_len), seal_len, enc_field_len, Hplain, Hh by exact Hn.
    unfold reply_len, auth_len, ntpPacketLen. lia. }
  split; [|split; [exact Hsent|split; [exact Hwl|exact Hfit]]].
  unfold reply_len, auth_len, ntpPacketLen, MaxPacketLen in Hfit.
  pose proof (field_len_pos (zlen uid) ltac:(lia)).
  unfold encode_packet. cbn [p_cookies p_placeholders p_uid p_key p_plain]. rewrite Hh.
  change (negb (48 =? ntpPacketLen)) with false. cbv iota.
  unfold pack_uid. destruct (zlen uid <? 32) eqn:E; [lia|].
  rewrite pack_field_ok by (rewrite Hh; unfold MaxPacketLen; nia). cbn [obind pack_fields].
  rewrite (pack_auth_ok seal seal_len); try assumption.
  - unfold reply_wire. cbv zeta. rewrite <- !app_assoc. reflexivity.
  - rewrite Hplain, Hfl. assert (HLq : L = 4 * (L / 4)) by lia. rewrite HLq.
    replace (k * (4 + 4 * (L / 4))) with ((k * (1 + L / 4)) * 4) by ring. apply Z_mod_mult.
  - rewrite zlen_app, enc_field_len, Hh, Hplain. unfold auth_len, MaxPacketLen. lia.
Qed.

(* the requester can authenticate it: under the correctness of AES-SIV the
   ciphertext opens, with the bytes before the authenticator as associated data,
   to the cookie fields *)
Variable open : bytes -> bytes -> bytes -> bytes -> option bytes.
Hypothesis open_seal : forall k n p a, open k n (seal k n p a) a = Some p.

Theorem reply_opens hdr uid nonce ks2c sent :
  let pre := hdr ++ enc_field extUniqueIdentifier uid in
  exists ct, reply_wire hdr uid nonce ks2c sent = pre ++ enc_auth nonce ct /\
             open ks2c nonce ct pre = Some (concat (map (enc_field extCookie) sent)).
Proof. intros pre. eexists. split; [reflexivity|apply open_seal]. Qed.
End Reply.
