(* The model of handleRequest / updateTXTimestamp always satisfies the C06
   property oracle that is evaluated on the implementation's observations. *)
From ST Require Import Base.Ints Base.Value Model.NtpTime Model.Tss Model.TssOracle
  Proofs.NtpTimeProofs Proofs.TssProofs Proofs.TssInv.
From Coq Require Import ZArith List Bool Lia.
Import ListNotations.
Open Scope Z_scope.

Definition pairs_of (l : list entry) : list (Z * Z) := map (fun e => (e_rx e, e_tx e)) l.
Definition pre_of (s : tss) (cid : Z) : list (Z * Z) :=
  match find_item cid (items s) with Some it => pairs_of (it_ents it) | None => [] end.

Lemma has_first_pairs x l : has_first x (pairs_of l) = has_rx x l.
Proof.
  unfold has_first, has_rx, pairs_of. induction l as [|e r IH]; cbn [map existsb fst]; [reflexivity|]. rewrite IH. reflexivity.
Qed.

Lemma has_first_false_iff x l : has_first x (pairs_of l) = false <-> forall e, In e l -> e_rx e <> x.
Proof. rewrite has_first_pairs. apply has_rx_false. Qed.

Lemma has_first_true_intro x l e : In e l -> e_rx e = x -> has_first x (pairs_of l) = true.
Proof. intros He Hx. rewrite has_first_pairs. apply has_rx_true. exists e. auto. Qed.

Lemma reply_ok_oracle ents q rxt now rxt' txt' r :
  reply_ok ents q (to64 rxt') (to64 txt') r -> rxt <= rxt' -> to64 rxt' < to64 txt' ->
  has_rx (to64 rxt') ents = false -> (forall e, In e ents -> e_rx e < e_tx e) ->
  C06_handle_ok (pairs_of ents) q rxt now (r_org r) (r_rx r) (r_tx r) rxt' txt' = true.
Proof.
  intros [R1 [R2 Rshape]] Hle Hmono Hfresh Hrt. unfold C06_handle_ok. cbv zeta.
  assert (Hinter : negb (q_rx q =? q_tx q) && (r_org r =? q_rx q) = r_inter r /\
                   negb (q_rx q =? q_tx q) && has_first (q_org q) (pairs_of ents) = r_inter r).
  { destruct Rshape as [[Ri [Ro [Hne [e [He [Herx Hetx]]]]]]|[Ri [Ro [Rt Hwhy]]]].
    - rewrite Ri, Ro, Z.eqb_refl. replace (q_rx q =? q_tx q) with false by (symmetry; apply Z.eqb_neq; exact Hne).
      rewrite (has_first_true_intro (q_org q) ents e He Herx). split; reflexivity.
    - rewrite Ri, Ro. split.
      + destruct (q_rx q =? q_tx q) eqn:E; [reflexivity|]. cbn [negb andb]. apply Z.eqb_neq in E. apply Z.eqb_neq. congruence.
      + destruct Hwhy as [Heq|Hno]; [rewrite Heq, Z.eqb_refl; reflexivity|].
        apply has_first_false_iff in Hno. rewrite Hno. apply andb_false_r. }
  destruct Hinter as [Hi1 Hi2]. rewrite Hi1, Hi2.
  rewrite !andb_true_iff. repeat split.
  - apply Z.eqb_eq. exact R1.
  - apply Z.leb_le. exact Hle.
  - rewrite R1, has_first_pairs, Hfresh. reflexivity.
  - destruct (r_inter r); reflexivity.
  - destruct Rshape as [[Ri [Ro [Hne [e [He [Herx Hetx]]]]]]|[Ri [Ro [Rt Hwhy]]]]; rewrite Ri.
    + unfold pairs_of. rewrite existsb_exists. exists (e_rx e, e_tx e). split; [apply in_map_iff; exists e; auto|].
      cbn [fst snd]. rewrite !andb_true_iff. repeat split; [apply Z.eqb_eq; exact Herx|apply Z.eqb_eq; symmetry; exact Hetx|apply Z.ltb_lt; apply Hrt; exact He].
    + rewrite Ro, Rt, R1, !Z.eqb_refl. cbn [andb]. destruct (rxt <? now); [apply Z.ltb_lt; exact Hmono|reflexivity].
Qed.

Section Era.
Variable k : Z.
Variable c : config.
Hypothesis Hicap : 0 < icap c.

Theorem model_handle_oracle s cid q rxt now victim out :
  Inv c s -> in_era k rxt -> in_era k (rxt + icap c + 1) -> in_era k now ->
  handle c s cid q rxt now victim = Some out ->
  C06_handle_ok (pre_of s cid) q rxt now (r_org (o_reply out)) (r_rx (o_reply out)) (r_tx (o_reply out))
    (o_rxt out) (o_txt out) = true.
Proof.
  intros [Hnd [Hcap [Hall Hhq]]] E1 E2 E3 Hh. unfold pre_of.
  assert (E1' : in_era k (rxt + 1)) by (apply (in_era_convex k rxt (rxt + icap c + 1)); auto; lia).
  destruct (find_item cid (items s)) as [it|] eqn:Hfind.
  - destruct (find_item_In _ _ _ Hfind) as [Hin Hkey].
    assert (Hok : item_ok c it) by (rewrite Forall_forall in Hall; apply Hall; exact Hin).
    destruct (handle_existing_spec k c Hicap s cid q rxt now victim it Hfind Hok E1 E2 E3)
      as [out' [it' [hq' [Hh' [_ [_ [_ [Hle [Hlt [Er [Et [Hfresh [_ [_ [_ [_ [Hrep _]]]]]]]]]]]]]]]]].
    assert (out' = out) by congruence. subst out'.
    destruct Hok as [_ [_ [_ [_ Hrt]]]].
    apply reply_ok_oracle; auto. apply (to64_strict_mono k); assumption.
  - destruct (handle_new_spec k c s cid q rxt now victim out Hfind E1 E1' E3 Hh) as [Hr [Hlt [Et [_ [Hrep _]]]]].
    rewrite Hr. change (@nil (Z * Z)) with (pairs_of []).
    apply reply_ok_oracle; [exact Hrep|lia|apply (to64_strict_mono k); assumption|reflexivity|intros e []].
Qed.

Lemma find_pairs_spec rx64 l :
  match find (fun e : Z * Z => fst e =? rx64) (pairs_of l) with
  | Some p => exists e, In e l /\ e_rx e = rx64 /\ p = (e_rx e, e_tx e)
  | None => forall e, In e l -> e_rx e <> rx64
  end.
Proof.
  unfold pairs_of. induction l as [|e r IH]; cbn [map find fst]; [intros e []|].
  destruct (e_rx e =? rx64) eqn:E.
  - apply Z.eqb_eq in E. exists e. split; [left; reflexivity|]. auto.
  - apply Z.eqb_neq in E. destruct (find (fun e0 : Z * Z => fst e0 =? rx64) (map (fun e0 => (e_rx e0, e_tx e0)) r)).
    + destruct IH as [e0 [H1 H2]]. exists e0. split; [right; exact H1|exact H2].
    + intros e0 [<-|H]; [exact E|apply IH; exact H].
Qed.

Theorem model_update_oracle s cid rxt txt :
  Inv c s -> in_era k rxt -> in_era k (rxt + 1) -> in_era k txt ->
  let out := update_tx s cid rxt txt in
  C06_update_ok (pre_of s cid) (pre_of (t_state out) cid) rxt (t_txt out) = true /\
  pairs_ordered (pre_of (t_state out) cid) = true /\ rxt < t_txt out.
Proof.
  intros HInv E1 E2 E3. cbv zeta.
  destruct (update_tx_spec k c s cid rxt txt HInv E1 E2 E3) as [HInv' [Hlt [_ [_ Hk]]]].
  split; [|split; [|exact Hlt]].
  - unfold tx_kernel_clause in Hk. cbv zeta in Hk. unfold C06_update_ok, pre_of at 1.
    destruct (find_item cid (items s)) as [it|] eqn:Hfind; [|reflexivity].
    destruct Hk as [_ Hsome].
    pose proof (find_pairs_spec (to64 rxt) (it_ents it)) as Hf.
    destruct (find (fun e : Z * Z => fst e =? to64 rxt) (pairs_of (it_ents it))) as [p|]; [|reflexivity].
    destruct Hf as [e [He [Herx ->]]]. cbn [snd].
    destruct (Hsome e He Herx) as [Hupd Hdrop].
    destruct (e_tx e =? to64 (t_txt (update_tx s cid rxt txt))) eqn:Etx.
    + apply Z.eqb_eq in Etx. destruct (Hdrop Etx) as [_ Hgone]. unfold pre_of.
      destruct (find_item cid (items (t_state (update_tx s cid rxt txt)))) as [it'|] eqn:Hf'; [|reflexivity].
      destruct (Hgone it' eq_refl) as [Hno _].
      apply negb_true_iff. apply has_first_false_iff. intros x Hx. apply (Hno x Hx).
    + apply Z.eqb_neq in Etx. destruct (Hupd Etx) as [_ [it' [Hf' [Hin' _]]]]. unfold pre_of. rewrite Hf'.
      unfold has_pair, pairs_of. rewrite existsb_exists. eexists. split; [apply in_map_iff; eexists; split; [reflexivity|exact Hin']|].
      cbn [fst snd e_rx e_tx]. rewrite !Z.eqb_refl. reflexivity.
  - unfold pre_of. destruct (find_item cid (items (t_state (update_tx s cid rxt txt)))) as [it'|] eqn:Hf'; [|reflexivity].
    destruct HInv' as [_ [_ [Hall' _]]]. rewrite Forall_forall in Hall'.
    destruct (Hall' it' (proj1 (find_item_In _ _ _ Hf'))) as [_ [_ [_ [_ Hrt]]]].
    unfold pairs_ordered, pairs_of. rewrite forallb_forall. intros p Hp. apply in_map_iff in Hp. destruct Hp as [e [<- He]].
    cbn [fst snd]. apply Z.ltb_lt. apply Hrt. exact He.
Qed.
End Era.

(* ---- the extended oracle: receive-time increments and the recorded exchange ---- *)
From ST Require Import Proofs.TssFrame.

Definition post_of (s : tss) (cid : Z) : option (list (Z * Z)) :=
  match find_item cid (items s) with Some it => Some (pairs_of (it_ents it)) | None => None end.

Lemma all_collide_intro pre : forall n rxt,
  (forall d, rxt <= d < rxt + Z.of_nat n -> has_first (to64 d) pre = true) -> all_collide pre rxt n = true.
Proof.
  induction n as [|n IH]; intros rxt H; cbn [all_collide]; [reflexivity|].
  rewrite (H rxt) by lia. cbn [andb]. apply IH. intros d Hd. apply H. lia.
Qed.

Lemma has_pair_pairs_of e l : In e l -> has_pair (e_rx e) (e_tx e) (pairs_of l) = true.
Proof.
  intros He. unfold has_pair, pairs_of. apply existsb_exists. exists (e_rx e, e_tx e).
  split; [apply in_map_iff; exists e; auto|]. cbn [fst snd]. rewrite !Z.eqb_refl. reflexivity.
Qed.

Section Era2.
Variable k : Z.
Variable c : config.
Hypothesis Hicap : 0 < icap c.

Lemma model_rxt_oracle s cid q rxt now victim out :
  Inv c s -> in_era k rxt -> in_era k (rxt + icap c + 1) ->
  handle c s cid q rxt now victim = Some out ->
  C06_rxt_ok (pre_of s cid) rxt (o_rxt out) = true.
Proof.
  intros [Hnd [Hcap [Hall Hhq]]] E1 E2 Hh.
  destruct (handle_rxt_spec c s cid q rxt now victim out Hh) as [Hle [Hcol _]].
  unfold C06_rxt_ok, pre_of. unfold ents_of_client in Hcol.
  destruct (find_item cid (items s)) as [it|] eqn:Hfind.
  - destruct (find_item_In _ _ _ Hfind) as [Hin _].
    assert (Hok : item_ok c it) by (rewrite Forall_forall in Hall; apply Hall; exact Hin).
    pose proof (handle_rxt_bound k c s cid q rxt now victim it out Hfind Hok E1 E2 Hh) as Hb.
    rewrite !andb_true_iff. split; [split|].
    + apply Z.leb_le. exact Hle.
    + apply Z.leb_le. unfold pairs_of. rewrite map_length. lia.
    + apply all_collide_intro. intros d Hd. rewrite has_first_pairs. apply Hcol. rewrite Z2Nat.id in Hd by lia. lia.
  - assert (o_rxt out = rxt).
    { destruct (Z.eq_dec (o_rxt out) rxt) as [E|E]; [exact E|]. specialize (Hcol rxt). cbn in Hcol. discriminate Hcol. lia. }
    rewrite H. rewrite Z.leb_refl, Z.sub_diag. reflexivity.
Qed.

Lemma model_post_oracle s cid q rxt now victim out :
  Inv c s -> in_era k rxt -> in_era k (rxt + icap c + 1) -> in_era k now ->
  handle c s cid q rxt now victim = Some out ->
  C06_post_ok (pre_of s cid) (r_rx (o_reply out)) (to64 (o_txt out)) (post_of (o_state out) cid) = true.
Proof.
  intros [Hnd [Hcap [Hall Hhq]]] E1 E2 E3 Hh. unfold pre_of, post_of.
  assert (E1' : in_era k (rxt + 1)) by (apply (in_era_convex k rxt (rxt + icap c + 1)); auto; lia).
  destruct (find_item cid (items s)) as [it|] eqn:Hfind.
  - destruct (find_item_In _ _ _ Hfind) as [Hin Hkey].
    assert (Hok : item_ok c it) by (rewrite Forall_forall in Hall; apply Hall; exact Hin).
    destruct (handle_existing_spec k c Hicap s cid q rxt now victim it Hfind Hok E1 E2 E3)
      as [out' [it' [hq' [Hh' [Hst [_ [_ [_ [_ [_ [_ [_ [_ [Hk' [_ [_ [Hrep [Hnew Hsub]]]]]]]]]]]]]]]]]].
    assert (out' = out) by congruence. subst out'. rewrite Hst. cbn [items].
    assert (Hf : find_item cid (replace_item it' (items s)) = Some it').
    { rewrite <- Hk'. apply find_replace_item. rewrite Hk', <- Hkey. apply in_map. exact Hin. }
    rewrite Hf. destruct Hrep as [R1 _]. rewrite R1. unfold C06_post_ok. apply andb_true_iff. split.
    + exact (has_pair_pairs_of _ _ Hnew).
    + apply forallb_forall. intros p Hp. unfold pairs_of in Hp. apply in_map_iff in Hp. destruct Hp as [e [<- He]]. cbn [fst snd].
      destruct (Hsub e He) as [->|He']; [cbn [e_rx e_tx]; rewrite !Z.eqb_refl; reflexivity|].
      rewrite (has_pair_pairs_of _ _ He'). apply orb_true_r.
  - destruct (handle_new_spec k c s cid q rxt now victim out Hfind E1 E1' E3 Hh) as [Hr [_ [_ [_ [Hrep Hcases]]]]].
    destruct Hrep as [R1 _]. rewrite R1.
    destruct Hcases as [[_ [_ [-> _]]]|[[_ [_ [_ ->]]]|[_ [_ [_ [_ ->]]]]]].
    + rewrite Hfind. reflexivity.
    + cbn [items find_item new_item it_key]. rewrite Z.eqb_refl. unfold C06_post_ok, pairs_of, has_pair.
      unfold new_item. cbn [it_ents map e_rx e_tx existsb forallb fst snd]. rewrite !Z.eqb_refl. reflexivity.
    + cbn [items find_item new_item it_key]. rewrite Z.eqb_refl. unfold C06_post_ok, pairs_of, has_pair.
      unfold new_item. cbn [it_ents map e_rx e_tx existsb forallb fst snd]. rewrite !Z.eqb_refl. reflexivity.
Qed.

Theorem model_handle_full_oracle s cid q rxt now victim out :
  Inv c s -> in_era k rxt -> in_era k (rxt + icap c + 1) -> in_era k now ->
  handle c s cid q rxt now victim = Some out ->
  C06_handle_full_ok (pre_of s cid) q rxt now (r_org (o_reply out)) (r_rx (o_reply out)) (r_tx (o_reply out))
    (o_rxt out) (o_txt out) (post_of (o_state out) cid) = true.
Proof.
  intros HI E1 E2 E3 Hh. unfold C06_handle_full_ok.
  rewrite (model_handle_oracle k c Hicap s cid q rxt now victim out HI E1 E2 E3 Hh).
  rewrite (model_rxt_oracle s cid q rxt now victim out HI E1 E2 Hh).
  rewrite (model_post_oracle s cid q rxt now victim out HI E1 E2 E3 Hh). reflexivity.
Qed.
End Era2.
