(* The listener-level oracle (Model/TssListenerOracle.v) is implied by the model
   for every history: project the reply log of any run of the model to what a
   client sees on the wire; the oracle accepts it. *)
From ST Require Import Base.Ints Model.NtpTime Model.Tss Model.TssListenerOracle
  Proofs.NtpTimeProofs Proofs.TssProofs Proofs.TssInv Proofs.TssRun.
From Coq Require Import ZArith List Bool Lia.
Import ListNotations.
Open Scope Z_scope.

(* what is visible on the wire of one logged event *)
Definition lobs_of (ev : event) : list lobs :=
  match ev with
  | EvReply cid q r => [{| l_cl := cid; l_q := q; l_org := r_org r; l_rx := r_rx r; l_tx := r_tx r |}]
  | EvTx _ _ _ => []
  end.

(* the log is newest first; so is wire_rev *)
Definition wire_rev (log : list event) : list lobs := flat_map lobs_of log.
(* oldest first: the listener-level history of a run *)
Definition wire (log : list event) : list lobs := rev (wire_rev log).

Lemma wire_key_in log cid q0 r0 :
  In (EvReply cid q0 r0) log -> In (cid, r_rx r0) (map lsn_key (wire_rev log)).
Proof.
  intros H. apply in_map_iff.
  exists {| l_cl := cid; l_q := q0; l_org := r_org r0; l_rx := r_rx r0; l_tx := r_tx r0 |}.
  split; [reflexivity|]. unfold wire_rev. apply in_flat_map. exists (EvReply cid q0 r0). split; [exact H|]. left. reflexivity.
Qed.

Section Era.
Variable k : Z.
Variable c : config.
Hypothesis Hicap : 0 < icap c.

(* one reply of the model, given the invariant and the provenance of the stored exchanges *)
Lemma reply_step_ok s log cid q rxt now victim out :
  Inv c s -> Prov log s -> in_era k rxt -> in_era k (rxt + icap c + 1) -> in_era k now ->
  handle c s cid q rxt now victim = Some out ->
  lsn_step_ok (map lsn_key (wire_rev log))
    {| l_cl := cid; l_q := q; l_org := r_org (o_reply out); l_rx := r_rx (o_reply out); l_tx := r_tx (o_reply out) |} = true.
Proof.
  intros HInv HProv E1 E2 E3 Hh.
  destruct (reply_theorem k c Hicap s log cid q rxt now victim out HInv HProv E1 E2 E3 Hh)
    as [_ [_ [Hfresh [_ [_ [Hshape Hiff]]]]]].
  unfold lsn_step_ok, lsn_inter. cbn [l_cl l_q l_org l_rx l_tx].
  destruct Hshape as [[Ri [Ro _]]|[Ri [Ro [Hne [q0 [r0 [Hin [Hrx [Hlt _]]]]]]]]].
  - (* basic *)
    rewrite Ro. destruct (q_rx q =? q_tx q) eqn:E; cbn [negb andb].
    + apply Z.eqb_refl.
    + rewrite Z.eqb_sym, E. cbn [andb]. apply Z.eqb_refl.
  - (* interleaved *)
    rewrite Ro. apply Z.eqb_neq in Hne. rewrite Hne, Z.eqb_refl. cbn [negb andb].
    apply andb_true_iff. split.
    + apply existsb_exists. exists (cid, r_rx r0). split; [exact (wire_key_in log cid q0 r0 Hin)|].
      cbn [fst snd]. rewrite Z.eqb_refl, Hrx, Z.eqb_refl. cbn [andb]. apply Z.ltb_lt. rewrite <- Hrx. exact Hlt.
    + apply negb_true_iff. apply Z.eqb_neq.
      destruct Hiff as [Hif _]. destruct (Hif Ri) as [_ [it [e [Hfind [He Herx]]]]].
      intros Heq. apply (Hfresh it Hfind e He). rewrite Herx. symmetry. exact Heq.
Qed.

Lemma step_log_wire s o s' ev log :
  Inv c s -> Prov log s -> op_in_era k c o -> step_log c s o = Some (s', ev) ->
  lsn_ok_rev (wire_rev log) = true -> lsn_ok_rev (wire_rev (ev :: log)) = true.
Proof.
  intros HInv HProv Hera Hstep Hok.
  destruct o as [cid q rxt now victim|cid rxt txt]; cbn [step_log op_in_era] in *.
  - destruct Hera as [E1 [E2 E3]].
    destruct (handle c s cid q rxt now victim) as [out|] eqn:Hh; [|discriminate].
    inversion Hstep; subst s' ev; clear Hstep.
    unfold wire_rev. cbn [flat_map lobs_of app lsn_ok_rev].
    apply andb_true_iff. split; [|exact Hok].
    exact (reply_step_ok s log cid q rxt now victim out HInv HProv E1 E2 E3 Hh).
  - inversion Hstep; subst s' ev; clear Hstep. unfold wire_rev. cbn [flat_map lobs_of app]. exact Hok.
Qed.

Lemma run_log_wire ops : forall s log s' log',
  Inv c s -> Prov log s -> Forall (op_in_era k c) ops -> run_log c s log ops = Some (s', log') ->
  lsn_ok_rev (wire_rev log) = true -> lsn_ok_rev (wire_rev log') = true.
Proof.
  induction ops as [|o r IH]; intros s log s' log' HI HP Hera Hrun Hok; cbn [run_log] in Hrun.
  - inversion Hrun; subst. exact Hok.
  - inversion Hera as [|? ? Ho Hr]; subst.
    destruct (step_log c s o) as [[s1 ev]|] eqn:Hs; [|discriminate].
    destruct (step_log_inv k c Hicap s o s1 ev log HI HP Ho Hs) as [HI1 HP1].
    exact (IH s1 (ev :: log) s' log' HI1 HP1 Hr Hrun (step_log_wire s o s1 ev log HI HP Ho Hs Hok)).
Qed.

(* every history, from the empty store *)
Theorem listener_oracle_of_run ops s log :
  0 <= cap c -> Forall (op_in_era k c) ops -> run_log c tss_empty [] ops = Some (s, log) ->
  C06_lsn_ok (wire log) = true.
Proof.
  intros Hc Hera Hrun. unfold C06_lsn_ok, wire. rewrite rev_involutive.
  exact (run_log_wire ops tss_empty [] s log (Inv_empty c Hc) Prov_empty Hera Hrun eq_refl).
Qed.

(* ... and continued from any reachable state: the oracle accepts the whole history so far *)
Theorem listener_oracle_reachable s log :
  0 <= cap c -> reachable k c s log -> C06_lsn_ok (wire log) = true.
Proof.
  intros Hc [ops [Hera Hrun]]. exact (listener_oracle_of_run ops s log Hc Hera Hrun).
Qed.
End Era.

(* what the oracle says about each reply of an accepted history *)
Lemma lsn_ok_rev_at h :
  lsn_ok_rev h = true -> forall pre o older, h = pre ++ o :: older -> lsn_step_ok (map lsn_key older) o = true.
Proof.
  intros Hok pre. revert h Hok. induction pre as [|x pre IH]; intros h Hok o older ->.
  - cbn [app lsn_ok_rev] in Hok. apply andb_true_iff in Hok. exact (proj1 Hok).
  - cbn [app lsn_ok_rev] in Hok. apply andb_true_iff in Hok. exact (IH (pre ++ o :: older) (proj2 Hok) o older eq_refl).
Qed.

Lemma lsn_ok_split h :
  C06_lsn_ok h = true ->
  forall before o after, h = before ++ o :: after ->
  (lsn_inter o = false -> l_org o = q_tx (l_q o)) /\
  (lsn_inter o = true ->
     l_org o = q_rx (l_q o) /\ q_rx (l_q o) <> q_tx (l_q o) /\ l_rx o <> q_org (l_q o) /\
     exists o0, In o0 before /\ l_cl o0 = l_cl o /\ l_rx o0 = q_org (l_q o) /\ l_rx o0 < l_tx o).
Proof.
  intros Hok before o after ->. unfold C06_lsn_ok in Hok.
  assert (Hrev : rev (before ++ o :: after) = rev after ++ o :: rev before).
  { rewrite rev_app_distr. cbn [rev]. rewrite <- app_assoc. reflexivity. }
  pose proof (lsn_ok_rev_at _ Hok (rev after) o (rev before) Hrev) as Hs.
  unfold lsn_step_ok in Hs. split; intros Hint; rewrite Hint in Hs.
  - apply Z.eqb_eq. exact Hs.
  - apply andb_true_iff in Hs. destruct Hs as [Hex Hne].
    unfold lsn_inter in Hint. apply andb_true_iff in Hint. destruct Hint as [H1 H2].
    split; [apply Z.eqb_eq; exact H2|]. split; [apply Z.eqb_neq; apply negb_true_iff; exact H1|].
    split; [apply Z.eqb_neq; apply negb_true_iff; exact Hne|].
    apply existsb_exists in Hex. destruct Hex as [p [Hp Hc]]. apply in_map_iff in Hp. destruct Hp as [o0 [<- Ho0]].
    cbn [lsn_key fst snd] in Hc. apply andb_true_iff in Hc. destruct Hc as [Hc H5]. apply andb_true_iff in Hc. destruct Hc as [H3 H4].
    exists o0. split; [apply in_rev; exact Ho0|]. split; [apply Z.eqb_eq; exact H3|]. split; [apply Z.eqb_eq; exact H4|apply Z.ltb_lt; exact H5].
Qed.

(* ---- the served transmit stamp is not earlier than the software transmit time of the
   exchange it belongs to, provided the environment reports kernel stamps that are not
   earlier than the software transmit time of their exchange (monotone time: the listener
   reads its clock, fills the reply, and only then does the kernel transmit it) ---- *)
Definition reports_after_software (log : list event) : Prop :=
  forall cid rx tx q0 r0, In (EvTx cid rx tx) log -> In (EvReply cid q0 r0) log -> r_rx r0 = rx -> r_ref r0 <= tx.

Section EraTx.
Variable k : Z.
Variable c : config.
Hypothesis Hicap : 0 < icap c.

Theorem served_tx_after_software_tx s log cid q rxt now victim out :
  Inv c s -> Prov log s -> reports_after_software log ->
  in_era k rxt -> in_era k (rxt + icap c + 1) -> in_era k now ->
  handle c s cid q rxt now victim = Some out ->
  r_inter (o_reply out) = true ->
  exists q0 r0, In (EvReply cid q0 r0) log /\ r_rx r0 = q_org q /\ r_ref r0 <= r_tx (o_reply out).
Proof.
  intros HInv HProv Hrep E1 E2 E3 Hh Hint.
  destruct (reply_theorem k c Hicap s log cid q rxt now victim out HInv HProv E1 E2 E3 Hh)
    as [_ [_ [_ [_ [_ [Hshape _]]]]]].
  destruct Hshape as [[Ri _]|[_ [_ [_ [q0 [r0 [Hin [Hrx [_ Hsrc]]]]]]]]]; [congruence|].
  exists q0, r0. split; [exact Hin|]. split; [exact Hrx|].
  destruct Hsrc as [->|Htx]; [apply Z.le_refl|].
  exact (Hrep cid (q_org q) (r_tx (o_reply out)) q0 r0 Htx Hin Hrx).
Qed.
End EraTx.

From ST Require Import Proofs.NtpTimeProofs Proofs.TssProofs Proofs.TssInv Proofs.TssRun.
(* an exchange for which no reply goes out: the listener reports the transmit time handleRequest set
   (updateTXTimestamp with the unchanged time), and the exchange is not on record afterwards *)
Lemma noreply_not_on_record k c s cid q rxt now victim out :
  0 < icap c -> Inv c s -> in_era k rxt -> in_era k (rxt + icap c + 1) -> in_era k now ->
  handle c s cid q rxt now victim = Some out ->
  Inv c (t_state (update_tx (o_state out) cid (o_rxt out) (o_txt out))) /\
  forall it, find_item cid (items (t_state (update_tx (o_state out) cid (o_rxt out) (o_txt out)))) = Some it ->
    forall e, In e (it_ents it) -> e_rx e <> to64 (o_rxt out).
Proof.
  intros Hi HI E1 E2 E3 Hh.
  pose proof (handle_inv k c Hi s cid q rxt now victim out HI E1 E2 E3 Hh) as HI1.
  assert (E1' : in_era k (rxt + 1)) by (apply (in_era_convex k rxt (rxt + icap c + 1)); auto; lia).
  assert (Hfacts : o_rxt out < o_txt out /\ in_era k (o_rxt out) /\ in_era k (o_txt out) /\
            (find_item cid (items (o_state out)) = None \/
             exists it1, find_item cid (items (o_state out)) = Some it1 /\
                         In {| e_rx := to64 (o_rxt out); e_tx := to64 (o_txt out) |} (it_ents it1))).
  { destruct (find_item cid (items s)) as [it|] eqn:Hfind.
    - destruct (find_item_In _ _ _ Hfind) as [Hin Hkey].
      assert (Hok : item_ok c it). { destruct HI as [_ [_ [Hall _]]]. rewrite Forall_forall in Hall. apply Hall. exact Hin. }
      destruct (handle_existing_spec k c Hi s cid q rxt now victim it Hfind Hok E1 E2 E3)
        as [out' [it' [hq' [Hh' [Hst [_ [_ [_ [Hlt [Er [Et [_ [_ [Hk' [_ [_ [_ [HIn _]]]]]]]]]]]]]]]]]].
      assert (out' = out) by congruence. subst out'.
      split; [exact Hlt|]. split; [exact Er|]. split; [exact Et|]. right. exists it'. split; [|exact HIn].
      rewrite Hst. cbn [items]. rewrite <- Hk'. apply find_replace_item. rewrite Hk', <- Hkey. apply in_map. exact Hin.
    - destruct (handle_new_spec k c s cid q rxt now victim out Hfind E1 E1' E3 Hh) as [Hr [Hlt [Et [_ [_ Hcases]]]]].
      rewrite Hr. split; [exact Hlt|]. split; [exact E1|]. split; [exact Et|].
      destruct Hcases as [[_ [_ [-> _]]]|[[_ [_ [_ ->]]]|[_ [_ [_ [_ ->]]]]]].
      + left. exact Hfind.
      + right. exists (new_item cid (to64 rxt) (to64 (o_txt out))). cbn [items find_item new_item it_key it_ents]. rewrite Z.eqb_refl.
        split; [reflexivity|left; reflexivity].
      + right. exists (new_item cid (to64 rxt) (to64 (o_txt out))). cbn [items find_item new_item it_key it_ents]. rewrite Z.eqb_refl.
        split; [reflexivity|left; reflexivity]. }
  destruct Hfacts as [Hlt [Er [Et Hrec]]].
  assert (Er1 : in_era k (o_rxt out + 1)) by (apply (in_era_convex k (o_rxt out) (o_txt out)); auto; lia).
  destruct (update_tx_spec k c (o_state out) cid (o_rxt out) (o_txt out) HI1 Er Er1 Et) as [HI2 [_ [Hsame [_ Hclause]]]].
  split; [exact HI2|].
  unfold tx_kernel_clause in Hclause. cbv zeta in Hclause. rewrite (Hsame Hlt) in Hclause.
  destruct Hrec as [Hnone|[it1 [Hf1 Hin1]]].
  - rewrite Hnone in Hclause. rewrite Hclause. intros it Hf. congruence.
  - rewrite Hf1 in Hclause. destruct Hclause as [_ H2].
    destruct (H2 _ Hin1 eq_refl) as [_ Hdrop]. destruct (Hdrop eq_refl) as [_ Hrest].
    intros it Hf e He. destruct (Hrest it Hf) as [Hall _]. apply (Hall e He).
Qed.
