(* C07, the "exactly" half: when a client's requests arrive in timestamp order,
   the queue value the index holds for the client IS the receive stamp of its
   most recent stored exchange (TssInv.item_ok has the ">=" half: every stored
   receive stamp is <= the queue value). *)
From ST Require Import Base.Ints Model.NtpTime Model.Tss Proofs.NtpTimeProofs Proofs.TssProofs Proofs.TssInv Proofs.TssRun.
From Coq Require Import ZArith List Bool Lia.
Import ListNotations.
Open Scope Z_scope.

(* the queue value of the item is the receive stamp of one of its stored exchanges *)
Definition Exact (it : item) : Prop := exists e, In e (it_ents it) /\ e_rx e = it_qval it.

(* an operation arrives in timestamp order if, for a request of a client that has
   an item, the receive time is newer than the client's queue value *)
Definition op_in_order (s : tss) (o : op) : Prop :=
  match o with
  | OpHandle cid _ rxt _ _ => forall it, find_item cid (items s) = Some it -> it_qval it < to64 rxt
  | OpUpdateTx _ _ _ => True
  end.

(* a history in which every operation is in order with respect to the state it is applied to *)
Fixpoint all_in_order (c : config) (s : tss) (ops : list op) : Prop :=
  match ops with
  | [] => True
  | o :: r => op_in_order s o /\
              match step_log c s o with
              | Some (s', _) => all_in_order c s' r
              | None => True
              end
  end.

(* ================= list helpers ================= *)
Lemma In_set_nth_keep {A} (d : A) i x y l : In y l -> y = nth i l d \/ In y (set_nth i x l).
Proof.
  revert i; induction l as [|z r IH]; intros [|i]; cbn [set_nth In nth]; try tauto.
  - intros [H|H]; [left; symmetry; exact H|right; right; exact H].
  - intros [H|H]; [right; left; exact H|]. destruct (IH i H) as [H'|H']; [left; exact H'|right; right; exact H'].
Qed.

(* every element other than the one in slot i is still there after swap_remove *)
Lemma swap_remove_keeps {A} (f : A -> Z) (d : A) i l y :
  (i < length l)%nat -> In y l -> f y <> f (nth i l d) -> In y (swap_remove d i l).
Proof.
  intros Hi Hy Hne. destruct l as [|a l0]; [cbn in Hi; lia|].
  assert (Hnil : a :: l0 <> []) by discriminate.
  pose proof (app_removelast_last d Hnil) as Hsplit.
  set (l := a :: l0) in *.
  assert (Hlen : length (removelast l) = (length l - 1)%nat) by apply removelast_length.
  assert (Hy' : In y (removelast l) \/ y = last l d).
  { rewrite Hsplit in Hy. apply in_app_or in Hy.
    destruct Hy as [Hy|[Hy|[]]]; [left; exact Hy|right; symmetry; exact Hy]. }
  unfold swap_remove. destruct (Nat.eqb i (length (removelast l))) eqn:E.
  - apply Nat.eqb_eq in E.
    assert (Hz : nth i l d = last l d).
    { rewrite Hsplit at 1. rewrite app_nth2 by lia. rewrite E, Nat.sub_diag. reflexivity. }
    destruct Hy' as [Hy'|Hy']; [exact Hy'|]. exfalso. apply Hne. rewrite Hz, Hy'. reflexivity.
  - apply Nat.eqb_neq in E.
    assert (Hi' : (i < length (removelast l))%nat) by lia.
    assert (Hn : nth i l d = nth i (removelast l) d) by (rewrite Hsplit at 1; apply app_nth1; exact Hi').
    destruct Hy' as [Hy'|Hy'].
    + destruct (In_set_nth_keep d i (last l d) y (removelast l) Hy') as [H|H]; [|exact H].
      exfalso. apply Hne. rewrite Hn, H. reflexivity.
    + rewrite Hy'. apply set_nth_In_new. exact Hi'.
Qed.

(* ================= the scan of updateTXTimestamp =================
   With pairwise distinct receive stamps the runner-up max1 is strictly below
   the maximum max0. *)
Definition M01lt (p : list entry) (m0 m1 : option Z) : Prop :=
  match m0 with
  | None => m1 = None
  | Some a => In a (map e_rx p) /\ match m1 with Some b => b < a | None => True end
  end.

Lemma scan_tx_from_lt rx64 l : forall i p x m0 m1,
  NoDup (map e_rx (p ++ l)) -> M01lt p m0 m1 ->
  let '(x', m0', m1') := scan_tx_from i l rx64 x m0 m1 in M01lt (p ++ l) m0' m1'.
Proof.
  induction l as [|e r IH]; intros i p x m0 m1 Hnd Hm.
  - cbn [scan_tx_from]. rewrite app_nil_r. exact Hm.
  - assert (Hfresh : ~ In (e_rx e) (map e_rx p)).
    { assert (Hnd2 := Hnd). rewrite map_app in Hnd2. cbn [map] in Hnd2. apply NoDup_remove_2 in Hnd2.
      intros H. apply Hnd2. apply in_or_app. left. exact H. }
    cbn [scan_tx_from].
    set (pr := match m0 with
      | None => (Some (e_rx e), m0)
      | Some a => if negb (e_rx e <? a) then (Some (e_rx e), m0)
                  else match m1 with
                       | None => (m0, Some (e_rx e))
                       | Some b => if negb (e_rx e <? b) then (m0, Some (e_rx e)) else (m0, m1)
                       end
      end).
    destruct pr as [m0' m1'] eqn:Epr.
    replace (p ++ e :: r) with ((p ++ [e]) ++ r) in * by (rewrite <- app_assoc; reflexivity).
    apply IH; [exact Hnd|].
    assert (Hnew : In (e_rx e) (map e_rx (p ++ [e]))).
    { rewrite map_app. apply in_or_app. right. left. reflexivity. }
    assert (Hold : forall a, In a (map e_rx p) -> In a (map e_rx (p ++ [e]))).
    { intros a Ha. rewrite map_app. apply in_or_app. left. exact Ha. }
    unfold pr in Epr. clear pr. destruct m0 as [a|]; cbn [M01lt] in Hm.
    + destruct Hm as [Ha Hm1].
      assert (Hane : e_rx e <> a) by (intros Heq; apply Hfresh; rewrite Heq; exact Ha).
      destruct (negb (e_rx e <? a)) eqn:E.
      * inversion Epr; subst m0' m1'. cbn [M01lt]. split; [exact Hnew|lia].
      * destruct m1 as [b|].
        -- destruct (negb (e_rx e <? b)) eqn:F; inversion Epr; subst m0' m1'; cbn [M01lt];
             (split; [apply Hold; exact Ha|lia]).
        -- inversion Epr; subst m0' m1'. cbn [M01lt]. split; [apply Hold; exact Ha|lia].
    + subst m1. inversion Epr; subst m0' m1'. cbn [M01lt]. split; [exact Hnew|exact I].
Qed.

Lemma scan_tx_lt rx64 l x a b :
  NoDup (map e_rx l) -> scan_tx_from 0 l rx64 None None None = (x, Some a, Some b) -> b < a.
Proof.
  intros Hnd Hs.
  pose proof (scan_tx_from_lt rx64 l 0%nat [] None None None) as H. cbn [app] in H.
  rewrite Hs in H. specialize (H Hnd eq_refl). cbn [M01lt] in H. exact (proj2 H).
Qed.

(* ================= handleRequest, client with an item, in order ================= *)
Lemma handle_existing_exact k c s cid q rxt now victim it out :
  0 < icap c ->
  find_item cid (items s) = Some it -> item_ok c it ->
  in_era k rxt -> in_era k (rxt + icap c + 1) -> in_era k now ->
  it_qval it < to64 rxt ->
  handle c s cid q rxt now victim = Some out ->
  exists it', items (o_state out) = replace_item it' (items s) /\
              it_qval it' = to64 (o_rxt out) /\
              In {| e_rx := to64 (o_rxt out); e_tx := to64 (o_txt out) |} (it_ents it').
Proof.
  intros Hicap Hfind [Hlen1 [Hlen2 [Hnd [Hq Hrt]]]] Era1 Era2 Era3 Hord.
  unfold handle. rewrite Hfind.
  set (txt0 := if rxt <? now then now else rxt + 1).
  assert (Ht0 : rxt < txt0) by (unfold txt0; destruct (rxt <? now) eqn:E; lia).
  assert (Hfuel : in_era k (rxt + Z.of_nat (S (length (it_ents it))))).
  { apply (in_era_convex k rxt (rxt + icap c + 1)); auto. lia. }
  destruct (uniq_spec k (it_ents it) (S (length (it_ents it))) rxt txt0) as [rxt' [txt' [Hu [Hr1 _]]]]; auto.
  { pose proof (cnt_ge_le (to64 rxt) (it_ents it)). lia. }
  rewrite Hu.
  assert (EraR : in_era k rxt') by (apply (in_era_convex k rxt (rxt + icap c + 1)); auto; lia).
  assert (Hge64 : to64 rxt <= to64 rxt') by (apply (to64_mono k); auto; lia).
  pose proof (scan_spec (q_org q) (it_ents it)) as Hscan.
  destruct (scan (it_ents it) (q_org q)) as [[o mn] mx].
  destruct Hscan as [Ho [Hmn Hmx]].
  destruct mx as [[jm m]|]; [|exfalso; cbn [Mxinv] in Hmx; rewrite Hmx in Hlen1; cbn in Hlen1; lia].
  cbn [Mxinv] in Hmx. destruct Hmx as [[em [Hm0 Hm1]] Hmall].
  assert (Hmin : In em (it_ents it)) by (eapply nth_error_In; eauto).
  assert (Hmq : m <= it_qval it) by (rewrite <- Hm1; apply Hq; exact Hmin).
  assert (Hnewmax : (m <? to64 rxt') = true) by (apply Z.ltb_lt; lia).
  set (e := {| e_rx := to64 rxt'; e_tx := to64 txt' |}).
  set (ents' := match o with
                | Some (i, _) => set_nth i e (it_ents it)
                | None => if Z.of_nat (length (it_ents it)) =? icap c
                          then match mn with Some (i, _) => set_nth i e (it_ents it) | None => it_ents it end
                          else it_ents it ++ [e]
                end).
  assert (HIn : In e ents').
  { unfold ents'. destruct o as [[j tx]|].
    - apply set_nth_In_new. cbn [Oinv] in Ho. destruct Ho as [e0 [H0 _]]. apply nth_error_Some. congruence.
    - destruct (Z.of_nat (length (it_ents it)) =? icap c) eqn:El.
      + destruct mn as [[j v]|]; cbn [Mninv] in Hmn.
        * apply set_nth_In_new. destruct Hmn as [[e0 [H0 _]] _]. apply nth_error_Some. congruence.
        * exfalso. rewrite Hmn in Hlen1. cbn in Hlen1. lia.
      + apply in_or_app. right. left. reflexivity. }
  cbv beta iota zeta. rewrite Hnewmax.
  intros H. inversion H; subst out; clear H. cbn [o_state o_rxt o_txt items].
  eexists. split; [reflexivity|]. cbn [it_qval it_ents]. split; [reflexivity|]. exact HIn.
Qed.

(* ================= updateTXTimestamp ================= *)
Lemma update_tx_exact c s cid rxt txt :
  Inv c s -> (forall it, In it (items s) -> Exact it) ->
  forall it, In it (items (t_state (update_tx s cid rxt txt))) -> Exact it.
Proof.
  intros [Hnd [Hcap [Hall Hhq]]] Hex x. unfold update_tx. cbv zeta.
  set (txt' := if rxt <? txt then txt else rxt + 1).
  destruct (find_item cid (items s)) as [it|] eqn:Hfind; [|cbn [t_state]; apply Hex].
  destruct (find_item_In _ _ _ Hfind) as [Hin Hkey].
  assert (Hok : item_ok c it) by (rewrite Forall_forall in Hall; apply Hall; exact Hin).
  destruct Hok as [Hlen1 [Hlen2 [Hndr [Hq Hrt]]]].
  destruct (Hex it Hin) as [e0 [He0 He0q]].
  pose proof (scan_tx_spec (to64 rxt) (it_ents it)) as Hscan.
  pose proof (scan_tx_lt (to64 rxt) (it_ents it)) as Hlt.
  destruct (scan_tx_from 0 (it_ents it) (to64 rxt) None None None) as [[xo m0] m1].
  destruct Hscan as [Hx Hm].
  destruct xo as [[xi xtx]|]; [|cbn [t_state]; apply Hex].
  cbn [Oinv] in Hx. destruct Hx as [ex [Hnth [Hexrx _]]].
  set (d0 := {| e_rx := 0; e_tx := 0 |}) in *.
  destruct (nth_error_nth_lt _ _ _ d0 Hnth) as [Hnthd Hxi].
  destruct (negb (xtx =? to64 txt')).
  - (* the stored transmit timestamp is replaced: same receive stamps *)
    cbn [t_state items]. intros Hx'.
    destruct (In_replace_item _ _ _ Hnd Hx') as [->|[H _]]; [|apply Hex; exact H].
    unfold Exact. cbn [it_ents it_qval].
    set (e' := {| e_rx := to64 rxt; e_tx := to64 txt' |}).
    destruct (In_set_nth_keep d0 xi e' e0 (it_ents it) He0) as [H|H].
    + exists e'. split; [apply set_nth_In_new; exact Hxi|].
      cbn [e' e_rx]. rewrite <- He0q, H, Hnthd. symmetry. exact Hexrx.
    + exists e0. split; [exact H|exact He0q].
  - destruct (Nat.eqb (length (it_ents it)) 1) eqn:Elen.
    + cbn [t_state items]. intros Hx'. apply Hex. eapply In_remove_item; eauto.
    + apply Nat.eqb_neq in Elen. cbn [t_state items]. intros Hx'.
      destruct (In_replace_item _ _ _ Hnd Hx') as [->|[H _]]; [|apply Hex; exact H].
      unfold Exact. cbn [it_ents it_qval].
      destruct m0 as [a|]; cbn [M01inv] in Hm.
      2:{ destruct Hm as [Hp _]. rewrite Hp in He0. destruct He0. }
      destruct Hm as [[ea [Ha1 Ha2]] [Hmax Hm1]].
      assert (Haq : a = it_qval it).
      { specialize (Hmax e0 He0). specialize (Hq ea Ha1). lia. }
      destruct (a =? to64 rxt) eqn:Ea.
      * (* the newest exchange goes: the runner-up becomes the queue value *)
        apply Z.eqb_eq in Ea. destruct m1 as [b|].
        -- destruct Hm1 as [[eb [Hb1 Hb2]] _].
           assert (Hba : b < a) by (apply (Hlt (Some (xi, xtx)) a b Hndr eq_refl)).
           exists eb. split; [|exact Hb2].
           apply (swap_remove_keeps e_rx); [exact Hxi|exact Hb1|]. rewrite Hnthd, Hexrx. lia.
        -- exfalso.
           assert (H01 : (0 = 1)%nat).
           { apply (NoDup_map_nth_inj e_rx (it_ents it) d0 0 1 Hndr); [lia|lia|].
             rewrite (Hm1 (nth 0%nat (it_ents it) d0)) by (apply nth_In; lia).
             rewrite (Hm1 (nth 1%nat (it_ents it) d0)) by (apply nth_In; lia). reflexivity. }
           discriminate H01.
      * (* an older exchange goes: the newest one stays *)
        apply Z.eqb_neq in Ea. exists e0. split; [|exact He0q].
        apply (swap_remove_keeps e_rx); [exact Hxi|exact He0|]. rewrite Hnthd, Hexrx, He0q. lia.
Qed.

(* ================= one step ================= *)
Theorem step_exact : forall k c s o s' ev,
  0 < icap c -> Inv c s -> (forall it, In it (items s) -> Exact it) ->
  op_in_era k c o -> op_in_order s o -> step_log c s o = Some (s', ev) ->
  forall it, In it (items s') -> Exact it.
Proof.
  intros k c s o s' ev Hicap HInv Hex Hera Hord Hstep.
  destruct o as [cid q rxt now victim|cid rxt txt]; cbn [step_log op_in_era op_in_order] in *.
  - destruct Hera as [E1 [E2 E3]].
    destruct (handle c s cid q rxt now victim) as [out|] eqn:Hh; [|discriminate].
    inversion Hstep; subst s' ev; clear Hstep.
    assert (E1' : in_era k (rxt + 1)) by (apply (in_era_convex k rxt (rxt + icap c + 1)); auto; lia).
    destruct HInv as [Hnd [Hcap [Hall Hhq]]].
    destruct (find_item cid (items s)) as [it|] eqn:Hfind.
    + destruct (find_item_In _ _ _ Hfind) as [Hin Hkey].
      assert (Hok : item_ok c it) by (rewrite Forall_forall in Hall; apply Hall; exact Hin).
      destruct (handle_existing_exact k c s cid q rxt now victim it out Hicap Hfind Hok E1 E2 E3 (Hord it eq_refl) Hh)
        as [it' [Hst [Hqv HIn]]].
      intros x Hx. rewrite Hst in Hx.
      destruct (In_replace_item _ _ _ Hnd Hx) as [->|[Hx' _]]; [|apply Hex; exact Hx'].
      eexists. split; [exact HIn|]. cbn [e_rx]. symmetry. exact Hqv.
    + destruct (handle_new_spec k c s cid q rxt now victim out Hfind E1 E1' E3 Hh) as [_ [_ [_ [_ [_ Hcases]]]]].
      assert (Hnew : Exact (new_item cid (to64 rxt) (to64 (o_txt out)))).
      { unfold Exact, new_item. cbn [it_ents it_qval]. eexists. split; [left; reflexivity|reflexivity]. }
      destruct Hcases as [[_ [_ [-> _]]]|[[_ [_ [_ ->]]]|[_ [_ [_ [_ ->]]]]]]; cbn [items]; intros x Hx.
      * apply Hex. exact Hx.
      * destruct Hx as [<-|Hx]; [exact Hnew|apply Hex; exact Hx].
      * destruct Hx as [<-|Hx]; [exact Hnew|apply Hex; eapply In_remove_item; exact Hx].
  - inversion Hstep; subst s' ev; clear Hstep. apply (update_tx_exact c); assumption.
Qed.

(* ================= histories ================= *)
Lemma run_exact_from k c : 0 < icap c -> forall ops s log s' log',
  Inv c s -> Prov log s -> (forall it, In it (items s) -> Exact it) ->
  Forall (op_in_era k c) ops -> all_in_order c s ops ->
  run_log c s log ops = Some (s', log') ->
  forall it, In it (items s') -> Exact it.
Proof.
  intros Hicap. induction ops as [|o r IH]; intros s log s' log' HI HP Hex Hera Hord Hrun; cbn [run_log] in Hrun.
  - inversion Hrun; subst. exact Hex.
  - inversion Hera as [|? ? Ho Hr]; subst.
    cbn [all_in_order] in Hord. destruct Hord as [Ho' Hr'].
    destruct (step_log c s o) as [[s1 ev]|] eqn:Hs; [|discriminate].
    destruct (step_log_inv k c Hicap s o s1 ev log HI HP Ho Hs) as [HI1 HP1].
    pose proof (step_exact k c s o s1 ev Hicap HI Hex Ho Ho' Hs) as Hex1.
    exact (IH s1 (ev :: log) s' log' HI1 HP1 Hex1 Hr Hr' Hrun).
Qed.

(* every history from the empty store whose operations are in one era and arrive in
   timestamp order: every client's queue value is one of its stored receive stamps *)
Theorem run_exact : forall k c ops s log,
  0 < icap c -> 0 <= cap c ->
  Forall (op_in_era k c) ops -> all_in_order c tss_empty ops ->
  run_log c tss_empty [] ops = Some (s, log) ->
  forall it, In it (items s) -> Exact it.
Proof.
  intros k c ops s log Hicap Hcap Hera Hord Hrun.
  apply (run_exact_from k c Hicap ops tss_empty [] s log (Inv_empty c Hcap) Prov_empty); try assumption.
  intros it [].
Qed.

(* together with the ">=" half: the queue value is the receive stamp of the
   newest stored exchange *)
Theorem run_qval_is_newest : forall k c ops s log,
  0 < icap c -> 0 <= cap c ->
  Forall (op_in_era k c) ops -> all_in_order c tss_empty ops ->
  run_log c tss_empty [] ops = Some (s, log) ->
  forall it, In it (items s) ->
    exists e, In e (it_ents it) /\ it_qval it = e_rx e /\ forall e', In e' (it_ents it) -> e_rx e' <= e_rx e.
Proof.
  intros k c ops s log Hicap Hcap Hera Hord Hrun it Hit.
  destruct (run_exact k c ops s log Hicap Hcap Hera Hord Hrun it Hit) as [e [He Heq]].
  destruct (run_log_inv k c Hicap ops tss_empty [] s log (Inv_empty c Hcap) Prov_empty Hera Hrun) as [[_ [_ [Hall _]]] _].
  rewrite Forall_forall in Hall. destruct (Hall it Hit) as [_ [_ [_ [Hq _]]]].
  exists e. split; [exact He|]. split; [symmetry; exact Heq|]. intros e' He'. rewrite Heq. apply Hq. exact He'.
Qed.

(* non-vacuity: a client served twice in timestamp order, one exchange dropped by
   updateTXTimestamp, a second client: the hypotheses hold and the run is defined *)
Ltac step_order :=
  split;
  [ cbn [op_in_order]; try exact I;
    let it := fresh "it" in let H := fresh "H" in
    intros it H; vm_compute in H; inversion H; subst it; vm_compute; reflexivity
  | lazymatch goal with
    | |- context [step_log ?c ?s ?o] =>
        let v := eval vm_compute in (step_log c s o) in
        replace (step_log c s o) with v by (vm_compute; reflexivity); cbv beta iota
    end ].

Example in_order_history :
  let c := {| cap := 2; icap := 8 |} in
  let t := 1717171717000000000 in
  let rq := {| q_org := 0; q_rx := 5; q_tx := 5 |} in
  let ops := [OpHandle 1 rq t (t + 10) 0; OpHandle 1 rq (t + 100) (t + 110) 0;
              OpUpdateTx 1 (t + 100) (t + 110); OpHandle 2 rq (t + 200) (t + 210) 0;
              OpHandle 1 rq (t + 300) (t + 310) 0] in
  Forall (op_in_era 0 c) ops /\ all_in_order c tss_empty ops /\
  exists s log, run_log c tss_empty [] ops = Some (s, log) /\
                map (fun it => (it_key it, length (it_ents it))) (items s) = [(2, 1%nat); (1, 2%nat)].
Proof.
  cbv zeta. split; [|split].
  - repeat constructor; vm_compute; (reflexivity || discriminate).
  - cbn [all_in_order]. repeat step_order. exact I.
  - eexists. eexists. split; [vm_compute; reflexivity|]. vm_compute. reflexivity.
Qed.

(* the in-order hypothesis is needed: an interleaved request that names the newest
   exchange as its origin but carries an older receive time overwrites that
   exchange, and the queue value is then larger than every stored receive stamp *)
Example out_of_order_not_exact :
  let c := {| cap := 2; icap := 8 |} in
  let t := 1717171717000000000 in
  let rq := {| q_org := 0; q_rx := 5; q_tx := 5 |} in
  let rq' := {| q_org := to64 (t + 100); q_rx := 5; q_tx := 6 |} in
  let ops := [OpHandle 1 rq t (t + 10) 0; OpHandle 1 rq (t + 100) (t + 110) 0;
              OpHandle 1 rq' (t + 50) (t + 120) 0] in
  Forall (op_in_era 0 c) ops /\
  exists s log, run_log c tss_empty [] ops = Some (s, log) /\ exists it, In it (items s) /\ ~ Exact it.
Proof.
  cbv zeta. split.
  - repeat constructor; vm_compute; (reflexivity || discriminate).
  - eexists. eexists. split; [vm_compute; reflexivity|].
    eexists. split; [left; reflexivity|].
    intros [e [He Heq]]. cbn [it_ents it_qval] in He, Heq.
    destruct He as [<-|[<-|[]]]; cbn [e_rx] in Heq; discriminate Heq.
Qed.

Print Assumptions step_exact.
Print Assumptions run_exact.
Print Assumptions run_qval_is_newest.
