(* Real-number facts about the binary64 operations used by the PLL model:
   bounds that survive rounding (monotonicity of round-to-nearest), exact
   cases, Duration.Seconds, math.Ceil, int64(float64). *)
From Coq Require Import ZArith Reals Lia Lra Bool Psatz.
From Flocq Require Import Core FIX Ulp Round_NE Relative BinarySingleNaN.
From ST Require Import Base.Ints Base.F64 Model.Pll.
Open Scope R_scope.

Notation emin := (SpecFloat.emin prec emax).
Notation fexp := (SpecFloat.fexp prec emax).
Notation rnd := (round radix2 fexp ZnearestE).
Notation R := (@B2R prec emax).
Notation fin := (@is_finite prec emax).
Notation fmt := (generic_format radix2 fexp).

Lemma fexp_valid : Valid_exp fexp.
Proof. change fexp with (FLT_exp emin prec). apply FLT_exp_valid. reflexivity. Qed.
#[global] Existing Instance fexp_valid.

Lemma rnd_le x y : x <= y -> rnd x <= rnd y.
Proof. apply round_le; auto with typeclass_instances. Qed.

Lemma rnd_0 : rnd 0 = 0.
Proof. apply round_0; auto with typeclass_instances. Qed.

Lemma rnd_id x : fmt x -> rnd x = x.
Proof. apply round_generic; auto with typeclass_instances. Qed.

Lemma fmt_R (x : f64) : fmt (R x).
Proof. apply generic_format_B2R. Qed.

(* integers m * 2^e with |m| < 2^53 are representable *)
Lemma fmt_int_shift m e : (Z.abs m < 2^53)%Z -> (0 <= e)%Z -> fmt (IZR (m * 2^e)).
Proof.
  intros Hm He. change fexp with (FLT_exp emin prec). apply generic_format_FLT. apply (FLT_spec _ _ _ _ (Float radix2 m e)).
  - unfold F2R. cbn [Fnum Fexp]. rewrite mult_IZR. f_equal.
    rewrite (IZR_Zpower radix2) by exact He. reflexivity.
  - cbn [Fnum]. exact Hm.
  - cbn [Fexp]. unfold SpecFloat.emin, emax, prec. lia.
Qed.

Lemma fmt_int m : (Z.abs m <= 2^53)%Z -> fmt (IZR m).
Proof.
  intros Hm. destruct (Z.eq_dec (Z.abs m) (2^53)) as [E|E].
  - assert (H : m = (Z.sgn m * 2^53)%Z) by lia.
    rewrite H. apply fmt_int_shift; lia.
  - replace m with (m * 2^0)%Z by lia. apply fmt_int_shift; lia.
Qed.

Lemma bpow_lt_emax e : (e < 1024)%Z -> bpow radix2 e < bpow radix2 emax.
Proof. intros H. apply bpow_lt. exact H. Qed.

Lemma fmt_bpow e : (-1000 <= e <= 1000)%Z -> fmt (bpow radix2 e).
Proof.
  intros H. apply generic_format_bpow. unfold SpecFloat.fexp, FLT_exp, SpecFloat.emin, emax, prec. lia.
Qed.

(* |x| <= bound, bound representable  ==>  |rnd x| <= bound *)
Lemma rnd_abs_le x y : fmt y -> Rabs x <= y -> Rabs (rnd x) <= y.
Proof. intros Fy H. apply abs_round_le_generic; auto with typeclass_instances. Qed.

Lemma no_overflow x e : (e < 1024)%Z -> Rabs x <= bpow radix2 e ->
  Rlt_bool (Rabs x) (bpow radix2 emax) = true.
Proof.
  intros He H. apply Rlt_bool_true. eapply Rle_lt_trans; [exact H|]. apply bpow_lt_emax; exact He.
Qed.

(* ---- multiplication ---- *)
Lemma fmul_spec x y e : fin x = true -> fin y = true -> (-1000 <= e <= 1000)%Z ->
  Rabs (R x * R y) <= bpow radix2 e ->
  fin (fmul x y) = true /\ R (fmul x y) = rnd (R x * R y) /\ Rabs (R (fmul x y)) <= bpow radix2 e.
Proof.
  intros Fx Fy He Hb. unfold fmul.
  pose proof (Bmult_correct prec emax Hprec Hmax mode_NE x y) as C. cbn [round_mode] in C.
  assert (Hr : Rabs (rnd (R x * R y)) <= bpow radix2 e) by (apply rnd_abs_le; [apply fmt_bpow; exact He|exact Hb]).
  rewrite (no_overflow _ e) in C by (try lia; exact Hr).
  destruct C as [C1 [C2 _]]. rewrite C2, Fx, Fy. split; [reflexivity|]. split; [exact C1|].
  rewrite C1. exact Hr.
Qed.

(* ---- addition ---- *)
Lemma fadd_spec x y e : fin x = true -> fin y = true -> (e < 1024)%Z ->
  Rabs (rnd (R x + R y)) <= bpow radix2 e ->
  fin (fadd x y) = true /\ R (fadd x y) = rnd (R x + R y).
Proof.
  intros Fx Fy He Hb. unfold fadd.
  pose proof (Bplus_correct prec emax Hprec Hmax mode_NE x y Fx Fy) as C. cbn [round_mode] in C.
  rewrite (no_overflow _ e) in C by (try lia; exact Hb).
  destruct C as [C1 [C2 _]]. split; assumption.
Qed.

(* ---- division ---- *)
Lemma fdiv_spec x y e : fin x = true -> R y <> 0 -> (-1000 <= e <= 1000)%Z ->
  Rabs (R x / R y) <= bpow radix2 e ->
  fin (fdiv x y) = true /\ R (fdiv x y) = rnd (R x / R y).
Proof.
  intros Fx Hy He Hb. unfold fdiv.
  pose proof (Bdiv_correct prec emax Hprec Hmax mode_NE x y Hy) as C. cbn [round_mode] in C.
  assert (Hr : Rabs (rnd (R x / R y)) <= bpow radix2 e) by (apply rnd_abs_le; [apply fmt_bpow; exact He|exact Hb]).
  rewrite (no_overflow _ e) in C by (try lia; exact Hr).
  destruct C as [C1 [C2 _]]. rewrite C2, Fx. split; [reflexivity|exact C1].
Qed.

(* ---- float64(int64) ---- *)
Lemma f_of_int_spec z : (Z.abs z <= 2^53)%Z -> fin (f_of_int z) = true /\ R (f_of_int z) = IZR z.
Proof.
  intros Hz. unfold f_of_int.
  pose proof (binary_normalize_correct prec emax Hprec Hmax mode_NE z 0 false) as C.
  cbn [round_mode] in C. cbv zeta in C.
  assert (E : F2R (Float radix2 z 0) = IZR z) by (unfold F2R; cbn [Fnum Fexp bpow]; lra).
  rewrite E in C. rewrite (rnd_id (IZR z)) in C by (apply fmt_int; exact Hz).
  rewrite Rlt_bool_true in C.
  - destruct C as [C1 [C2 _]]. split; assumption.
  - apply Rle_lt_trans with (bpow radix2 53).
    + rewrite <- abs_IZR. change (bpow radix2 53) with (IZR (2^53)). apply IZR_le. exact Hz.
    + apply bpow_lt_emax. lia.
Qed.

(* ---- comparisons on finite values ---- *)
Lemma fcmp_fin x y : fin x = true -> fin y = true -> fcmp x y = Some (Rcompare (R x) (R y)).
Proof. intros Fx Fy. unfold fcmp. apply Bcompare_correct; assumption. Qed.

Lemma fgt_fin x y : fin x = true -> fin y = true -> (fgt x y = true <-> R x > R y).
Proof.
  intros Fx Fy. unfold fgt. rewrite fcmp_fin by assumption.
  destruct (Rcompare_spec (R x) (R y)); split; intros; try discriminate; try lra; reflexivity.
Qed.

Lemma flt_fin x y : fin x = true -> fin y = true -> (flt x y = true <-> R x < R y).
Proof.
  intros Fx Fy. unfold flt. rewrite fcmp_fin by assumption.
  destruct (Rcompare_spec (R x) (R y)); split; intros; try discriminate; try lra; reflexivity.
Qed.

Lemma fle_fin x y : fin x = true -> fin y = true -> (fle x y = true <-> R x <= R y).
Proof.
  intros Fx Fy. unfold fle. rewrite fcmp_fin by assumption.
  destruct (Rcompare_spec (R x) (R y)); split; intros; try discriminate; try lra; reflexivity.
Qed.

(* a successful comparison against a finite value excludes NaN; we only need:
   fle 0 x && fle x 1 implies finite *)
Lemma fle_true_fin_l x y : fle x y = true -> fin y = true -> x <> B754_nan /\ (fin x = true \/ x = B754_infinity true).
Proof.
  unfold fle, fcmp, Bcompare. destruct x as [s|s| |s m e H], y as [s'|s'| |s' m' e' H']; cbn; intros; try discriminate;
    split; try discriminate; try (left; reflexivity); destruct s; try discriminate; right; reflexivity.
Qed.

Lemma unit_interval_fin x : fle fzero x = true -> fle x (f_of_int 1) = true ->
  fin x = true /\ 0 <= R x <= 1.
Proof.
  intros H0 H1. destruct (f_of_int_spec 1) as [F1 R1]; [lia|].
  assert (Fx : fin x = true).
  { destruct x as [s|s| |s m e H]; try reflexivity.
    - destruct s; [unfold fle, fcmp, Bcompare in H0; cbn in H0; discriminate|].
      unfold fle, fcmp in H1. destruct (f_of_int 1) as [s'|s'| |s' m' e' H']; cbn in H1, F1; try discriminate.
    - unfold fle, fcmp, Bcompare in H0; cbn in H0; discriminate. }
  split; [exact Fx|].
  apply fle_fin in H0; [|reflexivity|exact Fx]. apply fle_fin in H1; [|exact Fx|exact F1].
  rewrite R1 in H1. cbn in H0. lra.
Qed.

(* ---- constants: real value from the bit pattern ---- *)
Lemma R_of_SF (x : f64) s m e : B2SF x = SpecFloat.S754_finite s m e ->
  fin x = true /\ R x = F2R (Float radix2 (cond_Zopp s (Zpos m)) e).
Proof.
  intros H. destruct x as [sx|sx| |sx mx ex Hx]; cbn in H; try discriminate.
  injection H as -> -> ->. split; reflexivity.
Qed.

Lemma F2R_neg_exp m e : F2R (Float radix2 m (Zneg e)) = IZR m / IZR (Zpower_pos 2 e).
Proof. unfold F2R. cbn [Fnum Fexp bpow radix_val radix2]. reflexivity. Qed.

(* ---- math.Ceil ---- *)
Lemma fceil_spec x : fin x = true -> fin (fceil x) = true /\ R (fceil x) = IZR (Zceil (R x)).
Proof.
  intros Fx. unfold fceil.
  destruct (Bnearbyint_correct prec emax Hmax mode_UP x) as [C1 [C2 _]].
  rewrite C2. split; [exact Fx|]. rewrite C1. cbn [round_mode]. apply round_FIX_IZR.
Qed.

(* ---- int64(float64) ---- *)
Lemma f_to_i64_spec x : fin x = true ->
  (min_i64 <= Ztrunc (R x) <= max_i64)%Z -> f_to_i64 x = Ztrunc (R x).
Proof.
  intros Fx Hr. unfold f_to_i64, fis_finite. rewrite Fx.
  assert (E : Btrunc x = Ztrunc (R x)).
  { apply eq_IZR. rewrite (Btrunc_correct prec emax Hmax). apply round_FIX_IZR. }
  rewrite E. unfold in_i64b.
  destruct (Z.leb_spec min_i64 (Ztrunc (R x))); [|lia].
  destruct (Z.leb_spec (Ztrunc (R x)) max_i64); [reflexivity|lia].
Qed.

Lemma Ztrunc_abs_lt x n : Rabs x < IZR n + 1 -> (Z.abs (Ztrunc x) <= n)%Z.
Proof.
  intros H. destruct (Rle_or_lt 0 x) as [P|N].
  - rewrite Ztrunc_floor by exact P. rewrite Rabs_pos_eq in H by exact P.
    assert (0 <= Zfloor x)%Z by (apply Zfloor_lub; exact P).
    assert (Zfloor x < n + 1)%Z.
    { apply lt_IZR. rewrite plus_IZR. eapply Rle_lt_trans; [apply Zfloor_lb|exact H]. }
    lia.
  - rewrite Ztrunc_ceil by lra. rewrite Rabs_left in H by exact N.
    assert (Zceil x <= 0)%Z by (apply Zceil_glb; lra).
    assert (- n - 1 < Zceil x)%Z.
    { apply lt_IZR. rewrite minus_IZR, opp_IZR. eapply Rlt_le_trans; [|apply Zceil_ub]. lra. }
    lia.
Qed.

(* ---- time.Duration.Seconds ---- *)
Definition E9 : Z := 1000000000.

Lemma dur_seconds_core z : in_i64 z ->
  let q := Z.quot z E9 in let r := Z.rem z E9 in
  fin (dur_seconds z) = true /\
  R (dur_seconds z) = rnd (IZR q + rnd (IZR r / IZR E9)) /\
  Rabs (rnd (IZR r / IZR E9)) <= 1.
Proof.
  intros Hz q r. unfold in_i64, min_i64, max_i64 in Hz.
  assert (Hq : (Z.abs q <= 9223372036)%Z).
  { subst q. unfold E9. pose proof (Z.quot_rem' z 1000000000). pose proof (Z.rem_bound_abs z 1000000000).
    destruct (Z_le_gt_dec 0 z).
    - pose proof (Z.quot_pos z 1000000000). pose proof (Z.rem_nonneg z 1000000000). lia.
    - pose proof (Z.quot_opp_l z 1000000000). pose proof (Z.rem_opp_l z 1000000000).
      pose proof (Z.quot_pos (-z) 1000000000). pose proof (Z.rem_nonneg (-z) 1000000000).
      pose proof (Z.quot_rem' (-z) 1000000000). pose proof (Z.rem_bound_pos (-z) 1000000000). lia. }
  assert (Hr : (Z.abs r < 1000000000)%Z).
  { subst r. unfold E9. pose proof (Z.rem_bound_abs z 1000000000). lia. }
  destruct (f_of_int_spec q) as [Fq Rq]; [lia|].
  destruct (f_of_int_spec r) as [Fr Rr]; [lia|].
  destruct (f_of_int_spec 1000000000) as [F9 R9]; [lia|].
  assert (Hd : Rabs (IZR r / IZR E9) <= bpow radix2 0).
  { unfold E9. cbn [bpow]. unfold Rdiv. rewrite Rabs_mult, <- abs_IZR.
    rewrite (Rabs_pos_eq (/ IZR 1000000000)) by (left; apply Rinv_0_lt_compat; lra).
    assert (IZR (Z.abs r) <= 1000000000) by (apply IZR_le; lia).
    apply Rmult_le_reg_r with 1000000000; [lra|]. rewrite Rmult_assoc, Rinv_l by lra. lra. }
  destruct (fdiv_spec (f_of_int r) (f_of_int 1000000000) 0) as [Fd Rd].
  - exact Fr.
  - rewrite R9. lra.
  - lia.
  - rewrite Rr, R9. exact Hd.
  - rewrite Rr, R9 in Rd. fold E9 in Rd.
    assert (Hd1 : Rabs (rnd (IZR r / IZR E9)) <= 1).
    { apply rnd_abs_le; [|exact Hd]. replace 1 with (bpow radix2 0) by reflexivity. apply fmt_bpow. lia. }
    assert (Hs : Rabs (rnd (IZR q + rnd (IZR r / IZR E9))) <= bpow radix2 34).
    { apply rnd_abs_le; [apply fmt_bpow; lia|].
      eapply Rle_trans; [apply Rabs_triang|]. rewrite <- abs_IZR.
      assert (IZR (Z.abs q) <= 9223372036) by (apply IZR_le; lia).
      change (bpow radix2 34) with (IZR (2^34)). change (2^34)%Z with 17179869184%Z. lra. }
    unfold dur_seconds. fold E9.
    destruct (fadd_spec (f_of_int q) (fdiv (f_of_int r) (f_of_int E9)) 34) as [Fs Rs].
    + exact Fq.
    + exact Fd.
    + lia.
    + rewrite Rq, Rd. exact Hs.
    + rewrite Rq, Rd in Rs. split; [exact Fs|]. split; [exact Rs|exact Hd1].
Qed.

Lemma dur_seconds_bound z : in_i64 z ->
  fin (dur_seconds z) = true /\ Rabs (R (dur_seconds z)) <= bpow radix2 34.
Proof.
  intros Hz. destruct (dur_seconds_core z Hz) as [F [E D]]. split; [exact F|].
  rewrite E. apply rnd_abs_le; [apply fmt_bpow; lia|].
  unfold in_i64, min_i64, max_i64 in Hz.
  assert (Hq : (Z.abs (Z.quot z E9) <= 9223372036)%Z).
  { unfold E9. pose proof (Z.quot_rem' z 1000000000). pose proof (Z.rem_bound_abs z 1000000000).
    destruct (Z_le_gt_dec 0 z).
    - pose proof (Z.quot_pos z 1000000000). pose proof (Z.rem_nonneg z 1000000000). lia.
    - pose proof (Z.quot_opp_l z 1000000000). pose proof (Z.rem_opp_l z 1000000000).
      pose proof (Z.quot_pos (-z) 1000000000). pose proof (Z.rem_nonneg (-z) 1000000000).
      pose proof (Z.quot_rem' (-z) 1000000000). pose proof (Z.rem_bound_pos (-z) 1000000000). lia. }
  eapply Rle_trans; [apply Rabs_triang|]. rewrite <- abs_IZR.
  assert (IZR (Z.abs (Z.quot z E9)) <= 9223372036) by (apply IZR_le; lia).
  change (bpow radix2 34) with (IZR (2^34)). change (2^34)%Z with 17179869184%Z. lra.
Qed.

(* for a non-negative duration: between the whole seconds and one more, exact on whole seconds *)
Lemma dur_seconds_nonneg z : (0 <= z <= max_i64)%Z ->
  IZR (z / E9) <= R (dur_seconds z) <= IZR (z / E9 + 1) /\
  (z mod E9 = 0 -> R (dur_seconds z) = IZR (z / E9))%Z.
Proof.
  intros Hz. assert (Hi : in_i64 z) by (unfold in_i64, min_i64, max_i64 in *; lia).
  destruct (dur_seconds_core z Hi) as [F [E D]].
  assert (Eq : Z.quot z E9 = (z / E9)%Z) by (apply Z.quot_div_nonneg; unfold E9; lia).
  assert (Er : Z.rem z E9 = (z mod E9)%Z) by (apply Z.rem_mod_nonneg; unfold E9; lia).
  rewrite Eq, Er in E. rewrite Er in D. clear Eq Er.
  set (q := (z / E9)%Z) in *. set (r := (z mod E9)%Z) in *.
  assert (Hq : (0 <= q <= 9223372036)%Z).
  { subst q. unfold E9, max_i64 in *. split; [apply Z.div_pos; lia|].
    assert (z / 1000000000 < 9223372037)%Z by (apply Z.div_lt_upper_bound; lia). lia. }
  assert (Hr : (0 <= r < 1000000000)%Z) by (subst r; unfold E9; apply Z.mod_pos_bound; lia).
  assert (D0 : 0 <= rnd (IZR r / IZR E9)).
  { rewrite <- rnd_0. apply rnd_le. unfold E9. apply Rmult_le_pos; [apply IZR_le; lia|].
    left. apply Rinv_0_lt_compat. lra. }
  assert (D1 : rnd (IZR r / IZR E9) <= 1) by (apply Rabs_le_inv in D; lra).
  assert (Fq : fmt (IZR q)) by (apply fmt_int; lia).
  assert (Fq1 : fmt (IZR (q + 1))) by (apply fmt_int; lia).
  split.
  - rewrite E. split.
    + rewrite <- (rnd_id (IZR q)) at 1 by exact Fq. apply rnd_le. lra.
    + rewrite <- (rnd_id (IZR (q + 1))) by exact Fq1. apply rnd_le. rewrite plus_IZR. lra.
  - intros Hz0. rewrite E. fold r in Hz0. rewrite Hz0.
    unfold Rdiv. rewrite Rmult_0_l, rnd_0, Rplus_0_r. apply rnd_id. exact Fq.
Qed.

(* ---- the integrator stays bounded: adding at most 2^26 to at most 2^80
   rounds back to at most 2^80 (half an ulp of 2^80 is 2^27) ---- *)
Lemma rnd_acc_le v : v <= bpow radix2 80 + bpow radix2 26 -> rnd v <= bpow radix2 80.
Proof.
  intros H. apply round_N_le_midp; [auto with typeclass_instances|apply fmt_bpow; lia|].
  rewrite succ_eq_pos by (apply bpow_ge_0). rewrite ulp_bpow.
  replace (fexp (80 + 1)) with 28%Z by reflexivity.
  change (bpow radix2 80) with (IZR (2^80)) in *. change (bpow radix2 26) with (IZR (2^26)) in *.
  change (bpow radix2 28) with (IZR (2^28)).
  change (2^80)%Z with 1208925819614629174706176%Z in *. change (2^26)%Z with 67108864%Z in *.
  change (2^28)%Z with 268435456%Z. lra.
Qed.

Lemma rnd_acc_abs v : Rabs v <= bpow radix2 80 + bpow radix2 26 -> Rabs (rnd v) <= bpow radix2 80.
Proof.
  intros H. apply Rabs_le. apply Rabs_le_inv in H. split.
  - assert (A : rnd (- v) <= bpow radix2 80) by (apply rnd_acc_le; lra).
    rewrite round_NE_opp in A. lra.
  - apply rnd_acc_le. lra.
Qed.

Lemma fadd_acc i y : fin i = true -> fin y = true ->
  Rabs (R i) <= bpow radix2 80 -> Rabs (R y) <= bpow radix2 26 ->
  fin (fadd i y) = true /\ Rabs (R (fadd i y)) <= bpow radix2 80.
Proof.
  intros Fi Fy Hi Hy.
  assert (Hs : Rabs (rnd (R i + R y)) <= bpow radix2 80).
  { apply rnd_acc_abs. eapply Rle_trans; [apply Rabs_triang|]. lra. }
  destruct (fadd_spec i y 80 Fi Fy) as [F E]; [lia|exact Hs|].
  split; [exact F|]. rewrite E. exact Hs.
Qed.

(* ---- the slew clamp ---- *)
Definition C5 := IZR 4611686018427388 / IZR (Zpower_pos 2 63).   (* float64(500e-6) *)

Lemma c_5em4_spec : fin c_5em4 = true /\ R c_5em4 = C5.
Proof.
  destruct (R_of_SF c_5em4 false 4611686018427388 (-63)) as [F E]; [vm_compute; reflexivity|].
  split; [exact F|]. rewrite E. cbn [cond_Zopp]. apply F2R_neg_exp.
Qed.

Lemma c_m5em4_spec : fin c_m5em4 = true /\ R c_m5em4 = - C5.
Proof.
  destruct (R_of_SF c_m5em4 true 4611686018427388 (-63)) as [F E]; [vm_compute; reflexivity|].
  split; [exact F|]. rewrite E. cbn [cond_Zopp Z.opp]. rewrite F2R_neg_exp. unfold C5.
  change (Zpower_pos 2 63) with 9223372036854775808%Z. lra.
Qed.

Lemma C5_bounds : / 2048 <= C5 <= / 1024.
Proof. unfold C5. change (Zpower_pos 2 63) with 9223372036854775808%Z. lra. Qed.

(* float-level statement of the clamp: the result lies between d*-500e-6 and d*500e-6 *)
Lemma clamp_spec d p n : fin d = true -> R d = IZR n -> (0 <= n <= 2^34)%Z -> fin p = true ->
  fin (fmul d c_5em4) = true /\ R (fmul d c_5em4) = rnd (IZR n * C5) /\
  fin (fmul d c_m5em4) = true /\ R (fmul d c_m5em4) = - rnd (IZR n * C5) /\
  fin (clamp d p) = true /\ - rnd (IZR n * C5) <= R (clamp d p) <= rnd (IZR n * C5).
Proof.
  intros Fd Rd Hn Fp. destruct c_5em4_spec as [Fc Rc]. destruct c_m5em4_spec as [Fm Rm].
  pose proof C5_bounds as CB.
  assert (Hn' : 0 <= IZR n <= 17179869184).
  { split; [apply IZR_le; lia|]. change 17179869184 with (IZR (2^34)). apply IZR_le. lia. }
  assert (B : Rabs (IZR n * C5) <= bpow radix2 24).
  { rewrite Rabs_pos_eq by (apply Rmult_le_pos; lra).
    change (bpow radix2 24) with (IZR (2^24)). change (2^24)%Z with 16777216%Z. nra. }
  destruct (fmul_spec d c_5em4 24 Fd Fc) as [Fh [Rh _]]; [lia|rewrite Rd, Rc; exact B|].
  destruct (fmul_spec d c_m5em4 24 Fd Fm) as [Fl [Rl _]].
  { lia. } { rewrite Rd, Rm. replace (IZR n * - C5) with (- (IZR n * C5)) by ring. rewrite Rabs_Ropp. exact B. }
  rewrite Rd, Rc in Rh. rewrite Rd, Rm in Rl.
  replace (IZR n * - C5) with (- (IZR n * C5)) in Rl by ring. rewrite round_NE_opp in Rl.
  assert (H0 : 0 <= rnd (IZR n * C5)) by (rewrite <- rnd_0; apply rnd_le; apply Rmult_le_pos; lra).
  split; [exact Fh|]. split; [exact Rh|]. split; [exact Fl|]. split; [exact Rl|].
  unfold clamp. set (hi := fmul d c_5em4) in *. set (lo := fmul d c_m5em4) in *.
  set (p1 := if fgt p hi then hi else p).
  assert (P1 : fin p1 = true /\ R p1 <= R hi).
  { subst p1. destruct (fgt p hi) eqn:G; [split; [exact Fh|lra]|]. split; [exact Fp|].
    destruct (Rle_or_lt (R p) (R hi)) as [L|L]; [exact L|].
    apply (fgt_fin p hi Fp Fh) in L. congruence. }
  destruct P1 as [F1 L1].
  destruct (flt p1 lo) eqn:G.
  - split; [exact Fl|]. rewrite Rl. lra.
  - split; [exact F1|]. split; [|rewrite <- Rh; exact L1].
    destruct (Rle_or_lt (R lo) (R p1)) as [L|L]; [rewrite <- Rl; exact L|].
    apply (flt_fin p1 lo F1 Fl) in L. congruence.
Qed.

Lemma rel_err x : bpow radix2 (-1022) <= x -> rnd x <= x * (1 + / 9007199254740992).
Proof.
  intros Hx. assert (P : 0 < x) by (eapply Rlt_le_trans; [apply (bpow_gt_0 radix2 (-1022))|exact Hx]).
  pose proof (relative_error_N_FLT radix2 emin prec Hprec (fun x => negb (Z.even x)) x) as E.
  change (FLT_exp emin prec) with fexp in E.
  assert (Hb : bpow radix2 (emin + prec - 1) <= Rabs x).
  { rewrite Rabs_pos_eq by lra. replace (emin + prec - 1)%Z with (-1022)%Z by reflexivity. exact Hx. }
  specialize (E Hb). rewrite (Rabs_pos_eq x) in E by lra.
  replace (- prec + 1)%Z with (-52)%Z in E by reflexivity.
  change (bpow radix2 (-52)) with (/ IZR (Zpower_pos 2 52)) in E.
  change (Zpower_pos 2 52) with 4503599627370496%Z in E.
  apply Rabs_le_inv in E. lra.
Qed.

(* integer statement: for at most 2^32 whole seconds the duration is exact and
   the slew in nanoseconds is at most 500 ppm of it *)
Lemma slew_numeric d p n : fin d = true -> R d = IZR n -> (1 <= n <= 2^32)%Z -> fin p = true ->
  dur_of_seconds d = (n * 1000000000)%Z /\ (Z.abs (dur_of_seconds (clamp d p)) <= 500000 * n)%Z.
Proof.
  intros Fd Rd Hn Fp.
  destruct (f_of_int_spec 1000000000) as [F9 R9]; [lia|].
  assert (Hn' : 1 <= IZR n <= 4294967296).
  { split; [apply IZR_le; lia|]. change 4294967296 with (IZR (2^32)). apply IZR_le. lia. }
  split.
  - unfold dur_of_seconds.
    assert (Fm : fmt (IZR (n * 1000000000))).
    { replace (n * 1000000000)%Z with ((n * 1953125) * 2^9)%Z by lia. apply fmt_int_shift; lia. }
    assert (B : Rabs (R d * R (f_of_int 1000000000)) <= bpow radix2 62).
    { rewrite Rd, R9, Rabs_pos_eq by nra. change (bpow radix2 62) with (IZR (2^62)).
      change (2^62)%Z with 4611686018427387904%Z. nra. }
    destruct (fmul_spec d (f_of_int 1000000000) 62 Fd F9) as [Fx [Rx _]]; [lia|exact B|].
    rewrite Rd, R9, <- mult_IZR, rnd_id in Rx by exact Fm.
    rewrite f_to_i64_spec; rewrite ?Rx, ?Ztrunc_IZR; try exact Fx; try reflexivity.
    unfold min_i64, max_i64. lia.
  - destruct (clamp_spec d p n Fd Rd) as [_ [_ [_ [_ [Fc Bc]]]]]; [lia|exact Fp|].
    set (c := clamp d p) in *. set (H := rnd (IZR n * C5)) in *.
    pose proof C5_bounds as CB.
    assert (HH : / 2048 <= H <= IZR n * C5 * (1 + / 9007199254740992)).
    { subst H. split.
      - replace (/ 2048) with (bpow radix2 (-11)) by (cbn; lra).
        rewrite <- (rnd_id (bpow radix2 (-11))) by (apply fmt_bpow; lia). apply rnd_le. cbn. nra.
      - apply rel_err. apply Rle_trans with (bpow radix2 (-11)); [apply bpow_le; lia|]. cbn. nra. }
    assert (HU : H <= 4194305) by nra.
    assert (B : Rabs (R c * R (f_of_int 1000000000)) <= bpow radix2 53).
    { rewrite R9, Rabs_mult, (Rabs_pos_eq 1000000000) by lra.
      assert (Rabs (R c) <= H) by (apply Rabs_le; lra).
      change (bpow radix2 53) with (IZR (2^53)). change (2^53)%Z with 9007199254740992%Z. nra. }
    unfold dur_of_seconds.
    destruct (fmul_spec c (f_of_int 1000000000) 53 Fc F9) as [Fx [Rx _]]; [lia|exact B|].
    rewrite R9 in Rx.
    assert (V : rnd (H * 1000000000) <= H * 1000000000 * (1 + / 9007199254740992)).
    { apply rel_err. apply Rle_trans with (bpow radix2 0); [apply bpow_le; lia|]. cbn. nra. }
    assert (A : Rabs (rnd (R c * 1000000000)) <= rnd (H * 1000000000)).
    { apply Rabs_le. split.
      - replace (- rnd (H * 1000000000)) with (rnd (- H * 1000000000)).
        + apply rnd_le. nra.
        + replace (- H * 1000000000) with (- (H * 1000000000)) by ring. apply round_NE_opp.
      - apply rnd_le. nra. }
    assert (Fin : Rabs (R (fmul c (f_of_int 1000000000))) < IZR (500000 * n) + 1).
    { rewrite Rx. eapply Rle_lt_trans; [exact A|]. eapply Rle_lt_trans; [exact V|].
      rewrite mult_IZR. unfold C5 in HH. change (Zpower_pos 2 63) with 9223372036854775808%Z in HH.
      nra. }
    pose proof (Ztrunc_abs_lt _ _ Fin) as T.
    rewrite f_to_i64_spec; [exact T|exact Fx|]. unfold min_i64, max_i64. lia.
Qed.

(* a positive duration has a positive number of seconds (at least 2^-30) *)
Lemma dur_seconds_pos z : (1 <= z <= max_i64)%Z -> 0 < R (dur_seconds z).
Proof.
  intros Hz. assert (Hz' : (0 <= z <= max_i64)%Z) by lia.
  assert (Hi : in_i64 z) by (unfold in_i64, min_i64, max_i64 in *; lia).
  destruct (dur_seconds_nonneg z Hz') as [[Lo _] _].
  destruct (Z_le_gt_dec 1 (z / E9)) as [Q|Q].
  - eapply Rlt_le_trans; [|exact Lo]. apply IZR_lt. lia.
  - assert (Q0 : (z / E9 = 0)%Z) by (assert (0 <= z / E9)%Z by (apply Z.div_pos; unfold E9; lia); lia).
    destruct (dur_seconds_core z Hi) as [_ [E _]].
    assert (Eq : Z.quot z E9 = 0%Z) by (rewrite Z.quot_div_nonneg by (unfold E9; lia); exact Q0).
    assert (Er : Z.rem z E9 = z).
    { rewrite Z.rem_mod_nonneg by (unfold E9; lia). pose proof (Z.div_mod z E9). unfold E9 in *. lia. }
    rewrite Eq, Er, Rplus_0_l in E. rewrite E.
    assert (B : bpow radix2 (-30) <= rnd (IZR z / IZR E9)).
    { rewrite <- (rnd_id (bpow radix2 (-30))) by (apply fmt_bpow; lia). apply rnd_le.
      change (bpow radix2 (-30)) with (/ IZR (Zpower_pos 2 30)). change (Zpower_pos 2 30) with 1073741824%Z.
      unfold E9. assert (1 <= IZR z) by (apply IZR_le; lia).
      apply Rmult_le_reg_r with 1000000000; [lra|]. unfold Rdiv. rewrite Rmult_assoc, Rinv_l by lra. lra. }
    eapply Rlt_le_trans; [apply (bpow_gt_0 radix2 (-30))|].
    rewrite <- (rnd_id (bpow radix2 (-30))) by (apply fmt_bpow; lia). apply rnd_le. exact B.
Qed.

(* the same for up to 9223372036 whole seconds, the last value for which
   int64(d*1e9) does not wrap: d*1e9 is no longer exact (error at most 1024 ns),
   the slew is at most 500 ppm of the whole seconds plus 1 ns *)
Lemma slew_numeric_wide d p n : fin d = true -> R d = IZR n -> (1 <= n <= 9223372036)%Z -> fin p = true ->
  (1000000000 <= dur_of_seconds d <= n * 1000000000 + 1024)%Z /\
  (Z.abs (dur_of_seconds (clamp d p)) <= 500000 * n + 1)%Z.
Proof.
  intros Fd Rd Hn Fp.
  destruct (f_of_int_spec 1000000000) as [F9 R9]; [lia|].
  assert (Hn' : 1 <= IZR n <= 9223372036).
  { split; [apply IZR_le; lia|]. apply IZR_le. lia. }
  split.
  - unfold dur_of_seconds.
    assert (B : Rabs (R d * R (f_of_int 1000000000)) <= bpow radix2 63).
    { rewrite Rd, R9, Rabs_pos_eq by nra. change (bpow radix2 63) with (IZR (2^63)).
      change (2^63)%Z with 9223372036854775808%Z. nra. }
    destruct (fmul_spec d (f_of_int 1000000000) 63 Fd F9) as [Fx [Rx _]]; [lia|exact B|].
    rewrite Rd, R9 in Rx.
    assert (Lo : 1000000000 <= rnd (IZR n * 1000000000)).
    { rewrite <- (rnd_id 1000000000) at 1 by (apply (fmt_int 1000000000); lia). apply rnd_le. nra. }
    assert (Hi : rnd (IZR n * 1000000000) <= IZR n * 1000000000 + 1024).
    { eapply Rle_trans; [apply rel_err|].
      - apply Rle_trans with (bpow radix2 0); [apply bpow_le; lia|]. cbn. nra.
      - nra. }
    set (y := rnd (IZR n * 1000000000)) in *.
    assert (T : (1000000000 <= Ztrunc y <= n * 1000000000 + 1024)%Z).
    { rewrite Ztrunc_floor by lra. split.
      - apply Zfloor_lub. exact Lo.
      - apply Zfloor_le in Hi. rewrite <- mult_IZR, <- plus_IZR, Zfloor_IZR in Hi. exact Hi. }
    rewrite f_to_i64_spec; rewrite ?Rx; try exact Fx; [exact T|]. unfold min_i64, max_i64. lia.
  - destruct (clamp_spec d p n Fd Rd) as [_ [_ [_ [_ [Fc Bc]]]]]; [lia|exact Fp|].
    set (c := clamp d p) in *. set (H := rnd (IZR n * C5)) in *.
    pose proof C5_bounds as CB.
    assert (HH : / 2048 <= H <= IZR n * C5 * (1 + / 9007199254740992)).
    { subst H. split.
      - replace (/ 2048) with (bpow radix2 (-11)) by (cbn; lra).
        rewrite <- (rnd_id (bpow radix2 (-11))) by (apply fmt_bpow; lia). apply rnd_le. cbn. nra.
      - apply rel_err. apply Rle_trans with (bpow radix2 (-11)); [apply bpow_le; lia|]. cbn. nra. }
    assert (HU : H <= 9007200) by nra.
    assert (B : Rabs (R c * R (f_of_int 1000000000)) <= bpow radix2 54).
    { rewrite R9, Rabs_mult, (Rabs_pos_eq 1000000000) by lra.
      assert (Rabs (R c) <= H) by (apply Rabs_le; lra).
      change (bpow radix2 54) with (IZR (2^54)). change (2^54)%Z with 18014398509481984%Z. nra. }
    unfold dur_of_seconds.
    destruct (fmul_spec c (f_of_int 1000000000) 54 Fc F9) as [Fx [Rx _]]; [lia|exact B|].
    rewrite R9 in Rx.
    assert (V : rnd (H * 1000000000) <= H * 1000000000 * (1 + / 9007199254740992)).
    { apply rel_err. apply Rle_trans with (bpow radix2 0); [apply bpow_le; lia|]. cbn. nra. }
    assert (A : Rabs (rnd (R c * 1000000000)) <= rnd (H * 1000000000)).
    { apply Rabs_le. split.
      - replace (- rnd (H * 1000000000)) with (rnd (- H * 1000000000)).
        + apply rnd_le. nra.
        + replace (- H * 1000000000) with (- (H * 1000000000)) by ring. apply round_NE_opp.
      - apply rnd_le. nra. }
    assert (Fin : Rabs (R (fmul c (f_of_int 1000000000))) < IZR (500000 * n + 1) + 1).
    { rewrite Rx. eapply Rle_lt_trans; [exact A|]. eapply Rle_lt_trans; [exact V|].
      rewrite plus_IZR, mult_IZR. unfold C5 in HH. change (Zpower_pos 2 63) with 9223372036854775808%Z in HH.
      nra. }
    pose proof (Ztrunc_abs_lt _ _ Fin) as T.
    rewrite f_to_i64_spec; [exact T|exact Fx|]. unfold min_i64, max_i64. lia.
Qed.
