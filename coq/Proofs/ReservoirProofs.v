(* Reservoir sampling (the loop of crypto.Sample) with exactly uniform draws:
   every candidate ends up in the reservoir for the same number of draw
   vectors, namely the fraction k/n of all of them.

   The draws of the loop are j_i in [0, i] for i = k .. n-1; a draw j < k puts
   candidate i into slot j.  `cnt k e res i m` counts the vectors of the next m
   draws after which candidate e is in the reservoir, starting from reservoir
   `res` before draw i. *)
From ST Require Import Base.Ints Model.Sample Model.PathAssign Proofs.SampleProofs Proofs.PathAssignProofs.
From Coq Require Import Arith.
Open Scope nat_scope.

Definition rstep (k : nat) (res : list nat) (i j : nat) : list nat :=
  if j <? k then set_nth j i res else res.

Definition memb (e : nat) (l : list nat) : bool := existsb (Nat.eqb e) l.
Lemma memb_In e l : memb e l = true <-> In e l.
Proof.
  unfold memb. rewrite existsb_exists. split.
  - intros [x [Hx He]]. apply Nat.eqb_eq in He. subst. exact Hx.
  - intros H. exists e. split; [exact H|apply Nat.eqb_refl].
Qed.
Lemma memb_true e l : In e l -> memb e l = true.
Proof. apply memb_In. Qed.
Lemma memb_false e l : ~ In e l -> memb e l = false.
Proof. intros H. destruct (memb e l) eqn:E; [apply memb_In in E; contradiction|reflexivity]. Qed.

Fixpoint cnt (k e : nat) (res : list nat) (i m : nat) : nat :=
  match m with
  | O => if memb e res then 1 else 0
  | S m' => list_sum (map (fun j => cnt k e (rstep k res i j) (S i) m') (seq 0 (S i)))
  end.

(* number of all draw vectors: (i+1)(i+2)...(i+m) *)
Fixpoint total_range (i m : nat) : nat :=
  match m with O => 1 | S m' => S i * total_range (S i) m' end.
(* i(i+1)...(i+m-1) *)
Fixpoint prod_range (i m : nat) : nat :=
  match m with O => 1 | S m' => i * prod_range (S i) m' end.

(* the count is a count: it is the number of draw vectors with the property *)
Fixpoint vectors (i m : nat) : list (list nat) :=
  match m with
  | O => [[]]
  | S m' => flat_map (fun j => map (cons j) (vectors (S i) m')) (seq 0 (S i))
  end.
Fixpoint run (k : nat) (res : list nat) (i : nat) (js : list nat) : list nat :=
  match js with [] => res | j :: r => run k (rstep k res i j) (S i) r end.

Lemma length_filter_flat_map {A B} (P : B -> bool) (f : A -> list B) l :
  length (filter P (flat_map f l)) = list_sum (map (fun x => length (filter P (f x))) l).
Proof.
  induction l as [|x r IH]; [reflexivity|]. cbn [flat_map map]. rewrite filter_app, app_length, IH. reflexivity.
Qed.

Lemma filter_map_cons {A B} (P : B -> bool) (g : A -> B) l :
  length (filter P (map g l)) = length (filter (fun x => P (g x)) l).
Proof. induction l as [|x r IH]; cbn; [reflexivity|]. destruct (P (g x)); cbn; rewrite IH; reflexivity. Qed.

Theorem cnt_counts k e res i m :
  cnt k e res i m =
  length (filter (fun js => memb e (run k res i js)) (vectors i m)).
Proof.
  revert res i. induction m as [|m IH]; intros res i; cbn [cnt vectors].
  - cbn [filter run]. destruct (memb e res); reflexivity.
  - rewrite length_filter_flat_map. f_equal. apply map_ext. intros j.
    rewrite filter_map_cons. cbn [run]. apply IH.
Qed.

Lemma length_flat_map {A B} (f : A -> list B) l :
  length (flat_map f l) = list_sum (map (fun x => length (f x)) l).
Proof.
  induction l as [|x r IH]; [reflexivity|]. cbn [flat_map map]. rewrite app_length, IH. reflexivity.
Qed.

Lemma sum_const {A} (g : A -> nat) c l : (forall j, In j l -> g j = c) -> list_sum (map g l) = length l * c.
Proof.
  induction l as [|x r IH]; intros H; [reflexivity|]. cbn [map length].
  change (list_sum (g x :: map g r)) with (g x + list_sum (map g r)).
  rewrite (H x) by (left; reflexivity). rewrite IH by (intros j Hj; apply H; right; exact Hj). reflexivity.
Qed.

Lemma vectors_length i m : length (vectors i m) = total_range i m.
Proof.
  revert i. induction m as [|m IH]; intros i; cbn [vectors total_range]; [reflexivity|].
  rewrite length_flat_map. rewrite (sum_const _ (total_range (S i) m)).
  - rewrite seq_length. reflexivity.
  - intros j _. rewrite map_length. apply IH.
Qed.

(* ---- sums ---- *)
Lemma sum_except (g : nat -> nat) c j0 l :
  NoDup l -> In j0 l -> g j0 = 0 -> (forall j, In j l -> j <> j0 -> g j = c) ->
  list_sum (map g l) + c = length l * c.
Proof.
  induction 1 as [|x r Hx Hr IH]; intros Hin H0 Hc; [destruct Hin|].
  cbn [map length]. change (list_sum (g x :: map g r)) with (g x + list_sum (map g r)).
  destruct Hin as [->|Hin].
  - rewrite H0. rewrite (sum_const g c r); [lia|]. intros j Hj. apply Hc; [right; exact Hj|]. intros ->. contradiction.
  - assert (Hgx : g x = c) by (apply Hc; [left; reflexivity|intros ->; contradiction]). rewrite Hgx.
    assert (IH' := IH Hin H0 (fun j Hj Hne => Hc j (or_intror Hj) Hne)). lia.
Qed.

Lemma sum_threshold (g : nat -> nat) c k n :
  k <= n -> (forall j, j < k -> g j = c) -> (forall j, k <= j < n -> g j = 0) ->
  list_sum (map g (seq 0 n)) = k * c.
Proof.
  intros Hk H1 H2. replace n with (k + (n - k)) by lia. rewrite seq_app, map_app, list_sum_app.
  rewrite (sum_const g c) by (intros j Hj; apply in_seq in Hj; apply H1; lia).
  rewrite (sum_const g 0) by (intros j Hj; apply in_seq in Hj; apply H2; lia).
  rewrite seq_length. lia.
Qed.

(* ---- set_nth and membership ---- *)
Lemma In_set_nth_keep {A} j (x e d : A) l : In e l -> nth j l d <> e -> In e (set_nth j x l).
Proof.
  revert j. induction l as [|y r IH]; intros [|j]; cbn; auto.
  - intros [->|H] Hn; [contradiction|auto].
  - intros [->|H] Hn; auto.
Qed.

Lemma In_set_nth_evict {A} j (x e d : A) l :
  NoDup l -> j < length l -> nth j l d = e -> e <> x -> ~ In e (set_nth j x l).
Proof.
  revert j. induction l as [|y r IH]; intros [|j] Hn Hj He Hx; cbn in *; try lia.
  - inversion Hn; subst. intros [H|H]; [congruence|contradiction].
  - inversion Hn as [|? ? Hy Hr]; subst. intros [H|H].
    + subst. apply Hy. apply nth_In. lia.
    + eapply IH; eauto. lia.
Qed.

Lemma In_set_nth_new {A} j (x : A) l : j < length l -> In x (set_nth j x l).
Proof. revert j. induction l as [|y r IH]; intros [|j] H; cbn in *; try lia; auto. right. apply IH. lia. Qed.

(* ---- the invariant of the loop ---- *)
Definition rinv' (k : nat) (res : list nat) (i : nat) : Prop :=
  length res = k /\ NoDup res /\ (forall x, In x res -> x < i) /\ k <= i.

Lemma rinv'_step k res i j : rinv' k res i -> rinv' k (rstep k res i j) (S i).
Proof.
  intros [Hl [Hn [Hb Hk]]]. unfold rstep. destruct (Nat.ltb_spec j k).
  - repeat split.
    + rewrite set_nth_length. exact Hl.
    + apply NoDup_set_nth; [exact Hn|]. intros Hi. apply Hb in Hi. lia.
    + intros x Hx. apply In_set_nth in Hx. destruct Hx as [->|Hx]; [lia|]. apply Hb in Hx. lia.
    + lia.
  - repeat split; auto. intros x Hx. apply Hb in Hx. lia.
Qed.

Lemma rinv'_init k : rinv' k (seq 0 k) k.
Proof. repeat split; [apply seq_length|apply seq_NoDup| |lia]. intros x Hx. apply in_seq in Hx. lia. Qed.

(* a candidate that was passed over or evicted never comes back *)
Lemma cnt_gone k e res i m : ~ In e res -> e < i -> cnt k e res i m = 0.
Proof.
  revert res i. induction m as [|m IH]; intros res i Hn He; cbn [cnt].
  - rewrite memb_false by exact Hn. reflexivity.
  - rewrite (sum_const _ 0); [lia|]. intros j _. apply IH; [|lia].
    unfold rstep. destruct (j <? k); [|exact Hn]. intros H. apply In_set_nth in H. destruct H as [->|H]; [lia|contradiction].
Qed.

(* a candidate in the reservoir before draw i survives draw t for t of the t+1 values *)
Lemma cnt_in k e res i m : rinv' k res i -> In e res -> cnt k e res i m = prod_range i m.
Proof.
  revert res i. induction m as [|m IH]; intros res i Hinv He; cbn [cnt prod_range].
  - rewrite memb_true by exact He. reflexivity.
  - destruct Hinv as [Hl [Hn [Hb Hk]]].
    destruct (In_nth _ _ 0 He) as [j0 [Hj0 Hnth]].
    assert (Hei : e < i) by (apply Hb; exact He).
    set (g := fun j => cnt k e (rstep k res i j) (S i) m).
    assert (Hsum : list_sum (map g (seq 0 (S i))) + prod_range (S i) m = length (seq 0 (S i)) * prod_range (S i) m).
    { apply (sum_except g _ j0).
      - apply seq_NoDup.
      - apply in_seq. lia.
      - unfold g, rstep. destruct (Nat.ltb_spec j0 k); [|lia]. apply cnt_gone; [|lia].
        apply (In_set_nth_evict j0 i e 0); auto; lia.
      - intros j Hj Hne. unfold g. apply IH; [apply rinv'_step; repeat split; auto|].
        unfold rstep. destruct (Nat.ltb_spec j k); [|exact He].
        apply (In_set_nth_keep j i e 0); [exact He|]. intros Hc.
        apply Hne. apply (proj1 (NoDup_nth res 0) Hn); lia. }
    rewrite seq_length in Hsum. fold g. cbn [Nat.mul] in Hsum. lia.
Qed.

(* candidate i enters at draw i for k of the i+1 values *)
Lemma cnt_enter k res i b : rinv' k res i -> cnt k i res i (S b) = k * prod_range (S i) b.
Proof.
  intros Hinv. cbn [cnt]. destruct Hinv as [Hl [Hn [Hb Hk]]].
  apply sum_threshold; [lia| |].
  - intros j Hj. apply cnt_in; [apply rinv'_step; repeat split; auto|].
    unfold rstep. destruct (Nat.ltb_spec j k); [|lia]. apply In_set_nth_new. lia.
  - intros j Hj. apply cnt_gone; [|lia]. unfold rstep. destruct (Nat.ltb_spec j k); [lia|].
    intros Hin. apply Hb in Hin. lia.
Qed.

(* a later candidate: all draws before its own are free *)
Lemma cnt_later k a : forall res i b, rinv' k res i ->
  cnt k (i + a) res i (a + S b) = total_range i a * (k * prod_range (S (i + a)) b).
Proof.
  induction a as [|a IH]; intros res i b Hinv.
  - rewrite Nat.add_0_r. cbn [Nat.add total_range]. rewrite cnt_enter by exact Hinv. lia.
  - cbn [Nat.add cnt total_range].
    rewrite (sum_const _ (total_range (S i) a * (k * prod_range (S (S i + a)) b))).
    + rewrite seq_length. replace (i + S a) with (S i + a) by lia. lia.
    + intros j _. replace (i + S a) with (S i + a) by lia. apply IH. apply rinv'_step. exact Hinv.
Qed.

(* ---- arithmetic of the products ---- *)
Lemma prod_total k m : prod_range k m * (k + m) = k * total_range k m.
Proof.
  revert k. induction m as [|m IH]; intros k; cbn [prod_range total_range]; [lia|].
  specialize (IH (S k)). replace (k + S m) with (S k + m) by lia. nia.
Qed.

Lemma total_split k a b : total_range k (a + S b) = total_range k a * (S (k + a) * total_range (S (k + a)) b).
Proof.
  revert k. induction a as [|a IH]; intros k; cbn [Nat.add total_range].
  - rewrite Nat.add_0_r. lia.
  - rewrite IH. replace (S k + a) with (k + S a) by lia. lia.
Qed.

(* Per-candidate uniformity of Sample(k, n) with exact uniform draws: for every candidate e < n the number of
   draw vectors that leave e in the reservoir, times n, is k times the number of all draw vectors, i.e. every
   candidate is selected with probability exactly k/n. *)
Theorem reservoir_inclusion_uniform k n e :
  k <= n -> e < n -> cnt k e (seq 0 k) k (n - k) * n = k * total_range k (n - k).
Proof.
  intros Hk He. destruct (Nat.lt_ge_cases e k) as [Hlt|Hge].
  - rewrite cnt_in; [|apply rinv'_init|apply in_seq; lia].
    replace n with (k + (n - k)) at 2 by lia. apply prod_total.
  - set (a := e - k). set (b := n - 1 - e).
    replace (n - k) with (a + S b) by (unfold a, b; lia).
    replace e with (k + a) by (unfold a; lia).
    rewrite cnt_later by apply rinv'_init. rewrite total_split.
    assert (Hn : n = S (k + a) + b) by (unfold a, b; lia).
    assert (Hp := prod_total (S (k + a)) b). rewrite <- Hn in Hp. rewrite <- Hp. ring.
Qed.

(* ---- link to the model of crypto.Sample ----
   The pick calls of the model's loop are exactly those of its draws, and
   carrying them out on the vector of candidate indices is `run`. *)
Open Scope Z_scope.

Fixpoint draws_picks (k i : Z) (js : list Z) : list (Z * Z) :=
  match js with
  | [] => []
  | j :: r => (if j <? k then [(j, i)] else []) ++ draws_picks k (i + 1) r
  end.

Fixpoint draws_ok (i : Z) (js : list Z) : Prop :=
  match js with [] => True | j :: r => 0 <= j <= i /\ draws_ok (i + 1) r end.

Lemma sample_loop_draws fuel k i c d tape ps rest :
  0 <= i -> i + Z.of_nat fuel <= max_i64 -> words tape -> word d ->
  sample_loop fuel k i c d tape = Ok (ps, rest) ->
  exists js, length js = fuel /\ draws_ok i js /\ ps = draws_picks k i js.
Proof.
  revert i tape ps rest. induction fuel as [|f IH]; intros i tape ps rest Hi Hmax Hw Hd; cbn [sample_loop].
  - intros H. inversion H; subst. exists []. repeat split.
  - destruct (rand_intn (i + 1) c d tape) as [[j tape1]| | |] eqn:Er; try discriminate.
    assert (Hi1 : 0 < i + 1 <= max_i64) by lia.
    destruct (rand_intn_range _ _ _ _ _ _ Hi1 Hw Hd Er) as [Hj Hw1].
    destruct (sample_loop f k (i + 1) c d tape1) as [[ps2 rest2]| | |] eqn:El; try discriminate.
    intros H. inversion H; subst.
    assert (Hi2 : 0 <= i + 1) by lia.
    assert (Hm2 : i + 1 + Z.of_nat f <= max_i64) by lia.
    destruct (IH (i + 1) tape1 ps2 rest Hi2 Hm2 Hw1 Hd El) as [js [Hl [Hok Hps]]].
    exists (j :: js). cbn [length draws_ok draws_picks]. repeat split; [lia|lia|lia|exact Hok|rewrite Hps; reflexivity].
Qed.

Definition idx_pick (res : list nat) (p : Z * Z) : list nat :=
  set_nth (Z.to_nat (fst p)) (Z.to_nat (snd p)) res.

Lemma run_picks k js : forall i res, draws_ok (Z.of_nat i) js ->
  fold_left idx_pick (draws_picks (Z.of_nat k) (Z.of_nat i) js) res = run k res i (map Z.to_nat js).
Proof.
  induction js as [|j r IH]; intros i res Hok; cbn [draws_picks map run fold_left]; [reflexivity|].
  destruct Hok as [Hj Hr]. rewrite fold_left_app.
  replace (Z.of_nat i + 1) with (Z.of_nat (S i)) in * by lia.
  rewrite IH by exact Hr. f_equal. unfold rstep.
  destruct (Z.ltb_spec j (Z.of_nat k)); destruct (Nat.ltb_spec (Z.to_nat j) k); try lia; cbn [fold_left]; [|reflexivity].
  unfold idx_pick. cbn [fst snd]. rewrite Nat2Z.id. reflexivity.
Qed.
