From ST Require Import Base.Ints Model.NtpTime Model.Tss Proofs.NtpTimeProofs.
From Coq Require Import ZArith List Bool Lia.
Import ListNotations.
Open Scope Z_scope.
Ltac Zify.zify_post_hook ::= Z.to_euclidean_division_equations.

(* ================= list helpers ================= *)
Lemma set_nth_length {A} i (x : A) l : length (set_nth i x l) = length l.
Proof. revert i; induction l as [|y r IH]; intros [|i]; cbn [set_nth length]; auto. Qed.

Lemma In_set_nth {A} i (x y : A) l : In y (set_nth i x l) -> y = x \/ In y l.
Proof.
  revert i; induction l as [|z r IH]; intros [|i]; cbn [set_nth In]; try tauto.
  - intros [H|H]; auto.
  - intros [H|H]; auto. destruct (IH _ H); auto.
Qed.

Lemma set_nth_In_new {A} i (x : A) l : (i < length l)%nat -> In x (set_nth i x l).
Proof.
  revert i; induction l as [|z r IH]; intros [|i]; cbn [set_nth In length]; try lia; auto.
  intros H. right. apply IH. lia.
Qed.

Lemma NoDup_map_set_nth {A} (f : A -> Z) i x l :
  NoDup (map f l) -> (i < length l)%nat -> (forall y, In y l -> f y = f x -> y = nth i l x) ->
  NoDup (map f (set_nth i x l)).
Proof.
  revert i; induction l as [|z r IH]; intros i Hnd Hi Hfresh; [cbn in Hi; lia|].
  cbn [map] in Hnd. inversion Hnd as [|? ? Hnotin Hnd']; subst.
  destruct i as [|i]; cbn [set_nth map].
  - constructor; [|exact Hnd'].
    intros Hin. apply in_map_iff in Hin. destruct Hin as [y [Hy1 Hy2]].
    assert (E : y = z) by (apply (Hfresh y); [right; exact Hy2|exact Hy1]).
    subst y. apply Hnotin. apply in_map. exact Hy2.
  - cbn [length] in Hi. constructor.
    + intros Hin. apply in_map_iff in Hin. destruct Hin as [y [Hy1 Hy2]].
      destruct (In_set_nth _ _ _ _ Hy2) as [->|Hy3].
      * assert (E : z = nth i r x) by (apply (Hfresh z); [left; reflexivity|symmetry; exact Hy1]).
        apply Hnotin. rewrite E at 1. apply in_map. apply nth_In. lia.
      * apply Hnotin. rewrite <- Hy1. apply in_map. exact Hy3.
    + apply IH; [exact Hnd'|lia|]. intros y Hy Hf. apply (Hfresh y); [right; exact Hy|exact Hf].
Qed.

(* simpler instance: the new key is fresh *)
Lemma NoDup_map_set_nth_fresh {A} (f : A -> Z) i x l :
  NoDup (map f l) -> (i < length l)%nat -> ~ In (f x) (map f l) -> NoDup (map f (set_nth i x l)).
Proof.
  intros Hnd Hi Hfresh. apply NoDup_map_set_nth; [exact Hnd|exact Hi|].
  intros y Hy Hf. exfalso. apply Hfresh. rewrite <- Hf. apply in_map. exact Hy.
Qed.

Lemma Forall_set_nth {A} (P : A -> Prop) i x l : Forall P l -> P x -> Forall P (set_nth i x l).
Proof.
  intros Hl Hx. rewrite Forall_forall in *. intros y Hy.
  destruct (In_set_nth _ _ _ _ Hy) as [->|H]; auto.
Qed.

Lemma removelast_length {A} (l : list A) : length (removelast l) = (length l - 1)%nat.
Proof.
  induction l as [|x r IH]; [reflexivity|]. destruct r as [|y r']; [reflexivity|].
  change (removelast (x :: y :: r')) with (x :: removelast (y :: r')). cbn [length] in *. lia.
Qed.

Lemma In_removelast {A} (x : A) l : In x (removelast l) -> In x l.
Proof.
  induction l as [|y r IH]; [tauto|]. destruct r as [|z r']; [cbn; tauto|].
  change (removelast (y :: z :: r')) with (y :: removelast (z :: r')). cbn [In]. intros [H|H]; [left; exact H|right; apply IH; exact H].
Qed.

Lemma In_last {A} (d : A) l : l <> [] -> In (last l d) l.
Proof.
  induction l as [|x r IH]; [congruence|]. intros _. destruct r as [|y r']; [left; reflexivity|].
  change (last (x :: y :: r') d) with (last (y :: r') d). right. apply IH. discriminate.
Qed.

Lemma In_swap_remove {A} (d : A) i x l : In x (swap_remove d i l) -> In x l.
Proof.
  unfold swap_remove. destruct (Nat.eqb i (length (removelast l))).
  - apply In_removelast.
  - intros H. destruct (In_set_nth _ _ _ _ H) as [->|H'].
    + destruct l as [|y r]; [destruct i; cbn in H; tauto|]. apply In_last. discriminate.
    + apply In_removelast. exact H'.
Qed.

Lemma swap_remove_length {A} (d : A) i l : length (swap_remove d i l) = (length l - 1)%nat.
Proof.
  unfold swap_remove. destruct (Nat.eqb i (length (removelast l))); [|rewrite set_nth_length]; apply removelast_length.
Qed.

Lemma Forall_swap_remove {A} (P : A -> Prop) d i l : Forall P l -> Forall P (swap_remove d i l).
Proof. rewrite !Forall_forall. intros H x Hx. apply H. eapply In_swap_remove. exact Hx. Qed.

Lemma NoDup_map_app_last {A} (f : A -> Z) init z :
  NoDup (map f (init ++ [z])) -> NoDup (map f init) /\ ~ In (f z) (map f init).
Proof.
  rewrite map_app. cbn [map]. intros H. apply NoDup_remove in H. rewrite app_nil_r in H. exact H.
Qed.

Lemma NoDup_map_swap_remove {A} (f : A -> Z) d i l :
  NoDup (map f l) -> (i < length l)%nat -> NoDup (map f (swap_remove d i l)).
Proof.
  intros Hnd Hi. destruct l as [|a l0]; [cbn in Hi; lia|].
  assert (Hne : a :: l0 <> []) by discriminate.
  pose proof (app_removelast_last d Hne) as Hsplit.
  set (l := a :: l0) in *. rewrite Hsplit in Hnd.
  destruct (NoDup_map_app_last f _ _ Hnd) as [Hnd' Hfresh].
  unfold swap_remove. destruct (Nat.eqb i (length (removelast l))) eqn:E; [exact Hnd'|].
  apply Nat.eqb_neq in E. apply NoDup_map_set_nth_fresh; [exact Hnd'| |exact Hfresh].
  rewrite removelast_length in *. lia.
Qed.

Lemma In_set_nth_other {A} i (x y : A) l d : In y (set_nth i x l) -> y = x \/ exists j, j <> i /\ (j < length l)%nat /\ nth j l d = y.
Proof.
  revert i; induction l as [|z r IH]; intros [|i]; cbn [set_nth In]; try tauto.
  - intros [H|H]; [left; auto|]. right. destruct (In_nth _ _ d H) as [j [Hj1 Hj2]]. exists (S j). cbn [length nth]. repeat split; [lia|lia|exact Hj2].
  - intros [H|H]; [right; exists 0%nat; cbn [length nth]; repeat split; [lia|lia|exact H]|].
    destruct (IH _ H) as [->|[j [Hj1 [Hj2 Hj3]]]]; [left; reflexivity|]. right. exists (S j). cbn [length nth]. repeat split; [lia|lia|exact Hj3].
Qed.

Lemma NoDup_map_nth_inj {A} (f : A -> Z) l d i j :
  NoDup (map f l) -> (i < length l)%nat -> (j < length l)%nat -> f (nth i l d) = f (nth j l d) -> i = j.
Proof.
  intros Hnd Hi Hj Hf. rewrite NoDup_nth with (d := f d) in Hnd.
  apply Hnd; rewrite ?map_length; try assumption. rewrite !map_nth. exact Hf.
Qed.

(* the entries left after swap_remove are entries of l other than the i-th *)
Lemma swap_remove_others {A} (f : A -> Z) d i l y :
  NoDup (map f l) -> (i < length l)%nat -> In y (swap_remove d i l) -> f y <> f (nth i l d).
Proof.
  intros Hnd Hi Hy. destruct l as [|a l0]; [cbn in Hi; lia|].
  assert (Hne : a :: l0 <> []) by discriminate.
  pose proof (app_removelast_last d Hne) as Hsplit.
  set (l := a :: l0) in *.
  assert (Hnd2 := Hnd). rewrite Hsplit in Hnd2.
  destruct (NoDup_map_app_last f _ _ Hnd2) as [Hnd' Hfresh].
  assert (Hlen : length (removelast l) = (length l - 1)%nat) by apply removelast_length.
  unfold swap_remove in Hy. destruct (Nat.eqb i (length (removelast l))) eqn:E.
  - apply Nat.eqb_eq in E.
    assert (Hz : nth i l d = last l d).
    { rewrite Hsplit at 1. rewrite app_nth2 by lia. rewrite E, Nat.sub_diag. reflexivity. }
    rewrite Hz. intros Heq. apply Hfresh. rewrite <- Heq. apply in_map. exact Hy.
  - apply Nat.eqb_neq in E.
    assert (Hi' : (i < length (removelast l))%nat) by lia.
    assert (Hn : nth i l d = nth i (removelast l) d) by (rewrite Hsplit at 1; apply app_nth1; exact Hi').
    rewrite Hn.
    destruct (In_set_nth_other _ _ _ _ d Hy) as [->|[j [Hj1 [Hj2 Hj3]]]].
    + intros Heq. apply Hfresh. rewrite Heq. apply in_map. apply nth_In. exact Hi'.
    + subst y. intros Heq. apply Hj1. eapply (NoDup_map_nth_inj f); eauto.
Qed.

(* ================= time ================= *)
Definition in_era (k t : Z) : Prop :=
  0 <= k < 1048576 /\ k * 4294967296 <= time_sec t - ntp_epoch < (k + 1) * 4294967296.

Lemma in_era_convex k a b t : in_era k a -> in_era k b -> a <= t <= b -> in_era k t.
Proof.
  unfold in_era, time_sec, nanos_per_sec, ntp_epoch. intros [Hk Ha] [_ Hb] Ht. split; [exact Hk|]. lia.
Qed.

Lemma to64_value k t : in_era k t ->
  to64 t = (time_sec t - ntp_epoch - k * 4294967296) * 4294967296 + time_nsec t * 4294967296 / 1000000000.
Proof.
  unfold in_era, to64, t64_num, time64_of_time. cbn [t64_sec t64_frac]. intros [Hk Ht].
  destruct (time_sec_nsec t) as [_ Hr].
  rewrite frac_value by (unfold nanos_per_sec in Hr; exact Hr).
  unfold u32, ntp_epoch in *.
  rewrite i64_id by (unfold min_i64, max_i64; lia).
  f_equal. f_equal. lia.
Qed.

Lemma to64_strict_mono k a b : in_era k a -> in_era k b -> a < b -> to64 a < to64 b.
Proof.
  intros Ha Hb Hlt. rewrite (to64_value k a Ha), (to64_value k b Hb).
  destruct (time_sec_nsec a) as [Hda Hra]. destruct (time_sec_nsec b) as [Hdb Hrb].
  unfold nanos_per_sec in *.
  assert (Hs : time_sec a <= time_sec b) by (unfold time_sec, nanos_per_sec; lia).
  destruct (Z.eq_dec (time_sec a) (time_sec b)) as [E|E].
  - rewrite E. assert (time_nsec a < time_nsec b) by lia. lia.
  - assert (0 <= time_nsec a * 4294967296 / 1000000000 < 4294967296) by lia.
    assert (0 <= time_nsec b * 4294967296 / 1000000000 < 4294967296) by lia. nia.
Qed.

Lemma to64_mono k a b : in_era k a -> in_era k b -> a <= b -> to64 a <= to64 b.
Proof.
  intros Ha Hb Hle. destruct (Z.eq_dec a b) as [->|N]; [lia|].
  pose proof (to64_strict_mono k a b Ha Hb). lia.
Qed.

Lemma to64_inj k a b : in_era k a -> in_era k b -> to64 a = to64 b -> a = b.
Proof.
  intros Ha Hb E. destruct (Z.lt_trichotomy a b) as [H|[H|H]]; [|exact H|].
  - pose proof (to64_strict_mono k a b Ha Hb H). lia.
  - pose proof (to64_strict_mono k b a Hb Ha H). lia.
Qed.

(* ================= the collision loop ================= *)
Lemma has_rx_true rx l : has_rx rx l = true <-> exists e, In e l /\ e_rx e = rx.
Proof.
  unfold has_rx. rewrite existsb_exists. split; intros [e [H1 H2]]; exists e; split; auto; lia.
Qed.
Lemma has_rx_false rx l : has_rx rx l = false <-> forall e, In e l -> e_rx e <> rx.
Proof.
  split.
  - intros H e He Heq. assert (has_rx rx l = true) by (apply has_rx_true; exists e; auto). congruence.
  - intros H. destruct (has_rx rx l) eqn:E; [|reflexivity]. apply has_rx_true in E. destruct E as [e [H1 H2]]. exfalso. eapply H; eauto.
Qed.

Lemma filter_length_lt {A} (p q : A -> bool) l :
  (forall x, q x = true -> p x = true) -> (exists x, In x l /\ p x = true /\ q x = false) ->
  (length (filter q l) < length (filter p l))%nat.
Proof.
  intros Hsub [x [Hin [Hp Hq]]].
  assert (Hle : forall l', (length (filter q l') <= length (filter p l'))%nat).
  { induction l' as [|y r IH]; cbn [filter]; [lia|].
    destruct (q y) eqn:Eq; [rewrite (Hsub _ Eq); cbn [length]; lia|]. destruct (p y); cbn [length]; lia. }
  induction l as [|y r IH]; [destruct Hin|]. cbn [filter]. destruct Hin as [->|Hin].
  - rewrite Hp, Hq. cbn [length]. specialize (Hle r). lia.
  - specialize (IH Hin). destruct (q y) eqn:Eq; [rewrite (Hsub _ Eq); cbn [length]; lia|]. destruct (p y); cbn [length]; lia.
Qed.

Definition cnt_ge (v : Z) (l : list entry) : nat := length (filter (fun e => v <=? e_rx e) l).

Lemma uniq_spec k l : forall fuel rxt txt,
  (cnt_ge (to64 rxt) l < fuel)%nat -> in_era k rxt -> in_era k (rxt + Z.of_nat fuel) -> rxt < txt ->
  exists rxt' txt', uniq fuel l rxt txt = Some (rxt', txt') /\
    rxt <= rxt' <= rxt + Z.of_nat fuel - 1 /\ has_rx (to64 rxt') l = false /\ rxt' < txt' /\
    (txt' = txt \/ txt' = rxt' + 1) /\ (rxt' = rxt -> txt' = txt) /\ txt <= txt'.
Proof.
  induction fuel as [|f IH]; intros rxt txt Hc Ha Hb Hlt; [lia|].
  cbn [uniq]. destruct (has_rx (to64 rxt) l) eqn:E.
  - apply has_rx_true in E. destruct E as [e [He1 He2]].
    assert (Hera1 : in_era k (rxt + 1)) by (apply (in_era_convex k rxt (rxt + Z.of_nat (S f))); auto; lia).
    assert (Hm : to64 rxt < to64 (rxt + 1)) by (apply (to64_strict_mono k); auto; lia).
    assert (Hcnt : (cnt_ge (to64 (rxt + 1)) l < cnt_ge (to64 rxt) l)%nat).
    { unfold cnt_ge. apply filter_length_lt.
      - intros x Hx. lia.
      - exists e. split; [exact He1|]. split; lia. }
    destruct f as [|f'].
    + exfalso. lia.
    + set (txt1 := if rxt + 1 <? txt then txt else rxt + 1 + 1).
      assert (Hlt1 : rxt + 1 < txt1) by (unfold txt1; destruct (rxt + 1 <? txt) eqn:F; lia).
      destruct (IH (rxt + 1) txt1) as [r' [t' [H1 [H2 [H3 [H4 [H5 [H6 H7]]]]]]]]; try lia; auto.
      { replace (rxt + 1 + Z.of_nat (S f')) with (rxt + Z.of_nat (S (S f'))) by lia. exact Hb. }
      exists r', t'. split; [exact H1|]. split; [lia|]. split; [exact H3|]. split; [exact H4|].
      assert (Ht1 : txt <= txt1) by (unfold txt1; destruct (rxt + 1 <? txt) eqn:F; lia).
      split; [|split; [intros; lia|lia]].
      destruct H5 as [-> | ->]; [|right; reflexivity].
      unfold txt1. destruct (rxt + 1 <? txt) eqn:F; [left; reflexivity|].
      (* txt1 = rxt+2 and r' >= rxt+1, r' < t' = rxt+2 hence r' = rxt+1 *)
      right. subst txt1. cbv beta iota in H4. lia.
  - exists rxt, txt. split; [reflexivity|]. repeat split; try lia; auto.
Qed.

Lemma cnt_ge_le v l : (cnt_ge v l <= length l)%nat.
Proof. unfold cnt_ge. induction l as [|x r IH]; cbn [filter length]; [lia|]. destruct (v <=? e_rx x); cbn [length]; lia. Qed.

(* ================= scans ================= *)
Section Scan.
  Variable org : Z.
  Definition Oinv (p : list entry) (o : option (nat * Z)) : Prop :=
    match o with
    | Some (j, tx) => exists e, nth_error p j = Some e /\ e_rx e = org /\ e_tx e = tx
    | None => forall e, In e p -> e_rx e <> org
    end.
  Definition Mninv (p : list entry) (m : option (nat * Z)) : Prop :=
    match m with
    | Some (j, v) => (exists e, nth_error p j = Some e /\ e_rx e = v) /\ forall e, In e p -> v <= e_rx e
    | None => p = []
    end.
  Definition Mxinv (p : list entry) (m : option (nat * Z)) : Prop :=
    match m with
    | Some (j, v) => (exists e, nth_error p j = Some e /\ e_rx e = v) /\ forall e, In e p -> e_rx e <= v
    | None => p = []
    end.

  Lemma nth_error_app_last {A} (p : list A) e : nth_error (p ++ [e]) (length p) = Some e.
  Proof. rewrite nth_error_app2 by lia. rewrite Nat.sub_diag. reflexivity. Qed.
  Lemma nth_error_app_keep {A} (p : list A) e j x : nth_error p j = Some x -> nth_error (p ++ [e]) j = Some x.
  Proof. intros H. rewrite nth_error_app1; [exact H|]. apply nth_error_Some. congruence. Qed.

  Lemma scan_from_inv l : forall p o mn mx,
    Oinv p o -> Mninv p mn -> Mxinv p mx ->
    let '(o', mn', mx') := scan_from (length p) l org o mn mx in
    Oinv (p ++ l) o' /\ Mninv (p ++ l) mn' /\ Mxinv (p ++ l) mx'.
  Proof.
    induction l as [|e r IH]; intros p o mn mx Ho Hmn Hmx.
    - cbn [scan_from]. rewrite app_nil_r. auto.
    - cbn [scan_from].
      replace (S (length p)) with (length (p ++ [e])) by (rewrite app_length; cbn; lia).
      replace (p ++ e :: r) with ((p ++ [e]) ++ r) by (rewrite <- app_assoc; reflexivity).
      apply IH.
      + destruct (e_rx e =? org) eqn:E.
        * cbn [Oinv]. exists e. split; [apply nth_error_app_last|]. split; [lia|reflexivity].
        * destruct o as [[j tx]|]; cbn [Oinv] in *.
          -- destruct Ho as [x [H1 H2]]. exists x. split; [apply nth_error_app_keep; exact H1|exact H2].
          -- intros x Hx. apply in_app_or in Hx. destruct Hx as [Hx|[<-|[]]]; [apply Ho; exact Hx|lia].
      + destruct mn as [[j v]|]; cbn [Mninv] in *.
        * destruct Hmn as [[x [H1 H2]] H3]. destruct (e_rx e <? v) eqn:E; cbn [Mninv].
          -- split; [exists e; split; [apply nth_error_app_last|reflexivity]|].
             intros y Hy. apply in_app_or in Hy. destruct Hy as [Hy|[<-|[]]]; [specialize (H3 y Hy); lia|lia].
          -- split; [exists x; split; [apply nth_error_app_keep; exact H1|exact H2]|].
             intros y Hy. apply in_app_or in Hy. destruct Hy as [Hy|[<-|[]]]; [apply H3; exact Hy|lia].
        * subst p. cbn [Mninv app length]. split; [exists e; split; reflexivity|]. intros y [<-|[]]. lia.
      + destruct mx as [[j v]|]; cbn [Mxinv] in *.
        * destruct Hmx as [[x [H1 H2]] H3]. destruct (negb (e_rx e <? v)) eqn:E; cbn [Mxinv].
          -- split; [exists e; split; [apply nth_error_app_last|reflexivity]|].
             intros y Hy. apply in_app_or in Hy. destruct Hy as [Hy|[<-|[]]]; [specialize (H3 y Hy); lia|lia].
          -- split; [exists x; split; [apply nth_error_app_keep; exact H1|exact H2]|].
             intros y Hy. apply in_app_or in Hy. destruct Hy as [Hy|[<-|[]]]; [apply H3; exact Hy|lia].
        * subst p. cbn [Mxinv app length]. split; [exists e; split; reflexivity|]. intros y [<-|[]]. lia.
  Qed.

  Lemma scan_spec l :
    let '(o, mn, mx) := scan l org in Oinv l o /\ Mninv l mn /\ Mxinv l mx.
  Proof.
    unfold scan. pose proof (scan_from_inv l [] None None None) as H. cbn [length app] in H.
    apply H; cbn; auto; intros e [].
  Qed.
End Scan.

Section ScanTx.
  Variable rx64 : Z.
  Definition M01inv (p : list entry) (m0 m1 : option Z) : Prop :=
    match m0 with
    | None => p = [] /\ m1 = None
    | Some a => (exists e, In e p /\ e_rx e = a) /\ (forall e, In e p -> e_rx e <= a) /\
                match m1 with
                | Some b => (exists e, In e p /\ e_rx e = b) /\ (forall e, In e p -> e_rx e <> a -> e_rx e <= b)
                | None => forall e, In e p -> e_rx e = a
                end
    end.

  Lemma scan_tx_from_inv l : forall p x m0 m1,
    Oinv rx64 p x -> M01inv p m0 m1 ->
    let '(x', m0', m1') := scan_tx_from (length p) l rx64 x m0 m1 in
    Oinv rx64 (p ++ l) x' /\ M01inv (p ++ l) m0' m1'.
  Proof.
    induction l as [|e r IH]; intros p x m0 m1 Hx Hm.
    - cbn [scan_tx_from]. rewrite app_nil_r. auto.
    - cbn [scan_tx_from].
      set (pr := match m0 with
        | None => (Some (e_rx e), m0)
        | Some a => if negb (e_rx e <? a) then (Some (e_rx e), m0)
                    else match m1 with
                         | None => (m0, Some (e_rx e))
                         | Some b => if negb (e_rx e <? b) then (m0, Some (e_rx e)) else (m0, m1)
                         end
        end).
      destruct pr as [m0' m1'] eqn:Epr.
      replace (S (length p)) with (length (p ++ [e])) by (rewrite app_length; cbn; lia).
      replace (p ++ e :: r) with ((p ++ [e]) ++ r) by (rewrite <- app_assoc; reflexivity).
      apply IH.
      + destruct (e_rx e =? rx64) eqn:E.
        * cbn [Oinv]. exists e. split; [apply nth_error_app_last|]. split; [lia|reflexivity].
        * destruct x as [[j tx]|]; cbn [Oinv] in *.
          -- destruct Hx as [y [H1 H2]]. exists y. split; [apply nth_error_app_keep; exact H1|exact H2].
          -- intros y Hy. apply in_app_or in Hy. destruct Hy as [Hy|[<-|[]]]; [apply Hx; exact Hy|lia].
      + unfold pr in Epr. clear pr. destruct m0 as [a|]; cbn [M01inv] in Hm.
        * destruct Hm as [[ea [Ha1 Ha2]] [Hmax Hm1]].
          destruct (negb (e_rx e <? a)) eqn:E.
          -- inversion Epr; subst m0' m1'. cbn [M01inv].
             split; [exists e; split; [apply in_or_app; right; left; reflexivity|reflexivity]|].
             split; [intros y Hy; apply in_app_or in Hy; destruct Hy as [Hy|[<-|[]]]; [specialize (Hmax y Hy); lia|lia]|].
             split; [exists ea; split; [apply in_or_app; left; exact Ha1|exact Ha2]|].
             intros y Hy Hne. apply in_app_or in Hy. destruct Hy as [Hy|[<-|[]]]; [apply Hmax; exact Hy|congruence].
          -- destruct m1 as [b|].
             ++ destruct Hm1 as [[eb [Hb1 Hb2]] Hrest].
                destruct (negb (e_rx e <? b)) eqn:F; inversion Epr; subst m0' m1'; cbn [M01inv].
                ** split; [exists ea; split; [apply in_or_app; left; exact Ha1|exact Ha2]|].
                   split; [intros y Hy; apply in_app_or in Hy; destruct Hy as [Hy|[<-|[]]]; [apply Hmax; exact Hy|lia]|].
                   split; [exists e; split; [apply in_or_app; right; left; reflexivity|reflexivity]|].
                   intros y Hy Hne. apply in_app_or in Hy. destruct Hy as [Hy|[<-|[]]]; [specialize (Hrest y Hy Hne); lia|lia].
                ** split; [exists ea; split; [apply in_or_app; left; exact Ha1|exact Ha2]|].
                   split; [intros y Hy; apply in_app_or in Hy; destruct Hy as [Hy|[<-|[]]]; [apply Hmax; exact Hy|lia]|].
                   split; [exists eb; split; [apply in_or_app; left; exact Hb1|exact Hb2]|].
                   intros y Hy Hne. apply in_app_or in Hy. destruct Hy as [Hy|[<-|[]]]; [apply Hrest; assumption|lia].
             ++ inversion Epr; subst m0' m1'; cbn [M01inv].
                split; [exists ea; split; [apply in_or_app; left; exact Ha1|exact Ha2]|].
                split; [intros y Hy; apply in_app_or in Hy; destruct Hy as [Hy|[<-|[]]]; [apply Hmax; exact Hy|lia]|].
                split; [exists e; split; [apply in_or_app; right; left; reflexivity|reflexivity]|].
                intros y Hy Hne. apply in_app_or in Hy. destruct Hy as [Hy|[<-|[]]]; [specialize (Hm1 y Hy); congruence|lia].
        * destruct Hm as [-> ->]. inversion Epr; subst m0' m1'. cbn [M01inv app].
          split; [exists e; split; [left; reflexivity|reflexivity]|].
          split; [intros y [<-|[]]; lia|]. intros y [<-|[]]. reflexivity.
  Qed.

  Lemma scan_tx_spec l :
    let '(x, m0, m1) := scan_tx_from 0 l rx64 None None None in Oinv rx64 l x /\ M01inv l m0 m1.
  Proof.
    pose proof (scan_tx_from_inv l [] None None None) as H. cbn [length app] in H.
    apply H; cbn; auto; intros e [].
  Qed.
End ScanTx.
